From Coq Require Import List NArith Bool Lia.
Import ListNotations.
From V Require Import Fix Sem Prod Incl TrimDefs TrimProofs Lang ProductDefs ProductProofs PoolDefs.

Lemma plookup_filter_ne p k h : h <> k -> plookup (filter (fun e => negb (N.eqb (fst e) k)) p) h = plookup p h.
Proof.
  intros Hne. induction p as [|[h' a] p IH]; simpl; auto.
  destruct (N.eqb_spec h' k) as [E|NE]; simpl.
  - subst. destruct (N.eqb_spec k h); [congruence | auto].
  - destruct (N.eqb h' h); auto.
Qed.
Lemma plookup_pset_same p k a : plookup (pset p k a) k = Some a.
Proof. unfold pset; simpl. rewrite N.eqb_refl. reflexivity. Qed.
Lemma plookup_pset_other p k a h : h <> k -> plookup (pset p k a) h = plookup p h.
Proof. intros H. unfold pset; simpl. destruct (N.eqb_spec k h); [congruence|]. apply plookup_filter_ne; auto. Qed.

(* frame: a step never changes the value of any handle other than its target *)
Theorem pool_step_frame p o h : h <> target o -> plookup (pool_step p o) h = plookup p h.
Proof.
  intros H. destruct o; simpl in *;
    repeat match goal with |- context [match plookup p ?x with _ => _ end] => destruct (plookup p x) end;
    auto; try (apply plookup_pset_other; auto). apply plookup_filter_ne; auto.
Qed.

(* what the target denotes after each kind of step *)
Theorem pool_union_lang p k i j a b : plookup p i = Some a -> plookup p j = Some b ->
  exists c, plookup (pool_step p (OUnion k i j)) k = Some c /\ forall t, accepts c t <-> accepts a t \/ accepts b t.
Proof. intros Ha Hb. simpl. rewrite Ha, Hb. exists (tagged a b). split; [apply plookup_pset_same | apply tagged_lang]. Qed.
Theorem pool_isect_lang p k i j a b : plookup p i = Some a -> plookup p j = Some b ->
  exists c, plookup (pool_step p (OIsect k i j)) k = Some c /\ forall t, accepts c t <-> accepts a t /\ accepts b t.
Proof. intros Ha Hb. simpl. rewrite Ha, Hb. exists (product a b). split; [apply plookup_pset_same | apply product_lang]. Qed.
Theorem pool_keep_lang p k i a : plookup p i = Some a -> plookup (pool_step p (OKeep k i)) k = Some a.
Proof. intros Ha. simpl. rewrite Ha. apply plookup_pset_same. Qed.
Theorem pool_copy_value p k j a : plookup p j = Some a -> plookup (pool_step p (OCopy k j)) k = Some a.
Proof. intros Ha. simpl. rewrite Ha. apply plookup_pset_same. Qed.

(* the gate *)
Definition pool_agree (model observed : pool) :=
  (forall h o, plookup observed h = Some o -> exists a, plookup model h = Some a /\ leq o a) /\
  (forall h a, plookup model h = Some a -> exists o, plookup observed h = Some o).

Lemma plookup_in p : forall h a, plookup p h = Some a -> In (h, a) p.
Proof. induction p as [|[h' b] p IH]; simpl; intros h a H; [discriminate|]. destruct (N.eqb_spec h' h); [inversion H; subst; auto | right; auto]. Qed.

Theorem pool_gate_sound model observed : pool_gate model observed = true -> pool_agree model observed.
Proof.
  unfold pool_gate, pool_agree. rewrite andb_true_iff, !forallb_forall. intros [H1 H2]. split.
  - intros h o Ho. specialize (H1 (h, o) (plookup_in _ _ _ Ho)). simpl in H1. destruct (plookup model h) as [a|]; [|discriminate].
    exists a. split; auto. apply equiv_dec_spec; auto.
  - intros h a Ha. specialize (H2 (h, a) (plookup_in _ _ _ Ha)). simpl in H2. destruct (plookup observed h) as [o|]; [|discriminate]. exists o; auto.
Qed.

(* replacing model values by language-equivalent observed values is sound: the operations are congruences *)
Theorem tagged_congr a a' b b' : leq a a' -> leq b b' -> leq (tagged a b) (tagged a' b').
Proof. intros Ha Hb t. rewrite !tagged_lang. rewrite (Ha t), (Hb t). tauto. Qed.
Theorem product_congr a a' b b' : leq a a' -> leq b b' -> leq (product a b) (product a' b').
Proof. intros Ha Hb t. rewrite !product_lang. rewrite (Ha t), (Hb t). tauto. Qed.
Theorem add_final_sup q a t : accepts a t -> accepts (add_final q a) t.
Proof. intros [p [Hp R]]. exists p. split; [right; auto | revert R; apply reach_mono; apply incl_refl]. Qed.
