(* scratch sketch: reduced ordered multi-terminal decision diagrams as trees; pointwise apply; canonicity *)
From Coq Require Import List Arith Lia Bool.
Import ListNotations.

Section DD.
Variable V : Type.
Variable V_eq_dec : forall a b : V, {a = b} + {a <> b}.

Inductive dd := Leaf (v : V) | Nd (x : nat) (lo hi : dd).

Definition dd_eq_dec : forall a b : dd, {a = b} + {a <> b}.
Proof. decide equality. apply Nat.eq_dec. Defined.

Definition asg := nat -> bool.
Fixpoint ev (d : dd) (s : asg) : V :=
  match d with Leaf v => v | Nd x lo hi => if s x then ev hi s else ev lo s end.

(* variables strictly decrease from the root: root carries the highest index *)
Definition top_lt (d : dd) (b : nat) : Prop := match d with Leaf _ => True | Nd x _ _ => x < b end.
Fixpoint wf (d : dd) : Prop :=
  match d with
  | Leaf _ => True
  | Nd x lo hi => lo <> hi /\ top_lt lo x /\ top_lt hi x /\ wf lo /\ wf hi
  end.

(* all variables of d are below b *)
Fixpoint below (d : dd) (b : nat) : Prop :=
  match d with Leaf _ => True | Nd x lo hi => x < b /\ below lo b /\ below hi b end.
Lemma wf_below d : wf d -> forall b, top_lt d b -> below d b.
Proof.
  induction d as [v|x lo IHlo hi IHhi]; simpl; auto.
  intros [_ [Hl [Hh [Wl Wh]]]] b Hb. split; auto. split.
  - apply IHlo; auto. destruct lo; simpl in *; auto. lia.
  - apply IHhi; auto. destruct hi; simpl in *; auto. lia.
Qed.
Lemma below_weaken d : forall b c, below d b -> b <= c -> below d c.
Proof. induction d; simpl; auto. intros b c [H1 [H2 H3]] L. repeat split; [lia| eapply IHd1 | eapply IHd2]; eauto. Qed.

Definition upd (s : asg) (x : nat) (b : bool) : asg := fun y => if Nat.eqb y x then b else s y.
Lemma ev_upd_below d : forall x b s, below d x -> ev d (upd s x b) = ev d s.
Proof.
  induction d as [v|y lo IHlo hi IHhi]; simpl; auto. intros x b s [Hy [Hl Hh]].
  unfold upd at 1. destruct (Nat.eqb_spec y x); [lia|]. rewrite IHlo, IHhi; auto.
Qed.

Lemma ev_node_upd x lo hi s b : below lo x -> below hi x ->
  ev (Nd x lo hi) (upd s x b) = if b then ev hi s else ev lo s.
Proof. intros Hl Hh. simpl. unfold upd at 1. rewrite Nat.eqb_refl. destruct b; apply ev_upd_below; auto. Qed.

(* a diagram that does not mention x is insensitive to x *)
Lemma split_eq x lo hi d : below lo x -> below hi x -> below d x ->
  (forall s, ev (Nd x lo hi) s = ev d s) -> (forall s, ev lo s = ev d s) /\ (forall s, ev hi s = ev d s).
Proof.
  intros Hl Hh Hd E. split; intros s.
  - specialize (E (upd s x false)). rewrite ev_node_upd in E by auto. rewrite ev_upd_below in E by auto. exact E.
  - specialize (E (upd s x true)). rewrite ev_node_upd in E by auto. rewrite ev_upd_below in E by auto. exact E.
Qed.

(* canonicity *)
Theorem canonical : forall a b, wf a -> wf b -> (forall s, ev a s = ev b s) -> a = b.
Proof.
  induction a as [va|x lo IHlo hi IHhi]; intros b Wa Wb E.
  - induction b as [vb|y l IHl h IHh]; [f_equal; apply (E (fun _ => false))|].
    exfalso. simpl in Wb. destruct Wb as [Hne [Tl [Th [Wl Wh]]]].
    assert (Bl := wf_below l Wl y Tl). assert (Bh := wf_below h Wh y Th).
    destruct (split_eq y l h (Leaf va) Bl Bh I (fun s => eq_sym (E s))) as [E1 E2].
    apply Hne. transitivity (Leaf va); [symmetry; apply IHl; auto | apply IHh; auto].
  - simpl in Wa. destruct Wa as [Hne [Tl [Th [Wl Wh]]]].
    assert (Bl := wf_below lo Wl x Tl). assert (Bh := wf_below hi Wh x Th).
    induction b as [vb|y l IHl h IHh].
    + exfalso. destruct (split_eq x lo hi (Leaf vb) Bl Bh I E) as [E1 E2].
      apply Hne. transitivity (Leaf vb); [apply IHlo | symmetry; apply IHhi]; simpl; auto.
    + simpl in Wb. destruct Wb as [Hne' [Tl' [Th' [Wl' Wh']]]].
      assert (Bl' := wf_below l Wl' y Tl'). assert (Bh' := wf_below h Wh' y Th').
      destruct (lt_eq_lt_dec x y) as [[L|Eq]|G].
      * exfalso.
        assert (Ba : below (Nd x lo hi) y) by (simpl; repeat split; auto; eapply below_weaken; eauto; lia).
        destruct (split_eq y l h (Nd x lo hi) Bl' Bh' Ba (fun s => eq_sym (E s))) as [E1 E2].
        apply Hne'. transitivity (Nd x lo hi); [symmetry; apply IHl; auto | apply IHh; auto].
      * subst y. f_equal.
        -- apply IHlo; auto. intros s. specialize (E (upd s x false)). rewrite !ev_node_upd in E by auto. exact E.
        -- apply IHhi; auto. intros s. specialize (E (upd s x true)). rewrite !ev_node_upd in E by auto. exact E.
      * exfalso.
        assert (Bb : below (Nd y l h) x) by (simpl; repeat split; auto; eapply below_weaken; eauto; lia).
        destruct (split_eq x lo hi (Nd y l h) Bl Bh Bb E) as [E1 E2].
        apply Hne. transitivity (Nd y l h); [apply IHlo | symmetry; apply IHhi]; simpl; auto.
Qed.
End DD.
Print Assumptions canonical.
