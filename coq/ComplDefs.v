(* C06 — complement over a ranked alphabet: the universal automaton over Sigma and the gate on libvata's
   result. Definitions only (extracted). *)
From Coq Require Import List NArith Bool Arith.
Import ListNotations.
From V Require Import Fix Sem Prod Incl TrimDefs Lang.

Definition sigma := list (N * nat).           (* (symbol code, rank) *)
Definition in_sigma (S : sigma) (f : N) (k : nat) : bool := existsb (fun p => N.eqb (fst p) f && Nat.eqb (snd p) k) S.

(* one state, one rule per ranked symbol: accepts exactly the trees over Sigma *)
Definition univ (S : sigma) : ta :=
  {| rules := map (fun p => {| sym := fst p; ch := repeat 0%N (snd p); par := 0%N |}) S; finals := [0%N] |}.

(* A's rules use symbols of Sigma with the registered rank *)
Definition ranked (S : sigma) (A : ta) : bool := forallb (fun r => in_sigma S (sym r) (length (ch r))) (rules A).

Definition empty_ta : ta := {| rules := []; finals := [] |}.

(* gate: on trees over Sigma exactly one of A, C accepts; C accepts nothing outside Sigma *)
Definition compl_gate (S : sigma) (A C : ta) : bool :=
  incl_dec (univ S) (tagged A C) && isect_gate A C empty_ta && incl_dec C (univ S).
