(* C02 — union and intersection of explicit tree automata have exact language semantics; the reported maps
   name the states of the result. Statements only. *)
From Coq Require Import List NArith Bool.
From V Require Import Sem Prod Incl TrimDefs Lang ProductDefs ProductProofs BinopDefs BinopProofs SharedTable ProdNumbering.

(* Union as the code builds it (both operands re-indexed into one automaton) accepts exactly the union,
   for every pair of reported maps that are injective on the operands' states with disjoint ranges *)
Theorem C02_union_lang : forall hA hB A B, valid_unionb hA hB A B = true ->
  forall t, accepts (union_with hA hB A B) t <-> accepts A t \/ accepts B t.
Proof. exact union_model_lang. Qed.
(* UnionDisjointStates (cluster-map merge) under the disjointness precondition *)
Theorem C02_union_disjoint_lang : forall A B, disjointb (states A) (states B) = true ->
  forall t, accepts (ta_app A B) t <-> accepts A t \/ accepts B t.
Proof. exact union_disjoint_lang. Qed.
(* product constructions: Intersection (top-down from final pairs) and IntersectionBU (bottom-up) *)
Theorem C02_isect_td_lang : forall A B t, accepts (isect_td A B) t <-> accepts A t /\ accepts B t.
Proof. exact isect_td_lang. Qed.
Theorem C02_isect_bu_lang : forall A B t, accepts (isect_bu A B) t <-> accepts A t /\ accepts B t.
Proof. exact isect_bu_lang. Qed.
(* every product state stands for a pair and has the intersection of the components' state languages *)
Theorem C02_product_state_lang : forall A B t p q, In q (states B) ->
  reach (product A B) t (pcode (bound (states B)) p q) <-> reach A t p /\ reach B t q.
Proof. exact product_state_lang. Qed.
(* the gates evaluated on libvata's results decide exactly the property clauses *)
Theorem C02_gate_union : forall A B R, union_gate A B R = true <-> forall t, accepts R t <-> accepts A t \/ accepts B t.
Proof. exact union_gate_spec. Qed.
Theorem C02_gate_isect : forall A B R, isect_gate A B R = true <-> forall t, accepts R t <-> accepts A t /\ accepts B t.
Proof. exact isect_gate_spec. Qed.
Theorem C02_gate_names_union : forall mL mR A B R, names_union mL mR A B R = true <-> names_union_prop mL mR A B R.
Proof. exact names_union_spec. Qed.
Theorem C02_gate_names_isect : forall pm A B R, names_isect pm A B R = true <-> names_isect_prop pm A B R.
Proof. exact names_isect_spec. Qed.

(* operands over one shared transition table: union of the final states is the union of the languages; intersecting the final states
   is only a lower bound of the intersection; appending tables without renaming needs disjoint STATE sets, not just disjoint owners *)
Theorem C02_shared_union_exact : forall A F G t,
  accepts (with_finals (F ++ G) A) t <-> accepts (with_finals F A) t \/ accepts (with_finals G A) t.
Proof. exact shared_union_finals_exact. Qed.
Theorem C02_shared_isect_sound : forall A F G t,
  accepts (with_finals (finter F G) A) t -> accepts (with_finals F A) t /\ accepts (with_finals G A) t.
Proof. exact shared_isect_finals_sound. Qed.
Theorem C02_shared_isect_refuted : exists A F G t,
  accepts (with_finals F A) t /\ accepts (with_finals G A) t /\ ~ accepts (with_finals (finter F G) A) t.
Proof. exact shared_isect_finals_refuted. Qed.
Theorem C02_owners_disjoint_not_enough : disjoint (owners uA) (owners uB) /\
  exists t, accepts (ta_app uA uB) t /\ ~ accepts uA t /\ ~ accepts uB t.
Proof. exact owners_disjoint_not_enough. Qed.

(* (A) how the product constructions number their states: a pair not found in the translation map gets the number `size of the map`.
   For EVERY sequence of look-ups the map is injective in both directions, and an answer, once given, is what the final map says *)
Theorem C02_numbering_injective : forall ops e1 e2, In e1 (pm_run ops nil) -> In e2 (pm_run ops nil) ->
  (snd e1 = snd e2 -> e1 = e2) /\ (fst e1 = fst e2 -> e1 = e2).
Proof. exact numbering_injective. Qed.
Theorem C02_numbering_stable : forall ops1 ops2 p q,
  In ((p, q), snd (pm_get (pm_run ops1 nil) p q)) (pm_run (ops1 ++ (p, q) :: ops2) nil).
Proof. exact numbering_stable. Qed.
(* erasing entries from the map ("dead pairs") breaks it: one number is handed out for two pairs *)
Theorem C02_numbering_erase_refuted :
  let r := pm_run_e (cons (Get 0 0) (cons (Get 1 1) (cons (Erase 0 0) (cons (Get 2 2) nil)))) in
  In ((1, 1), 1)%N (snd r) /\ In ((2, 2), 1)%N (snd r) /\ In ((1, 1), 1)%N (fst r) /\ In ((2, 2), 1)%N (fst r).
Proof. exact numbering_erase_refuted. Qed.

Print Assumptions C02_union_lang.
Print Assumptions C02_union_disjoint_lang.
Print Assumptions C02_isect_td_lang.
Print Assumptions C02_isect_bu_lang.
Print Assumptions C02_product_state_lang.
Print Assumptions C02_gate_union.
Print Assumptions C02_gate_isect.
Print Assumptions C02_gate_names_union.
Print Assumptions C02_gate_names_isect.
Print Assumptions C02_shared_union_exact.
Print Assumptions C02_shared_isect_sound.
Print Assumptions C02_shared_isect_refuted.
Print Assumptions C02_owners_disjoint_not_enough.
Print Assumptions C02_numbering_injective.
Print Assumptions C02_numbering_stable.
Print Assumptions C02_numbering_erase_refuted.
