(* extraction root for C14 — no proofs of this property are needed to build this file *)
Require Extraction.
Require Import ExtrOcamlBasic.
From V Require Import Sem Prod.
From V Require Lang.
From V Require Import StoreDefs ReindexDefs.
Extraction "ex_c14.ml" app_map gate_reindex gate_image gate_simage gate_translator inj_onb reindex_aut translate_aut
  flat of_ta ta_set_eq same_multiset states init.
