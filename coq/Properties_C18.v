(* C18 — MTBDD nodes live exactly as long as something refers to them.
   Nothing but statements closed by [exact]; the proofs are in MtbddStoreProofs.v.
   Model: MtbddStoreDefs.v (two unique tables, heap of nodes with reference counters, live objects;
   steps transcribed from ondriks_mtbdd.hh).  Inv = counters equal the number of referrers, tables are
   the inverse of the heap, no dangling reference, every node denotes a well-formed diagram, every
   object's root denotes its diagram, every node is referenced. *)
From Coq Require Import List Arith Bool.
From V Require Import MtbddDefs MtbddProofs MtbddStoreDefs MtbddStoreProofs.
Import ListNotations.

Section P.
Variable V : Type.
Variable V_eq_dec : forall a b : V, {a = b} + {a <> b}.
Notation Inv := (Inv V V_eq_dec).
Notation step := (step V V_eq_dec).
Notation run := (run V V_eq_dec).
Notation den := (den V).

(* every step of a history that respects the liveness discipline (and the variable order for
   ExtendWith) runs without a fault of the release routine — no release of a node that is gone or
   whose counter is already 0 — and re-establishes the invariant *)
Theorem C18_step_inv : forall s o, Inv s -> valid_op V s o ->
  exists s' log, step s o = Some (s', log) /\ Inv s'.
Proof. exact (step_inv V V_eq_dec). Qed.
Theorem C18_run_inv : forall os s, Inv s -> valid_run V V_eq_dec s os ->
  exists s' log, run s os = Some (s', log) /\ Inv s'.
Proof. exact (run_inv V V_eq_dec). Qed.
(* the invariant holds before the first MTBDD of a process exists *)
Theorem C18_inv_empty : Inv (empty_store V).
Proof. exact (inv_empty V V_eq_dec). Qed.

(* no MTBDD that is still alive ever changes the function it denotes: a step leaves every other
   object's record (root, default value) alone and its root denotes the same diagram afterwards *)
Theorem C18_frame : forall s o s' log h hd, Inv s -> valid_op V s o -> step s o = Some (s', log) ->
  h <> target V o -> hlookup V s h = Some hd ->
  hlookup V s' h = Some hd /\ forall d, den s (root V hd) d -> den s' (root V hd) d.
Proof. exact (frame V V_eq_dec). Qed.
(* ... and in any state satisfying the invariant an object's root denotes its (ghost) diagram,
   which is well formed; the values printed by the model are those of the ghost *)
Theorem C18_root_denotes_ghost : forall s h hd, Inv s -> hlookup V s h = Some hd ->
  den s (root V hd) (ghost V hd) /\ wf V (ghost V hd).
Proof. exact (root_denotes_ghost V V_eq_dec). Qed.

(* no node is released while something refers to it, and none twice: the nodes a step deletes are
   pairwise distinct, each was in the heap, is gone afterwards, and no live object or node refers to
   it afterwards (a second release of a deleted node would be a fault, excluded by C18_step_inv) *)
Theorem C18_no_double_release : forall s o s' log, Inv s -> valid_op V s o -> step s o = Some (s', log) ->
  NoDup log /\ forall j, In j log -> nlookup V s j <> None /\ nlookup V s' j = None /\ ~ In j (reflist V s').
Proof. exact (no_double_release V V_eq_dec). Qed.
(* over a whole history: the concatenation of all deletions has no duplicates (no node is released
   twice; addresses are fresh in the model, a deleted node stays dead), every deleted node was not
   dead at the start and is dead at the end *)
Theorem C18_no_double_release_run : forall os s s' log, Inv s -> valid_run V V_eq_dec s os -> run s os = Some (s', log) ->
  NoDup log /\ (forall j, In j log -> ~ dead V s j /\ dead V s' j) /\ fresh_ok V s s'.
Proof. exact (run_no_double_release V V_eq_dec). Qed.
(* the counter of every node is the number of its referrers (roots of live objects + parent edges),
   and it is positive *)
Theorem C18_counts : forall s i n, Inv s -> nlookup V s i = Some n ->
  rc V n = cnt (reflist V s) i /\ 1 <= rc V n.
Proof. exact (counts V V_eq_dec). Qed.

(* the sizes of both unique tables are determined by the set of diagrams of the live objects *)
Theorem C18_sizes_determined : forall s0 s1, Inv s0 -> Inv s1 ->
  (forall d, live_dd V s0 d <-> live_dd V s1 d) ->
  leaf_size V s0 = leaf_size V s1 /\ int_size V s0 = int_size V s1.
Proof. exact (sizes_determined V V_eq_dec). Qed.
(* back to baseline: once every object created since s0 has been destroyed (the history wrote only
   objects that did not exist at s0, and only objects of s0 are alive at the end), both unique tables
   have their s0 sizes *)
Theorem C18_baseline : forall s0 os s1 log, Inv s0 -> valid_run V V_eq_dec s0 os -> run s0 os = Some (s1, log) ->
  (forall o, In o os -> hlookup V s0 (target V o) = None) ->
  (forall h, hlookup V s1 h <> None -> hlookup V s0 h <> None) ->
  leaf_size V s1 = leaf_size V s0 /\ int_size V s1 = int_size V s0.
Proof. exact (baseline V V_eq_dec). Qed.
End P.

(* a concrete history: two constructions sharing a leaf, their sum, a copy, a self-assignment, an
   assignment, and destruction in an order that releases shared nodes last; sizes after each prefix *)
Example C18_example :
  option_map (fun p => (leaf_size nat (fst p), int_size nat (fst p), length (snd p)))
             (run nat Nat.eq_dec (empty_store nat) example_ops) = Some (0, 0, 7) /\
  option_map (fun p => (leaf_size nat (fst p), int_size nat (fst p)))
             (run nat Nat.eq_dec (empty_store nat) (firstn 4 example_ops)) = Some (3, 4).
Proof. exact example_run. Qed.

Print Assumptions C18_step_inv.
Print Assumptions C18_run_inv.
Print Assumptions C18_inv_empty.
Print Assumptions C18_frame.
Print Assumptions C18_root_denotes_ghost.
Print Assumptions C18_no_double_release.
Print Assumptions C18_no_double_release_run.
Print Assumptions C18_counts.
Print Assumptions C18_sizes_determined.
Print Assumptions C18_baseline.
Print Assumptions C18_example.
