(* C16 — functional model of the LTS simulation engine (src/explicit_lts_sim.cc,
   include/vata/explicit_lts.hh): the relation it must return is the greatest simulation
   inside the initial relation induced by a partition and a relation on its blocks.
   The engine's own refinement algorithm (splitting, counters, remove queues) is NOT modelled;
   this file fixes the function it has to compute.  Definitions only (extracted); proofs in
   LtsSimProofs.v. *)
From Coq Require Import List NArith Bool Arith.
Import ListNotations.
From V Require Import Gfp.

(* an LTS over states 0..n-1 : list of edges (source, label, target); parallel edges are duplicates *)
Definition lts := list (N * N * N).
Definition esrc (e : N * N * N) : N := fst (fst e).
Definition elab (e : N * N * N) : N := snd (fst e).
Definition edst (e : N * N * N) : N := snd e.

Definition pairN_eqb (x y : N * N) : bool := N.eqb (fst x) (fst y) && N.eqb (snd x) (snd y).
Definition memP (x : N * N) (l : list (N * N)) : bool := existsb (pairN_eqb x) l.

(* the states 0..n-1 and all pairs of them *)
Definition seqN (n : nat) : list N := map N.of_nat (seq 0 n).
Definition all_pairs (n : nat) : list (N * N) :=
  flat_map (fun q => map (fun r => (q, r)) (seqN n)) (seqN n).

(* index of the first block containing q *)
Fixpoint block_of_from (i : N) (part : list (list N)) (q : N) : option N :=
  match part with
  | [] => None
  | b :: rest => if existsb (N.eqb q) b then Some i else block_of_from (N.succ i) rest q
  end.
Definition block_of (part : list (list N)) (q : N) : option N := block_of_from 0 part q.

(* the initial relation on states: blocks related by the given relation on block indices *)
Definition init_pair (part : list (list N)) (brel : list (N * N)) (x : N * N) : bool :=
  match block_of part (fst x), block_of part (snd x) with
  | Some i, Some j => memP (i, j) brel
  | _, _ => false
  end.
Definition init_rel (n : nat) (part : list (list N)) (brel : list (N * N)) : list (N * N) :=
  filter (init_pair part brel) (all_pairs n).

(* step condition: every q -a-> q' is answered by some r -a-> r' with (q', r') still related *)
Definition lts_keep (L : lts) (R : list (N * N)) (x : N * N) : bool :=
  forallb (fun e =>
    if N.eqb (esrc e) (fst x)
    then existsb (fun e' => N.eqb (esrc e') (snd x) && N.eqb (elab e') (elab e) && memP (edst e, edst e') R) L
    else true) L.

Definition lts_sim_from (L : lts) (R0 : list (N * N)) : list (N * N) :=
  refine (N * N) (lts_keep L) (S (length R0)) R0.

Definition lts_sim (L : lts) (n : nat) (part : list (list N)) (brel : list (N * N)) : list (N * N) :=
  lts_sim_from L (init_rel n part brel).

(* no partition given: one block, total relation *)
Definition lts_sim_default (L : lts) (n : nat) : list (N * N) :=
  lts_sim L n [seqN n] [(0%N, 0%N)].

(* restriction to the requested output size *)
Definition output (m : N) (R : list (N * N)) : list (N * N) :=
  filter (fun x => N.ltb (fst x) m && N.ltb (snd x) m) R.

(* ---- input validity, decided (used on generated cases and as theorem hypotheses) ---- *)
Definition lts_wf (L : lts) (n : nat) : bool :=
  forallb (fun e => N.ltb (esrc e) (N.of_nat n) && N.ltb (edst e) (N.of_nat n)) L.

Definition count_in (q : N) (part : list (list N)) : nat :=
  length (filter (N.eqb q) (concat part)).
(* every state below n in exactly one block, no other members, no empty block *)
Definition partition_ok (n : nat) (part : list (list N)) : bool :=
  forallb (fun q => Nat.eqb (count_in q part) 1) (seqN n) &&
  forallb (fun q => N.ltb q (N.of_nat n)) (concat part) &&
  forallb (fun b => match b with [] => false | _ => true end) part.

Definition block_ids (part : list (list N)) : list N := seqN (length part).
Definition brel_refl (part : list (list N)) (brel : list (N * N)) : bool :=
  forallb (fun i => memP (i, i) brel) (block_ids part).
Definition brel_trans (brel : list (N * N)) : bool :=
  forallb (fun x => forallb (fun y => if N.eqb (snd x) (fst y) then memP (fst x, snd y) brel else true) brel) brel.
Definition brel_dom (part : list (list N)) (brel : list (N * N)) : bool :=
  forallb (fun x => N.ltb (fst x) (N.of_nat (length part)) && N.ltb (snd x) (N.of_nat (length part))) brel.

Definition input_ok (L : lts) (n : nat) (part : list (list N)) (brel : list (N * N)) : bool :=
  lts_wf L n && partition_ok n part && brel_dom part brel && brel_refl part brel && brel_trans brel.

(* ---- the gate: set equality of two finite relations ---- *)
Definition subP (l m : list (N * N)) : bool := forallb (fun x => memP x m) l.
Definition rel_same (l m : list (N * N)) : bool := subP l m && subP m l.

(* all reported pairs lie below the requested size *)
Definition below (m : N) (R : list (N * N)) : bool :=
  forallb (fun x => N.ltb (fst x) m && N.ltb (snd x) m) R.

Definition gate_lts (L : lts) (n : nat) (part : list (list N)) (brel : list (N * N)) (m : N)
  (impl : list (N * N)) : bool :=
  rel_same impl (output m (lts_sim L n part brel)).
Definition gate_lts_default (L : lts) (n : nat) (m : N) (impl : list (N * N)) : bool :=
  rel_same impl (output m (lts_sim_default L n)).
