(* C11: the copy-on-write heap model refines the value model, for all histories. *)
From Coq Require Import List NArith Bool Lia PeanoNat.
Import ListNotations.
From V Require Import Sem StoreDefs StoreProofs ValueDefs ValueProofs CowDefs.

(* ---------- small facts ---------- *)
Lemma fset_same {X} (f : N -> option X) k v : fset f k v k = v.
Proof. unfold fset. rewrite N.eqb_refl. auto. Qed.
Lemma fset_other {X} (f : N -> option X) k v x : x <> k -> fset f k v x = f x.
Proof. unfold fset. intros H. apply N.eqb_neq in H. rewrite H. auto. Qed.

Lemma get_put {V} k (v : V) l k' : get k' (put k v l) = if N.eqb k' k then Some v else get k' l.
Proof. unfold put. rewrite get_upd. auto. Qed.
Lemma get_hdel {V} k (l : list (N * V)) k' : get k' (hdel k l) = if N.eqb k' k then None else get k' l.
Proof.
  induction l as [|[k0 v] l IH]; simpl.
  - destruct (N.eqb k' k); auto.
  - destruct (N.eqb k k0) eqn:E.
    + apply N.eqb_eq in E. subst k0. rewrite IH. destruct (N.eqb k' k); auto.
    + simpl. rewrite IH. destruct (N.eqb k' k0) eqn:E2; auto. apply N.eqb_eq in E2. subst k'.
      rewrite N.eqb_sym, E. auto.
Qed.
Lemma In_put {V} k (v : V) l e : In e (put k v l) -> e = (k, v) \/ In e l.
Proof.
  unfold put. induction l as [|[k0 v0] l IH]; simpl.
  - intros [H|[]]; auto.
  - destruct (N.eqb k k0) eqn:E; simpl.
    + apply N.eqb_eq in E. subst. intros [H|H]; auto.
    + intros [H|H]; auto. destruct (IH H); auto.
Qed.
Lemma In_hdel {V} k (l : list (N * V)) e : In e (hdel k l) -> In e l.
Proof. induction l as [|[k0 v0] l IH]; simpl; auto. destruct (N.eqb k k0); simpl; intros; auto. destruct H; auto. Qed.

Lemma get_keep {V} keep (es : list (N * V)) q : get q (keep_entries keep es) = if memN q keep then get q es else None.
Proof.
  unfold keep_entries. induction es as [|[k v] es IH]; simpl.
  - destruct (memN q keep); auto.
  - destruct (memN k keep) eqn:E; simpl.
    + destruct (N.eqb q k) eqn:E2; auto. apply N.eqb_eq in E2. subst. rewrite E. auto.
    + rewrite IH. destruct (N.eqb q k) eqn:E2; auto. apply N.eqb_eq in E2. subst. rewrite E. auto.
Qed.

(* ---------- counting referrers ---------- *)
Lemma countN_app x l1 l2 : countN x (l1 ++ l2) = countN x l1 + countN x l2.
Proof. induction l1; simpl; auto. rewrite IHl1. lia. Qed.
Lemma countN_In x l : In x l -> 1 <= countN x l.
Proof. induction l as [|y l IH]; simpl; intros H; [destruct H|]. destruct H as [->|H]; [rewrite N.eqb_refl; lia | specialize (IH H); lia]. Qed.
Lemma countN_map_two {A} (f : A -> N) l a b x : In a l -> In b l -> a <> b -> f a = x -> f b = x -> 2 <= countN x (map f l).
Proof.
  induction l as [|y l IH]; simpl; intros Ha Hb Hn Fa Fb; [destruct Ha|].
  destruct Ha as [->|Ha], Hb as [->|Hb].
  - congruence.
  - rewrite Fa, N.eqb_refl. assert (1 <= countN x (map f l)) by (apply countN_In; rewrite <- Fb; apply in_map; auto). lia.
  - rewrite Fb, N.eqb_refl. assert (1 <= countN x (map f l)) by (apply countN_In; rewrite <- Fa; apply in_map; auto). lia.
  - specialize (IH Ha Hb Hn Fa Fb). lia.
Qed.
Lemma countN_flat_one {A} (f : A -> list N) L a x : In a L -> countN x (f a) <= countN x (flat_map f L).
Proof. induction L as [|y L IH]; simpl; intros H; [destruct H|]. rewrite countN_app. destruct H as [->|H]; [lia | specialize (IH H); lia]. Qed.
Lemma countN_flat_two {A} (f : A -> list N) L a b x : In a L -> In b L -> a <> b -> In x (f a) -> In x (f b) -> 2 <= countN x (flat_map f L).
Proof.
  induction L as [|y L IH]; simpl; intros Ha Hb Hn Fa Fb; [destruct Ha|]. rewrite countN_app.
  destruct Ha as [->|Ha], Hb as [->|Hb].
  - congruence.
  - pose proof (countN_In _ _ Fa). pose proof (countN_flat_one f L b x Hb). pose proof (countN_In _ _ Fb). lia.
  - pose proof (countN_In _ _ Fb). pose proof (countN_flat_one f L a x Ha). pose proof (countN_In _ _ Fa). lia.
  - specialize (IH Ha Hb Hn Fa Fb). lia.
Qed.

(* ---------- live paths ---------- *)
Definition live (c : cow) (h : N) (fs : list N) (m : N) : Prop := get h (hnd c) = Some (fs, m).

Lemma live_In c h fs m : live c h fs m -> In (h, (fs, m)) (hnd c).
Proof. apply get_In. Qed.
Lemma live_lmaps c h fs m : live c h fs m -> In m (lmaps c).
Proof. intros H. apply live_In in H. unfold lmaps. apply (in_map (fun e => snd (snd e))) in H. exact H. Qed.

Lemma map_excl c h fs m : map_unique c m = true -> live c h fs m -> forall h' fs', live c h' fs' m -> h' = h.
Proof.
  unfold map_unique. intros U L h' fs' L'. apply Nat.eqb_eq in U.
  destruct (N.eq_dec h' h) as [|Hn]; auto. exfalso.
  assert (2 <= countN m (lmaps c)).
  { unfold lmaps. apply (countN_map_two (fun e : N * (list N * N) => snd (snd e)) (hnd c) (h, (fs, m)) (h', (fs', m))); auto.
    - apply live_In; auto. - apply live_In; auto. - intros E. inversion E. congruence. }
  lia.
Qed.

Lemma get_In_snd {V} q (es : list (N * V)) v : get q es = Some v -> In (q, v) es.
Proof. apply get_In. Qed.

Lemma path_lcls c h fs m q cl : live c h fs m -> get q (mget c m) = Some cl -> In cl (lcls c).
Proof.
  intros L G. unfold lcls. apply in_flat_map. exists m. split.
  - apply In_nodupN. eapply live_lmaps; eauto.
  - apply get_In in G. apply (in_map snd) in G. exact G.
Qed.

Lemma cl_excl c h fs m q cl : cl_unique c cl = true -> live c h fs m -> get q (mget c m) = Some cl ->
  forall h2 fs2 m2 q2, live c h2 fs2 m2 -> get q2 (mget c m2) = Some cl -> m2 = m /\ q2 = q.
Proof.
  unfold cl_unique. intros U L G h2 fs2 m2 q2 L2 G2. apply Nat.eqb_eq in U.
  assert (Hm : In m (nodupN (lmaps c))) by (apply In_nodupN; eapply live_lmaps; eauto).
  assert (Hm2 : In m2 (nodupN (lmaps c))) by (apply In_nodupN; eapply live_lmaps; eauto).
  assert (I1 : In cl (map snd (mget c m))) by (apply get_In in G; apply (in_map snd) in G; exact G).
  assert (I2 : In cl (map snd (mget c m2))) by (apply get_In in G2; apply (in_map snd) in G2; exact G2).
  destruct (N.eq_dec m2 m) as [->|Hn].
  - split; auto. destruct (N.eq_dec q2 q) as [|Hq]; auto. exfalso.
    assert (2 <= countN cl (map snd (mget c m))).
    { apply (countN_map_two snd (mget c m) (q, cl) (q2, cl)); auto; try (apply get_In; auto). intros E; inversion E; congruence. }
    pose proof (countN_flat_one (fun m => map snd (mget c m)) (nodupN (lmaps c)) m cl Hm). unfold lcls in U. lia.
  - exfalso. pose proof (countN_flat_two (fun m => map snd (mget c m)) (nodupN (lmaps c)) m m2 cl Hm Hm2 (fun E => Hn (eq_sym E)) I1 I2).
    unfold lcls in U. lia.
Qed.

Lemma ts_excl c h fs m q cl a ts : ts_unique c ts = true -> live c h fs m -> get q (mget c m) = Some cl -> get a (cget c cl) = Some ts ->
  forall h2 fs2 m2 q2 cl2 a2, live c h2 fs2 m2 -> get q2 (mget c m2) = Some cl2 -> get a2 (cget c cl2) = Some ts -> cl2 = cl /\ a2 = a.
Proof.
  unfold ts_unique. intros U L G Ga h2 fs2 m2 q2 cl2 a2 L2 G2 Ga2. apply Nat.eqb_eq in U.
  assert (Hc : In cl (nodupN (lcls c))) by (apply In_nodupN; apply (path_lcls c h fs m q cl L G)).
  assert (Hc2 : In cl2 (nodupN (lcls c))) by (apply In_nodupN; apply (path_lcls c h2 fs2 m2 q2 cl2 L2 G2)).
  assert (I1 : In ts (map snd (cget c cl))) by (apply get_In in Ga; apply (in_map snd) in Ga; exact Ga).
  assert (I2 : In ts (map snd (cget c cl2))) by (apply get_In in Ga2; apply (in_map snd) in Ga2; exact Ga2).
  destruct (N.eq_dec cl2 cl) as [->|Hn].
  - split; auto. destruct (N.eq_dec a2 a) as [|Hq]; auto. exfalso.
    assert (2 <= countN ts (map snd (cget c cl))).
    { apply (countN_map_two snd (cget c cl) (a, ts) (a2, ts)); auto; try (apply get_In; auto). intros E; inversion E; congruence. }
    pose proof (countN_flat_one (fun cl => map snd (cget c cl)) (nodupN (lcls c)) cl ts Hc). unfold ltss in U. lia.
  - exfalso. pose proof (countN_flat_two (fun cl => map snd (cget c cl)) (nodupN (lcls c)) cl cl2 ts Hc Hc2 (fun E => Hn (eq_sym E)) I1 I2).
    unfold ltss in U. lia.
Qed.

(* ---------- allocation bound: every id referenced anywhere is below the counter ---------- *)
Record Bound (c : cow) : Prop := {
  b_h : forall h fs m, In (h, (fs, m)) (hnd c) -> (m < nxt c)%N;
  b_m : forall m q cl, In (q, cl) (mget c m) -> (cl < nxt c)%N;
  b_c : forall cl a ts, In (a, ts) (cget c cl) -> (ts < nxt c)%N }.

Lemma cempty_bound : Bound cempty.
Proof. split; simpl; intros; try contradiction. Qed.

Lemma live_bound c h fs m : Bound c -> live c h fs m -> (m < nxt c)%N.
Proof. intros B L. eapply b_h; eauto. apply live_In; eauto. Qed.

(* lookups only depend on the objects along the path *)
Lemma clookup_ext c c' m m' :
  mget c' m' = mget c m ->
  (forall q cl, get q (mget c m) = Some cl -> cget c' cl = cget c cl) ->
  (forall q cl a ts, get q (mget c m) = Some cl -> get a (cget c cl) = Some ts -> tget c' ts = tget c ts) ->
  forall q a, clookup c' m' q a = clookup c m q a.
Proof.
  intros Hm Hc Ht q a. unfold clookup. rewrite Hm. destruct (get q (mget c m)) as [cl|] eqn:G; auto.
  rewrite (Hc q cl G). destruct (get a (cget c cl)) as [ts|] eqn:Ga; auto. rewrite (Ht q cl a ts G Ga). auto.
Qed.

(* ---------- uniqueClusterMap ---------- *)
Lemma uniq_map_spec c h fs m c1 m1 : Bound c -> live c h fs m -> uniq_map c h fs m = (c1, m1) ->
  Bound c1 /\ live c1 h fs m1 /\ (forall h', h' <> h -> get h' (hnd c1) = get h' (hnd c)) /\
  (forall m2, (m2 < nxt c)%N -> forall q a, clookup c1 m2 q a = clookup c m2 q a) /\
  (forall q a, clookup c1 m1 q a = clookup c m q a) /\
  (forall h' fs', live c1 h' fs' m1 -> h' = h) /\ (nxt c <= nxt c1)%N.
Proof.
  intros B L E. unfold uniq_map in E. destruct (map_unique c m) eqn:U.
  - inversion E; subst c1 m1. split; [exact B|]. split; [exact L|]. split; [auto|]. split; [auto|]. split; [auto|]. split; [|lia].
    intros h' fs' L'. eapply map_excl; eauto.
  - inversion E; subst c1 m1. clear E. split; [|split; [|split; [|split; [|split; [|split]]]]].
    + split; simpl.
      * intros h0 fs0 m0 H. apply In_put in H as [H|H]; [inversion H; lia | apply (b_h c B) in H; lia].
      * intros m0 q cl. unfold mget at 1. simpl. unfold fset. destruct (N.eqb m0 (nxt c)).
        -- intros H. apply (b_m c B) in H. lia.
        -- intros H. change (In (q, cl) (mget c m0)) in H. apply (b_m c B) in H. lia.
      * intros cl a ts H. change (In (a, ts) (cget c cl)) in H. apply (b_c c B) in H. lia.
    + unfold live. simpl. rewrite get_put, N.eqb_refl. auto.
    + intros h' Hn. simpl. rewrite get_put. apply N.eqb_neq in Hn. rewrite Hn. auto.
    + intros m2 Hlt. apply clookup_ext; auto. unfold mget. simpl. rewrite fset_other by lia. auto.
    + apply clookup_ext; auto. unfold mget at 1. simpl. rewrite fset_same. auto.
    + intros h' fs' L'. unfold live in L'. simpl in L'. rewrite get_put in L'. destruct (N.eqb h' h) eqn:Eh; [apply N.eqb_eq; auto|].
      exfalso. apply get_In in L'. apply (b_h c B) in L'. lia.
    + simpl. lia.
Qed.

(* ---------- uniqueCluster ---------- *)
Lemma alloc_cluster_spec c h fs m q content c2 cl :
  Bound c -> live c h fs m -> (forall a ts, In (a, ts) content -> (ts < nxt c)%N) ->
  alloc_cluster c m q content = (c2, cl) ->
  Bound c2 /\ hnd c2 = hnd c /\
  (forall m2, m2 <> m -> (m2 < nxt c)%N -> forall q' a, clookup c2 m2 q' a = clookup c m2 q' a) /\
  (forall q', q' <> q -> forall a, clookup c2 m q' a = clookup c m q' a) /\
  get q (mget c2 m) = Some cl /\ cget c2 cl = content /\ tss c2 = tss c /\
  (forall h2 fs2 m2 q2, live c2 h2 fs2 m2 -> get q2 (mget c2 m2) = Some cl -> m2 = m /\ q2 = q) /\ (nxt c <= nxt c2)%N.
Proof.
  intros B L HC E. unfold alloc_cluster in E. inversion E; subst c2 cl. clear E.
  assert (Hm : (m < nxt c)%N) by (eapply live_bound; eauto).
  split; [|split; [|split; [|split; [|split; [|split; [|split; [|split]]]]]]]; simpl; auto.
  - split; simpl.
    + intros h0 fs0 m0 H. apply (b_h c B) in H. lia.
    + intros m0 q0 cl0. unfold mget at 1. simpl. unfold fset. destruct (N.eqb m0 m).
      * intros H. apply In_put in H as [H|H]; [inversion H; lia | apply (b_m c B) in H; lia].
      * intros H. change (In (q0, cl0) (mget c m0)) in H. apply (b_m c B) in H. lia.
    + intros cl0 a ts. unfold cget at 1. simpl. unfold fset. destruct (N.eqb cl0 (nxt c)).
      * intros H. apply HC in H. lia.
      * intros H. change (In (a, ts) (cget c cl0)) in H. apply (b_c c B) in H. lia.
  - intros m2 Hn Hlt. apply clookup_ext.
    + unfold mget. simpl. rewrite fset_other by auto. auto.
    + intros q' cl0 G. apply get_In in G. apply (b_m c B) in G. unfold cget. simpl. rewrite fset_other by lia. auto.
    + intros. reflexivity.
  - intros q' Hq a. unfold clookup. unfold mget at 1. simpl. rewrite fset_same. rewrite get_put. apply N.eqb_neq in Hq. rewrite Hq.
    destruct (get q' (mget c m)) as [cl0|] eqn:G; auto. apply get_In in G. apply (b_m c B) in G.
    unfold cget at 1. simpl. rewrite fset_other by lia. fold (cget c cl0). destruct (get a (cget c cl0)); auto.
  - unfold mget. simpl. rewrite fset_same. rewrite get_put, N.eqb_refl. auto.
  - unfold cget. simpl. rewrite fset_same. auto.
  - intros h2 fs2 m2 q2 L2 G2. unfold live in L2. simpl in L2. unfold mget in G2. simpl in G2. unfold fset in G2.
    destruct (N.eqb m2 m) eqn:Em.
    + apply N.eqb_eq in Em. split; auto. rewrite get_put in G2. destruct (N.eqb q2 q) eqn:Eq; [apply N.eqb_eq; auto|].
      exfalso. apply get_In in G2. apply (b_m c B) in G2. lia.
    + exfalso. change (get q2 (mget c m2) = Some (nxt c)) in G2. apply get_In in G2. apply (b_m c B) in G2. lia.
  - lia.
Qed.

Definition ExclM (c : cow) (h m : N) : Prop := forall h' fs', live c h' fs' m -> h' = h.
Definition ExclC (c : cow) (m q cl : N) : Prop := forall h2 fs2 m2 q2, live c h2 fs2 m2 -> get q2 (mget c m2) = Some cl -> m2 = m /\ q2 = q.
Definition ExclT (c : cow) (m q a ts : N) : Prop :=
  forall h2 fs2 m2 q2 cl2 a2, live c h2 fs2 m2 -> get q2 (mget c m2) = Some cl2 -> get a2 (cget c cl2) = Some ts -> m2 = m /\ q2 = q /\ a2 = a.

Lemma uniq_cluster_spec c h fs m q c2 cl : Bound c -> live c h fs m -> ExclM c h m -> uniq_cluster c m q = (c2, cl) ->
  Bound c2 /\ hnd c2 = hnd c /\
  (forall m2, m2 <> m -> (m2 < nxt c)%N -> forall q' a, clookup c2 m2 q' a = clookup c m2 q' a) /\
  (forall q' a, clookup c2 m q' a = clookup c m q' a) /\
  get q (mget c2 m) = Some cl /\ ExclC c2 m q cl /\ (nxt c <= nxt c2)%N.
Proof.
  intros B L X E. unfold uniq_cluster in E. destruct (get q (mget c m)) as [cl0|] eqn:G.
  - destruct (cl_unique c cl0) eqn:U.
    + inversion E; subst c2 cl. split; [exact B|]. split; [reflexivity|]. split; [auto|]. split; [auto|]. split; [auto|]. split; [|lia].
      intros h2 fs2 m2 q2 L2 G2. eapply cl_excl; eauto.
    + assert (HC : forall a ts, In (a, ts) (cget c cl0) -> (ts < nxt c)%N) by (intros; eapply b_c; eauto).
      destruct (alloc_cluster_spec c h fs m q (cget c cl0) c2 cl B L HC E) as [B2 [Hh [O [S [Gq [Cc [Tt [Ex Hn]]]]]]]].
      split; [exact B2|]. split; [exact Hh|]. split; [exact O|]. split; [|split; [exact Gq|split; [exact Ex|exact Hn]]].
      intros q' a. destruct (N.eq_dec q' q) as [->|Hq]; [|apply S; auto].
      unfold clookup. rewrite Gq, G, Cc. unfold tget. rewrite Tt. auto.
  - assert (HC : forall a ts, In (a, ts) (@nil (N * N)) -> (ts < nxt c)%N) by (intros a ts []).
    destruct (alloc_cluster_spec c h fs m q [] c2 cl B L HC E) as [B2 [Hh [O [S [Gq [Cc [Tt [Ex Hn]]]]]]]].
    split; [exact B2|]. split; [exact Hh|]. split; [exact O|]. split; [|split; [exact Gq|split; [exact Ex|exact Hn]]].
    intros q' a. destruct (N.eq_dec q' q) as [->|Hq]; [|apply S; auto].
    unfold clookup. rewrite Gq, G, Cc. simpl. auto.
Qed.

(* ---------- uniqueTuplePtrSet ---------- *)
Lemma alloc_ts_spec c h fs m q cl a content c3 ts :
  Bound c -> live c h fs m -> get q (mget c m) = Some cl -> ExclC c m q cl ->
  alloc_ts c cl a content = (c3, ts) ->
  Bound c3 /\ hnd c3 = hnd c /\ (forall m2, mget c3 m2 = mget c m2) /\
  (forall h2 fs2 m2, live c h2 fs2 m2 -> m2 <> m -> forall q' a', clookup c3 m2 q' a' = clookup c m2 q' a') /\
  (forall q' a', q' <> q \/ a' <> a -> clookup c3 m q' a' = clookup c m q' a') /\
  get a (cget c3 cl) = Some ts /\ tget c3 ts = content /\ ExclT c3 m q a ts /\ (nxt c <= nxt c3)%N.
Proof.
  intros B L G XC E. unfold alloc_ts in E. inversion E; subst c3 ts. clear E.
  assert (Hcl : (cl < nxt c)%N) by (apply get_In in G; eapply b_m; eauto).
  set (c3 := {| hnd := hnd c; mps := mps c; cls := fset (cls c) cl (Some (put a (nxt c) (cget c cl))); tss := fset (tss c) (nxt c) (Some content); nxt := N.succ (nxt c) |}).
  assert (MG : forall m2, mget c3 m2 = mget c m2) by reflexivity.
  assert (CG : forall cl2, cl2 <> cl -> cget c3 cl2 = cget c cl2) by (intros cl2 Hn; unfold cget; simpl; rewrite fset_other by auto; auto).
  assert (CGs : cget c3 cl = put a (nxt c) (cget c cl)) by (unfold cget; simpl; rewrite fset_same; auto).
  assert (TG : forall ts2, (ts2 < nxt c)%N -> tget c3 ts2 = tget c ts2) by (intros ts2 Hlt; unfold tget; simpl; rewrite fset_other by lia; auto).
  (* a cluster reached through a live path other than (m, q) is not cl *)
  assert (OTHER : forall h2 fs2 m2 q2 cl2, live c h2 fs2 m2 -> get q2 (mget c m2) = Some cl2 -> (m2 <> m \/ q2 <> q) -> cl2 <> cl).
  { intros h2 fs2 m2 q2 cl2 L2 G2 Hd ->. destruct (XC h2 fs2 m2 q2 L2 G2) as [-> ->]. destruct Hd; congruence. }
  assert (SAME : forall h2 fs2 m2 q2, live c h2 fs2 m2 -> (m2 <> m \/ q2 <> q) -> forall a', clookup c3 m2 q2 a' = clookup c m2 q2 a').
  { intros h2 fs2 m2 q2 L2 Hd a'. unfold clookup. rewrite MG. destruct (get q2 (mget c m2)) as [cl2|] eqn:G2; auto.
    rewrite (CG cl2 (OTHER h2 fs2 m2 q2 cl2 L2 G2 Hd)). destruct (get a' (cget c cl2)) as [ts0|] eqn:Ga; auto.
    apply get_In in Ga. apply (b_c c B) in Ga. rewrite TG by auto. auto. }
  split; [|split; [|split; [|split; [|split; [|split; [|split; [|split]]]]]]]; auto.
  - split; simpl.
    + intros h0 fs0 m0 H. apply (b_h c B) in H. lia.
    + intros m0 q0 cl0 H. change (In (q0, cl0) (mget c m0)) in H. apply (b_m c B) in H. lia.
    + intros cl0 a0 ts0. destruct (N.eq_dec cl0 cl) as [->|Hn].
      * rewrite CGs. intros H. apply In_put in H as [H|H]; [inversion H; lia | apply (b_c c B) in H; lia].
      * rewrite CG by auto. intros H. apply (b_c c B) in H. lia.
  - intros h2 fs2 m2 L2 Hn q' a'. apply (SAME h2 fs2 m2 q' L2); auto.
  - intros q' a' [Hq|Ha].
    + apply (SAME h fs m q' L); auto.
    + unfold clookup. rewrite MG. destruct (get q' (mget c m)) as [cl2|] eqn:G2; auto.
      destruct (N.eq_dec cl2 cl) as [->|Hc].
      * rewrite CGs, get_put. apply N.eqb_neq in Ha. rewrite Ha. destruct (get a' (cget c cl)) as [ts0|] eqn:Ga; auto.
        apply get_In in Ga. apply (b_c c B) in Ga. rewrite TG by auto. auto.
      * rewrite CG by auto. destruct (get a' (cget c cl2)) as [ts0|] eqn:Ga; auto.
        apply get_In in Ga. apply (b_c c B) in Ga. rewrite TG by auto. auto.
  - rewrite CGs, get_put, N.eqb_refl. auto.
  - unfold tget. simpl. rewrite fset_same. auto.
  - intros h2 fs2 m2 q2 cl2 a2 L2 G2 Ga2. change (live c h2 fs2 m2) in L2. rewrite MG in G2.
    destruct (N.eq_dec cl2 cl) as [->|Hc].
    + destruct (XC h2 fs2 m2 q2 L2 G2) as [-> ->]. split; auto. split; auto.
      rewrite CGs, get_put in Ga2. destruct (N.eqb a2 a) eqn:Ea; [apply N.eqb_eq; auto|].
      exfalso. apply get_In in Ga2. apply (b_c c B) in Ga2. lia.
    + exfalso. rewrite CG in Ga2 by auto. apply get_In in Ga2. apply (b_c c B) in Ga2. lia.
  - simpl. lia.
Qed.

Lemma uniq_ts_spec c h fs m q cl a c3 ts :
  Bound c -> live c h fs m -> get q (mget c m) = Some cl -> ExclC c m q cl ->
  uniq_ts c cl a = (c3, ts) ->
  Bound c3 /\ hnd c3 = hnd c /\ (forall m2, mget c3 m2 = mget c m2) /\
  (forall h2 fs2 m2, live c h2 fs2 m2 -> m2 <> m -> forall q' a', clookup c3 m2 q' a' = clookup c m2 q' a') /\
  (forall q' a', q' <> q \/ a' <> a -> clookup c3 m q' a' = clookup c m q' a') /\
  get q (mget c3 m) = Some cl /\ get a (cget c3 cl) = Some ts /\
  tget c3 ts = (match clookup c m q a with Some x => x | None => [] end) /\ ExclT c3 m q a ts /\ (nxt c <= nxt c3)%N.
Proof.
  intros B L G XC E. unfold uniq_ts in E. destruct (get a (cget c cl)) as [ts0|] eqn:Ga.
  - destruct (ts_unique c ts0) eqn:U.
    + inversion E; subst c3 ts. split; [exact B|]. split; [reflexivity|]. split; [auto|]. split; [auto|]. split; [auto|].
      split; [exact G|]. split; [exact Ga|]. split; [unfold clookup; rewrite G, Ga; auto|]. split; [|lia].
      intros h2 fs2 m2 q2 cl2 a2 L2 G2 Ga2. destruct (ts_excl c h fs m q cl a ts0 U L G Ga h2 fs2 m2 q2 cl2 a2 L2 G2 Ga2) as [-> ->].
      destruct (XC h2 fs2 m2 q2 L2 G2) as [-> ->]. auto.
    + destruct (alloc_ts_spec c h fs m q cl a (tget c ts0) c3 ts B L G XC E) as [B3 [Hh [MG [O [S [Ga3 [T3 [X3 Hn]]]]]]]].
      split; [exact B3|]. split; [exact Hh|]. split; [exact MG|]. split; [exact O|]. split; [exact S|].
      split; [rewrite MG; exact G|]. split; [exact Ga3|]. split; [|split; [exact X3|exact Hn]].
      rewrite T3. unfold clookup. rewrite G, Ga. auto.
  - destruct (alloc_ts_spec c h fs m q cl a [] c3 ts B L G XC E) as [B3 [Hh [MG [O [S [Ga3 [T3 [X3 Hn]]]]]]]].
    split; [exact B3|]. split; [exact Hh|]. split; [exact MG|]. split; [exact O|]. split; [exact S|].
    split; [rewrite MG; exact G|]. split; [exact Ga3|]. split; [|split; [exact X3|exact Hn]].
    rewrite T3. unfold clookup. rewrite G, Ga. auto.
Qed.

(* ---------- the in-place insertion into an exclusively owned tuple set ---------- *)
Lemma write_ts_spec c h fs m q cl a ts x :
  Bound c -> live c h fs m -> get q (mget c m) = Some cl -> get a (cget c cl) = Some ts -> ExclT c m q a ts ->
  let c4 := write_ts c ts x in
  Bound c4 /\ hnd c4 = hnd c /\
  (forall h2 fs2 m2, live c h2 fs2 m2 -> m2 <> m -> forall q' a', clookup c4 m2 q' a' = clookup c m2 q' a') /\
  (forall q' a', q' <> q \/ a' <> a -> clookup c4 m q' a' = clookup c m q' a') /\
  clookup c4 m q a = Some x.
Proof.
  intros B L G Ga XT c4.
  assert (TG : forall ts2, ts2 <> ts -> tget c4 ts2 = tget c ts2) by (intros ts2 Hn; unfold tget; simpl; rewrite fset_other by auto; auto).
  assert (SAME : forall h2 fs2 m2 q2 a2, live c h2 fs2 m2 -> (m2 <> m \/ q2 <> q \/ a2 <> a) -> clookup c4 m2 q2 a2 = clookup c m2 q2 a2).
  { intros h2 fs2 m2 q2 a2 L2 Hd. unfold clookup. change (mget c4 m2) with (mget c m2).
    destruct (get q2 (mget c m2)) as [cl2|] eqn:G2; auto. change (cget c4 cl2) with (cget c cl2).
    destruct (get a2 (cget c cl2)) as [ts2|] eqn:Ga2; auto. rewrite TG; auto.
    intros ->. destruct (XT h2 fs2 m2 q2 cl2 a2 L2 G2 Ga2) as [-> [-> ->]]. destruct Hd as [Hd|[Hd|Hd]]; congruence. }
  split; [|split; [|split; [|split]]]; auto.
  - split; simpl; intros; [eapply b_h | eapply (b_m c B) | eapply (b_c c B)]; eauto.
  - intros h2 fs2 m2 L2 Hn q' a'. apply (SAME h2 fs2 m2 q' a' L2); auto.
  - intros q' a' Hd. apply (SAME h fs m q' a' L). tauto.
  - unfold clookup. change (mget c4 m) with (mget c m). rewrite G. change (cget c4 cl) with (cget c cl). rewrite Ga.
    unfold tget. simpl. rewrite fset_same. auto.
Qed.

(* ---------- AddTransition on the heap ---------- *)
Definition orempty (o : option tset) : tset := match o with Some x => x | None => [] end.

Lemma cow_add_spec c h fs m r : Bound c -> live c h fs m ->
  let c' := cow_add c h r in
  Bound c' /\
  (exists m', live c' h fs m' /\
     forall q a, clookup c' m' q a =
       if N.eqb q (par r) && N.eqb a (sym r) then Some (ins (ch r) (orempty (clookup c m q a))) else clookup c m q a) /\
  (forall h', h' <> h -> get h' (hnd c') = get h' (hnd c) /\
     forall fs' m2, live c h' fs' m2 -> forall q a, clookup c' m2 q a = clookup c m2 q a).
Proof.
  intros B L c'. unfold c', cow_add. unfold live in L. rewrite L. fold (live c h fs m) in L.
  destruct (uniq_map c h fs m) as [c1 m1] eqn:E1.
  destruct (uniq_map_spec c h fs m c1 m1 B L E1) as [B1 [L1 [O1 [K1 [S1 [X1 N1]]]]]].
  destruct (uniq_cluster c1 m1 (par r)) as [c2 cl] eqn:E2.
  destruct (uniq_cluster_spec c1 h fs m1 (par r) c2 cl B1 L1 X1 E2) as [B2 [H2 [O2 [S2 [G2 [X2 N2]]]]]].
  assert (L2 : live c2 h fs m1) by (unfold live; rewrite H2; exact L1).
  destruct (uniq_ts c2 cl (sym r)) as [c3 ts] eqn:E3.
  destruct (uniq_ts_spec c2 h fs m1 (par r) cl (sym r) c3 ts B2 L2 G2 X2 E3) as [B3 [H3 [MG3 [O3 [S3 [G3 [Ga3 [T3 [X3 N3]]]]]]]]].
  assert (L3 : live c3 h fs m1) by (unfold live; rewrite H3; exact L2).
  destruct (write_ts_spec c3 h fs m1 (par r) cl (sym r) ts (ins (ch r) (tget c3 ts)) B3 L3 G3 Ga3 X3) as [B4 [H4 [O4 [S4 W4]]]].
  split; [exact B4|]. split.
  - exists m1. split; [unfold live; rewrite H4; exact L3|].
    intros q a. destruct (N.eqb q (par r) && N.eqb a (sym r)) eqn:Eqa.
    + apply andb_true_iff in Eqa as [Eq Ea]. apply N.eqb_eq in Eq. apply N.eqb_eq in Ea. subst q a.
      rewrite W4, T3, S2, S1. auto.
    + assert (Hd : q <> par r \/ a <> sym r).
      { apply andb_false_iff in Eqa as [Eq|Ea]; [left; apply N.eqb_neq; auto | right; apply N.eqb_neq; auto]. }
      rewrite (S4 q a Hd), (S3 q a Hd), S2, S1. auto.
  - intros h' Hn. split.
    + rewrite H4, H3, H2. apply O1; auto.
    + intros fs' m2 L'. 
      assert (Hlt : (m2 < nxt c)%N) by (eapply live_bound; eauto).
      assert (L1' : live c1 h' fs' m2) by (unfold live; rewrite (O1 h' Hn); exact L').
      assert (Hm : m2 <> m1) by (intros ->; apply Hn; eapply X1; eauto).
      assert (L2' : live c2 h' fs' m2) by (unfold live; rewrite H2; exact L1').
      assert (L3' : live c3 h' fs' m2) by (unfold live; rewrite H3; exact L2').
      intros q a. rewrite (O4 h' fs' m2 L3' Hm), (O3 h' fs' m2 L2' Hm), (O2 m2 Hm) by lia. apply K1; auto.
Qed.

Lemma slookup_add r s q a : slookup (add_rule r s) q a =
  if N.eqb q (par r) && N.eqb a (sym r) then Some (ins (ch r) (orempty (slookup s q a))) else slookup s q a.
Proof.
  unfold slookup, add_rule. rewrite get_upd. destruct (N.eqb q (par r)) eqn:Eq; simpl; auto.
  apply N.eqb_eq in Eq. subst q. rewrite get_upd. unfold getd. destruct (N.eqb a (sym r)) eqn:Ea.
  - apply N.eqb_eq in Ea. subst a. destruct (get (par r) s) as [cl|]; simpl; auto.
  - destruct (get (par r) s) as [cl|]; simpl; auto.
Qed.

(* ---------- the refinement relation ---------- *)
Definition agree (c : cow) (e : option (list N * N)) (v : option aut) : Prop :=
  match e, v with
  | Some (fs, m), Some a => fs = fin a /\ forall q x, clookup c m q x = slookup (st a) q x
  | None, None => True
  | _, _ => False
  end.
Definition Rel (c : cow) (p : pool aut) : Prop := Bound c /\ forall h, agree c (get h (hnd c)) (p h).

Lemma agree_mono c c' e v : agree c e v -> (forall fs m, e = Some (fs, m) -> forall q a, clookup c' m q a = clookup c m q a) -> agree c' e v.
Proof.
  unfold agree. destruct e as [[fs m]|], v as [a|]; auto. intros [F H] K. split; auto. intros q x. rewrite (K fs m eq_refl). auto.
Qed.

Lemma agree_live c h fs m p : Rel c p -> live c h fs m -> exists a, p h = Some a /\ fs = fin a /\ forall q x, clookup c m q x = slookup (st a) q x.
Proof. intros [_ R] L. specialize (R h). unfold live in L. rewrite L in R. simpl in R. destruct (p h) as [a|]; [|contradiction]. exists a; tauto. Qed.
Lemma agree_dead c h p : Rel c p -> get h (hnd c) = None -> p h = None.
Proof. intros [_ R] L. specialize (R h). rewrite L in R. simpl in R. destruct (p h); [contradiction|auto]. Qed.

Lemma clookup_heap_eq c c' : mps c' = mps c -> cls c' = cls c -> tss c' = tss c -> forall m q a, clookup c' m q a = clookup c m q a.
Proof. intros H1 H2 H3 m q a. unfold clookup, mget, cget, tget. rewrite H1, H2, H3. auto. Qed.

Lemma new_map_spec c es c1 m' : Bound c -> (forall q cl, In (q, cl) es -> (cl < nxt c)%N) -> new_map c es = (c1, m') ->
  m' = nxt c /\ Bound c1 /\ hnd c1 = hnd c /\ mget c1 m' = es /\ (forall cl, cget c1 cl = cget c cl) /\ (forall ts, tget c1 ts = tget c ts) /\
  (forall m2, (m2 < nxt c)%N -> forall q a, clookup c1 m2 q a = clookup c m2 q a) /\ nxt c1 = N.succ (nxt c).
Proof.
  intros B HE E. unfold new_map in E. inversion E; subst c1 m'. clear E.
  split; auto. split; [|split; [|split; [|split; [|split; [|split]]]]]; auto.
  - split; simpl.
    + intros h fs m H. apply (b_h c B) in H. lia.
    + intros m q cl. unfold mget at 1. simpl. unfold fset. destruct (N.eqb m (nxt c)).
      * intros H. apply HE in H. lia.
      * intros H. change (In (q, cl) (mget c m)) in H. apply (b_m c B) in H. lia.
    + intros cl a ts H. change (In (a, ts) (cget c cl)) in H. apply (b_c c B) in H. lia.
  - unfold mget. simpl. rewrite fset_same. auto.
  - intros m2 Hlt. apply clookup_ext; auto. unfold mget. simpl. rewrite fset_other by lia. auto.
Qed.

Lemma set_handle_bound c h fs m : Bound c -> (m < nxt c)%N -> Bound (set_handle c h (fs, m)).
Proof.
  intros B Hm. split; simpl.
  - intros h0 fs0 m0 H. apply In_put in H as [H|H]; [inversion H; subst; auto | eapply b_h; eauto].
  - apply (b_m c B). - apply (b_c c B).
Qed.

Lemma slookup_keep keep (s : store) q a : slookup (keep_entries keep s) q a = if memN q keep then slookup s q a else None.
Proof. unfold slookup. rewrite get_keep. destruct (memN q keep); auto. Qed.

(* every step of the heap model is the corresponding step of the value model *)
Theorem step_refines c p stp : Rel c p -> Rel (cstep_run c stp) (vstep_run p (abs_step stp)).
Proof.
  intros R. pose proof R as [B RA]. destruct stp; cbn [cstep_run abs_step vstep_run].
  - (* CNew *)
    destruct (new_map c []) as [c1 m] eqn:E.
    destruct (new_map_spec c [] c1 m B (fun q cl (H : In (q, cl) []) => match H with end) E) as [Em [B1 [H1 [MG [CG [TG [K1 N1]]]]]]].
    split.
    + apply set_handle_bound; auto. rewrite Em, N1. lia.
    + intros x. simpl. rewrite get_put. unfold pset. destruct (N.eqb x h) eqn:Ex.
      * simpl. split; auto. intros q a. unfold clookup. change (mget (set_handle c1 h ([], m)) m) with (mget c1 m). rewrite MG. simpl. auto.
      * rewrite H1. apply (agree_mono c); auto. intros fs m2 Hl q a.
        rewrite (clookup_heap_eq c1 (set_handle c1 h ([], m))) by reflexivity. apply K1. eapply live_bound; eauto.
  - (* CCopy *)
    destruct (get s (hnd c)) as [[fs m]|] eqn:Gs.
    + destruct (agree_live c s fs m p R Gs) as [a [Pa [Fa La]]]. rewrite Pa. split.
      * apply set_handle_bound; auto. eapply live_bound; eauto.
      * intros x. simpl. rewrite get_put. unfold pset. destruct (N.eqb x h) eqn:Ex.
        -- simpl. split; auto.
        -- apply (agree_mono c); auto.
    + rewrite (agree_dead c s p R Gs). exact R.
  - (* CMove *)
    destruct (get s (hnd c)) as [[fs m]|] eqn:Gs.
    + destruct (agree_live c s fs m p R Gs) as [a [Pa [Fa La]]]. rewrite Pa. split.
      * split; simpl.
        -- intros h0 fs0 m0 H. apply In_put in H as [H|H]; [inversion H; subst; eapply live_bound; eauto | apply In_hdel in H; eapply b_h; eauto].
        -- apply (b_m c B). -- apply (b_c c B).
      * intros x. simpl. rewrite get_put. unfold pset. destruct (N.eqb x h) eqn:Ex.
        -- simpl. split; auto.
        -- rewrite get_hdel. destruct (N.eqb x s); simpl; auto. apply (agree_mono c); auto.
    + rewrite (agree_dead c s p R Gs). exact R.
  - (* CAdd *)
    destruct (get h (hnd c)) as [[fs m]|] eqn:Gh.
    + destruct (agree_live c h fs m p R Gh) as [a [Pa [Fa La]]]. rewrite Pa.
      destruct (cow_add_spec c h fs m r B Gh) as [B' [[m' [L' K']] O']]. split; auto.
      intros x. unfold pset. destruct (N.eqb x h) eqn:Ex.
      * apply N.eqb_eq in Ex. subst x. unfold live in L'. rewrite L'. simpl. split; auto.
        intros q y. rewrite K', slookup_add, La. auto.
      * apply N.eqb_neq in Ex. destruct (O' x Ex) as [G' K2]. rewrite G'. apply (agree_mono c); auto.
    + unfold cow_add. rewrite Gh. rewrite (agree_dead c h p R Gh). exact R.
  - (* CSetFinal *)
    destruct (get h (hnd c)) as [[fs m]|] eqn:Gh.
    + destruct (agree_live c h fs m p R Gh) as [a [Pa [Fa La]]]. rewrite Pa. split.
      * apply set_handle_bound; auto. eapply live_bound; eauto.
      * intros x. simpl. rewrite get_put. unfold pset. destruct (N.eqb x h) eqn:Ex.
        -- simpl. subst fs. split; auto.
        -- apply (agree_mono c); auto.
    + rewrite (agree_dead c h p R Gh). exact R.
  - (* CEraseFinals *)
    destruct (get h (hnd c)) as [[fs m]|] eqn:Gh.
    + destruct (agree_live c h fs m p R Gh) as [a [Pa [Fa La]]]. rewrite Pa. split.
      * apply set_handle_bound; auto. eapply live_bound; eauto.
      * intros x. simpl. rewrite get_put. unfold pset. destruct (N.eqb x h) eqn:Ex.
        -- simpl. split; auto.
        -- apply (agree_mono c); auto.
    + rewrite (agree_dead c h p R Gh). exact R.
  - (* CClear *)
    destruct (get h (hnd c)) as [[fs m]|] eqn:Gh.
    + destruct (agree_live c h fs m p R Gh) as [a [Pa [Fa La]]]. rewrite Pa.
      destruct (map_unique c m) eqn:U.
      * split.
        -- split; simpl.
           ++ intros h0 fs0 m0 H. apply In_put in H as [H|H]; [inversion H; subst; eapply live_bound; eauto | eapply b_h; eauto].
           ++ intros m0 q cl. unfold mget at 1. simpl. unfold fset. destruct (N.eqb m0 m); [intros [] | apply (b_m c B)].
           ++ apply (b_c c B).
        -- intros x. simpl. rewrite get_put. unfold pset. destruct (N.eqb x h) eqn:Ex.
           ++ simpl. split; auto. intros q y. unfold clookup, mget. simpl. rewrite fset_same. simpl. auto.
           ++ apply (agree_mono c); auto. intros fs2 m2 Hl. apply N.eqb_neq in Ex.
              assert (Hm : m2 <> m) by (intros ->; apply Ex; eapply map_excl; eauto).
              apply clookup_ext; auto. unfold mget. simpl. rewrite fset_other by auto. auto.
      * destruct (new_map c []) as [c1 m'] eqn:E.
        destruct (new_map_spec c [] c1 m' B (fun q cl (H : In (q, cl) []) => match H with end) E) as [Em [B1 [H1 [MG [CG [TG [K1 N1]]]]]]].
        split.
        -- apply set_handle_bound; auto. rewrite Em, N1. lia.
        -- intros x. simpl. rewrite get_put. unfold pset. destruct (N.eqb x h) eqn:Ex.
           ++ simpl. split; auto. intros q y. unfold clookup. change (mget (set_handle c1 h ([], m')) m') with (mget c1 m'). rewrite MG. simpl. auto.
           ++ rewrite H1. apply (agree_mono c); auto. intros fs2 m2 Hl q y.
              rewrite (clookup_heap_eq c1 (set_handle c1 h ([], m'))) by reflexivity. apply K1. eapply live_bound; eauto.
    + rewrite (agree_dead c h p R Gh). exact R.
  - (* CUnshare *)
    destruct (get h (hnd c)) as [[fs m]|] eqn:Gh.
    + destruct (agree_live c h fs m p R Gh) as [a [Pa [Fa La]]]. rewrite Pa.
      destruct (uniq_map c h fs m) as [c1 m1] eqn:E1. simpl.
      destruct (uniq_map_spec c h fs m c1 m1 B Gh E1) as [B1 [L1 [O1 [K1 [S1 [X1 N1]]]]]]. split; auto.
      intros x. unfold pset. destruct (N.eqb x h) eqn:Ex.
      * apply N.eqb_eq in Ex. subst x. unfold live in L1. rewrite L1. simpl. split; auto. intros q y. rewrite S1. auto.
      * apply N.eqb_neq in Ex. rewrite (O1 x Ex). apply (agree_mono c); auto. intros fs2 m2 Hl. apply K1. eapply live_bound; eauto.
    + rewrite (agree_dead c h p R Gh). exact R.
  - (* CDestroy *)
    split.
    + split; simpl; [intros h0 fs0 m0 H; apply In_hdel in H; eapply b_h; eauto | apply (b_m c B) | apply (b_c c B)].
    + intros x. simpl. rewrite get_hdel. unfold pset. destruct (N.eqb x h); simpl; auto. apply (agree_mono c); auto.
  - (* CShareMap *)
    destruct (get s (hnd c)) as [[fs0 m]|] eqn:Gs.
    + destruct (agree_live c s fs0 m p R Gs) as [a [Pa [Fa La]]]. rewrite Pa. split.
      * apply set_handle_bound; auto. eapply live_bound; eauto.
      * intros x. simpl. rewrite get_put. unfold pset. destruct (N.eqb x h) eqn:Ex.
        -- simpl. split; auto.
        -- apply (agree_mono c); auto.
    + rewrite (agree_dead c s p R Gs). exact R.
  - (* CShareClusters *)
    destruct (get s (hnd c)) as [[fs0 m]|] eqn:Gs.
    + destruct (agree_live c s fs0 m p R Gs) as [a [Pa [Fa La]]]. rewrite Pa.
      destruct (new_map c (keep_entries keep (mget c m))) as [c1 m'] eqn:E.
      assert (HE : forall q cl, In (q, cl) (keep_entries keep (mget c m)) -> (cl < nxt c)%N).
      { intros q cl H. unfold keep_entries in H. apply filter_In in H as [H _]. eapply b_m; eauto. }
      destruct (new_map_spec c _ c1 m' B HE E) as [Em [B1 [H1 [MG [CG [TG [K1 N1]]]]]]].
      split.
      * apply set_handle_bound; auto. rewrite Em, N1. lia.
      * intros x. simpl. rewrite get_put. unfold pset. destruct (N.eqb x h) eqn:Ex.
        -- simpl. split; auto. intros q y. rewrite slookup_keep, <- La.
           unfold clookup. change (mget (set_handle c1 h (fs, m')) m') with (mget c1 m'). rewrite MG, get_keep.
           destruct (memN q keep); auto. destruct (get q (mget c m)) as [cl|]; auto.
           change (cget (set_handle c1 h (fs, m')) cl) with (cget c1 cl). rewrite CG. destruct (get y (cget c cl)) as [ts|]; auto.
           change (tget (set_handle c1 h (fs, m')) ts) with (tget c1 ts). rewrite TG. auto.
        -- rewrite H1. apply (agree_mono c); auto. intros fs2 m2 Hl q y.
           rewrite (clookup_heap_eq c1 (set_handle c1 h (fs, m'))) by reflexivity. apply K1. eapply live_bound; eauto.
    + rewrite (agree_dead c s p R Gs). exact R.
Qed.

Lemma Rel_empty : Rel cempty pempty.
Proof. split; [apply cempty_bound|]. intros h. simpl. auto. Qed.

Lemma run_refines l : forall c p, Rel c p -> Rel (fold_left cstep_run l c) (vrun p (map abs_step l)).
Proof. induction l as [|s l IH]; simpl; intros c p R; auto. apply IH. apply step_refines; auto. Qed.

(* for ALL histories: what is read through any handle of the copy-on-write heap is what the value model says *)
Theorem cow_refines_value l : forall h,
  match get h (hnd (crun l)), vrun_abs l h with
  | Some (fs, m), Some a => fs = fin a /\ forall q x, clookup (crun l) m q x = slookup (st a) q x
  | None, None => True
  | _, _ => False
  end.
Proof. intros h. destruct (run_refines l cempty pempty Rel_empty) as [_ R]. exact (R h). Qed.

(* ---------- consequences in the property's words, on the heap model ---------- *)
Lemma crun_app l1 l2 : crun (l1 ++ l2) = fold_left cstep_run l2 (crun l1).
Proof. unfold crun. apply fold_left_app. Qed.
Lemma vrun_abs_app l1 l2 : vrun_abs (l1 ++ l2) = vrun (vrun_abs l1) (map abs_step l2).
Proof. unfold vrun_abs, vrun. rewrite map_app. apply fold_left_app. Qed.

Definition reads_as (c : cow) (h : N) (a : aut) : Prop :=
  exists fs m, get h (hnd c) = Some (fs, m) /\ fs = fin a /\ forall q x, clookup c m q x = slookup (st a) q x.

Lemma reads_as_value l h a : vrun_abs l h = Some a -> reads_as (crun l) h a.
Proof.
  intros H. pose proof (cow_refines_value l h) as R. rewrite H in R.
  destruct (get h (hnd (crun l))) as [[fs m]|] eqn:G; [|contradiction]. exists fs, m. split; [exact G|exact R].
Qed.
Lemma value_of_reads l h : (exists e, get h (hnd (crun l)) = Some e) -> exists a, vrun_abs l h = Some a.
Proof.
  intros [[fs m] H]. pose proof (cow_refines_value l h) as R. rewrite H in R.
  destruct (vrun_abs l h) as [a|]; [exists a; auto | contradiction].
Qed.

(* after a copy (construction or assignment), ANY later history that does not assign to / destroy the copy itself — whatever it
   does to the source: adding rules at any sharing level, clearing, changing finals, destroying — leaves what is read through the copy unchanged *)
Theorem cow_copy_isolated l1 l2 h s a : h <> s -> vrun_abs l1 s = Some a ->
  (forall st, In st l2 -> ~ In h (written (abs_step st))) ->
  reads_as (crun (l1 ++ CCopy h s :: l2)) h a.
Proof.
  intros Hn Hs Hl. apply reads_as_value. rewrite vrun_abs_app. simpl.
  apply (copy_isolated aut (vrun_abs l1) h s a (map abs_step l2)); auto.
  intros st Hin. apply in_map_iff in Hin as [st0 [<- Hin]]. auto.
Qed.
Theorem cow_copy_isolated_src l1 l2 h s a : h <> s -> vrun_abs l1 s = Some a ->
  (forall st, In st l2 -> ~ In s (written (abs_step st))) ->
  reads_as (crun (l1 ++ CCopy h s :: l2)) s a.
Proof.
  intros Hn Hs Hl. apply reads_as_value. rewrite vrun_abs_app. simpl.
  apply (copy_isolated_src aut (vrun_abs l1) h s a (map abs_step l2)); auto.
  intros st Hin. apply in_map_iff in Hin as [st0 [<- Hin]]. auto.
Qed.
(* a trimming result that shares the operand's clusters (or its whole map) keeps its value whatever happens to the operand *)
Theorem cow_result_independent_clusters l1 l2 h s keep fs a : vrun_abs l1 s = Some a ->
  (forall st, In st l2 -> ~ In h (written (abs_step st))) ->
  reads_as (crun (l1 ++ CShareClusters h s keep fs :: l2)) h {| st := keep_entries keep (st a); fin := fs |}.
Proof.
  intros Hs Hl. apply reads_as_value. rewrite vrun_abs_app.
  assert (HL : forall st0, In st0 (map abs_step l2) -> ~ In h (written st0)) by (intros st0 Hin; apply in_map_iff in Hin as [st1 [<- Hin]]; auto).
  exact (result_independent_of_operand_fate1 aut (vrun_abs l1) h (fun a0 => {| st := keep_entries keep (st a0); fin := fs |}) s a (map abs_step l2) Hs HL).
Qed.
Theorem cow_result_independent_map l1 l2 h s fs a : vrun_abs l1 s = Some a ->
  (forall st, In st l2 -> ~ In h (written (abs_step st))) ->
  reads_as (crun (l1 ++ CShareMap h s fs :: l2)) h {| st := st a; fin := fs |}.
Proof.
  intros Hs Hl. apply reads_as_value. rewrite vrun_abs_app.
  assert (HL : forall st0, In st0 (map abs_step l2) -> ~ In h (written st0)) by (intros st0 Hin; apply in_map_iff in Hin as [st1 [<- Hin]]; auto).
  exact (result_independent_of_operand_fate1 aut (vrun_abs l1) h (fun a0 => {| st := st a0; fin := fs |}) s a (map abs_step l2) Hs HL).
Qed.

(* the stores held by the value model stay well-formed, so iteration through a handle = the lookups *)
Lemma keys_filter_NoDup {V} (f : N * V -> bool) l : NoDup (keys l) -> NoDup (keys (filter f l)).
Proof.
  induction l as [|[k v] l IH]; simpl; intros ND; auto. inversion ND as [|? ? Hk ND']; subst.
  destruct (f (k, v)); simpl; auto. constructor; auto. intros H. apply Hk. unfold keys in *. apply in_map_iff in H as [[k' v'] [E H]].
  apply filter_In in H as [H _]. simpl in E. subst. apply (in_map fst) in H. exact H.
Qed.
Lemma keep_wf keep s : wf_st s -> wf_st (keep_entries keep s).
Proof.
  intros [ND HF]. split; [apply keys_filter_NoDup; auto|]. unfold keep_entries, vals in *.
  rewrite Forall_forall in *. intros cl H. apply in_map_iff in H as [[k v] [<- H]]. apply filter_In in H as [H _].
  apply HF. apply (in_map snd) in H. exact H.
Qed.
Lemma step_wf_st a o : wf_st (st a) -> wf_st (st (step a o)).
Proof. intros W. destruct o; simpl; auto. - apply add_rule_wf; auto. - split; constructor. Qed.

Definition pool_wf (p : pool aut) : Prop := forall h a, p h = Some a -> wf_st (st a).
Lemma abs_step_wf p stp : pool_wf p -> pool_wf (vstep_run p (abs_step stp)).
Proof.
  intros W. assert (PS : forall (q : pool aut) k v, pool_wf q -> (forall a, v = Some a -> wf_st (st a)) -> pool_wf (pset q k v)).
  { intros q k v Wq Wv h a. unfold pset. destruct (N.eqb h k); auto. apply Wq. }
  destruct stp; cbn [abs_step vstep_run].
  - apply PS; auto. intros a E; inversion E; subst. split; constructor.
  - destruct (p s) eqn:E; auto. apply PS; auto. intros a0 E0; inversion E0; subst. eapply W; eauto.
  - destruct (p s) eqn:E; auto. apply PS; [apply PS; auto; discriminate|]. intros a0 E0; inversion E0; subst. eapply W; eauto.
  - destruct (p h) eqn:E; auto. apply PS; auto. intros a0 E0; match type of E0 with Some ?x = Some _ => assert (a0 = x) by congruence; subst a0 end; apply step_wf_st. eapply W; eauto.
  - destruct (p h) eqn:E; auto. apply PS; auto. intros a0 E0; match type of E0 with Some ?x = Some _ => assert (a0 = x) by congruence; subst a0 end; apply step_wf_st. eapply W; eauto.
  - destruct (p h) eqn:E; auto. apply PS; auto. intros a0 E0; match type of E0 with Some ?x = Some _ => assert (a0 = x) by congruence; subst a0 end; apply step_wf_st. eapply W; eauto.
  - destruct (p h) eqn:E; auto. apply PS; auto. intros a0 E0; match type of E0 with Some ?x = Some _ => assert (a0 = x) by congruence; subst a0 end; apply step_wf_st. eapply W; eauto.
  - destruct (p h) eqn:E; auto. apply PS; auto. intros a0 E0; inversion E0; subst. eapply W; eauto.
  - apply PS; auto. discriminate.
  - destruct (p s) eqn:E; auto. apply PS; auto. intros a0 E0; inversion E0; subst. simpl. eapply W; eauto.
  - destruct (p s) eqn:E; auto. apply PS; auto. intros a0 E0; inversion E0; subst. simpl. apply keep_wf. eapply W; eauto.
Qed.
Lemma vrun_abs_wf l : pool_wf (vrun_abs l).
Proof.
  unfold vrun_abs. assert (G : forall p, pool_wf p -> pool_wf (vrun p (map abs_step l))).
  { induction l as [|s l IH]; simpl; intros p W; auto. apply IH. apply abs_step_wf; auto. }
  apply G. intros h a E. discriminate.
Qed.

(* the rules iterated in the value are exactly those found by lookups through the handle of the heap *)
Theorem cow_reads_rules l h a : vrun_abs l h = Some a -> forall r, In r (iter (st a)) <-> cow_contains (crun l) h r = true.
Proof.
  intros H r. rewrite (iter_contains _ _ (vrun_abs_wf l h a H)).
  destruct (reads_as_value l h a H) as [fs [m [G [_ K]]]]. unfold cow_contains. rewrite G, K.
  unfold contains, slookup. destruct (get (par r) (st a)) as [cl|]; [|tauto]. destruct (get (sym r) cl); tauto.
Qed.
