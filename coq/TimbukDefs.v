(* C13 — byte-level model of the Timbuk serializer (src/timbuk_serializer.cc) and of the
   line-oriented Timbuk parser (src/timbuk_parser-nobison.cc: parse_timbuk), and value-level
   models of the loaders / dumpers of the four encodings.
   Bytes are [N] (0..255), texts are [list N]: no ascii / string, so extraction needs
   ExtrOcamlBasic only.  Definitions only: this file is extracted, proofs are in TimbukProofs.v. *)
From Coq Require Import List NArith ZArith Bool.
Import ListNotations.
Open Scope N_scope.

Definition bytes := list N.

(* ------------------------------------------------------------------------------------------ *)
(* characters                                                                                  *)
(* ------------------------------------------------------------------------------------------ *)
(* std::isspace in the "C" locale: ' ' \t \n \v \f \r ; false for every byte >= 0x80 (the parser
   calls it on a plain char, i.e. on a negative int for those bytes; glibc answers false) *)
Definition is_space (c : N) : bool := (c =? 32) || ((9 <=? c) && (c <=? 13)).
Definition is_digit (c : N) : bool := (48 <=? c) && (c <=? 57).

Definition is_nil {A} (l : list A) : bool := match l with [] => true | _ => false end.

Fixpoint beq (a b : bytes) : bool :=
  match a, b with
  | [], [] => true
  | x :: a', y :: b' => (x =? y) && beq a' b'
  | _, _ => false
  end.

Definition has_space (l : bytes) : bool := existsb is_space l.
Definition has_byte (c : N) (l : bytes) : bool := existsb (N.eqb c) l.

(* ------------------------------------------------------------------------------------------ *)
(* the helpers of the parser                                                                   *)
(* ------------------------------------------------------------------------------------------ *)
(* trim(): erase leading, then trailing, white space *)
Fixpoint ltrim (l : bytes) : bytes :=
  match l with
  | c :: r => if is_space c then ltrim r else l
  | [] => []
  end.
(* linear-time reversal (List.rev is quadratic once extracted); frev = rev, see TimbukProofs.frev_rev *)
Definition frev (l : bytes) : bytes := rev_append l [].
Definition rtrim (l : bytes) : bytes := frev (ltrim (frev l)).
Definition trim (l : bytes) : bytes := rtrim (ltrim l).

(* split_delim(): split at every byte satisfying p; the result is never empty
   ("a,b," gives three pieces, the last one empty) *)
Fixpoint split_by (p : N -> bool) (l : bytes) : list bytes :=
  match l with
  | [] => [[]]
  | c :: r =>
      if p c then [] :: split_by p r
      else match split_by p r with
           | h :: t => (c :: h) :: t
           | [] => [[c]]
           end
  end.
Definition split_at (d : N) : bytes -> list bytes := split_by (N.eqb d).

(* what the loop  `while (!str.empty()) { w = read_word(str); ... }`  enumerates on a trimmed
   string, and also `first_word = read_word(trim(line))` followed by that loop: the maximal
   runs of non-space bytes.  (read_word takes the bytes up to the first space and trims the rest.) *)
Definition words (l : bytes) : list bytes :=
  filter (fun w => negb (is_nil w)) (split_by is_space l).

(* str.find(c): the text before and after the first occurrence of c *)
Fixpoint break_at (c : N) (l : bytes) : option (bytes * bytes) :=
  match l with
  | [] => None
  | x :: r =>
      if x =? c then Some ([], r)
      else match break_at c r with
           | Some (a, b) => Some (x :: a, b)
           | None => None
           end
  end.

(* str.find("->") *)
Fixpoint break_arrow (l : bytes) : option (bytes * bytes) :=
  match l with
  | [] => None
  | c :: r =>
      match r with
      | [] => None
      | d :: r' =>
          if (c =? 45) && (d =? 62) then Some ([], r')
          else match break_arrow r with
               | Some (a, b) => Some (c :: a, b)
               | None => None
               end
      end
  end.

Fixpoint no_arrow (l : bytes) : bool :=
  match l with
  | [] => true
  | c :: r =>
      match r with
      | [] => true
      | d :: _ => negb ((c =? 45) && (d =? 62)) && no_arrow r
      end
  end.

(* ------------------------------------------------------------------------------------------ *)
(* integers: Convert::ToString(int) and Convert::FromString<int> (istringstream >> int)        *)
(* ------------------------------------------------------------------------------------------ *)
(* least significant digit first; fuel = 1 + number of binary digits (sufficient: show_N_value) *)
Fixpoint digits_rev (fuel : nat) (n : N) : bytes :=
  match fuel with
  | O => []
  | S f => (48 + n mod 10) :: (if n / 10 =? 0 then [] else digits_rev f (n / 10))
  end.
Definition show_N (n : N) : bytes := frev (digits_rev (S (N.to_nat (N.size n))) n).
Definition show_int (z : Z) : bytes :=
  match z with
  | Z0 => show_N 0
  | Zpos p => show_N (Npos p)
  | Zneg p => 45 :: show_N (Npos p)
  end.

Fixpoint take_digits (l : bytes) : bytes :=
  match l with
  | c :: r => if is_digit c then c :: take_digits r else []
  | [] => []
  end.

(* the accumulator saturates at 2^32 so that a very long run of digits costs nothing;
   everything >= 2^32 is out of the range of int anyway *)
Definition int_cap : N := 4294967296.
Definition acc_digit (a d : N) : N :=
  let v := a * 10 + (d - 48) in if int_cap <=? v then int_cap else v.
Definition digits_value (ds : bytes) : N := fold_left acc_digit ds 0.

(* num_get<int>: optional sign, at least one decimal digit, anything may follow;
   a value outside [INT_MIN, INT_MAX] sets failbit  *)
Definition parse_digits (neg : bool) (s : bytes) : option Z :=
  let ds := take_digits s in
  if is_nil ds then None
  else let v := digits_value ds in
       if neg then (if v <=? 2147483648 then Some (- Z.of_N v)%Z else None)
       else (if v <=? 2147483647 then Some (Z.of_N v) else None).
Definition parse_int (s : bytes) : option Z :=
  match s with
  | [] => None
  | c :: r => if c =? 45 then parse_digits true r
              else if c =? 43 then parse_digits false r
              else parse_digits false s
  end.

(* parse_colonned_token(): <string>:<number> or <string> (number -1).  The token is a word, so
   the trim() at its start is the identity. *)
Definition parse_colonned (tok : bytes) : option (bytes * Z) :=
  match break_at 58 tok with
  | None => Some (tok, (-1)%Z)
  | Some (nm, num) =>
      match parse_int num with
      | Some z => Some (nm, z)
      | None => None
      end
  end.

(* ------------------------------------------------------------------------------------------ *)
(* descriptions                                                                                *)
(* ------------------------------------------------------------------------------------------ *)
Record trans := mkTrans { t_ch : list bytes; t_sym : bytes; t_par : bytes }.
Record desc := mkDesc {
  d_name : bytes;
  d_syms : list (bytes * Z);
  d_states : list bytes;
  d_finals : list bytes;
  d_trans : list trans }.

Definition kw_Ops : bytes := [79;112;115].
Definition kw_Automaton : bytes := [65;117;116;111;109;97;116;111;110].
Definition kw_States : bytes := [83;116;97;116;101;115].
Definition kw_Final : bytes := [70;105;110;97;108].
Definition kw_Transitions : bytes := [84;114;97;110;115;105;116;105;111;110;115].
Definition kw_anonymous : bytes := [97;110;111;110;121;109;111;117;115].

(* ------------------------------------------------------------------------------------------ *)
(* TimbukSerializer::Serialize                                                                 *)
(* ------------------------------------------------------------------------------------------ *)
Definition ser_sym (s : bytes * Z) : bytes := fst s ++ [58] ++ show_int (snd s).
Definition ser_tuple (cs : list bytes) : bytes :=
  match cs with
  | [] => []
  | c0 :: r => [40] ++ (c0 ++ concat (map (fun c => [44;32] ++ c) r)) ++ [41]
  end.
Definition ser_trans (t : trans) : bytes :=
  t_sym t ++ ser_tuple (t_ch t) ++ [32;45;62;32] ++ t_par t.
Definition out_name (d : desc) : bytes := if is_nil (d_name d) then kw_anonymous else d_name d.

Definition line_ops (d : desc) : bytes := kw_Ops ++ [32] ++ concat (map (fun s => ser_sym s ++ [32]) (d_syms d)).
Definition line_aut (d : desc) : bytes := kw_Automaton ++ [32] ++ out_name d.
Definition line_states (d : desc) : bytes := kw_States ++ [32] ++ concat (map (fun s => s ++ [32]) (d_states d)).
Definition line_finals (d : desc) : bytes :=
  kw_Final ++ [32] ++ kw_States ++ [32] ++ concat (map (fun s => s ++ [32]) (d_finals d)).

Definition serialize (d : desc) : bytes :=
  line_ops d ++ [10] ++
  line_aut d ++ [10] ++
  line_states d ++ [10] ++
  line_finals d ++ [10] ++
  kw_Transitions ++ [10] ++
  concat (map (fun t => ser_trans t ++ [10]) (d_trans d)).

(* ------------------------------------------------------------------------------------------ *)
(* parse_timbuk                                                                                *)
(* ------------------------------------------------------------------------------------------ *)
Fixpoint map_opt {A B} (f : A -> option B) (l : list A) : option (list B) :=
  match l with
  | [] => Some []
  | x :: r =>
      match f x with
      | None => None
      | Some y => match map_opt f r with
                  | None => None
                  | Some ys => Some (y :: ys)
                  end
      end
  end.

(* one line of the Transitions section; s = trim(line), not empty.  Every [None] is one of the
   `throw std::runtime_error(invalid_trans_str)` of the code, in the code's order. *)
Definition parse_trans_line (s : bytes) : option trans :=
  match break_arrow s with
  | None => None                                             (* no "->" *)
  | Some (before, after) =>
      let lhs := trim before in
      let rhs := trim after in
      if is_nil rhs || has_space rhs then None
      else
        match break_at 40 lhs with
        | None =>                                            (* no tuple of states *)
            if has_byte 41 lhs || has_space lhs || is_nil lhs then None
            else Some (mkTrans [] lhs rhs)
        | Some (lab0, rest) =>
            if has_byte 41 lab0 then None                    (* first ')' before first '(' *)
            else
              match break_at 41 rest with
              | None => None                                 (* no ')' *)
              | Some (tup, tail) =>
                  if negb (is_nil tail) then None            (* ')' is not the last byte *)
                  else
                    let lab := trim lab0 in
                    if is_nil lab then None
                    else
                      let sts := map trim (split_at 44 tup) in
                      if existsb has_space sts then None
                      else Some (mkTrans (match sts with [[]] => [] | _ => sts end) lab rhs)
              end
        end
  end.

Fixpoint parse_trans_lines (ls : list bytes) : option (list trans) :=
  match ls with
  | [] => Some []
  | l :: r =>
      let s := trim l in
      if is_nil s then parse_trans_lines r
      else match parse_trans_line s with
           | None => None
           | Some t => match parse_trans_lines r with
                       | None => None
                       | Some ts => Some (t :: ts)
                       end
           end
  end.

(* the part of the state before the line "Transitions": the four *_parsed flags and the sections *)
Record hdr := mkHdr {
  h_aut : bool; h_ops : bool; h_sts : bool; h_fin : bool;
  h_name : bytes; h_syms : list (bytes * Z); h_states : list bytes; h_finals : list bytes }.
Definition hdr0 : hdr := mkHdr false false false false [] [] [] [].

(* the lines up to and including "Transitions"; returns the remaining lines.
   [None] = one of the runtime_errors (section parsed twice, unexpected first word, "Final" not
   followed by "States", trailing text after the automaton name, a malformed rank) or the end of the
   text without a "Transitions" line. *)
Fixpoint parse_header (ls : list bytes) (h : hdr) : option (hdr * list bytes) :=
  match ls with
  | [] => None
  | l :: rest =>
      match words l with
      | [] => parse_header rest h
      | w :: args =>
          if beq w kw_Transitions then Some (h, rest)
          else if beq w kw_Automaton then
            if h_aut h then None
            else match args with
                 | [] => parse_header rest
                           (mkHdr true (h_ops h) (h_sts h) (h_fin h) [] (h_syms h) (h_states h) (h_finals h))
                 | [nm] => parse_header rest
                           (mkHdr true (h_ops h) (h_sts h) (h_fin h) nm (h_syms h) (h_states h) (h_finals h))
                 | _ => None
                 end
          else if beq w kw_Ops then
            if h_ops h then None
            else match map_opt parse_colonned args with
                 | None => None
                 | Some sy => parse_header rest
                           (mkHdr (h_aut h) true (h_sts h) (h_fin h) (h_name h) sy (h_states h) (h_finals h))
                 end
          else if beq w kw_States then
            if h_sts h then None
            else match map_opt parse_colonned args with
                 | None => None
                 | Some st => parse_header rest
                           (mkHdr (h_aut h) (h_ops h) true (h_fin h) (h_name h) (h_syms h) (map fst st) (h_finals h))
                 end
          else if beq w kw_Final then
            match args with
            | [] => None
            | w2 :: args' =>
                if negb (beq w2 kw_States) then None
                else if h_fin h then None
                else match map_opt parse_colonned args' with
                     | None => None
                     | Some st => parse_header rest
                           (mkHdr (h_aut h) (h_ops h) (h_sts h) true (h_name h) (h_syms h) (h_states h) (map fst st))
                     end
            end
          else None
      end
  end.

Definition parse (s : bytes) : option desc :=
  match parse_header (split_at 10 s) hdr0 with
  | None => None
  | Some (h, rest) =>
      match parse_trans_lines rest with
      | None => None
      | Some ts => Some (mkDesc (h_name h) (h_syms h) (h_states h) (h_finals h) ts)
      end
  end.

(* ------------------------------------------------------------------------------------------ *)
(* the side condition of the round trip, per role of a name, as the code needs it               *)
(* ------------------------------------------------------------------------------------------ *)
Definition ok_word (w : bytes) : bool := negb (is_nil w) && negb (has_space w).
Definition in_int_range (z : Z) : bool := ((-2147483648 <=? z) && (z <=? 2147483647))%Z.
(* a symbol of the Ops line and a state of the States / Final States lines: a word without ':' *)
Definition wf_opsym (s : bytes * Z) : bool := ok_word (fst s) && negb (has_byte 58 (fst s)) && in_int_range (snd s).
Definition wf_state (w : bytes) : bool := ok_word w && negb (has_byte 58 w).
(* the symbol of a transition: a word without '(' ')' "->" *)
Definition wf_tsym (w : bytes) : bool := ok_word w && negb (has_byte 40 w) && negb (has_byte 41 w) && no_arrow w.
(* a child: no white space, no ',' ')' "->"; a single child must not be empty (`a()` is nullary) *)
Definition wf_child (w : bytes) : bool := negb (has_space w) && negb (has_byte 44 w) && negb (has_byte 41 w) && no_arrow w.
Definition wf_trans (t : trans) : bool :=
  wf_tsym (t_sym t) && forallb wf_child (t_ch t) &&
  (match t_ch t with [c] => negb (is_nil c) | _ => true end) && ok_word (t_par t).
Definition wf_desc (d : desc) : bool :=
  negb (has_space (d_name d)) && forallb wf_opsym (d_syms d) && forallb wf_state (d_states d) &&
  forallb wf_state (d_finals d) && forallb wf_trans (d_trans d).

(* the uniform side condition of the property text: every name is non-empty and contains no white
   space, none of ( ) , : and no "->" *)
Definition wf_name (w : bytes) : bool :=
  ok_word w && negb (has_byte 40 w) && negb (has_byte 41 w) && negb (has_byte 44 w) && negb (has_byte 58 w) && no_arrow w.
Definition wf_desc_uniform (d : desc) : bool :=
  negb (has_space (d_name d)) &&
  forallb (fun s => wf_name (fst s) && in_int_range (snd s)) (d_syms d) &&
  forallb wf_name (d_states d) && forallb wf_name (d_finals d) &&
  forallb (fun t => wf_name (t_sym t) && forallb wf_name (t_ch t) && wf_name (t_par t)) (d_trans d).

(* ------------------------------------------------------------------------------------------ *)
(* comparison of descriptions as the relaxed AutDescription::operator== does: final states and  *)
(* transitions as sets                                                                         *)
(* ------------------------------------------------------------------------------------------ *)
Fixpoint lbeq (a b : list bytes) : bool :=
  match a, b with
  | [], [] => true
  | x :: a', y :: b' => beq x y && lbeq a' b'
  | _, _ => false
  end.
Definition trans_eqb (s t : trans) : bool := lbeq (t_ch s) (t_ch t) && beq (t_sym s) (t_sym t) && beq (t_par s) (t_par t).
Definition mem_b (x : bytes) (l : list bytes) : bool := existsb (beq x) l.
Definition mem_t (x : trans) (l : list trans) : bool := existsb (trans_eqb x) l.
Definition sub_b (l m : list bytes) : bool := forallb (fun x => mem_b x m) l.
Definition sub_t (l m : list trans) : bool := forallb (fun x => mem_t x m) l.
Definition same_b (l m : list bytes) : bool := sub_b l m && sub_b m l.
Definition same_t (l m : list trans) : bool := sub_t l m && sub_t m l.
Definition desc_same (d e : desc) : bool := same_b (d_finals d) (d_finals e) && same_t (d_trans d) (d_trans e).

(* strict comparison (drift only): name, symbols and states too *)
Definition sym_eqb (s t : bytes * Z) : bool := beq (fst s) (fst t) && Z.eqb (snd s) (snd t).
Definition sub_s (l m : list (bytes * Z)) : bool := forallb (fun x => existsb (sym_eqb x) m) l.
Definition desc_strict (d e : desc) : bool :=
  desc_same d e && beq (d_name d) (d_name e) && sub_s (d_syms d) (d_syms e) && sub_s (d_syms e) (d_syms d) &&
  same_b (d_states d) (d_states e).

(* the gates on a text: it parses (by this parser) to a description with the finals and rules of d *)
Definition text_denotes (txt : bytes) (d : desc) : bool :=
  match parse txt with
  | Some e => desc_same e d
  | None => false
  end.

(* ------------------------------------------------------------------------------------------ *)
(* the finite-automaton encoding (src/explicit_finite_aut_core.hh): only arities 0 and 1 load;   *)
(* a nullary rule  s -> q  makes q a start state and records s among its start symbols; the dump *)
(* writes ONE nullary rule per start state, with one of the recorded symbols (the loop over the  *)
(* symbol set ends with `break`).  So what must come back is: the final states, the unary rules, *)
(* the set of start states, and for each start state one of its nullary rules.                   *)
(* ------------------------------------------------------------------------------------------ *)
Definition nullary (t : trans) : bool := is_nil (t_ch t).
Definition unary_or_nullary (t : trans) : bool := match t_ch t with [] => true | [_] => true | _ => false end.
Definition is_fa (d : desc) : bool := forallb unary_or_nullary (d_trans d).
Definition fa_same (d e : desc) : bool :=
  same_b (d_finals d) (d_finals e) &&
  same_t (filter (fun t => negb (nullary t)) (d_trans d)) (filter (fun t => negb (nullary t)) (d_trans e)) &&
  sub_t (filter nullary (d_trans e)) (d_trans d) &&
  sub_b (map t_par (filter nullary (d_trans d))) (map t_par (filter nullary (d_trans e))).
Definition text_denotes_fa (txt : bytes) (d : desc) : bool :=
  match parse txt with
  | Some e => fa_same d e
  | None => false
  end.
