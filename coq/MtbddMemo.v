(* C17 (A) increment — the apply functors memoise their results in a table keyed by the pair of operand nodes (apply2func.hh: `ht`),
   valid for ONE apply call: recDescend first looks the pair up, otherwise classifies the case, descends and stores the result.
   Model: the table is threaded through the recursion (fuel-indexed; None = out of fuel). Theorem: with a table whose entries are all
   right for the operation at hand (the empty table at the start of a call), every result is that of the memo-free apply2 and the
   table stays right. A table that survives into a call with ANOTHER leaf operation is refuted. *)
From Coq Require Import List Arith Lia Bool.
From V Require Import MtbddDefs MtbddOps MtbddProofs.
Import ListNotations.

Section Memo.
Variable V : Type.
Variable V_eq_dec : forall a b : V, {a = b} + {a <> b}.
Notation dd := (dd V).

Definition memo := list ((dd * dd) * dd).
Definition key_eqb (a b : dd) (e : (dd * dd) * dd) : bool := dd_eqb V V_eq_dec (fst (fst e)) a && dd_eqb V V_eq_dec (snd (fst e)) b.
Definition lookup (m : memo) (a b : dd) : option dd := option_map snd (find (key_eqb a b) m).

Fixpoint apply2m (fuel : nat) (op : V -> V -> V) (m : memo) (a b : dd) : option (memo * dd) :=
  match fuel with
  | 0 => None
  | S f =>
      match lookup m a b with
      | Some r => Some (m, r)
      | None =>
          let '(b1, b2) := classify2 V a b in
          if negb b1 && negb b2
          then let r := match a, b with Leaf u, Leaf v => Leaf (op u v) | _, _ => a end in Some (((a, b), r) :: m, r)
          else let x := if b2 then var_of V b else var_of V a in
               match apply2m f op m (if b1 then child_lo V a else a) (if b2 then child_lo V b else b) with
               | None => None
               | Some (m1, rl) =>
                   match apply2m f op m1 (if b1 then child_hi V a else a) (if b2 then child_hi V b else b) with
                   | None => None
                   | Some (m2, rh) => let r := mk V V_eq_dec x rl rh in Some (((a, b), r) :: m2, r)
                   end
               end
      end
  end.

Definition memo_ok (op : V -> V -> V) (m : memo) : Prop := forall a b r, In ((a, b), r) m -> r = apply2 V V_eq_dec op a b.

Lemma dd_eqb_eq a b : dd_eqb V V_eq_dec a b = true <-> a = b.
Proof. unfold dd_eqb. destruct (dd_eq_dec V V_eq_dec a b); split; auto; discriminate. Qed.
Lemma lookup_in m a b r : lookup m a b = Some r -> In ((a, b), r) m.
Proof.
  unfold lookup. destruct (find (key_eqb a b) m) as [[[a' b'] r']|] eqn:E; simpl; [|discriminate]. intros H. inversion H; subst.
  apply find_some in E as [Hin Hk]. unfold key_eqb in Hk. simpl in Hk. apply andb_true_iff in Hk as [H1 H2].
  apply dd_eqb_eq in H1, H2. subst. exact Hin.
Qed.

Theorem apply2m_correct op : forall fuel m a b m' r,
  memo_ok op m -> apply2m fuel op m a b = Some (m', r) -> r = apply2 V V_eq_dec op a b /\ memo_ok op m'.
Proof.
  induction fuel as [|f IH]; intros m a b m' r Hm H; simpl in H; [discriminate|].
  destruct (lookup m a b) as [r0|] eqn:El.
  - inversion H; subst. split; auto. apply Hm. apply lookup_in; auto.
  - rewrite (apply2_recdescend V V_eq_dec op a b).
    destruct (classify2 V a b) as [b1 b2] eqn:Ec. destruct (negb b1 && negb b2) eqn:En.
    + inversion H; subst. split; auto. intros a' b' r' [E|Hin]; [|apply Hm; auto].
      inversion E; subst. rewrite (apply2_recdescend V V_eq_dec op a' b'), Ec, En. reflexivity.
    + destruct (apply2m f op m (if b1 then child_lo V a else a) (if b2 then child_lo V b else b)) as [[m1 rl]|] eqn:E1; [|discriminate].
      destruct (apply2m f op m1 (if b1 then child_hi V a else a) (if b2 then child_hi V b else b)) as [[m2 rh]|] eqn:E2; [|discriminate].
      inversion H; subst.
      destruct (IH _ _ _ _ _ Hm E1) as [R1 Hm1]. destruct (IH _ _ _ _ _ Hm1 E2) as [R2 Hm2]. subst rl rh.
      split; [reflexivity|]. intros a' b' r' [E|Hin]; [|apply Hm2; auto].
      inversion E; subst. rewrite (apply2_recdescend V V_eq_dec op a' b'), Ec, En. reflexivity.
Qed.

Theorem apply2m_fresh op fuel a b m' r : apply2m fuel op [] a b = Some (m', r) -> r = apply2 V V_eq_dec op a b.
Proof. intros H. destruct (apply2m_correct op fuel [] a b m' r) as [E _]; auto. intros x y z []. Qed.
End Memo.

(* a table that survives into a call with another leaf operation answers with the old operation's result: refuted *)
Theorem apply2m_stale_refuted :
  let a := Leaf 1 in let b := Leaf 2 in
  exists m r, apply2m nat Nat.eq_dec 5 Nat.add [] a b = Some (m, r) /\
              apply2m nat Nat.eq_dec 5 Nat.mul m a b = Some (m, Leaf 3) /\ apply2 nat Nat.eq_dec Nat.mul a b = Leaf 2.
Proof. eexists. eexists. split; [vm_compute; reflexivity|]. split; vm_compute; reflexivity. Qed.
(* non-vacuity: on operands with shared sub-diagrams the table is hit, and the result is that of apply2 *)
Example apply2m_example :
  let s := Nd 0 (Leaf 1) (Leaf 2) in let a := Nd 1 s s in let b := Nd 1 (Leaf 5) (Leaf 7) in
  option_map snd (apply2m nat Nat.eq_dec 10 Nat.add [] (Nd 2 a a) (Nd 2 b b)) = Some (apply2 nat Nat.eq_dec Nat.add (Nd 2 a a) (Nd 2 b b)) /\
  option_map (fun x => length (fst x)) (apply2m nat Nat.eq_dec 10 Nat.add [] (Nd 2 a a) (Nd 2 b b)) = Some 8.
Proof. vm_compute. split; reflexivity. Qed.
