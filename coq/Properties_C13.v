(* C13 — Timbuk text round-trips; what the gates of the correspondence check decide.
   Nothing but statements closed by [exact]; the proofs are in TimbukProofs.v.
   (The second half of C13 — malformed text is rejected by a standard exception, never a crash —
   is a statement about the C++ run time; it is observed by the correspondence run, not proved.) *)
From Coq Require Import List NArith ZArith Bool.
From V Require Import TimbukDefs TimbukProofs TimbukLoadDefs TimbukLoadProofs.

(* parsing the serialisation of a well-formed description gives the same final states and rules
   (and symbols and states), in the same order *)
Theorem C13_parse_serialize : forall d, wf_desc d = true ->
  exists d', parse (serialize d) = Some d' /\ d_finals d' = d_finals d /\ d_trans d' = d_trans d /\
             d_syms d' = d_syms d /\ d_states d' = d_states d.
Proof. exact parse_serialize. Qed.
(* exactly: everything comes back, the empty automaton name as "anonymous" *)
Theorem C13_parse_serialize_exact : forall d, wf_desc d = true -> parse (serialize d) = Some (normal_name d).
Proof. exact parse_serialize_exact. Qed.
(* the side condition in the words of the property (every name non-empty, no white space, none of
   ( ) , : and no "->") implies the per-role condition wf_desc *)
Theorem C13_wf_uniform : forall d, wf_desc_uniform d = true -> wf_desc d = true.
Proof. exact wf_uniform. Qed.
(* the hypotheses are satisfiable by non-trivial descriptions *)
Example C13_example_wf : wf_desc example_desc = true /\ roundtrips example_desc = true.
Proof. exact example_wf. Qed.
Example C13_example_uniform_wf : wf_desc_uniform example_uniform = true.
Proof. exact example_uniform_wf. Qed.
(* each exclusion of wf_desc is needed by the code as it is (one failing description per exclusion) *)
Theorem C13_reserved_needed :
  roundtrips (d_of_rule nil (97 :: nil) (113 :: nil) ((113 :: 58 :: 49 :: nil) :: nil))%N = false /\
  roundtrips (d_of_rule ((113 :: 44 :: 114 :: nil) :: nil) (102 :: nil) (113 :: nil) nil)%N = false /\
  roundtrips (d_of_rule (nil :: nil) (102 :: nil) (113 :: nil) nil)%N = false /\
  roundtrips (d_of_rule nil (97 :: 45 :: 62 :: 98 :: nil) (113 :: nil) nil)%N = false.
Proof. pose proof reserved_needed as H. repeat split; tauto. Qed.
(* the integer conversion used for ranks *)
Theorem C13_rank_roundtrip : forall z, in_int_range z = true -> parse_int (show_int z) = Some z.
Proof. exact parse_int_show. Qed.

(* the gates: the relaxed comparison decides equality of final states and rules as sets *)
Theorem C13_desc_same : forall d e, desc_same d e = true <->
  (forall q, In q (d_finals d) <-> In q (d_finals e)) /\ (forall t, In t (d_trans d) <-> In t (d_trans e)).
Proof. exact desc_same_spec. Qed.
(* a text passes the gate iff the formal parser reads it as a description with the finals and rules of d *)
Theorem C13_text_denotes : forall txt d, text_denotes txt d = true <->
  exists e, parse txt = Some e /\
            (forall q, In q (d_finals e) <-> In q (d_finals d)) /\ (forall t, In t (d_trans e) <-> In t (d_trans d)).
Proof. exact text_denotes_spec. Qed.
(* an implementation that writes what the model writes passes *)
Theorem C13_model_text_denotes : forall d, wf_desc d = true -> text_denotes (serialize d) d = true.
Proof. exact model_text_denotes. Qed.
(* the comparison for the finite-automaton encoding (one nullary rule per start state comes back) *)
Theorem C13_fa_same : forall d e, fa_same d e = true <->
  (forall q, In q (d_finals d) <-> In q (d_finals e)) /\
  (forall t, nullary t = false -> (In t (d_trans d) <-> In t (d_trans e))) /\
  (forall t, nullary t = true -> In t (d_trans e) -> In t (d_trans d)) /\
  (forall t, nullary t = true -> In t (d_trans d) ->
     exists t', nullary t' = true /\ In t' (d_trans e) /\ t_par t' = t_par t).
Proof. exact fa_same_spec. Qed.

(* value-level models of LoadFromAutDesc / DumpToAutDesc with a state dictionary, for the explicit,
   BDD bottom-up and BDD top-down encodings (e): dumping a freshly loaded automaton gives the final
   states and rules of the description back, name by name; the dictionary is injective *)
Theorem C13_dump_load : forall e d, dump (load e d) = Some (d_finals d, d_trans d).
Proof. exact dump_load. Qed.
Theorem C13_load_injective : forall e d q q', In q (state_keys e d) -> In q' (state_keys e d) ->
  fwd beq (l_states (load e d)) q = fwd beq (l_states (load e d)) q' -> q = q'.
Proof. exact load_injective. Qed.
(* the finite-automaton encoding: a description with arities 0 and 1 only loads; the dump returns the
   final states, the unary rules, the start states and one nullary rule per start state, whichever
   start symbol the implementation picks; other descriptions are refused *)
Theorem C13_dump_load_fa : forall d, is_fa d = true ->
  forall pick : list N -> N, (forall l, l <> nil -> In (pick l) l) ->
  exists l fr, load_fa d = Some l /\ dump_fa pick l = Some fr /\ fa_same d (dumped_desc fr) = true.
Proof. exact dump_load_fa. Qed.
Theorem C13_load_fa_guard : forall d, is_fa d = false -> load_fa d = None.
Proof. exact load_fa_guard. Qed.
(* dump -> text -> parse -> load -> dump gives the same final states and rules under the same names *)
Theorem C13_dump_text_load_dump : forall e d, wf_desc d = true ->
  exists fr, dump (load e d) = Some fr /\
  exists d2, parse (serialize (dumped_desc fr)) = Some d2 /\
             dump (load e d2) = Some (d_finals d, d_trans d).
Proof. exact dump_text_load_dump. Qed.

Print Assumptions C13_parse_serialize.
Print Assumptions C13_parse_serialize_exact.
Print Assumptions C13_wf_uniform.
Print Assumptions C13_example_wf.
Print Assumptions C13_example_uniform_wf.
Print Assumptions C13_reserved_needed.
Print Assumptions C13_rank_roundtrip.
Print Assumptions C13_desc_same.
Print Assumptions C13_text_denotes.
Print Assumptions C13_model_text_denotes.
Print Assumptions C13_fa_same.
Print Assumptions C13_dump_load.
Print Assumptions C13_load_injective.
Print Assumptions C13_dump_text_load_dump.
Print Assumptions C13_dump_load_fa.
Print Assumptions C13_load_fa_guard.
