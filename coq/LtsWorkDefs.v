(* C16 (A) increment — the refinement algorithm of the LTS simulation engine (src/explicit_lts_sim.cc) at the level of states
   (every block a singleton): the initial pruning by enabled labels (init(): fastSplit by delta1[a] and "prune relation"), the
   remove sets (remove_[a] of the block of q' = the states r that have an a-transition but none into a state still related to
   q'), the queue of (block, label) pairs, processRemove (every predecessor q of q' under a loses the candidates in the remove
   set; each pair (q, r) erased makes the predecessors r0 of r lose one b-successor related to q — the counter — and when none
   is left r0 enters remove_[b] of q). Two versions: [hhk] recomputes "no successor left" by a search, [hhkc] keeps the counters
   of the code (SharedCounter: counter(q, b, r0) = number of b-transitions of r0 into states related to q) and decrements them.
   Fuel-indexed; None = out of fuel. Definitions only (extracted); proofs in LtsWorkProofs.v. *)
From Coq Require Import List NArith Bool Arith.
Import ListNotations.
From V Require Import Gfp LtsSimDefs.

Definition trip := (N * N * N)%type.   (* (a, q', r): r is in the remove set of q' for label a *)

(* r has an a-transition into a state related to q' *)
Definition has_succ (L : lts) (R : list (N * N)) (a q' r : N) : bool :=
  existsb (fun e => N.eqb (esrc e) r && N.eqb (elab e) a && memP (q', edst e) R) L.

(* init(): q can only be simulated by states that enable every label q enables *)
Definition enabled (L : lts) (a r : N) : bool := existsb (fun e => N.eqb (esrc e) r && N.eqb (elab e) a) L.
Definition prune_pair (L : lts) (x : N * N) : bool :=
  forallb (fun e => if N.eqb (esrc e) (fst x) then enabled L (elab e) (snd x) else true) L.
Definition prune_enabled (L : lts) (R0 : list (N * N)) : list (N * N) := filter (prune_pair L) R0.

(* init(): the initial remove sets — for every label a entering q' (a in inset(q')) the states of delta1[a] without an
   a-transition into a state related to q' *)
Definition init_removes (L : lts) (R : list (N * N)) : list trip :=
  flat_map (fun e1 => flat_map (fun e2 =>
      if N.eqb (elab e2) (elab e1) && negb (has_succ L R (elab e1) (edst e1) (esrc e2))
      then [(elab e1, edst e1, esrc e2)] else []) L) L.

(* the pairs (q, r) with q -a-> q' *)
Definition victims (L : lts) (a q' r : N) : list (N * N) :=
  map (fun e => (esrc e, r)) (filter (fun e => N.eqb (elab e) a && N.eqb (edst e) q') L).

(* the remove entries caused by erasing the pairs in [gone]: (q, r) erased and r0 -b-> r with no b-transition of r0 into a state
   still related to q *)
Definition new_removes (L : lts) (R' : list (N * N)) (gone : list (N * N)) : list trip :=
  flat_map (fun x => flat_map (fun e =>
      if N.eqb (edst e) (snd x) && negb (has_succ L R' (elab e) (fst x) (esrc e))
      then [(elab e, fst x, esrc e)] else []) L) gone.

Fixpoint hhk (L : lts) (lifo : bool) (fuel : nat) (R : list (N * N)) (Rem : list trip) : option (list (N * N)) :=
  match fuel with
  | 0 => None
  | S f =>
      match Rem with
      | [] => Some R
      | (a, q', r) :: Rem' =>
          let V := victims L a q' r in
          let gone := filter (fun x => memP x V) R in
          let R' := filter (fun x => negb (memP x V)) R in
          let nw := new_removes L R' gone in
          hhk L lifo f R' (if lifo then nw ++ Rem' else Rem' ++ nw)
      end
  end.

Definition hhk_sim (L : lts) (lifo : bool) (fuel : nat) (n : nat) (part : list (list N)) (brel : list (N * N)) : option (list (N * N)) :=
  let R1 := prune_enabled L (init_rel n part brel) in hhk L lifo fuel R1 (init_removes L R1).

(* the same run without the initial pruning by enabled labels (refuted in the proofs file) *)
Definition hhk_sim_noprune (L : lts) (lifo : bool) (fuel : nat) (n : nat) (part : list (list N)) (brel : list (N * N)) : option (list (N * N)) :=
  let R1 := init_rel n part brel in hhk L lifo fuel R1 (init_removes L R1).

