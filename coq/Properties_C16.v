(* C16 — the LTS simulation engine returns the greatest simulation inside a given initial partition/preorder.
   Nothing but statements closed by [exact]; the proofs are in LtsSimProofs.v.
   The first group fixes the function the engine must compute; the second group ((A), LtsWork*.v / LtsCount*.v) is about the
   engine's refinement algorithm (src/explicit_lts_sim.cc) at the level of states — every block a singleton: pruning by enabled
   labels, remove sets, queue, counters; the splitting of blocks is not modelled. The tie to the C++ is the behavioural
   correspondence check. *)
From Coq Require Import List NArith Bool.
From V Require Import Gfp LtsSimDefs LtsSimProofs LtsWorkDefs LtsWorkProofs LtsCountDefs LtsCountProofs.

(* the model's result is a simulation inside the initial relation and contains every such relation
   (holds for every partition / block relation; the property's hypotheses are needed for the preorder clauses only) *)
Theorem C16_lts_sim_greatest : forall L n part brel,
  is_greatest (fun R => sub_rel R (init_relP n part brel) /\ simulation L R) (rel_of (lts_sim L n part brel)).
Proof. exact lts_sim_greatest. Qed.
(* for a partition of 0..n-1 and a reflexive block relation the result is reflexive ... *)
Theorem C16_lts_sim_reflexive : forall L n part brel,
  lts_wf L n = true -> partition_ok n part = true -> brel_refl part brel = true ->
  reflexive_on n (rel_of (lts_sim L n part brel)).
Proof. exact lts_sim_reflexive. Qed.
(* ... and for a transitive block relation it is transitive *)
Theorem C16_lts_sim_transitive : forall L n part brel,
  brel_trans brel = true -> transitive (rel_of (lts_sim L n part brel)).
Proof. exact lts_sim_transitive. Qed.
(* no partition given: the greatest simulation of the system on 0..n-1, which is a preorder *)
Theorem C16_lts_sim_default : forall L n,
  is_greatest (fun R => within n R /\ simulation L R) (rel_of (lts_sim_default L n)).
Proof. exact lts_sim_default_greatest. Qed.
Theorem C16_lts_sim_default_preorder : forall L n, lts_wf L n = true ->
  reflexive_on n (rel_of (lts_sim_default L n)) /\ transitive (rel_of (lts_sim_default L n)).
Proof. exact lts_sim_default_preorder. Qed.
(* restriction to the requested output size: exactly the pairs of states below that size *)
Theorem C16_output_spec : forall m R q r, In (q, r) (output m R) <-> In (q, r) R /\ (q < m)%N /\ (r < m)%N.
Proof. exact output_spec. Qed.
(* the gates evaluated on libvata's output decide exactly the property clause *)
Theorem C16_gate_lts : forall L n part brel m impl,
  gate_lts L n part brel m impl = true <->
  exists S, is_greatest (fun R => sub_rel R (init_relP n part brel) /\ simulation L R) S /\
            forall q r, In (q, r) impl <-> S q r /\ (q < m)%N /\ (r < m)%N.
Proof. exact gate_lts_spec. Qed.
Theorem C16_gate_lts_default : forall L n m impl,
  gate_lts_default L n m impl = true <->
  exists S, is_greatest (fun R => within n R /\ simulation L R) S /\
            forall q r, In (q, r) impl <-> S q r /\ (q < m)%N /\ (r < m)%N.
Proof. exact gate_lts_default_spec. Qed.
Theorem C16_rel_same : forall l m, rel_same l m = true <-> forall q r, In (q, r) l <-> In (q, r) m.
Proof. exact rel_same_spec. Qed.
(* the hypotheses are satisfiable and the result is not trivial *)
Example C16_example_input : input_ok ex_lts 3 (cons (cons 0 (cons 2 nil)) (cons (cons 1 nil) nil))%N
                                      (cons (0, 0) (cons (1, 1) (cons (0, 1) nil)))%N = true.
Proof. exact ex_input_ok. Qed.
Example C16_example_result : lts_sim ex_lts 3 (cons (cons 0 (cons 2 nil)) (cons (cons 1 nil) nil))%N
                                      (cons (0, 0) (cons (1, 1) (cons (0, 1) nil)))%N
                             = (cons (0, 0) (cons (0, 1) (cons (1, 1) (cons (2, 2) nil))))%N.
Proof. exact ex_result. Qed.

(* (A) the refinement algorithm with remove sets and a queue of (state, label) entries: whatever the queue discipline (lifo as in
   the code, or fifo) and the fuel, a run that ends returns exactly the greatest simulation inside the initial relation, hence
   passes the gate for every output size *)
Theorem C16_algo_partial_correct : forall L lifo fuel n part brel R',
  hhk_sim L lifo fuel n part brel = Some R' -> forall q r, In (q, r) R' <-> In (q, r) (lts_sim L n part brel).
Proof. exact hhk_sim_partial_correct. Qed.
Theorem C16_algo_passes_gate : forall L lifo fuel n part brel m R',
  hhk_sim L lifo fuel n part brel = Some R' -> gate_lts L n part brel m (output m R') = true.
Proof. exact hhk_sim_passes_gate. Qed.
(* the invariant behind it, for any start that satisfies it: the relation stays between the greatest simulation and the initial
   relation, a state in a remove set has no transition into a state still related, and a pair whose step condition fails is
   announced by an entry of a remove set *)
Theorem C16_algo_invariant_suffices : forall L R0 lifo fuel R Rem R',
  Inv L R0 R Rem -> hhk L lifo fuel R Rem = Some R' -> forall q r, In (q, r) R' <-> In (q, r) (lts_sim_from L R0).
Proof. exact hhk_partial_correct. Qed.
Theorem C16_algo_init_invariant : forall L R0, Inv L R0 (prune_enabled L R0) (init_removes L (prune_enabled L R0)).
Proof. exact init_inv. Qed.
(* init()'s pruning by enabled labels is necessary: without it a candidate that lacks a label altogether is never examined *)
Theorem C16_algo_noprune_refuted :
  exists R', hhk_sim_noprune np_lts true 10 2 (cons (cons 0 (cons 1 nil)) nil)%N (cons (0, 0) nil)%N = Some R' /\ In (0, 1)%N R' /\
             ~ In (0, 1)%N (lts_sim np_lts 2 (cons (cons 0 (cons 1 nil)) nil)%N (cons (0, 0) nil)%N).
Proof. exact hhk_noprune_refuted. Qed.
(* (A) the same loop with the counters of the code: counter (b, q, r0) = number of b-transitions of r0 into states still related
   to q; a state enters a remove set when its counter reaches zero. The counters stay exact (CInv), so the run is partially correct *)
Theorem C16_counters_partial_correct : forall L lifo fuel n part brel R',
  hhkc_sim L lifo fuel n part brel = Some R' -> forall q r, In (q, r) R' <-> In (q, r) (lts_sim L n part brel).
Proof. exact hhkc_sim_partial_correct. Qed.
Theorem C16_counters_passes_gate : forall L lifo fuel n part brel m R',
  hhkc_sim L lifo fuel n part brel = Some R' -> gate_lts L n part brel m (output m R') = true.
Proof. exact hhkc_sim_passes_gate. Qed.
Theorem C16_counters_init_exact : forall L R, CInv L R (init_counts L R).
Proof. exact init_counts_exact. Qed.
(* counters computed before init()'s pruning start too high and never reach zero: refuted (and on the same system the model with
   exact counters returns the functional model's relation) *)
Theorem C16_counters_stale_refuted :
  exists R', hhkc_sim_stale st_lts true 200 9 (cons (seqN 9) nil) (cons (0, 0) nil)%N = Some R' /\ In (0, 2)%N R' /\
             ~ In (0, 2)%N (lts_sim st_lts 9 (cons (seqN 9) nil) (cons (0, 0) nil)%N) /\
             hhkc_sim st_lts true 200 9 (cons (seqN 9) nil) (cons (0, 0) nil)%N = Some (lts_sim st_lts 9 (cons (seqN 9) nil) (cons (0, 0) nil)%N).
Proof. exact hhkc_stale_counts_refuted. Qed.
(* the runs end on the example system, in both queue disciplines *)
Example C16_algo_example :
  hhk_sim ex_lts true 20 3 (cons (cons 0 (cons 2 nil)) (cons (cons 1 nil) nil))%N (cons (0, 0) (cons (1, 1) (cons (0, 1) nil)))%N
    = Some (cons (0, 0) (cons (0, 1) (cons (1, 1) (cons (2, 2) nil))))%N /\
  hhk_sim ex_lts false 20 3 (cons (cons 0 (cons 2 nil)) (cons (cons 1 nil) nil))%N (cons (0, 0) (cons (1, 1) (cons (0, 1) nil)))%N
    = Some (cons (0, 0) (cons (0, 1) (cons (1, 1) (cons (2, 2) nil))))%N.
Proof. exact hhk_example. Qed.
Example C16_counters_example :
  hhkc_sim ex_lts true 20 3 (cons (cons 0 (cons 2 nil)) (cons (cons 1 nil) nil))%N (cons (0, 0) (cons (1, 1) (cons (0, 1) nil)))%N
    = Some (cons (0, 0) (cons (0, 1) (cons (1, 1) (cons (2, 2) nil))))%N /\
  hhkc_sim ex_lts false 20 3 (cons (cons 0 (cons 2 nil)) (cons (cons 1 nil) nil))%N (cons (0, 0) (cons (1, 1) (cons (0, 1) nil)))%N
    = Some (cons (0, 0) (cons (0, 1) (cons (1, 1) (cons (2, 2) nil))))%N.
Proof. exact hhkc_example. Qed.

Print Assumptions C16_lts_sim_greatest.
Print Assumptions C16_lts_sim_reflexive.
Print Assumptions C16_lts_sim_transitive.
Print Assumptions C16_lts_sim_default.
Print Assumptions C16_lts_sim_default_preorder.
Print Assumptions C16_output_spec.
Print Assumptions C16_gate_lts.
Print Assumptions C16_gate_lts_default.
Print Assumptions C16_rel_same.
Print Assumptions C16_example_input.
Print Assumptions C16_example_result.
Print Assumptions C16_algo_partial_correct.
Print Assumptions C16_algo_passes_gate.
Print Assumptions C16_algo_invariant_suffices.
Print Assumptions C16_algo_init_invariant.
Print Assumptions C16_algo_noprune_refuted.
Print Assumptions C16_counters_partial_correct.
Print Assumptions C16_counters_passes_gate.
Print Assumptions C16_counters_init_exact.
Print Assumptions C16_counters_stale_refuted.
Print Assumptions C16_algo_example.
Print Assumptions C16_counters_example.
