(* C16 — the LTS simulation engine returns the greatest simulation inside a given initial partition/preorder.
   Nothing but statements closed by [exact]; the proofs are in LtsSimProofs.v.
   The engine's refinement algorithm (src/explicit_lts_sim.cc) is not modelled algorithmically: these theorems
   fix the function it must compute; the tie to the C++ is the behavioural correspondence check. *)
From Coq Require Import List NArith Bool.
From V Require Import Gfp LtsSimDefs LtsSimProofs.

(* the model's result is a simulation inside the initial relation and contains every such relation
   (holds for every partition / block relation; the property's hypotheses are needed for the preorder clauses only) *)
Theorem C16_lts_sim_greatest : forall L n part brel,
  is_greatest (fun R => sub_rel R (init_relP n part brel) /\ simulation L R) (rel_of (lts_sim L n part brel)).
Proof. exact lts_sim_greatest. Qed.
(* for a partition of 0..n-1 and a reflexive block relation the result is reflexive ... *)
Theorem C16_lts_sim_reflexive : forall L n part brel,
  lts_wf L n = true -> partition_ok n part = true -> brel_refl part brel = true ->
  reflexive_on n (rel_of (lts_sim L n part brel)).
Proof. exact lts_sim_reflexive. Qed.
(* ... and for a transitive block relation it is transitive *)
Theorem C16_lts_sim_transitive : forall L n part brel,
  brel_trans brel = true -> transitive (rel_of (lts_sim L n part brel)).
Proof. exact lts_sim_transitive. Qed.
(* no partition given: the greatest simulation of the system on 0..n-1, which is a preorder *)
Theorem C16_lts_sim_default : forall L n,
  is_greatest (fun R => within n R /\ simulation L R) (rel_of (lts_sim_default L n)).
Proof. exact lts_sim_default_greatest. Qed.
Theorem C16_lts_sim_default_preorder : forall L n, lts_wf L n = true ->
  reflexive_on n (rel_of (lts_sim_default L n)) /\ transitive (rel_of (lts_sim_default L n)).
Proof. exact lts_sim_default_preorder. Qed.
(* restriction to the requested output size: exactly the pairs of states below that size *)
Theorem C16_output_spec : forall m R q r, In (q, r) (output m R) <-> In (q, r) R /\ (q < m)%N /\ (r < m)%N.
Proof. exact output_spec. Qed.
(* the gates evaluated on libvata's output decide exactly the property clause *)
Theorem C16_gate_lts : forall L n part brel m impl,
  gate_lts L n part brel m impl = true <->
  exists S, is_greatest (fun R => sub_rel R (init_relP n part brel) /\ simulation L R) S /\
            forall q r, In (q, r) impl <-> S q r /\ (q < m)%N /\ (r < m)%N.
Proof. exact gate_lts_spec. Qed.
Theorem C16_gate_lts_default : forall L n m impl,
  gate_lts_default L n m impl = true <->
  exists S, is_greatest (fun R => within n R /\ simulation L R) S /\
            forall q r, In (q, r) impl <-> S q r /\ (q < m)%N /\ (r < m)%N.
Proof. exact gate_lts_default_spec. Qed.
Theorem C16_rel_same : forall l m, rel_same l m = true <-> forall q r, In (q, r) l <-> In (q, r) m.
Proof. exact rel_same_spec. Qed.
(* the hypotheses are satisfiable and the result is not trivial *)
Example C16_example_input : input_ok ex_lts 3 (cons (cons 0 (cons 2 nil)) (cons (cons 1 nil) nil))%N
                                      (cons (0, 0) (cons (1, 1) (cons (0, 1) nil)))%N = true.
Proof. exact ex_input_ok. Qed.
Example C16_example_result : lts_sim ex_lts 3 (cons (cons 0 (cons 2 nil)) (cons (cons 1 nil) nil))%N
                                      (cons (0, 0) (cons (1, 1) (cons (0, 1) nil)))%N
                             = (cons (0, 0) (cons (0, 1) (cons (1, 1) (cons (2, 2) nil))))%N.
Proof. exact ex_result. Qed.

Print Assumptions C16_lts_sim_greatest.
Print Assumptions C16_lts_sim_reflexive.
Print Assumptions C16_lts_sim_transitive.
Print Assumptions C16_lts_sim_default.
Print Assumptions C16_lts_sim_default_preorder.
Print Assumptions C16_output_spec.
Print Assumptions C16_gate_lts.
Print Assumptions C16_gate_lts_default.
Print Assumptions C16_rel_same.
Print Assumptions C16_example_input.
Print Assumptions C16_example_result.
