(* C05 — the complete functional model of Reduce: the downward simulation computed by refinement from the full relation,
   a canonical representative per class of mutually similar states, collapse, prune. Unconditional theorem: same language. *)
From Coq Require Import List NArith Bool Arith Lia.
Import ListNotations.
From V Require Import Fix Gfp Sem Prod Incl TrimDefs TrimProofs Lang BinopDefs BinopProofs ReduceDefs ReduceProofs.

Definition canon_rep (A : ta) (q : N) : N :=
  let D := down_sim_rel A in
  match find (fun s => relb D q s && relb D s q) (ustates A) with Some s => s | None => q end.
Definition reduce_model (A : ta) : ta := reduce_with (canon_rep A) A.

Lemma relb_mono D D' q r : incl D D' -> relb D q r = true -> relb D' q r = true.
Proof. intros H. rewrite !relb_spec. auto. Qed.
Lemma all2_mono D D' : incl D D' -> forall qs rs, all2 D qs rs = true -> all2 D' qs rs = true.
Proof.
  intros H. induction qs as [|q qs IH]; intros [|r rs]; simpl; auto.
  rewrite !andb_true_iff. intros [H1 H2]. split; [eapply relb_mono; eauto | auto].
Qed.
Lemma down_keep_mono A R R' x : incl R R' -> down_keep A R x = true -> down_keep A R' x = true.
Proof.
  intros H. unfold down_keep. rewrite !forallb_forall. intros K rq Hrq. specialize (K rq Hrq).
  apply orb_true_iff in K as [K|K]; apply orb_true_iff; [left; auto | right].
  apply existsb_exists in K as [rr [Hrr E]]. apply existsb_exists. exists rr. split; auto.
  apply andb_true_iff in E as [E1 E2]. rewrite E1. simpl. eapply all2_mono; eauto.
Qed.

(* the computed relation is a downward simulation *)
Theorem down_sim_rel_is_sim A : is_down_simb A (down_sim_rel A) = true.
Proof.
  unfold is_down_simb, down_sim_rel. cbv zeta. apply forallb_forall.
  apply (refine_fixed pr (down_keep A)). apply Nat.lt_succ_diag_r.
Qed.

(* ... and reflexive on the states of A *)
Lemma all2_refl D qs : (forall q, In q qs -> In (q, q) D) -> all2 D qs qs = true.
Proof. induction qs as [|q qs IH]; simpl; intros H; auto. rewrite (proj2 (relb_spec D q q)) by (apply H; left; auto). simpl. apply IH. intros; apply H; right; auto. Qed.

Theorem down_sim_rel_refl A q : In q (states A) -> In (q, q) (down_sim_rel A).
Proof.
  intros Hq. unfold down_sim_rel.
  set (U := list_prod (ustates A) (ustates A)).
  set (Id := map (fun q => (q, q)) (ustates A)).
  assert (HI : incl Id (refine pr (down_keep A) (S (length U)) U)).
  { apply (refine_greatest pr (down_keep A) (down_keep_mono A)).
    - intros x Hx. apply in_map_iff in Hx as [s [<- Hs]]. apply in_prod; auto.
    - intros x Hx. apply in_map_iff in Hx as [s [<- Hs]]. unfold down_keep. apply forallb_forall. intros rq Hrq. simpl.
      destruct (N.eqb_spec (par rq) s) as [E|NE]; simpl; auto. apply existsb_exists. exists rq. split; auto.
      rewrite E, !N.eqb_refl. simpl. apply all2_refl. intros c Hc. apply in_map_iff. exists c. split; auto.
      apply ustates_in. apply (rule_states A rq Hrq); auto. }
  apply HI. apply in_map_iff. exists q. split; auto. apply ustates_in; auto.
Qed.

Theorem canon_rep_valid A : valid_repb A (down_sim_rel A) (canon_rep A) = true.
Proof.
  unfold valid_repb. apply forallb_forall. intros q Hq. unfold canon_rep.
  destruct (find _ (ustates A)) as [s|] eqn:E.
  - apply find_some in E as [_ E]. apply andb_true_iff in E. apply andb_true_iff. tauto.
  - exfalso. pose proof (find_none _ _ E q (proj2 (ustates_in A q) Hq)) as F. simpl in F.
    assert (R : relb (down_sim_rel A) q q = true) by (apply relb_spec, down_sim_rel_refl; auto).
    rewrite R in F. discriminate.
Qed.

(* Reduce keeps the language — for every automaton, no hypothesis left *)
Theorem reduce_model_lang A : leq (reduce_model A) A.
Proof. apply (reduce_lang A (down_sim_rel A)); [apply down_sim_rel_is_sim | apply canon_rep_valid]. Qed.
Lemma unreach_reach A t q : reach A t q -> TdReach A q -> reach (remove_unreachable A) t q.
Proof.
  intros R T. unfold remove_unreachable, remove_unreachable_with. destruct (shortcut (td_reach A) A); auto. apply restrict_reach; auto.
Qed.

(* the model passes the gate used on libvata's result *)
Theorem reduce_model_gate A : reduce_gate A (reduce_model A) = true.
Proof.
  assert (HD : is_down_sim A (down_sim_rel A)) by (apply is_down_simb_spec, down_sim_rel_is_sim).
  assert (HV : valid_rep A (down_sim_rel A) (canon_rep A)) by (apply valid_repb_spec, canon_rep_valid).
  apply reduce_gate_spec. split; [apply reduce_model_lang|]. split; [apply reduce_states_le|]. split; [apply reduce_rules_le|].
  intros s Hs. destruct (reduce_onto _ _ _ Hs) as [q [Hq ->]]. exists q. split; auto.
  intros t. split.
  - intros R. unfold reduce_model, reduce_with in R.
    assert (R' : reach (image (canon_rep A) A) t (canon_rep A q)) by (revert R; apply reach_mono; apply unreach_rules_sub).
    apply (quot_reach A (down_sim_rel A) (canon_rep A) HD HV) in R'.
    eapply sim_reach; [exact HD | exact R' | apply (HV q Hq)].
  - intros R. unfold reduce_model, reduce_with. apply unreach_reach; [apply reach_image; auto|].
    apply unreach_td_back. apply unreach_post. exact Hs.
Qed.
