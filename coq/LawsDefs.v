(* C19 — judging outcomes on automata for which no reference can be computed: the expected value of each
   observation is a constant that follows from a theorem. Definitions only (extracted). *)
From Coq Require Import List NArith Bool.
Import ListNotations.

Inductive outcome := Yes | No | Timeout | Err.      (* Timeout = inconclusive (per-call limit), never a violation *)

Definition of_bool (b : bool) : outcome := if b then Yes else No.
(* a law: the verdict must be "included" *)
Definition must_hold (o : outcome) : bool := match o with Yes | Timeout => true | _ => false end.
(* two outcomes of the same question *)
Definition agree2 (a b : outcome) : bool :=
  match a, b with
  | Err, _ | _, Err => false
  | Yes, No | No, Yes => false
  | _, _ => true
  end.
Definition all_agree (l : list outcome) : bool := forallb (fun a => forallb (agree2 a) l) l.
Fixpoint pairwise_agree (l m : list outcome) : bool :=
  match l, m with
  | a :: l', b :: m' => agree2 a b && pairwise_agree l' m'
  | [], [] => true
  | _, _ => false
  end.
