(* C13 — proofs about the byte-level Timbuk model of TimbukDefs.v: parsing the output of the
   serializer gives the description back (same sections, same order). *)
From Coq Require Import List NArith ZArith Bool Lia.
Import ListNotations.
From V Require Import TimbukDefs.
Open Scope N_scope.

(* ------------------------------------------------------------------------------------------ *)
(* small facts                                                                                 *)
(* ------------------------------------------------------------------------------------------ *)
Lemma frev_rev : forall l, frev l = rev l.
Proof. intro l. unfold frev. symmetry. apply rev_alt. Qed.

Lemma beq_refl : forall a, beq a a = true.
Proof. induction a; simpl; auto. rewrite N.eqb_refl; auto. Qed.

Lemma beq_eq : forall a b, beq a b = true <-> a = b.
Proof.
  induction a as [|x a IH]; destruct b as [|y b]; simpl; split; intro H; try discriminate; auto.
  - apply andb_true_iff in H as [H1 H2]. apply N.eqb_eq in H1. apply IH in H2. congruence.
  - inversion H; subst. rewrite N.eqb_refl. simpl. apply IH; auto.
Qed.

Lemma has_byte_app : forall c a b, has_byte c (a ++ b) = has_byte c a || has_byte c b.
Proof. intros; unfold has_byte; apply existsb_app. Qed.

Lemma has_space_app : forall a b, has_space (a ++ b) = has_space a || has_space b.
Proof. intros; unfold has_space; apply existsb_app. Qed.

Lemma existsb_false_forallb : forall (p : N -> bool) l, existsb p l = false <-> forallb (fun c => negb (p c)) l = true.
Proof.
  induction l; simpl; split; intro H; auto.
  - apply orb_false_iff in H as [H1 H2]. rewrite H1. simpl. apply IHl; auto.
  - apply andb_true_iff in H as [H1 H2]. apply negb_true_iff in H1. rewrite H1. simpl. apply IHl; auto.
Qed.

(* ------------------------------------------------------------------------------------------ *)
(* split_by                                                                                    *)
(* ------------------------------------------------------------------------------------------ *)
Lemma split_by_cons : forall p l, exists h t, split_by p l = h :: t.
Proof.
  induction l as [|c r IH]; simpl; eauto.
  destruct (p c); eauto. destruct IH as (h & t & E). rewrite E. eauto.
Qed.

Lemma split_by_none : forall p w, existsb p w = false -> split_by p w = [w].
Proof.
  induction w as [|c r IH]; simpl; intro H; auto.
  apply orb_false_iff in H as [H1 H2]. rewrite H1. rewrite IH; auto.
Qed.

Lemma split_by_app : forall p w c r, existsb p w = false -> p c = true ->
  split_by p (w ++ c :: r) = w :: split_by p r.
Proof.
  induction w as [|x w IH]; simpl; intros c r H Hc.
  - rewrite Hc. auto.
  - apply orb_false_iff in H as [H1 H2]. rewrite H1. rewrite IH; auto.
Qed.

(* ------------------------------------------------------------------------------------------ *)
(* words                                                                                       *)
(* ------------------------------------------------------------------------------------------ *)
Lemma ok_word_spec : forall w, ok_word w = true -> w <> [] /\ has_space w = false.
Proof.
  unfold ok_word; intros w H. apply andb_true_iff in H as [H1 H2].
  apply negb_true_iff in H1, H2. split; auto. destruct w; simpl in *; congruence.
Qed.

Lemma words_nil : words [] = [].
Proof. reflexivity. Qed.

Lemma words_cons : forall w r, ok_word w = true -> words (w ++ 32 :: r) = w :: words r.
Proof.
  intros w r H. apply ok_word_spec in H as [Hn Hs].
  unfold words. rewrite split_by_app; auto. simpl.
  destruct w; [congruence|]. reflexivity.
Qed.

Lemma words_single : forall w, ok_word w = true -> words w = [w].
Proof.
  intros w H. apply ok_word_spec in H as [Hn Hs].
  unfold words. rewrite split_by_none; auto. simpl. destruct w; [congruence|]. reflexivity.
Qed.

Lemma words_tokens : forall (A : Type) (f : A -> bytes) (l : list A),
  forallb (fun x => ok_word (f x)) l = true ->
  words (concat (map (fun x => f x ++ [32]) l)) = map f l.
Proof.
  induction l as [|x l IH]; simpl; intro H; auto.
  apply andb_true_iff in H as [H1 H2].
  rewrite <- app_assoc. simpl. rewrite words_cons; auto. rewrite IH; auto.
Qed.

(* ------------------------------------------------------------------------------------------ *)
(* trim                                                                                        *)
(* ------------------------------------------------------------------------------------------ *)
Lemma ltrim_nospace : forall w, has_space w = false -> ltrim w = w.
Proof. destruct w; simpl; auto. intro H. apply orb_false_iff in H as [H1 _]. rewrite H1. auto. Qed.

Lemma has_space_rev : forall w, has_space (rev w) = has_space w.
Proof.
  induction w; simpl; auto. rewrite has_space_app. simpl. rewrite IHw.
  rewrite orb_false_r. apply orb_comm.
Qed.

Lemma rtrim_nospace : forall w, has_space w = false -> rtrim w = w.
Proof. intros w H. unfold rtrim; rewrite !frev_rev. rewrite ltrim_nospace; [apply rev_involutive|]. rewrite has_space_rev; auto. Qed.

Lemma trim_nospace : forall w, has_space w = false -> trim w = w.
Proof. intros; unfold trim. rewrite ltrim_nospace; auto. apply rtrim_nospace; auto. Qed.

Lemma rtrim_snoc_space : forall l c, is_space c = true -> rtrim (l ++ [c]) = rtrim l.
Proof. intros l c H. unfold rtrim; rewrite !frev_rev. rewrite rev_app_distr. simpl. rewrite H. auto. Qed.

Lemma rtrim_snoc_nonspace : forall l c, is_space c = false -> rtrim (l ++ [c]) = l ++ [c].
Proof. intros l c H. unfold rtrim; rewrite !frev_rev. rewrite rev_app_distr. simpl. rewrite H. simpl. rewrite rev_involutive. auto. Qed.

Lemma ltrim_head : forall c l, is_space c = false -> ltrim (c :: l) = c :: l.
Proof. intros; simpl. rewrite H; auto. Qed.

Lemma ltrim_space : forall c l, is_space c = true -> ltrim (c :: l) = ltrim l.
Proof. intros; simpl. rewrite H; auto. Qed.

Lemma trim_space_word : forall w, has_space w = false -> trim (32 :: w) = w.
Proof. intros. unfold trim. rewrite ltrim_space by reflexivity. rewrite ltrim_nospace; auto. apply rtrim_nospace; auto. Qed.

(* ------------------------------------------------------------------------------------------ *)
(* break_at, break_arrow                                                                       *)
(* ------------------------------------------------------------------------------------------ *)
Lemma break_at_none : forall c w, has_byte c w = false -> break_at c w = None.
Proof.
  induction w as [|x w IH]; simpl; intro H; auto.
  apply orb_false_iff in H as [H1 H2]. rewrite N.eqb_sym, H1. rewrite IH; auto.
Qed.

Lemma break_at_app : forall c w r, has_byte c w = false -> break_at c (w ++ c :: r) = Some (w, r).
Proof.
  induction w as [|x w IH]; simpl; intros r H.
  - rewrite N.eqb_refl. auto.
  - apply orb_false_iff in H as [H1 H2]. rewrite N.eqb_sym, H1. rewrite IH; auto.
Qed.

Lemma no_arrow_cons : forall c b, c <> 45 -> no_arrow b = true -> no_arrow (c :: b) = true.
Proof.
  intros c b Hc Hb. destruct b as [|d b]; simpl; auto.
  apply N.eqb_neq in Hc. rewrite Hc. simpl. exact Hb.
Qed.

Lemma no_arrow_tail : forall c b, no_arrow (c :: b) = true -> no_arrow b = true.
Proof.
  intros c b H. destruct b as [|d b]; auto. simpl in H. apply andb_true_iff in H as [_ H]. exact H.
Qed.

Lemma no_arrow_join : forall a c b, no_arrow a = true -> no_arrow (c :: b) = true -> c <> 62 ->
  no_arrow (a ++ c :: b) = true.
Proof.
  induction a as [|x a IH]; intros c b Ha Hb Hc; auto.
  destruct a as [|y a].
  - simpl app. change (negb ((x =? 45) && (c =? 62)) && no_arrow (c :: b) = true).
    apply N.eqb_neq in Hc. rewrite Hc, andb_false_r. simpl. exact Hb.
  - change (negb ((x =? 45) && (y =? 62)) && no_arrow ((y :: a) ++ c :: b) = true).
    change (negb ((x =? 45) && (y =? 62)) && no_arrow (y :: a) = true) in Ha.
    apply andb_true_iff in Ha as [H1 H2]. rewrite H1. simpl andb. apply IH; auto.
Qed.

Lemma no_arrow_sep : forall a c b, no_arrow a = true -> no_arrow b = true -> c <> 45 -> c <> 62 ->
  no_arrow (a ++ c :: b) = true.
Proof. intros. apply no_arrow_join; auto. apply no_arrow_cons; auto. Qed.

Lemma break_arrow_app : forall x y, no_arrow x = true -> break_arrow (x ++ 45 :: 62 :: y) = Some (x, y).
Proof.
  induction x as [|c x IH]; intros y H.
  - reflexivity.
  - destruct x as [|d x].
    + change (break_arrow (c :: 45 :: 62 :: y) = Some ([c], y)).
      change (break_arrow (c :: 45 :: 62 :: y)) with
        (if (c =? 45) && (45 =? 62) then Some ([], 62 :: y)
         else match break_arrow (45 :: 62 :: y) with Some (a, b) => Some (c :: a, b) | None => None end).
      rewrite andb_false_r. reflexivity.
    + change (negb ((c =? 45) && (d =? 62)) && no_arrow (d :: x) = true) in H.
      apply andb_true_iff in H as [H1 H2]. apply negb_true_iff in H1.
      change (break_arrow ((c :: d :: x) ++ 45 :: 62 :: y)) with
        (if (c =? 45) && (d =? 62) then Some ([], x ++ 45 :: 62 :: y)
         else match break_arrow ((d :: x) ++ 45 :: 62 :: y) with Some (a, b) => Some (c :: a, b) | None => None end).
      rewrite H1. rewrite IH; auto.
Qed.

(* ------------------------------------------------------------------------------------------ *)
(* integers: FromString<int> (ToString n) = n                                                  *)
(* ------------------------------------------------------------------------------------------ *)
Definition exact_step (a d : N) : N := a * 10 + (d - 48).
Definition val_rev (l : bytes) : N := fold_right (fun d a => exact_step a d) 0 l.

Lemma digits_rev_S : forall f n,
  digits_rev (S f) n = (48 + n mod 10) :: (if n / 10 =? 0 then [] else digits_rev f (n / 10)).
Proof. reflexivity. Qed.

Lemma digits_rev_digits : forall f n, forallb is_digit (digits_rev f n) = true.
Proof.
  induction f; intro n; [reflexivity|]. rewrite digits_rev_S.
  assert (H : is_digit (48 + n mod 10) = true).
  { unfold is_digit. assert (n mod 10 < 10) by (apply N.mod_lt; discriminate).
    generalize dependent (n mod 10). intros m Hm.
    apply andb_true_iff; split; apply N.leb_le; lia. }
  cbn [forallb]. rewrite H. cbn [andb]. destruct (n / 10 =? 0); auto.
Qed.

Lemma val_rev_cons : forall d l, val_rev (d :: l) = exact_step (val_rev l) d.
Proof. reflexivity. Qed.

Lemma digits_rev_value : forall f n, n < 2 ^ N.of_nat f -> val_rev (digits_rev (S f) n) = n.
Proof.
  induction f; intros n H.
  - simpl in H. assert (n = 0) by lia. subst. reflexivity.
  - rewrite digits_rev_S.
    rewrite val_rev_cons.
    pose proof (N.div_mod n 10) as DM.
    destruct (n / 10 =? 0) eqn:Z.
    + apply N.eqb_eq in Z. change (val_rev []) with 0. unfold exact_step.
      rewrite Z in DM. generalize dependent (n mod 10). intros. lia.
    + rewrite IHf.
      * unfold exact_step. generalize dependent (n mod 10). generalize dependent (n / 10). intros. lia.
      * rewrite Nat2N.inj_succ, N.pow_succ_r' in H.
        apply N.div_lt_upper_bound; [discriminate|]. lia.
Qed.

Lemma show_N_value : forall n, val_rev (digits_rev (S (N.to_nat (N.size n))) n) = n.
Proof. intro n. apply digits_rev_value. rewrite N2Nat.id. apply N.size_gt. Qed.

Lemma take_digits_all : forall l, forallb is_digit l = true -> take_digits l = l.
Proof. induction l; simpl; intro H; auto. apply andb_true_iff in H as [H1 H2]. rewrite H1, IHl; auto. Qed.

Lemma exact_mono : forall ds a, a <= fold_left exact_step ds a.
Proof.
  induction ds; simpl; intro b; [lia|].
  specialize (IHds (exact_step b a)). unfold exact_step in *. lia.
Qed.

Lemma sat_exact : forall ds a, fold_left exact_step ds a < int_cap ->
  fold_left acc_digit ds a = fold_left exact_step ds a.
Proof.
  induction ds; simpl; intros b H; auto.
  assert (exact_step b a < int_cap) by (pose proof (exact_mono ds (exact_step b a)); lia).
  assert (E : acc_digit b a = exact_step b a).
  { unfold acc_digit, exact_step in *. destruct (int_cap <=? b * 10 + (a - 48)) eqn:L; auto.
    apply N.leb_le in L. lia. }
  rewrite E. apply IHds; auto.
Qed.

Lemma exact_rev : forall l, fold_left exact_step (rev l) 0 = val_rev l.
Proof.
  intro l. unfold val_rev.
  rewrite <- (rev_involutive l) at 2. rewrite fold_left_rev_right. reflexivity.
Qed.

Lemma show_N_digits : forall n, forallb is_digit (show_N n) = true.
Proof.
  intro n. unfold show_N; rewrite frev_rev. apply forallb_forall. intros x Hx. apply in_rev in Hx.
  pose proof (digits_rev_digits (S (N.to_nat (N.size n))) n) as D.
  rewrite forallb_forall in D. auto.
Qed.

Lemma show_N_nonnil : forall n, show_N n <> [].
Proof.
  intros n H. unfold show_N in H; rewrite frev_rev in H. apply (f_equal (@rev N)) in H. rewrite rev_involutive in H.
  simpl in H. discriminate.
Qed.

Lemma digits_value_show : forall n, n < int_cap -> digits_value (show_N n) = n.
Proof.
  intros n H. unfold digits_value.
  assert (E : fold_left exact_step (show_N n) 0 = n).
  { unfold show_N; rewrite frev_rev. rewrite exact_rev. apply show_N_value. }
  rewrite sat_exact; rewrite E; auto.
Qed.

Lemma parse_digits_show : forall neg n, n < int_cap ->
  parse_digits neg (show_N n) =
  if neg then (if n <=? 2147483648 then Some (- Z.of_N n)%Z else None)
  else (if n <=? 2147483647 then Some (Z.of_N n) else None).
Proof.
  intros neg n H. unfold parse_digits.
  rewrite take_digits_all by apply show_N_digits.
  destruct (show_N n) eqn:E; [exfalso; eapply show_N_nonnil; eauto|].
  rewrite <- E. rewrite digits_value_show; auto. rewrite E. reflexivity.
Qed.

Lemma show_N_head : forall n, exists c r, show_N n = c :: r /\ is_digit c = true.
Proof.
  intro n. pose proof (show_N_digits n) as D. destruct (show_N n) eqn:E.
  - exfalso; eapply show_N_nonnil; eauto.
  - simpl in D. apply andb_true_iff in D as [D _]. eauto.
Qed.

Lemma parse_int_show_N : forall n, n < int_cap ->
  parse_int (show_N n) = if n <=? 2147483647 then Some (Z.of_N n) else None.
Proof.
  intros n H. destruct (show_N_head n) as (c & r & E & D).
  unfold parse_int. rewrite E.
  unfold is_digit in D. apply andb_true_iff in D as [D1 D2]. apply N.leb_le in D1, D2.
  assert (c =? 45 = false) as -> by (apply N.eqb_neq; lia).
  assert (c =? 43 = false) as -> by (apply N.eqb_neq; lia).
  rewrite <- E. apply (parse_digits_show false); auto.
Qed.

Lemma parse_int_show : forall z, in_int_range z = true -> parse_int (show_int z) = Some z.
Proof.
  intros z H. unfold in_int_range in H. apply andb_true_iff in H as [H1 H2].
  apply Z.leb_le in H1, H2.
  destruct z as [|p|p]; simpl show_int.
  - reflexivity.
  - rewrite parse_int_show_N by (unfold int_cap; lia).
    assert (Npos p <=? 2147483647 = true) as -> by (apply N.leb_le; lia). reflexivity.
  - unfold parse_int. rewrite N.eqb_refl.
    rewrite (parse_digits_show true) by (unfold int_cap; lia).
    assert (Npos p <=? 2147483648 = true) as -> by (apply N.leb_le; lia). reflexivity.
Qed.

Lemma show_int_nospace : forall z, has_space (show_int z) = false /\ has_byte 58 (show_int z) = false.
Proof.
  assert (D : forall n, has_space (show_N n) = false /\ has_byte 58 (show_N n) = false).
  { intro n. pose proof (show_N_digits n) as D. rewrite forallb_forall in D.
    split; apply existsb_false_forallb; apply forallb_forall; intros x Hx; specialize (D x Hx);
      unfold is_digit in D; apply andb_true_iff in D as [D1 D2]; apply N.leb_le in D1, D2.
    - unfold is_space. apply negb_true_iff. apply orb_false_iff; split.
      + apply N.eqb_neq; lia.
      + apply andb_false_iff. right. apply N.leb_gt. lia.
    - apply negb_true_iff. apply N.eqb_neq. lia. }
  destruct z; simpl show_int; auto.
  destruct (D (Npos p)) as [A B]. split; simpl; auto.
Qed.

(* ------------------------------------------------------------------------------------------ *)
(* tokens of the header lines                                                                  *)
(* ------------------------------------------------------------------------------------------ *)
Lemma wf_opsym_spec : forall s, wf_opsym s = true ->
  ok_word (fst s) = true /\ has_byte 58 (fst s) = false /\ in_int_range (snd s) = true.
Proof.
  unfold wf_opsym; intros s H. apply andb_true_iff in H as [H H3]. apply andb_true_iff in H as [H1 H2].
  apply negb_true_iff in H2. auto.
Qed.

Lemma wf_state_spec : forall w, wf_state w = true -> ok_word w = true /\ has_byte 58 w = false.
Proof. unfold wf_state; intros w H. apply andb_true_iff in H as [H1 H2]. apply negb_true_iff in H2. auto. Qed.

Lemma ok_word_ser_sym : forall s, wf_opsym s = true -> ok_word (ser_sym s) = true.
Proof.
  intros s H. apply wf_opsym_spec in H as (H1 & _ & _). apply ok_word_spec in H1 as [Hn Hs].
  unfold ok_word, ser_sym. apply andb_true_iff; split; apply negb_true_iff.
  - destruct (fst s); [congruence|reflexivity].
  - rewrite !has_space_app, Hs. simpl. apply (proj1 (show_int_nospace (snd s))).
Qed.

Lemma parse_colonned_sym : forall s, wf_opsym s = true -> parse_colonned (ser_sym s) = Some s.
Proof.
  intros s H. apply wf_opsym_spec in H as (H1 & H2 & H3).
  unfold parse_colonned, ser_sym. simpl app. rewrite break_at_app by auto.
  rewrite parse_int_show by auto. destruct s; reflexivity.
Qed.

Lemma parse_colonned_state : forall w, wf_state w = true -> parse_colonned w = Some (w, (-1)%Z).
Proof. intros w H. apply wf_state_spec in H as [_ H]. unfold parse_colonned. rewrite break_at_none; auto. Qed.

Lemma map_opt_syms : forall l, forallb wf_opsym l = true -> map_opt parse_colonned (map ser_sym l) = Some l.
Proof.
  induction l; simpl; intro H; auto. apply andb_true_iff in H as [H1 H2].
  rewrite parse_colonned_sym, IHl; auto.
Qed.

Lemma map_opt_states : forall l, forallb wf_state l = true ->
  exists st, map_opt parse_colonned l = Some st /\ map fst st = l.
Proof.
  induction l; simpl; intro H; eauto. apply andb_true_iff in H as [H1 H2].
  destruct (IHl H2) as (st & E1 & E2). rewrite parse_colonned_state, E1 by auto.
  eexists; split; eauto. simpl. congruence.
Qed.

Lemma forallb_impl : forall (A : Type) (p q : A -> bool) l,
  (forall x, p x = true -> q x = true) -> forallb p l = true -> forallb q l = true.
Proof. intros A p q l H. rewrite !forallb_forall. auto. Qed.

Lemma ok_out_name : forall d, has_space (d_name d) = false -> ok_word (out_name d) = true.
Proof.
  intros d H. unfold out_name. destruct (d_name d) eqn:E; [reflexivity|].
  cbn [is_nil]. unfold ok_word. rewrite H. reflexivity.
Qed.

Lemma app_sp : forall (a b : bytes), a ++ [32] ++ b = a ++ 32 :: b.
Proof. reflexivity. Qed.

Lemma words_line_ops : forall d, forallb wf_opsym (d_syms d) = true ->
  words (line_ops d) = kw_Ops :: map ser_sym (d_syms d).
Proof.
  intros d H. unfold line_ops. rewrite app_sp.
  rewrite words_cons by reflexivity. f_equal.
  apply (words_tokens _ ser_sym). eapply forallb_impl; [|exact H]. apply ok_word_ser_sym.
Qed.

Lemma words_line_aut : forall d, has_space (d_name d) = false ->
  words (line_aut d) = [kw_Automaton; out_name d].
Proof.
  intros d H. unfold line_aut. rewrite app_sp. rewrite words_cons by reflexivity.
  rewrite words_single; auto. apply ok_out_name; auto.
Qed.

Lemma words_state_list : forall l, forallb wf_state l = true ->
  words (concat (map (fun s => s ++ [32]) l)) = l.
Proof.
  intros l H. rewrite (words_tokens _ (fun x => x)).
  - apply map_id.
  - eapply forallb_impl; [|exact H]. intros x Hx. apply wf_state_spec in Hx. tauto.
Qed.

Lemma words_line_states : forall d, forallb wf_state (d_states d) = true ->
  words (line_states d) = kw_States :: d_states d.
Proof.
  intros d H. unfold line_states. rewrite app_sp. rewrite words_cons by reflexivity.
  rewrite words_state_list; auto.
Qed.

Lemma words_line_finals : forall d, forallb wf_state (d_finals d) = true ->
  words (line_finals d) = kw_Final :: kw_States :: d_finals d.
Proof.
  intros d H. unfold line_finals. rewrite !app_sp. rewrite words_cons by reflexivity.
  rewrite words_cons by reflexivity.
  rewrite words_state_list; auto.
Qed.

(* ------------------------------------------------------------------------------------------ *)
(* one step of parse_header for each kind of line                                              *)
(* ------------------------------------------------------------------------------------------ *)
Lemma ph_ops : forall l rest h args sy,
  words l = kw_Ops :: args -> h_ops h = false -> map_opt parse_colonned args = Some sy ->
  parse_header (l :: rest) h =
  parse_header rest (mkHdr (h_aut h) true (h_sts h) (h_fin h) (h_name h) sy (h_states h) (h_finals h)).
Proof.
  intros l rest h args sy W F M. cbn [parse_header]. rewrite W.
  replace (beq kw_Ops kw_Transitions) with false by reflexivity.
  replace (beq kw_Ops kw_Automaton) with false by reflexivity.
  replace (beq kw_Ops kw_Ops) with true by reflexivity.
  rewrite F, M. reflexivity.
Qed.

Lemma ph_aut : forall l rest h nm,
  words l = [kw_Automaton; nm] -> h_aut h = false ->
  parse_header (l :: rest) h =
  parse_header rest (mkHdr true (h_ops h) (h_sts h) (h_fin h) nm (h_syms h) (h_states h) (h_finals h)).
Proof.
  intros l rest h nm W F. cbn [parse_header]. rewrite W.
  replace (beq kw_Automaton kw_Transitions) with false by reflexivity.
  replace (beq kw_Automaton kw_Automaton) with true by reflexivity.
  rewrite F. reflexivity.
Qed.

Lemma ph_states : forall l rest h args st,
  words l = kw_States :: args -> h_sts h = false -> map_opt parse_colonned args = Some st ->
  parse_header (l :: rest) h =
  parse_header rest (mkHdr (h_aut h) (h_ops h) true (h_fin h) (h_name h) (h_syms h) (map fst st) (h_finals h)).
Proof.
  intros l rest h args st W F M. cbn [parse_header]. rewrite W.
  replace (beq kw_States kw_Transitions) with false by reflexivity.
  replace (beq kw_States kw_Automaton) with false by reflexivity.
  replace (beq kw_States kw_Ops) with false by reflexivity.
  replace (beq kw_States kw_States) with true by reflexivity.
  rewrite F, M. reflexivity.
Qed.

Lemma ph_finals : forall l rest h args st,
  words l = kw_Final :: kw_States :: args -> h_fin h = false -> map_opt parse_colonned args = Some st ->
  parse_header (l :: rest) h =
  parse_header rest (mkHdr (h_aut h) (h_ops h) (h_sts h) true (h_name h) (h_syms h) (h_states h) (map fst st)).
Proof.
  intros l rest h args st W F M. cbn [parse_header]. rewrite W.
  replace (beq kw_Final kw_Transitions) with false by reflexivity.
  replace (beq kw_Final kw_Automaton) with false by reflexivity.
  replace (beq kw_Final kw_Ops) with false by reflexivity.
  replace (beq kw_Final kw_States) with false by reflexivity.
  replace (beq kw_Final kw_Final) with true by reflexivity.
  replace (beq kw_States kw_States) with true by reflexivity.
  cbn [negb]. rewrite F, M. reflexivity.
Qed.

Lemma ph_transitions : forall rest h, parse_header (kw_Transitions :: rest) h = Some (h, rest).
Proof. reflexivity. Qed.

(* ------------------------------------------------------------------------------------------ *)
(* a transition line                                                                           *)
(* ------------------------------------------------------------------------------------------ *)
Definition tupstr (c0 : bytes) (cs : list bytes) : bytes := c0 ++ concat (map (fun c => [44;32] ++ c) cs).

Lemma tupstr_cons : forall c0 c1 cs, tupstr c0 (c1 :: cs) = c0 ++ 44 :: tupstr (32 :: c1) cs.
Proof. intros. unfold tupstr. simpl. try rewrite <- app_assoc. reflexivity. Qed.

Lemma tupstr_nil : forall c0, tupstr c0 [] = c0.
Proof. intros. unfold tupstr. simpl. apply app_nil_r. Qed.

Lemma ser_tuple_cons : forall c0 cs, ser_tuple (c0 :: cs) = [40] ++ tupstr c0 cs ++ [41].
Proof. reflexivity. Qed.

Lemma has_byte_cons : forall x c l, has_byte x (c :: l) = (x =? c) || has_byte x l.
Proof. reflexivity. Qed.

Local Opaque tupstr.

Lemma tupstr_no_arrow : forall cs c0, no_arrow c0 = true -> forallb no_arrow cs = true ->
  no_arrow (tupstr c0 cs) = true.
Proof.
  induction cs as [|c1 cs IH]; intros c0 H0 H.
  - rewrite tupstr_nil; auto.
  - simpl in H. apply andb_true_iff in H as [H1 H2]. rewrite tupstr_cons.
    apply no_arrow_sep; auto; try discriminate.
    apply IH; auto. apply no_arrow_cons; auto. discriminate.
Qed.

Lemma tupstr_no_byte : forall x cs c0, x <> 44 -> x <> 32 -> has_byte x c0 = false ->
  forallb (fun c => negb (has_byte x c)) cs = true -> has_byte x (tupstr c0 cs) = false.
Proof.
  induction cs as [|c1 cs IH]; intros c0 Hx1 Hx2 H0 H.
  - rewrite tupstr_nil; auto.
  - simpl in H. apply andb_true_iff in H as [H1 H2]. apply negb_true_iff in H1. rewrite tupstr_cons.
    rewrite has_byte_app, H0, has_byte_cons. apply N.eqb_neq in Hx1. rewrite Hx1. cbn [orb].
    apply N.eqb_neq in Hx1. apply IH; auto. rewrite has_byte_cons. apply N.eqb_neq in Hx2. rewrite Hx2. auto.
Qed.

Lemma tupstr_split : forall cs c0, has_byte 44 c0 = false ->
  forallb (fun c => negb (has_byte 44 c)) cs = true ->
  split_at 44 (tupstr c0 cs) = c0 :: map (cons 32) cs.
Proof.
  induction cs as [|c1 cs IH]; intros c0 H0 H.
  - rewrite tupstr_nil. apply split_by_none; auto.
  - simpl in H. apply andb_true_iff in H as [H1 H2]. apply negb_true_iff in H1. rewrite tupstr_cons.
    unfold split_at. rewrite split_by_app by auto. f_equal.
    apply IH; auto.
Qed.

Lemma map_trim_children : forall cs, forallb (fun c => negb (has_space c)) cs = true ->
  map trim (map (cons 32) cs) = cs.
Proof.
  induction cs; simpl; intro H; auto. apply andb_true_iff in H as [H1 H2]. apply negb_true_iff in H1.
  rewrite IHcs by auto. f_equal. apply trim_space_word; auto.
Qed.

Lemma wf_child_spec : forall w, wf_child w = true ->
  has_space w = false /\ has_byte 44 w = false /\ has_byte 41 w = false /\ no_arrow w = true.
Proof.
  unfold wf_child; intros w H. apply andb_true_iff in H as [H H4]. apply andb_true_iff in H as [H H3].
  apply andb_true_iff in H as [H1 H2]. apply negb_true_iff in H1, H2, H3. auto.
Qed.

Lemma wf_tsym_spec : forall w, wf_tsym w = true ->
  ok_word w = true /\ has_byte 40 w = false /\ has_byte 41 w = false /\ no_arrow w = true.
Proof.
  unfold wf_tsym; intros w H. apply andb_true_iff in H as [H H4]. apply andb_true_iff in H as [H H3].
  apply andb_true_iff in H as [H1 H2]. apply negb_true_iff in H2, H3. auto.
Qed.

Lemma ltrim_word_app : forall w y, ok_word w = true -> ltrim (w ++ y) = w ++ y.
Proof.
  intros w y H. apply ok_word_spec in H as [Hn Hs]. destruct w as [|c w]; [congruence|].
  simpl in Hs. apply orb_false_iff in Hs as [Hc _]. simpl. rewrite Hc. reflexivity.
Qed.

Lemma rtrim_app_word : forall y w, ok_word w = true -> rtrim (y ++ w) = y ++ w.
Proof.
  intros y w H. unfold rtrim; rewrite !frev_rev. rewrite rev_app_distr. rewrite ltrim_word_app.
  - rewrite <- rev_app_distr. apply rev_involutive.
  - apply ok_word_spec in H as [Hn Hs]. unfold ok_word. rewrite has_space_rev, Hs.
    destruct w; [congruence|]. simpl. destruct (rev w); reflexivity.
Qed.

Lemma ser_trans_shape : forall t,
  ser_trans t = (t_sym t ++ ser_tuple (t_ch t) ++ [32]) ++ 45 :: 62 :: 32 :: t_par t.
Proof. intro t. unfold ser_trans. rewrite <- !app_assoc. reflexivity. Qed.

Lemma forallb_and : forall (A : Type) (p q : A -> bool) l,
  forallb (fun x => p x && q x) l = forallb p l && forallb q l.
Proof.
  induction l; simpl; auto. rewrite IHl. destruct (p a), (q a), (forallb p l), (forallb q l); reflexivity.
Qed.

Lemma parse_trans_line_ser : forall t, wf_trans t = true -> parse_trans_line (ser_trans t) = Some t.
Proof.
  intros [ch sym par] H. unfold wf_trans in H. simpl in H.
  apply andb_true_iff in H as [H Hpar]. apply andb_true_iff in H as [H Hone].
  apply andb_true_iff in H as [Hsym Hch].
  apply wf_tsym_spec in Hsym as (Sw & S40 & S41 & Sarr).
  pose proof (ok_word_spec _ Sw) as [Sn Ss].
  pose proof (ok_word_spec _ Hpar) as [Pn Ps].
  assert (Cs : forallb (fun c => negb (has_space c)) ch = true).
  { eapply forallb_impl; [|exact Hch]. intros x Hx. apply wf_child_spec in Hx as (A & _). rewrite A; auto. }
  assert (C44 : forallb (fun c => negb (has_byte 44 c)) ch = true).
  { eapply forallb_impl; [|exact Hch]. intros x Hx. apply wf_child_spec in Hx as (_ & A & _). rewrite A; auto. }
  assert (C41 : forallb (fun c => negb (has_byte 41 c)) ch = true).
  { eapply forallb_impl; [|exact Hch]. intros x Hx. apply wf_child_spec in Hx as (_ & _ & A & _). rewrite A; auto. }
  assert (Carr : forallb no_arrow ch = true).
  { eapply forallb_impl; [|exact Hch]. intros x Hx. apply wf_child_spec in Hx as (_ & _ & _ & A). auto. }
  unfold parse_trans_line. rewrite ser_trans_shape. cbn [t_ch t_sym t_par].
  destruct ch as [|c0 cs].
  - (* nullary, written without parentheses *)
    cbn [ser_tuple app]. rewrite break_arrow_app.
    2:{ apply no_arrow_sep; auto; discriminate. }
    rewrite trim_space_word by auto.
    assert (L : trim (sym ++ [32]) = sym).
    { unfold trim. rewrite ltrim_word_app by auto. rewrite rtrim_snoc_space by reflexivity.
      apply rtrim_nospace; auto. }
    rewrite L. rewrite Ps. destruct par; [congruence|]. cbn [is_nil orb].
    rewrite break_at_none by auto. rewrite S41, Ss. destruct sym; [congruence|]. reflexivity.
  - (* a tuple of states *)
    cbn [forallb] in Cs, C44, C41, Carr.
    apply andb_true_iff in Cs as [Cs0 Cs]. apply andb_true_iff in C44 as [C440 C44].
    apply andb_true_iff in C41 as [C410 C41]. apply andb_true_iff in Carr as [Carr0 Carr].
    apply negb_true_iff in Cs0, C440, C410.
    rewrite ser_tuple_cons.
    assert (E : sym ++ ([40] ++ tupstr c0 cs ++ [41]) ++ [32] = sym ++ 40 :: (tupstr c0 cs ++ 41 :: [32])).
    { simpl. rewrite <- !app_assoc. reflexivity. }
    rewrite E. rewrite break_arrow_app.
    2:{ apply no_arrow_sep; auto; try discriminate. apply no_arrow_sep; auto; try discriminate.
        apply tupstr_no_arrow; auto. }
    rewrite trim_space_word by auto.
    assert (L : trim (sym ++ 40 :: tupstr c0 cs ++ [41; 32]) = sym ++ 40 :: (tupstr c0 cs ++ [41])).
    { unfold trim. rewrite ltrim_word_app by auto.
      replace (sym ++ 40 :: tupstr c0 cs ++ [41; 32]) with ((sym ++ 40 :: tupstr c0 cs ++ [41]) ++ [32]).
      2:{ rewrite <- app_assoc. simpl. rewrite <- app_assoc. reflexivity. }
      rewrite rtrim_snoc_space by reflexivity.
      replace (sym ++ 40 :: tupstr c0 cs ++ [41]) with ((sym ++ 40 :: tupstr c0 cs) ++ [41]).
      2:{ rewrite <- app_assoc. reflexivity. }
      apply rtrim_snoc_nonspace. reflexivity. }
    rewrite L. rewrite Ps. destruct par as [|p0 par]; [congruence|]. cbn [is_nil orb].
    rewrite break_at_app by auto. rewrite S41.
    rewrite break_at_app.
    2:{ apply tupstr_no_byte; auto; discriminate. }
    cbn [is_nil negb]. rewrite trim_nospace by auto.
    destruct sym as [|s0 sym]; [congruence|]. cbn [is_nil].
    rewrite tupstr_split by auto. cbn [map]. rewrite map_trim_children by auto.
    rewrite trim_nospace by auto.
    assert (X : existsb has_space (c0 :: cs) = false).
    { simpl. rewrite Cs0. simpl. clear - Cs. induction cs; simpl in *; auto.
      apply andb_true_iff in Cs as [A B]. apply negb_true_iff in A. rewrite A. auto. }
    rewrite X.
    destruct c0 as [|x c0]; destruct cs as [|c1 cs]; try reflexivity.
    simpl in Hone. discriminate.
Qed.

(* ------------------------------------------------------------------------------------------ *)
(* no newline inside a line of the serializer                                                  *)
(* ------------------------------------------------------------------------------------------ *)
Lemma has_space_cons : forall c l, has_space (c :: l) = is_space c || has_space l.
Proof. reflexivity. Qed.

Lemma nospace_no10 : forall w, has_space w = false -> has_byte 10 w = false.
Proof.
  induction w as [|c w IH]; intro H; [reflexivity|].
  rewrite has_space_cons in H. apply orb_false_iff in H as [H1 H2].
  rewrite has_byte_cons, IH by auto.
  destruct (10 =? c) eqn:E; [|reflexivity]. apply N.eqb_eq in E. subst c. vm_compute in H1. discriminate.
Qed.

Lemma ok_word_no10 : forall w, ok_word w = true -> has_byte 10 w = false.
Proof. intros w H. apply ok_word_spec in H as [_ H]. apply nospace_no10; auto. Qed.

Lemma no10_tokens : forall (A : Type) (f : A -> bytes) (l : list A),
  forallb (fun x => ok_word (f x)) l = true -> has_byte 10 (concat (map (fun x => f x ++ [32]) l)) = false.
Proof.
  induction l as [|x l IH]; simpl; intro H; auto.
  apply andb_true_iff in H as [H1 H2]. rewrite !has_byte_app, IH by auto.
  rewrite ok_word_no10 by auto. reflexivity.
Qed.

Lemma no10_line_ops : forall d, forallb wf_opsym (d_syms d) = true -> has_byte 10 (line_ops d) = false.
Proof.
  intros d H. unfold line_ops. rewrite !has_byte_app.
  rewrite (no10_tokens _ ser_sym). reflexivity.
  eapply forallb_impl; [|exact H]. apply ok_word_ser_sym.
Qed.

Lemma no10_line_aut : forall d, has_space (d_name d) = false -> has_byte 10 (line_aut d) = false.
Proof.
  intros d H. unfold line_aut. rewrite !has_byte_app. rewrite (ok_word_no10 (out_name d)). reflexivity.
  apply ok_out_name; auto.
Qed.

Lemma no10_state_list : forall l, forallb wf_state l = true ->
  has_byte 10 (concat (map (fun s => s ++ [32]) l)) = false.
Proof.
  intros l H. apply (no10_tokens _ (fun x => x)).
  eapply forallb_impl; [|exact H]. intros x Hx. apply wf_state_spec in Hx. tauto.
Qed.

Lemma no10_line_states : forall d, forallb wf_state (d_states d) = true -> has_byte 10 (line_states d) = false.
Proof. intros d H. unfold line_states. rewrite !has_byte_app, no10_state_list by auto. reflexivity. Qed.

Lemma no10_line_finals : forall d, forallb wf_state (d_finals d) = true -> has_byte 10 (line_finals d) = false.
Proof. intros d H. unfold line_finals. rewrite !has_byte_app, no10_state_list by auto. reflexivity. Qed.

Lemma wf_trans_spec : forall t, wf_trans t = true ->
  wf_tsym (t_sym t) = true /\ forallb wf_child (t_ch t) = true /\ ok_word (t_par t) = true.
Proof.
  unfold wf_trans; intros t H. apply andb_true_iff in H as [H H3]. apply andb_true_iff in H as [H _].
  apply andb_true_iff in H as [H1 H2]. auto.
Qed.

Lemma no10_ser_trans : forall t, wf_trans t = true -> has_byte 10 (ser_trans t) = false.
Proof.
  intros t H. apply wf_trans_spec in H as (Hs & Hc & Hp).
  apply wf_tsym_spec in Hs as (Sw & _).
  unfold ser_trans. rewrite !has_byte_app. rewrite (ok_word_no10 _ Sw), (ok_word_no10 _ Hp).
  cbn [orb]. rewrite orb_false_r.
  assert (C : forallb (fun c => negb (has_byte 10 c)) (t_ch t) = true).
  { eapply forallb_impl; [|exact Hc]. intros x Hx. apply wf_child_spec in Hx as (A & _).
    rewrite nospace_no10; auto. }
  destruct (t_ch t) as [|c0 cs]; [reflexivity|].
  rewrite ser_tuple_cons. rewrite !has_byte_app. cbn [forallb] in C.
  apply andb_true_iff in C as [C0 C]. apply negb_true_iff in C0.
  rewrite tupstr_no_byte; auto; discriminate.
Qed.

(* ------------------------------------------------------------------------------------------ *)
(* the lines of the serializer's output                                                        *)
(* ------------------------------------------------------------------------------------------ *)
Lemma split_line : forall l r, has_byte 10 l = false -> split_at 10 (l ++ [10] ++ r) = l :: split_at 10 r.
Proof. intros l r H. unfold split_at. apply split_by_app; auto. Qed.

Lemma split_trans_lines : forall ts, forallb wf_trans ts = true ->
  split_at 10 (concat (map (fun t => ser_trans t ++ [10]) ts)) = map ser_trans ts ++ [[]].
Proof.
  induction ts as [|t ts IH]; simpl; intro H; auto.
  apply andb_true_iff in H as [H1 H2]. rewrite <- app_assoc.
  rewrite split_line by (apply no10_ser_trans; auto). rewrite IH; auto.
Qed.

Lemma ser_trans_trim : forall t, wf_trans t = true -> trim (ser_trans t) = ser_trans t /\ ser_trans t <> [].
Proof.
  intros t H. apply wf_trans_spec in H as (Hs & Hc & Hp). apply wf_tsym_spec in Hs as (Sw & _).
  split.
  - unfold trim, ser_trans. rewrite ltrim_word_app by auto.
    rewrite !app_assoc. apply rtrim_app_word; auto.
  - unfold ser_trans. apply ok_word_spec in Sw as [Sn _]. destruct (t_sym t); [congruence|discriminate].
Qed.

Lemma parse_trans_lines_ser : forall ts, forallb wf_trans ts = true ->
  parse_trans_lines (map ser_trans ts ++ [[]]) = Some ts.
Proof.
  induction ts as [|t ts IH]; simpl; intro H; auto.
  apply andb_true_iff in H as [H1 H2].
  destruct (ser_trans_trim t H1) as [T N]. rewrite T.
  destruct (ser_trans t) eqn:E; [congruence|]. cbn [is_nil]. rewrite <- E.
  rewrite parse_trans_line_ser by auto. rewrite IH by auto. reflexivity.
Qed.

(* ------------------------------------------------------------------------------------------ *)
(* the round trip                                                                              *)
(* ------------------------------------------------------------------------------------------ *)
Definition normal_name (d : desc) : desc :=
  mkDesc (out_name d) (d_syms d) (d_states d) (d_finals d) (d_trans d).

Theorem parse_serialize_exact : forall d, wf_desc d = true -> parse (serialize d) = Some (normal_name d).
Proof.
  intros d H. unfold wf_desc in H.
  apply andb_true_iff in H as [H Ht]. apply andb_true_iff in H as [H Hf].
  apply andb_true_iff in H as [H Hs]. apply andb_true_iff in H as [Hn Ho]. apply negb_true_iff in Hn.
  unfold parse, serialize.
  rewrite split_line by (apply no10_line_ops; auto).
  rewrite split_line by (apply no10_line_aut; auto).
  rewrite split_line by (apply no10_line_states; auto).
  rewrite split_line by (apply no10_line_finals; auto).
  rewrite split_line by reflexivity.
  rewrite split_trans_lines by auto.
  erewrite ph_ops; [| apply words_line_ops; auto | reflexivity | apply map_opt_syms; auto].
  erewrite ph_aut; [| apply words_line_aut; auto | reflexivity].
  destruct (map_opt_states _ Hs) as (st1 & M1 & E1).
  erewrite ph_states; [| apply words_line_states; auto | reflexivity | exact M1].
  destruct (map_opt_states _ Hf) as (st2 & M2 & E2).
  erewrite ph_finals; [| apply words_line_finals; auto | reflexivity | exact M2].
  rewrite ph_transitions. rewrite parse_trans_lines_ser by auto.
  cbn. rewrite E1, E2. reflexivity.
Qed.

Theorem parse_serialize : forall d, wf_desc d = true ->
  exists d', parse (serialize d) = Some d' /\ d_finals d' = d_finals d /\ d_trans d' = d_trans d /\
             d_syms d' = d_syms d /\ d_states d' = d_states d.
Proof. intros d H. exists (normal_name d). rewrite parse_serialize_exact by auto. repeat split; reflexivity. Qed.

(* the uniform side condition of the property text implies the per-role one *)
Lemma wf_name_spec : forall w, wf_name w = true ->
  ok_word w = true /\ has_byte 40 w = false /\ has_byte 41 w = false /\ has_byte 44 w = false /\
  has_byte 58 w = false /\ no_arrow w = true.
Proof.
  unfold wf_name; intros w H.
  apply andb_true_iff in H as [H H6]. apply andb_true_iff in H as [H H5]. apply andb_true_iff in H as [H H4].
  apply andb_true_iff in H as [H H3]. apply andb_true_iff in H as [H1 H2].
  apply negb_true_iff in H2, H3, H4, H5. auto 10.
Qed.

Lemma wf_uniform : forall d, wf_desc_uniform d = true -> wf_desc d = true.
Proof.
  intros d H. unfold wf_desc_uniform in H. unfold wf_desc.
  apply andb_true_iff in H as [H Ht]. apply andb_true_iff in H as [H Hf].
  apply andb_true_iff in H as [H Hs]. apply andb_true_iff in H as [Hn Ho].
  rewrite Hn. cbn [andb].
  assert (S : forall w, wf_name w = true -> wf_state w = true).
  { intros w Hw. apply wf_name_spec in Hw as (A & _ & _ & _ & B & _). unfold wf_state. rewrite A, B. reflexivity. }
  repeat (apply andb_true_iff; split).
  - eapply forallb_impl; [|exact Ho]. intros s Hx. apply andb_true_iff in Hx as [A R].
    apply wf_name_spec in A as (A & _ & _ & _ & B & _). unfold wf_opsym. rewrite A, B, R. reflexivity.
  - eapply forallb_impl; [|exact Hs]. exact S.
  - eapply forallb_impl; [|exact Hf]. exact S.
  - eapply forallb_impl; [|exact Ht]. intros t Hx.
    apply andb_true_iff in Hx as [Hx Hp]. apply andb_true_iff in Hx as [Hy Hc].
    apply wf_name_spec in Hy as (A1 & A2 & A3 & _ & _ & A6).
    apply wf_name_spec in Hp as (P1 & _).
    unfold wf_trans, wf_tsym. rewrite A1, A2, A3, A6, P1. cbn [negb andb]. rewrite andb_true_r.
    apply andb_true_iff; split.
    + eapply forallb_impl; [|exact Hc]. intros c Hcc.
      apply wf_name_spec in Hcc as (C1 & _ & C3 & C4 & _ & C6). apply ok_word_spec in C1 as [_ C1].
      unfold wf_child. rewrite C1, C3, C4, C6. reflexivity.
    + destruct (t_ch t) as [|c [|c' cs]]; auto. simpl in Hc. rewrite andb_true_r in Hc.
      apply wf_name_spec in Hc as (C1 & _). apply ok_word_spec in C1 as [C1 _].
      destruct c; [congruence|reflexivity].
Qed.

(* ------------------------------------------------------------------------------------------ *)
(* the comparison used as a gate decides equality as sets                                      *)
(* ------------------------------------------------------------------------------------------ *)
Lemma lbeq_eq : forall a b, lbeq a b = true <-> a = b.
Proof.
  induction a as [|x a IH]; destruct b as [|y b]; simpl; split; intro H; try discriminate; auto.
  - apply andb_true_iff in H as [H1 H2]. apply beq_eq in H1. apply IH in H2. congruence.
  - inversion H; subst. rewrite (proj2 (beq_eq y y) eq_refl). simpl. apply IH; auto.
Qed.

Lemma trans_eqb_eq : forall s t, trans_eqb s t = true <-> s = t.
Proof.
  intros [c1 s1 p1] [c2 s2 p2]. unfold trans_eqb. simpl. split; intro H.
  - apply andb_true_iff in H as [H H3]. apply andb_true_iff in H as [H1 H2].
    apply lbeq_eq in H1. apply beq_eq in H2, H3. congruence.
  - inversion H; subst. rewrite (proj2 (lbeq_eq c2 c2) eq_refl), !beq_refl. reflexivity.
Qed.

Lemma mem_b_In : forall x l, mem_b x l = true <-> In x l.
Proof.
  intros x l. unfold mem_b. rewrite existsb_exists. split.
  - intros (y & Hy & E). apply beq_eq in E. subst; auto.
  - intro H. exists x. split; auto. apply beq_refl.
Qed.

Lemma mem_t_In : forall x l, mem_t x l = true <-> In x l.
Proof.
  intros x l. unfold mem_t. rewrite existsb_exists. split.
  - intros (y & Hy & E). apply trans_eqb_eq in E. subst; auto.
  - intro H. exists x. split; auto. apply trans_eqb_eq; auto.
Qed.

Theorem desc_same_spec : forall d e, desc_same d e = true <->
  (forall q, In q (d_finals d) <-> In q (d_finals e)) /\ (forall t, In t (d_trans d) <-> In t (d_trans e)).
Proof.
  intros d e. unfold desc_same, same_b, same_t, sub_b, sub_t.
  rewrite !andb_true_iff, !forallb_forall. split.
  - intros [[A B] [C D]]. split; intro x; split; intro H.
    + apply mem_b_In; auto. + apply mem_b_In; auto. + apply mem_t_In; auto. + apply mem_t_In; auto.
  - intros [A B]. repeat split; intros x H.
    + apply mem_b_In, A; auto. + apply mem_b_In, A; auto. + apply mem_t_In, B; auto. + apply mem_t_In, B; auto.
Qed.

Lemma desc_same_refl : forall d, desc_same d d = true.
Proof. intro d. apply desc_same_spec. split; intro; tauto. Qed.

(* what the gates on a text establish: the formal parser reads it as a description with the
   same final states and rules *)
Theorem text_denotes_spec : forall txt d, text_denotes txt d = true <->
  exists e, parse txt = Some e /\
            (forall q, In q (d_finals e) <-> In q (d_finals d)) /\ (forall t, In t (d_trans e) <-> In t (d_trans d)).
Proof.
  intros txt d. unfold text_denotes. destruct (parse txt) as [e|]; split.
  - intro H. exists e. split; auto. apply desc_same_spec; auto.
  - intros (e' & E & H). inversion E; subst. apply desc_same_spec; auto.
  - discriminate.
  - intros (e' & E & _). discriminate.
Qed.

(* the canonical text of a well-formed description passes the gate: an implementation that
   writes what the model writes is accepted *)
Theorem model_text_denotes : forall d, wf_desc d = true -> text_denotes (serialize d) d = true.
Proof.
  intros d H. unfold text_denotes. rewrite parse_serialize_exact by auto.
  apply desc_same_spec. simpl. split; intro; tauto.
Qed.

(* ------------------------------------------------------------------------------------------ *)
(* the comparison used for the finite-automaton encoding                                       *)
(* ------------------------------------------------------------------------------------------ *)
Lemma sub_b_spec : forall l m, sub_b l m = true <-> (forall x, In x l -> In x m).
Proof.
  intros l m. unfold sub_b. rewrite forallb_forall. split; intros H x Hx.
  - apply mem_b_In; auto. - apply mem_b_In; auto.
Qed.

Lemma sub_t_spec : forall l m, sub_t l m = true <-> (forall x, In x l -> In x m).
Proof.
  intros l m. unfold sub_t. rewrite forallb_forall. split; intros H x Hx.
  - apply mem_t_In; auto. - apply mem_t_In; auto.
Qed.

Theorem fa_same_spec : forall d e, fa_same d e = true <->
  (forall q, In q (d_finals d) <-> In q (d_finals e)) /\
  (forall t, nullary t = false -> (In t (d_trans d) <-> In t (d_trans e))) /\
  (forall t, nullary t = true -> In t (d_trans e) -> In t (d_trans d)) /\
  (forall t, nullary t = true -> In t (d_trans d) ->
     exists t', nullary t' = true /\ In t' (d_trans e) /\ t_par t' = t_par t).
Proof.
  intros d e. unfold fa_same, same_b, same_t.
  rewrite !andb_true_iff, !sub_b_spec, !sub_t_spec. split.
  - intros [[[[A1 A2] [B1 B2]] C] D]. repeat split.
    + apply A1. + apply A2.
    + intro I. assert (X : In t (filter (fun t => negb (nullary t)) (d_trans d))) by (apply filter_In; rewrite H; auto).
      apply B1 in X. apply filter_In in X. tauto.
    + intro I. assert (X : In t (filter (fun t => negb (nullary t)) (d_trans e))) by (apply filter_In; rewrite H; auto).
      apply B2 in X. apply filter_In in X. tauto.
    + intros t N I. apply C. apply filter_In; auto.
    + intros t N I. assert (X : In (t_par t) (map t_par (filter nullary (d_trans d)))).
      { apply in_map. apply filter_In; auto. }
      apply D in X. apply in_map_iff in X as (t' & E & I'). apply filter_In in I' as [I' N'].
      exists t'. auto.
  - intros (A & B & C & D). repeat split.
    + intros x Hx. apply A; auto. + intros x Hx. apply A; auto.
    + intros x Hx. apply filter_In in Hx as [I N]. apply negb_true_iff in N. apply filter_In. split.
      * apply B; auto. * rewrite N; auto.
    + intros x Hx. apply filter_In in Hx as [I N]. apply negb_true_iff in N. apply filter_In. split.
      * apply B; auto. * rewrite N; auto.
    + intros x Hx. apply filter_In in Hx as [I N]. apply C; auto.
    + intros x Hx. apply in_map_iff in Hx as (t & E & I). apply filter_In in I as [I N].
      destruct (D t N I) as (t' & N' & I' & E'). apply in_map_iff. exists t'. split; [congruence|].
      apply filter_In; auto.
Qed.

(* the reserved bytes are needed: one description for each exclusion of wf_desc that does not
   come back (checked by evaluation) *)
Definition roundtrips (d : desc) : bool :=
  match parse (serialize d) with Some e => desc_same e d | None => false end.
Definition d_of_rule (ch : list bytes) (sy pa : bytes) (fin : list bytes) : desc :=
  mkDesc [] [] [] fin [mkTrans ch sy pa].
Lemma reserved_needed :
  roundtrips (d_of_rule [] [97] [113] [[113;58;49]]) = false /\        (* ':' in a final state *)
  roundtrips (d_of_rule [] [97] [113] [[113;32;114]]) = false /\       (* blank in a final state *)
  roundtrips (d_of_rule [] [97] [113] [[]]) = false /\                 (* empty final state *)
  roundtrips (d_of_rule [[113;44;114]] [102] [113] []) = false /\      (* ',' in a child *)
  roundtrips (d_of_rule [[113;41]] [102] [113] []) = false /\          (* ')' in a child *)
  roundtrips (d_of_rule [[]] [102] [113] []) = false /\                (* a single empty child *)
  roundtrips (d_of_rule [[113]] [102;40] [113] []) = false /\          (* '(' in a symbol *)
  roundtrips (d_of_rule [] [97;41] [113] []) = false /\                (* ')' in a symbol *)
  roundtrips (d_of_rule [] [97;45;62;98] [113] []) = false /\          (* "->" in a symbol *)
  roundtrips (d_of_rule [[113;45;62]] [102] [113] []) = false /\       (* "->" in a child *)
  roundtrips (d_of_rule [] [97] [113;9;114] []) = false /\             (* tab in the parent *)
  roundtrips (d_of_rule [] [97] [] []) = false /\                      (* empty parent *)
  roundtrips (d_of_rule [] [] [113] []) = false /\                     (* empty symbol *)
  (* while these are fine: ',' ':' in a transition symbol, '(' ':' in a child, anything but blanks in the parent *)
  roundtrips (d_of_rule [[40;113;58]; []; [114]] [102;44;58] [40;41;44;58;45;62] [[113]]) = true.
Proof. vm_compute. repeat split. Qed.

Definition example_desc : desc :=
  mkDesc [65;49]
    [([102], 2%Z); ([97], 0%Z); ([103;45], (-1)%Z); ([104], 2147483647%Z)]
    [[113;48]; [113;49]; [95;33;126]]
    [[113;49]; [95;33;126]]
    [mkTrans [] [97] [113;48];
     mkTrans [[113;48]; [113;49]] [102] [113;49];
     mkTrans [[113;48]] [103;45] [95;33;126];
     mkTrans [[]; [113;49]; []] [102;44;58] [40;62;45];
     mkTrans [[40;58]] [45] [113;49]].
Lemma example_wf : wf_desc example_desc = true /\ roundtrips example_desc = true.
Proof. vm_compute. split; reflexivity. Qed.

Definition example_uniform : desc :=
  mkDesc [] [([102], 2%Z); ([97], 0%Z)] [[113]; [114;39]] [[114;39]]
    [mkTrans [] [97] [113]; mkTrans [[113]; [114;39]] [102] [114;39]; mkTrans [[113]] [103;62;45] [113]].
Lemma example_uniform_wf : wf_desc_uniform example_uniform = true.
Proof. vm_compute. reflexivity. Qed.
