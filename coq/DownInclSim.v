(* C01 / C07 (A) increment — recursive downward inclusion WITH a simulation preorder: besides the coinductive workset, a goal
   (q, S) is answered "true" at once when q is simulated by some s in S. Theorem: if the relation handed in is a downward
   simulation on the disjoint union of the two (prepared) operands, every answer is still the truth, whatever the fuel. *)
From Coq Require Import List NArith Bool Arith Lia.
Import ListNotations.
From V Require Import Fix Sem Prod Incl TrimDefs TrimProofs Lang InclDefs BinopDefs BinopProofs ReduceDefs ReduceProofs ComplDefs ComplProofs ComplModel DownIncl.

Definition simulated (D : list pr) (q : N) (S : list N) : bool := existsb (fun s => relb D q s) S.

Fixpoint downs (D : list pr) (A B : ta) (fuel : nat) (q : N) (S : list N) (W : wk) : option bool :=
  match fuel with
  | 0 => None
  | Datatypes.S f =>
      if in_workset W q S || simulated D q S then Some true else
      forall_opt (fun r =>
        if negb (N.eqb (par r) q) then Some true else
        let k := length (ch r) in
        let T := tuplesB B S (sym r) k in
        match k with
        | 0 => Some (negb (is_nil T))
        | _ => forall_opt (fun c => exists_opt (fun i => downs D A B f (nth i (ch r) 0%N) (pick T c i) ((q, S) :: W)) (seq 0 k))
                          (all_choices (length T) k)
        end) (rules A)
  end.

Definition downs_incl (D : list pr) (A B : ta) (fuel : nat) : option bool :=
  forall_opt (fun q => downs D A B fuel q (finals B) []) (finals A).

(* the side condition: D is a downward simulation on the union of the operands, whose state sets are disjoint
   (this is what sanitize + UnionDisjointStates + ComputeSimulation establish) *)
Definition sim_ok (D : list pr) (A B : ta) := disjoint (states A) (states B) /\ is_down_sim (ta_app A B) D.

Lemma simulated_covers D A B q S t : sim_ok D A B -> simulated D q S = true -> incl S (states B) -> reach A t q -> covers B S t.
Proof.
  intros [Dj HD] Hs HS R. unfold simulated in Hs. apply existsb_exists in Hs as [s [Hin Hr]]. apply relb_spec in Hr.
  exists s. split; auto.
  assert (RU : reach (ta_app A B) t s) by (eapply sim_reach; eauto; apply app_reach_l; auto).
  apply app_reach in RU; auto. destruct RU as [RA|RB]; auto.
  exfalso. apply (Dj s); [eapply reach_state; eauto | apply HS; auto].
Qed.

Lemma pick_src (T : list (list N)) : forall c i x, In x (pick T c i) -> exists w, In w T /\ x = nth i w 0%N.
Proof.
  induction T as [|w T IH]; intros [|j c] i x Hx; simpl in Hx; try (destruct Hx; fail).
  destruct (Nat.eqb j i).
  - destruct Hx as [<-|Hx]; [exists w; simpl; auto|]. destruct (IH c i x Hx) as [w' [Hw E]]. exists w'; simpl; auto.
  - destruct (IH c i x Hx) as [w' [Hw E]]. exists w'; simpl; auto.
Qed.

Lemma pick_states B S f k c i : i < k -> incl (pick (tuplesB B S f k) c i) (states B).
Proof.
  intros Hi x Hx. destruct (pick_src _ c i x Hx) as [w [Hw ->]].
  apply tuplesB_in in Hw as [rb [Hrb [_ [_ [E L]]]]]. subst w. apply (rule_states B rb Hrb). apply nth_In. lia.
Qed.

Lemma downs_true_sound D A B : sim_ok D A B -> forall n fuel q S W, incl S (states B) ->
  downs D A B fuel q S W = Some true -> WHyp A B n W -> InclN A B n q S.
Proof.
  intros HS. induction n as [|n IHn]; intros fuel q S W HSB Hd HW.
  - intros t Ht. destruct t; simpl in Ht; lia.
  - assert (Hq : InclN A B n q S) by (apply (IHn fuel q S W HSB Hd); intros q' S' H'; eapply InclN_mono; [|apply HW; eauto]; lia).
    destruct fuel as [|f]; [discriminate|]. simpl in Hd.
    destruct (in_workset W q S) eqn:EW; simpl in Hd.
    + apply in_workset_spec in EW as [S' [Hin Hsub]]. intros t Ht R. eapply covers_mono; eauto. apply (HW q S' Hin t Ht R).
    + destruct (simulated D q S) eqn:ES.
      * intros t _ R. eapply simulated_covers; eauto.
      * intros t Ht R. inversion R as [g ts r Hr Hs HF]; subst.
        rewrite forall_opt_true in Hd. specialize (Hd r Hr). rewrite N.eqb_refl in Hd. simpl in Hd.
        assert (Hlen : length ts = length (ch r)) by (clear - HF; induction HF; simpl; auto).
        destruct (length (ch r)) as [|k'] eqn:Ek.
        -- inversion Hd as [Hn]. apply negb_true_iff in Hn. destruct (tuplesB B S (sym r) 0) as [|w T] eqn:ET; [discriminate|].
           assert (Hw : In w (tuplesB B S (sym r) 0)) by (rewrite ET; left; auto).
           apply tuplesB_in in Hw as [rb [Hrb [Hsb [Hpb [Ew Lw]]]]]. exists (par rb). split; auto.
           destruct ts; [|discriminate]. rewrite <- Hsb. constructor; auto. destruct (ch rb); [constructor | subst; discriminate].
        -- set (k := Datatypes.S k') in *. set (T := tuplesB B S (sym r) k) in *.
           destruct (existsb (fun w => matches w (map (eval B) ts)) T) eqn:EX.
           ++ apply existsb_exists in EX as [w [Hw M]]. apply Forall2_reach_matches in M.
              apply tuplesB_in in Hw as [rb [Hrb [Hsb [Hpb [Ew Lw]]]]]. exists (par rb). split; auto. rewrite <- Hsb. constructor; auto. rewrite Ew; auto.
           ++ exfalso.
              destruct (finite_choice (fun w j => j < length ts /\ ~ reach B (nth j ts dflt) (nth j w 0%N)) T) as [c Hc].
              { intros w Hw. apply not_Forall2_pos.
                - apply tuplesB_in in Hw as [rb [_ [_ [_ [_ Lw]]]]]. lia.
                - intros F2. apply Forall2_reach_matches in F2. assert (X : existsb (fun w0 => matches w0 (map (eval B) ts)) T = true) by (apply existsb_exists; exists w; auto). congruence. }
              assert (Hcin : In c (all_choices (length T) k)).
              { apply all_choices_in. split; [symmetry; eapply Forall2_len; eauto|]. apply Forall_forall. intros j Hj.
                destruct (In_nth c j 0 Hj) as [m [Hm <-]]. assert (Hl : length T = length c) by (eapply Forall2_len; eauto).
                clear - Hc Hm Hl Hlen. rewrite Hlen in Hc. revert m Hm. induction Hc as [|w j0 T c [H1 _] F IH2]; intros m Hm; simpl in *; [lia|].
                destruct m; auto. apply IH2; lia. }
              rewrite forall_opt_true in Hd. specialize (Hd c Hcin). apply exists_opt_true in Hd as [i [Hi Hdi]]. apply in_seq in Hi.
              assert (Hinc : InclN A B n (nth i (ch r) 0%N) (pick T c i)).
              { apply (IHn f _ _ _ (pick_states B S (sym r) k c i ltac:(lia)) Hdi). intros q' S' [E|H']; [inversion E; subst; auto | eapply InclN_mono; [|apply HW; eauto]; lia]. }
              assert (Hti : height (nth i ts dflt) <= n).
              { assert (In (nth i ts dflt) ts) by (apply nth_In; lia). pose proof (height_child _ _ (sym r) H). lia. }
              destruct (Hinc _ Hti) as [s [Hs' Rs]]; [apply Forall2_nth_reach; auto; lia|].
              destruct (pick_elim _ T c i s Hc Hs') as [w [Hw [[_ Hnr] ->]]]. auto.
Qed.

Lemma downs_false_sound D A B : forall fuel q S W, downs D A B fuel q S W = Some false -> exists t, reach A t q /\ ~ covers B S t.
Proof.
  induction fuel as [|f IH]; intros q S W Hd; [discriminate|]. simpl in Hd.
  destruct (in_workset W q S || simulated D q S); [discriminate|].
  apply forall_opt_false in Hd as [r [Hr Hd]].
  destruct (N.eqb_spec (par r) q) as [Ep|NE]; simpl in Hd; [|discriminate]. subst q.
  destruct (length (ch r)) as [|k'] eqn:Ek.
  - inversion Hd as [Hn]. apply negb_false_iff in Hn. destruct (tuplesB B S (sym r) 0) as [|w T] eqn:ET; [|discriminate].
    exists (Node (sym r) []). split.
    + constructor; auto. destruct (ch r); [constructor | discriminate].
    + intros [s [Hs R]]. inversion R as [g ts rb Hrb Hsb HF]; subst. inversion HF as [E|]; subst.
      assert (Hin : In (ch rb) (tuplesB B S (sym r) 0)) by (apply tuplesB_in; exists rb; rewrite <- H; auto).
      rewrite ET in Hin. destruct Hin.
  - set (k := Datatypes.S k') in *. set (T := tuplesB B S (sym r) k) in *.
    apply forall_opt_false in Hd as [c [Hc Hd]]. rewrite exists_opt_false in Hd.
    apply all_choices_in in Hc as [Lc Fc].
    destruct (build_list (fun i t => reach A t (nth i (ch r) 0%N) /\ ~ covers B (pick T c i) t) dflt k) as [ts [Lts Hts]].
    { intros i Hi. apply (IH _ _ ((par r, S) :: W)). apply Hd. apply in_seq. lia. }
    exists (Node (sym r) ts). split.
    + constructor; auto. apply Forall2_of_nth; [lia|]. intros i Hi. apply Hts. lia.
    + intros [s [Hs R]]. inversion R as [g ts' rb Hrb Hsb HF]; subst.
      assert (Lw : length (ch rb) = k) by (rewrite <- Lts; symmetry; clear - HF; induction HF; simpl; auto).
      assert (Hin : In (ch rb) T) by (apply tuplesB_in; exists rb; auto).
      destruct (pick_intro _ T c (choice_positions T c k Lc Fc) (ch rb) Hin) as [i [Hi Hp]].
      apply (proj2 (Hts i Hi)). exists (nth i (ch rb) 0%N). split; auto. apply Forall2_nth_reach; auto. lia.
Qed.

(* with a valid simulation every answer of the simulation-pruned recursive downward check is the truth *)
Theorem downs_incl_partial_correct D A B fuel b : sim_ok D A B -> downs_incl D A B fuel = Some b -> (b = true <-> lincl A B).
Proof.
  unfold downs_incl. intros HS H. destruct b; split; auto; try discriminate.
  - intros _ t [q [Hq R]]. rewrite forall_opt_true in H. specialize (H q Hq).
    assert (HF : incl (finals B) (states B)) by (intros x Hx; apply finals_states; auto).
    destruct (downs_true_sound D A B HS (height t) fuel q (finals B) [] HF H (fun q' S' (X : In (q', S') []) => match X with end) t (le_n _) R) as [s [Hs Rs]].
    exists s; auto.
  - intros L. apply forall_opt_false in H as [q [Hq H]]. destruct (downs_false_sound D A B fuel q (finals B) [] H) as [t [R N]].
    exfalso. apply N. destruct (L t) as [s [Hs Rs]]; [exists q; auto|]. exists s; auto.
Qed.

(* non-vacuity: a valid simulation on disjoint operands; with it the check answers at once where the plain algorithm
   needs another level of recursion *)
Example downs_example :
  let A := {| rules := [ {| sym := 0; ch := []; par := 0 |}; {| sym := 2; ch := [0%N]; par := 0 |} ]; finals := [0%N] |} in
  let B := {| rules := [ {| sym := 0; ch := []; par := 10 |}; {| sym := 2; ch := [10%N]; par := 11 |}; {| sym := 2; ch := [11%N]; par := 10 |};
                         {| sym := 0; ch := []; par := 11 |} ]; finals := [10%N; 11%N] |} in
  let D := down_sim_rel (ta_app A B) in
  is_down_simb (ta_app A B) D = true /\ disjointb (states A) (states B) = true /\ downs_incl D A B 1 = Some true /\ down_incl A B 1 = None.
Proof. vm_compute. repeat split; reflexivity. Qed.

Theorem downs_incl_partial_correct_b D A B fuel b :
  disjointb (states A) (states B) = true -> is_down_simb (ta_app A B) D = true ->
  downs_incl D A B fuel = Some b -> (b = true <-> lincl A B).
Proof.
  intros H1 H2. apply downs_incl_partial_correct. split; [apply BinopProofs.disjointb_spec; exact H1 | apply is_down_simb_spec; exact H2].
Qed.
