(* C08 — BDD-encoded automata: load/dump, union, intersection, trimming, conversion keep exact languages; no call
   changes the language of an operand. Value-level pool model. Statements only. *)
From Coq Require Import List NArith Bool.
From V Require Import Sem Prod Incl TrimDefs TrimProofs Lang ProductDefs ProductProofs PoolDefs PoolProofs ArityPrefix SharedTable DispatchTable ArityTie BddSym.

(* frame property: an operation of the pool changes no handle but its target (operands keep their languages) *)
Theorem C08_frame : forall p o h, h <> target o -> plookup (pool_step p o) h = plookup p h.
Proof. exact pool_step_frame. Qed.
(* union / intersection results denote exactly the union / intersection of what the operands denote *)
Theorem C08_union_lang : forall p k i j a b, plookup p i = Some a -> plookup p j = Some b ->
  exists c, plookup (pool_step p (OUnion k i j)) k = Some c /\ forall t, accepts c t <-> accepts a t \/ accepts b t.
Proof. exact pool_union_lang. Qed.
Theorem C08_isect_lang : forall p k i j a b, plookup p i = Some a -> plookup p j = Some b ->
  exists c, plookup (pool_step p (OIsect k i j)) k = Some c /\ forall t, accepts c t <-> accepts a t /\ accepts b t.
Proof. exact pool_isect_lang. Qed.
(* trimming and conversion to top-down form denote the operand's value; copies denote the source's value *)
Theorem C08_keep_lang : forall p k i a, plookup p i = Some a -> plookup (pool_step p (OKeep k i)) k = Some a.
Proof. exact pool_keep_lang. Qed.
Theorem C08_copy_value : forall p k j a, plookup p j = Some a -> plookup (pool_step p (OCopy k j)) k = Some a.
Proof. exact pool_copy_value. Qed.
(* the gate applied after every step: every observed handle has the language of its model value, same live handles *)
Theorem C08_gate_sound : forall model observed, pool_gate model observed = true -> pool_agree model observed.
Proof. exact pool_gate_sound. Qed.
(* re-basing the model on the observed (language-equivalent) values is sound: operations are congruences *)
Theorem C08_union_congr : forall a a' b b', leq a a' -> leq b b' -> leq (tagged a b) (tagged a' b').
Proof. exact tagged_congr. Qed.
Theorem C08_isect_congr : forall a a' b b', leq a a' -> leq b b' -> leq (product a b) (product a' b').
Proof. exact product_congr. Qed.
(* no useless state after RemoveUselessStates: the gate is C03's *)
Theorem C08_no_useless : forall L, no_useless L = true <-> useless_postcond L.
Proof. exact no_useless_spec. Qed.

(* arity prefix of the top-down encoding (addArityToSymbol): inside the guards (16-bit symbols, arity <= 63) the key of a
   transition determines symbol and arity; outside them different arities collide (6 bits are stored) *)
Theorem C08_arity_prefix_injective : forall s1 a1 s2 a2, in_guard s1 a1 = true -> in_guard s2 a2 = true ->
  td_key s1 a1 = td_key s2 a2 -> s1 = s2 /\ a1 = a2.
Proof. exact td_key_injective. Qed.
Theorem C08_arity_prefix_guard_needed : td_key 5 64 = td_key 5 0 /\ in_guard 5 64 = false.
Proof. exact td_key_guard_needed. Qed.

(* the shortcuts available when two BDD automata share their transition table (copies with other final states): union of the final
   states is exact (the one libvata takes); intersecting the final states is only a lower bound of the intersection *)
Theorem C08_shared_union_exact : forall A F G t,
  accepts (with_finals (F ++ G) A) t <-> accepts (with_finals F A) t \/ accepts (with_finals G A) t.
Proof. exact shared_union_finals_exact. Qed.
Theorem C08_shared_isect_refuted : exists A F G t,
  accepts (with_finals F A) t /\ accepts (with_finals G A) t /\ ~ accepts (with_finals (finter F G) A) t.
Proof. exact shared_isect_finals_refuted. Qed.

(* the layout constants of the model are those found in the sources on this run (generated DispatchTable.v) *)
Theorem C08_arity_constants_from_source :
  src_SYMBOL_SIZE = SYMBOL_BITS /\ src_SYMBOL_ARITY_LENGTH = ARITY_BITS /\ src_MAX_ARITY_IS_ALL_ONES = true /\
  MAX_ARITY = (2 ^ src_SYMBOL_ARITY_LENGTH - 1)%N.
Proof. exact arity_constants_tied. Qed.

(* D14 in the model: rules of an earlier right operand left in a table shared with the left operand do not change the left operand's
   language, yet they become live in a later union with a right operand that re-uses the state numbers *)
Theorem C08_ud_garbage_becomes_live :
  disjoint (states dA) (states dB) /\ disjoint (states dA) (states dC) /\
  (forall t, accepts (polluted dA dB) t <-> accepts dA t) /\
  exists t, accepts (ta_app (polluted dA dB) dC) t /\ ~ accepts dA t /\ ~ accepts dC t.
Proof. exact ud_garbage_becomes_live. Qed.

(* (A) the symbolic transition tables of the bottom-up encoding: tuple of children |-> MTBDD over the symbol bits with SETS of parent
   states in the leaves. Union merges the MTBDDs of equal tuples with Apply2 and set union, Intersection pairs tuples of equal length
   and merges with "all pairs". For EVERY symbol the explicit rules of the result are the union / the product of the operands' rules *)
Theorem C08_symbolic_union_parents : forall B A cs s x, BddSym.keys_nodup A -> BddSym.keys_nodup B ->
  (In x (parents (bunion A B) cs s) <-> In x (parents A cs s) \/ In x (parents B cs s)).
Proof. exact bunion_parents. Qed.
Theorem C08_symbolic_isect_entry : forall K A B cs d, In (cs, d) (bisect K A B) <->
  exists ca da cb db, In (ca, da) A /\ In (cb, db) B /\ length ca = length cb /\
    cs = map (fun pq => pair_code K (fst pq) (snd pq)) (combine ca cb) /\ d = MtbddDefs.apply2 pset pset_eq_dec (set_pairs K) da db.
Proof. exact bisect_entry. Qed.
Theorem C08_symbolic_isect_parents : forall K da db s x,
  In x (MtbddDefs.ev pset (MtbddDefs.apply2 pset pset_eq_dec (set_pairs K) da db) s) <->
  exists p q, In p (MtbddDefs.ev pset da s) /\ In q (MtbddDefs.ev pset db s) /\ x = pair_code K p q.
Proof. exact bisect_parents. Qed.
Example C08_symbolic_union_example :
  parents (bunion exA exB) (List.cons 1 (List.cons 2 List.nil))%N s01 = (List.cons 5 (List.cons 6 List.nil))%N /\
  parents (bunion exA exB) (List.cons 3 List.nil)%N (fun _ => true) = (List.cons 7 List.nil)%N /\
  parents (bunion exA exB) (List.cons 1 (List.cons 2 List.nil))%N (fun _ => true) = List.nil /\ length (bunion exA exB) = 3.
Proof. exact bunion_example. Qed.

Print Assumptions C08_frame.
Print Assumptions C08_arity_prefix_injective.
Print Assumptions C08_arity_prefix_guard_needed.
Print Assumptions C08_union_lang.
Print Assumptions C08_isect_lang.
Print Assumptions C08_keep_lang.
Print Assumptions C08_copy_value.
Print Assumptions C08_gate_sound.
Print Assumptions C08_union_congr.
Print Assumptions C08_isect_congr.
Print Assumptions C08_no_useless.
Print Assumptions C08_shared_union_exact.
Print Assumptions C08_shared_isect_refuted.
Print Assumptions C08_arity_constants_from_source.
Print Assumptions C08_ud_garbage_becomes_live.
Print Assumptions C08_symbolic_union_parents.
Print Assumptions C08_symbolic_isect_entry.
Print Assumptions C08_symbolic_isect_parents.
Print Assumptions C08_symbolic_union_example.
