(* The rule container of ExplicitTreeAutCore as a nested association list
      state -> (symbol -> set of child tuples)
   written as the code inserts (fetch-or-create at each level), its read-only views, the
   specification side (which rules / final states are live after an op sequence) and the boolean gates
   that decide the property clauses on an implementation's output.  Definitions only (extracted). *)
From Coq Require Import List NArith Bool.
Import ListNotations.
From V Require Import Sem.

Definition tuple := list N.

Fixpoint list_eqb (l m : list N) : bool :=
  match l, m with
  | [], [] => true
  | x :: l', y :: m' => N.eqb x y && list_eqb l' m'
  | _, _ => false
  end.
Definition rule_eqb (r s : rule) : bool := N.eqb (sym r) (sym s) && N.eqb (par r) (par s) && list_eqb (ch r) (ch s).
Definition memT (t : tuple) (ts : list tuple) : bool := existsb (list_eqb t) ts.
Definition memR (r : rule) (rs : list rule) : bool := existsb (rule_eqb r) rs.

(* ---------- association lists keyed by N; new keys go to the end ---------- *)
Section AList.
  Variable V : Type.
  Fixpoint get (k : N) (l : list (N * V)) : option V :=
    match l with [] => None | (k', v) :: t => if N.eqb k k' then Some v else get k t end.
  (* fetch-or-create the entry of k (default d), apply f to it *)
  Fixpoint upd (k : N) (d : V) (f : V -> V) (l : list (N * V)) : list (N * V) :=
    match l with
    | [] => [(k, f d)]
    | (k', v) :: t => if N.eqb k k' then (k', f v) :: t else (k', v) :: upd k d f t
    end.
End AList.
Arguments get {V}. Arguments upd {V}.

Definition tset := list tuple.
Definition cluster := list (N * tset).
Definition store := list (N * cluster).
Record aut := { st : store; fin : list N }.

Definition ins (t : tuple) (ts : tset) : tset := if memT t ts then ts else ts ++ [t].
Definition addN (q : N) (l : list N) : list N := if memN q l then l else l ++ [q].

(* internalAddTransition: uniqueClusterMap()->uniqueCluster(parent)->uniqueTuplePtrSet(symbol)->insert(children) *)
Definition add_rule (r : rule) (s : store) : store := upd (par r) [] (upd (sym r) [] (ins (ch r))) s.

Inductive op := Add (r : rule) | SetFinal (q : N) | SetFinals (qs : list N) | EraseFinals | Clear.

Definition step (a : aut) (o : op) : aut :=
  match o with
  | Add r => {| st := add_rule r (st a); fin := fin a |}
  | SetFinal q => {| st := st a; fin := addN q (fin a) |}
  | SetFinals qs => {| st := st a; fin := fold_left (fun l q => addN q l) qs (fin a) |}
  | EraseFinals => {| st := st a; fin := [] |}
  | Clear => {| st := []; fin := [] |}
  end.
Definition init : aut := {| st := []; fin := [] |}.
Definition run (ops : list op) : aut := fold_left step ops init.

(* ---------- views ---------- *)
Definition mkrule (q a : N) (t : tuple) : rule := {| sym := a; ch := t; par := q |}.
Definition citer (q : N) (cl : cluster) : list rule := flat_map (fun e => map (mkrule q (fst e)) (snd e)) cl.
(* Iterator: clusters, then symbols, then tuples, in store order *)
Definition iter (s : store) : list rule := flat_map (fun e => citer (fst e) (snd e)) s.
Definition contains (s : store) (r : rule) : bool :=
  match get (par r) s with
  | Some cl => match get (sym r) cl with Some ts => memT (ch r) ts | None => false end
  | None => false
  end.
(* DownAccessor *)
Definition down (s : store) (q : N) : list rule := match get q s with Some cl => citer q cl | None => [] end.
(* AcceptTransIterator: for each final state, its cluster if it has one *)
Definition accept_trans (a : aut) : list rule := flat_map (down (st a)) (fin a).
Fixpoint nodupN (l : list N) : list N :=
  match l with [] => [] | x :: t => if memN x t then nodupN t else x :: nodupN t end.
Definition used_states (a : aut) : list N := nodupN (flat_map (fun r => ch r ++ [par r]) (iter (st a)) ++ fin a).
Definition trans_empty (s : store) : bool := match s with [] => true | _ => false end.

(* ---------- specification side: what is live after an op sequence ---------- *)
Definition live_step (l : list rule) (o : op) : list rule :=
  match o with Add r => r :: l | Clear => [] | _ => l end.
Definition live (ops : list op) : list rule := fold_left live_step ops [].
Definition livef_step (l : list N) (o : op) : list N :=
  match o with SetFinal q => q :: l | SetFinals qs => qs ++ l | EraseFinals => [] | Clear => [] | Add _ => l end.
Definition livef (ops : list op) : list N := fold_left livef_step ops [].

(* ---------- gates: the property clauses decided on an implementation's output ---------- *)
Fixpoint nodupRb (l : list rule) : bool := match l with [] => true | x :: t => negb (memR x t) && nodupRb t end.
Fixpoint nodupNb (l : list N) : bool := match l with [] => true | x :: t => negb (memN x t) && nodupNb t end.
Definition set_eqR (l m : list rule) : bool := forallb (fun r => memR r m) l && forallb (fun r => memR r l) m.
Definition set_eqN (l m : list N) : bool := forallb (fun r => memN r m) l && forallb (fun r => memN r l) m.

Definition gate_iter (ops : list op) (l : list rule) : bool := nodupRb l && set_eqR l (live ops).
Definition gate_contains (ops : list op) (r : rule) (b : bool) : bool := eqb b (memR r (live ops)).
Definition gate_accept (ops : list op) (l : list rule) : bool :=
  nodupRb l && set_eqR l (filter (fun r => memN (par r) (livef ops)) (live ops)).
Definition gate_down (ops : list op) (q : N) (l : list rule) : bool :=
  nodupRb l && set_eqR l (filter (fun r => N.eqb (par r) q) (live ops)).
Definition gate_finals (ops : list op) (l : list N) : bool := nodupNb l && set_eqN l (livef ops).
Definition gate_used (ops : list op) (l : list N) : bool :=
  nodupNb l && set_eqN l (flat_map (fun r => par r :: ch r) (live ops) ++ livef ops).
Definition gate_isfinal (ops : list op) (q : N) (b : bool) : bool := eqb b (memN q (livef ops)).
Definition gate_empty (ops : list op) (b : bool) : bool := eqb b (match live ops with [] => true | _ => false end).

(* multiset equality with the model's view (drift: the same decision, through the nested model) *)
Fixpoint countR (r : rule) (l : list rule) : nat := match l with [] => 0 | x :: t => (if rule_eqb r x then 1 else 0) + countR r t end.
Definition same_multiset (l m : list rule) : bool :=
  forallb (fun r => Nat.eqb (countR r l) (countR r m)) (l ++ m).
