From Coq Require Import List NArith Bool Lia.
Import ListNotations.
From V Require Import Fix Sem Prod Incl TrimDefs TrimProofs Lang CandDefs CandProofs InclDefs InclProofs BinopDefs BinopProofs ProductDefs ProductProofs ReduceDefs ReduceProofs LawsDefs.

(* an implementation that answers every question either with the model's verdict or not at all passes the judges *)
Definition answers (b : bool) (o : outcome) := o = Timeout \/ o = of_bool b.

Theorem agree_sound b l : Forall (answers b) l -> all_agree l = true.
Proof.
  intros H. unfold all_agree. apply forallb_forall. intros x Hx. apply forallb_forall. intros y Hy.
  rewrite Forall_forall in H. destruct (H x Hx) as [-> | ->]; destruct (H y Hy) as [-> | ->]; destruct b; reflexivity.
Qed.
Theorem pairwise_sound b l m : Forall (answers b) l -> Forall (answers b) m -> length l = length m -> pairwise_agree l m = true.
Proof.
  revert m. induction l as [|x l IH]; intros [|y m] Hl Hm E; simpl in *; try discriminate; auto.
  inversion Hl; inversion Hm; subst. rewrite IH; auto. rewrite andb_true_r.
  match goal with H1 : answers b x, H2 : answers b y |- _ => destruct H1 as [-> | ->]; destruct H2 as [-> | ->]; destruct b; reflexivity end.
Qed.
Theorem must_hold_sound o : answers true o -> must_hold o = true.
Proof. intros [-> | ->]; reflexivity. Qed.

(* ---- renaming never changes a verdict or an emptiness answer ---- *)
Theorem verdict_equivariant v h k A B : inj_on h (states A) -> inj_on k (states B) ->
  incl_model v (image h A) (image k B) = incl_model v A B.
Proof.
  intros Hh Hk. apply eq_true_iff_eq. rewrite !incl_model_exact. apply lincl_leq; intros t; apply image_lang_inj; auto.
Qed.
Theorem empty_equivariant h A : inj_on h (states A) -> is_empty (image h A) = is_empty A.
Proof.
  intros Hh. apply eq_true_iff_eq. rewrite !is_empty_spec. split; intros H t Ht; apply (H t); apply (image_lang_inj h A Hh); auto.
Qed.
(* order of rules / final states is irrelevant: only the sets matter *)
Theorem verdict_order_invariant v A A' B B' : ta_same A A' = true -> ta_same B B' = true -> incl_model v A B = incl_model v A' B'.
Proof.
  intros HA HB. apply eq_true_iff_eq. rewrite !incl_model_exact.
  assert (L : forall X Y, ta_same X Y = true -> leq X Y).
  { intros X Y H. unfold ta_same in H. rewrite !andb_true_iff in H. destruct H as [[[H1 H2] H3] H4].
    apply CandProofs.subR_spec in H1, H2. apply subN_spec in H3, H4.
    intros t. split; intros [q [Hq R]]; exists q; split; auto; eapply reach_mono; eauto. }
  apply L in HA. apply L in HB. apply (lincl_leq A' A B' B HA HB).
Qed.

(* ---- the laws of language inclusion, for the verdict function ---- *)
Theorem law_refl v A : incl_model v A A = true.
Proof. apply incl_model_exact. intros t; auto. Qed.
Theorem law_union_l v hA hB A B : valid_unionb hA hB A B = true -> incl_model v A (union_with hA hB A B) = true.
Proof. intros H. apply incl_model_exact. intros t Ht. apply (union_model_lang hA hB A B H). auto. Qed.
Theorem law_union_r v hA hB A B : valid_unionb hA hB A B = true -> incl_model v B (union_with hA hB A B) = true.
Proof. intros H. apply incl_model_exact. intros t Ht. apply (union_model_lang hA hB A B H). auto. Qed.
Theorem law_isect_l v A B : incl_model v (isect_td A B) A = true.
Proof. apply incl_model_exact. intros t Ht. apply isect_td_lang in Ht. tauto. Qed.
Theorem law_isect_r v A B : incl_model v (isect_td A B) B = true.
Proof. apply incl_model_exact. intros t Ht. apply isect_td_lang in Ht. tauto. Qed.
Theorem law_trans v A B C : incl_model v A B = true -> incl_model v B C = true -> incl_model v A C = true.
Proof. rewrite !incl_model_exact. intros H1 H2 t Ht. auto. Qed.
Theorem law_equiv_trim v A : incl_model v A (remove_useless A) = true /\ incl_model v (remove_useless A) A = true.
Proof. split; apply incl_model_exact; intros t Ht; apply (useless_lang A t); auto. Qed.
Theorem law_equiv_reindex v h A : inj_on h (states A) -> incl_model v A (image h A) = true /\ incl_model v (image h A) A = true.
Proof. intros Hh. split; apply incl_model_exact; intros t Ht; apply (image_lang_inj h A Hh t); auto. Qed.
Theorem law_equiv_reduce v A D rep : is_down_simb A D = true -> valid_repb A D rep = true ->
  incl_model v A (reduce_with rep A) = true /\ incl_model v (reduce_with rep A) A = true.
Proof. intros H1 H2. split; apply incl_model_exact; intros t Ht; apply (reduce_lang A D rep H1 H2 t); auto. Qed.
