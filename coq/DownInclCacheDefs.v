(* C01 / C07 (A) increment — the recursive downward inclusion algorithm WITH the cache of positive answers (childrenCache_ of
   DownwardInclusionFunctor, src/down_tree_incl_fctor.hh). A goal (q, S) already open on the call stack counts as true (coinduction);
   a goal subsumed by a cached positive answer counts as true; a goal that was expanded with the answer true is added to the cache
   of the level that asked for it.
     shared = false : as libvata does it - every expansion starts a cache of its own, which dies with it (answers obtained under
                      the hypothesis (q, S) do not outlive the expansion of (q, S));
     shared = true  : ONE cache threaded through the whole computation.
   State passing: every call returns the answer and the cache. Fuel as in DownIncl.v. *)
From Coq Require Import List NArith Bool Arith Lia.
Import ListNotations.
From V Require Import Fix Sem Prod Incl TrimDefs Lang InclDefs ComplDefs ComplModel DownIncl.

Definition cache := list (N * list N).

Fixpoint forall_st {X} (f : X -> cache -> option (bool * cache)) (l : list X) (C : cache) : option (bool * cache) :=
  match l with
  | [] => Some (true, C)
  | x :: r => match f x C with Some (true, C') => forall_st f r C' | Some (false, C') => Some (false, C') | None => None end
  end.
Fixpoint exists_st {X} (f : X -> cache -> option (bool * cache)) (l : list X) (C : cache) : option (bool * cache) :=
  match l with
  | [] => Some (false, C)
  | x :: r => match f x C with Some (false, C') => exists_st f r C' | Some (true, C') => Some (true, C') | None => None end
  end.

Fixpoint downc (shared : bool) (A B : ta) (fuel : nat) (q : N) (S : list N) (W : wk) (C : cache) : option (bool * cache) :=
  match fuel with
  | 0 => None
  | Datatypes.S f =>
      if in_workset W q S then Some (true, C) else
      if in_workset C q S then Some (true, C) else          (* the cache is searched like the workset: a stored (q, S') with S' <= S *)
      match forall_st (fun r Cc =>
              if negb (N.eqb (par r) q) then Some (true, Cc) else
              let k := length (ch r) in
              let T := tuplesB B S (sym r) k in
              match k with
              | 0 => Some (negb (is_nil T), Cc)
              | _ => forall_st (fun c Cc1 => exists_st (fun i Cc2 => downc shared A B f (nth i (ch r) 0%N) (pick T c i) ((q, S) :: W) Cc2) (seq 0 k) Cc1)
                               (all_choices (length T) k) Cc
              end) (rules A) (if shared then C else [])
      with
      | Some (true, C1) => Some (true, (q, S) :: (if shared then C1 else C))
      | Some (false, C1) => Some (false, if shared then C1 else C)
      | None => None
      end
  end.

Definition downc_incl (shared : bool) (A B : ta) (fuel : nat) : option bool :=
  match forall_st (fun q C => downc shared A B fuel q (finals B) [] C) (finals A) [] with
  | Some (b, _) => Some b
  | None => None
  end.

(* the pair on which one shared cache gives a wrong "included": A has the cycle p -f-> (q, r), q -g-> (p);
   B = a defective copy (R accepts e where r accepts c) and an intact copy; h(p,t) is rescued by the intact copy, k(q,t) only has the defective one.
   states A: s=0 p=1 q=2 r=3 t=4;  B: S=0 P=1 Q=2 R=3 T1=4 P2=5 Q2=6 R2=7 T2=8
   symbols: a=0 c=1 d=7 e=8 g=2 f=3 h=5 k=6 *)
Definition mk (f : N) (c : list N) (p : N) : rule := {| sym := f; ch := c; par := p |}.
Definition trapA : ta := {| rules := [mk 5 [1;4] 0; mk 6 [2;4] 0; mk 3 [2;3] 1; mk 2 [1] 2; mk 0 [] 2; mk 1 [] 3; mk 7 [] 4]%N; finals := [0%N] |}.
Definition trapB : ta := {| rules := [mk 5 [1;4] 0; mk 5 [5;8] 0; mk 6 [2;4] 0;
                                      mk 3 [2;3] 1; mk 2 [1] 2; mk 0 [] 2; mk 8 [] 3; mk 7 [] 4;
                                      mk 3 [6;7] 5; mk 2 [5] 6; mk 0 [] 6; mk 1 [] 7; mk 7 [] 8]%N; finals := [0%N] |}.
