(* C04 — the partition and block relation built by TranslateUpward (TaEncDefs.up_partition / up_block_rel) induce exactly
   the initial relation used in encode_up_correct_partial; hence the full statement encode_up_correct. *)
From Coq Require Import List NArith Bool Arith Lia.
Import ListNotations.
From V Require Import Gfp Sem Prod Incl TrimDefs TrimProofs Lang LtsSimDefs LtsSimProofs TaSimDefs TaSimProofs TaEncDefs TaEncProofs.

(* ---------- block_of on concatenated partitions ---------- *)
Lemma exb_In x b : existsb (N.eqb x) b = true <-> In x b.
Proof. rewrite existsb_exists. split; [intros [y [Hy E]]; apply N.eqb_eq in E; subst; auto | intros H; exists x; split; auto; apply N.eqb_refl]. Qed.
Lemma exb_notIn x b : ~ In x b -> existsb (N.eqb x) b = false.
Proof. intros H. destruct (existsb (N.eqb x) b) eqn:E; auto. apply exb_In in E. tauto. Qed.

Lemma bof_skip : forall P1 P2 i x, (forall b, In b P1 -> ~ In x b) ->
  block_of_from i (P1 ++ P2) x = block_of_from (i + N.of_nat (length P1)) P2 x.
Proof.
  induction P1 as [|b P1 IH]; intros P2 i x H.
  - simpl. f_equal. lia.
  - cbn [app block_of_from length]. rewrite (exb_notIn x b) by (apply H; left; auto).
    rewrite IH by (intros; apply H; right; auto). f_equal. lia.
Qed.
Lemma bof_hit b P i x : In x b -> block_of_from i (b :: P) x = Some i.
Proof. intros H. simpl. apply exb_In in H. rewrite H. auto. Qed.
Lemma bof_same : forall P i x y, (forall b, In b P -> (In x b <-> In y b)) -> block_of_from i P x = block_of_from i P y.
Proof.
  induction P as [|b P IH]; intros i x y H; simpl; auto.
  destruct (existsb (N.eqb x) b) eqn:Ex.
  - apply exb_In in Ex. apply (H b) in Ex; [|left; auto]. apply exb_In in Ex. rewrite Ex. auto.
  - assert (existsb (N.eqb y) b = false) as ->.
    { apply exb_notIn. intros Hy. apply (H b) in Hy; [|left; auto]. apply exb_In in Hy. congruence. }
    apply IH. intros; apply H; right; auto.
Qed.
Lemma bof_in : forall P i x j, block_of_from i P x = Some j -> exists b, In b P /\ In x b.
Proof.
  induction P as [|b P IH]; intros i x j H; simpl in H; [discriminate|].
  destruct (existsb (N.eqb x) b) eqn:Ex.
  - exists b. split; [left; auto | apply exb_In; auto].
  - destruct (IH _ _ _ H) as [b' [Hb' Hx]]. exists b'. split; auto. right; auto.
Qed.
Lemma bof_both : forall P i x y j, block_of_from i P x = Some j -> block_of_from i P y = Some j ->
  exists b, In b P /\ In x b /\ In y b.
Proof.
  induction P as [|b P IH]; intros i x y j Hx Hy; simpl in Hx, Hy; [discriminate|].
  destruct (existsb (N.eqb x) b) eqn:Ex, (existsb (N.eqb y) b) eqn:Ey.
  - exists b. repeat split; [left; auto | apply exb_In; auto | apply exb_In; auto].
  - inversion Hx; subst. apply block_of_from_lt in Hy. lia.
  - inversion Hy; subst. apply block_of_from_lt in Hx. lia.
  - destruct (IH _ _ _ _ Hx Hy) as [b' [Hb' H]]. exists b'. split; auto. right; auto.
Qed.

(* ---------- the key relation on environments is an equivalence ---------- *)
Lemma key_refl E : env_key_eqb E E = true.
Proof. apply env_key_eqb_spec. auto. Qed.
Lemma key_sym E E' : env_key_eqb E E' = true -> env_key_eqb E' E = true.
Proof. rewrite !env_key_eqb_spec. intuition congruence. Qed.
Lemma key_trans E E' E'' : env_key_eqb E E' = true -> env_key_eqb E' E'' = true -> env_key_eqb E E'' = true.
Proof. rewrite !env_key_eqb_spec. intuition congruence. Qed.

Lemma env_heads_complete : forall es seen E, In E es \/ In E seen -> exists h, In h (env_heads seen es) /\ env_key_eqb h E = true.
Proof.
  induction es as [|e r IH]; intros seen E H; simpl.
  - destruct H as [[]|H]. exists E. split; [apply in_rev in H; exact H | apply key_refl].
  - destruct (existsb (env_key_eqb e) seen) eqn:Ex.
    + destruct H as [[<-|H]|H]; [|apply IH; auto|apply IH; auto].
      apply existsb_exists in Ex as [s [Hs K]]. destruct (IH seen s (or_intror Hs)) as [h [Hh Kh]].
      exists h. split; auto. eapply key_trans; [exact Kh | apply key_sym; exact K].
    + destruct H as [[<-|H]|H]; apply IH; simpl; auto.
Qed.

Lemma nodup_env_sub X : forall l E, In E (nodup_env X l) -> In E l.
Proof. induction l as [|e l IH]; simpl; intros E H; auto.
  destruct (existsb _ _); [right; auto|]. destruct H as [<-|H]; auto. Qed.
Lemma nodup_env_sup X : forall l, (forall E E', In E l -> In E' l -> u_eidx X E = u_eidx X E' -> E = E') ->
  forall E, In E l -> In E (nodup_env X l).
Proof.
  induction l as [|e l IH]; intros Hinj E H; [destruct H|]. simpl.
  assert (IH' : forall E, In E l -> In E (nodup_env X l)) by (apply IH; intros; apply Hinj; simpl; auto).
  destruct (existsb (fun e' => N.eqb (u_eidx X e) (u_eidx X e')) (nodup_env X l)) eqn:Ex.
  - destruct H as [<-|H]; auto. apply existsb_exists in Ex as [e' [He' K]]. apply N.eqb_eq in K.
    assert (e = e') by (apply Hinj; simpl; auto; right; eapply nodup_env_sub; eauto). subst; auto.
  - destruct H as [<-|H]; [left; auto | right; auto].
Qed.

Section Part.
Variables (X : uix) (A : ta) (n NN : nat).
Hypothesis Hok : up_ok X A n.
Hypothesis HNN : forall E, In E (all_envs X A) -> (u_eidx X E < N.of_nat NN)%N.
Hypothesis HnNN : n < NN.
Let idx := u_idx X.
Let eidx := u_eidx X.
Let st := seqN n.
Let fin := filter (fun q => memN q (finals A)) st.
Let nonfin := filter (fun q => negb (memN q (finals A))) st.
Let two := match fin, nonfin with [], _ => false | _, [] => false | _, _ => true end.
Let base := if two then [fin; nonfin] else [st].
Let es := nodup_env X (all_envs X A).
Let heads := env_heads [] es.
Let EB := map (fun h => map eidx (filter (env_key_eqb h) es)) heads.
Let part := up_partition X n A.
Let brel := up_block_rel X n A.

Lemma part_eq : part = map (map idx) base ++ [[N.of_nat n]] ++ EB.
Proof. unfold part, up_partition, base, two, EB, heads, es, fin, nonfin, st, idx, eidx.
  destruct (filter (fun q => memN q (finals A)) (seqN n)); [reflexivity|].
  destruct (filter (fun q => negb (memN q (finals A))) (seqN n)); reflexivity. Qed.

Lemma brel_eq : brel = (if two then [(1%N, 0%N)] else []) ++ map (fun i => (i, i)) (seqN (length part)).
Proof. unfold brel, up_block_rel, two, part, fin, nonfin, st.
  destruct (filter (fun q => memN q (finals A)) (seqN n)); [reflexivity|].
  destruct (filter (fun q => negb (memN q (finals A))) (seqN n)); reflexivity. Qed.

Lemma brel_In i j : In (i, j) brel <-> (two = true /\ i = 1%N /\ j = 0%N) \/ (i = j /\ (i < N.of_nat (length part))%N).
Proof.
  rewrite brel_eq, in_app_iff, in_map_iff. split.
  - intros [H|[k [E Hk]]].
    + destruct two; [|destruct H]. destruct H as [H|[]]. inversion H. auto.
    + inversion E; subst. right. split; auto. apply seqN_In; auto.
  - intros [[-> [-> ->]]|[-> H]]; [left; simpl; auto | right]. exists j. split; auto. apply seqN_In; auto.
Qed.

Lemma es_In E : In E es <-> In E (all_envs X A).
Proof. unfold es. split; [apply nodup_env_sub | apply nodup_env_sup]. intros; apply (uk_einj _ _ _ Hok); auto. Qed.

Lemma fin_In q : In q fin <-> (q < N.of_nat n)%N /\ In q (finals A).
Proof. unfold fin, st. rewrite filter_In, seqN_In, memN_In. tauto. Qed.
Lemma nonfin_In q : In q nonfin <-> (q < N.of_nat n)%N /\ ~ In q (finals A).
Proof. unfold nonfin, st. rewrite filter_In, seqN_In, negb_true_iff. split; intros [H1 H2]; split; auto.
  - intros Hf. apply memN_In in Hf. congruence.
  - destruct (memN q (finals A)) eqn:E; auto. apply memN_In in E. tauto. Qed.

Lemma two_false_cases : two = false -> (forall q, (q < N.of_nat n)%N -> ~ In q (finals A)) \/ (forall q, (q < N.of_nat n)%N -> In q (finals A)).
Proof.
  unfold two. destruct fin as [|f fs] eqn:Ef.
  - intros _. left. intros q Hq Hf. assert (In q fin) by (apply fin_In; auto). rewrite Ef in H. destruct H.
  - destruct nonfin as [|g gs] eqn:Eg; [|discriminate]. intros _. right. intros q Hq.
    destruct (in_dec N.eq_dec q (finals A)); auto. assert (In q nonfin) by (apply nonfin_In; auto). rewrite Eg in H. destruct H.
Qed.

Lemma in_map_idx q l : (q < N.of_nat n)%N -> (forall x, In x l -> (x < N.of_nat n)%N) -> (In (idx q) (map idx l) <-> In q l).
Proof. intros Hq Hl. rewrite in_map_iff. split.
  - intros [x [E Hx]]. apply (uk_inj _ _ _ Hok) in E; auto. subst; auto.
  - intros H. exists q. auto. Qed.

(* block of a state node *)
Definition sblock (q : N) : N := if two then (if memN q (finals A) then 0%N else 1%N) else 0%N.
Lemma block_state q : (q < N.of_nat n)%N -> block_of part (idx q) = Some (sblock q).
Proof.
  intros Hq. unfold block_of, sblock. rewrite part_eq. unfold base. destruct two.
  - cbn [map app]. destruct (memN q (finals A)) eqn:Ef.
    + apply bof_hit. apply in_map_idx; auto; [intros x Hx; apply fin_In in Hx; tauto | apply fin_In; split; auto; apply memN_In; auto].
    + simpl. rewrite exb_notIn.
      * assert (In (idx q) (map idx nonfin)).
        { apply in_map_idx; auto; [intros x Hx; apply nonfin_In in Hx; tauto|]. apply nonfin_In. split; auto. intros Hf. apply memN_In in Hf. congruence. }
        apply exb_In in H. rewrite H. reflexivity.
      * rewrite in_map_idx; auto; [|intros x Hx; apply fin_In in Hx; tauto]. intros Hf. apply fin_In in Hf as [_ Hf]. apply memN_In in Hf. congruence.
  - cbn [map app]. apply bof_hit. apply in_map_idx; auto; unfold st; [intros x Hx; apply seqN_In; auto | apply seqN_In; auto].
Qed.

Lemma base_members b x : In b (map (map idx) base) -> In x b -> (x < N.of_nat n)%N.
Proof.
  intros Hb Hx. apply in_map_iff in Hb as [l [<- Hl]]. apply in_map_iff in Hx as [q [<- Hq]].
  apply (uk_lt _ _ _ Hok). unfold base in Hl. destruct two.
  - destruct Hl as [<-|[<-|[]]]; [apply fin_In in Hq | apply nonfin_In in Hq]; tauto.
  - destruct Hl as [<-|[]]. apply seqN_In; auto.
Qed.
Lemma base_len : length (map (map idx) base) = if two then 2 else 1.
Proof. unfold base. destruct two; reflexivity. Qed.

Lemma block_leaf : block_of part (N.of_nat n) = Some (N.of_nat (length (map (map idx) base))).
Proof.
  unfold block_of. rewrite part_eq, bof_skip.
  - cbn [app]. rewrite bof_hit; [f_equal | left; auto].
  - intros b Hb Hx. pose proof (base_members b _ Hb Hx). lia.
Qed.

Lemma EB_members b x : In b EB -> (In x b <-> exists h E, In h heads /\ b = map eidx (filter (env_key_eqb h) es) /\ In E es /\ env_key_eqb h E = true /\ x = eidx E).
Proof.
  intros Hb. apply in_map_iff in Hb as [h [<- Hh]]. rewrite in_map_iff. split.
  - intros [E [<- HE]]. apply filter_In in HE as [HE K]. exists h, E. auto.
  - intros [h' [E [_ [Eb [HE [K ->]]]]]]. exists E. split; auto.
    assert (In (eidx E) (map eidx (filter (env_key_eqb h') es))) by (apply in_map, filter_In; auto).
    rewrite <- Eb in H. apply in_map_iff in H as [E' [Ee HE']]. apply filter_In in HE' as [HE' K'].
    assert (E' = E) by (apply (uk_einj _ _ _ Hok); auto; apply es_In; auto). subst. apply filter_In; auto.
Qed.

Lemma EB_member_simple h E : In E es -> (In (eidx E) (map eidx (filter (env_key_eqb h) es)) <-> env_key_eqb h E = true).
Proof.
  intros HE. rewrite in_map_iff. split.
  - intros [E' [Ee HE']]. apply filter_In in HE' as [HE' K].
    assert (E' = E) by (apply (uk_einj _ _ _ Hok); auto; apply es_In; auto). subst; auto.
  - intros K. exists E. split; auto. apply filter_In; auto.
Qed.

(* block of an environment node *)
Lemma env_not_low E b : In E (all_envs X A) -> In b (map (map idx) base ++ [[N.of_nat n]]) -> ~ In (eidx E) b.
Proof.
  intros HE Hb Hx. pose proof (uk_erng _ _ _ Hok E HE). apply in_app_or in Hb as [Hb|[<-|[]]].
  - pose proof (base_members b _ Hb Hx). unfold eidx in *. lia.
  - destruct Hx as [Hx|[]]. unfold eidx in *. lia.
Qed.

Lemma block_env_eq E : In E (all_envs X A) ->
  block_of part (eidx E) = block_of_from (N.of_nat (length (map (map idx) base)) + 1) EB (eidx E).
Proof.
  intros HE. unfold block_of. rewrite part_eq, app_assoc, bof_skip by (intros b Hb; apply env_not_low; auto).
  f_equal. rewrite app_length. simpl. lia.
Qed.

Lemma block_env_some E : In E (all_envs X A) -> exists i, block_of part (eidx E) = Some i /\ (N.of_nat (length (map (map idx) base)) < i)%N.
Proof.
  intros HE. rewrite block_env_eq by auto.
  destruct (env_heads_complete es [] E (or_introl (proj2 (es_In E) HE))) as [h [Hh K]].
  destruct (block_of_from_some (N.of_nat (length (map (map idx) base)) + 1) EB (eidx E)) as [i Hi].
  - exists (map eidx (filter (env_key_eqb h) es)). split; [unfold EB; apply in_map_iff; exists h; auto|].
    apply EB_member_simple; auto. apply es_In; auto.
  - exists i. split; auto. apply block_of_from_lt in Hi. lia.
Qed.

Lemma block_env_same E E' : In E (all_envs X A) -> In E' (all_envs X A) ->
  (block_of part (eidx E) = block_of part (eidx E') <-> env_key_eqb E E' = true).
Proof.
  intros HE HE'. rewrite !block_env_eq by auto. split.
  - intros Heq. destruct (block_env_some E HE) as [i [Hi _]]. rewrite block_env_eq in Hi by auto.
    rewrite Hi in Heq. symmetry in Heq. destruct (bof_both _ _ _ _ _ Hi Heq) as [b [Hb [Hx Hy]]].
    unfold EB in Hb. apply in_map_iff in Hb as [h [<- Hh]].
    apply EB_member_simple in Hx; [|apply es_In; auto]. apply EB_member_simple in Hy; [|apply es_In; auto].
    eapply key_trans; [apply key_sym; exact Hx | exact Hy].
  - intros K. apply bof_same. intros b Hb. unfold EB in Hb. apply in_map_iff in Hb as [h [<- Hh]].
    rewrite !EB_member_simple by (apply es_In; auto). split; intros K'.
    + eapply key_trans; eauto.
    + eapply key_trans; [exact K' | apply key_sym; exact K].
Qed.

(* what the members of the partition are *)
Lemma part_members x i : block_of part x = Some i ->
  (exists q, (q < N.of_nat n)%N /\ x = idx q) \/ x = N.of_nat n \/ (exists E, In E (all_envs X A) /\ x = eidx E).
Proof.
  intros H. unfold block_of in H. apply bof_in in H as [b [Hb Hx]]. rewrite part_eq in Hb.
  apply in_app_or in Hb as [Hb|Hb]; [|apply in_app_or in Hb as [[<-|[]]|Hb]].
  - left. apply in_map_iff in Hb as [l [<- Hl]]. apply in_map_iff in Hx as [q [<- Hq]]. exists q. split; auto.
    unfold base in Hl. destruct two.
    + destruct Hl as [<-|[<-|[]]]; [apply fin_In in Hq | apply nonfin_In in Hq]; tauto.
    + destruct Hl as [<-|[]]. apply seqN_In; auto.
  - right; left. destruct Hx as [<-|[]]. auto.
  - right; right. apply (EB_members b x Hb) in Hx as [h [E [_ [_ [HE [_ ->]]]]]]. exists E. split; auto. apply es_In; auto.
Qed.

Lemma len_part : (N.of_nat (length (map (map idx) base)) < N.of_nat (length part))%N.
Proof. rewrite part_eq, !app_length. simpl. lia. Qed.

Theorem up_partition_induces x y :
  In (x, y) (init_rel NN part brel) <-> In (x, y) (up_node_init X n A).
Proof.
  rewrite init_rel_In, up_node_init_In. unfold init_relP. split.
  - intros [Hx [Hy [i [j [Hi [Hj Hb]]]]]]. apply brel_In in Hb.
    destruct (part_members x i Hi) as [[q [Hq ->]]|[->|[E [HE ->]]]];
    destruct (part_members y j Hj) as [[r [Hr ->]]|[->|[E' [HE' ->]]]].
    + (* state, state *)
      left. exists q, r. repeat split; auto. apply up_init_In. repeat split; auto.
      rewrite block_state in Hi, Hj by auto. inversion Hi; inversion Hj; subst i j. clear Hi Hj.
      unfold sblock in Hb. destruct two eqn:T.
      * intros Hf. apply memN_In in Hf. rewrite Hf in Hb. destruct (memN r (finals A)) eqn:Er; [apply memN_In; auto|].
        exfalso. destruct Hb as [[_ [H _]]|[H _]]; discriminate.
      * intros Hf. destruct (two_false_cases T) as [Hn|Ha]; [exfalso; apply (Hn q); auto | apply Ha; auto].
    + (* state, leaf *)
      exfalso. rewrite block_state in Hi by auto. rewrite block_leaf in Hj. inversion Hi; inversion Hj; subst i j.
      rewrite base_len in Hb. unfold sblock in Hb. destruct two; destruct (memN q (finals A)); simpl in Hb; destruct Hb as [[T' [H1 H2]]|[H _]]; try discriminate.
    + (* state, env *)
      exfalso. rewrite block_state in Hi by auto. destruct (block_env_some E' HE') as [k [Hk Hlt]]. rewrite Hk in Hj. inversion Hi; inversion Hj; subst i j.
      rewrite base_len in Hlt. unfold sblock in Hb. destruct two; destruct (memN q (finals A)); simpl in Hlt; destruct Hb as [[T' [H1 H2]]|[H _]]; subst; try discriminate; lia.
    + (* leaf, state *)
      exfalso. rewrite block_state in Hj by auto. rewrite block_leaf in Hi. inversion Hi; inversion Hj; subst i j.
      rewrite base_len in Hb. unfold sblock in Hb. destruct two; destruct (memN r (finals A)); simpl in Hb; destruct Hb as [[T' [H1 H2]]|[H _]]; try discriminate.
    + right; left. auto.
    + exfalso. rewrite block_leaf in Hi. destruct (block_env_some E' HE') as [k [Hk Hlt]]. rewrite Hk in Hj. inversion Hi; inversion Hj; subst i j.
      rewrite base_len in *. destruct two; simpl in *; destruct Hb as [[T' [H1 H2]]|[H _]]; subst; try discriminate; lia.
    + (* env, state *)
      exfalso. rewrite block_state in Hj by auto. destruct (block_env_some E HE) as [k [Hk Hlt]]. rewrite Hk in Hi. inversion Hi; inversion Hj; subst i j.
      rewrite base_len in Hlt. unfold sblock in Hb. destruct two; destruct (memN r (finals A)); simpl in Hlt; destruct Hb as [[T' [H1 H2]]|[H _]]; subst; try discriminate; lia.
    + exfalso. rewrite block_leaf in Hj. destruct (block_env_some E HE) as [k [Hk Hlt]]. rewrite Hk in Hi. inversion Hi; inversion Hj; subst i j.
      rewrite base_len in *. destruct two; simpl in *; destruct Hb as [[T' [H1 H2]]|[H _]]; subst; try discriminate; lia.
    + (* env, env *)
      right; right. exists E, E'. repeat split; auto. apply block_env_same; auto.
      destruct (block_env_some E HE) as [k [Hk Hlt]]. rewrite Hk in Hi. inversion Hi; subst k.
      destruct Hb as [[T [H1 H2]]|[H _]]; [|subst; congruence].
      exfalso. subst. rewrite base_len, T in Hlt. simpl in Hlt. lia.
  - intros [[q [r [HI [-> ->]]]]|[[-> ->]|[E [E' [HE [HE' [K [-> ->]]]]]]]].
    + apply up_init_In in HI as [Hq [Hr Hf]].
      pose proof (uk_lt _ _ _ Hok q Hq). pose proof (uk_lt _ _ _ Hok r Hr).
      split; [lia|]. split; [lia|]. exists (sblock q), (sblock r). repeat split; try apply block_state; auto.
      apply brel_In. pose proof len_part as LP. rewrite base_len in LP. unfold sblock. destruct two eqn:T.
      * destruct (memN q (finals A)) eqn:Eq.
        -- assert (memN r (finals A) = true) as -> by (apply memN_In, Hf, memN_In, Eq). right. split; auto. simpl in LP. lia.
        -- destruct (memN r (finals A)); [left; auto | right; split; auto; simpl in LP; lia].
      * right. split; auto. simpl in LP. lia.
    + split; [lia|]. split; [lia|]. exists (N.of_nat (length (map (map idx) base))), (N.of_nat (length (map (map idx) base))).
      repeat split; try apply block_leaf. apply brel_In. right. split; auto. apply len_part.
    + split; [apply HNN; auto|]. split; [apply HNN; auto|].
      destruct (block_env_some E HE) as [i [Hi Hlt]]. exists i, i. repeat split; auto.
      * rewrite <- Hi. symmetry. apply block_env_same; auto.
      * apply brel_In. right. split; auto. unfold block_of in Hi. apply block_of_from_lt in Hi. lia.
Qed.
End Part.

(* the greatest simulation inside an initial relation depends on that relation as a set only *)
Lemma lts_sim_from_ext L R0 R0' : (forall x y, In (x, y) R0 <-> In (x, y) R0') ->
  forall x y, In (x, y) (lts_sim_from L R0) <-> In (x, y) (lts_sim_from L R0').
Proof.
  intros Hext. destruct (lts_sim_from_greatest L R0) as [[H1 H2] H3]. destruct (lts_sim_from_greatest L R0') as [[H1' H2'] H3'].
  intros x y. split; intros H.
  - apply (H3' (rel_of (lts_sim_from L R0))); auto. split; auto. intros a b Hab. apply Hext, H1, Hab.
  - apply (H3 (rel_of (lts_sim_from L R0'))); auto. split; auto. intros a b Hab. apply Hext, H1', Hab.
Qed.

(* TranslateUpward is correct: the greatest simulation of the encoded LTS inside the initial relation given by the
   partition and block relation it builds, read back through the state index, is the greatest upward simulation *)
Theorem encode_up_correct X A n NN : states_below A n -> up_ok X A n ->
  (forall E, In E (all_envs X A) -> (u_eidx X E < N.of_nat NN)%N) -> n < NN ->
  forall q r, (q < N.of_nat n)%N -> (r < N.of_nat n)%N ->
    (In (q, r) (up_sim A n) <->
     In (u_idx X q, u_idx X r) (lts_sim (translate_up X n A) NN (up_partition X n A) (up_block_rel X n A))).
Proof.
  intros Hb Hok HNN HnNN q r Hq Hr. rewrite (encode_up_correct_partial X A n Hb Hok q r Hq Hr).
  unfold up_lts_sim, lts_sim. apply lts_sim_from_ext. intros x y. symmetry. apply up_partition_induces; auto.
Qed.

Example ex_up_partition : up_partition (canon_uix ex_ta 4) 4 ex_ta = [[2; 3]; [0; 1]; [4]; [5; 7]; [6]; [8]]%N /\
                          up_block_rel (canon_uix ex_ta 4) 4 ex_ta = [(1, 0); (0, 0); (1, 1); (2, 2); (3, 3); (4, 4); (5, 5)]%N.
Proof. vm_compute. auto. Qed.

(* D3 (fixed in /repo by 0f312bed): the historical encoding, which translated the parent of an environment twice, is
   wrong for an index that is not the identity.  Witness: the shrunk trigger of the correspondence check, a trimmed
   2-state automaton visited in the order 1, 0. *)
Definition d3_A : ta := {| rules := [ {| sym := 0; ch := []; par := 0 |}; {| sym := 3; ch := [0; 1]; par := 0 |};
                                      {| sym := 3; ch := [0; 0]; par := 1 |} ]%N; finals := [0%N] |}.
Definition d3_X : uix := mk_uix (perm_fun [1; 0]%N) d3_A 2.
Theorem encode_up_old_refuted :
  exists X A n, states_below A n /\ trimmed_ok A = true /\ up_ok X A n /\
    exists q r, (q < N.of_nat n)%N /\ (r < N.of_nat n)%N /\
      In (u_idx X q, u_idx X r) (up_lts_sim_old X n A) /\ ~ In (q, r) (up_sim A n) /\
      (In (u_idx X q, u_idx X r) (up_lts_sim X n A) <-> In (q, r) (up_sim A n)).
Proof.
  exists d3_X, d3_A, 2.
  assert (Hb : states_below d3_A 2) by (apply dense_ok_below; vm_compute; reflexivity).
  assert (Hok : up_ok d3_X d3_A 2) by (apply up_ok_b_sound; vm_compute; reflexivity).
  split; [exact Hb|]. split; [vm_compute; reflexivity|]. split; [exact Hok|].
  exists 1%N, 0%N. split; [reflexivity|]. split; [reflexivity|]. split; [|split].
  - apply memP_In. vm_compute. reflexivity.
  - intros H. apply memP_In in H. vm_compute in H. discriminate.
  - symmetry. apply encode_up_correct_partial; auto; reflexivity.
Qed.
