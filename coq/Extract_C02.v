Require Extraction.
Require Import ExtrOcamlBasic.
From V Require Import Sem Prod Incl TrimDefs Lang ProductDefs BinopDefs.
Extraction "ex_c02.ml" union_gate isect_gate names_union names_isect union_model isect_td_model isect_bu_model ta_app
  valid_unionb disjointb ta_same is_empty incl_dec assoc sentinel bound.
