(* C01 (A) increment — upward inclusion WITH a simulation preorder (src/explicit_tree_incl_up.cc called with a relation): the relation
   is used (i) to keep macro-states small — a state is not added to a macro-state that already holds a state above it, and states below
   a new one are removed (`post.contains(ind.at(s))`, `post.refine(inv.at(s))`) — and (ii) to compare macro-states when a popped pair is
   tested against the processed ones (`lte`: every state of the stored macro-state is below some state of the new one). Modelled here:
   (i) and (ii) for pairs with the same state of the smaller automaton; the two further prunings that compare states of the SMALLER
   automaton through the relation on the union automaton (`checkIntersection(ind.at(q), P)` and q <= q' in `contains`) are not modelled.
   Hypothesis on the relation (what an upward simulation induced by the identity gives, and what the identity relation satisfies):
   reflexive, transitive, final states are upward closed, and a rule can be replayed with one child replaced by a larger one, reaching a
   larger parent. Theorem: a run that ends returns the decider's verdict, for every fuel. *)
From Coq Require Import List NArith Bool Arith Lia.
Import ListNotations.
From V Require Import Fix Sem Prod Incl TrimDefs TrimProofs AntichainUp AntichainUpW.

Section UpSim.
Variable le : N -> N -> bool.

(* macro-states kept minimal: maximal elements only, one representative of equivalent states *)
Definition ins_min (M : list N) (p : N) : list N :=
  if existsb (fun m => le p m) M then M else p :: filter (fun m => negb (le m p)) M.
Definition minimize (S : list N) : list N := fold_left ins_min S [].
Definition mstep_min (A B : ta) (R : list mp) : list mp :=
  flat_map (fun r => map (fun Ss => (par r, minimize (postB B (sym r) Ss))) (choices R (ch r))) (rules A).

(* X below Y: every state of X is below some state of Y *)
Definition belowb (X Y : list N) : bool := forallb (fun x => existsb (fun y => le x y) Y) X.
Definition subsumes_le (x y : mp) : bool := N.eqb (fst x) (fst y) && belowb (snd x) (snd y).
Definition covered_le (R : list mp) (y : mp) : bool := existsb (fun x => subsumes_le x y) R.

Fixpoint upws (A B : ta) (fuel : nat) (P W : list mp) : option bool :=
  match fuel with
  | 0 => None
  | S f =>
      match W with
      | [] => Some true
      | x :: W' =>
          if covered_le P x then upws A B f P W'
          else if negb (pair_ok A B x) then Some false
          else let Pf := filter (fun y => negb (subsumes_le x y)) P in
               let P' := x :: Pf in
               let nw := filter (fun y => negb (memMP y (mstep_min A B Pf))) (mstep_min A B P') in
               upws A B f P' (W' ++ nw)
      end
  end.
Definition up_worklist_sim (A B : ta) (fuel : nat) : option bool := upws A B fuel [] (mstep_min A B []).

(* the hypothesis, decidable on a given automaton *)
Fixpoint replace_at (cs : list N) (i : nat) (c : N) : list N :=
  match cs, i with [] , _ => [] | _ :: t, 0 => c :: t | y :: t, S j => y :: replace_at t j c end.
Definition upsim_b (B : ta) : bool :=
  let Q := QB B in
  forallb (fun p => le p p) Q &&
  forallb (fun p => forallb (fun q => forallb (fun r => implb (le p q && le q r) (le p r)) Q) Q) Q &&
  forallb (fun p => forallb (fun q => implb (le p q && memN p (finals B)) (memN q (finals B))) Q) Q &&
  forallb (fun r => forallb (fun i => forallb (fun c' =>
      implb (le (nth i (ch r) 0%N) c')
            (existsb (fun r' => N.eqb (sym r') (sym r) && (if list_eq_dec N.eq_dec (ch r') (replace_at (ch r) i c') then true else false) && le (par r) (par r')) (rules B)))
    Q) (seq 0 (length (ch r)))) (rules B).

(* ---------- proofs ---------- *)
Variable B : ta.
Definition inB (q : N) : Prop := In q (states B).
Definition allB (X : list N) : Prop := forall x, In x X -> inB x.
Definition below (X Y : list N) : Prop := forall x, In x X -> exists y, In y Y /\ le x y = true.

Definition UpSim : Prop :=
  (forall p, inB p -> le p p = true) /\
  (forall p q r, inB p -> inB q -> inB r -> le p q = true -> le q r = true -> le p r = true) /\
  (forall p q, inB p -> inB q -> le p q = true -> In p (finals B) -> In q (finals B)) /\
  (forall r pre c suf c', In r (rules B) -> ch r = pre ++ c :: suf -> inB c' -> le c c' = true ->
     exists r', In r' (rules B) /\ sym r' = sym r /\ ch r' = pre ++ c' :: suf /\ le (par r) (par r') = true).
Hypothesis HU : UpSim.

Lemma belowb_spec X Y : belowb X Y = true <-> below X Y.
Proof.
  unfold belowb, below. rewrite forallb_forall. split; intros H x Hx; specialize (H x Hx).
  - apply existsb_exists in H. exact H.
  - apply existsb_exists. exact H.
Qed.
Lemma subsumes_le_spec x y : subsumes_le x y = true <-> fst x = fst y /\ below (snd x) (snd y).
Proof. unfold subsumes_le. rewrite andb_true_iff, N.eqb_eq, belowb_spec. tauto. Qed.
Lemma covered_le_spec R y : covered_le R y = true <-> exists x, In x R /\ fst x = fst y /\ below (snd x) (snd y).
Proof. unfold covered_le. rewrite existsb_exists. split; intros [x [Hx H]]; exists x; split; auto; apply subsumes_le_spec; auto. Qed.

Lemma below_refl X : allB X -> below X X.
Proof. destruct HU as [R _]. intros H x Hx. exists x. split; auto. Qed.
Lemma below_incl X Y : allB X -> incl X Y -> below X Y.
Proof. destruct HU as [R _]. intros H I x Hx. exists x. split; auto. Qed.
Lemma below_trans X Y Z : allB X -> allB Y -> allB Z -> below X Y -> below Y Z -> below X Z.
Proof.
  destruct HU as [_ [T _]]. intros HX HY HZ H1 H2 x Hx. destruct (H1 x Hx) as [y [Hy L1]]. destruct (H2 y Hy) as [z [Hz L2]].
  exists z. split; auto. apply (T x y z); auto.
Qed.

(* minimisation keeps a subset that still covers everything *)
Lemma ins_min_sub M p : incl (ins_min M p) (p :: M).
Proof.
  unfold ins_min. destruct (existsb _ M); intros x Hx; [right; auto|]. destruct Hx as [<-|Hx]; [left; auto|].
  apply filter_In in Hx. right. tauto.
Qed.
Lemma ins_min_cover M p : allB M -> inB p -> forall s, In s (p :: M) -> exists m, In m (ins_min M p) /\ le s m = true.
Proof.
  destruct HU as [R _]. intros HM Hp s Hs. unfold ins_min. destruct (existsb (fun m => le p m) M) eqn:E.
  - apply existsb_exists in E as [m0 [Hm0 L]]. destruct Hs as [<-|Hs]; [exists m0; auto | exists s; split; auto].
  - destruct Hs as [<-|Hs]; [exists p; split; [left; auto | auto]|].
    destruct (le s p) eqn:Es; [exists p; split; [left; auto | auto]|].
    exists s. split; [|auto]. right. apply filter_In. split; auto. rewrite Es. reflexivity.
Qed.
Lemma fold_min_sub : forall l M, incl (fold_left ins_min l M) (M ++ l).
Proof.
  induction l as [|p l IH]; intros M; simpl; [rewrite app_nil_r; apply incl_refl|].
  intros x Hx. apply IH in Hx. apply in_app_iff in Hx as [Hx|Hx].
  - apply ins_min_sub in Hx. destruct Hx as [<-|Hx]; apply in_app_iff; [right; left; auto | left; auto].
  - apply in_app_iff. right. right. auto.
Qed.
Lemma fold_min_cover : forall l M, allB M -> allB l -> forall s, In s (M ++ l) -> exists m, In m (fold_left ins_min l M) /\ le s m = true.
Proof.
  destruct HU as [R [T _]].
  induction l as [|p l IH]; intros M HM Hl s Hs; simpl.
  - rewrite app_nil_r in Hs. exists s. split; auto.
  - assert (Hp : inB p) by (apply Hl; left; auto).
    assert (HM' : allB (ins_min M p)).
    { intros x Hx. apply ins_min_sub in Hx. destruct Hx as [<-|Hx]; auto. }
    assert (Hl' : allB l) by (intros x Hx; apply Hl; right; auto).
    apply in_app_iff in Hs as [Hs|[<-|Hs]].
    + destruct (ins_min_cover M p HM Hp s (or_intror Hs)) as [m1 [Hm1 L1]].
      destruct (IH (ins_min M p) HM' Hl' m1) as [m [Hm L2]]; [apply in_app_iff; auto|].
      exists m. split; auto. apply (T s m1 m); auto.
      assert (X : incl (fold_left ins_min l (ins_min M p)) (ins_min M p ++ l)) by apply fold_min_sub.
      apply X in Hm. apply in_app_iff in Hm as [Hm|Hm]; auto.
    + destruct (ins_min_cover M p HM Hp p (or_introl eq_refl)) as [m1 [Hm1 L1]].
      destruct (IH (ins_min M p) HM' Hl' m1) as [m [Hm L2]]; [apply in_app_iff; auto|].
      exists m. split; auto. apply (T p m1 m); auto.
      assert (X : incl (fold_left ins_min l (ins_min M p)) (ins_min M p ++ l)) by apply fold_min_sub.
      apply X in Hm. apply in_app_iff in Hm as [Hm|Hm]; auto.
    + apply (IH (ins_min M p) HM' Hl' s). apply in_app_iff; auto.
Qed.
Lemma minimize_sub S : incl (minimize S) S.
Proof. unfold minimize. intros x Hx. apply fold_min_sub in Hx. exact Hx. Qed.
Lemma minimize_cover S : allB S -> below S (minimize S).
Proof. intros H s Hs. apply (fold_min_cover S [] (fun x (F : In x []) => match F with end) H s). exact Hs. Qed.

(* post *)
Lemma matches_F2 : forall qs Ss, matches qs Ss = true <-> Forall2 (fun q S => In q S) qs Ss.
Proof.
  induction qs as [|q qs IH]; intros [|S Ss]; simpl.
  - split; intros; [constructor | reflexivity].
  - split; intros H; [discriminate | inversion H].
  - split; intros H; [discriminate | inversion H].
  - rewrite andb_true_iff, memN_In, IH. split; [intros [H1 H2]; constructor; auto | intros H; inversion H; subst; auto].
Qed.
Lemma postB_in f Ss p : In p (postB B f Ss) <-> inB p /\ exists r, In r (rules B) /\ sym r = f /\ par r = p /\ Forall2 (fun c S => In c S) (ch r) Ss.
Proof.
  unfold postB, fires, inB. rewrite filter_In, QB_in, existsb_exists. split.
  - intros [Hq [r [Hr H]]]. split; auto. apply andb_true_iff in H as [H H3]. apply andb_true_iff in H as [H1 H2].
    exists r. rewrite N.eqb_eq in H1, H3. repeat split; auto. apply matches_F2; auto.
  - intros [Hq [r [Hr [E1 [E2 F]]]]]. split; auto. exists r. split; auto. rewrite E1, E2, !N.eqb_refl. apply matches_F2 in F. rewrite F. reflexivity.
Qed.
Lemma postB_allB f Ss : allB (postB B f Ss).
Proof. intros x Hx. apply postB_in in Hx. tauto. Qed.

Lemma par_inB r : In r (rules B) -> inB (par r).
Proof. intros H. apply (proj1 (rule_states B r H)). Qed.

Lemma replay_all : forall suf suf', Forall2 (fun c c' => le c c' = true /\ inB c') suf suf' ->
  forall pre r, In r (rules B) -> ch r = pre ++ suf ->
  exists r', In r' (rules B) /\ sym r' = sym r /\ ch r' = pre ++ suf' /\ le (par r) (par r') = true.
Proof.
  destruct HU as [R [T [_ U]]].
  induction 1 as [|c c' t t' [L Hc'] F IH]; intros pre r Hr E.
  - exists r. split; [exact Hr|]. split; [reflexivity|]. split; [exact E|]. apply R. apply par_inB; auto.
  - destruct (U r pre c t c' Hr E Hc' L) as [r1 [Hr1 [S1 [C1 L1]]]].
    destruct (IH (pre ++ [c']) r1 Hr1) as [r' [Hr' [S' [C' L']]]]; [rewrite <- app_assoc; exact C1|].
    exists r'. split; auto. split; [congruence|]. split; [rewrite <- app_assoc in C'; exact C'|].
    apply (T (par r) (par r1) (par r')); auto; apply par_inB; auto.
Qed.

Lemma postB_below f : forall Ss Ms, Forall2 (fun S M => below S M /\ allB M) Ss Ms -> below (postB B f Ss) (postB B f Ms).
Proof.
  intros Ss Ms F s Hs. apply postB_in in Hs as [_ [r [Hr [E1 [E2 FI]]]]].
  assert (X : exists ms, Forall2 (fun c m => le c m = true /\ inB m) (ch r) ms /\ Forall2 (fun m M => In m M) ms Ms).
  { clear Hr E1 E2. revert Ms F. induction FI as [|c S cs Ss' Hc FI IH]; intros Ms F; inversion F as [|? M ? Ms' [HB HA] F']; subst.
    - exists []. split; constructor.
    - destruct (HB c Hc) as [m [Hm L]]. destruct (IH Ms' F') as [ms [F1 F2]]. exists (m :: ms). split; constructor; auto. }
  destruct X as [ms [F1 F2]].
  destruct (replay_all (ch r) ms F1 [] r Hr eq_refl) as [r' [Hr' [S' [C' L']]]]. simpl in C'.
  exists (par r'). split; [|rewrite <- E2; exact L'].
  apply postB_in. split; [apply par_inB; auto|]. exists r'. repeat split; auto; [congruence | rewrite C'; exact F2].
Qed.

Lemma pair_ok_below A q X Y : allB X -> allB Y -> below X Y -> pair_ok A B (q, X) = true -> pair_ok A B (q, Y) = true.
Proof.
  destruct HU as [_ [_ [Fi _]]]. intros HX HY HB H. unfold pair_ok in *. simpl in *. destruct (memN q (finals A)); simpl in *; auto.
  apply existsb_exists in H as [p [Hp Hf]]. destruct (HB p Hp) as [y [Hy L]]. apply existsb_exists. exists y. split; auto.
  apply memN_In. apply (Fi p y); auto. apply memN_In; auto.
Qed.

Lemma mstep_min_in A R y : In y (mstep_min A B R) <->
  exists r Ss, In r (rules A) /\ Forall2 (fun q S => In (q, S) R) (ch r) Ss /\ y = (par r, minimize (postB B (sym r) Ss)).
Proof. unfold mstep_min. rewrite in_flat_map. split.
  - intros [r [Hr H]]. apply in_map_iff in H as [Ss [<- H]]. exists r, Ss. split; auto. split; auto. apply choices_in; auto.
  - intros [r [Ss [Hr [H ->]]]]. exists r. split; auto. apply in_map_iff. exists Ss. split; auto. apply choices_in; auto. Qed.
Lemma mstep_min_mono A S T : incl S T -> incl (mstep_min A B S) (mstep_min A B T).
Proof.
  intros I y Hy. apply mstep_min_in in Hy as [r [Ss [Hr [F ->]]]]. apply mstep_min_in. exists r, Ss. split; auto. split; auto.
  eapply Forall2_impl'; [|exact F]. intros; auto.
Qed.

Lemma der_allB A x : Der mp (mstep A B) x -> allB (snd x).
Proof. intros H. destruct H as [S x _ Hx]. apply mstep_in in Hx as [r [Ss [_ [_ ->]]]]. simpl. apply postB_allB. Qed.
Lemma minimize_allB S : allB S -> allB (minimize S).
Proof. intros H x Hx. apply H. apply minimize_sub; auto. Qed.

(* a set closed under the minimised step, up to `below`, covers every reachable macro pair *)
Lemma closed_complete_sim A (P : list mp) :
  (forall z, In z P -> allB (snd z)) ->
  (forall y, In y (mstep_min A B P) -> exists z, In z P /\ fst z = fst y /\ below (snd z) (snd y)) ->
  forall x, Der mp (mstep A B) x -> exists z, In z P /\ fst z = fst x /\ below (snd z) (snd x).
Proof.
  intros HP HC. induction 1 as [S x HD IH Hx]. apply mstep_in in Hx as [r [Ss [Hr [F ->]]]].
  assert (X : exists Ms, Forall2 (fun q M => In (q, M) P) (ch r) Ms /\ Forall2 (fun M S0 => below M S0 /\ allB S0) Ms Ss).
  { clear Hr. induction F as [|c S0 cs Ss0 H F IH2].
    - exists []. split; constructor.
    - destruct (IH (c, S0) H) as [[c' M] [Hz [E Hb]]]. simpl in E, Hb. subst c'.
      destruct IH2 as [Ms [F1 F2]]. exists (M :: Ms). split; constructor; auto. split; auto. apply (der_allB A (c, S0)). apply HD; auto. }
  destruct X as [Ms [F1 F2]].
  destruct (HC (par r, minimize (postB B (sym r) Ms))) as [z [Hz [E Hb]]].
  { apply mstep_min_in. exists r, Ms. auto. }
  exists z. split; auto. split; auto. simpl in *.
  apply (below_trans _ (minimize (postB B (sym r) Ms)) _); auto; [apply minimize_allB, postB_allB | apply postB_allB|].
  apply (below_trans _ (postB B (sym r) Ms) _); try apply postB_allB; [apply minimize_allB, postB_allB | apply below_incl; [apply minimize_allB, postB_allB | apply minimize_sub] |].
  apply postB_below. exact F2.
Qed.

Variable A : ta.
Definition equivB (X Y : list N) : Prop := below X Y /\ below Y X.
Definition WInvS (P W : list mp) : Prop :=
  (forall y, In y (P ++ W) -> allB (snd y) /\ exists x0, Der mp (mstep A B) x0 /\ fst x0 = fst y /\ equivB (snd y) (snd x0)) /\
  (forall y, In y (mstep_min A B P) -> exists z, In z (P ++ W) /\ fst z = fst y /\ below (snd z) (snd y)) /\
  (forall y, In y P -> pair_ok A B y = true).

(* every consequence of pairs that have reachable witnesses has one, too *)
Lemma mstep_min_witness (R : list mp) :
  (forall y, In y R -> allB (snd y) /\ exists x0, Der mp (mstep A B) x0 /\ fst x0 = fst y /\ equivB (snd y) (snd x0)) ->
  forall y, In y (mstep_min A B R) -> allB (snd y) /\ exists x0, Der mp (mstep A B) x0 /\ fst x0 = fst y /\ equivB (snd y) (snd x0).
Proof.
  intros HR y Hy. apply mstep_min_in in Hy as [r [Ms [Hr [F ->]]]]. simpl. split; [apply minimize_allB, postB_allB|].
  assert (X : exists Ss, Forall2 (fun q S => Der mp (mstep A B) (q, S)) (ch r) Ss /\
                         Forall2 (fun M S => below M S /\ allB S) Ms Ss /\ Forall2 (fun S M => below S M /\ allB M) Ss Ms).
  { clear Hr. induction F as [|c M cs Ms' H F IH].
    - exists []. repeat split; constructor.
    - destruct (HR (c, M) H) as [HA [[c0 S0] [HD [E [B1 B2]]]]]. simpl in *. subst c0.
      destruct IH as [Ss [F1 [F2 F3]]]. exists (S0 :: Ss). repeat split; constructor; auto.
      split; auto. apply (der_allB A (c, S0)); auto. }
  destruct X as [Ss [F1 [F2 F3]]].
  exists (par r, postB B (sym r) Ss). split; [|split; [reflexivity|]].
  - apply (der mp (mstep A B) (combine (ch r) Ss)).
    + intros [q S] Hin. clear - F1 Hin. induction F1 as [|c S0 cs Ss0 H F IH]; simpl in Hin; [destruct Hin|].
      destruct Hin as [E|Hin]; [inversion E; subst; auto | auto].
    + apply mstep_in. exists r, Ss. split; auto. split; auto.
      clear - F1. induction F1 as [|c S0 cs Ss0 H F IH]; constructor; simpl; auto.
      eapply Forall2_impl'; [|exact IH]. intros; right; auto.
  - simpl. split.
    + apply (below_trans _ (postB B (sym r) Ms) _); try apply postB_allB; [apply minimize_allB, postB_allB | apply below_incl; [apply minimize_allB, postB_allB | apply minimize_sub] |].
      apply postB_below. exact F2.
    + apply (below_trans _ (postB B (sym r) Ms) _); try apply postB_allB; [apply minimize_allB, postB_allB | | apply minimize_cover, postB_allB].
      apply postB_below. exact F3.
Qed.

Lemma winvs_init : WInvS [] (mstep_min A B []).
Proof.
  split; [|split].
  - intros y Hy. simpl in Hy. apply (mstep_min_witness []); auto. intros z [].
  - intros y Hy. exists y. split; [simpl; auto|]. split; auto. apply below_refl.
    apply (mstep_min_witness [] (fun z (F : In z []) => match F with end) y Hy).
  - intros y [].
Qed.

Theorem upws_correct : forall fuel P W b, WInvS P W -> upws A B fuel P W = Some b -> b = incl_dec A B.
Proof.
  induction fuel as [|f IH]; intros P W b HI H; simpl in H; [discriminate|].
  destruct HI as [HS [HC HK]].
  assert (HSP : forall z, In z P -> allB (snd z)) by (intros z Hz; apply HS, in_app_iff; auto).
  destruct W as [|x W'].
  - inversion H; subst. symmetry. unfold incl_dec. fold (pair_ok A B). apply forallb_forall. intros y Hy.
    apply der_iff_reach in Hy.
    destruct (closed_complete_sim A P HSP) with (x := y) as [z [Hz [E Hb]]]; auto.
    { intros y' Hy'. destruct (HC y' Hy') as [z [Hz Hs]]. rewrite app_nil_r in Hz. eauto. }
    destruct y as [q Y], z as [q' Z]. simpl in *. subst q'.
    apply (pair_ok_below A q Z Y); [apply (HSP (q, Z) Hz) | apply (der_allB A (q, Y) Hy) | exact Hb | apply (HK (q, Z) Hz)].
  - assert (Hx : allB (snd x)) by (apply HS, in_app_iff; right; left; auto).
    destruct (covered_le P x) eqn:Ecov.
    + apply (IH P W' b); auto. apply covered_le_spec in Ecov as [p [Hp [Ep Hpx]]]. split; [|split]; auto.
      * intros y Hy. apply HS. apply in_app_iff in Hy as [Hy|Hy]; apply in_app_iff; [left | right; right]; auto.
      * intros y Hy. destruct (HC y Hy) as [z [Hz [Ez Hs]]]. apply in_app_iff in Hz as [Hz|[Hz|Hz]].
        -- exists z. split; [apply in_app_iff; auto | auto].
        -- subst z. exists p. split; [apply in_app_iff; auto|]. split; [congruence|].
           apply (below_trans _ (snd x) _); auto.
           apply (mstep_min_witness P (fun z Hz => HS z (proj2 (in_app_iff P (x :: W') z) (or_introl Hz))) y Hy).
        -- exists z. split; [apply in_app_iff; auto | auto].
    + destruct (pair_ok A B x) eqn:Eok; simpl in H.
      * set (Pf := filter (fun y => negb (subsumes_le x y)) P) in *.
        set (nw := filter (fun y => negb (memMP y (mstep_min A B Pf))) (mstep_min A B (x :: Pf))) in *.
        assert (HPf : incl Pf P) by (intros y Hy; apply filter_In in Hy; tauto).
        assert (SP' : forall y, In y (x :: Pf) -> allB (snd y) /\ exists x0, Der mp (mstep A B) x0 /\ fst x0 = fst y /\ equivB (snd y) (snd x0)).
        { intros y [<-|Hy]; apply HS, in_app_iff; [right; left; auto | left; auto]. }
        apply (IH (x :: Pf) (W' ++ nw) b); auto. split; [|split].
        -- intros y Hy. change (In y (x :: Pf ++ W' ++ nw)) in Hy. destruct Hy as [<-|Hy]; [apply SP'; left; auto|].
           apply in_app_iff in Hy as [Hy|Hy]; [apply SP'; right; auto|].
           apply in_app_iff in Hy as [Hy|Hy]; [apply HS, in_app_iff; right; right; auto|].
           apply filter_In in Hy as [Hy _]. apply (mstep_min_witness (x :: Pf) SP' y Hy).
        -- intros y Hy. destruct (memMP y (mstep_min A B Pf)) eqn:Em.
           ++ apply memMP_In in Em. apply (mstep_min_mono A Pf P HPf) in Em.
              assert (Hy' : allB (snd y)).
              { apply (mstep_min_witness P (fun z Hz => HS z (proj2 (in_app_iff P (x :: W') z) (or_introl Hz))) y Em). }
              destruct (HC y Em) as [z [Hz [Ez Hs]]]. apply in_app_iff in Hz as [Hz|[Hz|Hz]].
              ** destruct (subsumes_le x z) eqn:Exz.
                 --- exists x. split; [left; auto|]. apply subsumes_le_spec in Exz as [E1 E2]. split; [congruence|].
                     apply (below_trans _ (snd z) _); auto.
                 --- exists z. split; auto. right. apply in_app_iff. left. apply filter_In. split; auto. rewrite Exz. auto.
              ** subst z. exists x. split; auto. left; auto.
              ** exists z. split; auto. right. apply in_app_iff. right. apply in_app_iff. left. auto.
           ++ exists y. split; [|split; auto; apply below_refl; apply (mstep_min_witness (x :: Pf) SP' y Hy)].
              right. apply in_app_iff. right. apply in_app_iff. right. apply filter_In. split; auto. rewrite Em. auto.
        -- intros y [<-|Hy]; auto.
      * inversion H; subst. symmetry. unfold incl_dec. fold (pair_ok A B).
        destruct (forallb (pair_ok A B) (macro_reach A B)) eqn:E; auto. exfalso.
        rewrite forallb_forall in E.
        destruct (HS x) as [_ [x0 [HD [E0 [B1 B2]]]]]; [apply in_app_iff; right; left; auto|].
        assert (X : pair_ok A B x0 = true) by (apply E, der_iff_reach; auto).
        destruct x as [q X1], x0 as [q0 X0]. simpl in *. subst q0.
        rewrite (pair_ok_below A q X0 X1) in Eok; auto; [discriminate | apply (der_allB A (q, X0) HD)].
Qed.

Theorem up_worklist_sim_refines fuel b : up_worklist_sim A B fuel = Some b -> b = incl_dec A B.
Proof. apply upws_correct, winvs_init. Qed.
End UpSim.

(* the identity relation satisfies the hypothesis on every automaton: the theorem specialises to the plain algorithm *)
Lemma upsim_identity B : UpSim N.eqb B.
Proof.
  split; [|split; [|split]].
  - intros p _. apply N.eqb_refl.
  - intros p q r _ _ _ H1 H2. apply N.eqb_eq in H1, H2. subst. apply N.eqb_refl.
  - intros p q _ _ H. apply N.eqb_eq in H. subst. auto.
  - intros r pre c suf c' Hr E _ H. apply N.eqb_eq in H. subst c'. exists r. repeat split; auto. apply N.eqb_refl.
Qed.
Theorem up_worklist_sim_identity A B fuel b : up_worklist_sim N.eqb A B fuel = Some b -> b = incl_dec A B.
Proof. apply up_worklist_sim_refines, upsim_identity. Qed.
Theorem up_worklist_sim_exact le A B fuel b : UpSim le B -> up_worklist_sim le A B fuel = Some b -> (b = true <-> lincl A B).
Proof. intros HU H. rewrite (up_worklist_sim_refines le B HU A fuel b H). apply incl_dec_spec. Qed.

(* the hypothesis can be decided on a given automaton and relation *)
Lemma replace_at_middle (pre : list N) c suf c' : replace_at (pre ++ c :: suf) (length pre) c' = pre ++ c' :: suf.
Proof. induction pre as [|x pre IH]; simpl; auto. rewrite IH. reflexivity. Qed.
Lemma upsim_b_sound le B : upsim_b le B = true -> UpSim le B.
Proof.
  unfold upsim_b. rewrite !andb_true_iff. intros [[[HR HT] HF] HU].
  rewrite forallb_forall in HR, HT, HF, HU. unfold UpSim, inB.
  split; [|split; [|split]].
  - intros p Hp. apply HR. apply QB_in; auto.
  - intros p q r Hp Hq Hr L1 L2. specialize (HT p (proj2 (QB_in B p) Hp)). rewrite forallb_forall in HT.
    specialize (HT q (proj2 (QB_in B q) Hq)). rewrite forallb_forall in HT. specialize (HT r (proj2 (QB_in B r) Hr)).
    rewrite L1, L2 in HT. exact HT.
  - intros p q Hp Hq L Hf. specialize (HF p (proj2 (QB_in B p) Hp)). rewrite forallb_forall in HF.
    specialize (HF q (proj2 (QB_in B q) Hq)). rewrite L in HF. apply memN_In in Hf. rewrite Hf in HF. simpl in HF. apply memN_In; auto.
  - intros r pre c suf c' Hr E Hc' L. specialize (HU r Hr). rewrite forallb_forall in HU.
    assert (Hi : In (length pre) (seq 0 (length (ch r)))).
    { apply in_seq. rewrite E, app_length. simpl. lia. }
    specialize (HU _ Hi). rewrite forallb_forall in HU. specialize (HU c' (proj2 (QB_in B c') Hc')).
    rewrite E in HU at 1. rewrite nth_middle, L in HU. simpl in HU.
    apply existsb_exists in HU as [r' [Hr' H]]. apply andb_true_iff in H as [H H3]. apply andb_true_iff in H as [H1 H2].
    exists r'. split; auto. split; [apply N.eqb_eq; auto|]. split; auto.
    destruct (list_eq_dec N.eq_dec (ch r') (replace_at (ch r) (length pre) c')) as [Eq|]; [|discriminate].
    rewrite Eq, E. apply replace_at_middle.
Qed.

(* non-vacuity: a relation that is not the identity satisfies the hypothesis, and the run uses it *)
Definition us_le (p q : N) : bool := N.eqb p q || (N.eqb p 1 && N.eqb q 2).
Definition us_B : ta := {| rules := [ {| sym := 0; ch := []; par := 1 |}; {| sym := 1; ch := []; par := 2 |};
                                      {| sym := 2; ch := [1%N]; par := 3 |}; {| sym := 2; ch := [2%N]; par := 3 |} ]; finals := [3%N] |}.
Definition us_A : ta := {| rules := [ {| sym := 0; ch := []; par := 0 |}; {| sym := 1; ch := []; par := 0 |}; {| sym := 2; ch := [0%N]; par := 5 |} ]; finals := [5%N] |}.
Definition us_A2 : ta := {| rules := {| sym := 3; ch := []; par := 5 |} :: rules us_A; finals := [5%N] |}.
Example upsim_example : UpSim us_le us_B /\ us_le 1 2 = true /\ us_le 2 1 = false /\
  up_worklist_sim us_le us_A us_B 20 = Some true /\ up_worklist_sim us_le us_A2 us_B 20 = Some false /\
  minimize us_le [1; 2]%N = [2%N].
Proof. split; [apply upsim_b_sound; vm_compute; reflexivity|]. vm_compute. repeat split; reflexivity. Qed.

(* ---------- a relation to run the model with: the greatest candidate inside "final states upward closed", by refinement ---------- *)
From V Require Import Gfp.
Definition rel_le (R : list (N * N)) (p q : N) : bool := N.eqb p q || existsb (fun x => N.eqb (fst x) p && N.eqb (snd x) q) R.
Definition list_eqb (a b : list N) : bool := if list_eq_dec N.eq_dec a b then true else false.
Definition up_keep (B : ta) (R : list (N * N)) (x : N * N) : bool :=
  implb (memN (fst x) (finals B)) (memN (snd x) (finals B)) &&
  forallb (fun r => forallb (fun i => implb (N.eqb (nth i (ch r) 0%N) (fst x))
      (existsb (fun r' => N.eqb (sym r') (sym r) && list_eqb (ch r') (replace_at (ch r) i (snd x)) && rel_le R (par r) (par r')) (rules B)))
    (seq 0 (length (ch r)))) (rules B).
Definition upsim_gfp (B : ta) : list (N * N) :=
  let all := list_prod (QB B) (QB B) in refine (N * N) (up_keep B) (S (length all)) all.
(* the run with that relation — only when the relation passes the decidable hypothesis check *)
Definition up_sim_model (fuel : nat) (A B : ta) : option bool :=
  let le := rel_le (upsim_gfp B) in if upsim_b le B then up_worklist_sim le A B fuel else None.
Theorem up_sim_model_refines fuel A B b : up_sim_model fuel A B = Some b -> b = incl_dec A B.
Proof.
  unfold up_sim_model. destruct (upsim_b (rel_le (upsim_gfp B)) B) eqn:E; [|discriminate].
  apply up_worklist_sim_refines. apply upsim_b_sound. exact E.
Qed.
Example up_sim_model_example :
  up_sim_model 20 us_A us_B = Some true /\ up_sim_model 20 us_A2 us_B = Some false /\
  existsb (fun x => negb (N.eqb (fst x) (snd x))) (upsim_gfp us_B) = true.
Proof. vm_compute. repeat split; reflexivity. Qed.
