(* C02 — gates and (R) models for Union / UnionDisjointStates / Intersection / IntersectionBU: the reported
   translation maps are arguments of the model. Definitions only (extracted). *)
From Coq Require Import List NArith Bool Arith.
Import ListNotations.
From V Require Import Fix Sem Prod Incl TrimDefs Lang ProductDefs.

Definition assoc (m : list (N * N)) (dflt : N) (k : N) : N :=
  match find (fun kv => N.eqb (fst kv) k) m with Some kv => snd kv | None => dflt end.

Definition ustates (A : ta) : list N := nodup N.eq_dec (states A).

(* state q of A and state s of R have the same language *)
Definition same_state_lang (A : ta) (q : N) (R : ta) (s : N) : bool :=
  equiv_dec (with_finals [s] R) (with_finals [q] A).

Definition has_pair (m : list (N * N)) (k v : N) : bool := existsb (fun kv => N.eqb (fst kv) k && N.eqb (snd kv) v) m.

(* the maps name every state of the union result *)
Definition names_union (mL mR : list (N * N)) (A B R : ta) : bool :=
  forallb (fun s =>
    existsb (fun k => has_pair mL k s && same_state_lang A k R s) (ustates A) ||
    existsb (fun k => has_pair mR k s && same_state_lang B k R s) (ustates B)) (ustates R).

(* the product map names every state of the intersection result *)
Definition names_isect (pm : list (N * N * N)) (A B R : ta) : bool :=
  forallb (fun s =>
    existsb (fun e => let '(p, q, s') := e in
      N.eqb s' s && isect_gate (with_finals [p] A) (with_finals [q] B) (with_finals [s] R)) pm) (ustates R).

(* (R) models: the result as the code builds it, under the reported maps *)
Definition sentinel (A B : ta) : N := bound (states A ++ states B).
Definition union_model (mL mR : list (N * N)) (A B : ta) : ta :=
  union_with (fun k => assoc mL (sentinel A B + 1 + 2 * k) k) (fun k => assoc mR (sentinel A B + 2 + 2 * k) k) A B.
Definition isect_td_model (pm : list (N * N * N)) (dflt : N) (A B : ta) : ta :=
  image (pm_fun (bound (states B)) pm dflt) (isect_td A B).
Definition isect_bu_model (pm : list (N * N * N)) (dflt : N) (A B : ta) : ta :=
  image (pm_fun (bound (states B)) pm dflt) (isect_bu A B).

Definition disjointb (l m : list N) : bool := forallb (fun x => negb (memN x m)) l.
Definition inj_onb (h : N -> N) (l : list N) : bool :=
  forallb (fun x => forallb (fun y => implb (N.eqb (h x) (h y)) (N.eqb x y)) l) l.
Definition valid_unionb (hA hB : N -> N) (A B : ta) : bool :=
  inj_onb hA (states A) && inj_onb hB (states B) && disjointb (map hA (states A)) (map hB (states B)).
