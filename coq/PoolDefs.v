(* C08 — value-level model of a pool of BDD-encoded automata handles: every handle denotes a rule set (language);
   operations create or overwrite exactly one handle. Definitions only (extracted). *)
From Coq Require Import List NArith Bool.
Import ListNotations.
From V Require Import Fix Sem Prod Incl TrimDefs Lang ProductDefs.

Inductive op :=
| OLoad (k : N) (a : ta)               (* fresh handle k := automaton loaded from Timbuk text *)
| OCopy (k j : N)                      (* k := copy of j (shares the transition table in the implementation) *)
| OFinal (k q : N)                     (* SetStateFinal on k *)
| OAdd (k : N) (a : ta)                (* load further rules / final states into the existing automaton k (same state names) *)
| OUnion (k i j : N)                   (* k := Union(i, j) / UnionDisjointStates(i, j) *)
| OIsect (k i j : N)                   (* k := Intersection(i, j) *)
| OKeep (k i : N)                      (* k := RemoveUnreachableStates(i) / RemoveUselessStates(i) / GetTopDownAut(i) *)
| ODestroy (k : N).

Definition pool := list (N * ta).

Fixpoint plookup (p : pool) (k : N) : option ta :=
  match p with [] => None | (h, a) :: r => if N.eqb h k then Some a else plookup r k end.
Definition pset (p : pool) (k : N) (a : ta) : pool := (k, a) :: filter (fun e => negb (N.eqb (fst e) k)) p.
Definition premove (p : pool) (k : N) : pool := filter (fun e => negb (N.eqb (fst e) k)) p.

Definition target (o : op) : N :=
  match o with OLoad k _ | OCopy k _ | OFinal k _ | OAdd k _ | OUnion k _ _ | OIsect k _ _ | OKeep k _ | ODestroy k => k end.

Definition add_final (q : N) (a : ta) : ta := {| rules := rules a; finals := q :: finals a |}.

Definition pool_step (p : pool) (o : op) : pool :=
  match o with
  | OLoad k a => pset p k a
  | OCopy k j => match plookup p j with Some a => pset p k a | None => p end
  | OFinal k q => match plookup p k with Some a => pset p k (add_final q a) | None => p end
  | OAdd k b => match plookup p k with Some a => pset p k (ta_app a b) | None => p end
  | OUnion k i j => match plookup p i, plookup p j with Some a, Some b => pset p k (tagged a b) | _, _ => p end
  | OIsect k i j => match plookup p i, plookup p j with Some a, Some b => pset p k (product a b) | _, _ => p end
  | OKeep k i => match plookup p i with Some a => pset p k a | None => p end
  | ODestroy k => premove p k
  end.

(* gate: every observed handle denotes the language of its model value, and the same handles are alive *)
Definition pool_gate (model observed : pool) : bool :=
  forallb (fun e => match plookup model (fst e) with Some a => equiv_dec (snd e) a | None => false end) observed &&
  forallb (fun e => match plookup observed (fst e) with Some _ => true | None => false end) model.
