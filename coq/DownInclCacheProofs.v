(* Proofs about the recursive downward inclusion algorithm with the cache of positive answers (DownInclCacheDefs.v):
   with a cache per expansion (shared = false, libvata's discipline) an answer is the truth, whatever the fuel;
   with ONE cache for the whole computation (shared = true) the algorithm answers "included" on a pair that is not. *)
From Coq Require Import List NArith Bool Arith Lia.
Import ListNotations.
From V Require Import Fix Sem Prod Incl TrimDefs TrimProofs Lang InclDefs ComplDefs ComplProofs ComplModel DownIncl DownInclCacheDefs.

Section StateFolds.
  Context {X : Type} (f : X -> cache -> option (bool * cache)) (Inv : cache -> Prop).

  Lemma forall_st_inv l : (forall x C b C', In x l -> Inv C -> f x C = Some (b, C') -> Inv C') ->
    forall C b C', Inv C -> forall_st f l C = Some (b, C') -> Inv C'.
  Proof.
    induction l as [|a l IH]; intros Hs C b C' HI H; simpl in H.
    - inversion H; subst; auto.
    - destruct (f a C) as [[[|] C1]|] eqn:E; try discriminate.
      + apply (IH (fun x C0 b0 C0' Hx => Hs x C0 b0 C0' (or_intror Hx)) C1 b C'); auto. apply (Hs a C true C1); auto. left; auto.
      + inversion H; subst. apply (Hs a C false C'); auto. left; auto.
  Qed.

  Lemma forall_st_true l : (forall x C b C', In x l -> Inv C -> f x C = Some (b, C') -> Inv C') ->
    forall C C', Inv C -> forall_st f l C = Some (true, C') -> forall x, In x l -> exists Ci Co, Inv Ci /\ f x Ci = Some (true, Co).
  Proof.
    induction l as [|a l IH]; intros Hs C C' HI H x Hx; simpl in H; [destruct Hx|].
    destruct (f a C) as [[[|] C1]|] eqn:E; try discriminate.
    destruct Hx as [<-|Hx]; [exists C, C1; auto|].
    apply (IH (fun x C0 b0 C0' Hx => Hs x C0 b0 C0' (or_intror Hx)) C1 C'); auto. apply (Hs a C true C1); auto. left; auto.
  Qed.

  Lemma forall_st_false l : forall C C', forall_st f l C = Some (false, C') -> exists x Ci Co, In x l /\ f x Ci = Some (false, Co).
  Proof.
    induction l as [|a l IH]; intros C C' H; simpl in H; [discriminate|].
    destruct (f a C) as [[[|] C1]|] eqn:E; try discriminate.
    - destruct (IH C1 C' H) as [x [Ci [Co [Hx Hf]]]]. exists x, Ci, Co. split; auto. right; auto.
    - exists a, C, C1. split; auto. left; auto.
  Qed.

  Lemma exists_st_inv l : (forall x C b C', In x l -> Inv C -> f x C = Some (b, C') -> Inv C') ->
    forall C b C', Inv C -> exists_st f l C = Some (b, C') -> Inv C'.
  Proof.
    induction l as [|a l IH]; intros Hs C b C' HI H; simpl in H.
    - inversion H; subst; auto.
    - destruct (f a C) as [[[|] C1]|] eqn:E; try discriminate.
      + inversion H; subst. apply (Hs a C true C'); auto. left; auto.
      + apply (IH (fun x C0 b0 C0' Hx => Hs x C0 b0 C0' (or_intror Hx)) C1 b C'); auto. apply (Hs a C false C1); auto. left; auto.
  Qed.

  Lemma exists_st_true l : (forall x C b C', In x l -> Inv C -> f x C = Some (b, C') -> Inv C') ->
    forall C C', Inv C -> exists_st f l C = Some (true, C') -> exists x Ci Co, In x l /\ Inv Ci /\ f x Ci = Some (true, Co).
  Proof.
    induction l as [|a l IH]; intros Hs C C' HI H; simpl in H; [discriminate|].
    destruct (f a C) as [[[|] C1]|] eqn:E; try discriminate.
    - exists a, C, C1. repeat split; auto. left; auto.
    - destruct (IH (fun x C0 b0 C0' Hx => Hs x C0 b0 C0' (or_intror Hx)) C1 C') as [x [Ci [Co [Hx [Hi Hf]]]]]; auto.
      + apply (Hs a C false C1); auto. left; auto.
      + exists x, Ci, Co. repeat split; auto. right; auto.
  Qed.

  Lemma exists_st_false l : forall C C', exists_st f l C = Some (false, C') -> forall x, In x l -> exists Ci Co, f x Ci = Some (false, Co).
  Proof.
    induction l as [|a l IH]; intros C C' H x Hx; simpl in H; [destruct Hx|].
    destruct (f a C) as [[[|] C1]|] eqn:E; try discriminate.
    destruct Hx as [<-|Hx]; [exists C, C1; auto|]. apply (IH C1 C'); auto.
  Qed.
End StateFolds.

Lemma InclN_0 A B q S : InclN A B 0 q S.
Proof. intros t Ht. destruct t; simpl in Ht; lia. Qed.
Lemma WHyp_mono A B n m W : m <= n -> WHyp A B n W -> WHyp A B m W.
Proof. intros H HW q S Hin. eapply InclN_mono; [|apply HW; eauto]. lia. Qed.
Lemma WHyp_cons A B n q S W : InclN A B n q S -> WHyp A B n W -> WHyp A B n ((q, S) :: W).
Proof. intros H HW q' S' [E|Hin]; [inversion E; subst; auto | apply HW; auto]. Qed.
Lemma workset_hit A B n W q S : in_workset W q S = true -> WHyp A B n W -> InclN A B n q S.
Proof.
  intros EW HW. apply in_workset_spec in EW as [S' [Hin Hsub]]. intros t Ht R. eapply covers_mono; eauto. apply (HW q S' Hin t Ht R).
Qed.

(* scoped cache: the cache that comes back is valid whenever the one handed in was, and "true" is sound; by induction on the height bound *)
Lemma downc_scoped_sound A B : forall n fuel q S W C b C', downc false A B fuel q S W C = Some (b, C') ->
  WHyp A B n W -> WHyp A B n C -> WHyp A B n C' /\ (b = true -> InclN A B n q S).
Proof.
  induction n as [|n IHn]; intros fuel q S W C b C' Hd HW HC.
  - split; [intros p P _; apply InclN_0 | intros _; apply InclN_0].
  - assert (Hq : b = true -> InclN A B n q S).
    { apply (proj2 (IHn fuel q S W C b C' Hd (WHyp_mono A B (Datatypes.S n) n W (Nat.le_succ_diag_r n) HW) (WHyp_mono A B (Datatypes.S n) n C (Nat.le_succ_diag_r n) HC))). }
    destruct fuel as [|f]; [discriminate|]. simpl in Hd.
    destruct (in_workset W q S) eqn:EW; [inversion Hd; subst; split; auto; intros _; eapply workset_hit; eauto|].
    destruct (in_workset C q S) eqn:EC; [inversion Hd; subst; split; auto; intros _; eapply workset_hit; eauto|].
    set (W' := (q, S) :: W) in *.
    set (frule := fun (r : rule) (Cc : cache) =>
              if negb (N.eqb (par r) q) then Some (true, Cc) else
              match length (ch r) with
              | 0 => Some (negb (is_nil (tuplesB B S (sym r) (length (ch r)))), Cc)
              | _ => forall_st (fun c Cc1 => exists_st (fun i Cc2 => downc false A B f (nth i (ch r) 0%N) (pick (tuplesB B S (sym r) (length (ch r))) c i) W' Cc2) (seq 0 (length (ch r))) Cc1)
                               (all_choices (length (tuplesB B S (sym r) (length (ch r)))) (length (ch r))) Cc
              end) in *.
    assert (Hd' : match forall_st frule (rules A) [] with
                  | Some (true, C1) => Some (true, (q, S) :: C) | Some (false, C1) => Some (false, C) | None => None end = Some (b, C')).
    { revert Hd. unfold frule. clear.
      match goal with |- match ?X with _ => _ end = _ -> match ?Y with _ => _ end = _ => replace Y with X; [auto|] end.
      f_equal. }
    clear Hd. destruct (forall_st frule (rules A) []) as [[[|] C1]|] eqn:EF; try discriminate; inversion Hd'; subst; clear Hd'.
    2: { split; auto. discriminate. }
    assert (Hqn : InclN A B n q S) by auto.
    assert (HW' : WHyp A B n W') by (apply WHyp_cons; auto; apply (WHyp_mono A B (Datatypes.S n) n W (Nat.le_succ_diag_r n) HW)).
    set (Inv := WHyp A B n).
    (* the three nested folds keep the validity of the level cache *)
    assert (Hpos : forall r c i Cc b0 Cc', Inv Cc ->
              downc false A B f (nth i (ch r) 0%N) (pick (tuplesB B S (sym r) (length (ch r))) c i) W' Cc = Some (b0, Cc') ->
              Inv Cc' /\ (b0 = true -> InclN A B n (nth i (ch r) 0%N) (pick (tuplesB B S (sym r) (length (ch r))) c i))).
    { intros r c i Cc b0 Cc' HI H. apply (IHn f _ _ W' Cc b0 Cc' H); auto. }
    assert (Hch : forall r c Cc b0 Cc', Inv Cc ->
              exists_st (fun i Cc2 => downc false A B f (nth i (ch r) 0%N) (pick (tuplesB B S (sym r) (length (ch r))) c i) W' Cc2) (seq 0 (length (ch r))) Cc = Some (b0, Cc') -> Inv Cc').
    { intros r c Cc b0 Cc' HI H. refine (exists_st_inv _ Inv _ _ Cc b0 Cc' HI H).
      intros i C0 b1 C0' _ HI0 H0. apply (Hpos r c i C0 b1 C0' HI0 H0). }
    assert (Hru : forall r Cc b0 Cc', Inv Cc -> frule r Cc = Some (b0, Cc') -> Inv Cc').
    { intros r Cc b0 Cc' HI H. unfold frule in H. destruct (negb (N.eqb (par r) q)); [inversion H; subst; auto|].
      destruct (length (ch r)) eqn:Ek; [inversion H; subst; auto|]. rewrite <- Ek in H.
      refine (forall_st_inv _ Inv _ _ Cc b0 Cc' HI H). intros c C0 b1 C0' _ HI0 H0. exact (Hch r c C0 b1 C0' HI0 H0). }
    cut (InclN A B (Datatypes.S n) q S); [intros Hmain; split; [apply WHyp_cons; auto | auto]|].
    intros t Ht R. inversion R as [g ts r Hr Hs HF]; subst.
    destruct (forall_st_true frule Inv (rules A) (fun x C0 b0 C0' _ => Hru x C0 b0 C0') [] C1 (fun p P H => match H with end) EF r Hr) as [Ci [Co [HIi Hfr]]].
    unfold frule in Hfr. rewrite N.eqb_refl in Hfr. simpl in Hfr.
    assert (Hlen : length ts = length (ch r)) by (clear - HF; induction HF; simpl; auto).
    destruct (length (ch r)) as [|k'] eqn:Ek.
    + inversion Hfr as [[Hn Hc]]. apply negb_true_iff in Hn. destruct (tuplesB B S (sym r) 0) as [|w T] eqn:ET; [discriminate|].
      assert (Hw : In w (tuplesB B S (sym r) 0)) by (rewrite ET; left; auto).
      apply tuplesB_in in Hw as [rb [Hrb [Hsb [Hpb [Ew Lw]]]]]. exists (par rb). split; auto.
      destruct ts; [|discriminate]. rewrite <- Hsb. constructor; auto. destruct (ch rb); [constructor | subst; discriminate].
    + rewrite <- Ek in Hfr. set (k := length (ch r)) in *. set (T := tuplesB B S (sym r) k) in *.
      destruct (existsb (fun w => matches w (map (eval B) ts)) T) eqn:EX.
      * apply existsb_exists in EX as [w [Hw M]]. apply Forall2_reach_matches in M.
        apply tuplesB_in in Hw as [rb [Hrb [Hsb [Hpb [Ew Lw]]]]]. exists (par rb). split; auto. rewrite <- Hsb. constructor; auto. rewrite Ew; auto.
      * exfalso.
        destruct (finite_choice (fun w j => j < length ts /\ ~ reach B (nth j ts dflt) (nth j w 0%N)) T) as [c Hc].
        { intros w Hw. apply not_Forall2_pos.
          - apply tuplesB_in in Hw as [rb [_ [_ [_ [_ Lw]]]]]. unfold k in Lw. lia.
          - intros F2. apply Forall2_reach_matches in F2. assert (X : existsb (fun w0 => matches w0 (map (eval B) ts)) T = true) by (apply existsb_exists; exists w; auto). congruence. }
        assert (Hcin : In c (all_choices (length T) k)).
        { apply all_choices_in. split; [symmetry; eapply Forall2_len; eauto|]. apply Forall_forall. intros j Hj.
          destruct (In_nth c j 0 Hj) as [m [Hm <-]]. assert (Hl : length T = length c) by (eapply Forall2_len; eauto).
          assert (Hlen' : length ts = k) by (unfold k; lia).
          clear - Hc Hm Hl Hlen'. rewrite Hlen' in Hc. revert m Hm. induction Hc as [|w j0 T c [H1 _] F IH2]; intros m Hm; simpl in *; [lia|].
          destruct m; auto. apply IH2; lia. }
        destruct (forall_st_true _ Inv _ (fun c0 C0 b0 C0' _ HI0 H0 => Hch r c0 C0 b0 C0' HI0 H0) Ci Co HIi Hfr c Hcin) as [Cj [Cp [HIj Hex]]].
        destruct (exists_st_true _ Inv _ (fun i C0 b0 C0' _ HI0 H0 => proj1 (Hpos r c i C0 b0 C0' HI0 H0)) Cj Cp HIj Hex) as [i [Ck [Cl [Hi [HIk Hdi]]]]].
        apply in_seq in Hi.
        assert (Hinc : InclN A B n (nth i (ch r) 0%N) (pick T c i)) by (apply (proj2 (Hpos r c i Ck true Cl HIk Hdi)); auto).
        assert (Hti : height (nth i ts dflt) <= n).
        { assert (In (nth i ts dflt) ts) by (apply nth_In; unfold k in Hi; lia). pose proof (height_child _ _ (sym r) H). lia. }
        destruct (Hinc _ Hti) as [s [Hs Rs]]; [apply Forall2_nth_reach; auto; unfold k in Hi; lia|].
        destruct (pick_elim _ T c i s Hc Hs) as [w [Hw [[_ Hnr] ->]]]. auto.
Qed.

(* "false" is sound whatever the cache discipline: cache hits only ever answer "true" *)
Lemma downc_false_sound sh A B : forall fuel q S W C C', downc sh A B fuel q S W C = Some (false, C') -> exists t, reach A t q /\ ~ covers B S t.
Proof.
  induction fuel as [|f IH]; intros q S W C C' Hd; [discriminate|]. simpl in Hd.
  destruct (in_workset W q S); [discriminate|]. destruct (in_workset C q S); [discriminate|].
  match type of Hd with match ?X with _ => _ end = _ => destruct X as [[[|] C1]|] eqn:EF; try discriminate end.
  apply forall_st_false in EF as [r [Ci [Co [Hr Hfr]]]].
  destruct (N.eqb_spec (par r) q) as [Ep|NE]; simpl in Hfr; [|discriminate]. subst q.
  destruct (length (ch r)) as [|k'] eqn:Ek.
  - inversion Hfr as [[Hn Hc]]. apply negb_false_iff in Hn. destruct (tuplesB B S (sym r) 0) as [|w T] eqn:ET; [|discriminate].
    exists (Node (sym r) []). split.
    + constructor; auto. destruct (ch r); [constructor | discriminate].
    + intros [s [Hs R]]. inversion R as [g ts rb Hrb Hsb HF]; subst. inversion HF as [E|]; subst.
      assert (Hin : In (ch rb) (tuplesB B S (sym r) 0)) by (apply tuplesB_in; exists rb; rewrite <- H; auto).
      rewrite ET in Hin. destruct Hin.
  - set (k := Datatypes.S k') in *. set (T := tuplesB B S (sym r) k) in *.
    apply forall_st_false in Hfr as [c [Cj [Cp [Hc Hex]]]].
    apply all_choices_in in Hc as [Lc Fc].
    destruct (build_list (fun i t => reach A t (nth i (ch r) 0%N) /\ ~ covers B (pick T c i) t) dflt k) as [ts [Lts Hts]].
    { intros i Hi. destruct (exists_st_false _ _ _ _ Hex i) as [Ck [Cl Hdi]]; [apply in_seq; lia|]. apply (IH _ _ _ _ _ Hdi). }
    exists (Node (sym r) ts). split.
    + constructor; auto. apply Forall2_of_nth; [lia|]. intros i Hi. apply Hts. lia.
    + intros [s [Hs R]]. inversion R as [g ts' rb Hrb Hsb HF]; subst.
      assert (Lw : length (ch rb) = k) by (rewrite <- Lts; symmetry; clear - HF; induction HF; simpl; auto).
      assert (Hin : In (ch rb) T) by (apply tuplesB_in; exists rb; auto).
      destruct (pick_intro _ T c (choice_positions T c k Lc Fc) (ch rb) Hin) as [i [Hi Hp]].
      apply (proj2 (Hts i Hi)). exists (nth i (ch rb) 0%N). split; auto. apply Forall2_nth_reach; auto. lia.
Qed.

(* the whole check with one cache per expansion: an answer is the truth, whatever the fuel *)
Theorem downc_scoped_partial_correct A B fuel b : downc_incl false A B fuel = Some b -> (b = true <-> lincl A B).
Proof.
  unfold downc_incl. intros H.
  destruct (forall_st (fun q C => downc false A B fuel q (finals B) [] C) (finals A) []) as [[b0 C0]|] eqn:EF; [|discriminate].
  inversion H; subst b0; clear H.
  set (Inv := fun C : cache => forall n, WHyp A B n C).
  assert (Hstep : forall q C b1 C', Inv C -> downc false A B fuel q (finals B) [] C = Some (b1, C') -> Inv C').
  { intros q C b1 C' HI Hd n. apply (downc_scoped_sound A B n fuel q (finals B) [] C b1 C' Hd); auto. intros p P []. }
  assert (H0 : Inv []) by (intros n p P []).
  destruct b; split; auto; try discriminate.
  - intros _ t [q [Hq R]].
    destruct (forall_st_true _ Inv _ (fun x C b1 C' _ => Hstep x C b1 C') [] C0 H0 EF q Hq) as [Ci [Co [HIi Hd]]].
    destruct (proj2 (downc_scoped_sound A B (height t) fuel q (finals B) [] Ci true Co Hd (fun p P (H : In (p, P) []) => match H with end) (HIi (height t))) eq_refl t (le_n _) R) as [s [Hs Rs]].
    exists s; auto.
  - intros L. apply forall_st_false in EF as [q [Ci [Co [Hq Hd]]]].
    destruct (downc_false_sound false A B fuel q (finals B) [] Ci Co Hd) as [t [R N]].
    exfalso. apply N. destruct (L t) as [s [Hs Rs]]; [exists q; auto|]. exists s; auto.
Qed.

Corollary downc_scoped_refines A B fuel b : downc_incl false A B fuel = Some b -> b = incl_dec A B.
Proof.
  intros H. apply downc_scoped_partial_correct in H. apply eq_true_iff_eq. rewrite H. symmetry. apply incl_dec_spec.
Qed.

(* one cache for the whole computation: a positive answer obtained under the hypothesis (p, {P}) outlives the refutation of (p, {P}) *)
Theorem downc_shared_refuted :
  downc_incl true trapA trapB 30 = Some true /\ ~ lincl trapA trapB /\ downc_incl false trapA trapB 30 = Some false.
Proof.
  split; [vm_compute; reflexivity|]. split; [|vm_compute; reflexivity].
  intros H. apply incl_dec_spec in H. vm_compute in H. discriminate H.
Qed.
