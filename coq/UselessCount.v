(* C03 (A) increment — how RemoveUselessStates / IsLangEmpty find the productive states (src/explicit_tree_useless.cc): every rule
   carries a counter of its DISTINCT children that are not yet known to be productive; a work list holds the states found productive
   and not yet propagated; popping a state decrements the counter of every rule that has it among its children, and a counter that
   reaches zero makes the rule's parent productive (marked and pushed unless it is marked already). Fuel-indexed; None = out of fuel.
   Theorem: a run that ends has marked exactly the states that generate a tree. Two seeded variants are refuted: decrementing by the
   number of occurrences instead of once per distinct child (c03), and waiting only for the first k child positions (c03f). *)
From Coq Require Import List NArith Bool Arith Lia.
Import ListNotations.
From V Require Import Fix Sem Prod.

Definition dch (r : rule) : list N := nodup N.eq_dec (ch r).

(* a counter reaching zero fires: the parent is marked and pushed unless it is marked already *)
Definition fire (q : N) (st : list N * list N) (rc : rule * nat) : list N * list N :=
  if memN q (ch (fst rc)) && Nat.eqb (snd rc) 1 && negb (memN (par (fst rc)) (fst st))
  then (par (fst rc) :: fst st, snd st ++ [par (fst rc)]) else st.
Definition dec (q : N) (rc : rule * nat) : rule * nat := if memN q (ch (fst rc)) then (fst rc, pred (snd rc)) else rc.

Record ust := { rcs : list (rule * nat); marked : list N; todo : list N; popped : list N }.

Fixpoint urun (fuel : nat) (s : ust) : option (list N) :=
  match fuel with
  | 0 => None
  | S f =>
      match todo s with
      | [] => Some (marked s)
      | q :: T =>
          let st := fold_left (fire q) (rcs s) (marked s, T) in
          urun f {| rcs := map (dec q) (rcs s); marked := fst st; todo := snd st; popped := popped s ++ [q] |}
      end
  end.

(* the start: counters = number of distinct children; the parents of leaf rules are productive *)
Definition fire0 (st : list N * list N) (r : rule) : list N * list N :=
  match ch r with
  | [] => if memN (par r) (fst st) then st else (par r :: fst st, snd st ++ [par r])
  | _ => st
  end.
Definition uinit (A : ta) : ust :=
  let st := fold_left fire0 (rules A) ([], []) in
  {| rcs := map (fun r => (r, length (dch r))) (rules A); marked := fst st; todo := snd st; popped := [] |}.
Definition productive_count (A : ta) (fuel : nat) : option (list N) := urun fuel (uinit A).

(* ---------- proofs ---------- *)
Lemma memN_false x l : memN x l = false <-> ~ In x l.
Proof. rewrite <- memN_In. destruct (memN x l); split; intros; try discriminate; auto. exfalso; auto. Qed.

Definition notin (done : list N) (x : N) : bool := negb (memN x done).

Lemma notin_snoc done q x : notin (done ++ [q]) x = notin done x && negb (N.eqb x q).
Proof.
  unfold notin. rewrite <- negb_orb. f_equal. apply eq_true_iff_eq. rewrite orb_true_iff, !memN_In, in_app_iff, N.eqb_eq. simpl.
  split; [intros [H|[H|[]]]; auto | intros [H|H]; auto].
Qed.
Lemma filter_pop (l : list N) done q : NoDup l -> In q l -> ~ In q done ->
  length (filter (notin (done ++ [q])) l) + 1 = length (filter (notin done) l).
Proof.
  induction l as [|x l IH]; intros Hnd Hq Hn; [destruct Hq|]. inversion Hnd as [|? ? Hx Hnd']; subst.
  simpl. rewrite notin_snoc. destruct Hq as [->|Hq].
  - rewrite N.eqb_refl, andb_false_r. assert (E : notin done q = true) by (unfold notin; apply negb_true_iff, memN_false; auto).
    rewrite E. simpl. f_equal.
    (* q does not occur in l: the two filters agree *)
    rewrite Nat.add_1_r. f_equal. f_equal. apply filter_ext_in. intros y Hy. rewrite notin_snoc.
    destruct (N.eqb_spec y q) as [->|]; [contradiction|]. apply andb_true_r.
  - assert (Hne : x <> q) by (intros ->; contradiction). destruct (N.eqb_spec x q); [contradiction|]. rewrite andb_true_r.
    destruct (notin done x); simpl; rewrite <- (IH Hnd' Hq Hn); lia.
Qed.
Lemma filter_nopop (l : list N) done q : ~ In q l -> filter (notin (done ++ [q])) l = filter (notin done) l.
Proof.
  intros Hn. apply filter_ext_in. intros y Hy. rewrite notin_snoc. destruct (N.eqb_spec y q) as [->|]; [contradiction|]. apply andb_true_r.
Qed.
Lemma dch_in r x : In x (dch r) <-> In x (ch r). Proof. apply nodup_In. Qed.
Lemma dch_nodup r : NoDup (dch r). Proof. apply NoDup_nodup. Qed.

(* what a pass over the rules adds *)
Lemma fire_fold q : forall L M T, exists nw,
  fold_left (fire q) L (M, T) = (rev nw ++ M, T ++ nw) /\ NoDup nw /\ (forall x, In x nw -> ~ In x M) /\
  (forall x, In x nw -> exists rc, In rc L /\ memN q (ch (fst rc)) = true /\ snd rc = 1 /\ x = par (fst rc)) /\
  (forall rc, In rc L -> memN q (ch (fst rc)) = true -> snd rc = 1 -> In (par (fst rc)) (rev nw ++ M)).
Proof.
  induction L as [|rc L IH]; intros M T; simpl.
  - exists []. simpl. rewrite app_nil_r. repeat split; auto; try constructor; intros x [].
  - unfold fire at 2. simpl.
    destruct (memN q (ch (fst rc)) && Nat.eqb (snd rc) 1 && negb (memN (par (fst rc)) M)) eqn:E.
    + apply andb_true_iff in E as [E E3]. apply andb_true_iff in E as [E1 E2]. apply Nat.eqb_eq in E2.
      apply negb_true_iff, memN_false in E3.
      destruct (IH (par (fst rc) :: M) (T ++ [par (fst rc)])) as [nw [EF [ND [NM [SRC ALL]]]]].
      exists (par (fst rc) :: nw). simpl. rewrite <- !app_assoc. simpl. split; [rewrite EF, <- app_assoc; reflexivity|]. split; [|split; [|split]].
      * constructor; auto. intros Hin. apply (NM _ Hin). left; auto.
      * intros x [<-|Hx]; auto. intros Hm. apply (NM x Hx). right; auto.
      * intros x [<-|Hx]; [exists rc; auto | destruct (SRC x Hx) as [rc' [H1 H2]]; exists rc'; auto].
      * intros rc' [<-|Hin] H1 H2; [apply in_app_iff; right; left; auto | apply ALL; auto].
    + destruct (IH M T) as [nw [EF [ND [NM [SRC ALL]]]]]. exists nw. split; [exact EF|]. split; auto. split; auto. split.
      * intros x Hx. destruct (SRC x Hx) as [rc' [H1 H2]]. exists rc'; auto.
      * intros rc' [<-|Hin] H1 H2; [|apply ALL; auto]. rewrite H1 in E. rewrite H2 in E. simpl in E.
        apply negb_false_iff, memN_In in E. apply in_app_iff. right. auto.
Qed.

Lemma fire0_fold : forall L M T, exists nw,
  fold_left fire0 L (M, T) = (rev nw ++ M, T ++ nw) /\ NoDup nw /\ (forall x, In x nw -> ~ In x M) /\
  (forall x, In x nw -> exists r, In r L /\ ch r = [] /\ x = par r) /\
  (forall r, In r L -> ch r = [] -> In (par r) (rev nw ++ M)).
Proof.
  induction L as [|r L IH]; intros M T; simpl.
  - exists []. simpl. rewrite app_nil_r. repeat split; auto; try constructor; intros x [].
  - unfold fire0 at 2. simpl. destruct (ch r) as [|c cs] eqn:Ec.
    + destruct (memN (par r) M) eqn:Em.
      * destruct (IH M T) as [nw [EF [ND [NM [SRC ALL]]]]]. exists nw. split; [exact EF|]. split; auto. split; auto. split.
        -- intros x Hx. destruct (SRC x Hx) as [r' [H1 H2]]. exists r'; auto.
        -- intros r' [<-|Hin] H1; [apply in_app_iff; right; apply memN_In; auto | apply ALL; auto].
      * apply memN_false in Em. destruct (IH (par r :: M) (T ++ [par r])) as [nw [EF [ND [NM [SRC ALL]]]]].
        exists (par r :: nw). simpl. rewrite <- !app_assoc. simpl. split; [rewrite EF, <- app_assoc; reflexivity|]. split; [|split; [|split]].
        -- constructor; auto. intros Hin. apply (NM _ Hin). left; auto.
        -- intros x [<-|Hx]; auto. intros Hm. apply (NM x Hx). right; auto.
        -- intros x [<-|Hx]; [exists r; auto | destruct (SRC x Hx) as [r' [H1 H2]]; exists r'; auto].
        -- intros r' [<-|Hin] H1; [apply in_app_iff; right; left; auto | apply ALL; auto].
    + destruct (IH M T) as [nw [EF [ND [NM [SRC ALL]]]]]. exists nw. split; [exact EF|]. split; auto. split; auto. split.
      * intros x Hx. destruct (SRC x Hx) as [r' [H1 H2]]. exists r'; auto.
      * intros r' [<-|Hin] H1; [congruence | apply ALL; auto].
Qed.

Lemma NoDup_app_iff {X} (l1 l2 : list X) : NoDup (l1 ++ l2) <-> NoDup l1 /\ NoDup l2 /\ (forall x, In x l1 -> ~ In x l2).
Proof.
  induction l1 as [|a l1 IH]; simpl.
  - split.
    + intros H. split; [constructor|]. split; [exact H|]. intros x [].
    + intros [_ [H _]]. exact H.
  - split.
    + intros H. inversion H as [|? ? Ha Hn]; subst. apply IH in Hn as [H1 [H2 H3]]. split; [|split; auto].
      * constructor; auto. intros Hin. apply Ha, in_app_iff; auto.
      * intros x [<-|Hx]; [intros Hin; apply Ha, in_app_iff; auto | apply H3; auto].
    + intros [H1 [H2 H3]]. inversion H1 as [|? ? Ha Hn]; subst. constructor.
      * rewrite in_app_iff. intros [Hin|Hin]; [contradiction | apply (H3 a (or_introl eq_refl) Hin)].
      * apply IH. repeat split; auto.
Qed.

Section Run.
Variable A : ta.

Definition UInv (s : ust) : Prop :=
  map fst (rcs s) = rules A /\
  (forall rc, In rc (rcs s) -> snd rc = length (filter (notin (popped s)) (dch (fst rc)))) /\
  (forall x, In x (marked s) <-> In x (popped s) \/ In x (todo s)) /\
  NoDup (popped s ++ todo s) /\
  (forall rc, In rc (rcs s) -> snd rc = 0 -> In (par (fst rc)) (marked s)) /\
  (forall x, In x (marked s) -> exists t, reach A t x).

Lemma rcs_rule s rc : UInv s -> In rc (rcs s) -> In (fst rc) (rules A).
Proof. intros [J1 _] H. rewrite <- J1. apply in_map; auto. Qed.

Lemma filter_len0 (p : N -> bool) l : length (filter p l) = 0 -> forall x, In x l -> p x = false.
Proof. induction l as [|y l IH]; simpl; intros H x Hx; [destruct Hx|]. destruct (p y) eqn:E; [discriminate|]. destruct Hx as [<-|Hx]; auto. Qed.

Lemma ustep_inv s q T : UInv s -> todo s = q :: T ->
  let st := fold_left (fire q) (rcs s) (marked s, T) in
  UInv {| rcs := map (dec q) (rcs s); marked := fst st; todo := snd st; popped := popped s ++ [q] |}.
Proof.
  intros HI Et. pose proof HI as [J1 [J2 [J3 [J4 [J5 J6]]]]]. rewrite Et in J3, J4.
  destruct (fire_fold q (rcs s) (marked s) T) as [nw [EF [ND [NM [SRC ALL]]]]]. simpl. rewrite EF. simpl.
  apply NoDup_app_iff in J4 as [N1 [N2 N3]]. inversion N2 as [|? ? HqT N2']; subst.
  assert (Hq : ~ In q (popped s)) by (intros Hin; apply (N3 q Hin); left; auto).
  assert (Hmq : In q (marked s)) by (apply J3; right; left; auto).
  unfold UInv. cbn [rcs marked todo popped]. split; [|split; [|split; [|split; [|split]]]].
  - rewrite map_map. rewrite <- J1. apply map_ext. intros [r c]. unfold dec. simpl. destruct (memN q (ch r)); reflexivity.
  - intros rc Hin. apply in_map_iff in Hin as [[r c] [<- Hin]]. unfold dec. simpl. specialize (J2 _ Hin). simpl in J2.
    destruct (memN q (ch r)) eqn:Em; simpl.
    + apply memN_In in Em. pose proof (filter_pop (dch r) (popped s) q (dch_nodup r) (proj2 (dch_in r q) Em) Hq) as X. lia.
    + apply memN_false in Em. rewrite filter_nopop; auto. rewrite dch_in. exact Em.
  - intros x. rewrite !in_app_iff, <- in_rev, J3. simpl. tauto.
  - apply NoDup_app_iff. split; [|split].
    + apply NoDup_app_iff. split; auto. split; [constructor; auto; constructor|]. intros x Hx [<-|[]]. contradiction.
    + apply NoDup_app_iff. split; auto. split; auto. intros x Hx Hn. apply (NM x Hn). apply J3. right. right. auto.
    + intros x Hx Hin. apply in_app_iff in Hx as [Hx|[<-|[]]]; apply in_app_iff in Hin as [Hin|Hin].
      * apply (N3 x Hx). right; auto.
      * apply (NM x Hin). apply J3. auto.
      * contradiction.
      * apply (NM q Hin). exact Hmq.
  - intros rc Hin H0. apply in_map_iff in Hin as [[r c] [<- Hin]]. unfold dec in *. simpl in *.
    destruct (memN q (ch r)) eqn:Em; simpl in H0.
    + destruct c as [|[|c]]; simpl in H0; try discriminate.
      * apply in_app_iff. right. apply (J5 (r, 0) Hin eq_refl).
      * apply (ALL (r, 1) Hin Em eq_refl).
    + apply in_app_iff. right. apply (J5 (r, c) Hin H0).
  - intros x Hx. apply in_app_iff in Hx as [Hx|Hx]; [|apply J6; auto]. apply in_rev in Hx.
    destruct (SRC x Hx) as [[r c] [Hin [Em [Ec ->]]]]. simpl in *. subst c.
    specialize (J2 _ Hin). simpl in J2.
    apply memN_In in Em. pose proof (filter_pop (dch r) (popped s) q (dch_nodup r) (proj2 (dch_in r q) Em) Hq) as X.
    assert (Z : length (filter (notin (popped s ++ [q])) (dch r)) = 0) by lia.
    assert (Hc : forall c, In c (ch r) -> In c (marked s)).
    { intros c Hc. pose proof (filter_len0 _ _ Z c (proj2 (dch_in r c) Hc)) as F. unfold notin in F.
      apply negb_false_iff, memN_In, in_app_iff in F as [F|[<-|[]]]; [apply J3; auto | exact Hmq]. }
    destruct (children_trees A (fun c => In c (marked s)) J6 (ch r) Hc) as [ts Hts].
    exists (Node (sym r) ts). constructor; auto. apply (rcs_rule s (r, 1) HI Hin).
Qed.

Lemma urun_inv : forall fuel s M, UInv s -> urun fuel s = Some M -> exists s', UInv s' /\ todo s' = [] /\ marked s' = M.
Proof.
  induction fuel as [|f IH]; intros s M HI H; simpl in H; [discriminate|].
  destruct (todo s) as [|q T] eqn:Et.
  - inversion H; subst. exists s. auto.
  - apply (IH _ M (ustep_inv s q T HI Et) H).
Qed.

Lemma uinit_inv : UInv (uinit A).
Proof.
  unfold uinit. destruct (fire0_fold (rules A) [] []) as [nw [EF [ND [NM [SRC ALL]]]]]. rewrite EF. simpl. rewrite app_nil_r.
  unfold UInv. cbn [rcs marked todo popped]. split; [|split; [|split; [|split; [|split]]]].
  - rewrite map_map. simpl. apply map_id.
  - intros rc Hin. apply in_map_iff in Hin as [r [<- Hr]]. simpl.
    assert (E : forall l, filter (notin []) l = l) by (induction l as [|x l IH]; simpl; auto; rewrite IH; reflexivity).
    rewrite E. reflexivity.
  - intros x. rewrite <- in_rev. simpl. tauto.
  - simpl. exact ND.
  - intros rc Hin H0. apply in_map_iff in Hin as [r [<- Hr]]. simpl in *.
    rewrite <- (app_nil_r (rev nw)). apply ALL; auto. destruct (ch r) as [|c cs] eqn:Ec; auto. exfalso.
    assert (In c (dch r)) by (apply dch_in; rewrite Ec; left; auto). destruct (dch r); [auto | discriminate].
  - intros x Hx. apply in_rev in Hx. destruct (SRC x Hx) as [r [Hr [Ec ->]]].
    exists (Node (sym r) []). constructor; auto. rewrite Ec. constructor.
Qed.

Theorem productive_count_exact fuel M : productive_count A fuel = Some M -> forall q, In q M <-> exists t, reach A t q.
Proof.
  intros H. destruct (urun_inv fuel (uinit A) M uinit_inv H) as [s [HI [Et <-]]].
  pose proof HI as [J1 [J2 [J3 [J4 [J5 J6]]]]]. intros q. split; [apply J6|].
  intros [t Ht]. revert q Ht. induction t as [f ts IH] using tree_ind'. intros q Ht.
  inversion Ht as [f' ts' r Hr Hs HF]; subst.
  assert (Hc : forall c, In c (ch r) -> In c (marked s)).
  { clear Ht Hr. revert IH. induction HF as [|t c ts cs Htc HF IH2]; intros IH c' Hc'; [destruct Hc'|].
    inversion IH as [|? ? Ht0 Hts0]; subst. destruct Hc' as [<-|Hc']; auto. }
  rewrite <- J1 in Hr. apply in_map_iff in Hr as [[r' c] [E Hin]]. simpl in E. subst r'.
  apply (J5 (r, c) Hin). pose proof (J2 _ Hin) as Ec. simpl in *. rewrite Ec.
  assert (E : forall l, (forall x, In x l -> In x (ch r)) -> filter (notin (popped s)) l = []).
  { induction l as [|x l IHl]; intros Hl; simpl; auto.
    assert (Hx : In x (popped s)).
    { assert (Hm : In x (marked s)) by (apply Hc, Hl; left; auto). apply J3 in Hm. rewrite Et in Hm. destruct Hm as [Hm|[]]; auto. }
    unfold notin at 1. apply memN_In in Hx. rewrite Hx. simpl. apply IHl. intros y Hy. apply Hl. right; auto. }
  rewrite (E (dch r)); [reflexivity | intros x Hx; apply dch_in; auto].
Qed.
End Run.

Corollary productive_count_is_productive A fuel M : productive_count A fuel = Some M -> forall q, In q M <-> In q (productive A).
Proof. intros H q. rewrite (productive_count_exact A fuel M H q). symmetry. apply productive_spec. Qed.

(* ---------- two variants that look equivalent and are not ---------- *)
(* (i) the counter holds the number of DISTINCT children but is decremented once per OCCURRENCE of the popped state;
   (ii) only the first k child positions are waited for (a mask that is too short) *)
Definition dec_occ (q : N) (rc : rule * nat) : rule * nat := (fst rc, snd rc - count_occ N.eq_dec (ch (fst rc)) q).
Definition fire_occ (q : N) (st : list N * list N) (rc : rule * nat) : list N * list N :=
  if memN q (ch (fst rc)) && Nat.leb (snd rc) (count_occ N.eq_dec (ch (fst rc)) q) && negb (Nat.eqb (snd rc) 0) && negb (memN (par (fst rc)) (fst st))
  then (par (fst rc) :: fst st, snd st ++ [par (fst rc)]) else st.
Fixpoint urun_occ (fuel : nat) (s : ust) : option (list N) :=
  match fuel with
  | 0 => None
  | S f =>
      match todo s with
      | [] => Some (marked s)
      | q :: T =>
          let st := fold_left (fire_occ q) (rcs s) (marked s, T) in
          urun_occ f {| rcs := map (dec_occ q) (rcs s); marked := fst st; todo := snd st; popped := popped s ++ [q] |}
      end
  end.
Definition uinit_k (k : nat) (A : ta) : ust :=
  let st := fold_left fire0 (rules A) ([], []) in
  {| rcs := map (fun r => (r, length (nodup N.eq_dec (firstn k (ch r))))) (rules A); marked := fst st; todo := snd st; popped := [] |}.

Definition vA : ta := {| rules := [ {| sym := 0; ch := []; par := 1 |}; {| sym := 3; ch := [1; 1; 2]%N; par := 0 |} ]; finals := [0%N] |}.
Theorem counter_variants_refuted :
  productive_count vA 10 = Some [1%N] /\ productive vA = [1%N] /\
  urun_occ 10 (uinit vA) = Some [0; 1]%N /\            (* per-occurrence decrement: f(1,1,2) fires although 2 generates nothing *)
  urun 10 (uinit_k 2 vA) = Some [0; 1]%N.              (* only two positions waited for: the same *)
Proof. vm_compute. repeat split; reflexivity. Qed.
