(* C06 — the choice-function construction of ExplicitDownwardComplementation::Compute as a top-down run relation over
   macro-states, and its exactness: a macro-state P accepts t iff t is over Sigma and no state of P accepts t in A.
   (A)-level model of the construction; states of the complement are sets of states of A (lists up to set equality). *)
From Coq Require Import List NArith Bool Arith Lia.
Import ListNotations.
From V Require Import Fix Sem Prod Incl TrimDefs TrimProofs Lang ComplDefs ComplProofs.

(* W: the child tuples of the rules of the macro-state P for symbol f (the code's vector W) *)
Definition Wof (A : ta) (P : list N) (f : N) : list (list N) :=
  map ch (filter (fun r => N.eqb (sym r) f && memN (par r) P) (rules A)).

(* the i-th child macro-state under the choice function c : W -> positions *)
Fixpoint pick (W : list (list N)) (c : list nat) (i : nat) : list N :=
  match W, c with
  | w :: W', j :: c' => if Nat.eqb j i then nth i w 0%N :: pick W' c' i else pick W' c' i
  | _, _ => []
  end.

Definition dflt : tree := Node 0 [].

(* one rule  f(P_1, ..., P_k) -> P  per choice function; for W = [] the single (empty) choice gives f(0,..,0) -> P,
   and for k = 0 a choice exists only if W = [] (the leaf rule) *)
Inductive crun (S : sigma) (A : ta) : tree -> list N -> Prop :=
| crun_node f ts P c :
    In (f, length ts) S ->
    length c = length (Wof A P f) ->
    Forall (fun j => j < length ts) c ->
    (forall i, i < length ts -> crun S A (nth i ts dflt) (pick (Wof A P f) c i)) ->
    crun S A (Node f ts) P.

Definition sigma_fun (S : sigma) := forall f k k', In (f, k) S -> In (f, k') S -> k = k'.

Lemma reach_dec A t q : {reach A t q} + {~ reach A t q}.
Proof. destruct (in_dec N.eq_dec q (eval A t)) as [H|H]; [left | right]; rewrite <- eval_spec; auto. Qed.

Lemma Forall2_nth_reach (R : tree -> N -> Prop) ts qs : Forall2 R ts qs -> forall i, i < length ts -> R (nth i ts dflt) (nth i qs 0%N).
Proof. intros F. induction F as [|t q ts qs H F IH]; intros i Hi; simpl in *; [lia|]. destruct i; auto. apply IH. lia. Qed.

Lemma Forall2_of_nth (R : tree -> N -> Prop) : forall ts qs, length ts = length qs ->
  (forall i, i < length ts -> R (nth i ts dflt) (nth i qs 0%N)) -> Forall2 R ts qs.
Proof.
  induction ts as [|t ts IH]; intros [|q qs] E H; simpl in *; try discriminate; constructor.
  - apply (H 0). lia.
  - apply IH; [lia|]. intros i Hi. apply (H (S i)). lia.
Qed.

Lemma pick_intro (Q : list N -> nat -> Prop) W c : Forall2 Q W c -> forall w, In w W ->
  exists j', Q w j' /\ In (nth j' w 0%N) (pick W c j').
Proof.
  intros F. induction F as [|w0 j0 W c H F IH]; intros w Hin; [destruct Hin|].
  destruct Hin as [<-|Hin].
  - exists j0. split; auto. simpl. rewrite Nat.eqb_refl. left; auto.
  - destruct (IH w Hin) as [j' [HQ Hp]]. exists j'. split; auto. simpl. destruct (Nat.eqb j0 j'); [right|]; auto.
Qed.

Lemma pick_elim (Q : list N -> nat -> Prop) W c i x : Forall2 Q W c -> In x (pick W c i) -> exists w, In w W /\ Q w i /\ x = nth i w 0%N.
Proof.
  intros F. induction F as [|w0 j0 W c H F IH]; simpl; intros Hx; [destruct Hx|].
  destruct (Nat.eqb_spec j0 i) as [E|NE].
  - destruct Hx as [<-|Hx]; [exists w0; subst; auto|]. destruct (IH Hx) as [w [Hw [HQ E2]]]. exists w; auto.
  - destruct (IH Hx) as [w [Hw [HQ E2]]]. exists w; auto.
Qed.

Lemma Forall2_of_lists {X Y} (Q : X -> Y -> Prop) (l : list X) (c : list Y) (dy : Y) : length c = length l ->
  (forall j, j < length l -> forall dx, Q (nth j l dx) (nth j c dy)) -> Forall2 Q l c.
Proof.
  revert c. induction l as [|x l IH]; intros [|y c] E H; simpl in *; try discriminate; constructor.
  - apply (H 0 ltac:(lia) x).
  - apply IH; [lia|]. intros j Hj dx. apply (H (S j) ltac:(lia) dx).
Qed.

Lemma Forall2_len {X Y} (Q : X -> Y -> Prop) l l' : Forall2 Q l l' -> length l = length l'.
Proof. intros F; induction F; simpl; auto. Qed.

Lemma Wof_in A P f w : In w (Wof A P f) <-> exists r, In r (rules A) /\ sym r = f /\ In (par r) P /\ ch r = w.
Proof.
  unfold Wof. rewrite in_map_iff. split.
  - intros [r [E H]]. apply filter_In in H as [Hr H]. apply andb_true_iff in H as [H1 H2]. apply N.eqb_eq in H1. apply memN_In in H2. exists r; auto.
  - intros [r [Hr [Hs [Hp E]]]]. exists r. split; auto. apply filter_In. split; auto. rewrite Hs, N.eqb_refl. simpl. apply memN_In; auto.
Qed.

(* finite choice: if every tuple of W fails at some position, one choice function picks a failing position for each *)
Lemma finite_choice (Q : list N -> nat -> Prop) W : (forall w, In w W -> exists j, Q w j) -> exists c, Forall2 Q W c.
Proof.
  induction W as [|w W IH]; intros H; [exists []; constructor|].
  destruct (H w (or_introl eq_refl)) as [j Hj]. destruct IH as [c Hc]; [intros; apply H; right; auto|]. exists (j :: c). constructor; auto.
Qed.

Lemma not_Forall2_pos A ts : forall qs, length ts = length qs -> ~ Forall2 (reach A) ts qs ->
  exists i, i < length ts /\ ~ reach A (nth i ts dflt) (nth i qs 0%N).
Proof.
  induction ts as [|t ts IH]; intros [|q qs] E H; simpl in *; try discriminate.
  - exfalso. apply H. constructor.
  - destruct (reach_dec A t q) as [R|NR].
    + destruct (IH qs ltac:(lia)) as [i [Hi Hn]]; [intros F; apply H; constructor; auto|]. exists (S i). split; [lia | auto].
    + exists 0. split; [lia | auto].
Qed.

Theorem macro_spec S A : ranked S A = true -> sigma_fun S ->
  forall t P, crun S A t P <-> (over S t /\ forall q, In q P -> ~ reach A t q).
Proof.
  intros HR HF. induction t as [f ts IH] using tree_ind'. intros P. rewrite Forall_forall in IH. split.
  - intros Hc. inversion Hc as [f' ts' P' c Hin Hlen Hlt Hch]; subst.
    set (W := Wof A P f) in *.
    assert (Q : Forall2 (fun (w : list N) (j : nat) => j < length ts) W c).
    { apply (Forall2_of_lists _ W c 0); auto. intros j Hj dx. rewrite Forall_forall in Hlt. apply Hlt. apply nth_In. lia. }
    split.
    + constructor; [apply in_sigma_spec; auto|]. apply Forall_forall. intros t Ht.
      destruct (In_nth ts t dflt Ht) as [i [Hi <-]]. apply (IH _ (nth_In ts dflt Hi) (pick W c i)). apply Hch; auto.
    + intros q Hq R. inversion R as [f' ts' r Hr Hs HF2]; subst.
      assert (Hw : In (ch r) W) by (apply Wof_in; exists r; auto).
      destruct (pick_intro _ W c Q (ch r) Hw) as [j [Hj Hp]].
      apply (IH _ (nth_In ts dflt Hj) (pick W c j)) in Hp; [|apply Hch; auto]; auto.
      apply Hp. apply Forall2_nth_reach; auto.
  - intros [Ho Hn]. inversion Ho as [f' ts' Hin HFo]; subst. apply in_sigma_spec in Hin.
    set (W := Wof A P f).
    destruct (finite_choice (fun w j => j < length ts /\ ~ reach A (nth j ts dflt) (nth j w 0%N)) W) as [c Hc].
    { intros w Hw. apply Wof_in in Hw as [r [Hr [Hs [Hp <-]]]].
      assert (Hk : length (ch r) = length ts).
      { unfold ranked in HR. rewrite forallb_forall in HR. specialize (HR r Hr). apply in_sigma_spec in HR. rewrite Hs in HR. apply (HF f); auto. }
      apply not_Forall2_pos; auto. intros F2. apply (Hn (par r) Hp). rewrite <- Hs. constructor; auto. }
    apply (crun_node S A f ts P c); auto.
    + fold W. symmetry. eapply Forall2_len; eauto.
    + apply Forall_forall. intros j Hj. destruct (In_nth c j 0 Hj) as [n [Hn' <-]].
      assert (Hl : length W = length c) by (eapply Forall2_len; eauto).
      clear - Hc Hn' Hl. revert n Hn'. induction Hc as [|w j0 W c [H1 _] F IH2]; intros n Hn'; simpl in *; [lia|].
      destruct n; auto. apply IH2; lia.
    + intros i Hi. apply (IH _ (nth_In ts dflt Hi)). split.
      * rewrite Forall_forall in HFo. apply HFo. apply nth_In; auto.
      * intros q Hq. fold W in Hq. destruct (pick_elim _ W c i q Hc Hq) as [w [Hw [[_ Hnr] ->]]]. auto.
Qed.

(* the complement's root macro-state is the set of final states of A *)
Theorem compl_exact S A : ranked S A = true -> sigma_fun S ->
  forall t, crun S A t (finals A) <-> (over S t /\ ~ accepts A t).
Proof.
  intros HR HF t. rewrite (macro_spec S A HR HF). split; intros [Ho H]; split; auto.
  - intros [q [Hq R]]. apply (H q Hq R).
  - intros q Hq R. apply H. exists q; auto.
Qed.

(* macro-states are sets: the run relation only depends on the set of states (the code sorts and hashes them) *)
Theorem crun_set_ext S A : ranked S A = true -> sigma_fun S ->
  forall t P P', (forall q, In q P <-> In q P') -> (crun S A t P <-> crun S A t P').
Proof.
  intros HR HF t P P' E. rewrite !(macro_spec S A HR HF). split; intros [Ho H]; split; auto; intros q Hq; apply H; apply E; auto.
Qed.

(* non-vacuity: over {a/0, g/1}, A accepts g^n(a) for even n via q0 <-> q1; the complement run accepts g(a) from {q0} *)
Example compl_example :
  let S := [(0%N, 0); (1%N, 1)] in
  let A := {| rules := [ {| sym := 0; ch := []; par := 0 |}; {| sym := 1; ch := [0%N]; par := 1 |}; {| sym := 1; ch := [1%N]; par := 0 |} ]; finals := [0%N] |} in
  ranked S A = true /\ crun S A (Node 1 [Node 0 []]) (finals A).
Proof.
  split; [reflexivity|]. simpl.
  apply (crun_node _ _ 1%N [Node 0%N []] [0%N] [0]); simpl; auto.
  intros i Hi. assert (i = 0) by lia. subst. simpl.
  apply (crun_node _ _ 0%N [] [1%N] []); simpl; auto. intros; lia.
Qed.
