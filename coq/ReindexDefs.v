(* C14: re-indexing states / translating symbols.  Flat images (Lang.image for states, simage here for
   symbols), the nested re-indexing written as ReindexStates iterates (per source cluster fetch-or-create the
   destination cluster, per symbol fetch-or-create the tuple set, insert the translated tuples),
   TranslateSymbols as coded (iterate + AddTransition), read-back maps, and the gates.  Definitions only. *)
From Coq Require Import List NArith Bool.
Import ListNotations.
From V Require Import Sem Prod.
From V Require Lang.
From V Require Import StoreDefs.

(* ---------- symbol image ---------- *)
Definition smap_rule (g : N -> N) (r : rule) : rule := {| sym := g (sym r); ch := ch r; par := par r |}.
Definition simage (g : N -> N) (A : ta) : ta := {| rules := map (smap_rule g) (rules A); finals := finals A |}.
Fixpoint relabel (g : N -> N) (t : tree) : tree := match t with Node f ts => Node (g f) (map (relabel g) ts) end.

(* ---------- maps read back from the implementation: association list + offset for unlisted keys ---------- *)
Definition amap := list (N * N).
Definition app_map (m : amap) (off : N) (x : N) : N := match get x m with Some y => y | None => (x + off)%N end.
Definition has_key (m : amap) (x : N) : bool := match get x m with Some _ => true | None => false end.
Definition total_on (m : amap) (l : list N) : bool := forallb (has_key m) l.
Definition extends (m pre : amap) : bool :=
  forallb (fun e => match get (fst e) m with Some v => N.eqb v (snd e) | None => false end) pre.
Definition functional (m : amap) : bool := nodupNb (map fst m).

(* ---------- nested re-indexing, as the code iterates ---------- *)
Definition reindex_ts (h : N -> N) (ts0 : tset) (d : tset) : tset := fold_left (fun d t => ins (map h t) d) ts0 d.
Definition reindex_cl (h : N -> N) (cl0 : cluster) (d : cluster) : cluster :=
  fold_left (fun d e => upd (fst e) [] (reindex_ts h (snd e)) d) cl0 d.
Definition reindex_nested (h : N -> N) (S D : store) : store :=
  fold_left (fun D e => upd (h (fst e)) [] (reindex_cl h (snd e)) D) S D.
Definition reindex_aut (h : N -> N) (addf : bool) (a d : aut) : aut :=
  {| st := reindex_nested h (st a) (st d);
     fin := if addf then fold_left (fun l q => addN (h q) l) (fin a) (fin d) else fin d |}.
(* TranslateSymbols: copy the finals, iterate the source, AddTransition with the translated symbol *)
Definition translate_aut (g : N -> N) (a : aut) : aut :=
  {| st := fold_left (fun D r => add_rule (smap_rule g r) D) (iter (st a)) []; fin := fin a |}.

Definition flat (a : aut) : ta := {| rules := iter (st a); finals := fin a |}.
(* the automaton built by adding the rules of A in order, then its final states *)
Definition of_ta (A : ta) : aut := run (map Add (rules A) ++ [SetFinals (finals A)]).

(* ---------- gates ---------- *)
Definition ta_set_eq (A B : ta) : bool := set_eqR (rules A) (rules B) && set_eqN (finals A) (finals B).
Definition ta_nodup (R : ta) : bool := nodupRb (rules R) && nodupNb (finals R).
Definition ta_union (A B : ta) : ta := {| rules := rules A ++ rules B; finals := finals A ++ finals B |}.
Definition no_finals (A : ta) : ta := {| rules := rules A; finals := [] |}.
(* result R of re-indexing A under h into a destination that held D before *)
Definition gate_reindex (h : N -> N) (addf : bool) (A D R : ta) : bool :=
  ta_nodup R && ta_set_eq R (ta_union D (if addf then Lang.image h A else no_finals (Lang.image h A))).
Definition gate_image (h : N -> N) (A R : ta) : bool := ta_nodup R && ta_set_eq R (Lang.image h A).
Definition gate_simage (g : N -> N) (A R : ta) : bool := ta_nodup R && ta_set_eq R (simage g A).
(* the read-back contents m of a weak translator / map: extend the pre-filled part, functional, total on the used states *)
Definition gate_translator (pre m : amap) (A : ta) : bool := functional m && extends m pre && total_on m (states A).
Definition inj_onb (h : N -> N) (l : list N) : bool :=
  forallb (fun x => forallb (fun y => implb (N.eqb (h x) (h y)) (N.eqb x y)) l) l.
