Require Extraction.
Require Import ExtrOcamlBasic.
From V Require Import Sem Prod Incl TrimDefs Lang BinopDefs ReduceDefs.
Extraction "ex_c05.ml" reduce_gate reduce_with recover_rep down_sim_rel is_down_simb valid_repb ta_same is_empty nstates nrules equiv_dec onto_gate.
