(* C15 — the witness automaton is a sub-language, empty only for an empty language. Statements only. *)
From Coq Require Import List NArith Bool.
From V Require Import Sem Prod Incl TrimDefs CandDefs CandProofs CandModel.

(* the gate evaluated on libvata's result decides exactly the property *)
Theorem C15_gate : forall A R, cand_gate A R = true <->
  (forall t, accepts R t -> accepts A t) /\ ((exists t, accepts A t) -> exists t, accepts R t).
Proof. exact cand_gate_spec. Qed.
(* any sub-automaton (rules and final states taken from A) that is non-empty whenever A is satisfies the property *)
Theorem C15_candidate_ok_sound : forall A R, candidate_ok A R = true ->
  (forall t, accepts R t -> accepts A t) /\ ((exists t, accepts A t) -> exists t, accepts R t).
Proof. exact candidate_ok_sound. Qed.
Theorem C15_sub_lang : forall A R, cand_sub A R = true -> forall t, accepts R t -> accepts A t.
Proof. exact cand_sub_lang. Qed.
Theorem C15_nonempty : forall A, is_empty A = false <-> exists t, accepts A t.
Proof. exact nonempty_spec. Qed.

(* (A) model of the search (all nullary rules, then one justifying rule per newly reached state, then the reached final
   states and top-down pruning): for every automaton and every order of its rules the result is a sub-automaton that is
   non-empty whenever A is, hence satisfies the property *)
Theorem C15_model_ok : forall A, candidate_ok A (cand_model A) = true.
Proof. exact cand_model_ok. Qed.
Theorem C15_model_property : forall A,
  (forall t, accepts (cand_model A) t -> accepts A t) /\ ((exists t, accepts A t) -> exists t, accepts (cand_model A) t).
Proof. exact cand_model_property. Qed.

Print Assumptions C15_gate.
Print Assumptions C15_model_ok.
Print Assumptions C15_model_property.
Print Assumptions C15_candidate_ok_sound.
Print Assumptions C15_sub_lang.
Print Assumptions C15_nonempty.
