Require Extraction.
Require Import ExtrOcamlBasic.
From Coq Require Import NArith.
From V Require Import ProtoDefs ProtoInst.
Extraction "ex_c20.ml" memo_run allocs_valid pool_run pool_no_alias_b minit pinit N.to_nat N.of_nat.
