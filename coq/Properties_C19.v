(* C19 — results are invariant under renaming / re-ordering and obey the laws of language inclusion. Corollaries of the
   theorems of C01, C02, C03, C05, C14. Statements only. *)
From Coq Require Import List NArith Bool.
From V Require Import Sem Prod Incl TrimDefs TrimProofs Lang InclDefs InclProofs BinopDefs BinopProofs ProductDefs ProductProofs ReduceDefs ReduceProofs LawsDefs LawsProofs TrimEquiv.

(* renaming the states of the operands by maps that are injective on their states never changes a verdict *)
Theorem C19_verdict_equivariant : forall v h k A B, inj_on h (states A) -> inj_on k (states B) ->
  incl_model v (image h A) (image k B) = incl_model v A B.
Proof. exact verdict_equivariant. Qed.
(* ... nor an emptiness answer *)
Theorem C19_empty_equivariant : forall h A, inj_on h (states A) -> is_empty (image h A) = is_empty A.
Proof. exact empty_equivariant. Qed.
(* the order in which rules and final states are added is irrelevant *)
Theorem C19_order_invariant : forall v A A' B B', ta_same A A' = true -> ta_same B B' = true -> incl_model v A B = incl_model v A' B'.
Proof. exact verdict_order_invariant. Qed.
(* every selection computes the same verdict *)
Theorem C19_all_agree : forall v w A B, incl_model v A B = incl_model w A B.
Proof. exact incl_model_agree. Qed.
(* the laws *)
Theorem C19_law_refl : forall v A, incl_model v A A = true.
Proof. exact law_refl. Qed.
Theorem C19_law_union_l : forall v hA hB A B, valid_unionb hA hB A B = true -> incl_model v A (union_with hA hB A B) = true.
Proof. exact law_union_l. Qed.
Theorem C19_law_union_r : forall v hA hB A B, valid_unionb hA hB A B = true -> incl_model v B (union_with hA hB A B) = true.
Proof. exact law_union_r. Qed.
Theorem C19_law_isect_l : forall v A B, incl_model v (isect_td A B) A = true.
Proof. exact law_isect_l. Qed.
Theorem C19_law_isect_r : forall v A B, incl_model v (isect_td A B) B = true.
Proof. exact law_isect_r. Qed.
Theorem C19_law_trans : forall v A B C, incl_model v A B = true -> incl_model v B C = true -> incl_model v A C = true.
Proof. exact law_trans. Qed.
Theorem C19_law_equiv_trim : forall v A, incl_model v A (remove_useless A) = true /\ incl_model v (remove_useless A) A = true.
Proof. exact law_equiv_trim. Qed.
Theorem C19_law_equiv_reindex : forall v h A, inj_on h (states A) -> incl_model v A (image h A) = true /\ incl_model v (image h A) A = true.
Proof. exact law_equiv_reindex. Qed.
Theorem C19_law_equiv_reduce : forall v A D rep, is_down_simb A D = true -> valid_repb A D rep = true ->
  incl_model v A (reduce_with rep A) = true /\ incl_model v (reduce_with rep A) A = true.
Proof. exact law_equiv_reduce. Qed.
(* the judges used on the large automata: an implementation that answers each question with the model's verdict, or not at
   all within the time limit, passes them *)
Theorem C19_agree_sound : forall b l, Forall (answers b) l -> all_agree l = true.
Proof. exact agree_sound. Qed.
Theorem C19_pairwise_sound : forall b l m, Forall (answers b) l -> Forall (answers b) m -> length l = length m -> pairwise_agree l m = true.
Proof. exact pairwise_sound. Qed.
Theorem C19_must_hold_sound : forall o, answers true o -> must_hold o = true.
Proof. exact must_hold_sound. Qed.

(* trimming is equivariant: the surviving states of a renamed automaton are the renamed survivors, so the number of states
   produced by trimming does not depend on the numbering *)
Theorem C19_trim_states_equivariant : forall h A x, inj_on h (states A) ->
  (In x (states (remove_useless (image h A))) <-> exists q, In q (states (remove_useless A)) /\ x = h q).
Proof. exact useless_states_image. Qed.
Theorem C19_trim_size_equivariant : forall h A, inj_on h (states A) -> nstates (remove_useless (image h A)) = nstates (remove_useless A).
Proof. exact trim_size_equivariant. Qed.

Print Assumptions C19_verdict_equivariant.
Print Assumptions C19_trim_states_equivariant.
Print Assumptions C19_trim_size_equivariant.
Print Assumptions C19_empty_equivariant.
Print Assumptions C19_order_invariant.
Print Assumptions C19_all_agree.
Print Assumptions C19_law_refl.
Print Assumptions C19_law_union_l.
Print Assumptions C19_law_union_r.
Print Assumptions C19_law_isect_l.
Print Assumptions C19_law_isect_r.
Print Assumptions C19_law_trans.
Print Assumptions C19_law_equiv_trim.
Print Assumptions C19_law_equiv_reindex.
Print Assumptions C19_law_equiv_reduce.
Print Assumptions C19_agree_sound.
Print Assumptions C19_pairwise_sound.
Print Assumptions C19_must_hold_sound.
