(* C02 (A) increment — how Intersection / IntersectionBU number the states of the product (src/explicit_tree_isect.cc,
   src/explicit_tree_isect_bu.cc): a translation map from pairs to numbers; a pair that is looked up and not found gets the
   number `size of the map` and is appended. Invariant over EVERY sequence of look-ups: the numbers in the map are 0 .. n-1 in
   order of discovery, the keys are distinct, so the map is injective both ways and an entry, once handed out, never changes —
   which is what lets the result be an injective image of the reachable part of the product. The same map with an erase
   operation ("drop dead pairs from the private map") hands one number out twice: refuted by a closed witness. *)
From Coq Require Import List NArith Bool Arith Lia FinFun.
Import ListNotations.

Definition pmap := list (N * N * N).                       (* ((p, q), number), in order of discovery *)
Definition key_eqb (p q : N) (e : N * N * N) : bool := N.eqb (fst (fst e)) p && N.eqb (snd (fst e)) q.
Definition pm_find (m : pmap) (p q : N) : option N := option_map snd (find (key_eqb p q) m).
Definition pm_get (m : pmap) (p q : N) : pmap * N :=
  match pm_find m p q with
  | Some k => (m, k)
  | None => (m ++ [((p, q), N.of_nat (length m))], N.of_nat (length m))
  end.
Definition pm_run (ops : list (N * N)) (m : pmap) : pmap := fold_left (fun m pq => fst (pm_get m (fst pq) (snd pq))) ops m.

(* the variant with erasure *)
Inductive pop := Get (p q : N) | Erase (p q : N).
Definition pm_erase (m : pmap) (p q : N) : pmap := filter (fun e => negb (key_eqb p q e)) m.
Definition pm_step (st : pmap * list (N * N * N)) (o : pop) : pmap * list (N * N * N) :=
  match o with
  | Get p q => let r := pm_get (fst st) p q in (fst r, snd st ++ [((p, q), snd r)])       (* second component: every answer handed out *)
  | Erase p q => (pm_erase (fst st) p q, snd st)
  end.
Definition pm_run_e (ops : list pop) : pmap * list (N * N * N) := fold_left pm_step ops ([], []).

(* ---------- proofs ---------- *)
Definition dense (m : pmap) : Prop := map snd m = map N.of_nat (seq 0 (length m)).
Definition keys_nodup (m : pmap) : Prop := NoDup (map fst m).

Lemma key_eqb_spec p q e : key_eqb p q e = true <-> fst e = (p, q).
Proof. destruct e as [[a b] k]. unfold key_eqb. simpl. rewrite andb_true_iff, !N.eqb_eq. split; [intros [-> ->]; auto | intros E; inversion E; auto]. Qed.

Lemma pm_find_some m p q k : pm_find m p q = Some k -> In ((p, q), k) m.
Proof.
  unfold pm_find. destruct (find (key_eqb p q) m) as [e|] eqn:E; simpl; [|discriminate]. intros H. inversion H; subst.
  apply find_some in E as [Hin Hk]. apply key_eqb_spec in Hk. destruct e as [pq k]. simpl in *. subst. auto.
Qed.
Lemma pm_find_none m p q : pm_find m p q = None -> ~ In (p, q) (map fst m).
Proof.
  unfold pm_find. destruct (find (key_eqb p q) m) as [e|] eqn:E; simpl; [discriminate|]. intros _ Hin.
  apply in_map_iff in Hin as [e [He Hin]]. pose proof (find_none _ _ E e Hin) as X. apply key_eqb_spec in He. congruence.
Qed.

Lemma dense_get m p q : dense m -> dense (fst (pm_get m p q)).
Proof.
  unfold pm_get. destruct (pm_find m p q); simpl; auto. unfold dense. intros H.
  rewrite map_app, app_length, H. simpl. rewrite Nat.add_1_r, seq_S, map_app. reflexivity.
Qed.
Lemma NoDup_snoc {X} (l : list X) x : NoDup l -> ~ In x l -> NoDup (l ++ [x]).
Proof.
  induction l as [|y l IH]; simpl; intros H Hn; [constructor; auto; constructor|].
  inversion H; subst. constructor; [|apply IH; auto].
  rewrite in_app_iff. intros [Hy|[Hy|[]]]; [contradiction | subst; apply Hn; auto].
Qed.
Lemma keys_get m p q : keys_nodup m -> keys_nodup (fst (pm_get m p q)).
Proof.
  unfold pm_get. destruct (pm_find m p q) eqn:E; simpl; auto. unfold keys_nodup. intros H.
  rewrite map_app. simpl. apply NoDup_snoc; auto. apply pm_find_none; auto.
Qed.

(* every entry stays: an answer handed out is never revised *)
Lemma get_stable m p q e : In e m -> In e (fst (pm_get m p q)).
Proof. unfold pm_get. destruct (pm_find m p q); simpl; auto. intros H. apply in_app_iff; auto. Qed.
Lemma get_answer m p q : In ((p, q), snd (pm_get m p q)) (fst (pm_get m p q)).
Proof.
  unfold pm_get. destruct (pm_find m p q) eqn:E; simpl; [apply pm_find_some; auto|]. apply in_app_iff. right. left. auto.
Qed.

Lemma run_inv ops : forall m, dense m -> keys_nodup m -> dense (pm_run ops m) /\ keys_nodup (pm_run ops m) /\ incl m (pm_run ops m).
Proof.
  induction ops as [|[p q] ops IH]; intros m Hd Hk; simpl; [repeat split; auto; apply incl_refl|].
  destruct (IH (fst (pm_get m p q)) (dense_get m p q Hd) (keys_get m p q Hk)) as [A [B C]].
  repeat split; auto. intros e He. apply C. apply get_stable; auto.
Qed.

(* numbers 0 .. n-1 in order: no number occurs twice *)
Lemma dense_nodup m : dense m -> NoDup (map snd m).
Proof. unfold dense. intros ->. apply FinFun.Injective_map_NoDup; [intros x y; apply Nat2N.inj | apply seq_NoDup]. Qed.

Lemma nodup_map_inj {X Y} (f : X -> Y) l : NoDup (map f l) -> forall x y, In x l -> In y l -> f x = f y -> x = y.
Proof.
  induction l as [|a l IH]; simpl; intros H x y Hx Hy E; [destruct Hx|]. inversion H as [|? ? Hn Hnd]; subst.
  destruct Hx as [<-|Hx], Hy as [<-|Hy]; auto.
  - exfalso. apply Hn. rewrite E. apply in_map; auto.
  - exfalso. apply Hn. rewrite <- E. apply in_map; auto.
Qed.

(* for every sequence of look-ups from the empty map: the map is injective in both directions *)
Theorem numbering_injective ops : forall e1 e2, In e1 (pm_run ops []) -> In e2 (pm_run ops []) ->
  (snd e1 = snd e2 -> e1 = e2) /\ (fst e1 = fst e2 -> e1 = e2).
Proof.
  destruct (run_inv ops []) as [A [B _]]; [reflexivity | constructor|].
  intros e1 e2 H1 H2. split; intros E.
  - apply (nodup_map_inj snd _ (dense_nodup _ A)); auto.
  - apply (nodup_map_inj fst _ B); auto.
Qed.
(* ... and what was answered at any earlier moment is still what the final map says *)
Theorem numbering_stable ops1 ops2 p q :
  In ((p, q), snd (pm_get (pm_run ops1 []) p q)) (pm_run (ops1 ++ (p, q) :: ops2) []).
Proof.
  unfold pm_run. rewrite fold_left_app. simpl. fold (pm_run ops1 []).
  set (m := pm_run ops1 []). fold (pm_run ops2 (fst (pm_get m p q))).
  destruct (run_inv ops1 []) as [A [B _]]; [reflexivity | constructor|]. fold m in A, B.
  destruct (run_inv ops2 (fst (pm_get m p q)) (dense_get m p q A) (keys_get m p q B)) as [_ [_ C]].
  apply C. apply get_answer.
Qed.

(* with an erase operation the size of the map no longer identifies a fresh number: two different pairs get one number *)
Theorem numbering_erase_refuted :
  let r := pm_run_e [Get 0 0; Get 1 1; Erase 0 0; Get 2 2] in
  In ((1, 1), 1)%N (snd r) /\ In ((2, 2), 1)%N (snd r) /\ In ((1, 1), 1)%N (fst r) /\ In ((2, 2), 1)%N (fst r).
Proof. vm_compute. repeat split; auto. Qed.
