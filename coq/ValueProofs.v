(* C11, value level: frame property of the pool and its corollaries in the property's words; the flat
   tree values agree with the nested store of C12; the comparisons decide set equality. *)
From Coq Require Import List NArith Bool Lia.
Import ListNotations.
From V Require Import Sem Prod.
From V Require Lang.
From V Require Import StoreDefs StoreProofs ReindexDefs ReindexProofs ValueDefs.

Section Pool.
  Variable V : Type.
  Notation pool := (pool V).
  Notation vstep := (vstep V).

  Lemma pset_same (p : pool) h v : pset p h v h = v.
  Proof. unfold pset. rewrite N.eqb_refl. auto. Qed.
  Lemma pset_other (p : pool) h v x : x <> h -> pset p h v x = p x.
  Proof. unfold pset. intros H. apply N.eqb_neq in H. rewrite H. auto. Qed.

  (* a step changes nothing but the handles it writes *)
  Lemma step_frame (p : pool) (st : vstep) x : ~ In x (written st) -> vstep_run p st x = p x.
  Proof.
    destruct st; simpl; intros H.
    - apply pset_other. intros ->; apply H; auto.
    - destruct (p s); auto. apply pset_other. intros ->; apply H; auto.
    - destruct (p s); auto. rewrite pset_other by (intros ->; apply H; auto). apply pset_other. intros ->; apply H; auto.
    - destruct (p h); auto. apply pset_other. intros ->; apply H; auto.
    - apply pset_other. intros ->; apply H; auto.
    - destruct (p s); auto. apply pset_other. intros ->; apply H; auto.
    - destruct (p s1), (p s2); auto. apply pset_other. intros ->; apply H; auto.
  Qed.

  Theorem frame (l : list vstep) : forall (p : pool) x, (forall st, In st l -> ~ In x (written st)) -> vrun p l x = p x.
  Proof.
    induction l as [|st l IH]; simpl; intros p x H; auto.
    rewrite IH by (intros; apply H; auto). apply step_frame. apply H; auto.
  Qed.

  (* after a copy, whatever later happens to the source (or to any third object) is invisible through the copy ... *)
  Theorem copy_isolated (p : pool) h s v l : p s = Some v -> h <> s ->
    (forall st, In st l -> ~ In h (written st)) -> vrun (vstep_run p (VCopy h s)) l h = Some v.
  Proof. intros Hs Hn Hl. rewrite frame by auto. simpl. rewrite Hs. apply pset_same. Qed.
  (* ... and whatever later happens to the copy is invisible through the source *)
  Theorem copy_isolated_src (p : pool) h s v l : p s = Some v -> h <> s ->
    (forall st, In st l -> ~ In s (written st)) -> vrun (vstep_run p (VCopy h s)) l s = Some v.
  Proof. intros Hs Hn Hl. rewrite frame by auto. simpl. rewrite Hs. rewrite pset_other; auto. Qed.

  Theorem move_transfers (p : pool) h s v l : p s = Some v -> h <> s ->
    (forall st, In st l -> ~ In h (written st)) -> vrun (vstep_run p (VMove h s)) l h = Some v /\ vstep_run p (VMove h s) s = None.
  Proof. intros Hs Hn Hl. rewrite frame by auto. simpl. rewrite Hs. rewrite pset_same. split; auto.
    rewrite pset_other by auto. apply pset_same. Qed.

  (* a result keeps the value it had relative to the operands' values at call time, whatever happens to the operands later *)
  Theorem result_independent_of_operand_fate1 (p : pool) h f s v l : p s = Some v ->
    (forall st, In st l -> ~ In h (written st)) -> vrun (vstep_run p (VLib1 h f s)) l h = Some (f v).
  Proof. intros Hs Hl. rewrite frame by auto. simpl. rewrite Hs. apply pset_same. Qed.
  Theorem result_independent_of_operand_fate2 (p : pool) h f s1 s2 v1 v2 l : p s1 = Some v1 -> p s2 = Some v2 ->
    (forall st, In st l -> ~ In h (written st)) -> vrun (vstep_run p (VLib2 h f s1 s2)) l h = Some (f v1 v2).
  Proof. intros H1 H2 Hl. rewrite frame by auto. simpl. rewrite H1, H2. apply pset_same. Qed.
  (* an operation does not change its operands *)
  Theorem operand_unchanged1 (p : pool) h f s : h <> s -> vstep_run p (VLib1 h f s) s = p s.
  Proof. intros H. apply step_frame. simpl. intros [X|[]]; auto. Qed.
  Theorem operand_unchanged2 (p : pool) h f s1 s2 : h <> s1 -> h <> s2 ->
    vstep_run p (VLib2 h f s1 s2) s1 = p s1 /\ vstep_run p (VLib2 h f s1 s2) s2 = p s2.
  Proof. intros H1 H2. split; apply step_frame; simpl; intros [X|[]]; auto. Qed.

  (* the outcome depends only on the operands' values: after ANY two histories, from any two pools, that leave
     equal values in the operand handles, the operation yields the same result *)
  Theorem op_deterministic1 (p1 p2 : pool) l1 l2 h1 h2 f s1 s2 v :
    vrun p1 l1 s1 = Some v -> vrun p2 l2 s2 = Some v ->
    vstep_run (vrun p1 l1) (VLib1 h1 f s1) h1 = vstep_run (vrun p2 l2) (VLib1 h2 f s2) h2.
  Proof. intros H1 H2. simpl. rewrite H1, H2. rewrite !pset_same. auto. Qed.
  Theorem op_deterministic2 (p1 p2 : pool) l1 l2 h1 h2 f a1 b1 a2 b2 va vb :
    vrun p1 l1 a1 = Some va -> vrun p1 l1 b1 = Some vb -> vrun p2 l2 a2 = Some va -> vrun p2 l2 b2 = Some vb ->
    vstep_run (vrun p1 l1) (VLib2 h1 f a1 b1) h1 = vstep_run (vrun p2 l2) (VLib2 h2 f a2 b2) h2.
  Proof. intros H1 H2 H3 H4. simpl. rewrite H1, H2, H3, H4. rewrite !pset_same. auto. Qed.
End Pool.

(* ---------- the flat tree values are the nested store of C12, flattened ---------- *)
Definition t_step (o : op) (v : ta) : ta :=
  match o with
  | Add r => t_add r v
  | SetFinal q => t_setfinal q v
  | SetFinals qs => {| rules := rules v; finals := finals v ++ qs |}
  | EraseFinals => t_erasefinals v
  | Clear => t_clear v
  end.

Theorem flat_step a o : wf a -> ta_set_eq (flat (step a o)) (t_step o (flat a)) = true.
Proof.
  intros [W F]. apply ta_set_eq_spec. destruct o; simpl.
  - split; [|tauto]. intros x. rewrite (iter_contains _ _ (add_rule_wf r _ W)), contains_add, orb_true_iff, rule_eqb_eq.
    rewrite in_app_iff, (iter_contains _ _ W). simpl. intuition.
  - split; [tauto|]. intros x. rewrite In_addN, in_app_iff. simpl. intuition.
  - split; [tauto|]. intros x. rewrite In_fold_addN, in_app_iff. tauto.
  - split; tauto.
  - split; tauto.
Qed.

(* ---------- comparisons ---------- *)
Lemma pair_eqb_eq p q : pair_eqb p q = true <-> p = q.
Proof. unfold pair_eqb. rewrite andb_true_iff, !N.eqb_eq. destruct p, q; simpl. split; [intros [-> ->]; auto | intros E; inversion E; auto]. Qed.
Lemma edge_eqb_eq e f : edge_eqb e f = true <-> e = f.
Proof. unfold edge_eqb. rewrite andb_true_iff, pair_eqb_eq, N.eqb_eq. destruct e as [p x], f as [q y]; simpl.
  split; [intros [-> ->]; auto | intros E; inversion E; auto]. Qed.
Lemma sub_by_spec {X} (eqb : X -> X -> bool) (H : forall x y, eqb x y = true <-> x = y) l m :
  sub_by eqb l m = true <-> incl l m.
Proof.
  unfold sub_by. rewrite forallb_forall. split.
  - intros A x Hx. specialize (A x Hx). apply existsb_exists in A as [y [Hy E]]. apply H in E. subst; auto.
  - intros A x Hx. apply existsb_exists. exists x. split; auto. apply H; auto.
Qed.

Theorem t_obs_eq_spec m o : t_obs_eq m o = true <->
  (forall r, In r (rules m) <-> In r (rules o)) /\ (forall q, In q (finals m) <-> In q (finals o)).
Proof. apply ta_set_eq_spec. Qed.

Theorem w_obs_eq_spec m o : w_obs_eq m o = true <->
  (forall s, In s (wstartset m) <-> In s (wstartset o)) /\ (forall x, In x (wsyms m) <-> In x (wsyms o)) /\
  (forall q, In q (wfinals m) <-> In q (wfinals o)) /\ (forall e, In e (wedges m) <-> In e (wedges o)).
Proof.
  unfold w_obs_eq, wval_eq. rewrite !andb_true_iff, !(sub_by_spec pair_eqb pair_eqb_eq), !(sub_by_spec edge_eqb edge_eqb_eq), !set_eqN_spec.
  unfold incl. split.
  - intros [[[[[S A] B] C] D] E]. split; [exact S|]. split; [|split].
    + intros x; split; auto.
    + exact C.
    + intros x; split; auto.
  - intros [S [A [B C]]]. split; [split; [split; [split; [split|]|]|]|]; try exact B; try exact S; intros x Hx; try (apply A; auto); try (apply C; auto).
Qed.

Theorem t_union_gate_spec mA mB A B R : t_union_gate mA mB A B R = true ->
  (forall r, In r (rules R) <-> (exists r0, In r0 (rules A) /\ r = Lang.map_rule (app_map mA 0) r0) \/
                                (exists r0, In r0 (rules B) /\ r = Lang.map_rule (app_map mB 0) r0)) /\
  (forall q, In q (finals R) <-> (exists q0, In q0 (finals A) /\ q = app_map mA 0 q0) \/
                                 (exists q0, In q0 (finals B) /\ q = app_map mB 0 q0)).
Proof.
  unfold t_union_gate. rewrite !andb_true_iff, ta_set_eq_spec. intros [[[HR HF] _] _]. split.
  - intros r. rewrite HR. simpl. rewrite in_app_iff, !in_map_iff.
    split; (intros [[x [H1 H2]]|[x [H1 H2]]]; [left|right]; exists x; auto).
  - intros q. rewrite HF. simpl. rewrite in_app_iff, !in_map_iff.
    split; (intros [[x [H1 H2]]|[x [H1 H2]]]; [left|right]; exists x; auto).
Qed.

Theorem t_image_gate_spec h A R : t_image_gate h A R = true <->
  (forall r, In r (rules R) <-> exists r0, In r0 (rules A) /\ r = Lang.map_rule h r0) /\
  (forall q, In q (finals R) <-> exists q0, In q0 (finals A) /\ q = h q0).
Proof.
  unfold t_image_gate. rewrite ta_set_eq_spec. split; intros [HR HF]; split; intros x.
  - rewrite HR. apply image_exact_rules. - rewrite HF. apply image_exact_finals.
  - rewrite HR. symmetry. apply image_exact_rules. - rewrite HF. symmetry. apply image_exact_finals.
Qed.
