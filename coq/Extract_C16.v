(* extraction root for C16 — no proofs are needed to build this file *)
Require Extraction.
Require Import ExtrOcamlBasic.
From V Require Import Gfp LtsSimDefs LtsWorkDefs LtsCountDefs.
Extraction "ex_c16.ml" lts_sim lts_sim_default output input_ok lts_wf partition_ok brel_refl brel_trans brel_dom
  rel_same below gate_lts gate_lts_default init_rel hhk_sim hhkc_sim.
