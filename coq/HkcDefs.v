(* C09 (A) increment — the congruence algorithm for language equivalence / inclusion of NFAs (bisimulation up to congruence,
   src/explicit_finite_incl.cc with src/explicit_finite_congr_fctor_cache_opt.hh): macro-states (sets of states) are explored
   pairwise on the fly; a pair is skipped when it lies in the congruence closure of the pairs already processed or still to do,
   which is tested by rewriting both macro-states to a normal form with the pairs used as rules in both directions
   (GetCongrClosure); otherwise the two macro-states must agree on finality and their successors under every symbol are
   scheduled, depth-first (in front) or breadth-first (at the end). Inclusion L(A) <= L(B) is the equivalence of
   starts(A) u starts(B) and starts(B) in the disjoint union automaton. Fuel-indexed; None = out of fuel. *)
From Coq Require Import List NArith Bool Arith Lia.
Import ListNotations.
From V Require Import Sem TrimDefs Lang NfaDefs.

Definition sset := list N.
Definition prel := list (sset * sset).

Definition post (A : nfa) (X : sset) (a : N) : sset :=
  flat_map (fun p => map edst (filter (fun e => N.eqb (esrc e) p && N.eqb (esym e) a) (edges A))) X.
Definition finb (A : nfa) (X : sset) : bool := existsb (fun q => memN q (nfinals A)) X.
Definition seteq (X Y : sset) : bool := subN X Y && subN Y X.
Definition alphabet (A : nfa) : list N := nodup N.eq_dec (map esym (edges A)).

(* one pass over the rules, each used in both directions: a rule whose one side is contained in the set adds its other side *)
Definition rw_rule (acc : sset) (r : sset * sset) : sset :=
  let acc1 := if subN (fst r) acc then acc ++ snd r else acc in
  if subN (snd r) acc1 then acc1 ++ fst r else acc1.
Definition rw_pass (R : prel) (X : sset) : sset := fold_left rw_rule R X.
Fixpoint rw_norm (n : nat) (R : prel) (X : sset) : sset := match n with 0 => X | S n' => rw_norm n' R (rw_pass R X) end.
Definition in_congr (R : prel) (X Y : sset) : bool :=
  let n := S (length R) in seteq (rw_norm n R X) (rw_norm n R Y).

Fixpoint hkc (A : nfa) (bfs : bool) (fuel : nat) (R todo : prel) : option bool :=
  match fuel with
  | 0 => None
  | S f =>
      match todo with
      | [] => Some true
      | (X, Y) :: t =>
          if in_congr (R ++ t) X Y then hkc A bfs f R t
          else if negb (Bool.eqb (finb A X) (finb A Y)) then Some false
          else let succs := map (fun a => (post A X a, post A Y a)) (alphabet A) in
               hkc A bfs f ((X, Y) :: R) (if bfs then t ++ succs else succs ++ t)
      end
  end.

Definition hkc_equiv (A : nfa) (bfs : bool) (fuel : nat) (X Y : sset) : option bool := hkc A bfs fuel [] [(X, Y)].
(* inclusion of two automata with disjoint state sets *)
Definition hkc_incl (A B : nfa) (bfs : bool) (fuel : nat) : option bool :=
  hkc (napp A B) bfs fuel [] [(nstarts A ++ nstarts B, nstarts B)].

(* total entry point for arbitrary operands: the states are first made disjoint (x -> 2x for A, x -> 2x+1 for B), as the library re-indexes
   the operands before building the union automaton *)
Definition hkc_model (bfs : bool) (fuel : nat) (A B : nfa) : option bool := hkc_incl (nimage d0 A) (nimage d1 B) bfs fuel.
