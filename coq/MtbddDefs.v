(* C17 / C18 — functional model of the reduced ordered multi-terminal decision diagrams of
   src/mtbdd/ondriks_mtbdd.hh and the apply functors.  Definitions only (extracted); the proofs
   are in MtbddProofs.v.

   Conventions taken from the code:
   * constructMTBDD walks the assignment from index 0 upwards and puts every new node ABOVE the
     node built so far, so the highest variable index is at the root;
   * spawnInternal is only reached with low <> high in the apply functors and in projectNode (the
     `lowOutTree == highOutTree` test returns the child instead): [mk];
     constructMTBDD and renameNode call spawnInternal directly: plain [Nd];
   * GetValue / GetMtbddForPrefix follow the high child only for ONE; ZERO and DONT_CARE go low;
   * classifyCase2 / Apply3Functor::classifyCase branch exactly the operands that are internal and
     whose variable is >= the variable of every other internal operand. *)
From Coq Require Import List Arith Bool.
Import ListNotations.

(* value of one position of a SymbolicVarAsgn *)
Inductive tri := T0 | T1 | TX.
Definition is_one (t : tri) : bool := match t with T1 => true | _ => false end.
Definition tri_eqb (a b : tri) : bool :=
  match a, b with T0, T0 => true | T1, T1 => true | TX, TX => true | _, _ => false end.

(* SymbolicVarAsgn::AddVariablesUpTo(i) followed by SetIthVariableValue(i, t) *)
Fixpoint set_nth (a : list tri) (i : nat) (t : tri) : list tri :=
  match i, a with
  | 0, [] => [t]
  | 0, _ :: r => t :: r
  | S k, [] => TX :: set_nth [] k t
  | S k, h :: r => h :: set_nth r k t
  end.

(* all total assignments (no TX) that agree with a on its 0/1 positions *)
Fixpoint refinements (a : list tri) : list (list tri) :=
  match a with
  | [] => [[]]
  | TX :: r => map (cons T0) (refinements r) ++ map (cons T1) (refinements r)
  | t :: r => map (cons t) (refinements r)
  end.

Section DD.
Variable V : Type.
Variable V_eq_dec : forall a b : V, {a = b} + {a <> b}.

Inductive dd := Leaf (v : V) | Nd (x : nat) (lo hi : dd).

Definition dd_eq_dec : forall a b : dd, {a = b} + {a <> b}.
Proof. decide equality. apply Nat.eq_dec. Defined.
Definition dd_eqb (a b : dd) : bool := if dd_eq_dec a b then true else false.

Definition asg := nat -> bool.
Fixpoint ev (d : dd) (s : asg) : V :=
  match d with Leaf v => v | Nd x lo hi => if s x then ev hi s else ev lo s end.

(* OndriksMTBDD::GetValue *)
Fixpoint get_value (d : dd) (a : list tri) : V :=
  match d with
  | Leaf v => v
  | Nd x lo hi => if is_one (nth x a TX) then get_value hi a else get_value lo a
  end.

(* gate for assignments with don't-care positions (the header promises "an arbitrary value" among
   those the assignment can reach): v is the value of d on some total refinement of a *)
Definition dc_gate (d : dd) (a : list tri) (v : V) : bool :=
  existsb (fun t => if V_eq_dec (get_value d t) v then true else false) (refinements a).

(* the `lowOutTree == highOutTree` collapse in front of spawnInternal *)
Definition mk (x : nat) (lo hi : dd) : dd := if dd_eq_dec lo hi then lo else Nd x lo hi.

(* ---- construction ------------------------------------------------------------------------ *)
(* loop of constructMTBDD: i = position in the assignment, off = varTrans *)
Fixpoint chain (asgn : list tri) (i off : nat) (sink proc : dd) : dd :=
  match asgn with
  | [] => proc
  | T1 :: r => chain r (S i) off sink (Nd (i + off) sink proc)
  | T0 :: r => chain r (S i) off sink (Nd (i + off) proc sink)
  | TX :: r => chain r (S i) off sink proc
  end.

Definition is_leaf_val (d : dd) (v : V) : bool :=
  match d with Leaf u => if V_eq_dec u v then true else false | Nd _ _ _ => false end.

(* constructMTBDD(asgn, node, defaultValue, varTrans = +off) *)
Definition construct_from (asgn : list tri) (node : dd) (dflt : V) (off : nat) : dd :=
  if is_leaf_val node dflt then node else chain asgn 0 off (Leaf dflt) node.

(* OndriksMTBDD(asgn, value, defaultValue) *)
Definition construct (asgn : list tri) (v dflt : V) : dd := construct_from asgn (Leaf v) dflt 0.
(* ExtendWith(asgn, offset) of a diagram whose handle carries the default value dflt *)
Definition extend (asgn : list tri) (off : nat) (d : dd) (dflt : V) : dd := construct_from asgn d dflt off.

(* GetMtbddForPrefix(asgn, offset) *)
Fixpoint prefix (asgn : list tri) (off : nat) (d : dd) : dd :=
  match d with
  | Leaf _ => d
  | Nd x lo hi =>
    if x <? off then d
    else if is_one (nth (x - off) asgn TX) then prefix asgn off hi else prefix asgn off lo
  end.

(* ---- apply ------------------------------------------------------------------------------- *)
Fixpoint apply1 (f : V -> V) (d : dd) : dd :=
  match d with
  | Leaf v => Leaf (f v)
  | Nd x lo hi => mk x (apply1 f lo) (apply1 f hi)
  end.

(* classifyCase2, transcribed: (branch node1, branch node2) *)
Definition classify2 (a b : dd) : bool * bool :=
  match a, b with
  | Leaf _, Leaf _ => (false, false)
  | Nd _ _ _, Leaf _ => (true, false)
  | Leaf _, Nd _ _ _ => (false, true)
  | Nd x _ _, Nd y _ _ => (y <=? x, x <=? y)
  end.

Fixpoint apply2 (op : V -> V -> V) (a : dd) : dd -> dd :=
  fix go (b : dd) : dd :=
  match a, b with
  | Leaf u, Leaf v => Leaf (op u v)
  | Nd x al ah, Leaf _ => mk x (apply2 op al b) (apply2 op ah b)
  | Leaf _, Nd y bl bh => mk y (go bl) (go bh)
  | Nd x al ah, Nd y bl bh =>
    match Nat.compare x y with
    | Gt => mk x (apply2 op al b) (apply2 op ah b)
    | Lt => mk y (go bl) (go bh)
    | Eq => mk x (apply2 op al bl) (apply2 op ah bh)
    end
  end.

(* what recDescend hands down for an operand: its child when its variable is the branching one *)
Definition lo_at (x : nat) (d : dd) : dd :=
  match d with Nd y l _ => if y =? x then l else d | Leaf _ => d end.
Definition hi_at (x : nat) (d : dd) : dd :=
  match d with Nd y _ h => if y =? x then h else d | Leaf _ => d end.
Definition topv (d : dd) : option nat := match d with Leaf _ => None | Nd x _ _ => Some x end.
Definition omax (a b : option nat) : option nat :=
  match a, b with
  | None, _ => b
  | _, None => a
  | Some x, Some y => Some (Nat.max x y)
  end.
Definition leaf_val (d : dd) (dflt : V) : V := match d with Leaf v => v | Nd _ _ _ => dflt end.

(* Apply3Functor::classifyCase, transcribed *)
Definition ge_or_leaf (x : nat) (d : dd) : bool := match d with Leaf _ => true | Nd y _ _ => y <=? x end.
Definition classify3 (a b c : dd) : bool * bool * bool :=
  (match a with Nd x _ _ => ge_or_leaf x b && ge_or_leaf x c | Leaf _ => false end,
   match b with Nd y _ _ => ge_or_leaf y a && ge_or_leaf y c | Leaf _ => false end,
   match c with Nd z _ _ => ge_or_leaf z a && ge_or_leaf z b | Leaf _ => false end).

Fixpoint apply3 (op : V -> V -> V -> V) (a : dd) : dd -> dd -> dd :=
  fix go2 (b : dd) : dd -> dd :=
  fix go3 (c : dd) : dd :=
  let m := omax (topv a) (omax (topv b) (topv c)) in
  match a with
  | Nd xa al ah =>
    if (match m with Some x => xa =? x | None => false end)
    then mk xa (apply3 op al (lo_at xa b) (lo_at xa c)) (apply3 op ah (hi_at xa b) (hi_at xa c))
    else
      match b with
      | Nd xb bl bh =>
        if (match m with Some x => xb =? x | None => false end)
        then mk xb (go2 bl (lo_at xb c)) (go2 bh (hi_at xb c))
        else match c with
             | Nd xc cl ch => mk xc (go3 cl) (go3 ch)
             | Leaf w => Leaf w (* unreachable: a is internal, so some operand carries the maximum *)
             end
      | Leaf v =>
        match c with
        | Nd xc cl ch => mk xc (go3 cl) (go3 ch)
        | Leaf w => Leaf w (* unreachable *)
        end
      end
  | Leaf u =>
    match b with
    | Nd xb bl bh =>
      if (match m with Some x => xb =? x | None => false end)
      then mk xb (go2 bl (lo_at xb c)) (go2 bh (hi_at xb c))
      else match c with
           | Nd xc cl ch => mk xc (go3 cl) (go3 ch)
           | Leaf w => Leaf w (* unreachable *)
           end
    | Leaf v =>
      match c with
      | Nd xc cl ch => mk xc (go3 cl) (go3 ch)
      | Leaf w => Leaf (op u v w)
      end
    end
  end.

(* ---- projection, renaming ---------------------------------------------------------------- *)
(* projectNode: the children are projected first; a removed node is replaced by the binary apply of
   its projected children, otherwise collapse / spawnInternal *)
Fixpoint project (pred : nat -> bool) (op : V -> V -> V) (d : dd) : dd :=
  match d with
  | Leaf v => Leaf v
  | Nd x lo hi =>
    let l := project pred op lo in
    let h := project pred op hi in
    if pred x then apply2 op l h else mk x l h
  end.

(* renameNode: spawnInternal without the collapse test *)
Fixpoint rename (rho : nat -> nat) (d : dd) : dd :=
  match d with
  | Leaf v => Leaf v
  | Nd x lo hi => Nd (rho x) (rename rho lo) (rename rho hi)
  end.

(* GetPaths *)
Fixpoint paths_rec (a : list tri) (d : dd) : list (list tri * V) :=
  match d with
  | Leaf v => [(a, v)]
  | Nd x lo hi => paths_rec (set_nth a x T0) lo ++ paths_rec (set_nth a x T1) hi
  end.
Definition paths (d : dd) : list (list tri * V) := paths_rec [] d.

End DD.

Arguments Leaf {V}.
Arguments Nd {V}.
