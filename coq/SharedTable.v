(* Operands that share one transition table (copies of one automaton that differ in their final / start states only — the
   situation copy-on-write creates all the time) invite shortcuts "compare / combine the final states only". This file
   states, about the model, which of these shortcuts are sound and which are not:
     * inclusion:     F_A <= F_B is SUFFICIENT for L(A) <= L(B)                              (shared_finals_incl)
                      but not necessary                                                      (shared_finals_incl_not_necessary)
     * intersection:  L(A_{F1 n F2}) <= L(A_F1) n L(A_F2)                                    (shared_isect_finals_sound)
                      but the converse fails for nondeterministic tables                     (shared_isect_finals_refuted)
     * union:         L(A_{F1 u F2}) = L(A_F1) u L(A_F2)   (the one shortcut libvata takes)   (shared_union_finals_exact)
     * word automata: with one edge list, final states included but start states not,
                      inclusion can fail                                                     (wshared_starts_matter)
     * union without renaming is exact only under full disjointness of the STATE sets; disjointness of the rule-owning and
       final states alone is not enough                                                      (owners_disjoint_not_enough)
   The refutations are closed witnesses decided by the verified deciders (vm_compute). *)
From Coq Require Import List NArith Bool Lia.
Import ListNotations.
From V Require Import Fix Sem Prod Incl TrimDefs TrimProofs Lang.

Local Open Scope N_scope.

Definition fsub (F G : list N) := forall q, In q F -> In q G.

Theorem shared_finals_incl A F G : fsub F G -> lincl (with_finals F A) (with_finals G A).
Proof.
  intros S t Ht. apply (proj1 (with_finals_accepts F A t)) in Ht. destruct Ht as [q [Hq Hr]].
  apply (proj2 (with_finals_accepts G A t)). exists q. split; [apply S; exact Hq | exact Hr].
Qed.

Definition mk (f : N) (c : list N) (p : N) : rule := {| sym := f; ch := c; par := p |}.

(* two states with the same language: {1} is not a subset of {2}, the inclusion holds all the same *)
Definition tblA : ta := {| rules := [mk 0 [] 1; mk 0 [] 2]; finals := [] |}.
Theorem shared_finals_incl_not_necessary :
  exists A F G, lincl (with_finals F A) (with_finals G A) /\ ~ fsub F G.
Proof.
  exists tblA, [1], [2]. split.
  - apply incl_dec_spec. vm_compute. reflexivity.
  - intros H. destruct (H 1 (or_introl eq_refl)) as [E|[]]. discriminate E.
Qed.

Definition finter (F G : list N) : list N := filter (fun q => memN q G) F.
Lemma finter_In F G q : In q (finter F G) <-> In q F /\ In q G.
Proof. unfold finter. rewrite filter_In, memN_In. tauto. Qed.

Theorem shared_isect_finals_sound A F G t :
  accepts (with_finals (finter F G) A) t -> accepts (with_finals F A) t /\ accepts (with_finals G A) t.
Proof.
  intros H. apply (proj1 (with_finals_accepts _ A t)) in H. destruct H as [q [Hq Hr]]. apply finter_In in Hq. destruct Hq.
  split; apply (proj2 (with_finals_accepts _ A t)); exists q; auto.
Qed.

(* the tree a is accepted through state 1 by one operand and through state 2 by the other: no common final state *)
Theorem shared_isect_finals_refuted :
  exists A F G t, accepts (with_finals F A) t /\ accepts (with_finals G A) t /\ ~ accepts (with_finals (finter F G) A) t.
Proof.
  exists tblA, [1], [2], (Node 0 []). repeat split.
  - apply (proj2 (with_finals_accepts _ _ _)). exists 1. split; [left; reflexivity|]. apply eval_spec. vm_compute. auto.
  - apply (proj2 (with_finals_accepts _ _ _)). exists 2. split; [left; reflexivity|]. apply eval_spec. vm_compute. auto.
  - intros H. apply (proj1 (with_finals_accepts _ _ _)) in H. destruct H as [q [Hq _]]. vm_compute in Hq. exact Hq.
Qed.

Theorem shared_union_finals_exact A F G t :
  accepts (with_finals (F ++ G) A) t <-> accepts (with_finals F A) t \/ accepts (with_finals G A) t.
Proof.
  rewrite !with_finals_accepts. split.
  - intros [q [Hq Hr]]. apply in_app_or in Hq. destruct Hq; [left|right]; exists q; auto.
  - intros [[q [Hq Hr]]|[q [Hq Hr]]]; exists q; split; auto; apply in_or_app; auto.
Qed.

(* M : 0 -a-> 1 -b-> 2, start {0}, final {2}; the copy got the further start state 1: it accepts "b", M does not *)
Definition nM : nfa := {| nstarts := [0]; nfinals := [2]; edges := [(0, 0, 1); (1, 1, 2)] |}.
Definition nN : nfa := {| nstarts := [0; 1]; nfinals := [2]; edges := [(0, 0, 1); (1, 1, 2)] |}.
Theorem wshared_starts_matter :
  edges nN = edges nM /\ fsub (nfinals nN) (nfinals nM) /\ ~ wlincl nN nM.
Proof.
  split; [reflexivity|]. split; [intros q H; exact H|].
  intros H. apply wincl_dec_spec in H. vm_compute in H. discriminate H.
Qed.

(* A: a -> 0 (final 0).  B: g(0) -> 10 (final 10); state 0 has no rule in B, so L(B) is empty. The rule-owning and final
   states {0} and {10} are disjoint, the state sets are not; appending the tables without renaming accepts g(a) *)
Definition uA : ta := {| rules := [mk 0 [] 0]; finals := [0] |}.
Definition uB : ta := {| rules := [mk 2 [0] 10]; finals := [10] |}.
Definition owners (A : ta) : list N := map par (rules A) ++ finals A.
Theorem owners_disjoint_not_enough :
  disjoint (owners uA) (owners uB) /\
  exists t, accepts (ta_app uA uB) t /\ ~ accepts uA t /\ ~ accepts uB t.
Proof.
  split.
  - intros x Hx Hy. vm_compute in Hx, Hy. destruct Hx as [<-|[<-|[]]]; destruct Hy as [E|[E|[]]]; discriminate E.
  - exists (Node 2 [Node 0 []]).
    assert (D : forall A t, accepts A t <-> existsb (fun q => memN q (finals A)) (eval A t) = true).
    { intros A t. rewrite existsb_exists. split.
      - intros [q [Hf Hr]]. exists q. split; [apply eval_spec; auto | apply memN_In; auto].
      - intros [q [Hr Hf]]. exists q. split; [apply memN_In; auto | apply eval_spec; auto]. }
    rewrite !D. vm_compute. repeat split; auto; intros E; discriminate E.
Qed.

(* D14: the rules of an earlier right operand left behind in a table that the left operand shares become live in a later union.
   A = {f(a,a)} over states 100, 101;  B = g+(b) over states 0, 1;  C = {g(a)} over states 0, 1 (B and C re-use numbers, each is
   disjoint from A). The table "rules A ++ rules B" (what UnionDisjointStates(A, B) left in A's shared table) united with C accepts
   g(g(a)), which is neither in L(A) nor in L(C). *)
Definition dA : ta := {| rules := [mk 0 [] 100; mk 3 [100; 100] 101]; finals := [101] |}.
Definition dB : ta := {| rules := [mk 1 [] 0; mk 2 [0] 1; mk 2 [1] 1]; finals := [1] |}.
Definition dC : ta := {| rules := [mk 0 [] 0; mk 2 [0] 1]; finals := [1] |}.
Definition polluted (A B : ta) : ta := {| rules := rules A ++ rules B; finals := finals A |}.     (* A after the call: same final states *)
Theorem ud_garbage_becomes_live :
  disjoint (states dA) (states dB) /\ disjoint (states dA) (states dC) /\
  (forall t, accepts (polluted dA dB) t <-> accepts dA t) /\
  exists t, accepts (ta_app (polluted dA dB) dC) t /\ ~ accepts dA t /\ ~ accepts dC t.
Proof.
  assert (D : forall A t, accepts A t <-> existsb (fun q => memN q (finals A)) (eval A t) = true).
  { intros A t. rewrite existsb_exists. split.
    - intros [q [Hf Hr]]. exists q. split; [apply eval_spec; auto | apply memN_In; auto].
    - intros [q [Hr Hf]]. exists q. split; [apply memN_In; auto | apply eval_spec; auto]. }
  split; [intros x Hx Hy; vm_compute in Hx, Hy; repeat (destruct Hx as [<-|Hx]; [repeat (destruct Hy as [E|Hy]; [discriminate E|]); destruct Hy|]); destruct Hx|].
  split; [intros x Hx Hy; vm_compute in Hx, Hy; repeat (destruct Hx as [<-|Hx]; [repeat (destruct Hy as [E|Hy]; [discriminate E|]); destruct Hy|]); destruct Hx|].
  split.
  - apply equiv_dec_spec. vm_compute. reflexivity.
  - exists (Node 2 [Node 2 [Node 0 []]]). rewrite !D. vm_compute. repeat split; auto; intros E; discriminate E.
Qed.

(* the sound version of the shortcut for word automata sharing their transitions: start AND final states included *)
Theorem wshared_incl_sufficient (A B : nfa) :
  edges A = edges B -> fsub (nstarts A) (nstarts B) -> fsub (nfinals A) (nfinals B) -> wlincl A B.
Proof.
  intros E Hs Hf w [p [q [Hp [Hq R]]]]. exists p, q. split; [apply Hs; auto|]. split; [apply Hf; auto|].
  clear Hp Hq. revert p R. induction w as [|a w IH]; simpl; intros p R; auto.
  destruct R as [m [He R]]. exists m. split; [rewrite <- E; exact He | apply IH; exact R].
Qed.
