(* C15 — witness automaton (GetCandidateTree): gate and structural sufficient condition. Definitions only. *)
From Coq Require Import List NArith Bool.
Import ListNotations.
From V Require Import Fix Sem Prod Incl TrimDefs.

(* the property itself, on a result R *)
Definition cand_gate (A R : ta) : bool := incl_dec R A && (is_empty A || negb (is_empty R)).
(* structural fast path: R is a sub-automaton of A *)
Definition cand_sub (A R : ta) : bool := subR (rules R) (rules A) && subN (finals R) (finals A).
Definition candidate_ok (A R : ta) : bool := cand_sub A R && (is_empty A || negb (is_empty R)).
