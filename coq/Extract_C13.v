(* extraction root for C13 — no proofs are needed to build this file *)
Require Extraction.
Require Import ExtrOcamlBasic.
From V Require Import TimbukDefs.
Extraction "ex_c13.ml" serialize parse wf_desc wf_desc_uniform desc_same desc_strict text_denotes
  fa_same text_denotes_fa is_fa sub_t sub_b mem_t mem_b same_b trim words parse_trans_line parse_int show_int.
