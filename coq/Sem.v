(* Semantics shared by all tree properties: trees, rules, automata, bottom-up runs; verified evaluator. *)
From Coq Require Import List NArith Bool Lia.
Import ListNotations.

Inductive tree := Node (f : N) (ts : list tree).

Section TreeInd.
  Variable P : tree -> Prop.
  Hypothesis H : forall f ts, Forall P ts -> P (Node f ts).
  Fixpoint tree_ind' (t : tree) : P t :=
    match t with Node f ts =>
      H f ts ((fix go (l : list tree) : Forall P l :=
                 match l with [] => Forall_nil _ | x :: r => Forall_cons _ (tree_ind' x) (go r) end) ts)
    end.
End TreeInd.

Record rule := { sym : N; ch : list N; par : N }.
Record ta := { rules : list rule; finals : list N }.

Inductive reach (A : ta) : tree -> N -> Prop :=
| reach_node f ts r : In r (rules A) -> sym r = f -> Forall2 (reach A) ts (ch r) -> reach A (Node f ts) (par r).

Definition accepts A t := exists q, In q (finals A) /\ reach A t q.

Definition memN (x : N) (l : list N) : bool := existsb (N.eqb x) l.
Lemma memN_In x l : memN x l = true <-> In x l.
Proof. unfold memN. rewrite existsb_exists. split.
  - intros [y [Hy E]]. apply N.eqb_eq in E. subst; auto.
  - intros Hx. exists x. split; auto. apply N.eqb_refl. Qed.

Fixpoint matches (qs : list N) (css : list (list N)) : bool :=
  match qs, css with
  | [], [] => true
  | q :: qs', cs :: css' => memN q cs && matches qs' css'
  | _, _ => false
  end.

Fixpoint eval (A : ta) (t : tree) : list N :=
  match t with Node f ts =>
    let css := map (eval A) ts in
    flat_map (fun r => if N.eqb (sym r) f && matches (ch r) css then [par r] else []) (rules A)
  end.

Lemma matches_spec A : forall ts qs,
  Forall (fun t => forall q, In q (eval A t) <-> reach A t q) ts ->
  (matches qs (map (eval A) ts) = true <-> Forall2 (reach A) ts qs).
Proof.
  induction ts as [|t ts IH]; intros qs HF; destruct qs as [|q qs]; simpl.
  - split; auto.
  - split; [discriminate| intros X; inversion X].
  - split; [discriminate| intros X; inversion X].
  - inversion HF as [|? ? Ht Hts]; subst. rewrite andb_true_iff, memN_In, Ht, (IH qs Hts).
    split; [intros [? ?]; constructor; auto | intros X; inversion X; subst; auto].
Qed.

Theorem eval_spec A : forall t q, In q (eval A t) <-> reach A t q.
Proof.
  induction t as [f ts IH] using tree_ind'. intros q. simpl. rewrite in_flat_map. split.
  - intros [r [Hr Hq]]. destruct (N.eqb (sym r) f) eqn:E; simpl in Hq; [|contradiction].
    destruct (matches (ch r) (map (eval A) ts)) eqn:M; simpl in Hq; [|contradiction].
    destruct Hq as [<-|[]]. apply N.eqb_eq in E. constructor; auto. apply (matches_spec A ts (ch r) IH); auto.
  - intros R. inversion R as [f' ts' r Hr Hs HF]; subst. exists r. split; auto.
    rewrite N.eqb_refl. simpl. apply (matches_spec A ts (ch r) IH) in HF. rewrite HF. simpl; auto.
Qed.
