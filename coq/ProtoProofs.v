From Coq Require Import List NArith Bool Lia.
Import ListNotations.
From V Require Import ProtoDefs.

Section MemoProofs.
Variable V : Type.
Variable veqb : V -> V -> bool.
Variable f : V -> V -> bool.
Notation mstate := (mstate V).
Notation val_of := (val_of V).
Notation is_live := (is_live V).
Notation mstep := (mstep V veqb f).
Notation mrun := (mrun V veqb f).

(* every memo entry is about two live objects and holds the value of f on their CURRENT contents *)
Definition MInv (s : mstate) : Prop :=
  forall a b r, In ((a, b), r) (memo V s) -> exists x y, val_of s a = Some x /\ val_of s b = Some y /\ r = f x y.

Lemma val_of_live s a x : val_of s a = Some x -> is_live s a = true.
Proof.
  unfold ProtoDefs.val_of, ProtoDefs.is_live. destruct (find _ _) as [e|] eqn:E; [|discriminate]. intros _.
  apply find_some in E as [H1 H2]. apply existsb_exists. exists e; auto.
Qed.

Lemma val_of_cons s a v c : val_of {| live := (a, v) :: live V s; memo := memo V s |} c = if N.eqb a c then Some v else val_of s c.
Proof. unfold ProtoDefs.val_of; simpl. destruct (N.eqb a c); reflexivity. Qed.

Lemma find_filter_ne (l : list (N * V)) a c : c <> a ->
  find (fun e => N.eqb (fst e) c) (filter (fun e => negb (N.eqb (fst e) a)) l) = find (fun e => N.eqb (fst e) c) l.
Proof.
  intros Hne. induction l as [|[h v] l IH]; simpl; auto.
  destruct (N.eqb_spec h a) as [E|NE]; simpl.
  - subst. destruct (N.eqb_spec a c); [congruence | auto].
  - destruct (N.eqb h c); auto.
Qed.

Lemma memo_find_in m a b r : memo_find m a b = Some r -> In ((a, b), r) m.
Proof.
  unfold memo_find. destruct (find _ m) as [[[a' b'] r']|] eqn:E; [|discriminate]. intros H; inversion H; subst.
  apply find_some in E as [H1 H2]. simpl in H2. apply andb_true_iff in H2 as [E1 E2]. apply N.eqb_eq in E1, E2. subst; auto.
Qed.

Theorem mstep_inv s o : MInv s -> MInv (fst (mstep true s o)).
Proof.
  intros I. destruct o as [v a|a|a b]; simpl.
  - destruct (addr_of V veqb s v); simpl; auto. destruct (is_live s a) eqn:L; simpl; auto.
    intros c d r Hin. simpl in Hin. destruct (I c d r Hin) as [x [y [Hx [Hy E]]]]. exists x, y. rewrite !val_of_cons.
    assert (Hc : N.eqb a c = false). { apply N.eqb_neq. intros ->. apply val_of_live in Hx. congruence. }
    assert (Hd : N.eqb a d = false). { apply N.eqb_neq. intros ->. apply val_of_live in Hy. congruence. }
    rewrite Hc, Hd. auto.
  - intros c d r Hin. simpl in Hin. unfold invalidate in Hin. apply filter_In in Hin as [Hin Hne]. simpl in Hne.
    apply andb_true_iff in Hne as [N1 N2]. apply negb_true_iff, N.eqb_neq in N1, N2.
    destruct (I c d r Hin) as [x [y [Hx [Hy E]]]]. exists x, y. unfold ProtoDefs.val_of in *. simpl.
    rewrite !find_filter_ne by auto. auto.
  - destruct (val_of s a) as [x|] eqn:Ex; simpl; auto. destruct (val_of s b) as [y|] eqn:Ey; simpl; auto.
    destruct (memo_find (memo V s) a b) as [r|]; simpl; auto.
    intros c d r Hin. simpl in Hin. destruct Hin as [Hin|Hin]; [inversion Hin; subst; exists x, y; auto | apply I; auto].
Qed.

(* a lookup never returns a value computed for contents that have since died: it returns f of the current contents *)
Theorem mstep_lookup_sound s a b s' r : MInv s -> mstep true s (MLookup V a b) = (s', Some r) ->
  exists x y, val_of s a = Some x /\ val_of s b = Some y /\ r = f x y.
Proof.
  intros I. simpl. destruct (val_of s a) as [x|] eqn:Ex; [|discriminate]. destruct (val_of s b) as [y|] eqn:Ey; [|discriminate].
  destruct (memo_find (memo V s) a b) as [r0|] eqn:Em.
  - intros H; inversion H; subst. apply memo_find_in in Em. destruct (I a b r Em) as [x' [y' [Hx [Hy E]]]].
    exists x, y. rewrite Ex in Hx. rewrite Ey in Hy. inversion Hx; inversion Hy; subst. auto.
  - intros H; inversion H; subst. exists x, y; auto.
Qed.

Lemma minit_inv : MInv (minit V).
Proof. intros a b r []. Qed.

(* ... along every history from the initial state, whatever addresses the allocator reuses *)
Fixpoint sound_outputs (s : mstate) (ops : list (mop V)) : Prop :=
  match ops with
  | [] => True
  | o :: rest =>
      (match o, snd (mstep true s o) with
       | MLookup _ a b, Some r => exists x y, val_of s a = Some x /\ val_of s b = Some y /\ r = f x y
       | _, _ => True
       end) /\ sound_outputs (fst (mstep true s o)) rest
  end.

Theorem memo_sound_under_reuse_from s ops : MInv s -> sound_outputs s ops.
Proof.
  revert s. induction ops as [|o rest IH]; intros s I; cbn [sound_outputs]; auto. split; [|apply IH, mstep_inv; auto].
  destruct o as [v a|a|a b].
  - destruct (snd (mstep true s (MAlloc V v a))); exact Logic.I.
  - destruct (snd (mstep true s (MRelease V a))); exact Logic.I.
  - destruct (mstep true s (MLookup V a b)) as [s' [r|]] eqn:E; cbn [snd]; [|exact Logic.I].
    eapply mstep_lookup_sound; eauto.
Qed.

Theorem memo_sound_under_reuse ops : sound_outputs (minit V) ops.
Proof. apply memo_sound_under_reuse_from, minit_inv. Qed.
End MemoProofs.

(* without the deleter's invalidation a recycled address makes the memo return a stale answer *)
Definition stale_history : list (mop N) :=
  [MAlloc N 0 0; MAlloc N 5 1; MLookup N 0 1; MRelease N 0; MAlloc N 9 0; MLookup N 0 1]%N.
Theorem memo_without_invalidation_refuted :
  snd (mrun N N.eqb N.leb false (minit N) stale_history) = [None; None; Some true; None; None; Some true] /\
  snd (mrun N N.eqb N.leb true (minit N) stale_history) = [None; None; Some true; None; None; Some false] /\
  N.leb 9 5 = false.
Proof. vm_compute. repeat split; reflexivity. Qed.

(* ---------- CachingAllocator ---------- *)
Definition PInv (s : pstate) : Prop :=
  NoDup (pfree s) /\ NoDup (plive s) /\ (forall p, In p (pfree s) -> ~ In p (plive s)) /\
  (forall p, In p (pfree s) \/ In p (plive s) -> (p < pnext s)%N).

Lemma pinit_inv : PInv pinit.
Proof. repeat split; simpl; try constructor; intros; tauto. Qed.

Lemma filter_nodup' {X} (p : X -> bool) l : NoDup l -> NoDup (filter p l).
Proof. induction 1 as [|x l Hx H IH]; simpl; [constructor|]. destruct (p x); auto. constructor; auto. rewrite filter_In. tauto. Qed.

Theorem pstep_inv s o : PInv s -> pop_ok s o = true -> PInv (fst (pstep s o)).
Proof.
  intros [F [L [D B]]] Hok. destruct o as [|p]; simpl.
  - destruct (pfree s) as [|q r] eqn:E; simpl.
    + repeat split; simpl; auto; try constructor; auto.
      * intros H. apply (N.lt_irrefl (pnext s)). apply B. right; auto.
      * intros p [[]|[<-|H]]; [lia | specialize (B p (or_intror H)); lia].
    + inversion F; subst. repeat split; simpl; auto.
      * constructor; auto. apply D. left; auto.
      * intros p Hp [<-|H]; [contradiction | apply (D p); auto; right; auto].
      * intros p [H|[<-|H]]; apply B; auto; left; [right|left]; auto.
  - simpl in Hok. apply existsb_exists in Hok as [q [Hq E]]. apply N.eqb_eq in E. subst q.
    repeat split; simpl.
    + constructor; auto. intros H. apply (D p H Hq).
    + apply filter_nodup'; auto.
    + intros q [<-|H] Hin; apply filter_In in Hin as [Hin Hne].
      * rewrite N.eqb_refl in Hne. discriminate.
      * apply (D q H Hin).
    + intros q [[<-|H]|H]; [apply B; right; auto | apply B; left; auto | apply filter_In in H as [H _]; apply B; right; auto].
Qed.

(* the pool never hands out an object that is live *)
Theorem pool_no_alias s p : PInv s -> snd (pstep s PAlloc) = Some p -> ~ In p (plive s).
Proof.
  intros [F [L [D B]]]. simpl. destruct (pfree s) as [|q r] eqn:E; simpl; intros H; inversion H; subst.
  - intros Hin. apply (N.lt_irrefl (pnext s)). apply B. right; auto.
  - apply D. left; auto.
Qed.

Fixpoint pool_ok_run (s : pstate) (ops : list pop) : Prop :=
  match ops with
  | [] => True
  | o :: rest => pop_ok s o = true /\ pool_ok_run (fst (pstep s o)) rest
  end.
Fixpoint no_alias_run (s : pstate) (ops : list pop) : Prop :=
  match ops with
  | [] => True
  | o :: rest => (match snd (pstep s o) with Some p => ~ In p (plive s) | None => True end) /\ no_alias_run (fst (pstep s o)) rest
  end.
Theorem pool_no_alias_run s ops : PInv s -> pool_ok_run s ops -> no_alias_run s ops.
Proof.
  revert s. induction ops as [|o rest IH]; intros s I H; simpl; auto. destruct H as [Hok H]. split; [|apply IH; auto; apply pstep_inv; auto].
  destruct o as [|p]; [|simpl; auto]. destruct (snd (pstep s PAlloc)) as [p|] eqn:E; auto. apply pool_no_alias; auto.
Qed.

(* reclaiming the same object twice (a client or allocator bug) makes the pool hand out a live object *)
Theorem pool_double_reclaim_refuted :
  snd (prun pinit [PAlloc; PReclaim 0; PReclaim 0; PAlloc; PAlloc]%N) = [Some 0; None; None; Some 0; Some 0]%N.
Proof. vm_compute. reflexivity. Qed.
