(* C10 — the breadth-first search of GetCandidateTree as repaired (NfaDefs.ncandidate): for every NFA
   the result is a sub-automaton, and it accepts some word whenever the operand does; the structural
   fuel of the search (one more than the number of state occurrences) is never exhausted. *)
From Coq Require Import List NArith Bool Arith Lia.
Import ListNotations.
From V Require Import Fix Sem Prod Incl TrimDefs TrimProofs Lang NfaDefs NfaProofs.

Definition E (es : list edge) : nfa := {| nstarts := []; nfinals := []; edges := es |}.

Lemma nfa_sub_trans A B C : nfa_sub A B = true -> nfa_sub B C = true -> nfa_sub A C = true.
Proof.
  rewrite !nfa_sub_spec. intros [H1 [H2 H3]] [K1 [K2 K3]].
  split; [|split]; eapply incl_tran; eauto.
Qed.

Section Cand.
Variable A : nfa.

Lemma cand_scan_spec : forall es seen queue r seen' queue',
  cand_scan A es seen queue = (r, (seen', queue')) ->
  incl seen seen' /\ incl queue queue' /\
  (forall x, In x seen' -> In x seen \/ (In x queue' /\ exists e, In e es /\ edst e = x)) /\
  (forall x, In x queue' -> In x queue \/ In x seen') /\
  (NoDup seen -> NoDup seen') /\
  length seen' + length queue = length seen + length queue' /\
  match r with
  | Some q => exists e, In e es /\ edst e = q /\ memN q (nfinals A) = true
  | None => forall e, In e es -> In (edst e) seen' /\ memN (edst e) (nfinals A) = false
  end.
Proof.
  induction es as [|e es IH]; intros seen queue r seen' queue' H; simpl in H.
  - inversion H; subst. repeat split; auto using incl_refl; match goal with X : In _ [] |- _ => destruct X end.
  - set (q := edst e) in *.
    set (sq := if memN q seen then (seen, queue) else (q :: seen, queue ++ [q])) in *.
    assert (S1 : incl seen (fst sq) /\ incl queue (snd sq) /\ In q (fst sq) /\
                 (forall x, In x (fst sq) -> In x seen \/ (x = q /\ In x (snd sq))) /\
                 (forall x, In x (snd sq) -> In x queue \/ In x (fst sq)) /\
                 (NoDup seen -> NoDup (fst sq)) /\
                 length (fst sq) + length queue = length seen + length (snd sq)).
    { unfold sq. destruct (memN q seen) eqn:Em; simpl.
      - apply memN_In in Em. repeat split; auto using incl_refl.
      - assert (Hn : ~ In q seen) by (intros X; apply memN_In in X; congruence).
        split; [intros x Hx; right; auto|].
        split; [intros x Hx; apply in_or_app; auto|].
        split; [left; auto|].
        split; [intros x [<-|Hx]; auto; right; split; auto; apply in_or_app; right; simpl; auto|].
        split; [intros x Hx; apply in_app_or in Hx as [Hx|[<-|[]]]; auto; right; left; auto|].
        split; [intros ND; constructor; auto|].
        rewrite app_length; simpl; lia. }
    clearbody sq. destruct sq as [s1 q1]. cbn [fst snd] in *.
    destruct S1 as [A1 [A2 [A3 [A4 [A5 [A6 A7]]]]]].
    destruct (memN q (nfinals A)) eqn:Ef.
    + inversion H; subst. repeat split; auto.
      * intros x Hx. apply A4 in Hx as [Hx|[-> Hx]]; auto. right. split; auto. exists e. simpl; auto.
      * exists e. simpl; auto.
    + apply IH in H as [B1 [B2 [B3 [B4 [B5 [B6 B7]]]]]]. repeat split.
      * eapply incl_tran; eauto.
      * eapply incl_tran; eauto.
      * intros x Hx. apply B3 in Hx as [Hx|[Hx [e' [He' Ee']]]].
        -- apply A4 in Hx as [Hx|[-> Hx]]; auto. right. split; [apply B2; auto|]. exists e. simpl; auto.
        -- right. split; auto. exists e'. simpl; auto.
      * intros x Hx. apply B4 in Hx as [Hx|Hx]; auto. apply A5 in Hx as [Hx|Hx]; auto.
      * auto.
      * lia.
      * destruct r as [q'|].
        -- destruct B7 as [e' [He' X]]. exists e'. simpl; auto.
        -- intros e' [<-|He']; auto; try (split; [apply B1; auto | auto]).
Qed.

Hypothesis no_final_start : forall s, In s (nstarts A) -> memN s (nfinals A) = false.

Record BInv (seen queue : list N) (acc : list edge) : Prop := {
  b_starts : incl (nstarts A) seen;
  b_queue : incl queue seen;
  b_proc : forall s, In s seen -> In s queue \/
      (forall e, In e (edges A) -> esrc e = s -> In e acc /\ In (edst e) seen /\ memN (edst e) (nfinals A) = false);
  b_reach : forall s, In s seen -> exists p w, In p (nstarts A) /\ wpath (E acc) w p s;
  b_acc : incl acc (edges A);
  b_nodup : NoDup seen;
  b_sub : incl seen (nstates A) }.

Lemma out_edges_spec s e : In e (out_edges A s) <-> In e (edges A) /\ esrc e = s.
Proof. unfold out_edges. rewrite filter_In, N.eqb_eq. tauto. Qed.

Lemma closed_no_word seen acc : BInv seen [] acc -> forall w, ~ waccepts A w.
Proof.
  intros I.
  assert (P : forall w p q, In p seen -> wpath A w p q -> In q seen /\ (w <> [] -> memN q (nfinals A) = false)).
  { induction w as [|a w IH]; simpl; intros p q Hp H.
    - subst. split; auto. congruence.
    - destruct H as [m [He H]]. destruct (b_proc _ _ _ I p Hp) as [[]|Hc].
      destruct (Hc (p, a, m) He eq_refl) as [_ [Hm Hf]]. unfold edst in *; simpl in *.
      destruct (IH m q Hm H) as [Hq Hn]. split; auto. intros _. destruct w as [|b w]; [simpl in H; subst; auto | apply Hn; discriminate]. }
  intros w [p [q [Hp [Hq H]]]]. apply memN_In in Hq.
  destruct (P w p q (b_starts _ _ _ I p Hp) H) as [_ Hn].
  destruct w as [|a w].
  - simpl in H. subst. rewrite (no_final_start q Hp) in Hq. discriminate.
  - rewrite Hn in Hq by discriminate. discriminate.
Qed.

Lemma E_mono es es' w p q : incl es es' -> wpath (E es) w p q -> wpath (E es') w p q.
Proof. intros H. apply wpath_mono. simpl. auto. Qed.

Lemma cand_bfs_spec : forall fuel seen queue acc fs es,
  BInv seen queue acc -> S (length (nstates A)) + length queue <= fuel + length seen ->
  cand_bfs fuel A seen queue acc = (fs, es) ->
  incl es (edges A) /\
  ((exists q, fs = [q] /\ In q (nfinals A) /\ exists p w, In p (nstarts A) /\ wpath (E es) w p q) \/
   (fs = [] /\ forall w, ~ waccepts A w)).
Proof.
  induction fuel as [|f IH]; intros seen queue acc fs es I Hc H.
  - exfalso. pose proof (NoDup_incl_length (b_nodup _ _ _ I) (b_sub _ _ _ I)). lia.
  - simpl in H. destruct queue as [|s rest].
    + inversion H; subst. split; [apply (b_acc _ _ _ I)|]. right. split; auto. eapply closed_no_word; eauto.
    + destruct (cand_scan A (out_edges A s) seen rest) as [r [seen' queue']] eqn:Es.
      apply cand_scan_spec in Es as [B1 [B2 [B3 [B4 [B5 [B6 B7]]]]]].
      assert (Hs : In s seen) by (apply (b_queue _ _ _ I); left; auto).
      assert (Hacc : incl (acc ++ out_edges A s) (edges A)).
      { intros e He. apply in_app_or in He as [He|He]; [apply (b_acc _ _ _ I); auto | apply out_edges_spec in He; tauto]. }
      destruct r as [q|].
      * inversion H; subst. split; auto. left. destruct B7 as [e [He [Ee Ef]]]. subst q.
        exists (edst e). split; auto. split; [apply memN_In; auto|].
        destruct (b_reach _ _ _ I s Hs) as [p [w [Hp Hw]]]. exists p, (w ++ [esym e]). split; auto.
        apply (wpath_snoc (E (acc ++ out_edges A s)) w (esym e) p s (edst e)).
        -- eapply E_mono; [|exact Hw]. apply incl_appl, incl_refl.
        -- simpl. apply in_or_app. right. apply out_edges_spec in He as He'. destruct He' as [_ Hsrc].
           assert (Ee2 : (s, esym e, edst e) = e) by (rewrite <- Hsrc; symmetry; apply edge_eta). rewrite Ee2. exact He.
      * apply IH in H; auto; [|simpl in Hc; lia].
        split.
        -- intros x Hx. apply B1, (b_starts _ _ _ I); auto.
        -- intros x Hx. apply B4 in Hx as [Hx|Hx]; auto. apply B1, (b_queue _ _ _ I). right; auto.
        -- intros x Hx. apply B3 in Hx as [Hx|[Hx _]]; auto.
           destruct (b_proc _ _ _ I x Hx) as [[Exs|Hq]|Hp].
           ++ right. intros e He Hsrc. assert (Hin : In e (out_edges A s)) by (apply out_edges_spec; split; auto; congruence).
              destruct (B7 e Hin) as [X1 X2]. split; auto. apply in_or_app; auto.
           ++ left. apply B2; auto.
           ++ right. intros e He Hsrc. destruct (Hp e He Hsrc) as [X1 [X2 X3]]. split; [apply in_or_app; auto|]. split; auto.
        -- intros x Hx. apply B3 in Hx as [Hx|[_ [e [He Ee]]]].
           ++ destruct (b_reach _ _ _ I x Hx) as [p [w [Hp Hw]]]. exists p, w. split; auto.
              eapply E_mono; [|exact Hw]. apply incl_appl, incl_refl.
           ++ destruct (b_reach _ _ _ I s Hs) as [p [w [Hp Hw]]]. exists p, (w ++ [esym e]). split; auto. subst x.
              apply (wpath_snoc (E (acc ++ out_edges A s)) w (esym e) p s (edst e)).
              ** eapply E_mono; [|exact Hw]. apply incl_appl, incl_refl.
              ** simpl. apply in_or_app. right. apply out_edges_spec in He as He'. destruct He' as [_ Hsrc].
                 assert (Ee2 : (s, esym e, edst e) = e) by (rewrite <- Hsrc; symmetry; apply edge_eta). rewrite Ee2. exact He.
        -- auto.
        -- apply B5, (b_nodup _ _ _ I).
        -- intros x Hx. apply B3 in Hx as [Hx|[_ [e [He Ee]]]]; [apply (b_sub _ _ _ I); auto|].
           apply out_edges_spec in He as [He _]. rewrite (edge_eta e) in He. apply nstates_edge in He. subst x. tauto.
Qed.

Lemma raw_old_spec : let R := ncandidate_raw_old A in
  nfa_sub R A = true /\ ((exists w, waccepts A w) -> exists w, waccepts R w).
Proof.
  unfold ncandidate_raw_old.
  destruct (cand_bfs (S (length (nstates A))) A (nodup N.eq_dec (nstarts A)) (nodup N.eq_dec (nstarts A)) []) as [fs es] eqn:Eb.
  apply cand_bfs_spec in Eb as [Hsub Hres].
  - simpl. destruct Hres as [[q [-> [Hq [p [w [Hp Hw]]]]]]|[-> Hno]].
    + split.
      * apply nfa_sub_spec. simpl. split; [apply incl_refl|]. split; auto. intros x [<-|[]]; auto.
      * intros _. exists w. exists p, q. simpl. split; auto. split; auto.
        eapply wpath_mono; [|exact Hw]. simpl. apply incl_refl.
    + split.
      * apply nfa_sub_spec. simpl. split; [apply incl_refl|]. split; auto. intros x [].
      * intros [w Hw]. exfalso. apply (Hno w Hw).
  - split.
    + intros x Hx. apply nodup_In; auto.
    + apply incl_refl.
    + intros s Hs. left; auto.
    + intros s Hs. apply nodup_In in Hs. exists s, []. simpl. auto.
    + intros x [].
    + apply NoDup_nodup.
    + intros x Hx. apply nodup_In in Hx. apply nstates_start; auto.
  - lia.
Qed.

End Cand.

Lemma first_final_start_spec A : forall l done,
  match cand_first_final_start A l done with
  | Some (ss, s) => In s l /\ In s (nfinals A) /\ In s ss /\ incl ss (done ++ l)
  | None => forall s, In s l -> memN s (nfinals A) = false
  end.
Proof.
  induction l as [|x l IH]; intros done; simpl.
  - intros s [].
  - destruct (memN x (nfinals A)) eqn:Ef.
    + apply memN_In in Ef. split; auto. split; auto. split; [apply in_or_app; right; simpl; auto|].
      intros y Hy. apply in_app_or in Hy as [Hy|[<-|[]]]; apply in_or_app; simpl; auto.
    + specialize (IH (done ++ [x])). destruct (cand_first_final_start A l (done ++ [x])) as [[ss s]|].
      * destruct IH as [H1 [H2 [H3 H4]]]. split; auto. split; auto. split; auto.
        intros y Hy. apply H4 in Hy. rewrite <- app_assoc in Hy. exact Hy.
      * intros s [<-|Hs]; auto.
Qed.

Lemma raw_spec A : nfa_sub (ncandidate_raw A) A = true /\ ((exists w, waccepts A w) -> exists w, waccepts (ncandidate_raw A) w).
Proof.
  unfold ncandidate_raw. pose proof (first_final_start_spec A (nstarts A) []) as F.
  destruct (cand_first_final_start A (nstarts A) []) as [[ss s]|].
  - destruct F as [H1 [H2 [H3 H4]]]. split.
    + apply nfa_sub_spec. simpl. split; auto. split; [intros x [<-|[]]; auto | intros x []].
    + intros _. exists []. exists s, s. simpl. auto.
  - apply raw_old_spec. exact F.
Qed.

(* GetCandidateTree as repaired: sub-automaton of the operand, non-empty whenever the operand is *)
Theorem ncandidate_correct A : ncandidate_ok A (ncandidate A) = true.
Proof.
  destruct (raw_spec A) as [H1 H2]. unfold ncandidate_ok, ncandidate. apply andb_true_iff. split.
  - eapply nfa_sub_trans; [apply nuseless_sub | exact H1].
  - apply implb_empty_spec. intros Hw. destruct (H2 Hw) as [w Hw']. exists w. apply nuseless_lang; auto.
Qed.

Theorem ncandidate_gate A : gate_ncandidate A (ncandidate A) = true.
Proof. apply ncandidate_ok_gate, ncandidate_correct. Qed.
