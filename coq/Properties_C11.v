(* C11 — Explicit automata are values: copies isolated, results depend only on operands.
   Part 1 (this block): the value model — a pool of handles; every step is a function of the values of the handles it
   names.  [written st] are the handles a step writes; everything else is untouched (frame), which gives the
   property's clauses as corollaries.  Part 2: the copy-on-write heap model of ExplicitTreeAutCore refines the value
   model for all histories (CowProofs.v).  Nothing but statements closed by [exact]. *)
From Coq Require Import List NArith Bool.
Import ListNotations.
From V Require Import Sem Prod MemoTable.
From V Require Lang.
From V Require Import StoreDefs StoreProofs ReindexDefs ReindexProofs ValueDefs ValueProofs CowDefs CowProofs.

(* a step changes nothing but the handles it writes; so does any history *)
Theorem C11_frame : forall V (l : list (vstep V)) (p : pool V) x,
  (forall st, In st l -> ~ In x (written st)) -> vrun p l x = p x.
Proof. exact frame. Qed.
(* after a copy / assignment, later modifications (adding rules, changing finals, clearing, destroying) of the source or of
   any third object are invisible through the copy, and vice versa *)
Theorem C11_copy_isolated : forall V (p : pool V) h s v l, p s = Some v -> h <> s ->
  (forall st, In st l -> ~ In h (written st)) -> vrun (vstep_run p (VCopy h s)) l h = Some v.
Proof. exact copy_isolated. Qed.
Theorem C11_copy_isolated_src : forall V (p : pool V) h s v l, p s = Some v -> h <> s ->
  (forall st, In st l -> ~ In s (written st)) -> vrun (vstep_run p (VCopy h s)) l s = Some v.
Proof. exact copy_isolated_src. Qed.
Theorem C11_move_transfers : forall V (p : pool V) h s v l, p s = Some v -> h <> s ->
  (forall st, In st l -> ~ In h (written st)) -> vrun (vstep_run p (VMove h s)) l h = Some v /\ vstep_run p (VMove h s) s = None.
Proof. exact move_transfers. Qed.
(* automata returned by operations stay unchanged when their operands are modified or destroyed afterwards *)
Theorem C11_result_independent_of_operand_fate1 : forall V (p : pool V) h f s v l, p s = Some v ->
  (forall st, In st l -> ~ In h (written st)) -> vrun (vstep_run p (VLib1 h f s)) l h = Some (f v).
Proof. exact result_independent_of_operand_fate1. Qed.
Theorem C11_result_independent_of_operand_fate2 : forall V (p : pool V) h f s1 s2 v1 v2 l, p s1 = Some v1 -> p s2 = Some v2 ->
  (forall st, In st l -> ~ In h (written st)) -> vrun (vstep_run p (VLib2 h f s1 s2)) l h = Some (f v1 v2).
Proof. exact result_independent_of_operand_fate2. Qed.
Theorem C11_operand_unchanged1 : forall V (p : pool V) h f s, h <> s -> vstep_run p (VLib1 h f s) s = p s.
Proof. exact operand_unchanged1. Qed.
Theorem C11_operand_unchanged2 : forall V (p : pool V) h f s1 s2, h <> s1 -> h <> s2 ->
  vstep_run p (VLib2 h f s1 s2) s1 = p s1 /\ vstep_run p (VLib2 h f s1 s2) s2 = p s2.
Proof. exact operand_unchanged2. Qed.
(* the outcome depends only on the operands' values, not on the history that produced them *)
Theorem C11_op_deterministic1 : forall V (p1 p2 : pool V) l1 l2 h1 h2 f s1 s2 v,
  vrun p1 l1 s1 = Some v -> vrun p2 l2 s2 = Some v ->
  vstep_run (vrun p1 l1) (VLib1 h1 f s1) h1 = vstep_run (vrun p2 l2) (VLib1 h2 f s2) h2.
Proof. exact op_deterministic1. Qed.
Theorem C11_op_deterministic2 : forall V (p1 p2 : pool V) l1 l2 h1 h2 f a1 b1 a2 b2 va vb,
  vrun p1 l1 a1 = Some va -> vrun p1 l1 b1 = Some vb -> vrun p2 l2 a2 = Some va -> vrun p2 l2 b2 = Some vb ->
  vstep_run (vrun p1 l1) (VLib2 h1 f a1 b1) h1 = vstep_run (vrun p2 l2) (VLib2 h2 f a2 b2) h2.
Proof. exact op_deterministic2. Qed.
(* the flat tree values used by the correspondence are the nested store of C12, flattened *)
Theorem C11_flat_step : forall a o, wf a -> ta_set_eq (flat (step a o)) (t_step o (flat a)) = true.
Proof. exact flat_step. Qed.
(* the comparisons evaluated on libvata's observations decide set equality / image under the reported maps *)
Theorem C11_t_obs_eq : forall m o, t_obs_eq m o = true <->
  (forall r, In r (rules m) <-> In r (rules o)) /\ (forall q, In q (finals m) <-> In q (finals o)).
Proof. exact t_obs_eq_spec. Qed.
Theorem C11_w_obs_eq : forall m o, w_obs_eq m o = true <->
  (forall s, In s (wstartset m) <-> In s (wstartset o)) /\ (forall x, In x (wsyms m) <-> In x (wsyms o)) /\
  (forall q, In q (wfinals m) <-> In q (wfinals o)) /\ (forall e, In e (wedges m) <-> In e (wedges o)).
Proof. exact w_obs_eq_spec. Qed.
Theorem C11_t_union_gate : forall mA mB A B R, t_union_gate mA mB A B R = true ->
  (forall r, In r (rules R) <-> (exists r0, In r0 (rules A) /\ r = Lang.map_rule (app_map mA 0) r0) \/
                                (exists r0, In r0 (rules B) /\ r = Lang.map_rule (app_map mB 0) r0)) /\
  (forall q, In q (finals R) <-> (exists q0, In q0 (finals A) /\ q = app_map mA 0 q0) \/
                                 (exists q0, In q0 (finals B) /\ q = app_map mB 0 q0)).
Proof. exact t_union_gate_spec. Qed.
Theorem C11_t_image_gate : forall h A R, t_image_gate h A R = true <->
  (forall r, In r (rules R) <-> exists r0, In r0 (rules A) /\ r = Lang.map_rule h r0) /\
  (forall q, In q (finals R) <-> exists q0, In q0 (finals A) /\ q = h q0).
Proof. exact t_image_gate_spec. Qed.

(* ---------- Part 2: the copy-on-write heap of ExplicitTreeAutCore (CowDefs.v) refines the value model ----------
   [crun l] runs a history on the heap (use counts derived from the live referrers; uniqueClusterMap / uniqueCluster /
   uniqueTuplePtrSet clone exactly when the use count is not 1; Clear clears in place only when unique; results share the
   whole map or single clusters), [vrun_abs l] runs the same history on values (the nested store of C12). *)
Theorem C11_cow_refines_value : forall l h,
  match get h (hnd (crun l)), vrun_abs l h with
  | Some (fs, m), Some a => fs = fin a /\ forall q x, clookup (crun l) m q x = slookup (st a) q x
  | None, None => True
  | _, _ => False
  end.
Proof. exact cow_refines_value. Qed.
(* every single step of the heap model is the corresponding value step *)
Theorem C11_cow_step_refines : forall c p stp, Rel c p -> Rel (cstep_run c stp) (vstep_run p (abs_step stp)).
Proof. exact step_refines. Qed.
(* the rules iterated in the value are exactly those found through the handle on the heap *)
Theorem C11_cow_reads_rules : forall l h a, vrun_abs l h = Some a -> forall r, In r (iter (st a)) <-> cow_contains (crun l) h r = true.
Proof. exact cow_reads_rules. Qed.
(* the property's clauses on the heap model: copies are isolated in both directions, results sharing storage with an
   operand keep their value whatever later happens to the operand *)
Theorem C11_cow_copy_isolated : forall l1 l2 h s a, h <> s -> vrun_abs l1 s = Some a ->
  (forall st, In st l2 -> ~ In h (written (abs_step st))) -> reads_as (crun (l1 ++ CCopy h s :: l2)) h a.
Proof. exact cow_copy_isolated. Qed.
Theorem C11_cow_copy_isolated_src : forall l1 l2 h s a, h <> s -> vrun_abs l1 s = Some a ->
  (forall st, In st l2 -> ~ In s (written (abs_step st))) -> reads_as (crun (l1 ++ CCopy h s :: l2)) s a.
Proof. exact cow_copy_isolated_src. Qed.
Theorem C11_cow_result_independent_clusters : forall l1 l2 h s keep fs a, vrun_abs l1 s = Some a ->
  (forall st, In st l2 -> ~ In h (written (abs_step st))) ->
  reads_as (crun (l1 ++ CShareClusters h s keep fs :: l2)) h {| st := keep_entries keep (st a); fin := fs |}.
Proof. exact cow_result_independent_clusters. Qed.
Theorem C11_cow_result_independent_map : forall l1 l2 h s fs a, vrun_abs l1 s = Some a ->
  (forall st, In st l2 -> ~ In h (written (abs_step st))) ->
  reads_as (crun (l1 ++ CShareMap h s fs :: l2)) h {| st := st a; fin := fs |}.
Proof. exact cow_result_independent_map. Qed.
(* a use count of 1 really means exclusive ownership among the live referrers (what makes the in-place writes safe) *)
Theorem C11_unique_cluster_exclusive : forall c h fs m q cl, cl_unique c cl = true -> live c h fs m -> get q (mget c m) = Some cl ->
  forall h2 fs2 m2 q2, live c h2 fs2 m2 -> get q2 (mget c m2) = Some cl -> m2 = m /\ q2 = q.
Proof. exact cl_excl. Qed.
Theorem C11_unique_tuple_set_exclusive : forall c h fs m q cl a ts, ts_unique c ts = true -> live c h fs m ->
  get q (mget c m) = Some cl -> get a (cget c cl) = Some ts ->
  forall h2 fs2 m2 q2 cl2 a2, live c h2 fs2 m2 -> get q2 (mget c m2) = Some cl2 -> get a2 (cget c cl2) = Some ts -> cl2 = cl /\ a2 = a.
Proof. exact ts_excl. Qed.

(* (A) a memo kept in the storage that copies share (a fact computed from the rules: reachability, a simulation relation, a derived view):
   with MemoTable.Copy sharing the table, MemoTable.Add detaching, appending and DROPPING the memo, and MemoTable.Query answering from the memo or filling it, every answer
   of every operation sequence is the function F of the handle's value — for any F *)
Theorem C11_memo_sound : forall (F : list N -> bool) ops, MemoTable.no_raw ops -> snd (MemoTable.run F MemoTable.init_st ops) = snd (MemoTable.vrun F (cons nil nil) ops).
Proof. exact MemoTable.memo_sound_init. Qed.
Theorem C11_memo_sound_from : forall (F : list N -> bool) ops s v, MemoTable.Rep F s v -> MemoTable.no_raw ops -> snd (MemoTable.run F s ops) = snd (MemoTable.vrun F v ops).
Proof. exact MemoTable.memo_sound. Qed.
(* an insertion path that keeps the memo (a result assembled from an operand's table) makes answers depend on the history: refuted *)
Theorem C11_memo_raw_refuted :
  let ops := cons (MemoTable.Query 0) (cons (MemoTable.AddRaw 0 7%N) (cons (MemoTable.Query 0) nil)) in
  snd (MemoTable.run MemoTable.is_nil MemoTable.init_st ops) = cons (Some true) (cons None (cons (Some true) nil)) /\
  snd (MemoTable.vrun MemoTable.is_nil (cons nil nil) ops) = cons (Some true) (cons None (cons (Some false) nil)).
Proof. exact MemoTable.memo_raw_refuted. Qed.
Example C11_memo_example :
  snd (MemoTable.run MemoTable.is_nil MemoTable.init_st (cons (MemoTable.Query 0) (cons (MemoTable.Copy 0) (cons (MemoTable.Add 0 7%N) (cons (MemoTable.Query 0) (cons (MemoTable.Query 1) nil))))))
  = cons (Some true) (cons None (cons None (cons (Some false) (cons (Some true) nil)))).
Proof. exact MemoTable.memo_add_example. Qed.

Print Assumptions C11_frame.
Print Assumptions C11_copy_isolated.
Print Assumptions C11_copy_isolated_src.
Print Assumptions C11_move_transfers.
Print Assumptions C11_result_independent_of_operand_fate1.
Print Assumptions C11_result_independent_of_operand_fate2.
Print Assumptions C11_operand_unchanged1.
Print Assumptions C11_operand_unchanged2.
Print Assumptions C11_op_deterministic1.
Print Assumptions C11_op_deterministic2.
Print Assumptions C11_flat_step.
Print Assumptions C11_t_obs_eq.
Print Assumptions C11_w_obs_eq.
Print Assumptions C11_t_union_gate.
Print Assumptions C11_t_image_gate.
Print Assumptions C11_cow_refines_value.
Print Assumptions C11_cow_step_refines.
Print Assumptions C11_cow_reads_rules.
Print Assumptions C11_cow_copy_isolated.
Print Assumptions C11_cow_copy_isolated_src.
Print Assumptions C11_cow_result_independent_clusters.
Print Assumptions C11_cow_result_independent_map.
Print Assumptions C11_unique_cluster_exclusive.
Print Assumptions C11_unique_tuple_set_exclusive.
Print Assumptions C11_memo_sound.
Print Assumptions C11_memo_sound_from.
Print Assumptions C11_memo_raw_refuted.
Print Assumptions C11_memo_example.
