(* C08 — the constants of ArityPrefix.v are those of the sources: DispatchTable.v is regenerated from /repo on every run
   (harness/scrape_dispatch.py) and carries SYMBOL_SIZE, SYMBOL_ARITY_LENGTH and whether MAX_SYMBOL_ARITY is defined as
   2^SYMBOL_ARITY_LENGTH - 1. If the sources change them, this file no longer compiles and the injectivity theorem of
   ArityPrefix.v has to be re-established for the new layout. *)
From Coq Require Import List NArith Bool.
From V Require Import ArityPrefix DispatchTable.

Theorem arity_constants_tied :
  src_SYMBOL_SIZE = SYMBOL_BITS /\ src_SYMBOL_ARITY_LENGTH = ARITY_BITS /\ src_MAX_ARITY_IS_ALL_ONES = true /\
  MAX_ARITY = (2 ^ src_SYMBOL_ARITY_LENGTH - 1)%N.
Proof. repeat split; reflexivity. Qed.
