(* C19 — trimming is equivariant: the states that survive RemoveUselessStates of a renamed automaton are exactly the
   renamed survivors, hence the number of states after trimming does not depend on the numbering. *)
From Coq Require Import List NArith Bool Arith Lia.
Import ListNotations.
From V Require Import Fix Sem Prod Incl TrimDefs TrimProofs Lang BinopDefs BinopProofs ReduceDefs ReduceProofs.

(* the states of a pruned automaton are exactly the top-down reachable ones *)
Lemma td_in_states A q : TdReach A q -> In q (states A).
Proof. induction 1 as [q Hq | r c Hr _ _ Hc]; [apply finals_states; auto | apply (rule_states A r Hr); auto]. Qed.

Lemma unreach_states A q : In q (states (remove_unreachable A)) <-> TdReach A q.
Proof.
  split; [intros H; apply unreach_td_back, unreach_post; auto|].
  intros T. apply td_in_states. induction T as [q Hq | r c Hr T IH Hc].
  - apply td_fin. rewrite unreach_finals. auto.
  - apply (td_child _ r c); auto.
    unfold remove_unreachable, remove_unreachable_with. destruct (shortcut (td_reach A) A); auto.
    simpl. apply filter_In. split; auto. apply memN_In. apply td_reach_spec; auto.
Qed.

Theorem useless_states A q : In q (states (remove_useless A)) <-> TdReach (productive_part A) q.
Proof. apply unreach_states. Qed.

(* TdReach only depends on the sets of rules and final states *)
Lemma TdReach_ext A B : incl (rules A) (rules B) -> incl (finals A) (finals B) -> forall q, TdReach A q -> TdReach B q.
Proof. intros HR HF q T. induction T as [q Hq | r c Hr _ IH Hc]; [apply td_fin; auto | apply (td_child _ r c); auto]. Qed.

(* productive states, productive rules and top-down reachability under an injective renaming *)
Lemma productive_image h A x : inj_on h (states A) -> (In x (productive (image h A)) <-> exists q, In q (productive A) /\ x = h q).
Proof.
  intros Hinj. rewrite productive_spec. split.
  - intros [t R]. destruct (reach_image_inj h A Hinj t x R) as [q [-> Rq]]. exists q. split; auto. apply productive_spec. eauto.
  - intros [q [Hq ->]]. apply productive_spec in Hq as [t R]. exists t. apply reach_image; auto.
Qed.

Lemma rule_productive_image h A r : inj_on h (states A) -> In r (rules A) ->
  rule_productive (productive (image h A)) (map_rule h r) = rule_productive (productive A) r.
Proof.
  intros Hinj Hr. apply eq_true_iff_eq. rewrite !rule_productive_spec. simpl. split.
  - intros H c Hc. destruct (proj1 (productive_image h A (h c) Hinj) (H _ (in_map h _ _ Hc))) as [q [Hq E]].
    assert (c = q). { apply Hinj; auto; [apply (rule_states A r Hr); auto|]. apply productive_spec in Hq as [t R]. eapply reach_state; eauto. }
    subst; auto.
  - intros H x Hx. apply in_map_iff in Hx as [c [<- Hc]]. apply productive_image; auto. exists c. split; auto.
Qed.

Lemma pp_image_rules h A r' : inj_on h (states A) ->
  (In r' (rules (productive_part (image h A))) <-> exists r, In r (rules (productive_part A)) /\ r' = map_rule h r).
Proof.
  intros Hinj. rewrite pp_rules. simpl. split.
  - intros [Hin Hp]. apply in_map_iff in Hin as [r [<- Hr]]. exists r. split; auto. apply pp_rules. split; auto.
    rewrite <- (rule_productive_image h A r Hinj Hr). auto.
  - intros [r [Hr ->]]. apply pp_rules in Hr as [Hr Hp]. split; [apply in_map; auto|]. rewrite (rule_productive_image h A r Hinj Hr). auto.
Qed.

Lemma pp_image_finals h A x : inj_on h (states A) ->
  (In x (finals (productive_part (image h A))) <-> exists q, In q (finals (productive_part A)) /\ x = h q).
Proof.
  intros Hinj. simpl. rewrite filter_In, in_map_iff. split.
  - intros [[q [<- Hq]] Hp]. apply memN_In in Hp. apply (productive_image h A _ Hinj) in Hp as [q' [Hq' E]].
    assert (q = q'). { apply Hinj; auto; [apply finals_states; auto|]. apply productive_spec in Hq' as [t R]. eapply reach_state; eauto. }
    subst. exists q'. split; auto. apply filter_In. split; auto. apply memN_In; auto.
  - intros [q [Hq ->]]. apply filter_In in Hq as [Hq Hp]. apply memN_In in Hp. split; [exists q; auto|].
    apply memN_In. apply productive_image; auto. exists q; auto.
Qed.

Lemma pp_states_sub A : incl (states (productive_part A)) (states A).
Proof.
  apply states_sub.
  - intros r Hr. apply pp_rules in Hr. tauto.
  - simpl. intros q Hq. apply filter_In in Hq. tauto.
Qed.

Theorem useless_states_image h A x : inj_on h (states A) ->
  (In x (states (remove_useless (image h A))) <-> exists q, In q (states (remove_useless A)) /\ x = h q).
Proof.
  intros Hinj. rewrite useless_states. split.
  - intros T. induction T as [x Hx | r' c' Hr' T IH Hc'].
    + apply (pp_image_finals h A x Hinj) in Hx as [q [Hq ->]]. exists q. split; auto. apply useless_states. apply td_fin; auto.
    + apply (pp_image_rules h A r' Hinj) in Hr' as [r [Hr ->]]. change (par (map_rule h r)) with (h (par r)) in *. change (ch (map_rule h r)) with (map h (ch r)) in Hc'. apply in_map_iff in Hc' as [c [<- Hc]].
      destruct IH as [q [Hq E]]. apply useless_states in Hq.
      assert (par r = q).
      { apply Hinj; [apply pp_states_sub; apply (proj1 (rule_states _ r Hr)) | apply pp_states_sub; apply td_in_states; auto | exact E]. }
      subst q. exists c. split; auto. apply useless_states. apply (td_child _ r c); auto.
  - intros [q [Hq ->]]. apply useless_states in Hq. induction Hq as [q Hq | r c Hr T IH Hc].
    + apply td_fin. apply (pp_image_finals h A _ Hinj). exists q; auto.
    + apply (td_child _ (map_rule h r) (h c)); auto; [apply (pp_image_rules h A _ Hinj); exists r; auto | simpl; apply in_map; auto].
Qed.

Lemma NoDup_map_inj_on (h : N -> N) l : inj_on h l -> NoDup l -> NoDup (map h l).
Proof.
  induction l as [|a l IH]; simpl; intros Hinj ND; [constructor|]. inversion ND; subst. constructor.
  - intros Hin. apply in_map_iff in Hin as [b [E Hb]]. assert (b = a) by (apply Hinj; simpl; auto). subst. contradiction.
  - apply IH; auto. intros x y Hx Hy. apply Hinj; simpl; auto.
Qed.

Lemma nodup_map_inj_length (h : N -> N) l : inj_on h l -> length (nodup N.eq_dec (map h l)) = length (nodup N.eq_dec l).
Proof.
  intros Hinj. apply Nat.le_antisymm; [apply nodup_map_le|].
  rewrite <- (map_length h (nodup N.eq_dec l)). apply NoDup_incl_length.
  - apply NoDup_map_inj_on; [|apply NoDup_nodup].
    intros x y Hx Hy E. apply Hinj; auto; [apply (proj1 (nodup_In N.eq_dec l x)) | apply (proj1 (nodup_In N.eq_dec l y))]; auto.
  - intros y Hy. apply in_map_iff in Hy as [x [<- Hx]]. apply nodup_In. apply in_map. apply (proj1 (nodup_In N.eq_dec l x)) in Hx. exact Hx.
Qed.

(* the number of states after trimming is invariant under renaming *)
Theorem trim_size_equivariant h A : inj_on h (states A) -> nstates (remove_useless (image h A)) = nstates (remove_useless A).
Proof.
  intros Hinj. unfold nstates, ustates.
  assert (Hs : incl (states (remove_useless A)) (states A)).
  { intros q Hq. apply useless_states in Hq. apply pp_states_sub, td_in_states; auto. }
  assert (Hinj' : inj_on h (states (remove_useless A))) by (intros x y Hx Hy; apply Hinj; auto).
  rewrite <- (nodup_map_inj_length h _ Hinj').
  apply Nat.le_antisymm; apply NoDup_incl_length; try apply NoDup_nodup; intros x Hx; apply nodup_In; apply nodup_In in Hx.
  - apply (useless_states_image h A x Hinj) in Hx as [q [Hq ->]]. apply in_map; auto.
  - apply in_map_iff in Hx as [q [<- Hq]]. apply (useless_states_image h A _ Hinj). exists q; auto.
Qed.
