(* C07 — inclusion on BDD-encoded tree automata is exact; unimplemented selections throw. Statements only. *)
From Coq Require Import List NArith Bool.
Import ListNotations.
From V Require Import Sem Prod Incl TrimDefs TrimProofs Lang InclDefs InclProofs DispatchTable AntichainUp AntichainUpW BuUpUnion DownIncl DownInclCacheDefs DownInclCacheProofs DownInclOptDefs DownInclOptProofs NegCache.

(* the verdict every implemented selection must report is exact, and equals the explicit encoding's (same function) *)
Theorem C07_exact : forall v A B, incl_model v A B = true <-> (forall t, accepts A t -> accepts B t).
Proof. exact incl_model_exact. Qed.
Theorem C07_agree_with_explicit : forall v w A B, incl_model v A B = incl_model w A B.
Proof. exact incl_model_agree. Qed.
Theorem C07_gate_verdict : forall A B b, gate_verdict A B b = true <-> (b = true <-> forall t, accepts A t -> accepts B t).
Proof. exact gate_verdict_spec. Qed.
(* dispatch tables scraped from the sources on every run (DispatchTable.v is generated): the implemented flag words are
   exactly: top-down = downward recursive x {cache} x {simulation}; bottom-up = upward (also with the simulation flag set)
   and downward recursive with simulation; every other of the 128 flag words must end in NotImplementedException *)
Theorem C07_dispatch_scraped : scrape_ok = true.
Proof. reflexivity. Qed.
Theorem C07_dispatch_td : impl_td = [10; 14; 26; 30]%N.
Proof. reflexivity. Qed.
Theorem C07_dispatch_bu : impl_bu = [0; 16; 26]%N.
Proof. reflexivity. Qed.
Theorem C07_dispatch_expl : impl_expl = [0; 2; 10; 14; 16; 18; 26; 30]%N.
Proof. reflexivity. Qed.
Theorem C07_dispatch_range : forall w, In w (impl_td ++ impl_bu ++ impl_expl) -> (w < 128)%N.
Proof. intros w H. vm_compute in H. repeat (destruct H as [<-|H]; [reflexivity|]). destruct H. Qed.

(* (A) the upward saturation with one macro-state per child position and antichain pruning is exact (shared with C01) ... *)
Theorem C07_up_antichain_exact : forall A B, up_ac A B = true <-> forall t, accepts A t -> accepts B t.
Proof. exact up_antichain_exact. Qed.

(* (A) the same algorithm as the code runs it: a work list, an antichain of processed pairs, the `contains` test on a popped pair,
   the acceptance test that ends the run with "not included", `refine` (processed pairs subsumed by the new one are deleted) and
   the consequences the new pair adds: a run that ends returns the decider's verdict, for every fuel *)
Theorem C07_up_worklist_refines : forall A B fuel b, up_worklist A B fuel = Some b -> b = incl_dec A B.
Proof. exact up_worklist_refines. Qed.
Theorem C07_up_worklist_exact : forall A B fuel b, up_worklist A B fuel = Some b -> (b = true <-> forall t, accepts A t -> accepts B t).
Proof. exact up_worklist_exact. Qed.
(* a work list ordered by (size of the macro-state, state) WITHOUT a tie-break on the macro-state drops a pending pair: refuted *)
Theorem C07_up_worklist_keyed_refuted :
  up_worklist_keyed kA kB 20 = Some true /\ incl_dec kA kB = false /\ up_worklist kA kB 20 = Some false.
Proof. exact up_worklist_keyed_refuted. Qed.
(* ... whereas the post-image step as it was before the fix of defect D9 (union of all macro-states per child position)
   answers "included" for A: a->q, b->q, f(q,q)->p   B: a->r1, b->r2, f(r1,r1)->s, f(r2,r2)->s *)
Theorem C07_bu_up_union_refuted : up_union d9_A d9_B = true /\ incl_dec d9_A d9_B = false /\ up_ac d9_A d9_B = false.
Proof. exact bu_up_union_refuted. Qed.

(* the recursive downward checker shared with the explicit encoding (DownwardInclusionFunctor): with the cache of positive answers scoped
   to one expansion an answer is the truth; with one cache shared by all recursion levels it is not *)
Theorem C07_down_cache_scoped_partial_correct : forall A B fuel b, downc_incl false A B fuel = Some b -> (b = true <-> forall t, accepts A t -> accepts B t).
Proof. exact downc_scoped_partial_correct. Qed.
Theorem C07_down_cache_shared_refuted : downc_incl true trapA trapB 30 = Some true /\ ~ lincl trapA trapB /\ downc_incl false trapA trapB 30 = Some false.
Proof. exact downc_shared_refuted. Qed.

(* the "opt" selections: implication cache with antecedents and consequents (shared template OptDownwardInclusionFunctor) *)
Theorem C07_down_opt_partial_correct : forall A B fuel b, downo_incl false A B fuel = Some b -> (b = true <-> forall t, accepts A t -> accepts B t).
Proof. exact downo_partial_correct. Qed.
Theorem C07_down_opt_careless_refuted : downo_incl true trapA trapB 30 = Some true /\ ~ lincl trapA trapB /\ downo_incl false trapA trapB 30 = Some false.
Proof. exact downo_careless_refuted. Qed.

(* the cache of refuted goals: a refutation of (p, P) refutes (q, S) when p lies below q and S inside P; with the preorder the other way
   round it does not *)
Theorem C07_neg_cache_sound : forall A B p q P S, ~ Incl A B p P -> below A p q -> incl S P -> ~ Incl A B q S.
Proof. exact neg_cache_sound. Qed.
Theorem C07_neg_cache_wrong_side_refuted : below ncA 2%N 1%N /\ ~ Incl ncA ncB 1%N (5%N :: nil) /\ Incl ncA ncB 2%N (5%N :: nil).
Proof. exact neg_cache_wrong_side_refuted. Qed.

Print Assumptions C07_exact.
Print Assumptions C07_up_antichain_exact.
Print Assumptions C07_bu_up_union_refuted.
Print Assumptions C07_agree_with_explicit.
Print Assumptions C07_gate_verdict.
Print Assumptions C07_dispatch_scraped.
Print Assumptions C07_dispatch_td.
Print Assumptions C07_dispatch_bu.
Print Assumptions C07_dispatch_expl.
Print Assumptions C07_dispatch_range.
Print Assumptions C07_down_cache_scoped_partial_correct.
Print Assumptions C07_down_cache_shared_refuted.
Print Assumptions C07_down_opt_partial_correct.
Print Assumptions C07_down_opt_careless_refuted.
Print Assumptions C07_neg_cache_sound.
Print Assumptions C07_neg_cache_wrong_side_refuted.
Print Assumptions C07_up_worklist_refines.
Print Assumptions C07_up_worklist_exact.
Print Assumptions C07_up_worklist_keyed_refuted.
