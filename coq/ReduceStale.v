(* C05 — a simulation relation computed for an automaton is not valid for the same object after an in-place extension, even when
   no state is added: quotienting the extended automaton by the representatives chosen for the old one changes the language.
   (The theorem behind Reduce, reduce_with_lang, needs the relation to be a downward simulation OF THE AUTOMATON BEING REDUCED;
   a memo of the relation keyed by the identity of the transition table and the number of states does not guarantee that.) *)
From Coq Require Import List NArith Bool.
Import ListNotations.
From V Require Import Fix Sem Prod Incl TrimDefs TrimProofs Lang BinopDefs BinopProofs ReduceDefs ReduceProofs ReduceModel.
Local Open Scope N_scope.

Definition mkr (f : N) (c : list N) (p : N) : rule := {| sym := f; ch := c; par := p |}.
(* a -> 10, a -> 20, f(10) -> 30, g(20) -> 30, final 30: states 10 and 20 are simulation equivalent *)
Definition stA : ta := {| rules := [mkr 0 [] 10; mkr 0 [] 20; mkr 2 [10] 30; mkr 5 [20] 30]; finals := [30] |}.
(* the same object after AddTransition(b -> 10): no new state, 10 and 20 are no longer equivalent *)
Definition stA' : ta := {| rules := rules stA ++ [mkr 1 [] 10]; finals := [30] |}.

Theorem reduce_stale_relation_refuted :
  (forall q, In q (states stA') <-> In q (states stA)) /\
  canon_rep stA 10 = canon_rep stA 20 /\
  ~ (forall t, accepts (reduce_with (canon_rep stA) stA') t <-> accepts stA' t).
Proof.
  split; [intro q; cbv [stA stA' states rules finals app map flat_map mkr par ch]; simpl; tauto|]. split; [vm_compute; reflexivity|].
  intros H. apply equiv_dec_spec in H. vm_compute in H. discriminate H.
Qed.

(* with the relation of the automaton that is actually reduced the language is kept (instance of the general theorem) *)
Example reduce_fresh_relation_ok : forall t, accepts (reduce_model stA') t <-> accepts stA' t.
Proof. apply equiv_dec_spec. vm_compute. reflexivity. Qed.
