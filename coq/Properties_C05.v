(* C05 — Reduce preserves the language and never grows the automaton. Statements only. *)
From Coq Require Import List NArith Bool Arith.
From V Require Import Sem Prod Incl TrimDefs TrimProofs Lang BinopDefs ReduceDefs ReduceProofs ReduceModel ReduceStale.

(* quotient by any representative map that stays inside a downward simulation in both directions, then pruning:
   same language (for every automaton, every such relation, every such choice of representatives) *)
Theorem C05_reduce_lang : forall A D rep, is_down_simb A D = true -> valid_repb A D rep = true ->
  forall t, accepts (reduce_with rep A) t <-> accepts A t.
Proof. exact reduce_lang. Qed.
Theorem C05_reduce_states_le : forall rep A, nstates (reduce_with rep A) <= nstates A.
Proof. exact reduce_states_le. Qed.
Theorem C05_reduce_rules_le : forall rep A, nrules (reduce_with rep A) <= nrules A.
Proof. exact reduce_rules_le. Qed.
Theorem C05_reduce_onto : forall rep A s, In s (states (reduce_with rep A)) -> exists q, In q (states A) /\ s = rep q.
Proof. exact reduce_onto. Qed.
(* a relation accepted by the checker is a downward simulation; simulation transfers runs *)
Theorem C05_sim_reach : forall A D, is_down_simb A D = true -> forall t q, reach A t q -> forall r, In (q, r) D -> reach A t r.
Proof. intros A D H. apply sim_reach. apply is_down_simb_spec. exact H. Qed.
(* the gate evaluated on libvata's result decides the property *)
Theorem C05_gate : forall A R, reduce_gate A R = true <-> reduce_prop A R.
Proof. exact reduce_gate_spec. Qed.

(* the complete functional model: simulation computed by refinement, canonical representative per class, collapse, prune.
   The computed relation is a downward simulation and reflexive, the canonical representatives are valid, hence — with no
   hypothesis left — Reduce keeps the language, and the model passes the gate used on libvata's result *)
Theorem C05_computed_relation_is_simulation : forall A, is_down_simb A (down_sim_rel A) = true.
Proof. exact down_sim_rel_is_sim. Qed.
Theorem C05_canonical_representatives_valid : forall A, valid_repb A (down_sim_rel A) (canon_rep A) = true.
Proof. exact canon_rep_valid. Qed.
Theorem C05_reduce_model_lang : forall A t, accepts (reduce_model A) t <-> accepts A t.
Proof. exact reduce_model_lang. Qed.
Theorem C05_reduce_model_passes_gate : forall A, reduce_gate A (reduce_model A) = true.
Proof. exact reduce_model_gate. Qed.

(* a relation computed for the automaton before an in-place extension (no new state) is not valid afterwards: a Reduce that re-uses it
   changes the language; with the relation of the automaton actually reduced the language is kept *)
Theorem C05_stale_relation_refuted : (forall q, In q (states stA') <-> In q (states stA)) /\ canon_rep stA 10%N = canon_rep stA 20%N /\
  ~ (forall t, accepts (reduce_with (canon_rep stA) stA') t <-> accepts stA' t).
Proof. exact reduce_stale_relation_refuted. Qed.

Print Assumptions C05_reduce_lang.
Print Assumptions C05_computed_relation_is_simulation.
Print Assumptions C05_canonical_representatives_valid.
Print Assumptions C05_reduce_model_lang.
Print Assumptions C05_reduce_model_passes_gate.
Print Assumptions C05_reduce_states_le.
Print Assumptions C05_reduce_rules_le.
Print Assumptions C05_reduce_onto.
Print Assumptions C05_sim_reach.
Print Assumptions C05_gate.
Print Assumptions C05_stale_relation_refuted.
