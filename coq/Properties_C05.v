(* C05 — Reduce preserves the language and never grows the automaton. Statements only. *)
From Coq Require Import List NArith Bool Arith.
From V Require Import Sem Prod Incl TrimDefs TrimProofs Lang BinopDefs ReduceDefs ReduceProofs.

(* quotient by any representative map that stays inside a downward simulation in both directions, then pruning:
   same language (for every automaton, every such relation, every such choice of representatives) *)
Theorem C05_reduce_lang : forall A D rep, is_down_simb A D = true -> valid_repb A D rep = true ->
  forall t, accepts (reduce_with rep A) t <-> accepts A t.
Proof. exact reduce_lang. Qed.
Theorem C05_reduce_states_le : forall rep A, nstates (reduce_with rep A) <= nstates A.
Proof. exact reduce_states_le. Qed.
Theorem C05_reduce_rules_le : forall rep A, nrules (reduce_with rep A) <= nrules A.
Proof. exact reduce_rules_le. Qed.
Theorem C05_reduce_onto : forall rep A s, In s (states (reduce_with rep A)) -> exists q, In q (states A) /\ s = rep q.
Proof. exact reduce_onto. Qed.
(* a relation accepted by the checker is a downward simulation; simulation transfers runs *)
Theorem C05_sim_reach : forall A D, is_down_simb A D = true -> forall t q, reach A t q -> forall r, In (q, r) D -> reach A t r.
Proof. intros A D H. apply sim_reach. apply is_down_simb_spec. exact H. Qed.
(* the gate evaluated on libvata's result decides the property *)
Theorem C05_gate : forall A R, reduce_gate A R = true <-> reduce_prop A R.
Proof. exact reduce_gate_spec. Qed.

Print Assumptions C05_reduce_lang.
Print Assumptions C05_reduce_states_le.
Print Assumptions C05_reduce_rules_le.
Print Assumptions C05_reduce_onto.
Print Assumptions C05_sim_reach.
Print Assumptions C05_gate.
