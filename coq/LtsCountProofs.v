(* C16 (A) increment, second layer — the refinement loop with counters (LtsCountDefs.v) is partially correct: the counters
   always equal the number of transitions into states still related, so "counter reaches zero" is exactly "no successor left". *)
From Coq Require Import List NArith Bool Arith Lia FinFun.
Import ListNotations.
From V Require Import Gfp LtsSimDefs LtsSimProofs LtsWorkDefs LtsWorkProofs LtsCountDefs.

Lemma trip_eqb_eq x y : trip_eqb x y = true <-> x = y.
Proof.
  destruct x as [[a b] c], y as [[d e] f]. unfold trip_eqb. simpl. rewrite !andb_true_iff, !N.eqb_eq.
  split; [intros [[-> ->] ->]; auto | intros E; inversion E; auto].
Qed.
Lemma trip_eqb_refl x : trip_eqb x x = true. Proof. apply trip_eqb_eq; auto. Qed.
Lemma trip_eqb_neq x y : x <> y -> trip_eqb x y = false.
Proof. intros H. destruct (trip_eqb x y) eqn:E; auto. apply trip_eqb_eq in E. contradiction. Qed.

Lemma memP_ext R R2 : (forall y, In y R <-> In y R2) -> forall x, memP x R = memP x R2.
Proof. intros H x. apply eq_true_iff_eq. rewrite !memP_In. apply H. Qed.

Lemma enters_spec L b q : enters L b q = true <-> exists x, In (x, b, q) L.
Proof.
  unfold enters. rewrite existsb_exists. split.
  - intros [[[s l] d] [He H]]. unfold elab, edst in H. simpl in H. rewrite andb_true_iff, !N.eqb_eq in H. destruct H as [-> ->]. eauto.
  - intros [x He]. exists (x, b, q). split; auto. unfold elab, edst. simpl. rewrite !N.eqb_refl. reflexivity.
Qed.

Lemma filter_len0 {X} (p : X -> bool) l : length (filter p l) = 0 <-> existsb p l = false.
Proof. induction l as [|x l IH]; simpl; [tauto|]. destruct (p x); simpl; [split; discriminate | exact IH]. Qed.
Lemma count0 L R b q r0 : count_succ L R b q r0 = 0 <-> has_succ L R b q r0 = false.
Proof. unfold count_succ, has_succ. apply filter_len0. Qed.
Lemma count_ext L R R2 b q r0 : (forall y, In y R <-> In y R2) -> count_succ L R b q r0 = count_succ L R2 b q r0.
Proof. intros H. unfold count_succ. f_equal. apply filter_ext. intros e. rewrite (memP_ext R R2 H). reflexivity. Qed.

(* one transition of an erased pair (q, d) "hits" the key k *)
Definition hit (L : lts) (q d : N) (k : trip) (e : N * N * N) : bool :=
  N.eqb (edst e) d && enters L (elab e) q && trip_eqb k (elab e, q, esrc e).

Lemma cnt_get_set c k0 v k : cnt_get (cnt_set c k0 v) k = if trip_eqb k k0 then v else cnt_get c k.
Proof. reflexivity. Qed.

(* ---------- the inner loop: all transitions, for one erased pair ---------- *)
Lemma inner_cnt L q d : forall es c T k,
  cnt_get (fst (fold_left (decr_edge L q d) es (c, T))) k = cnt_get c k - length (filter (hit L q d k) es).
Proof.
  induction es as [|e es IH]; intros c T k; [simpl; rewrite Nat.sub_0_r; reflexivity|].
  cbn [fold_left filter].
  assert (Hh : hit L q d k e = (N.eqb (edst e) d && enters L (elab e) q) && trip_eqb k (elab e, q, esrc e)) by reflexivity.
  rewrite Hh. clear Hh. unfold decr_edge at 2. cbn [fst snd].
  destruct (N.eqb (edst e) d && enters L (elab e) q) eqn:E; cbn [andb].
  - rewrite IH. rewrite cnt_get_set. destruct (trip_eqb k (elab e, q, esrc e)) eqn:Ek; cbn [length].
    + apply trip_eqb_eq in Ek. subst k. lia.
    + lia.
  - apply IH.
Qed.

Lemma inner_T L q d : forall es c T,
  let st := fold_left (decr_edge L q d) es (c, T) in
  (forall t, In t T -> In t (snd st)) /\
  (forall t, In t (snd st) -> In t T \/
     (cnt_get (fst st) t = 0 /\ exists e, In e es /\ edst e = d /\ enters L (elab e) q = true /\ t = (elab e, q, esrc e))) /\
  (forall k, cnt_get (fst st) k = 0 -> cnt_get c k = 0 \/ In k (snd st)).
Proof.
  induction es as [|e es IH]; intros c T; simpl.
  - repeat split; auto.
  - unfold decr_edge at 2 4 6 8 10. simpl. destruct (N.eqb (edst e) d && enters L (elab e) q) eqn:E.
    + apply andb_true_iff in E as [E1 E2]. apply N.eqb_eq in E1.
      set (k0 := (elab e, q, esrc e)). set (v := pred (cnt_get c k0)).
      set (T1 := if Nat.eqb v 0 then T ++ [k0] else T).
      destruct (IH (cnt_set c k0 v) T1) as [A [B C]].
      assert (HT1 : forall t, In t T -> In t T1). { intros t Ht. unfold T1. destruct (Nat.eqb v 0); auto. apply in_app_iff; auto. }
      split; [|split].
      * intros t Ht. apply A. apply HT1; auto.
      * intros t Ht. destruct (B t Ht) as [Ht1|[Hz [e' [He' H]]]].
        -- unfold T1 in Ht1. destruct (Nat.eqb v 0) eqn:Ev; auto. apply in_app_iff in Ht1 as [Ht1|[<-|[]]]; auto.
           right. split.
           ++ rewrite inner_cnt. rewrite cnt_get_set, trip_eqb_refl. apply Nat.eqb_eq in Ev. lia.
           ++ exists e. repeat split; auto.
        -- right. split; auto. exists e'. destruct H as [H1 [H2 H3]]. repeat split; auto.
      * intros k Hk. destruct (C k Hk) as [Hc|Hc]; auto. rewrite cnt_get_set in Hc.
        destruct (trip_eqb k k0) eqn:Ek.
        -- apply trip_eqb_eq in Ek. subst k. right. apply A. unfold T1. rewrite Hc. simpl. apply in_app_iff. right. left. auto.
        -- auto.
    + destruct (IH c T) as [A [B C]]. simpl in A, B, C. split; [|split]; auto.
      intros t Ht. destruct (B t Ht) as [?|[Hz [e' [He' H]]]]; auto. right. split; auto. exists e'. tauto.
Qed.

(* the counter of a key changes by the number of its transitions into the erased pair *)
Definition b2n (b : bool) : nat := if b then 1 else 0.
Lemma filter_len_add {X} (p p2 h : X -> bool) es :
  (forall e, b2n (p e) = b2n (p2 e) + b2n (h e)) -> length (filter p es) = length (filter p2 es) + length (filter h es).
Proof.
  intros H. induction es as [|e es IH]; cbn [filter length]; auto. specialize (H e).
  destruct (p e), (p2 e), (h e); cbn [b2n length] in *; lia.
Qed.

Lemma count_split L R R2 q d b q1 r0 :
  In (q, d) R -> (forall y, In y R2 <-> In y R /\ y <> (q, d)) -> enters L b q1 = true ->
  forall es,
  length (filter (fun e => N.eqb (esrc e) r0 && N.eqb (elab e) b && memP (q1, edst e) R) es) =
  length (filter (fun e => N.eqb (esrc e) r0 && N.eqb (elab e) b && memP (q1, edst e) R2) es) +
  length (filter (hit L q d (b, q1, r0)) es).
Proof.
  intros Hin HR2 Hent es. apply filter_len_add. intros [[s l] t]. unfold hit, esrc, elab, edst. cbn [fst snd].
  destruct (trip_eqb (b, q1, r0) (l, q, s)) eqn:Ek.
  - apply trip_eqb_eq in Ek. inversion Ek; subst l q s. rewrite Hent, !N.eqb_refl, !andb_true_r. cbn [andb].
    destruct (N.eqb_spec t d) as [->|Hne].
    + assert (X1 : memP (q1, d) R = true) by (apply memP_In; auto).
      assert (X2 : memP (q1, d) R2 = false).
      { destruct (memP (q1, d) R2) eqn:E; auto. apply memP_In, HR2 in E. destruct E as [_ E]. congruence. }
      rewrite X1, X2. reflexivity.
    + assert (X : memP (q1, t) R2 = memP (q1, t) R).
      { apply eq_true_iff_eq. rewrite !memP_In, HR2. split; [tauto|]. intros H. split; auto. congruence. }
      rewrite X. destruct (memP (q1, t) R); reflexivity.
  - rewrite andb_false_r. cbn [b2n]. rewrite Nat.add_0_r. f_equal.
    destruct (N.eqb_spec s r0) as [->|]; cbn [andb]; auto. destruct (N.eqb_spec l b) as [->|]; cbn [andb]; auto.
    apply eq_true_iff_eq. rewrite !memP_In, HR2. split; [|tauto]. intros H. split; auto.
    intros E. inversion E; subst. rewrite trip_eqb_refl in Ek. discriminate.
Qed.

(* the counters are exact for the labels that enter the simulated state *)
Definition CInv (L : lts) (R : list (N * N)) (c : cnt_t) : Prop :=
  forall b q r0, enters L b q = true -> cnt_get c (b, q, r0) = count_succ L R b q r0.

Lemma inner_CInv L R R2 c T q d :
  CInv L R c -> In (q, d) R -> (forall y, In y R2 <-> In y R /\ y <> (q, d)) ->
  CInv L R2 (fst (fold_left (decr_edge L q d) L (c, T))).
Proof.
  intros HC Hin HR2 b q1 r0 Hent. rewrite inner_cnt, (HC b q1 r0 Hent).
  unfold count_succ. rewrite (count_split L R R2 q d b q1 r0 Hin HR2 Hent L). lia.
Qed.

(* ---------- the outer loop: all erased pairs ---------- *)
Lemma outer_mono L : forall gone c T k, cnt_get (fst (fold_left (decr_pair L) gone (c, T))) k <= cnt_get c k.
Proof.
  induction gone as [|[q d] gone IH]; intros c T k; simpl; auto.
  unfold decr_pair at 2. simpl. remember (fold_left (decr_edge L q d) L (c, T)) as s eqn:Es. destruct s as [c1 T1].
  etransitivity; [apply IH|]. pose proof (inner_cnt L q d L c T k) as X. rewrite <- Es in X. simpl in X. lia.
Qed.

Lemma outer L : forall gone R c T,
  NoDup gone -> incl gone R -> CInv L R c ->
  let st := fold_left (decr_pair L) gone (c, T) in
  (forall R2, (forall y, In y R2 <-> In y R /\ ~ In y gone) -> CInv L R2 (fst st)) /\
  (forall t, In t T -> In t (snd st)) /\
  (forall t, In t (snd st) -> In t T \/
     (cnt_get (fst st) t = 0 /\ exists q d r0 b, In (q, d) gone /\ In (r0, b, d) L /\ enters L b q = true /\ t = (b, q, r0))) /\
  (forall k, cnt_get (fst st) k = 0 -> cnt_get c k = 0 \/ In k (snd st)).
Proof.
  induction gone as [|[q d] gone IH]; intros R c T Hnd Hincl HC; simpl.
  - split; [|repeat split; auto].
    intros R2 HR2 b q r0 Hent. rewrite (HC b q r0 Hent). apply count_ext. intros y. rewrite HR2. tauto.
  - inversion Hnd as [|x l Hnotin Hnd']; subst.
    set (R1 := filter (fun y => negb (pairN_eqb y (q, d))) R).
    assert (HR1 : forall y, In y R1 <-> In y R /\ y <> (q, d)).
    { intros y. unfold R1. rewrite filter_In, negb_true_iff. split; intros [Ha Hb]; split; auto.
      - intros E. apply pairN_eqb_eq in E. congruence.
      - destruct (pairN_eqb y (q, d)) eqn:E; auto. apply pairN_eqb_eq in E. contradiction. }
    change (decr_pair L (c, T) (q, d)) with (fold_left (decr_edge L q d) L (c, T)).
    destruct (inner_T L q d L c T) as [A1 [B1 C1]].
    remember (fold_left (decr_edge L q d) L (c, T)) as st1 eqn:Est1. destruct st1 as [c1 T1]. simpl in A1, B1, C1.
    assert (HC1 : CInv L R1 c1).
    { pose proof (inner_CInv L R R1 c T q d HC (Hincl _ (or_introl eq_refl)) HR1) as X. rewrite <- Est1 in X. exact X. }
    assert (Hincl1 : incl gone R1).
    { intros y Hy. apply HR1. split; [apply Hincl; right; auto|]. intros ->. contradiction. }
    destruct (IH R1 c1 T1 Hnd' Hincl1 HC1) as [A2 [B2 [C2 D2]]].
    split; [|split; [|split]].
    + intros R2 HR2. apply A2. intros y. rewrite HR2, HR1. split.
      * intros [Hy Hn]. split; [split; [exact Hy|]|].
        -- intros E. apply Hn. left. congruence.
        -- intros E. apply Hn. right. exact E.
      * intros [[Hy Hne] Hn]. split; auto. intros [E|E]; [apply Hne; congruence | contradiction].
    + intros t Ht. apply B2. apply A1. auto.
    + intros t Ht. destruct (C2 t Ht) as [Ht1|[Hz [q2 [d2 [r2 [b2 [Hg H]]]]]]].
      * destruct (B1 t Ht1) as [?|[Hz [[[s l] t'] [He [Hd [Hen Heq]]]]]]; auto.
        unfold esrc, elab, edst in *. simpl in *. subst t'.
        right. split.
        -- pose proof (outer_mono L gone c1 T1 t) as M. lia.
        -- exists q, d, s, l. repeat split; auto.
      * right. split; auto. exists q2, d2, r2, b2. destruct H as [H1 [H2 H3]]. repeat split; auto.
    + intros k Hk. destruct (D2 k Hk) as [Hc|Hc]; auto. destruct (C1 k Hc) as [?|Hin]; auto.
Qed.

(* ---------- the main loop ---------- *)
Section RunC.
Variable L : lts.
Variable R0 : list (N * N).

Lemma stepc a q' r Rem' R c Rem'' :
  Inv L R0 R ((a, q', r) :: Rem') -> CInv L R c -> NoDup R ->
  let V := victims L a q' r in
  let gone := filter (fun x => memP x V) R in
  let R' := filter (fun x => negb (memP x V)) R in
  let st := fold_left (decr_pair L) gone (c, []) in
  (forall t, In t Rem'' <-> In t Rem' \/ In t (snd st)) ->
  Inv L R0 R' Rem'' /\ CInv L R' (fst st) /\ NoDup R'.
Proof.
  intros HI HC Hnd V gone R' st HR.
  assert (Hg1 : NoDup gone) by (apply NoDup_filter; auto).
  assert (Hg2 : incl gone R) by (intros x Hx; apply filter_In in Hx; tauto).
  destruct (outer L gone R c [] Hg1 Hg2 HC) as [A [_ [C D]]]. fold st in A, C, D.
  assert (HR' : forall y, In y R' <-> In y R /\ ~ In y gone).
  { intros y. unfold R', gone. rewrite !filter_In, negb_true_iff. split.
    - intros [Hy Hm]. split; auto. intros [_ Hm2]. congruence.
    - intros [Hy Hn]. split; auto. destruct (memP y V) eqn:E; auto. exfalso. apply Hn. auto. }
  assert (HC' : CInv L R' (fst st)) by (apply A; auto).
  split; [|split; [exact HC' | apply NoDup_filter; auto]].
  apply (step_inv L R0 a q' r Rem' R Rem'' HI); fold V; fold gone; fold R'.
  - intros t Ht. apply HR in Ht as [Ht|Ht]; auto. right.
    destruct (C t Ht) as [[]|[Hz [q [d [r0 [b [Hgd [He [Hen ->]]]]]]]]].
    apply new_removes_In. exists d. split; auto. split; auto.
    apply count0. rewrite <- (HC' b q r0 Hen). exact Hz.
  - intros t Ht. apply HR. auto.
  - intros b q r0 Hn Hx. apply HR. apply enters_spec in Hx.
    apply new_removes_In in Hn as [d [Hgd [He Hf]]].
    assert (Hz : cnt_get (fst st) (b, q, r0) = 0) by (rewrite (HC' b q r0 Hx); apply count0; auto).
    destruct (D _ Hz) as [Hc|Hc]; auto. exfalso.
    rewrite (HC b q r0 Hx) in Hc. apply count0 in Hc. rewrite has_succ_false in Hc. apply (Hc d He). apply Hg2; auto.
Qed.

Lemma hhkc_inv lifo : forall fuel R c Rem R',
  Inv L R0 R Rem -> CInv L R c -> NoDup R -> hhkc L lifo fuel R c Rem = Some R' -> Inv L R0 R' [].
Proof.
  induction fuel as [|f IH]; intros R c Rem R' HI HC Hnd H; simpl in H; [discriminate|].
  destruct Rem as [|[[a q'] r] Rem'].
  - inversion H; subst; auto.
  - match type of H with hhkc _ _ _ ?R1 ?c1 ?Rem1 = _ =>
      destruct (stepc a q' r Rem' R c Rem1 HI HC Hnd) as [X1 [X2 X3]];
        [intros t; destruct lifo; rewrite in_app_iff; tauto | exact (IH R1 c1 Rem1 R' X1 X2 X3 H)] end.
Qed.

Theorem hhkc_partial_correct lifo fuel R c Rem R' :
  Inv L R0 R Rem -> CInv L R c -> NoDup R -> hhkc L lifo fuel R c Rem = Some R' ->
  forall q r, In (q, r) R' <-> In (q, r) (lts_sim_from L R0).
Proof. intros HI HC Hnd H. apply inv_final. eapply hhkc_inv; eauto. Qed.
End RunC.

(* the counters computed by init() are exact *)
Lemma cnt_get_fun (F : trip -> nat) : forall c, (forall k v, In (k, v) c -> v = F k) ->
  forall k, cnt_get c k = F k \/ (cnt_get c k = 0 /\ forall v, ~ In (k, v) c).
Proof.
  induction c as [|[k0 v0] c IH]; intros H k; simpl.
  - right. split; auto.
  - destruct (trip_eqb k k0) eqn:E.
    + apply trip_eqb_eq in E. subst. left. apply H. left; auto.
    + destruct (IH (fun k1 v1 H1 => H k1 v1 (or_intror H1)) k) as [X|[X Y]]; auto. right. split; auto.
      intros v [Hv|Hv]; [|apply (Y v Hv)]. inversion Hv; subst. rewrite trip_eqb_refl in E. discriminate.
Qed.
Lemma init_counts_exact L R : CInv L R (init_counts L R).
Proof.
  intros b q r0 Hen.
  destruct (cnt_get_fun (fun k => count_succ L R (fst (fst k)) (snd (fst k)) (snd k)) (init_counts L R)) with (k := (b, q, r0)) as [X|[X Y]]; auto.
  - intros k v Hk. unfold init_counts in Hk. apply in_flat_map in Hk as [e1 [_ Hk]]. apply in_map_iff in Hk as [e2 [E _]].
    inversion E; subst. reflexivity.
  - rewrite X. symmetry. apply count0. apply has_succ_false. intros r'' He _.
    apply enters_spec in Hen as [x Hx]. apply (Y (count_succ L R b q r0)).
    unfold init_counts. apply in_flat_map. exists (x, b, q). split; auto. apply in_map_iff. exists (r0, b, r''). split; auto.
Qed.

Lemma NoDup_app_intro {X} (l1 l2 : list X) : NoDup l1 -> NoDup l2 -> (forall x, In x l1 -> ~ In x l2) -> NoDup (l1 ++ l2).
Proof.
  induction l1 as [|x l1 IH]; simpl; intros H1 H2 H; auto. inversion H1; subst. constructor.
  - rewrite in_app_iff. intros [Hx|Hx]; [contradiction | apply (H x (or_introl eq_refl) Hx)].
  - apply IH; auto.
Qed.
Lemma NoDup_pairs (l2 : list N) : NoDup l2 -> forall l1, NoDup l1 -> NoDup (flat_map (fun q : N => map (fun r : N => (q, r)) l2) l1).
Proof.
  intros S2. induction l1 as [|q l1 IH]; intros Hnd; simpl; [constructor|]. inversion Hnd; subst. apply NoDup_app_intro; auto.
  - apply Injective_map_NoDup; [intros x y E; inversion E; auto | exact S2].
  - intros [x y] Ha Hb. apply in_map_iff in Ha as [y' [E _]]. inversion E; subst.
    apply in_flat_map in Hb as [x' [Hx' Hb]]. apply in_map_iff in Hb as [y'' [E2 _]]. inversion E2; subst. contradiction.
Qed.
Lemma NoDup_all_pairs n : NoDup (all_pairs n).
Proof.
  assert (S : NoDup (seqN n)).
  { unfold seqN. apply Injective_map_NoDup; [intros x y; apply Nat2N.inj | apply seq_NoDup]. }
  unfold all_pairs. apply NoDup_pairs; auto.
Qed.

Theorem hhkc_sim_partial_correct L lifo fuel n part brel R' :
  hhkc_sim L lifo fuel n part brel = Some R' -> forall q r, In (q, r) R' <-> In (q, r) (lts_sim L n part brel).
Proof.
  unfold hhkc_sim, lts_sim. intros H. eapply hhkc_partial_correct; [apply init_inv | apply init_counts_exact | | exact H].
  unfold prune_enabled, init_rel. apply NoDup_filter, NoDup_filter, NoDup_all_pairs.
Qed.

Theorem hhkc_sim_passes_gate L lifo fuel n part brel m R' :
  hhkc_sim L lifo fuel n part brel = Some R' -> gate_lts L n part brel m (output m R') = true.
Proof.
  intros H. unfold gate_lts. apply rel_same_spec. intros q r. rewrite !output_spec.
  rewrite (hhkc_sim_partial_correct L lifo fuel n part brel R' H q r). tauto.
Qed.

Example hhkc_example :
  hhkc_sim ex_lts true 20 3 [[0; 2]; [1]]%N [(0, 0); (1, 1); (0, 1)]%N = Some [(0, 0); (0, 1); (1, 1); (2, 2)]%N /\
  hhkc_sim ex_lts false 20 3 [[0; 2]; [1]]%N [(0, 0); (1, 1); (0, 1)]%N = Some [(0, 0); (0, 1); (1, 1); (2, 2)]%N.
Proof. vm_compute. split; reflexivity. Qed.

(* the counters must be computed on the pruned relation: computed before the pruning, a counter that starts too high never
   reaches zero and a pair that is not in any simulation survives *)
Definition st_lts : lts := [(0, 0, 1); (2, 0, 3); (2, 0, 4); (1, 1, 5); (4, 1, 6); (5, 2, 7); (6, 2, 8); (7, 3, 7)]%N.
Theorem hhkc_stale_counts_refuted :
  exists R', hhkc_sim_stale st_lts true 200 9 [seqN 9] [(0, 0)]%N = Some R' /\ In (0, 2)%N R' /\
             ~ In (0, 2)%N (lts_sim st_lts 9 [seqN 9] [(0, 0)]%N) /\
             hhkc_sim st_lts true 200 9 [seqN 9] [(0, 0)]%N = Some (lts_sim st_lts 9 [seqN 9] [(0, 0)]%N).
Proof.
  eexists. split; [vm_compute; reflexivity|]. split; [vm_compute; tauto|]. split; [|vm_compute; reflexivity].
  vm_compute. intros H. repeat (destruct H as [H|H]; [discriminate|]). exact H.
Qed.
