(* C18 (and the equality clause of C17) — store-level model of OndriksMTBDD<Data>: the two
   process-wide unique tables (leafCache_, internalCache_), the nodes with their reference
   counters, and the live MTBDD objects (handles).  Definitions only (extracted); the proofs are in
   MtbddStoreProofs.v.

   Transcribed from src/mtbdd/ondriks_mtbdd.hh:
     spawnLeaf            [spawn_leaf]      creates with counter 0, does not count
     spawnInternal        [spawn_internal]  counts the two children only when the node is new
     IncrementRefCnt      [inc_rc]
     constructMTBDD       [construct_st]    incl. the early return for a leaf equal to the default
                                            value and the disposal of an unused sink
     recursivelyDeleteMTBDDNode / disposeOf{Leaf,Internal}Node   [release]
     copy constructor, operator= (self test first), destructor, OndriksMTBDD(value)   [step]
   The apply functors build, through spawnLeaf / spawnInternal, exactly the nodes of their result
   diagram, children first, low before high: [intern] of the functional result (apply1, apply2, apply3 of MtbddDefs.v).
   Every handle carries the diagram it denotes as a ghost field; the ghost is never consulted for
   a decision of the store (it feeds the functional operations and serves as recursion measure of
   [release]); the invariant of MtbddStoreProofs.v says the root denotes the ghost.

   Node identities are fresh numbers (an address is never reused in the model). *)
From Coq Require Import List Arith Bool.
From V Require Import MtbddDefs.
Import ListNotations.

Section AMAP.
Variables K A : Type.
Variable eqd : forall a b : K, {a = b} + {a <> b}.
Fixpoint lookup (m : list (K * A)) (k : K) : option A :=
  match m with
  | [] => None
  | (k', a) :: r => if eqd k k' then Some a else lookup r k
  end.
Fixpoint remove_key (m : list (K * A)) (k : K) : list (K * A) :=
  match m with
  | [] => []
  | (k', a) :: r => if eqd k k' then remove_key r k else (k', a) :: remove_key r k
  end.
Fixpoint update (m : list (K * A)) (k : K) (f : A -> A) : list (K * A) :=
  match m with
  | [] => []
  | (k', a) :: r => if eqd k k' then (k', f a) :: r else (k', a) :: update r k f
  end.
End AMAP.
Arguments lookup {K A}.
Arguments remove_key {K A}.
Arguments update {K A}.

Section STORE.
Variable V : Type.
Variable V_eq_dec : forall a b : V, {a = b} + {a <> b}.
Notation dd := (dd V).

Definition id := nat.
Inductive shape := SLeaf (v : V) | SInt (lo hi : id) (x : nat).
Record node := mkn { shp : shape; rc : nat }.
Record handle := mkh { root : id; dflt : V; ghost : dd }.
Definition ikey := (id * id * nat)%type.
Definition ikey_eq_dec : forall a b : ikey, {a = b} + {a <> b}.
Proof. decide equality; try apply Nat.eq_dec. decide equality; apply Nat.eq_dec. Defined.

Record store := mks {
  nodes : list (id * node);        (* the heap: address -> (shape, reference counter) *)
  ltab : list (V * id);            (* leafCache_ *)
  itab : list (ikey * id);         (* internalCache_ *)
  next : id;                       (* next fresh address *)
  handles : list (nat * handle)    (* live OndriksMTBDD objects *)
}.
Definition empty_store : store := mks [] [] [] 0 [].

Definition nlookup (s : store) (i : id) : option node := lookup Nat.eq_dec (nodes s) i.
Definition hlookup (s : store) (h : nat) : option handle := lookup Nat.eq_dec (handles s) h.
Definition set_nodes (s : store) (n : list (id * node)) : store := mks n (ltab s) (itab s) (next s) (handles s).
Definition add_handle (s : store) (h : nat) (hd : handle) : store :=
  mks (nodes s) (ltab s) (itab s) (next s) ((h, hd) :: handles s).
Definition del_handle (s : store) (h : nat) : store :=
  mks (nodes s) (ltab s) (itab s) (next s) (remove_key Nat.eq_dec (handles s) h).

(* what the drivers read from the C++ side *)
Definition leaf_size (s : store) : nat := length (ltab s).
Definition int_size (s : store) : nat := length (itab s).

Definition inc_rc (s : store) (i : id) : store :=
  set_nodes s (update Nat.eq_dec (nodes s) i (fun n => mkn (shp n) (S (rc n)))).
Definition set_rc (s : store) (i : id) (c : nat) : store :=
  set_nodes s (update Nat.eq_dec (nodes s) i (fun n => mkn (shp n) c)).
Definition rc_of (s : store) (i : id) : nat := match nlookup s i with Some n => rc n | None => 0 end.

Definition spawn_leaf (s : store) (v : V) : store * id :=
  match lookup V_eq_dec (ltab s) v with
  | Some i => (s, i)
  | None => let i := next s in
            (mks ((i, mkn (SLeaf v) 0) :: nodes s) ((v, i) :: ltab s) (itab s) (S i) (handles s), i)
  end.

Definition spawn_internal (s : store) (lo hi : id) (x : nat) : store * id :=
  match lookup ikey_eq_dec (itab s) (lo, hi, x) with
  | Some i => (s, i)
  | None => let i := next s in
            let s1 := mks ((i, mkn (SInt lo hi x) 0) :: nodes s) (ltab s) (((lo, hi, x), i) :: itab s) (S i) (handles s) in
            (inc_rc (inc_rc s1 lo) hi, i)
  end.

(* hash-consing a diagram bottom-up, low child first (what an apply functor does with its result) *)
Fixpoint intern (s : store) (d : dd) : store * id :=
  match d with
  | Leaf v => spawn_leaf s v
  | Nd x l h => let (s1, il) := intern s l in
                let (s2, ih) := intern s1 h in
                spawn_internal s2 il ih x
  end.

(* disposeOfLeafNode / (table and heap part of) disposeOfInternalNode *)
Definition dispose_leaf (s : store) (i : id) (v : V) : store :=
  mks (remove_key Nat.eq_dec (nodes s) i) (remove_key V_eq_dec (ltab s) v) (itab s) (next s) (handles s).
Definition dispose_internal (s : store) (i : id) (k : ikey) : store :=
  mks (remove_key Nat.eq_dec (nodes s) i) (ltab s) (remove_key ikey_eq_dec (itab s) k) (next s) (handles s).

(* recursivelyDeleteMTBDDNode.  g is the diagram denoted by i, used only as recursion measure.
   None = a fault: the node does not exist any more (released twice / while referenced), its
   counter is already 0 (the assert of DecrementRefCnt), or g does not cover the heap below i.
   The second component lists the nodes deleted, in order.  (The C++ erases the internal node from
   the table, releases the children and deletes the node last; the model removes it from table and
   heap at once: nothing reads a node between these two moments.) *)
Fixpoint release (g : dd) (s : store) (i : id) : option (store * list id) :=
  match nlookup s i with
  | None => None
  | Some n =>
    match rc n with
    | 0 => None
    | S (S c) => Some (set_rc s i (S c), [])
    | S 0 =>
      match shp n with
      | SLeaf v => Some (dispose_leaf s i v, [i])
      | SInt lo hi x =>
        match g with
        | Leaf _ => None
        | Nd _ gl gh =>
          match release gl (dispose_internal s i (lo, hi, x)) lo with
          | None => None
          | Some (s1, l1) =>
            match release gh s1 hi with
            | None => None
            | Some (s2, l2) => Some (s2, i :: l1 ++ l2)
            end
          end
        end
      end
    end
  end.

(* the loop of constructMTBDD at store level *)
Fixpoint chain_st (s : store) (asgn : list tri) (i off : nat) (sink proc : id) : store * id :=
  match asgn with
  | [] => (s, proc)
  | T1 :: r => let (s1, p) := spawn_internal s sink proc (i + off) in chain_st s1 r (S i) off sink p
  | T0 :: r => let (s1, p) := spawn_internal s proc sink (i + off) in chain_st s1 r (S i) off sink p
  | TX :: r => chain_st s r (S i) off sink proc
  end.

Definition is_leaf_st (s : store) (i : id) (v : V) : bool :=
  match nlookup s i with
  | Some n => match shp n with SLeaf u => if V_eq_dec u v then true else false | SInt _ _ _ => false end
  | None => false
  end.

(* constructMTBDD(asgn, node, defaultValue, varTrans = +off); the result is already counted *)
Definition construct_st (s : store) (asgn : list tri) (nd : id) (dv : V) (off : nat) : store * id :=
  if is_leaf_st s nd dv then (inc_rc s nd, nd)
  else
    let (s1, sink) := spawn_leaf s dv in
    let (s2, proc) := chain_st s1 asgn 0 off sink nd in
    let s3 := if proc =? nd
              then (if rc_of s2 sink =? 0 then dispose_leaf s2 sink dv else s2)
              else s2 in
    (inc_rc s3 proc, proc).

(* an apply functor / GetMtbddForPrefix: result diagram d, counted once for the new object h *)
Definition make (s : store) (h : nat) (d : dd) (dv : V) : store :=
  let (s1, i) := intern s d in add_handle (inc_rc s1 i) h (mkh i dv d).

Inductive op :=
| OConstruct (h : nat) (asgn : list tri) (v dv : V)       (* OndriksMTBDD h(asgn, v, dv) *)
| OLeaf (h : nat) (v : V)                                  (* OndriksMTBDD h(v) *)
| OCopy (h g : nat)                                        (* OndriksMTBDD h(g) *)
| OAssign (h g : nat)                                      (* h = g *)
| OApply1 (h : nat) (f : V -> V) (a : nat)
| OApply2 (h : nat) (f : V -> V -> V) (a b : nat)
| OApply3 (h : nat) (f : V -> V -> V -> V) (a b c : nat)
| OExtend (h : nat) (asgn : list tri) (off : nat) (a : nat)   (* h = a.ExtendWith(asgn, off) *)
| OPrefix (h : nat) (asgn : list tri) (off : nat) (a : nat)   (* h = a.GetMtbddForPrefix(asgn, off) *)
| ODestroy (h : nat).

(* the handle an operation writes *)
Definition target (o : op) : nat :=
  match o with
  | OConstruct h _ _ _ | OLeaf h _ | OCopy h _ | OAssign h _ | OApply1 h _ _ | OApply2 h _ _ _
  | OApply3 h _ _ _ _ | OExtend h _ _ _ | OPrefix h _ _ _ | ODestroy h => h
  end.

Definition is_none {A} (o : option A) : bool := match o with None => true | Some _ => false end.

(* None = the history is not executable (a dead handle is used, a live one is created again) or a
   fault of [release] *)
Definition step (s : store) (o : op) : option (store * list id) :=
  match o with
  | OConstruct h asgn v dv =>
    if is_none (hlookup s h) then
      let (s1, nd) := spawn_leaf s v in
      let (s2, r) := construct_st s1 asgn nd dv 0 in
      Some (add_handle s2 h (mkh r dv (construct V V_eq_dec asgn v dv)), [])
    else None
  | OLeaf h v =>
    if is_none (hlookup s h) then
      let (s1, r) := spawn_leaf s v in Some (add_handle (inc_rc s1 r) h (mkh r v (Leaf v)), [])
    else None
  | OCopy h g =>
    if is_none (hlookup s h) then
      match hlookup s g with
      | Some hg => Some (add_handle (inc_rc s (root hg)) h hg, [])
      | None => None
      end
    else None
  | OAssign h g =>
    match hlookup s h, hlookup s g with
    | Some hh, Some hg =>
      if h =? g then Some (s, [])
      else match release (ghost hh) (del_handle s h) (root hh) with
           | Some (s1, log) => Some (add_handle (inc_rc s1 (root hg)) h hg, log)
           | None => None
           end
    | _, _ => None
    end
  | OApply1 h f a =>
    if is_none (hlookup s h) then
      match hlookup s a with
      | Some ha => Some (make s h (apply1 V V_eq_dec f (ghost ha)) (f (dflt ha)), [])
      | None => None
      end
    else None
  | OApply2 h f a b =>
    if is_none (hlookup s h) then
      match hlookup s a, hlookup s b with
      | Some ha, Some hb => Some (make s h (apply2 V V_eq_dec f (ghost ha) (ghost hb)) (f (dflt ha) (dflt hb)), [])
      | _, _ => None
      end
    else None
  | OApply3 h f a b c =>
    if is_none (hlookup s h) then
      match hlookup s a, hlookup s b, hlookup s c with
      | Some ha, Some hb, Some hc =>
        Some (make s h (apply3 V V_eq_dec f (ghost ha) (ghost hb) (ghost hc)) (f (dflt ha) (dflt hb) (dflt hc)), [])
      | _, _, _ => None
      end
    else None
  | OExtend h asgn off a =>
    if is_none (hlookup s h) then
      match hlookup s a with
      | Some ha =>
        let (s1, r) := construct_st s asgn (root ha) (dflt ha) off in
        Some (add_handle s1 h (mkh r (dflt ha) (extend V V_eq_dec asgn off (ghost ha) (dflt ha))), [])
      | None => None
      end
    else None
  | OPrefix h asgn off a =>
    if is_none (hlookup s h) then
      match hlookup s a with
      | Some ha => Some (make s h (prefix V asgn off (ghost ha)) (dflt ha), [])
      | None => None
      end
    else None
  | ODestroy h =>
    match hlookup s h with
    | Some hh => release (ghost hh) (del_handle s h) (root hh)
    | None => None
    end
  end.

(* a history; the deleted nodes of all steps are concatenated *)
Fixpoint run (s : store) (os : list op) : option (store * list id) :=
  match os with
  | [] => Some (s, [])
  | o :: r => match step s o with
              | None => None
              | Some (s1, l1) => match run s1 r with
                                 | None => None
                                 | Some (s2, l2) => Some (s2, l1 ++ l2)
                                 end
              end
  end.

End STORE.

Arguments SLeaf {V}.
Arguments SInt {V}.
