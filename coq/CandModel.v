(* C15 — (A) model of the bottom-up search of GetCandidateTree: all nullary rules are kept, then rounds over the rules
   keep ONE justifying rule per newly reached state, until nothing changes; finally the reached final states and top-down
   pruning. (The code additionally stops at the first reached final state; stopping later keeps more rules, harmlessly.)
   Theorem: whatever the order of the rules, the result satisfies candidate_ok, hence the property. *)
From Coq Require Import List NArith Bool Arith Lia.
Import ListNotations.
From V Require Import Fix Sem Prod Incl TrimDefs TrimProofs Lang CandDefs CandProofs.

Definition cstate := (list N * list rule)%type.

Definition scan (SK : cstate) (r : rule) : cstate :=
  let (S, K) := SK in
  if memN (par r) S then SK
  else if forallb (fun c => memN c S) (ch r) then (par r :: S, r :: K) else SK.

Definition round (A : ta) (SK : cstate) : cstate := fold_left scan (rules A) SK.

Fixpoint citer (A : ta) (fuel : nat) (SK : cstate) : cstate :=
  match fuel with
  | 0 => SK
  | S f => let SK' := round A SK in
           if Nat.eqb (length (fst SK')) (length (fst SK)) then SK else citer A f SK'
  end.

Definition is_nullary (r : rule) : bool := match ch r with [] => true | _ => false end.
Definition cinit (A : ta) : cstate :=
  let L := filter is_nullary (rules A) in (nodup N.eq_dec (map par L), L).

Definition cand_raw (A : ta) : ta :=
  let (S, K) := citer A (S (length (states A))) (cinit A) in
  {| rules := K; finals := filter (fun q => memN q S) (finals A) |}.
Definition cand_model (A : ta) : ta := remove_unreachable (cand_raw A).

(* ---------- proofs ---------- *)
Definition mk (K : list rule) : ta := {| rules := K; finals := [] |}.

Record CInv (A : ta) (SK : cstate) : Prop := {
  ci_rules : incl (snd SK) (rules A);
  ci_states : incl (fst SK) (states A);
  ci_nodup : NoDup (fst SK);
  ci_trees : forall q, In q (fst SK) -> exists t, reach (mk (snd SK)) t q }.

Lemma forallb_mem cs S : forallb (fun c => memN c S) cs = true <-> (forall c, In c cs -> In c S).
Proof. rewrite forallb_forall. split; intros H c Hc; [apply memN_In | apply memN_In]; auto. Qed.

Lemma scan_mono SK r : incl (fst SK) (fst (scan SK r)) /\ incl (snd SK) (snd (scan SK r)).
Proof.
  destruct SK as [S K]. unfold scan. destruct (memN (par r) S); [split; apply incl_refl|].
  destruct (forallb _ _); simpl; split; try apply incl_refl; apply incl_tl, incl_refl.
Qed.

Lemma scan_inv A SK r : In r (rules A) -> CInv A SK -> CInv A (scan SK r).
Proof.
  intros Hr [I1 I2 I3 I4]. destruct SK as [S K]. unfold scan. simpl in *.
  destruct (memN (par r) S) eqn:Ep; [constructor; auto|].
  destruct (forallb (fun c => memN c S) (ch r)) eqn:Ec; [|constructor; auto].
  pose proof (proj1 (forallb_mem _ _) Ec) as Ec2. clear Ec. rename Ec2 into Ec. constructor; simpl.
  - intros x [<-|Hx]; auto.
  - intros x [<-|Hx]; auto. apply rule_states; auto.
  - constructor; auto. intros H. apply memN_In in H. congruence.
  - intros q [<-|Hq].
    + destruct (children_trees (mk K) (fun c => In c S) I4 (ch r) Ec) as [ts Hts].
      exists (Node (sym r) ts). constructor; simpl; auto.
      clear - Hts. induction Hts; constructor; auto. revert H. apply reach_mono. simpl. apply incl_tl, incl_refl.
    + destruct (I4 q Hq) as [t Ht]. exists t. revert Ht. apply reach_mono. simpl. apply incl_tl, incl_refl.
Qed.

Lemma fold_scan_inv A : forall l SK, incl l (rules A) -> CInv A SK -> CInv A (fold_left scan l SK).
Proof. induction l as [|r l IH]; simpl; intros SK Hl I; auto. apply IH; [intros x Hx; apply Hl; right; auto|]. apply scan_inv; auto. apply Hl; left; auto. Qed.
Lemma fold_scan_mono : forall l SK, incl (fst SK) (fst (fold_left scan l SK)).
Proof. induction l as [|r l IH]; simpl; intros SK; [apply incl_refl|]. eapply incl_tran; [apply (scan_mono SK r)|apply IH]. Qed.

Lemma round_inv A SK : CInv A SK -> CInv A (round A SK).
Proof. apply fold_scan_inv. apply incl_refl. Qed.

(* after a round, every rule whose children were reached before the round has a reached parent *)
Lemma fold_scan_fires : forall l SK r, In r l -> (forall c, In c (ch r) -> In c (fst SK)) -> In (par r) (fst (fold_left scan l SK)).
Proof.
  induction l as [|r0 l IH]; simpl; intros SK r Hin Hc; [destruct Hin|].
  destruct Hin as [<-|Hin].
  - apply fold_scan_mono. destruct SK as [S K]. unfold scan. simpl in *. destruct (memN (par r0) S) eqn:Ep; [apply memN_In; auto|].
    assert (E : forallb (fun c => memN c S) (ch r0) = true) by (apply forallb_mem; auto). rewrite E. simpl; auto.
  - apply IH; auto. intros c Hcc. apply (scan_mono SK r0). auto.
Qed.

Definition closed (A : ta) (S : list N) := forall r, In r (rules A) -> (forall c, In c (ch r) -> In c S) -> In (par r) S.

Lemma round_same_closed A SK : CInv A SK -> length (fst (round A SK)) = length (fst SK) -> closed A (fst SK).
Proof.
  intros I E r Hr Hc.
  assert (H : In (par r) (fst (round A SK))) by (apply fold_scan_fires; auto).
  assert (Hsub : incl (fst (round A SK)) (fst SK)).
  { apply NoDup_length_incl; [apply (ci_nodup A SK I) | rewrite E; lia | apply fold_scan_mono]. }
  apply Hsub; auto.
Qed.

Lemma citer_inv A fuel : forall SK, CInv A SK -> CInv A (citer A fuel SK).
Proof. induction fuel as [|f IH]; simpl; intros SK I; auto. destruct (Nat.eqb _ _); auto. apply IH, round_inv; auto. Qed.

Lemma citer_closed A fuel : forall SK, CInv A SK -> length (states A) < fuel + length (fst SK) -> closed A (fst (citer A fuel SK)).
Proof.
  induction fuel as [|f IH]; simpl; intros SK I Hf.
  - exfalso. pose proof (NoDup_incl_length (ci_nodup A SK I) (ci_states A SK I)). lia.
  - destruct (Nat.eqb_spec (length (fst (round A SK))) (length (fst SK))) as [E|NE].
    + apply round_same_closed; auto.
    + apply IH; [apply round_inv; auto|].
      pose proof (NoDup_incl_length (ci_nodup A SK I) (fold_scan_mono (rules A) SK)). unfold round in *. lia.
Qed.

Lemma cinit_inv A : CInv A (cinit A).
Proof.
  unfold cinit. constructor; simpl.
  - intros r Hr. apply filter_In in Hr. tauto.
  - intros q Hq. apply nodup_In, in_map_iff in Hq as [r [<- Hr]]. apply filter_In in Hr as [Hr _]. apply rule_states; auto.
  - apply NoDup_nodup.
  - intros q Hq. apply nodup_In, in_map_iff in Hq as [r [<- Hr]]. pose proof Hr as Hr'. apply filter_In in Hr as [Hr Hn].
    unfold is_nullary in Hn. destruct (ch r) eqn:E; [|discriminate]. exists (Node (sym r) []). constructor; simpl; auto. rewrite E. constructor.
Qed.

Lemma closed_productive A S : closed A S -> forall t q, reach A t q -> In q S.
Proof.
  intros HC. apply (reach_ind' A (fun _ q => In q S)). intros f ts r Hr _ _ IH. apply HC; auto.
  intros c Hc. destruct (Forall2_In_r _ _ _ c IH Hc) as [t [_ H]]. auto.
Qed.

Theorem cand_model_ok A : candidate_ok A (cand_model A) = true.
Proof.
  unfold candidate_ok, cand_model, cand_raw.
  pose proof (citer_inv A (S (length (states A))) (cinit A) (cinit_inv A)) as I.
  pose proof (citer_closed A (S (length (states A))) (cinit A) (cinit_inv A) ltac:(simpl; lia)) as C.
  destruct (citer A (S (length (states A))) (cinit A)) as [S K]. simpl in *.
  set (R := {| rules := K; finals := filter (fun q => memN q S) (finals A) |}).
  apply andb_true_iff. split.
  - unfold cand_sub. apply andb_true_iff. split.
    + apply subR_spec. eapply incl_tran; [apply unreach_rules_sub|]. simpl. apply (ci_rules A _ I).
    + apply subN_spec. rewrite unreach_finals. simpl. intros q Hq. apply filter_In in Hq. tauto.
  - destruct (is_empty A) eqn:E; simpl; auto. apply negb_true_iff. apply nonempty_spec.
    apply nonempty_spec in E as [t [q [Hq Rq]]].
    assert (HqS : In q S) by (eapply closed_productive; eauto).
    destruct (ci_trees A _ I q HqS) as [t' Ht']. simpl in Ht'.
    exists t'. apply (unreach_lang_any shortcut R t'). exists q. split.
    + simpl. apply filter_In. split; auto. apply memN_In; auto.
    + revert Ht'. apply reach_mono. simpl. apply incl_refl.
Qed.

(* hence the property, for every automaton and every order of its rules *)
Theorem cand_model_property A : cand_prop A (cand_model A).
Proof. apply candidate_ok_sound, cand_model_ok. Qed.
