From Coq Require Import List NArith Bool Arith Lia.
Import ListNotations.
From V Require Import Fix Sem Prod Incl TrimDefs TrimProofs Lang ProductDefs ProductProofs BinopDefs.

Lemma ustates_in A q : In q (ustates A) <-> In q (states A).
Proof. apply nodup_In. Qed.

Lemma same_state_lang_spec A q R s : same_state_lang A q R s = true <-> forall t, reach R t s <-> reach A t q.
Proof.
  unfold same_state_lang. rewrite equiv_dec_spec. unfold leq. split; intros H t; specialize (H t).
  - rewrite !with_finals_accepts in H. split; intros X.
    + destruct H as [H _]. destruct H as [q' [[<-|[]] R']]; [exists s; simpl; auto | auto].
    + destruct H as [_ H]. destruct H as [q' [[<-|[]] R']]; [exists q; simpl; auto | auto].
  - rewrite !with_finals_accepts. split; intros [x [[<-|[]] X]]; [exists q | exists s]; simpl; split; auto; apply H; auto.
Qed.

Definition names_union_prop (mL mR : list (N * N)) (A B R : ta) :=
  forall s, In s (states R) ->
    (exists k, In k (states A) /\ In (k, s) mL /\ forall t, reach R t s <-> reach A t k) \/
    (exists k, In k (states B) /\ In (k, s) mR /\ forall t, reach R t s <-> reach B t k).

Lemma has_pair_spec m k v : has_pair m k v = true <-> In (k, v) m.
Proof.
  unfold has_pair. rewrite existsb_exists. split.
  - intros [[k' v'] [H E]]. simpl in E. apply andb_true_iff in E as [E1 E2]. apply N.eqb_eq in E1, E2. subst; auto.
  - intros H. exists (k, v). split; auto. simpl. rewrite !N.eqb_refl. reflexivity.
Qed.

Theorem names_union_spec mL mR A B R : names_union mL mR A B R = true <-> names_union_prop mL mR A B R.
Proof.
  unfold names_union, names_union_prop. rewrite forallb_forall. split.
  - intros H s Hs. specialize (H s (proj2 (ustates_in R s) Hs)). apply orb_true_iff in H as [H|H];
      apply existsb_exists in H as [k [Hk H]]; apply andb_true_iff in H as [H1 H2]; apply has_pair_spec in H1;
      pose proof (proj1 (same_state_lang_spec _ _ _ _) H2) as H3; apply ustates_in in Hk; [left|right]; exists k; auto.
  - intros H s Hs. apply ustates_in in Hs. apply orb_true_iff. destruct (H s Hs) as [[k [Hk [E L]]]|[k [Hk [E L]]]]; [left|right];
      apply existsb_exists; exists k; (split; [apply ustates_in; auto|]); apply andb_true_iff; split;
      [apply has_pair_spec; auto | apply same_state_lang_spec; auto | apply has_pair_spec; auto | apply same_state_lang_spec; auto].
Qed.

Definition names_isect_prop (pm : list (N * N * N)) (A B R : ta) :=
  forall s, In s (states R) -> exists p q, In (p, q, s) pm /\ forall t, reach R t s <-> reach A t p /\ reach B t q.

Lemma single_accepts A q t : accepts (with_finals [q] A) t <-> reach A t q.
Proof. rewrite with_finals_accepts. split; [intros [x [[<-|[]] X]]; auto | intros X; exists q; simpl; auto]. Qed.

Theorem names_isect_spec pm A B R : names_isect pm A B R = true <-> names_isect_prop pm A B R.
Proof.
  unfold names_isect, names_isect_prop. rewrite forallb_forall. split.
  - intros H s Hs. specialize (H s (proj2 (ustates_in R s) Hs)). apply existsb_exists in H as [[[p q] s'] [He H]].
    apply andb_true_iff in H as [H1 H2]. apply N.eqb_eq in H1. subst. exists p, q. split; auto.
    intros t. rewrite isect_gate_spec in H2. specialize (H2 t). rewrite !single_accepts in H2. exact H2.
  - intros H s Hs. apply ustates_in in Hs. destruct (H s Hs) as [p [q [He L]]]. apply existsb_exists. exists (p, q, s). split; auto.
    apply andb_true_iff. split; [apply N.eqb_refl|]. apply isect_gate_spec. intros t. rewrite !single_accepts. apply L.
Qed.

Lemma inj_onb_spec h l : inj_onb h l = true <-> inj_on h l.
Proof.
  unfold inj_onb, inj_on. rewrite forallb_forall. split.
  - intros H x y Hx Hy E. specialize (H x Hx). rewrite forallb_forall in H. specialize (H y Hy).
    rewrite E, N.eqb_refl in H. simpl in H. apply N.eqb_eq; auto.
  - intros H x Hx. apply forallb_forall. intros y Hy. destruct (N.eqb_spec (h x) (h y)) as [E|NE]; simpl; auto.
    apply N.eqb_eq. apply H; auto.
Qed.

Lemma disjointb_spec l m : disjointb l m = true <-> disjoint l m.
Proof.
  unfold disjointb, disjoint. rewrite forallb_forall. split.
  - intros H x Hx Hm. specialize (H x Hx). apply memN_In in Hm. rewrite Hm in H. discriminate.
  - intros H x Hx. destruct (memN x m) eqn:E; auto. apply memN_In in E. exfalso. eapply H; eauto.
Qed.

Theorem valid_unionb_spec hA hB A B : valid_unionb hA hB A B = true <-> valid_union hA hB A B.
Proof. unfold valid_unionb, valid_union. rewrite !andb_true_iff, !inj_onb_spec, disjointb_spec. tauto. Qed.

(* the (R) model of Union has the union language for every pair of valid maps *)
Theorem union_model_lang hA hB A B : valid_unionb hA hB A B = true ->
  forall t, accepts (union_with hA hB A B) t <-> accepts A t \/ accepts B t.
Proof. intros H. apply union_lang. apply valid_unionb_spec; auto. Qed.

(* UnionDisjointStates *)
Theorem union_disjoint_lang A B : disjointb (states A) (states B) = true ->
  forall t, accepts (ta_app A B) t <-> accepts A t \/ accepts B t.
Proof. intros H. apply app_lang. apply disjointb_spec; auto. Qed.

(* non-vacuity *)
Example valid_union_example :
  let A := {| rules := [ {| sym := 0; ch := []; par := 0 |}; {| sym := 3; ch := [0%N; 0%N]; par := 1 |} ]; finals := [1%N] |} in
  let B := {| rules := [ {| sym := 1; ch := []; par := 0 |}; {| sym := 2; ch := [0%N]; par := 0 |} ]; finals := [0%N] |} in
  valid_unionb (fun k => k) (fun k => k + 2)%N A B = true /\ disjointb (states A) (states (image (fun k => k + 2)%N B)) = true.
Proof. vm_compute. split; reflexivity. Qed.
