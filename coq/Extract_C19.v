Require Extraction.
Require Import ExtrOcamlBasic.
From Coq Require Import NArith.
From V Require Import LawsDefs.
Extraction "ex_c19.ml" must_hold agree2 all_agree pairwise_agree of_bool N.to_nat N.of_nat.
