(* C13 — proofs about the value-level load / dump models of TimbukLoadDefs.v *)
From Coq Require Import List NArith ZArith Bool Lia.
Import ListNotations.
From V Require Import TimbukDefs TimbukProofs.
From V Require Import TimbukLoadDefs.
Open Scope N_scope.

Section DictProofs.
  Variable K : Type.
  Variable keq : K -> K -> bool.
  Hypothesis keq_eq : forall a b, keq a b = true <-> a = b.

  Lemma keq_refl : forall a, keq a a = true.
  Proof. intro a. apply keq_eq. reflexivity. Qed.

  (* the invariant of a dictionary filled by the weak translator with counter c *)
  Definition inv (m : dict K) (c : N) : Prop :=
    (forall k v, lookup keq k m = Some v -> back v m = Some k) /\ (forall k v, In (k, v) m -> v < c).

  Lemma lookup_app : forall k m m', lookup keq k (m ++ m') =
    match lookup keq k m with Some v => Some v | None => lookup keq k m' end.
  Proof. induction m as [|[k' v] m IH]; intro m'; simpl; auto. destruct (keq k k'); auto. Qed.

  Lemma back_app : forall v (m m' : dict K), back v (m ++ m') =
    match back v m with Some k => Some k | None => back v m' end.
  Proof. induction m as [|[k' v'] m IH]; intro m'; simpl; auto. destruct (v =? v'); auto. Qed.

  Lemma back_none : forall (m : dict K) c, (forall k v, In (k, v) m -> v < c) -> back c m = None.
  Proof.
    induction m as [|[k v] m IH]; intros c H; simpl; auto.
    assert (v < c) by (apply (H k); left; auto).
    destruct (c =? v) eqn:E; [apply N.eqb_eq in E; lia|]. apply IH. intros k' v' I. apply (H k'). right; auto.
  Qed.

  Lemma inv_weak : forall m c k, inv m c -> inv (fst (weak keq (m, c) k)) (snd (weak keq (m, c) k)).
  Proof.
    intros m c k [I1 I2]. unfold weak. simpl fst at 1. simpl snd at 1.
    destruct (lookup keq k m) eqn:L; simpl; [split; auto|].
    split.
    - intros k0 v0 H. rewrite lookup_app in H. rewrite back_app.
      destruct (lookup keq k0 m) eqn:L0.
      + inversion H; subst. rewrite (I1 _ _ L0). reflexivity.
      + simpl in H. destruct (keq k0 k) eqn:E; [|discriminate]. inversion H; subst.
        rewrite (back_none m v0 I2). simpl. rewrite N.eqb_refl. apply keq_eq in E. congruence.
    - intros k0 v0 H. apply in_app_or in H as [H|H].
      + apply I2 in H. lia.
      + simpl in H. destruct H as [H|[]]. inversion H; subst. lia.
  Qed.

  Lemma weak_keeps : forall st k k0 v, lookup keq k0 (fst st) = Some v -> lookup keq k0 (fst (weak keq st k)) = Some v.
  Proof.
    intros [m c] k k0 v H. unfold weak. simpl in *. destruct (lookup keq k m); simpl; auto.
    rewrite lookup_app, H. reflexivity.
  Qed.

  Lemma weak_adds : forall st k, exists v, lookup keq k (fst (weak keq st k)) = Some v.
  Proof.
    intros [m c] k. unfold weak. simpl. destruct (lookup keq k m) eqn:L; simpl; eauto.
    rewrite lookup_app, L. simpl. rewrite keq_refl. eauto.
  Qed.

  Lemma fold_keeps : forall ks st k0 v, lookup keq k0 (fst st) = Some v ->
    lookup keq k0 (fst (fold_left (weak keq) ks st)) = Some v.
  Proof. induction ks; simpl; intros; auto. apply IHks. apply weak_keeps; auto. Qed.

  Lemma fold_inv : forall ks m c, inv m c ->
    inv (fst (fold_left (weak keq) ks (m, c))) (snd (fold_left (weak keq) ks (m, c))).
  Proof.
    induction ks; simpl; intros m c H; auto.
    destruct (weak keq (m, c) a) as [m' c'] eqn:E.
    apply IHks. pose proof (inv_weak m c a H) as W. rewrite E in W. exact W.
  Qed.

  Lemma fold_adds : forall ks st k, In k ks -> exists v, lookup keq k (fst (fold_left (weak keq) ks st)) = Some v.
  Proof.
    induction ks; simpl; intros st k H; [tauto|]. destruct H as [H|H].
    - subst. destruct (weak_adds st k) as [v Hv]. exists v. apply fold_keeps; auto.
    - apply IHks; auto.
  Qed.

  (* what the loaders rely on: every translated key has a number, and the reverse map gives the key back *)
  Theorem number_all_back : forall ks k, In k ks ->
    back (fwd keq (number_all keq ks) k) (number_all keq ks) = Some k.
  Proof.
    intros ks k H. unfold number_all, fwd.
    destruct (fold_adds ks ([], 0) k H) as [v Hv]. rewrite Hv.
    assert (I : inv [] 0) by (split; [intros ? ? X; discriminate | intros ? ? []]).
    apply (fold_inv ks) in I. destruct I as [I1 _]. apply I1; auto.
  Qed.

  (* the dictionary is injective on the translated keys: same names <-> same numbers *)
  Theorem number_all_inj : forall ks k k', In k ks -> In k' ks ->
    fwd keq (number_all keq ks) k = fwd keq (number_all keq ks) k' -> k = k'.
  Proof.
    intros ks k k' H H' E. pose proof (number_all_back ks k H) as B. rewrite E in B.
    rewrite (number_all_back ks k' H') in B. congruence.
  Qed.

  Lemma map_opt_back : forall ks l, incl l ks ->
    map_opt (fun q => back q (number_all keq ks)) (map (fwd keq (number_all keq ks)) l) = Some l.
  Proof.
    induction l as [|x l IH]; simpl; intro H; auto.
    rewrite number_all_back by (apply H; left; auto).
    rewrite IH by (intros y Hy; apply H; right; auto). reflexivity.
  Qed.
End DictProofs.

Lemma skeq_eq : forall a b, skeq a b = true <-> a = b.
Proof.
  intros [a1 a2] [b1 b2]. unfold skeq. simpl. rewrite andb_true_iff, beq_eq, Z.eqb_eq.
  split; [intros [? ?]; congruence | intro H; inversion H; auto].
Qed.

Lemma in_state_keys_final : forall e d q, In q (d_finals d) -> In q (state_keys e d).
Proof. intros. unfold state_keys. apply in_or_app. left; auto. Qed.

Lemma in_state_keys_trans : forall e d t q, In t (d_trans d) -> (In q (t_ch t) \/ q = t_par t) -> In q (state_keys e d).
Proof.
  intros e d t q Ht Hq. unfold state_keys. apply in_or_app. right. apply in_flat_map. exists t. split; auto.
  destruct e; simpl; destruct Hq as [Hq|Hq]; subst; auto; apply in_or_app; simpl; auto.
Qed.

Lemma in_sym_keys : forall e d t, In t (d_trans d) -> In (skey e t) (sym_keys e d).
Proof. intros. unfold sym_keys. apply in_or_app. right. apply in_map; auto. Qed.

Lemma map_opt_ext_in : forall (A B : Type) (f : A -> option B) (g : A -> B) l,
  (forall x, In x l -> f x = Some (g x)) -> map_opt f l = Some (map g l).
Proof.
  induction l as [|x l IH]; simpl; intro H; auto.
  rewrite H by auto. rewrite IH by auto. reflexivity.
Qed.

Lemma map_opt_map_in : forall (A B : Type) (f : B -> option A) (g : A -> B) l,
  (forall x, In x l -> f (g x) = Some x) -> map_opt f (map g l) = Some l.
Proof.
  induction l as [|x l IH]; simpl; intro H; auto.
  rewrite H by auto. rewrite IH by auto. reflexivity.
Qed.

(* dumping a freshly loaded automaton gives back the final states and the rules of the description,
   name by name — for every description and each of the three tree encodings *)
Theorem dump_load : forall e d, dump (load e d) = Some (d_finals d, d_trans d).
Proof.
  intros e d. unfold dump, load. cbn [l_aut l_states l_syms n_finals n_rules].
  rewrite (map_opt_back _ beq beq_eq) by (intros q Hq; apply in_state_keys_final; auto).
  rewrite map_opt_map_in; [reflexivity|].
  intros t Ht. unfold dump_rule. cbn [l_states l_syms n_ch n_sym n_par].
  rewrite (map_opt_back _ beq beq_eq) by (intros q Hq; eapply in_state_keys_trans; eauto).
  rewrite (number_all_back _ skeq skeq_eq) by (apply in_sym_keys; auto).
  rewrite (number_all_back _ beq beq_eq) by (eapply in_state_keys_trans; eauto).
  destruct t; reflexivity.
Qed.

(* the loaded automaton is the image of the description under an injective numbering of the state names *)
Theorem load_injective : forall e d q q', In q (state_keys e d) -> In q' (state_keys e d) ->
  fwd beq (l_states (load e d)) q = fwd beq (l_states (load e d)) q' -> q = q'.
Proof. intros e d q q'. apply (number_all_inj _ beq beq_eq). Qed.

(* the second sentence of the property at the level of the models: dump an automaton loaded from d,
   write the dump as Timbuk text, parse the text, load it and dump again — the same final states and
   rules under the same names *)
Definition dumped_desc (fr : list bytes * list trans) : desc := mkDesc [] [] [] (fst fr) (snd fr).

Theorem dump_text_load_dump : forall e d, wf_desc d = true ->
  exists fr, dump (load e d) = Some fr /\
  exists d2, parse (serialize (dumped_desc fr)) = Some d2 /\
             dump (load e d2) = Some (d_finals d, d_trans d).
Proof.
  intros e d H. exists (d_finals d, d_trans d). split; [apply dump_load|].
  assert (W : wf_desc (dumped_desc (d_finals d, d_trans d)) = true).
  { unfold wf_desc in *. cbn [dumped_desc d_name d_syms d_states d_finals d_trans fst snd].
    apply andb_true_iff in H as [H Ht]. apply andb_true_iff in H as [H Hf].
    rewrite Hf, Ht. reflexivity. }
  exists (normal_name (dumped_desc (d_finals d, d_trans d))). split.
  - apply parse_serialize_exact; auto.
  - rewrite dump_load. reflexivity.
Qed.

(* ------------------------------------------------------------------------------------------ *)
(* the finite-automaton encoding                                                               *)
(* ------------------------------------------------------------------------------------------ *)
Lemma map_opt_exists : forall (A B : Type) (f : A -> option B) (P : A -> B -> Prop) l,
  (forall x, In x l -> exists y, f x = Some y /\ P x y) ->
  exists ys, map_opt f l = Some ys /\ Forall2 P l ys.
Proof.
  induction l as [|x l IH]; simpl; intro H; [exists []; auto|].
  destruct (H x (or_introl eq_refl)) as (y & E & Py). rewrite E.
  destruct IH as (ys & E' & F); [intros; apply H; auto|]. rewrite E'. exists (y :: ys). auto.
Qed.

Lemma Forall2_in_l : forall (A B : Type) (P : A -> B -> Prop) l ys x, Forall2 P l ys -> In x l -> exists y, In y ys /\ P x y.
Proof. induction 1; simpl; intros I; [tauto|]. destruct I as [I|I]; [subst; eauto|]. destruct (IHForall2 I) as (y' & ? & ?); eauto. Qed.

Lemma Forall2_in_r : forall (A B : Type) (P : A -> B -> Prop) l ys y, Forall2 P l ys -> In y ys -> exists x, In x l /\ P x y.
Proof. induction 1; simpl; intros I; [tauto|]. destruct I as [I|I]; [subst; eauto|]. destruct (IHForall2 I) as (x' & ? & ?); eauto. Qed.

Lemma nullary_ch : forall t, nullary t = true -> t_ch t = [].
Proof. intros [ch s p]. unfold nullary. simpl. destruct ch; [auto|discriminate]. Qed.

Section FA.
  Variable d : desc.
  Hypothesis Hfa : is_fa d = true.
  Variable pick : list N -> N.
  Hypothesis pick_in : forall l, l <> [] -> In (pick l) l.

  Let sd := number_all beq (fa_state_keys d).
  Let yd := number_all beq (fa_sym_keys d).
  Let L := mkFaLoaded
      (mkNfa (map (fwd beq sd) (d_finals d))
             (map (fun t => (fwd beq sd (t_par t), fwd beq yd (t_sym t))) (filter nullary (d_trans d)))
             (flat_map (fun t => match t_ch t with
                                 | [c] => [(fwd beq sd c, fwd beq yd (t_sym t), fwd beq sd (t_par t))]
                                 | _ => []
                                 end) (d_trans d)))
      sd yd.

  Lemma load_fa_eq : load_fa d = Some L.
  Proof. unfold load_fa. rewrite Hfa. reflexivity. Qed.

  Lemma key_state : forall t q, In t (d_trans d) -> In q (t_ch t) \/ q = t_par t -> In q (fa_state_keys d).
  Proof.
    intros t q Ht Hq. unfold fa_state_keys. apply in_or_app. right. apply in_flat_map. exists t. split; auto.
    apply in_or_app. destruct Hq; [left; auto | right; subst; simpl; auto].
  Qed.
  Lemma key_sym : forall t, In t (d_trans d) -> In (t_sym t) (fa_sym_keys d).
  Proof. intros. unfold fa_sym_keys. apply in_or_app. right. apply in_map; auto. Qed.

  Lemma bs : forall q, In q (fa_state_keys d) -> back (fwd beq sd q) sd = Some q.
  Proof. intros. apply (number_all_back _ beq beq_eq); auto. Qed.
  Lemma by_ : forall y, In y (fa_sym_keys d) -> back (fwd beq yd y) yd = Some y.
  Proof. intros. apply (number_all_back _ beq beq_eq); auto. Qed.

  Lemma edges_dump : forall l, incl l (d_trans d) -> forallb unary_or_nullary l = true ->
    map_opt (dump_edge L)
      (flat_map (fun t => match t_ch t with
                          | [c] => [(fwd beq sd c, fwd beq yd (t_sym t), fwd beq sd (t_par t))]
                          | _ => []
                          end) l) = Some (filter (fun t => negb (nullary t)) l).
  Proof.
    induction l as [|t l IH]; intros I U; [reflexivity|].
    cbn [forallb] in U. apply andb_true_iff in U as [U1 U2].
    assert (It : In t (d_trans d)) by (apply I; left; auto).
    assert (Il : incl l (d_trans d)) by (intros x Hx; apply I; right; auto).
    cbn [flat_map filter]. destruct t as [ch sy pa]. unfold unary_or_nullary in U1. cbn [t_ch] in *.
    destruct ch as [|c [|c' ch]]; try discriminate.
    - cbn [app nullary is_nil t_ch negb]. apply IH; auto.
    - cbn [app map_opt]. unfold dump_edge at 1. cbn [fst snd fl_states fl_syms L t_sym t_par].
      rewrite (bs c) by (eapply key_state; eauto; left; simpl; auto).
      rewrite (by_ sy) by (apply (key_sym _ It)).
      rewrite (bs pa) by (eapply key_state; eauto).
      rewrite IH by auto. reflexivity.
  Qed.

  Definition start_ok (s : N) (t : trans) : Prop :=
    In t (d_trans d) /\ nullary t = true /\ fwd beq sd (t_par t) = s.

  Lemma starts_dump : exists sts, map_opt (dump_start pick L) (start_states (fl_aut L)) = Some sts /\
    Forall2 start_ok (start_states (fl_aut L)) sts.
  Proof.
    apply map_opt_exists. intros s Hs. unfold start_states in Hs. apply nodup_In in Hs.
    assert (NE : syms_of (fl_aut L) s <> []).
    { apply in_map_iff in Hs as ([s' y] & E & I). simpl in E. subst s'.
      unfold syms_of. intro Z.
      assert (X : In y (map snd (filter (fun p => fst p =? s) (f_starts (fl_aut L))))).
      { apply in_map_iff. exists (s, y). split; auto. apply filter_In. split; auto. simpl. apply N.eqb_refl. }
      rewrite Z in X. destruct X. }
    pose proof (pick_in _ NE) as P.
    remember (pick (syms_of (fl_aut L) s)) as y eqn:Ey.
    unfold syms_of in P. apply in_map_iff in P as ([s' y'] & E & I). simpl in E. subst y'.
    apply filter_In in I as [I Es]. simpl in Es. apply N.eqb_eq in Es. subst s'.
    cbn [fl_aut L f_starts] in I. apply in_map_iff in I as (t & Et & It).
    apply filter_In in It as [It Nt]. inversion Et as [[E1 E2]].
    exists t. split.
    - unfold dump_start. rewrite E1, <- Ey, <- E2, <- E1. cbn [fl_syms fl_states L].
      rewrite (by_ (t_sym t)) by (apply key_sym; auto).
      rewrite (bs (t_par t)) by (eapply key_state; eauto).
      destruct t as [ch sy pa]. apply nullary_ch in Nt. simpl in Nt. subst ch. reflexivity.
    - repeat split; auto.
  Qed.

  (* loading a word-automaton shaped description and dumping it: the final states, the unary rules,
     the start states and one nullary rule per start state come back, whatever symbol the dump picks *)
  Theorem dump_load_fa : exists l fr, load_fa d = Some l /\ dump_fa pick l = Some fr /\
    fa_same d (dumped_desc fr) = true.
  Proof.
    destruct starts_dump as (sts & Es & Fs).
    exists L, (d_finals d, sts ++ filter (fun t => negb (nullary t)) (d_trans d)).
    split; [apply load_fa_eq|]. split.
    - unfold dump_fa. rewrite Es. cbn [fl_aut fl_states L f_finals f_edges].
      unfold sd at 1 2. rewrite (map_opt_back _ beq beq_eq).
      2:{ intros q Hq. unfold fa_state_keys. apply in_or_app; left; auto. }
      fold sd. fold yd. fold L. rewrite edges_dump; [reflexivity | apply incl_refl | exact Hfa].
    - apply fa_same_spec. cbn [dumped_desc d_finals d_trans fst snd]. repeat split.
      + auto. + auto.
      + intro I. apply in_or_app. right. apply filter_In. rewrite H. auto.
      + intro I. apply in_app_or in I as [I|I].
        * destruct (Forall2_in_r _ _ _ _ _ _ Fs I) as (s & _ & _ & Nt & _). congruence.
        * apply filter_In in I. tauto.
      + intros t Nt I. apply in_app_or in I as [I|I].
        * destruct (Forall2_in_r _ _ _ _ _ _ Fs I) as (s & _ & It & _). auto.
        * apply filter_In in I as [_ X]. rewrite Nt in X. discriminate.
      + intros t Nt It.
        assert (Hs : In (fwd beq sd (t_par t)) (start_states (fl_aut L))).
        { unfold start_states. apply nodup_In. cbn [fl_aut L f_starts]. rewrite map_map. simpl.
          apply in_map_iff. exists t. split; auto. apply filter_In; auto. }
        destruct (Forall2_in_l _ _ _ _ _ _ Fs Hs) as (t' & I' & It' & Nt' & E').
        exists t'. split; auto. split; [apply in_or_app; left; auto|].
        apply (number_all_inj _ beq beq_eq (fa_state_keys d)).
        * apply (key_state t'); auto.
        * apply (key_state t); auto.
        * exact E'.
  Qed.
End FA.

(* a description with a rule of arity >= 2 is refused ("Not a finite automaton") *)
Theorem load_fa_guard : forall d, is_fa d = false -> load_fa d = None.
Proof. intros d H. unfold load_fa. rewrite H. reflexivity. Qed.
