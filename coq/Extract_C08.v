Require Extraction.
Require Import ExtrOcamlBasic.
From V Require Import Sem Prod Incl TrimDefs Lang ProductDefs PoolDefs.
Extraction "ex_c08.ml" pool_step pool_gate plookup pset equiv_dec no_useless ta_same is_empty add_final.
