(* C20 — instances of the protocol models run against the implementation: sets as sorted lists, f = subset test. *)
From Coq Require Import List NArith Bool.
Import ListNotations.
From V Require Import ProtoDefs.

Fixpoint lset_eqb (a b : list N) : bool :=
  match a, b with [], [] => true | x :: a', y :: b' => N.eqb x y && lset_eqb a' b' | _, _ => false end.
Definition subset (a b : list N) : bool := forallb (fun x => existsb (N.eqb x) b) a.
Definition memo_run (inval : bool) (ops : list (mop (list N))) : list (option bool) :=
  snd (mrun (list N) lset_eqb subset inval (minit (list N)) ops).
(* validity of the reported allocator choices: an Alloc of a new value never names a live address *)
Fixpoint allocs_valid (s : mstate (list N)) (ops : list (mop (list N))) : bool :=
  match ops with
  | [] => true
  | o :: r =>
      (match o with
       | MAlloc _ v a => match addr_of (list N) lset_eqb s v with
                         | Some a' => N.eqb a a'                  (* hash-consing: the same object *)
                         | None => negb (is_live (list N) s a) end
       | _ => true end) && allocs_valid (fst (mstep (list N) lset_eqb subset true s o)) r
  end.
Definition pool_run (ops : list pop) : list (option N) := snd (prun pinit ops).
Fixpoint pool_no_alias_b (s : pstate) (ops : list pop) (outs : list (option N)) : bool :=
  match ops, outs with
  | [], [] => true
  | o :: r, out :: outs' =>
      (match o, out with
       | PAlloc, Some p => negb (existsb (N.eqb p) (plive s))
       | PAlloc, None => false
       | PReclaim _, _ => true end) &&
      (* follow the implementation's reported choice *)
      (let s' := match o, out with
                 | PAlloc, Some p => {| pfree := filter (fun q => negb (N.eqb q p)) (pfree s); plive := p :: plive s;
                                        pnext := N.max (pnext s) (N.succ p) |}
                 | _, _ => fst (pstep s o) end in pool_no_alias_b s' r outs')
  | _, _ => false
  end.
