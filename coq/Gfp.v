(* Generic greatest fixpoint by bounded refinement of a finite candidate list. *)
From Coq Require Import List Arith Lia Bool.
Import ListNotations.
Section Gfp.
Variable X : Type.
Variable keep : list X -> X -> bool.
Hypothesis keep_mono : forall R R' x, incl R R' -> keep R x = true -> keep R' x = true.

Fixpoint refine (fuel : nat) (R : list X) : list X :=
  match fuel with
  | 0 => R
  | S f => let R' := filter (keep R) R in
           if Nat.eqb (length R') (length R) then R else refine f R'
  end.

Definition post_fixed (R : list X) := forall x, In x R -> keep R x = true.

Lemma filter_length_le (p : X -> bool) l : length (filter p l) <= length l.
Proof. induction l as [|a l IH]; simpl; auto. destruct (p a); simpl; lia. Qed.

Lemma filter_same_len (p : X -> bool) l : length (filter p l) = length l -> forall x, In x l -> p x = true.
Proof.
  induction l as [|a l IH]; simpl; intros E x Hx; [tauto|].
  destruct (p a) eqn:Pa; simpl in E.
  - destruct Hx as [<-|Hx]; auto.
  - pose proof (filter_length_le p l). lia.
Qed.

Lemma refine_sub fuel : forall R, incl (refine fuel R) R.
Proof. induction fuel as [|f IH]; simpl; intros R; [apply incl_refl|].
  destruct (Nat.eqb _ _); [apply incl_refl|]. intros x Hx. apply IH in Hx. apply filter_In in Hx. tauto. Qed.

Lemma refine_fixed fuel : forall R, length R < fuel -> post_fixed (refine fuel R).
Proof.
  induction fuel as [|f IH]; simpl; intros R Hf; [lia|].
  destruct (Nat.eqb_spec (length (filter (keep R) R)) (length R)) as [E|NE].
  - intros x Hx. eapply filter_same_len; eauto.
  - apply IH. pose proof (filter_length_le (keep R) R). lia.
Qed.

Lemma refine_greatest fuel : forall R R', incl R' R -> post_fixed R' -> incl R' (refine fuel R).
Proof.
  induction fuel as [|f IH]; simpl; intros R R' Hsub Hpf; auto.
  destruct (Nat.eqb _ _); auto. apply IH; auto.
  intros x Hx. apply filter_In. split; auto. eapply keep_mono; eauto.
Qed.

Theorem refine_gfp R0 :
  let R := refine (S (length R0)) R0 in
  incl R R0 /\ post_fixed R /\ forall R', incl R' R0 -> post_fixed R' -> incl R' R.
Proof. simpl. split; [apply (refine_sub (S (length R0)))|]. split.
  - apply (refine_fixed (S (length R0))). lia.
  - intros. apply (refine_greatest (S (length R0))); auto. Qed.
End Gfp.
