(* Proofs about the congruence algorithm (HkcDefs.v): whatever the fuel and the search order, an answer is the truth. *)
From Coq Require Import List NArith Bool Arith Lia.
Import ListNotations.
From V Require Import Sem TrimDefs TrimProofs Lang NfaDefs NfaProofs HkcDefs.

Section Hkc.
  Variable A : nfa.

  (* the language of a macro-state *)
  Definition lset (X : sset) (w : list N) : Prop := exists p q, In p X /\ In q (nfinals A) /\ wpath A w p q.

  Lemma lset_nil X : lset X [] <-> finb A X = true.
  Proof.
    unfold lset, finb. rewrite existsb_exists. split.
    - intros [p [q [Hp [Hq E]]]]. simpl in E. subst q. exists p. split; auto. apply memN_In; auto.
    - intros [p [Hp Hq]]. exists p, p. split; auto. split; [apply memN_In; auto | reflexivity].
  Qed.
  Lemma post_in X a m : In m (post A X a) <-> exists p, In p X /\ In (p, a, m) (edges A).
  Proof.
    unfold post. rewrite in_flat_map. split.
    - intros [p [Hp H]]. apply in_map_iff in H as [e [<- He]]. apply filter_In in He as [He E].
      apply andb_true_iff in E as [E1 E2]. apply N.eqb_eq in E1. apply N.eqb_eq in E2. exists p. split; auto.
      rewrite (edge_eta e) in He. rewrite E1, E2 in He. exact He.
    - intros [p [Hp He]]. exists p. split; auto. apply in_map_iff. exists (p, a, m). split; auto.
      apply filter_In. split; auto. unfold esrc, esym; simpl. rewrite !N.eqb_refl. auto.
  Qed.
  Lemma lset_cons X a w : lset X (a :: w) <-> lset (post A X a) w.
  Proof.
    unfold lset. split.
    - intros [p [q [Hp [Hq [m [He H]]]]]]. exists m, q. split; [apply post_in; exists p; auto | auto].
    - intros [m [q [Hm [Hq H]]]]. apply post_in in Hm as [p [Hp He]]. exists p, q. split; auto. split; auto. exists m; auto.
  Qed.
  Lemma lset_incl X Y w : incl X Y -> lset X w -> lset Y w.
  Proof. intros I [p [q [Hp R]]]. exists p, q. split; auto. Qed.
  Lemma lset_app X Y w : lset (X ++ Y) w <-> lset X w \/ lset Y w.
  Proof.
    split.
    - intros [p [q [Hp R]]]. apply in_app_or in Hp as [Hp|Hp]; [left|right]; exists p, q; auto.
    - intros [H|H]; eapply lset_incl; try exact H; [apply incl_appl | apply incl_appr]; apply incl_refl.
  Qed.
  Lemma post_incl X Y a : incl X Y -> incl (post A X a) (post A Y a).
  Proof. intros I m H. apply post_in in H as [p [Hp He]]. apply post_in. exists p; auto. Qed.
  Lemma post_app X Y a : post A (X ++ Y) a = post A X a ++ post A Y a.
  Proof. unfold post. apply flat_map_app. Qed.
  Lemma post_outside X a : ~ In a (alphabet A) -> post A X a = [].
  Proof.
    intros H. destruct (post A X a) as [|m l] eqn:E; auto. exfalso. apply H.
    assert (Hm : In m (post A X a)) by (rewrite E; left; auto). apply post_in in Hm as [p [_ He]].
    unfold alphabet. apply nodup_In. apply in_map_iff. exists (p, a, m). split; auto.
  Qed.
  Lemma finb_incl X Y : incl X Y -> finb A X = true -> finb A Y = true.
  Proof. unfold finb. rewrite !existsb_exists. intros I [p [Hp H]]. exists p; auto. Qed.
  Lemma finb_app X Y : finb A (X ++ Y) = finb A X || finb A Y.
  Proof. unfold finb. apply existsb_app. Qed.

  (* congruence closure of a set of pairs: least equivalence containing them and set equality, closed under union *)
  Inductive cc (R : sset -> sset -> Prop) : sset -> sset -> Prop :=
  | cc_base X Y : R X Y -> cc R X Y
  | cc_eq X Y : incl X Y -> incl Y X -> cc R X Y
  | cc_sym X Y : cc R X Y -> cc R Y X
  | cc_trans X Y Z : cc R X Y -> cc R Y Z -> cc R X Z
  | cc_union X1 Y1 X2 Y2 : cc R X1 Y1 -> cc R X2 Y2 -> cc R (X1 ++ X2) (Y1 ++ Y2).
  Definition InR (R : prel) (X Y : sset) : Prop := In (X, Y) R.

  Lemma cc_refl R X : cc R X X. Proof. apply cc_eq; apply incl_refl. Qed.
  Lemma cc_subst (R S : sset -> sset -> Prop) : (forall X Y, R X Y -> cc S X Y) -> forall X Y, cc R X Y -> cc S X Y.
  Proof.
    intros H X Y D. induction D.
    - auto.
    - apply cc_eq; auto.
    - apply cc_sym; auto.
    - eapply cc_trans; eauto.
    - apply cc_union; auto.
  Qed.
  Lemma cc_mono (R S : prel) : incl R S -> forall X Y, cc (InR R) X Y -> cc (InR S) X Y.
  Proof. intros I. apply cc_subst. intros X Y H. apply cc_base. apply I; auto. Qed.

  Lemma seteq_spec X Y : seteq X Y = true <-> incl X Y /\ incl Y X.
  Proof. unfold seteq. rewrite andb_true_iff, !subN_spec. tauto. Qed.

  (* rewriting stays inside the congruence closure of the rules *)
  Lemma rw_rule_cc R acc r : In r R -> cc (InR R) acc (rw_rule acc r).
  Proof.
    intros Hr. unfold rw_rule. destruct r as [U V]; simpl.
    assert (H1 : cc (InR R) acc (if subN U acc then acc ++ V else acc)).
    { destruct (subN U acc) eqn:E; [|apply cc_refl]. apply subN_spec in E.
      apply cc_trans with (acc ++ U).
      - apply cc_eq; [apply incl_appl, incl_refl | apply incl_app; auto; apply incl_refl].
      - apply cc_union; [apply cc_refl | apply cc_base; exact Hr]. }
    set (acc1 := if subN U acc then acc ++ V else acc) in *.
    destruct (subN V acc1) eqn:E; auto. apply subN_spec in E.
    eapply cc_trans; [exact H1|]. apply cc_trans with (acc1 ++ V).
    - apply cc_eq; [apply incl_appl, incl_refl | apply incl_app; auto; apply incl_refl].
    - apply cc_union; [apply cc_refl | apply cc_sym, cc_base; exact Hr].
  Qed.
  Lemma rw_pass_cc R : forall R' X, incl R' R -> cc (InR R) X (fold_left rw_rule R' X).
  Proof.
    induction R' as [|r R' IH]; intros X I; simpl; [apply cc_refl|].
    eapply cc_trans; [apply (rw_rule_cc R X r); apply I; left; auto|]. apply IH. intros x Hx. apply I; right; auto.
  Qed.
  Lemma rw_norm_cc R n : forall X, cc (InR R) X (rw_norm n R X).
  Proof.
    induction n as [|n IH]; intros X; simpl; [apply cc_refl|].
    eapply cc_trans; [apply (rw_pass_cc R R X (incl_refl _))|]. apply IH.
  Qed.
  Lemma in_congr_sound R X Y : in_congr R X Y = true -> cc (InR R) X Y.
  Proof.
    unfold in_congr. intros H. apply seteq_spec in H as [H1 H2].
    eapply cc_trans; [apply rw_norm_cc|]. eapply cc_trans; [apply cc_eq; eauto|]. apply cc_sym, rw_norm_cc.
  Qed.

  (* a relation that progresses into the congruence closure of itself and of what is still to do *)
  Definition progress (R T : prel) : Prop :=
    forall X Y, In (X, Y) R -> finb A X = finb A Y /\ forall a, In a (alphabet A) -> cc (InR (R ++ T)) (post A X a) (post A Y a).

  Lemma cc_finb R : (forall X Y, In (X, Y) R -> finb A X = finb A Y) -> forall X Y, cc (InR R) X Y -> finb A X = finb A Y.
  Proof.
    intros H X Y D. induction D.
    - apply H; auto.
    - apply eq_true_iff_eq. split; apply finb_incl; auto.
    - auto.
    - congruence.
    - rewrite !finb_app. congruence.
  Qed.
  Lemma cc_post R : progress R [] -> forall a X Y, cc (InR R) X Y -> cc (InR R) (post A X a) (post A Y a).
  Proof.
    intros P a X Y D. induction D.
    - destruct (in_dec N.eq_dec a (alphabet A)) as [Ha|Ha].
      + destruct (P X Y H) as [_ Hp]. specialize (Hp a Ha). rewrite app_nil_r in Hp. exact Hp.
      + rewrite !post_outside; auto. apply cc_refl.
    - apply cc_eq; apply post_incl; auto.
    - apply cc_sym; auto.
    - eapply cc_trans; eauto.
    - rewrite !post_app. apply cc_union; auto.
  Qed.
  (* bisimulation up to congruence is contained in language equivalence *)
  Theorem bisim_upto R : progress R [] -> forall w X Y, cc (InR R) X Y -> (lset X w <-> lset Y w).
  Proof.
    intros P. induction w as [|a w IH]; intros X Y D.
    - rewrite !lset_nil. rewrite (cc_finb R (fun X0 Y0 H => proj1 (P X0 Y0 H)) X Y D). tauto.
    - rewrite !lset_cons. apply IH. apply cc_post; auto.
  Qed.

  Variables X0 Y0 : sset.
  Definition Inv (R T : prel) : Prop := progress R T /\ cc (InR (R ++ T)) X0 Y0.
  (* every scheduled pair is the pair of residuals of the initial pair by some word *)
  Definition Resid (T : prel) : Prop :=
    forall X Y, In (X, Y) T -> exists w, (forall u, lset X u <-> lset X0 (w ++ u)) /\ (forall u, lset Y u <-> lset Y0 (w ++ u)).

  Lemma hkc_correct bfs : forall fuel R T b, hkc A bfs fuel R T = Some b -> Inv R T -> Resid T ->
    (b = true <-> forall w, lset X0 w <-> lset Y0 w).
  Proof.
    induction fuel as [|f IH]; intros R T b H HI HR; [discriminate|]. simpl in H.
    destruct T as [|[X Y] t].
    - inversion H; subst. split; auto. intros _ w. destruct HI as [P C]. rewrite app_nil_r in C. apply (bisim_upto R P w X0 Y0 C).
    - destruct (in_congr (R ++ t) X Y) eqn:EC.
      + (* implied by the closure: dropped *)
        apply in_congr_sound in EC.
        assert (Hsub : forall U V, cc (InR (R ++ (X, Y) :: t)) U V -> cc (InR (R ++ t)) U V).
        { apply cc_subst. intros U V Hin. unfold InR in Hin. apply in_app_or in Hin as [Hin|[E|Hin]].
          - apply cc_base. apply in_or_app; auto.
          - inversion E; subst. exact EC.
          - apply cc_base. apply in_or_app; auto. }
        apply (IH R t b H).
        * destruct HI as [P C]. split; [|apply Hsub; auto].
          intros U V Hin. destruct (P U V Hin) as [Hf Hp]. split; auto.
        * intros U V Hin. apply HR. right; auto.
      + destruct (Bool.eqb (finb A X) (finb A Y)) eqn:EF; simpl in H.
        * (* expanded *)
          apply eqb_prop in EF.
          set (succs := map (fun a => (post A X a, post A Y a)) (alphabet A)) in *.
          set (T' := if bfs then t ++ succs else succs ++ t) in *.
          assert (HT' : forall p, In p T' <-> In p t \/ In p succs).
          { intros p. unfold T'. destruct bfs; rewrite in_app_iff; tauto. }
          assert (Hsub : forall U V, cc (InR (R ++ (X, Y) :: t)) U V -> cc (InR (((X, Y) :: R) ++ T')) U V).
          { apply cc_mono. intros p Hp. apply in_app_or in Hp as [Hp|[<-|Hp]].
            - simpl. right. apply in_or_app; auto.
            - simpl. left; auto.
            - simpl. right. apply in_or_app. right. apply HT'. auto. }
          apply (IH ((X, Y) :: R) T' b H).
          -- destruct HI as [P C]. split; [|apply Hsub; auto].
             intros U V [E|Hin].
             ++ inversion E; subst. split; auto. intros a Ha. apply cc_base. unfold InR. simpl. right. apply in_or_app. right.
                apply HT'. right. unfold succs. apply in_map_iff. exists a; auto.
             ++ destruct (P U V Hin) as [Hf Hp]. split; auto.
          -- intros U V Hin. apply HT' in Hin as [Hin|Hin]; [apply HR; right; auto|].
             unfold succs in Hin. apply in_map_iff in Hin as [a [E Ha]]. inversion E; subst.
             destruct (HR X Y (or_introl eq_refl)) as [w [HX HY]]. exists (w ++ [a]). split; intros u.
             ++ rewrite <- lset_cons. rewrite HX. rewrite <- app_assoc. simpl. tauto.
             ++ rewrite <- lset_cons. rewrite HY. rewrite <- app_assoc. simpl. tauto.
        * (* the macro-states disagree on finality: the word leading to them separates the initial pair *)
          inversion H; subst. split; [discriminate|]. intros Hall. exfalso.
          destruct (HR X Y (or_introl eq_refl)) as [w [HX HY]].
          assert (E : finb A X = finb A Y).
          { apply eq_true_iff_eq. rewrite <- !lset_nil. rewrite HX, HY. apply Hall. }
          rewrite E in EF. rewrite eqb_reflx in EF. discriminate.
  Qed.
End Hkc.

Theorem hkc_equiv_partial_correct A bfs fuel X Y b : hkc_equiv A bfs fuel X Y = Some b -> (b = true <-> forall w, lset A X w <-> lset A Y w).
Proof.
  unfold hkc_equiv. intros H. apply (hkc_correct A X Y bfs fuel [] [(X, Y)] b H).
  - split; [intros U V [] | apply cc_base; left; auto].
  - intros U V [E|[]]. inversion E; subst. exists []. split; intros u; simpl; tauto.
Qed.

Lemma waccepts_lset A w : waccepts A w <-> lset A (nstarts A) w.
Proof. unfold waccepts, lset. tauto. Qed.

(* inclusion of two automata with disjoint state sets through the union automaton *)
Theorem hkc_incl_partial_correct A B bfs fuel b : disjoint (nstates A) (nstates B) ->
  hkc_incl A B bfs fuel = Some b -> (b = true <-> wlincl A B).
Proof.
  intros D H. unfold hkc_incl in H. apply hkc_equiv_partial_correct in H. rewrite H. clear H.
  assert (HA : forall w, lset (napp A B) (nstarts A) w <-> waccepts A w).
  { intros w. split.
    - intros [p [q [Hp [Hq R]]]]. apply nstates_start in Hp as Hp'. apply napp_path_l in R; auto.
      exists p, q. split; auto. split; auto. simpl in Hq. apply in_app_or in Hq as [Hq|Hq]; auto.
      exfalso. apply (D q); [eapply wpath_end; eauto | apply nstates_final; auto].
    - intros [p [q [Hp [Hq R]]]]. exists p, q. split; auto. split; [simpl; apply in_or_app; auto|].
      eapply wpath_mono; [|exact R]. simpl. apply incl_appl, incl_refl. }
  assert (HB : forall w, lset (napp A B) (nstarts B) w <-> waccepts B w).
  { intros w. split.
    - intros [p [q [Hp [Hq R]]]]. apply nstates_start in Hp as Hp'. apply napp_path_r in R; auto.
      exists p, q. split; auto. split; auto. simpl in Hq. apply in_app_or in Hq as [Hq|Hq]; auto.
      exfalso. apply (D q); [apply nstates_final; auto | eapply wpath_end; eauto].
    - intros [p [q [Hp [Hq R]]]]. exists p, q. split; auto. split; [simpl; apply in_or_app; auto|].
      eapply wpath_mono; [|exact R]. simpl. apply incl_appr, incl_refl. }
  unfold wlincl. split.
  - intros E w Hw. apply HB. apply E. apply lset_app. left. apply HA; auto.
  - intros I w. rewrite lset_app, HA, HB. split; [intros [Hw|Hw]; auto | auto].
Qed.

Corollary hkc_incl_refines A B bfs fuel b : disjoint (nstates A) (nstates B) -> hkc_incl A B bfs fuel = Some b -> b = wincl_dec A B.
Proof.
  intros D H. apply (hkc_incl_partial_correct A B bfs fuel b D) in H. apply eq_true_iff_eq. rewrite H. symmetry. apply wincl_dec_spec.
Qed.

(* non-vacuity: both orders decide a cyclic included pair and a non-included pair *)
Example hkc_examples :
  let A := {| nstarts := [0%N]; nfinals := [1%N]; edges := [(0, 0, 1); (1, 0, 1); (1, 2, 0)]%N |} in
  let B := {| nstarts := [10%N]; nfinals := [10%N]; edges := [(10, 0, 10); (10, 1, 10)]%N |} in
  let C := {| nstarts := [20%N]; nfinals := [20%N; 21%N]; edges := [(20, 0, 21); (21, 0, 21); (21, 2, 20)]%N |} in
  hkc_incl A B false 50 = Some false /\ hkc_incl A B true 50 = Some false /\ hkc_incl A C false 50 = Some true /\ hkc_incl A C true 50 = Some true.
Proof. vm_compute. repeat split; reflexivity. Qed.

Theorem hkc_model_refines bfs fuel A B b : hkc_model bfs fuel A B = Some b -> b = wincl_dec A B.
Proof.
  unfold hkc_model. intros H.
  destruct (d01_valid A B) as [I0 [I1 D]].
  assert (Dis : disjoint (nstates (nimage d0 A)) (nstates (nimage d1 B))).
  { intros x Hx Hy. apply nimage_states in Hx as [y [Hy0 ->]]. apply nimage_states in Hy as [z [Hz E]].
    apply (D (d0 y)); [apply in_map; auto | rewrite E; apply in_map; auto]. }
  apply (hkc_incl_partial_correct _ _ bfs fuel b Dis) in H.
  apply eq_true_iff_eq. rewrite H. rewrite wincl_dec_spec. unfold wlincl. split.
  - intros E w Hw. apply (nimage_lang d1 B I1). apply E. apply (nimage_lang d0 A I0). exact Hw.
  - intros E w Hw. apply (nimage_lang d1 B I1). apply E. apply (nimage_lang d0 A I0). exact Hw.
Qed.
