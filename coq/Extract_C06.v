Require Extraction.
Require Import ExtrOcamlBasic.
From V Require Import Sem Prod Incl TrimDefs Lang ComplDefs.
Extraction "ex_c06.ml" compl_gate ranked univ ta_same is_empty incl_dec no_useless.
