(* C11 (A) increment — a memo kept inside a shared (copy-on-write) table. Five of the seeded changes had this shape: a fact
   computed from the rules of an automaton ("every state is reachable", "the simulation relation", "the top-down view") is cached in
   the storage that copies share; it stays right exactly as long as EVERY path that changes the rules drops it. Model: handles point
   to tables (rows + memo); Copy shares the table; Add detaches (the private copy inherits the memo, which is right: same rows),
   appends and drops the memo; Query answers from the memo or computes and stores it. Theorem: for every sequence of these
   operations every answer is the function of the handle's VALUE (the plain list semantics). With one more operation that appends
   without dropping the memo (the raw insert used when a result is assembled from an operand's table) the theorem is refuted. *)
From Coq Require Import List NArith Bool Arith Lia.
Import ListNotations.

Section Memo.
Variable F : list N -> bool.                                   (* the cached fact, any function of the rows *)

Definition table := (list N * option bool)%type.
Record st := { tabs : list table; hnd : list nat }.            (* handle h -> index of its table *)
Inductive op := Copy (h : nat) | Add (h : nat) (x : N) | AddRaw (h : nat) (x : N) | Query (h : nat).

Definition tab_of (s : st) (h : nat) : table := nth (nth h (hnd s) 0) (tabs s) ([], None).
Fixpoint set_nth {X} (l : list X) (i : nat) (x : X) : list X :=
  match l, i with [] , _ => [] | _ :: t, 0 => x :: t | y :: t, S j => y :: set_nth t j x end.

(* detach: the handle gets a private copy of its table (memo included) at a fresh index *)
Definition detach (s : st) (h : nat) : st :=
  {| tabs := tabs s ++ [tab_of s h]; hnd := set_nth (hnd s) h (length (tabs s)) |}.
Definition write (s : st) (h : nat) (x : N) (keep_memo : bool) : st :=
  let s1 := detach s h in
  let i := nth h (hnd s1) 0 in
  let t := nth i (tabs s1) ([], None) in
  {| tabs := set_nth (tabs s1) i (fst t ++ [x], if keep_memo then snd t else None); hnd := hnd s1 |}.

Definition step (s : st) (o : op) : st * option bool :=
  match o with
  | Copy h => if Nat.ltb h (length (hnd s)) then ({| tabs := tabs s; hnd := hnd s ++ [nth h (hnd s) 0] |}, None) else (s, None)
  | Add h x => if Nat.ltb h (length (hnd s)) then (write s h x false, None) else (s, None)
  | AddRaw h x => if Nat.ltb h (length (hnd s)) then (write s h x true, None) else (s, None)
  | Query h =>
      if Nat.ltb h (length (hnd s)) then
        let i := nth h (hnd s) 0 in
        match snd (nth i (tabs s) ([], None)) with
        | Some b => (s, Some b)
        | None => let b := F (fst (nth i (tabs s) ([], None))) in
                  ({| tabs := set_nth (tabs s) i (fst (nth i (tabs s) ([], None)), Some b); hnd := hnd s |}, Some b)
        end
      else (s, None)
  end.

(* value semantics: every handle is a list *)
Definition vstep (v : list (list N)) (o : op) : list (list N) * option bool :=
  match o with
  | Copy h => if Nat.ltb h (length v) then (v ++ [nth h v []], None) else (v, None)
  | Add h x | AddRaw h x => if Nat.ltb h (length v) then (set_nth v h (nth h v [] ++ [x]), None) else (v, None)
  | Query h => if Nat.ltb h (length v) then (v, Some (F (nth h v []))) else (v, None)
  end.

Fixpoint run (s : st) (ops : list op) : st * list (option bool) :=
  match ops with [] => (s, []) | o :: r => let (s1, a) := step s o in let (s2, l) := run s1 r in (s2, a :: l) end.
Fixpoint vrun (v : list (list N)) (ops : list op) : list (list N) * list (option bool) :=
  match ops with [] => (v, []) | o :: r => let (v1, a) := vstep v o in let (v2, l) := vrun v1 r in (v2, a :: l) end.

Definition no_raw (ops : list op) : Prop := forall h x, ~ In (AddRaw h x) ops.

(* the representation invariant *)
Definition Rep (s : st) (v : list (list N)) : Prop :=
  length (hnd s) = length v /\
  (forall h, h < length v -> nth h (hnd s) 0 < length (tabs s) /\ fst (tab_of s h) = nth h v []) /\
  (forall i b, i < length (tabs s) -> snd (nth i (tabs s) ([], None)) = Some b -> b = F (fst (nth i (tabs s) ([], None)))).

Lemma set_nth_length {X} (l : list X) i x : length (set_nth l i x) = length l.
Proof. revert i. induction l as [|y l IH]; intros [|i]; simpl; auto. Qed.
Lemma nth_set_nth_eq {X} (l : list X) i x d : i < length l -> nth i (set_nth l i x) d = x.
Proof. revert i. induction l as [|y l IH]; intros [|i] H; simpl in *; try lia; auto. apply IH. lia. Qed.
Lemma nth_set_nth_neq {X} (l : list X) i j x d : i <> j -> nth j (set_nth l i x) d = nth j l d.
Proof. revert i j. induction l as [|y l IH]; intros [|i] [|j] H; simpl; auto; try congruence. Qed.
Lemma set_nth_app_last {X} (l : list X) t t' : set_nth (l ++ [t]) (length l) t' = l ++ [t'].
Proof. induction l as [|y l IH]; simpl; auto. rewrite IH. reflexivity. Qed.
Lemma nth_app_last {X} (l : list X) t d : nth (length l) (l ++ [t]) d = t.
Proof. rewrite app_nth2; [|lia]. rewrite Nat.sub_diag. reflexivity. Qed.

(* what a write does, in closed form *)
Lemma write_tabs s h x k : h < length (hnd s) ->
  tabs (write s h x k) = tabs s ++ [(fst (tab_of s h) ++ [x], if k then snd (tab_of s h) else None)] /\
  hnd (write s h x k) = set_nth (hnd s) h (length (tabs s)).
Proof.
  intros Hh. unfold write, detach. cbn [tabs hnd]. rewrite (nth_set_nth_eq (hnd s) h (length (tabs s)) 0 Hh).
  rewrite nth_app_last, set_nth_app_last. split; reflexivity.
Qed.

Lemma step_rep s v o : Rep s v -> (forall h x, o <> AddRaw h x) ->
  Rep (fst (step s o)) (fst (vstep v o)) /\ snd (step s o) = snd (vstep v o).
Proof.
  intros [HL [HH HM]] Hno. destruct o as [h|h x|h x|h]; [| |destruct (Hno h x eq_refl)|]; simpl.
  - (* Copy *)
    rewrite HL. destruct (Nat.ltb_spec h (length v)) as [Hh|Hh]; simpl; [|repeat split; auto; apply HH; auto].
    split; auto. split; [|split].
    + simpl. rewrite !app_length, HL. reflexivity.
    + intros h' Hh'. rewrite app_length in Hh'. simpl in Hh'. unfold tab_of. simpl.
      destruct (Nat.eq_dec h' (length v)) as [->|Hne].
      * replace (nth (length v) (hnd s ++ [nth h (hnd s) 0]) 0) with (nth h (hnd s) 0) by (rewrite <- HL; symmetry; apply nth_app_last).
        rewrite (nth_app_last v). apply (HH h Hh).
      * rewrite !app_nth1 by lia. apply HH. lia.
    + simpl. exact HM.
  - (* Add *)
    rewrite HL. destruct (Nat.ltb_spec h (length v)) as [Hh|Hh]; simpl; [|repeat split; auto; apply HH; auto].
    assert (Hh' : h < length (hnd s)) by lia.
    destruct (write_tabs s h x false Hh') as [ET EH].
    split; auto. split; [|split].
    + rewrite EH, !set_nth_length. exact HL.
    + intros h' Hlt. rewrite set_nth_length in Hlt. unfold tab_of. rewrite ET, EH, app_length. simpl.
      destruct (Nat.eq_dec h h') as [<-|Hne].
      * rewrite (nth_set_nth_eq (hnd s) h _ 0 Hh'). split; [lia|]. rewrite nth_app_last. simpl.
        rewrite (nth_set_nth_eq v h _ [] Hh). destruct (HH h Hh) as [_ E]. rewrite E. reflexivity.
      * rewrite (nth_set_nth_neq (hnd s) h h' _ 0 Hne), (nth_set_nth_neq v h h' _ [] Hne).
        destruct (HH h' Hlt) as [B E]. split; [lia|]. rewrite app_nth1 by lia. exact E.
    + intros i b Hi Hs. rewrite ET in Hi, Hs |- *. rewrite app_length in Hi. simpl in Hi.
      destruct (Nat.eq_dec i (length (tabs s))) as [->|Hne].
      * rewrite nth_app_last in Hs. simpl in Hs. discriminate.
      * rewrite app_nth1 in Hs |- * by lia. apply HM; auto. lia.
  - (* Query *)
    rewrite HL. destruct (Nat.ltb_spec h (length v)) as [Hh|Hh]; simpl; [|repeat split; auto; apply HH; auto].
    destruct (HH h Hh) as [B E]. unfold tab_of in E.
    destruct (snd (nth (nth h (hnd s) 0) (tabs s) ([], None))) as [b|] eqn:Em; simpl.
    + split; [repeat split; auto; apply HH; auto|]. rewrite (HM _ b B Em), E. reflexivity.
    + split; [|rewrite E; reflexivity]. split; [exact HL|]. split.
      * intros h' Hlt. unfold tab_of. simpl. rewrite set_nth_length. destruct (HH h' Hlt) as [B' E']. split; auto.
        destruct (Nat.eq_dec (nth h (hnd s) 0) (nth h' (hnd s) 0)) as [Eq|Hne].
        -- rewrite <- Eq. rewrite nth_set_nth_eq by auto. simpl. unfold tab_of in E'. rewrite <- Eq in E'. exact E'.
        -- rewrite nth_set_nth_neq by auto. exact E'.
      * intros i b Hi Hs. simpl in Hi, Hs |- *. rewrite set_nth_length in Hi.
        destruct (Nat.eq_dec (nth h (hnd s) 0) i) as [<-|Hne].
        -- rewrite nth_set_nth_eq in Hs |- * by auto. simpl in *. inversion Hs. reflexivity.
        -- rewrite nth_set_nth_neq in Hs |- * by auto. apply HM; auto.
Qed.

Theorem memo_sound : forall ops s v, Rep s v -> no_raw ops -> snd (run s ops) = snd (vrun v ops).
Proof.
  induction ops as [|o ops IH]; intros s v HR Hno; simpl; auto.
  assert (Ho : forall h x, o <> AddRaw h x) by (intros h x E; apply (Hno h x); left; auto).
  destruct (step_rep s v o HR Ho) as [HR' Ea].
  destruct (step s o) as [s1 a] eqn:Es. destruct (vstep v o) as [v1 a'] eqn:Ev. simpl in HR', Ea.
  assert (Hno' : no_raw ops) by (intros h x Hin; apply (Hno h x); right; auto).
  specialize (IH s1 v1 HR' Hno'). destruct (run s1 ops) as [s2 l]. destruct (vrun v1 ops) as [v2 l']. simpl in *. congruence.
Qed.

(* one automaton without rules to start with *)
Definition init_st : st := {| tabs := [([], None)]; hnd := [0] |}.
Lemma init_rep : Rep init_st [[]].
Proof.
  split; [reflexivity|]. split.
  - intros h Hh. simpl in Hh. assert (h = 0) by lia. subst. unfold tab_of. simpl. auto.
  - intros i b Hi Hs. simpl in Hi. assert (i = 0) by lia. subst. simpl in Hs. discriminate.
Qed.
Theorem memo_sound_init ops : no_raw ops -> snd (run init_st ops) = snd (vrun [[]] ops).
Proof. apply memo_sound, init_rep. Qed.
End Memo.

(* with the raw insert the answers depend on the history: refuted for F = "has no rows" *)
Definition is_nil (l : list N) : bool := match l with [] => true | _ => false end.
Theorem memo_raw_refuted :
  let ops := [Query 0; AddRaw 0 7%N; Query 0] in
  snd (run is_nil (init_st) ops) = [Some true; None; Some true] /\ snd (vrun is_nil [[]] ops) = [Some true; None; Some false].
Proof. vm_compute. split; reflexivity. Qed.
(* the same history with the invalidating Add is answered correctly *)
Example memo_add_example :
  snd (run is_nil (init_st) [Query 0; Copy 0; Add 0 7%N; Query 0; Query 1]) = [Some true; None; None; Some false; Some true].
Proof. vm_compute. reflexivity. Qed.
