(* Proofs about the nested rule store (StoreDefs.v): well-formedness is invariant (no duplicate key,
   no empty cluster, no empty tuple set), every view is exactly what the specification side says,
   and the gates decide the property clauses. *)
From Coq Require Import List NArith Bool Lia Permutation PeanoNat.
Import ListNotations.
From V Require Import Sem StoreDefs.

(* ---------- equality tests ---------- *)
Lemma list_eqb_eq l : forall m, list_eqb l m = true <-> l = m.
Proof.
  induction l as [|x l IH]; destruct m as [|y m]; simpl; try (split; [discriminate|discriminate]); try tauto.
  rewrite andb_true_iff, N.eqb_eq, IH. split; [intros [-> ->]; auto | intros E; inversion E; auto].
Qed.
Lemma list_eqb_refl l : list_eqb l l = true. Proof. apply list_eqb_eq; auto. Qed.

Lemma rule_eqb_eq r s : rule_eqb r s = true <-> r = s.
Proof.
  unfold rule_eqb. rewrite !andb_true_iff, !N.eqb_eq, list_eqb_eq. destruct r, s; simpl.
  split; [intros [[-> ->] ->]; auto | intros E; inversion E; auto].
Qed.
Lemma rule_eqb_refl r : rule_eqb r r = true. Proof. apply rule_eqb_eq; auto. Qed.
Lemma rule_eqb_sym r s : rule_eqb r s = rule_eqb s r.
Proof. destruct (rule_eqb r s) eqn:E, (rule_eqb s r) eqn:F; auto.
  - apply rule_eqb_eq in E. subst. rewrite rule_eqb_refl in F; discriminate.
  - apply rule_eqb_eq in F. subst. rewrite rule_eqb_refl in E; discriminate. Qed.

Lemma memT_In t ts : memT t ts = true <-> In t ts.
Proof. unfold memT. rewrite existsb_exists. split.
  - intros [y [Hy E]]. apply list_eqb_eq in E. subst; auto.
  - intros H. exists t. split; auto. apply list_eqb_refl. Qed.
Lemma memR_In r rs : memR r rs = true <-> In r rs.
Proof. unfold memR. rewrite existsb_exists. split.
  - intros [y [Hy E]]. apply rule_eqb_eq in E. subst; auto.
  - intros H. exists r. split; auto. apply rule_eqb_refl. Qed.
Lemma memR_false r rs : memR r rs = false <-> ~ In r rs.
Proof. rewrite <- memR_In. destruct (memR r rs); split; congruence. Qed.
Lemma memN_false x l : memN x l = false <-> ~ In x l.
Proof. rewrite <- memN_In. destruct (memN x l); split; congruence. Qed.

Lemma rule_eq_dec (r s : rule) : {r = s} + {r <> s}.
Proof. destruct (rule_eqb r s) eqn:E; [left; apply rule_eqb_eq; auto | right; intros ->; rewrite rule_eqb_refl in E; discriminate]. Qed.

(* ---------- association lists ---------- *)
Definition keys {V} (l : list (N * V)) : list N := map fst l.
Definition vals {V} (l : list (N * V)) : list V := map snd l.
Definition getd {V} (k : N) (d : V) (l : list (N * V)) : V := match get k l with Some v => v | None => d end.

Lemma get_upd {V} k d (f : V -> V) l k' :
  get k' (upd k d f l) = if N.eqb k' k then Some (f (getd k d l)) else get k' l.
Proof.
  unfold getd. induction l as [|[k0 v] l IH]; simpl.
  - destruct (N.eqb k' k); auto.
  - destruct (N.eqb k k0) eqn:E; simpl.
    + apply N.eqb_eq in E. subst k0. destruct (N.eqb k' k); auto.
    + rewrite IH. destruct (N.eqb k' k) eqn:E2; auto. apply N.eqb_eq in E2. subst k'. rewrite E. auto.
Qed.

Lemma get_None {V} k (l : list (N * V)) : get k l = None <-> ~ In k (keys l).
Proof.
  induction l as [|[k0 v] l IH]; simpl; [tauto|]. destruct (N.eqb k k0) eqn:E.
  - apply N.eqb_eq in E. subst. split; [discriminate | intros H; exfalso; apply H; auto].
  - apply N.eqb_neq in E. rewrite IH. split; [intros H [X|X]; auto | intros H X; apply H; auto].
Qed.

Lemma get_In {V} k v (l : list (N * V)) : get k l = Some v -> In (k, v) l.
Proof. induction l as [|[k0 v0] l IH]; simpl; [discriminate|]. destruct (N.eqb k k0) eqn:E.
  - apply N.eqb_eq in E. intros X; inversion X; subst; auto.
  - intros X; right; auto. Qed.

Lemma In_get {V} k v (l : list (N * V)) : NoDup (keys l) -> In (k, v) l -> get k l = Some v.
Proof.
  induction l as [|[k0 v0] l IH]; simpl; intros ND H; [destruct H|]. inversion ND as [|? ? Hn ND']; subst.
  destruct H as [H|H].
  - inversion H; subst. rewrite N.eqb_refl; auto.
  - destruct (N.eqb k k0) eqn:E; auto. apply N.eqb_eq in E. subst. exfalso. apply Hn. apply (in_map fst) in H. exact H.
Qed.

Lemma keys_upd {V} k d (f : V -> V) l : keys (upd k d f l) = if memN k (keys l) then keys l else keys l ++ [k].
Proof.
  induction l as [|[k0 v] l IH]; simpl; auto. destruct (N.eqb k k0) eqn:E; simpl; auto.
  rewrite IH. destruct (memN k (keys l)); auto.
Qed.

Lemma NoDup_snoc {X} (l : list X) x : NoDup l -> ~ In x l -> NoDup (l ++ [x]).
Proof. intros ND H. induction ND as [|y l Hy ND IH]; simpl; [constructor; auto; constructor|].
  constructor. - rewrite in_app_iff. simpl. intros [A|[A|[]]]; auto. subst. apply H; left; auto.
  - apply IH. intros A. apply H; right; auto. Qed.

Lemma keys_upd_NoDup {V} k d (f : V -> V) l : NoDup (keys l) -> NoDup (keys (upd k d f l)).
Proof. intros ND. rewrite keys_upd. destruct (memN k (keys l)) eqn:E; auto.
  apply NoDup_snoc; auto. apply memN_false; auto. Qed.

Lemma vals_upd {V} (P : V -> Prop) k d (f : V -> V) l :
  Forall P (vals l) -> (get k l = None -> P (f d)) -> (forall v, get k l = Some v -> P v -> P (f v)) -> Forall P (vals (upd k d f l)).
Proof.
  induction l as [|[k0 v] l IH]; simpl; intros HF Hd Hf.
  - constructor; auto.
  - inversion HF as [|? ? Hv HF']; subst. destruct (N.eqb k k0) eqn:E; simpl; constructor; auto.
Qed.

Lemma upd_nonempty {V} k d (f : V -> V) l : upd k d f l <> [].
Proof. destruct l as [|[k0 v] l]; simpl; [discriminate|]. destruct (N.eqb k k0); discriminate. Qed.

(* ---------- well-formedness ---------- *)
Definition wf_ts (ts : tset) : Prop := NoDup ts /\ ts <> [].
Definition wf_cl (cl : cluster) : Prop := NoDup (keys cl) /\ cl <> [] /\ Forall wf_ts (vals cl).
Definition wf_st (s : store) : Prop := NoDup (keys s) /\ Forall wf_cl (vals s).
Definition wf (a : aut) : Prop := wf_st (st a) /\ NoDup (fin a).

Lemma In_ins t t' ts : In t' (ins t ts) <-> t' = t \/ In t' ts.
Proof. unfold ins. destruct (memT t ts) eqn:E.
  - apply memT_In in E. split; auto. intros [->|H]; auto.
  - rewrite in_app_iff. simpl. split; [intros [H|[H|[]]]; auto | intros [H|H]; auto]. Qed.

Lemma ins_wf t ts : NoDup ts -> wf_ts (ins t ts).
Proof. intros ND. unfold ins. destruct (memT t ts) eqn:E.
  - split; auto. apply memT_In in E. intros ->. destruct E.
  - split. + apply NoDup_snoc; auto. rewrite <- memT_In. rewrite E. discriminate.
    + destruct ts; discriminate. Qed.

Lemma upd_ins_wf a t cl : NoDup (keys cl) -> Forall wf_ts (vals cl) -> wf_cl (upd a [] (ins t) cl).
Proof.
  intros ND HF. split; [apply keys_upd_NoDup; auto|]. split; [apply upd_nonempty|].
  apply vals_upd; auto.
  - intros _. apply ins_wf. constructor.
  - intros v _ [Hv _]. apply ins_wf; auto.
Qed.

Lemma add_rule_wf r s : wf_st s -> wf_st (add_rule r s).
Proof.
  intros [ND HF]. split; [apply keys_upd_NoDup; auto|]. apply vals_upd; auto.
  - intros _. apply upd_ins_wf; constructor.
  - intros v _ [Hk [_ Hv]]. apply upd_ins_wf; auto.
Qed.

Definition ccontains (cl : cluster) (a : N) (t : tuple) : bool :=
  match get a cl with Some ts => memT t ts | None => false end.

Lemma contains_add r s r' : contains (add_rule r s) r' = rule_eqb r r' || contains s r'.
Proof.
  unfold contains, add_rule. rewrite get_upd. unfold rule_eqb.
  destruct (N.eqb (par r') (par r)) eqn:Ep.
  - apply N.eqb_eq in Ep. rewrite Ep. rewrite get_upd. rewrite N.eqb_refl.
    destruct (N.eqb (sym r') (sym r)) eqn:Es.
    + apply N.eqb_eq in Es. rewrite Es. rewrite N.eqb_refl. simpl.
      unfold getd. destruct (get (par r) s) as [cl|]; simpl.
      * destruct (get (sym r) cl) as [ts|]; simpl.
        -- destruct (memT (ch r') (ins (ch r) ts)) eqn:E.
           ++ apply memT_In, In_ins in E. destruct E as [E|E].
              ** rewrite E, list_eqb_refl; auto.
              ** apply memT_In in E. rewrite E. rewrite orb_true_r; auto.
           ++ destruct (list_eqb (ch r) (ch r')) eqn:E2.
              ** apply list_eqb_eq in E2. exfalso. rewrite <- E2 in E.
                 assert (X : memT (ch r) (ins (ch r) ts) = true) by (apply memT_In, In_ins; auto). congruence.
              ** simpl. destruct (memT (ch r') ts) eqn:E3; auto.
                 exfalso. assert (X : memT (ch r') (ins (ch r) ts) = true) by (apply memT_In, In_ins; right; apply memT_In; auto). congruence.
        -- unfold ins; simpl. rewrite orb_false_r. destruct (list_eqb (ch r) (ch r')) eqn:E.
           ++ apply list_eqb_eq in E. rewrite E, list_eqb_refl; auto.
           ++ destruct (list_eqb (ch r') (ch r)) eqn:E2; auto. apply list_eqb_eq in E2. rewrite E2, list_eqb_refl in E; discriminate.
      * unfold ins; simpl. rewrite orb_false_r. destruct (list_eqb (ch r) (ch r')) eqn:E.
        ++ apply list_eqb_eq in E. rewrite E, list_eqb_refl; auto.
        ++ destruct (list_eqb (ch r') (ch r)) eqn:E2; auto. apply list_eqb_eq in E2. rewrite E2, list_eqb_refl in E; discriminate.
    + assert (Es' : N.eqb (sym r) (sym r') = false) by (rewrite N.eqb_sym; auto). rewrite Es'. simpl.
      unfold getd. destruct (get (par r) s); auto.
  - assert (Ep' : N.eqb (par r) (par r') = false) by (rewrite N.eqb_sym; auto). rewrite Ep'. rewrite andb_false_r. simpl. auto.
Qed.

(* ---------- iteration = lookup on well-formed stores ---------- *)
Lemma In_citer q cl r : In r (citer q cl) <-> par r = q /\ exists ts, In (sym r, ts) cl /\ In (ch r) ts.
Proof.
  unfold citer. rewrite in_flat_map. split.
  - intros [[a ts] [He Hr]]. simpl in Hr. apply in_map_iff in Hr as [t [<- Ht]]. simpl. split; auto. exists ts; auto.
  - intros [Hq [ts [He Ht]]]. exists (sym r, ts). split; auto. simpl. apply in_map_iff. exists (ch r). split; auto.
    destruct r; simpl in *; subst; auto.
Qed.

Lemma In_iter s r : In r (iter s) <-> exists cl ts, In (par r, cl) s /\ In (sym r, ts) cl /\ In (ch r) ts.
Proof.
  unfold iter. rewrite in_flat_map. split.
  - intros [[q cl] [He Hr]]. simpl in Hr. apply In_citer in Hr as [Hq [ts [H1 H2]]]. subst. exists cl, ts; auto.
  - intros [cl [ts [H1 [H2 H3]]]]. exists (par r, cl). split; auto. simpl. apply In_citer. split; auto. exists ts; auto.
Qed.

Lemma Forall_vals {V} (P : V -> Prop) l k v : Forall P (vals l) -> In (k, v) l -> P v.
Proof. intros HF H. rewrite Forall_forall in HF. apply HF. apply (in_map snd) in H. exact H. Qed.

Theorem iter_contains s r : wf_st s -> (In r (iter s) <-> contains s r = true).
Proof.
  intros [ND HF]. rewrite In_iter. unfold contains. split.
  - intros [cl [ts [H1 [H2 H3]]]]. rewrite (In_get _ _ _ ND H1).
    destruct (Forall_vals _ _ _ _ HF H1) as [NDc _]. rewrite (In_get _ _ _ NDc H2). apply memT_In; auto.
  - destruct (get (par r) s) as [cl|] eqn:E1; [|discriminate]. destruct (get (sym r) cl) as [ts|] eqn:E2; [|discriminate].
    intros H. exists cl, ts. split; [apply get_In; auto|]. split; [apply get_In; auto | apply memT_In; auto].
Qed.

Lemma NoDup_flat_map {X Y} (f : X -> list Y) l :
  NoDup l -> (forall x, In x l -> NoDup (f x)) ->
  (forall x y z, In x l -> In y l -> In z (f x) -> In z (f y) -> x = y) -> NoDup (flat_map f l).
Proof.
  induction l as [|x l IH]; simpl; intros ND H1 H2; [constructor|]. inversion ND as [|? ? Hx ND']; subst.
  assert (G : forall l1 l2 : list Y, NoDup l1 -> NoDup l2 -> (forall z, In z l1 -> In z l2 -> False) -> NoDup (l1 ++ l2)).
  { induction l1 as [|a l1 IH1]; simpl; intros l2 N1 N2 D; auto. inversion N1; subst. constructor.
    - rewrite in_app_iff. intros [A|A]; auto. apply (D a); auto.
    - apply IH1; auto. intros z A B. apply (D z); auto. }
  apply G; auto.
  - apply IH; auto. intros a b z Ha Hb. apply H2; auto.
  - intros z Hz Hz'. apply in_flat_map in Hz' as [y [Hy Hzy]]. assert (x = y) by (apply (H2 x y z); auto). subst. auto.
Qed.

Lemma NoDup_keys_NoDup {V} (l : list (N * V)) : NoDup (keys l) -> NoDup l.
Proof. induction l as [|[k v] l IH]; simpl; intros ND; [constructor|]. inversion ND; subst. constructor; auto.
  intros H. apply (in_map fst) in H. auto. Qed.

Lemma NoDup_map_inj {X Y} (f : X -> Y) l : (forall x y, f x = f y -> x = y) -> NoDup l -> NoDup (map f l).
Proof. intros Hf ND. induction ND as [|x l Hx ND IH]; simpl; constructor; auto.
  intros H. apply in_map_iff in H as [y [E Hy]]. apply Hf in E. subst; auto. Qed.

Lemma citer_nodup q cl : wf_cl cl -> NoDup (citer q cl).
Proof.
  intros [ND [_ HF]]. unfold citer. apply NoDup_flat_map.
  - apply NoDup_keys_NoDup; auto.
  - intros [a ts] He. simpl. apply NoDup_map_inj. + intros x y E. inversion E; auto.
    + destruct (Forall_vals _ _ _ _ HF He); auto.
  - intros [a ts] [a' ts'] z H1 H2 Hz Hz'. simpl in *. apply in_map_iff in Hz as [t [<- Ht]]. apply in_map_iff in Hz' as [t' [E Ht']].
    inversion E; subst. f_equal. apply (In_get _ _ _ ND) in H1. apply (In_get _ _ _ ND) in H2. congruence.
Qed.

Theorem iter_nodup_wf s : wf_st s -> NoDup (iter s).
Proof.
  intros [ND HF]. unfold iter. apply NoDup_flat_map.
  - apply NoDup_keys_NoDup; auto.
  - intros [q cl] He. simpl. apply citer_nodup. eapply Forall_vals; eauto.
  - intros [q cl] [q' cl'] z H1 H2 Hz Hz'. simpl in *. apply In_citer in Hz as [Hq _]. apply In_citer in Hz' as [Hq' _].
    subst q'. subst q. f_equal. apply (In_get _ _ _ ND) in H1. apply (In_get _ _ _ ND) in H2. congruence.
Qed.

(* ---------- invariants along a run ---------- *)
Lemma In_addN q x l : In x (addN q l) <-> x = q \/ In x l.
Proof. unfold addN. destruct (memN q l) eqn:E.
  - apply memN_In in E. split; auto. intros [->|H]; auto.
  - rewrite in_app_iff; simpl. split; [intros [H|[H|[]]]; auto | intros [H|H]; auto]. Qed.
Lemma addN_NoDup q l : NoDup l -> NoDup (addN q l).
Proof. intros ND. unfold addN. destruct (memN q l) eqn:E; auto. apply NoDup_snoc; auto. apply memN_false; auto. Qed.
Lemma fold_addN_NoDup qs : forall l, NoDup l -> NoDup (fold_left (fun l q => addN q l) qs l).
Proof. induction qs; simpl; intros; auto. apply IHqs. apply addN_NoDup; auto. Qed.
Lemma In_fold_addN qs : forall l x, In x (fold_left (fun l q => addN q l) qs l) <-> In x qs \/ In x l.
Proof. induction qs as [|q qs IH]; simpl; intros l x; [tauto|]. rewrite IH, In_addN. split; [intros [H|[H|H]]; auto | intros [[H|H]|H]; auto]. Qed.

Lemma step_wf a o : wf a -> wf (step a o).
Proof.
  intros [Hs Hf]. destruct o; simpl; split; simpl; auto.
  - apply add_rule_wf; auto.
  - apply addN_NoDup; auto.
  - apply fold_addN_NoDup; auto.
  - constructor.
  - split; constructor.
  - constructor.
Qed.

Lemma init_wf : wf init. Proof. split; [split|]; constructor. Qed.

Lemma fold_wf ops : forall a, wf a -> wf (fold_left step ops a).
Proof. induction ops; simpl; intros; auto. apply IHops. apply step_wf; auto. Qed.

Theorem run_wf ops : wf (run ops).
Proof. apply fold_wf, init_wf. Qed.

Lemma fold_contains ops : forall a L r, (contains (st a) r = true <-> In r L) ->
  (contains (st (fold_left step ops a)) r = true <-> In r (fold_left live_step ops L)).
Proof.
  induction ops as [|o ops IH]; simpl; intros a L r H; auto. apply IH. destruct o; simpl; auto.
  - rewrite contains_add, orb_true_iff, rule_eqb_eq, H. split; intros [X|X]; auto.
  - split; [discriminate | intros []].
Qed.

Lemma fold_finals ops : forall a L x, (In x (fin a) <-> In x L) ->
  (In x (fin (fold_left step ops a)) <-> In x (fold_left livef_step ops L)).
Proof.
  induction ops as [|o ops IH]; simpl; intros a L x H; auto. apply IH. destruct o; simpl; auto; try tauto.
  - rewrite In_addN, H. split; intros [X|X]; auto.
  - rewrite In_fold_addN, in_app_iff, H. tauto.
Qed.

Theorem contains_run ops r : contains (st (run ops)) r = true <-> In r (live ops).
Proof. apply fold_contains. simpl. split; [discriminate | intros []]. Qed.

Theorem finals_run ops x : In x (fin (run ops)) <-> In x (livef ops).
Proof. apply fold_finals. simpl. tauto. Qed.

(* ---------- the specification side in the words of the property ---------- *)
Lemma live_snoc ops o : live (ops ++ [o]) = live_step (live ops) o.
Proof. unfold live. rewrite fold_left_app. auto. Qed.
Lemma livef_snoc ops o : livef (ops ++ [o]) = livef_step (livef ops) o.
Proof. unfold livef. rewrite fold_left_app. auto. Qed.

(* r is live iff it was added and no Clear came afterwards *)
Theorem live_spec ops r : In r (live ops) <-> exists l1 l2, ops = l1 ++ Add r :: l2 /\ ~ In Clear l2.
Proof.
  induction ops as [|o ops IH] using rev_ind.
  - simpl. split; [intros [] | intros [l1 [l2 [E _]]]; destruct l1; discriminate].
  - rewrite live_snoc. split.
    + intros H. destruct o; simpl in H.
      * destruct H as [<-|H].
        -- exists ops, []. split; auto.
        -- apply IH in H as [l1 [l2 [-> Hn]]]. exists l1, (l2 ++ [Add r0]). split; [rewrite <- app_assoc; auto|].
           rewrite in_app_iff. intros [X|[X|[]]]; auto; discriminate.
      * apply IH in H as [l1 [l2 [-> Hn]]]. exists l1, (l2 ++ [SetFinal q]). split; [rewrite <- app_assoc; auto|].
        rewrite in_app_iff. intros [X|[X|[]]]; auto; discriminate.
      * apply IH in H as [l1 [l2 [-> Hn]]]. exists l1, (l2 ++ [SetFinals qs]). split; [rewrite <- app_assoc; auto|].
        rewrite in_app_iff. intros [X|[X|[]]]; auto; discriminate.
      * apply IH in H as [l1 [l2 [-> Hn]]]. exists l1, (l2 ++ [EraseFinals]). split; [rewrite <- app_assoc; auto|].
        rewrite in_app_iff. intros [X|[X|[]]]; auto; discriminate.
      * destruct H.
    + intros [l1 [l2 [E Hn]]]. destruct l2 as [|o2 l2] using rev_ind.
      * apply app_inj_tail in E as [-> ->]. simpl; auto.
      * clear IHl2. rewrite app_comm_cons, app_assoc in E. apply app_inj_tail in E as [-> ->].
        assert (Hin : In r (live (l1 ++ Add r :: l2))).
        { apply IH. exists l1, l2. split; auto. intros X. apply Hn. apply in_or_app; auto. }
        destruct o2; simpl; auto. exfalso. apply Hn. apply in_or_app; right; simpl; auto.
Qed.

(* q is final iff it was set final (singly or in a set) and neither EraseFinalStates nor Clear came afterwards *)
Theorem livef_spec ops q : In q (livef ops) <->
  exists l1 o l2, ops = l1 ++ o :: l2 /\ (o = SetFinal q \/ exists qs, o = SetFinals qs /\ In q qs) /\ ~ In Clear l2 /\ ~ In EraseFinals l2.
Proof.
  induction ops as [|o ops IH] using rev_ind.
  - simpl. split; [intros [] | intros [l1 [o [l2 [E _]]]]; destruct l1; discriminate].
  - rewrite livef_snoc. split.
    + intros H.
      assert (K : In q (livef ops) -> o <> Clear -> o <> EraseFinals ->
                  exists l1 o0 l2, ops ++ [o] = l1 ++ o0 :: l2 /\ (o0 = SetFinal q \/ exists qs, o0 = SetFinals qs /\ In q qs) /\ ~ In Clear l2 /\ ~ In EraseFinals l2).
      { intros Hq N1 N2. apply IH in Hq as [l1 [o0 [l2 [-> [Ho [Hc He]]]]]]. exists l1, o0, (l2 ++ [o]).
        split; [rewrite <- app_assoc; auto|]. split; auto. split; rewrite in_app_iff; intros [X|[X|[]]]; auto. }
      destruct o; simpl in H.
      * apply K; auto; discriminate.
      * destruct H as [<-|H]; [exists ops, (SetFinal q0), []; repeat split; auto | apply K; auto; discriminate].
      * apply in_app_or in H as [H|H]; [exists ops, (SetFinals qs), []; repeat split; auto; right; exists qs; auto | apply K; auto; discriminate].
      * destruct H.
      * destruct H.
    + intros [l1 [o0 [l2 [E [Ho [Hc He]]]]]]. destruct l2 as [|o2 l2] using rev_ind.
      * apply app_inj_tail in E as [-> ->]. destruct Ho as [->|[qs [-> Hq]]]; simpl; auto. apply in_or_app; auto.
      * clear IHl2. rewrite app_comm_cons, app_assoc in E. apply app_inj_tail in E as [-> ->].
        assert (Hin : In q (livef (l1 ++ o0 :: l2))).
        { apply IH. exists l1, o0, l2. split; auto. split; auto. split; intros X; [apply Hc | apply He]; apply in_or_app; auto. }
        destruct o2; simpl; auto.
        -- apply in_or_app; auto.
        -- exfalso. apply He. apply in_or_app; right; simpl; auto.
        -- exfalso. apply Hc. apply in_or_app; right; simpl; auto.
Qed.

(* ---------- the views of a run ---------- *)
Theorem iter_nodup ops : NoDup (iter (st (run ops))).
Proof. apply iter_nodup_wf. apply run_wf. Qed.

Theorem iter_complete ops r : In r (iter (st (run ops))) <-> In r (live ops).
Proof. rewrite iter_contains by apply run_wf. apply contains_run. Qed.

Lemma down_wf s q r : wf_st s -> (In r (down s q) <-> In r (iter s) /\ par r = q).
Proof.
  intros W. rewrite (iter_contains s r W). destruct W as [ND HF]. unfold down, contains. split.
  - destruct (get q s) as [cl|] eqn:E; [|intros []]. intros H. apply In_citer in H as [Hq [ts [H1 H2]]]. subst q. split; auto.
    rewrite E. assert (NDc : NoDup (keys cl)) by (apply get_In in E; destruct (Forall_vals _ _ _ _ HF E); auto).
    rewrite (In_get _ _ _ NDc H1). apply memT_In; auto.
  - intros [H <-]. destruct (get (par r) s) as [cl|]; [|discriminate]. destruct (get (sym r) cl) as [ts|] eqn:E2; [|discriminate].
    apply In_citer. split; auto. exists ts. split; [apply get_In; auto | apply memT_In; auto].
Qed.

Lemma down_nodup_wf s q : wf_st s -> NoDup (down s q).
Proof. intros [ND HF]. unfold down. destruct (get q s) as [cl|] eqn:E; [|constructor].
  apply citer_nodup. apply get_In in E. eapply Forall_vals; eauto. Qed.

Theorem down_spec ops q r : In r (down (st (run ops)) q) <-> In r (live ops) /\ par r = q.
Proof. rewrite down_wf by apply run_wf. rewrite iter_complete. tauto. Qed.
Theorem down_nodup ops q : NoDup (down (st (run ops)) q).
Proof. apply down_nodup_wf, run_wf. Qed.

Theorem accept_trans_spec ops r : In r (accept_trans (run ops)) <-> In r (live ops) /\ In (par r) (livef ops).
Proof.
  unfold accept_trans. rewrite in_flat_map. split.
  - intros [q [Hq Hr]]. apply down_spec in Hr as [H <-]. split; auto. apply finals_run; auto.
  - intros [H1 H2]. exists (par r). split; [apply finals_run; auto | apply down_spec; auto].
Qed.
Theorem accept_trans_nodup ops : NoDup (accept_trans (run ops)).
Proof.
  unfold accept_trans. apply NoDup_flat_map.
  - apply run_wf.
  - intros q _. apply down_nodup.
  - intros q q' z _ _ H1 H2. apply down_spec in H1 as [_ <-]. apply down_spec in H2 as [_ <-]. auto.
Qed.

Lemma In_nodupN x l : In x (nodupN l) <-> In x l.
Proof. induction l as [|y l IH]; simpl; [tauto|]. destruct (memN y l) eqn:E.
  - rewrite IH. apply memN_In in E. split; auto. intros [<-|H]; auto.
  - simpl. rewrite IH. tauto. Qed.
Lemma nodupN_NoDup l : NoDup (nodupN l).
Proof. induction l as [|y l IH]; simpl; [constructor|]. destruct (memN y l) eqn:E; auto.
  constructor; auto. rewrite In_nodupN. apply memN_false; auto. Qed.

Theorem used_states_spec ops x : In x (used_states (run ops)) <->
  (exists r, In r (live ops) /\ (x = par r \/ In x (ch r))) \/ In x (livef ops).
Proof.
  unfold used_states. rewrite In_nodupN, in_app_iff, in_flat_map, finals_run. split.
  - intros [[r [Hr Hx]]|H]; auto. left. exists r. split; [apply iter_complete; auto|].
    apply in_app_or in Hx as [Hx|[Hx|[]]]; auto.
  - intros [[r [Hr Hx]]|H]; auto. left. exists r. split; [apply iter_complete; auto|].
    apply in_or_app. destruct Hx as [->|Hx]; simpl; auto.
Qed.
Theorem used_states_nodup ops : NoDup (used_states (run ops)).
Proof. apply nodupN_NoDup. Qed.

Theorem trans_empty_spec ops : trans_empty (st (run ops)) = true <-> forall r, ~ In r (live ops).
Proof.
  split.
  - intros H r Hr. apply iter_complete in Hr. destruct (st (run ops)); [destruct Hr | discriminate].
  - intros H. destruct (st (run ops)) as [|[q cl] s] eqn:E; auto. exfalso.
    destruct (run_wf ops) as [[_ HF] _]. rewrite E in HF. inversion HF as [|? ? [_ [Hne HFc]] _]; subst. simpl in *.
    destruct cl as [|[a ts] cl]; [congruence|]. inversion HFc as [|? ? [_ Hts] _]; subst. simpl in *.
    destruct ts as [|t ts]; [congruence|].
    apply (H (mkrule q a t)). apply iter_complete. rewrite E. simpl. auto.
Qed.

(* the invariant the iterators' begin() dereferences rely on *)
Theorem no_empty_cluster ops : forall q cl, In (q, cl) (st (run ops)) ->
  cl <> [] /\ forall a ts, In (a, ts) cl -> ts <> [].
Proof.
  intros q cl H. destruct (run_wf ops) as [[_ HF] _]. destruct (Forall_vals _ _ _ _ HF H) as [_ [Hne HFc]].
  split; auto. intros a ts Ha. destruct (Forall_vals _ _ _ _ HFc Ha); auto.
Qed.

(* ---------- gates ---------- *)
Lemma nodupRb_spec l : nodupRb l = true <-> NoDup l.
Proof. induction l as [|x l IH]; simpl; [split; auto; constructor|].
  rewrite andb_true_iff, negb_true_iff, memR_false, IH. split; [intros [A B]; constructor; auto | intros H; inversion H; auto]. Qed.
Lemma nodupNb_spec l : nodupNb l = true <-> NoDup l.
Proof. induction l as [|x l IH]; simpl; [split; auto; constructor|].
  rewrite andb_true_iff, negb_true_iff, memN_false, IH. split; [intros [A B]; constructor; auto | intros H; inversion H; auto]. Qed.
Lemma set_eqR_spec l m : set_eqR l m = true <-> forall r, In r l <-> In r m.
Proof. unfold set_eqR. rewrite andb_true_iff, !forallb_forall. split.
  - intros [A B] r. split; intros H; apply memR_In; auto.
  - intros H. split; intros r Hr; apply memR_In; apply H; auto. Qed.
Lemma set_eqN_spec l m : set_eqN l m = true <-> forall r, In r l <-> In r m.
Proof. unfold set_eqN. rewrite andb_true_iff, !forallb_forall. split.
  - intros [A B] r. split; intros H; apply memN_In; auto.
  - intros H. split; intros r Hr; apply memN_In; apply H; auto. Qed.

Theorem gate_iter_spec ops l : gate_iter ops l = true <-> NoDup l /\ forall r, In r l <-> In r (live ops).
Proof. unfold gate_iter. rewrite andb_true_iff, nodupRb_spec, set_eqR_spec. tauto. Qed.

Theorem gate_contains_spec ops r b : gate_contains ops r b = true <-> (b = true <-> In r (live ops)).
Proof. unfold gate_contains. rewrite eqb_true_iff, <- memR_In. destruct b, (memR r (live ops)); intuition congruence. Qed.

Theorem gate_accept_spec ops l : gate_accept ops l = true <->
  NoDup l /\ forall r, In r l <-> In r (live ops) /\ In (par r) (livef ops).
Proof. unfold gate_accept. rewrite andb_true_iff, nodupRb_spec, set_eqR_spec.
  split; intros [A B]; split; auto; intros r; rewrite B, filter_In, memN_In; tauto. Qed.

Theorem gate_down_spec ops q l : gate_down ops q l = true <->
  NoDup l /\ forall r, In r l <-> In r (live ops) /\ par r = q.
Proof. unfold gate_down. rewrite andb_true_iff, nodupRb_spec, set_eqR_spec.
  split; intros [A B]; split; auto; intros r; rewrite B, filter_In, N.eqb_eq; tauto. Qed.

Theorem gate_finals_spec ops l : gate_finals ops l = true <-> NoDup l /\ forall q, In q l <-> In q (livef ops).
Proof. unfold gate_finals. rewrite andb_true_iff, nodupNb_spec, set_eqN_spec. tauto. Qed.

Theorem gate_isfinal_spec ops q b : gate_isfinal ops q b = true <-> (b = true <-> In q (livef ops)).
Proof. unfold gate_isfinal. rewrite eqb_true_iff, <- memN_In. destruct b, (memN q (livef ops)); intuition congruence. Qed.

Theorem gate_used_spec ops l : gate_used ops l = true <->
  NoDup l /\ forall x, In x l <-> (exists r, In r (live ops) /\ (x = par r \/ In x (ch r))) \/ In x (livef ops).
Proof.
  unfold gate_used. rewrite andb_true_iff, nodupNb_spec, set_eqN_spec.
  assert (E : forall x, In x (flat_map (fun r => par r :: ch r) (live ops) ++ livef ops) <->
                        (exists r, In r (live ops) /\ (x = par r \/ In x (ch r))) \/ In x (livef ops)).
  { intros x. rewrite in_app_iff, in_flat_map. simpl. split; (intros [[r [Hr Hx]]|H]; [left; exists r; split; auto|right; auto]).
    - destruct Hx as [<-|Hx]; auto. - destruct Hx as [->|Hx]; auto. }
  split; intros [A B]; split; auto; intros x; rewrite B; [apply E | symmetry; apply E].
Qed.

Theorem gate_empty_spec ops b : gate_empty ops b = true <-> (b = true <-> forall r, ~ In r (live ops)).
Proof.
  unfold gate_empty. rewrite eqb_true_iff. destruct (live ops) as [|r0 l] eqn:E.
  - split; [intros ->; split; auto; intros _ r [] | intros [_ H]; apply H; intros r []].
  - split; [intros ->; split; [discriminate | intros H; exfalso; apply (H r0); left; auto]|].
    intros [H _]. destruct b; auto. exfalso. apply (H eq_refl r0). left; auto.
Qed.

(* the model passes every gate (so an implementation that agrees with the model passes) *)
Theorem model_passes ops :
  gate_iter ops (iter (st (run ops))) = true /\
  (forall r, gate_contains ops r (contains (st (run ops)) r) = true) /\
  gate_accept ops (accept_trans (run ops)) = true /\
  (forall q, gate_down ops q (down (st (run ops)) q) = true) /\
  gate_finals ops (fin (run ops)) = true /\
  gate_used ops (used_states (run ops)) = true /\
  gate_empty ops (trans_empty (st (run ops))) = true.
Proof.
  split; [apply gate_iter_spec; split; [apply iter_nodup | apply iter_complete]|].
  split; [intros r; apply gate_contains_spec; apply contains_run|].
  split; [apply gate_accept_spec; split; [apply accept_trans_nodup | apply accept_trans_spec]|].
  split; [intros q; apply gate_down_spec; split; [apply down_nodup | apply down_spec]|].
  split; [apply gate_finals_spec; split; [apply run_wf | apply finals_run]|].
  split; [apply gate_used_spec; split; [apply used_states_nodup | apply used_states_spec]|].
  apply gate_empty_spec. apply trans_empty_spec.
Qed.

(* passing the iteration gate = being a permutation of the model's iteration (sorted-multiset equality) *)
Theorem gate_iter_perm ops l : gate_iter ops l = true <-> Permutation l (iter (st (run ops))).
Proof.
  rewrite gate_iter_spec. split.
  - intros [ND H]. apply NoDup_Permutation; auto; [apply iter_nodup|]. intros r. rewrite H, iter_complete. tauto.
  - intros P. split.
    + apply (Permutation_NoDup (l := iter (st (run ops)))); [apply Permutation_sym; auto | apply iter_nodup].
    + intros r. rewrite <- iter_complete. split; apply Permutation_in; auto. apply Permutation_sym; auto.
Qed.

Lemma countR_occ r l : countR r l = count_occ rule_eq_dec l r.
Proof. induction l as [|x l IH]; simpl; auto. destruct (rule_eq_dec x r) as [->|Hn].
  - rewrite rule_eqb_refl, IH. auto.
  - destruct (rule_eqb r x) eqn:E; [apply rule_eqb_eq in E; congruence | auto]. Qed.

Theorem same_multiset_spec l m : same_multiset l m = true <-> Permutation l m.
Proof.
  unfold same_multiset. rewrite forallb_forall. rewrite (Permutation_count_occ rule_eq_dec). split.
  - intros H r. rewrite <- !countR_occ. destruct (in_dec rule_eq_dec r (l ++ m)) as [Hin|Hn].
    + apply Nat.eqb_eq. auto.
    + rewrite !countR_occ. assert (A : ~ In r l) by (intros X; apply Hn, in_or_app; auto).
      assert (B : ~ In r m) by (intros X; apply Hn, in_or_app; auto).
      apply (count_occ_not_In rule_eq_dec) in A. apply (count_occ_not_In rule_eq_dec) in B. congruence.
  - intros H r _. apply Nat.eqb_eq. rewrite !countR_occ. auto.
Qed.
