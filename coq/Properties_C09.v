(* C09 — NFA inclusion is exact for the antichain algorithm and the congruence algorithm
   (depth-first / breadth-first), and the three agree.  Nothing but statements closed by [exact];
   proofs in NfaProofs.v. *)
From Coq Require Import List NArith Bool.
From V Require Import Sem Prod Incl TrimDefs Lang NfaDefs NfaProofs.

Theorem C09_exact : forall v A B, wincl_model v A B = true <-> wlincl A B.
Proof. exact wincl_model_exact. Qed.
Print Assumptions C09_exact.
Theorem C09_agree : forall v v' A B, wincl_model v A B = wincl_model v' A B.
Proof. exact wincl_model_agree. Qed.
Print Assumptions C09_agree.
Theorem C09_model_is_decider : forall v A B, wincl_model v A B = wincl_dec A B.
Proof. exact wincl_model_is_dec. Qed.
(* the gate evaluated on every verdict libvata reports decides "the verdict is the truth" *)
Theorem C09_gate_verdict : forall A B v, gate_verdict A B v = true <-> (v = true <-> wlincl A B).
Proof. exact gate_verdict_spec. Qed.
Print Assumptions C09_gate_verdict.
(* operand preparation of the congruence selections after the repair of D6: on operands with
   disjoint state sets inclusion is equivalence of the union with the bigger automaton *)
Theorem C09_congr_operands_ok : forall A B, disjoint (nstates A) (nstates B) ->
  (wlincl A B <-> forall w, waccepts (nunion_disjoint A B) w <-> waccepts B w).
Proof. exact congr_operands_ok. Qed.
Print Assumptions C09_congr_operands_ok.
(* the sanitizing step (RemoveUselessStates) does not change the answer *)
Theorem C09_sanitize_lang : forall A w, waccepts (nuseless A) w <-> waccepts A w.
Proof. exact nuseless_lang. Qed.
