(* C09 — NFA inclusion is exact for the antichain algorithm and the congruence algorithm
   (depth-first / breadth-first), and the three agree.  Nothing but statements closed by [exact];
   proofs in NfaProofs.v (verdict function, gate) and NfaAcProofs.v (the antichain algorithm with
   its worklist and memo tables). *)
From Coq Require Import List NArith Bool.
From V Require Import Sem Prod Incl TrimDefs Lang NfaDefs NfaProofs NfaAcDefs NfaAcProofs SharedTable HkcDefs HkcProofs.

(* the verdict function of the three selections *)
Theorem C09_exact : forall v A B, wincl_model v A B = true <-> wlincl A B.
Proof. exact wincl_model_exact. Qed.
(* copies of one NFA share their transitions; inclusion between them depends on the start states too *)
Theorem C09_shared_table_starts_matter : edges nN = edges nM /\ fsub (nfinals nN) (nfinals nM) /\ ~ wlincl nN nM.
Proof. exact wshared_starts_matter. Qed.

(* (A) the congruence algorithm itself (bisimulation up to congruence on the union automaton: pairs of macro-states, skipped when implied by
   the congruence closure of the processed and scheduled pairs, tested by rewriting to a normal form; successors scheduled depth-first or
   breadth-first): whatever the fuel and the order, an answer is the truth; on arbitrary operands (made disjoint first) it refines the decider *)
Theorem C09_congr_partial_correct : forall A B bfs fuel b, disjoint (nstates A) (nstates B) ->
  hkc_incl A B bfs fuel = Some b -> (b = true <-> wlincl A B).
Proof. exact hkc_incl_partial_correct. Qed.
Theorem C09_congr_equiv_partial_correct : forall A bfs fuel X Y b, hkc_equiv A bfs fuel X Y = Some b -> (b = true <-> forall w, lset A X w <-> lset A Y w).
Proof. exact hkc_equiv_partial_correct. Qed.
Theorem C09_congr_refines : forall bfs fuel A B b, hkc_model bfs fuel A B = Some b -> b = wincl_dec A B.
Proof. exact hkc_model_refines. Qed.
(* the rewriting test is sound for membership in the congruence closure *)
Theorem C09_congr_closure_sound : forall R X Y, in_congr R X Y = true -> cc (InR R) X Y.
Proof. exact in_congr_sound. Qed.

(* ... while inclusion of BOTH the start and the final states is a sound shortcut for automata sharing their transitions *)
Theorem C09_shared_table_sufficient : forall A B, edges A = edges B -> fsub (nstarts A) (nstarts B) -> fsub (nfinals A) (nfinals B) -> wlincl A B.
Proof. exact wshared_incl_sufficient. Qed.

Print Assumptions C09_exact.
Theorem C09_agree : forall v v' A B, wincl_model v A B = wincl_model v' A B.
Proof. exact wincl_model_agree. Qed.
Print Assumptions C09_agree.
Theorem C09_model_is_decider : forall v A B, wincl_model v A B = wincl_dec A B.
Proof. exact wincl_model_is_dec. Qed.
(* the gate evaluated on every verdict libvata reports decides "the verdict is the truth" *)
Theorem C09_gate_verdict : forall A B v, gate_verdict A B v = true <-> (v = true <-> wlincl A B).
Proof. exact gate_verdict_spec. Qed.
Print Assumptions C09_gate_verdict.

(* (A1) the antichain algorithm as coded, with identity preorder, ordered worklist, antichain
   refinement and the memo tables subsetMap_/subsetNotMap_ *)
(* the memo tables only ever hold true comparison results *)
Theorem C09_memo_sound_init : forall A B, memo_sound (st_memo (ac_init false A B)).
Proof. exact memo_sound_init. Qed.
Theorem C09_memo_sound_step : forall A B st p P, memo_sound (st_memo st) -> memo_sound (st_memo (make_post false A B st p P)).
Proof. exact memo_sound_step. Qed.
(* hence the run is the run of the memo-free algorithm *)
Theorem C09_ac_erase : forall A B, ac_run false A B = loop0 (ac_fuel A B) A B (init0 A B).
Proof. exact ac_run_eq. Qed.
(* any answer, with any fuel, is the truth; the structural fuel always suffices *)
Theorem C09_ac_partial : forall A B fuel b, ac_loop false fuel A B (ac_init false A B) = Some b -> (b = true <-> wlincl A B).
Proof. exact ac_partial. Qed.
Theorem C09_ac_terminates : forall A B, ac_run false A B <> None.
Proof. exact ac_terminates. Qed.
Print Assumptions C09_ac_terminates.
Theorem C09_ac_refines : forall A B, ac_model A B = wincl_dec A B.
Proof. exact ac_refines. Qed.
Print Assumptions C09_ac_refines.
(* as called through CheckInclusion (operands sanitized first) it is exact and agrees with the other selections *)
Theorem C09_ac_incl_exact : forall A B, ac_incl_model A B = true <-> wlincl A B.
Proof. exact ac_incl_model_spec. Qed.
Print Assumptions C09_ac_incl_exact.

(* operand preparation of the congruence selections after the repair of D6: on operands with
   disjoint state sets inclusion is equivalence of the union with the bigger automaton *)
Theorem C09_congr_operands_ok : forall A B, disjoint (nstates A) (nstates B) ->
  (wlincl A B <-> forall w, waccepts (nunion_disjoint A B) w <-> waccepts B w).
Proof. exact congr_operands_ok. Qed.
Print Assumptions C09_congr_operands_ok.
(* the sanitizing step (RemoveUselessStates) does not change the answer *)
Theorem C09_sanitize_lang : forall A w, waccepts (nuseless A) w <-> waccepts A w.
Proof. exact nuseless_lang. Qed.

(* the code as it was before the fix: commits: faithful models violate the property *)
(* D5: memo filling that records the converse of a failed comparison as positive *)
Theorem C09_memo_refuted : exists A B, ac_run true A B = Some true /\ wincl_dec A B = false.
Proof. exact memo_refuted. Qed.
Print Assumptions C09_memo_refuted.
(* D6: union automaton built from the unsanitized operands *)
Theorem C09_congr_operands_refuted : exists A B, wincl_congr_old A B = false /\ wincl_dec A B = true.
Proof. exact congr_operands_refuted. Qed.
Print Assumptions C09_shared_table_starts_matter.
Print Assumptions C09_congr_partial_correct.
Print Assumptions C09_congr_equiv_partial_correct.
Print Assumptions C09_congr_refines.
Print Assumptions C09_congr_closure_sound.
Print Assumptions C09_shared_table_sufficient.
Print Assumptions C09_model_is_decider.
Print Assumptions C09_memo_sound_init.
Print Assumptions C09_memo_sound_step.
Print Assumptions C09_ac_erase.
Print Assumptions C09_ac_partial.
Print Assumptions C09_sanitize_lang.
Print Assumptions C09_congr_operands_refuted.
