Require Extraction.
Require Import ExtrOcamlBasic.
From V Require Import Sem Prod Incl TrimDefs InclDefs AntichainUp DownIncl DownInclCacheDefs DownInclOptDefs.
Extraction "ex_c01.ml" incl_model gate_verdict prepared_lang prepared_shape incl_dec is_empty ta_same remove_useless leaf_match up_ac down_incl downc_incl downo_incl.
