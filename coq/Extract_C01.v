Require Extraction.
Require Import ExtrOcamlBasic.
From V Require Import Sem Prod Incl TrimDefs InclDefs AntichainUp AntichainUpW AntichainUpSim DownIncl DownInclCacheDefs DownInclOptDefs.
Extraction "ex_c01.ml" incl_model gate_verdict prepared_lang prepared_shape incl_dec is_empty ta_same remove_useless leaf_match up_ac up_worklist up_worklist_keyed up_sim_model upsim_gfp down_incl downc_incl downo_incl.
