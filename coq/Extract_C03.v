(* extraction root for C03 — no proofs are needed to build this file *)
Require Extraction.
Require Import ExtrOcamlBasic.
From V Require Import Sem Prod Incl TrimDefs UselessCount.
Extraction "ex_c03.ml" remove_unreachable remove_unreachable_old remove_useless is_lang_empty ta_same
  gate_unreach gate_useless gate_empty equiv_dec no_unreachable no_useless is_empty productive productive_count.
