(* C03 — Trimming preserves the language and leaves no dead states; emptiness is exact.
   Nothing but statements closed by [exact]; the proofs are in TrimProofs.v. *)
From Coq Require Import List NArith Bool.
From V Require Import Sem Prod Incl TrimDefs TrimProofs UselessCount.

(* RemoveUnreachableStates keeps the language (whatever the shortcut decides) *)
Theorem C03_unreach_lang : forall A t, accepts (remove_unreachable A) t <-> accepts A t.
Proof. exact (unreach_lang_any shortcut). Qed.
(* ... and every state that still occurs is reachable top-down from a final state *)
Theorem C03_unreach_post : forall A q, In q (states (remove_unreachable A)) -> TdReach (remove_unreachable A) q.
Proof. exact unreach_post. Qed.
(* RemoveUselessStates keeps the language *)
Theorem C03_useless_lang : forall A t, accepts (remove_useless A) t <-> accepts A t.
Proof. exact useless_lang. Qed.
(* ... every remaining rule has a top-down reachable parent and productive children,
   every remaining state is top-down reachable and productive *)
Theorem C03_useless_post : forall A, let L := remove_useless A in
  (forall r, In r (rules L) -> TdReach L (par r) /\ forall c, In c (ch r) -> In c (productive L)) /\
  (forall q, In q (states L) -> TdReach L q /\ In q (productive L)).
Proof. exact useless_post. Qed.
(* the `remaining == 0` shortcut of RemoveUselessStates is harmless *)
Theorem C03_remaining_zero : forall A P, remaining A P = 0 -> forall r, In r (rules A) -> rule_productive P r = true.
Proof. exact remaining_zero. Qed.
(* IsLangEmpty is exact *)
Theorem C03_is_lang_empty : forall A, is_lang_empty A = true <-> forall t, ~ accepts A t.
Proof. exact is_lang_empty_spec. Qed.
(* the gates used by the correspondence check decide exactly the property on the implementation's output *)
Theorem C03_gate_unreach : forall A U, gate_unreach A U = true ->
  (forall t, accepts U t <-> accepts A t) /\ forall q, In q (states U) -> TdReach U q.
Proof. exact gate_unreach_sound. Qed.
Theorem C03_gate_useless : forall A L, gate_useless A L = true <->
  (forall t, accepts L t <-> accepts A t) /\ useless_postcond L.
Proof. exact gate_useless_spec. Qed.
Theorem C03_gate_empty : forall A e, gate_empty A e = true <-> (e = true <-> forall t, ~ accepts A t).
Proof. exact gate_empty_spec. Qed.
(* an implementation agreeing with the model passes the gates *)
Theorem C03_model_unreach_passes : forall A, gate_unreach A (remove_unreachable A) = true.
Proof. exact model_unreach_passes. Qed.
Theorem C03_model_useless_passes : forall A, gate_useless A (remove_useless A) = true.
Proof. exact model_useless_passes. Qed.
Theorem C03_model_empty_passes : forall A, gate_empty A (is_lang_empty A) = true.
Proof. exact model_empty_passes. Qed.
(* the historical shortcut |reachable| = |owners| breaks the post-condition *)
Theorem C03_old_shortcut_refuted : exists A, no_unreachable (remove_unreachable_old A) = false.
Proof. exact TrimProofs.C03_old_shortcut_refuted. Qed.

(* (A) the algorithm behind RemoveUselessStates / IsLangEmpty: one counter per rule (distinct children not yet known productive), a work
   list of productive states, a parent marked when its rule's counter reaches zero. A run that ends has marked exactly the states
   that generate a tree, for every fuel *)
Theorem C03_counter_algorithm_exact : forall A fuel M, productive_count A fuel = Some M -> forall q, In q M <-> exists t, reach A t q.
Proof. exact productive_count_exact. Qed.
Theorem C03_counter_algorithm_is_productive : forall A fuel M, productive_count A fuel = Some M -> forall q, In q M <-> In q (productive A).
Proof. exact productive_count_is_productive. Qed.
(* decrementing once per occurrence of the popped state, or waiting for a prefix of the child positions only, is refuted *)
Theorem C03_counter_variants_refuted :
  productive_count vA 10 = Some (cons 1%N nil) /\ productive vA = cons 1%N nil /\
  urun_occ 10 (uinit vA) = Some (cons 0 (cons 1 nil))%N /\ urun 10 (uinit_k 2 vA) = Some (cons 0 (cons 1 nil))%N.
Proof. exact counter_variants_refuted. Qed.

Print Assumptions C03_unreach_lang.
Print Assumptions C03_unreach_post.
Print Assumptions C03_useless_lang.
Print Assumptions C03_useless_post.
Print Assumptions C03_remaining_zero.
Print Assumptions C03_is_lang_empty.
Print Assumptions C03_gate_unreach.
Print Assumptions C03_gate_useless.
Print Assumptions C03_gate_empty.
Print Assumptions C03_model_unreach_passes.
Print Assumptions C03_model_useless_passes.
Print Assumptions C03_model_empty_passes.
Print Assumptions C03_old_shortcut_refuted.
Print Assumptions C03_counter_algorithm_exact.
Print Assumptions C03_counter_algorithm_is_productive.
Print Assumptions C03_counter_variants_refuted.
