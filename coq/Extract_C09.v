(* extraction root for C09 — no proofs are needed to build this file *)
Require Extraction.
Require Import ExtrOcamlBasic.
From V Require Import Sem Prod Incl TrimDefs Lang NfaDefs NfaAcDefs HkcDefs.
Extraction "ex_c09.ml" wincl_dec wequiv_dec wis_empty wincl_model gate_verdict nfa_same nuseless nstates
  ac_run ac_model ac_incl_model hkc_model.
