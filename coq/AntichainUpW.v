(* C01 / C07 (A) increment — upward inclusion as the code runs it (src/explicit_tree_incl_up.cc): a work list `next` of macro
   pairs and an antichain `processed`; a pair popped from the work list is skipped when a processed pair subsumes it (`contains`),
   otherwise it is tested for acceptance (a final state of A paired with a macro-state without final state of B ends the run with
   "not included"), the processed pairs it subsumes are deleted (`refine` — the step AntichainUp.v left out), and the consequences
   that the new pair adds are scheduled. Fuel-indexed; None = out of fuel. Theorem: a run that ends returns the verdict of the
   verified decider, for every fuel. *)
From Coq Require Import List NArith Bool Arith Lia.
Import ListNotations.
From V Require Import Fix Sem Prod Incl TrimDefs TrimProofs AntichainUp.

Definition memMP (x : mp) (l : list mp) : bool := existsb (fun y => if mp_eq_dec x y then true else false) l.

Fixpoint upw (A B : ta) (fuel : nat) (P W : list mp) : option bool :=
  match fuel with
  | 0 => None
  | S f =>
      match W with
      | [] => Some true
      | x :: W' =>
          if covered P x then upw A B f P W'
          else if negb (pair_ok A B x) then Some false
          else let Pf := filter (fun y => negb (subsumesb x y)) P in         (* refine: processed pairs subsumed by x are deleted *)
               let P' := x :: Pf in
               let nw := filter (fun y => negb (memMP y (mstep A B Pf))) (mstep A B P') in   (* what x adds *)
               upw A B f P' (W' ++ nw)
      end
  end.
Definition up_worklist (A B : ta) (fuel : nat) : option bool := upw A B fuel [] (mstep A B []).

(* the same run with a work list that is a set ordered by (size of the macro-state, state of A) WITHOUT a tie-break on the macro-state
   itself: a pair whose key is already pending is dropped on insertion (refuted in the proofs below) *)
Definition same_key (x y : mp) : bool := N.eqb (fst x) (fst y) && Nat.eqb (length (snd x)) (length (snd y)).
Definition ins_keyed (W : list mp) (y : mp) : list mp := if existsb (same_key y) W then W else W ++ [y].
Fixpoint upw_keyed (A B : ta) (fuel : nat) (P W : list mp) : option bool :=
  match fuel with
  | 0 => None
  | S f =>
      match W with
      | [] => Some true
      | x :: W' =>
          if covered P x then upw_keyed A B f P W'
          else if negb (pair_ok A B x) then Some false
          else let Pf := filter (fun y => negb (subsumesb x y)) P in
               let P' := x :: Pf in
               let nw := filter (fun y => negb (memMP y (mstep A B Pf))) (mstep A B P') in
               upw_keyed A B f P' (fold_left ins_keyed nw W')
      end
  end.
Definition up_worklist_keyed (A B : ta) (fuel : nat) : option bool := upw_keyed A B fuel [] (fold_left ins_keyed (mstep A B []) []).

(* ---------- proofs ---------- *)
Lemma memMP_In x l : memMP x l = true <-> In x l.
Proof.
  unfold memMP. rewrite existsb_exists. split.
  - intros [y [Hy H]]. destruct (mp_eq_dec x y); [subst; auto | discriminate].
  - intros H. exists x. split; auto. destruct (mp_eq_dec x x); auto.
Qed.

Lemma der_iff_reach A B x : In x (macro_reach A B) <-> Der mp (mstep A B) x.
Proof. unfold macro_reach. apply (saturate2_lfp mp mp_eq_dec (mstep A B) (mstep_mono A B) (universe A B) (mstep_bounded A B) _ (universe_fuel A B)). Qed.

(* a set closed under the step up to subsumption covers every reachable macro pair *)
Lemma closed_complete A B (P : list mp) :
  (forall y, In y (mstep A B P) -> exists z, In z P /\ subsumes z y) ->
  forall x, Der mp (mstep A B) x -> exists z, In z P /\ subsumes z x.
Proof.
  intros HC. induction 1 as [S x _ IH Hx]. apply mstep_in in Hx as [r [Ss [Hr [F ->]]]].
  assert (X : exists Ss', Forall2 (fun q S' => In (q, S') P) (ch r) Ss' /\ Forall2 (fun S' S0 => incl S' S0) Ss' Ss).
  { clear Hr. induction F as [|c S0 cs Ss0 H F IH2].
    - exists []. split; constructor.
    - destruct (IH (c, S0) H) as [[c' S'] [Hy [E I]]]. simpl in E, I. subst c'.
      destruct IH2 as [Ss' [F1 F2]]. exists (S' :: Ss'). split; constructor; auto. }
  destruct X as [Ss' [F1 F2]].
  destruct (HC (par r, postB B (sym r) Ss')) as [y [Hy Hs]].
  { apply mstep_in. exists r, Ss'. auto. }
  exists y. split; auto. eapply subsumes_trans; eauto. split; [reflexivity | simpl; apply postB_mono; auto].
Qed.

Definition WInv (A B : ta) (P W : list mp) : Prop :=
  (forall y, In y (P ++ W) -> Der mp (mstep A B) y) /\
  (forall y, In y (mstep A B P) -> exists z, In z (P ++ W) /\ subsumes z y) /\
  (forall y, In y P -> pair_ok A B y = true).

Lemma winv_init A B : WInv A B [] (mstep A B []).
Proof.
  split; [|split].
  - intros y Hy. simpl in Hy. apply (der mp (mstep A B) []); [intros z [] | exact Hy].
  - intros y Hy. exists y. split; [simpl; auto | apply subsumes_refl].
  - intros y [].
Qed.

Lemma covered_spec R y : covered R y = true <-> exists x, In x R /\ subsumes x y.
Proof. unfold covered. rewrite existsb_exists. split; intros [x [Hx H]]; exists x; split; auto; apply subsumesb_spec; auto. Qed.

Theorem upw_correct A B : forall fuel P W b, WInv A B P W -> upw A B fuel P W = Some b -> b = incl_dec A B.
Proof.
  induction fuel as [|f IH]; intros P W b HI H; simpl in H; [discriminate|].
  destruct HI as [HS [HC HK]].
  destruct W as [|x W'].
  - inversion H; subst. symmetry. unfold incl_dec. fold (pair_ok A B). apply forallb_forall. intros y Hy.
    apply der_iff_reach in Hy.
    destruct (closed_complete A B P) with (x := y) as [z [Hz Hs]]; auto.
    { intros y' Hy'. destruct (HC y' Hy') as [z [Hz Hs]]. rewrite app_nil_r in Hz. eauto. }
    eapply pair_ok_subsumes; eauto.
  - destruct (covered P x) eqn:Ecov.
    + apply (IH P W' b); auto. apply covered_spec in Ecov as [p [Hp Hpx]]. split; [|split]; auto.
      * intros y Hy. apply HS. apply in_app_iff in Hy as [Hy|Hy]; apply in_app_iff; [left | right; right]; auto.
      * intros y Hy. destruct (HC y Hy) as [z [Hz Hs]]. apply in_app_iff in Hz as [Hz|[<-|Hz]].
        -- exists z. split; auto. apply in_app_iff; auto.
        -- exists p. split; [apply in_app_iff; auto | eapply subsumes_trans; eauto].
        -- exists z. split; auto. apply in_app_iff; auto.
    + destruct (pair_ok A B x) eqn:Eok; simpl in H.
      * set (Pf := filter (fun y => negb (subsumesb x y)) P) in *.
        set (nw := filter (fun y => negb (memMP y (mstep A B Pf))) (mstep A B (x :: Pf))) in *.
        assert (HPf : incl Pf P) by (intros y Hy; apply filter_In in Hy; tauto).
        assert (Dx : Der mp (mstep A B) x) by (apply HS, in_app_iff; right; left; auto).
        assert (DP' : forall y, In y (x :: Pf) -> Der mp (mstep A B) y).
        { intros y [<-|Hy]; auto. apply HS, in_app_iff. left. auto. }
        apply (IH (x :: Pf) (W' ++ nw) b); auto. split; [|split].
        -- intros y Hy. change (In y (x :: Pf ++ W' ++ nw)) in Hy. destruct Hy as [<-|Hy]; auto.
           apply in_app_iff in Hy as [Hy|Hy]; [apply DP'; right; auto|].
           apply in_app_iff in Hy as [Hy|Hy]; [apply HS, in_app_iff; right; right; auto|].
           apply filter_In in Hy as [Hy _]. apply (der mp (mstep A B) (x :: Pf)); auto.
        -- intros y Hy. destruct (memMP y (mstep A B Pf)) eqn:Em.
           ++ apply memMP_In in Em. apply (mstep_mono A B Pf P HPf) in Em.
              destruct (HC y Em) as [z [Hz Hs]]. apply in_app_iff in Hz as [Hz|[<-|Hz]].
              ** destruct (subsumesb x z) eqn:Exz.
                 --- exists x. split; [left; auto|]. apply subsumesb_spec in Exz. eapply subsumes_trans; eauto.
                 --- exists z. split; auto. right. apply in_app_iff. left. apply filter_In. split; auto. rewrite Exz. auto.
              ** exists x. split; auto. left; auto.
              ** exists z. split; auto. right. apply in_app_iff. right. apply in_app_iff. left. auto.
           ++ exists y. split; [|apply subsumes_refl]. right. apply in_app_iff. right. apply in_app_iff. right.
              apply filter_In. split; auto. rewrite Em. auto.
        -- intros y [<-|Hy]; auto.
      * inversion H; subst. symmetry. unfold incl_dec. fold (pair_ok A B).
        destruct (forallb (pair_ok A B) (macro_reach A B)) eqn:E; auto.
        rewrite forallb_forall in E. rewrite E in Eok; [discriminate|]. apply der_iff_reach. apply HS, in_app_iff. right; left; auto.
Qed.

Theorem up_worklist_refines A B fuel b : up_worklist A B fuel = Some b -> b = incl_dec A B.
Proof. apply upw_correct, winv_init. Qed.
Theorem up_worklist_exact A B fuel b : up_worklist A B fuel = Some b -> (b = true <-> lincl A B).
Proof. intros H. rewrite (up_worklist_refines A B fuel b H). apply incl_dec_spec. Qed.

(* non-vacuity: on the example of AntichainUp.v the run ends; the refine step really deletes a processed pair on the second one *)
Example up_worklist_runs :
  let A := {| rules := [ {| sym := 0; ch := []; par := 0 |}; {| sym := 2; ch := [0%N]; par := 0 |} ]; finals := [0%N] |} in
  let B := {| rules := [ {| sym := 0; ch := []; par := 0 |}; {| sym := 2; ch := [0%N]; par := 0 |}; {| sym := 2; ch := [0%N]; par := 1 |};
                         {| sym := 2; ch := [1%N]; par := 1 |} ]; finals := [0%N] |} in
  let A2 := {| rules := {| sym := 1; ch := []; par := 0 |} :: rules A; finals := [0%N] |} in
  up_worklist A B 20 = Some true /\ up_worklist B A 20 = Some true /\ up_worklist A2 B 20 = Some false.
Proof. vm_compute. repeat split; reflexivity. Qed.

(* without the tie-break two pending pairs (q, {s1}), (q, {s2}) are one key and the second is lost: refuted *)
Definition kA : ta := {| rules := [ {| sym := 1; ch := []; par := 0 |}; {| sym := 0; ch := []; par := 0 |}; {| sym := 2; ch := [0%N]; par := 1 |} ]; finals := [1%N] |}.
Definition kB : ta := {| rules := [ {| sym := 0; ch := []; par := 0 |}; {| sym := 1; ch := []; par := 1 |}; {| sym := 2; ch := [1%N]; par := 2 |};
                                    {| sym := 2; ch := [0%N]; par := 3 |} ]; finals := [2%N] |}.
Theorem up_worklist_keyed_refuted :
  up_worklist_keyed kA kB 20 = Some true /\ incl_dec kA kB = false /\ up_worklist kA kB 20 = Some false.
Proof. vm_compute. repeat split; reflexivity. Qed.
