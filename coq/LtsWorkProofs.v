(* C16 (A) increment — proofs for the state-level model of the engine's refinement algorithm (LtsWorkDefs.v): whatever the
   queue discipline and the fuel, a run that ends returns exactly the greatest simulation inside the initial relation. *)
From Coq Require Import List NArith Bool Arith Lia.
Import ListNotations.
From V Require Import Gfp LtsSimDefs LtsSimProofs LtsWorkDefs.

Lemma has_succ_spec L R a q' r : has_succ L R a q' r = true <-> exists r'', In (r, a, r'') L /\ In (q', r'') R.
Proof.
  unfold has_succ. rewrite existsb_exists. split.
  - intros [[[s b] d] [He H]]. unfold esrc, elab, edst in H. simpl in H.
    rewrite !andb_true_iff, !N.eqb_eq, memP_In in H. destruct H as [[-> ->] H]. exists d. auto.
  - intros [r'' [He H]]. exists (r, a, r''). split; auto. unfold esrc, elab, edst. simpl.
    rewrite !N.eqb_refl. simpl. apply memP_In; auto.
Qed.
Lemma has_succ_false L R a q' r : has_succ L R a q' r = false <-> forall r'', In (r, a, r'') L -> ~ In (q', r'') R.
Proof.
  split.
  - intros H r'' He Hin. assert (X : has_succ L R a q' r = true) by (apply has_succ_spec; eauto). congruence.
  - intros H. destruct (has_succ L R a q' r) eqn:E; auto. apply has_succ_spec in E as [r'' [He Hin]]. destruct (H r'' He Hin).
Qed.

Lemma enabled_spec L a r : enabled L a r = true <-> exists r'', In (r, a, r'') L.
Proof.
  unfold enabled. rewrite existsb_exists. split.
  - intros [[[s b] d] [He H]]. unfold esrc, elab in H. simpl in H. rewrite andb_true_iff, !N.eqb_eq in H. destruct H as [-> ->]. eauto.
  - intros [r'' He]. exists (r, a, r''). split; auto. unfold esrc, elab. simpl. rewrite !N.eqb_refl. reflexivity.
Qed.
Lemma prune_pair_spec L q r : prune_pair L (q, r) = true <-> forall a q', In (q, a, q') L -> exists r'', In (r, a, r'') L.
Proof.
  unfold prune_pair. rewrite forallb_forall. simpl. split.
  - intros H a q' He. specialize (H _ He). unfold esrc, elab in H. simpl in H. rewrite N.eqb_refl in H. apply enabled_spec; auto.
  - intros H [[s a] d] He. unfold esrc, elab. simpl. destruct (N.eqb_spec s q) as [->|]; auto. apply enabled_spec. eapply H; eauto.
Qed.

Lemma victims_In L a q' r q r0 : In (q, r0) (victims L a q' r) <-> r0 = r /\ In (q, a, q') L.
Proof.
  unfold victims. rewrite in_map_iff. split.
  - intros [[[s b] d] [E H]]. apply filter_In in H as [He H]. unfold esrc, elab, edst in *. simpl in *.
    rewrite andb_true_iff, !N.eqb_eq in H. destruct H as [-> ->]. inversion E; subst. auto.
  - intros [-> He]. exists (q, a, q'). split; auto. apply filter_In. split; auto. unfold elab, edst. simpl. rewrite !N.eqb_refl. reflexivity.
Qed.

Lemma new_removes_In L R' gone b q r0 :
  In (b, q, r0) (new_removes L R' gone) <-> exists r, In (q, r) gone /\ In (r0, b, r) L /\ has_succ L R' b q r0 = false.
Proof.
  unfold new_removes. rewrite in_flat_map. split.
  - intros [[x y] [Hx H]]. apply in_flat_map in H as [[[s l] d] [He H]]. unfold esrc, elab, edst in H. simpl in H.
    destruct (N.eqb_spec d y) as [->|]; simpl in H; [|destruct H].
    destruct (has_succ L R' l x s) eqn:E; simpl in H; [destruct H|]. destruct H as [H|[]]. inversion H; subst. exists y. auto.
  - intros [r [Hg [He H]]]. exists (q, r). split; auto. apply in_flat_map. exists (r0, b, r). split; auto.
    unfold esrc, elab, edst. simpl. rewrite N.eqb_refl, H. simpl. auto.
Qed.

Lemma init_removes_In L R a q' r :
  In (a, q', r) (init_removes L R) <-> (exists q, In (q, a, q') L) /\ (exists r'', In (r, a, r'') L) /\ has_succ L R a q' r = false.
Proof.
  unfold init_removes. rewrite in_flat_map. split.
  - intros [[[s1 l1] d1] [H1 H]]. apply in_flat_map in H as [[[s2 l2] d2] [H2 H]]. unfold esrc, elab, edst in H. simpl in H.
    destruct (N.eqb_spec l2 l1) as [->|]; simpl in H; [|destruct H].
    destruct (has_succ L R l1 d1 s2) eqn:E; simpl in H; [destruct H|]. destruct H as [H|[]]. inversion H; subst. repeat split; eauto.
  - intros [[q Hq] [[r'' Hr] H]]. exists (q, a, q'). split; auto. apply in_flat_map. exists (r, a, r''). split; auto.
    unfold esrc, elab, edst. simpl. rewrite N.eqb_refl, H. simpl. auto.
Qed.

Section Run.
Variable L : lts.
Variable R0 : list (N * N).
Let G := lts_sim_from L R0.

(* the invariant of the main loop *)
Definition Inv (R : list (N * N)) (Rem : list trip) : Prop :=
  incl R R0 /\ incl G R /\
  (forall a q' r, In (a, q', r) Rem -> forall r'', In (r, a, r'') L -> ~ In (q', r'') R) /\
  (forall q r, In (q, r) R -> forall a q', In (q, a, q') L ->
     (exists r'', In (r, a, r'') L /\ In (q', r'') R) \/ In (a, q', r) Rem).

Lemma G_sim : forall q r, In (q, r) G -> forall a q', In (q, a, q') L -> exists r', In (r, a, r') L /\ In (q', r') G.
Proof. destruct (lts_sim_from_greatest L R0) as [[_ Hs] _]. intros q r H a q' He. apply (Hs q r H a q' He). Qed.
Lemma G_greatest : forall R, incl R R0 ->
  (forall q r, In (q, r) R -> forall a q', In (q, a, q') L -> exists r', In (r, a, r') L /\ In (q', r') R) -> incl R G.
Proof.
  destruct (lts_sim_from_greatest L R0) as [_ Hg]. intros R Hi Hs [q r] H.
  apply (Hg (rel_of R)); auto. split; [intros x y Hxy; apply Hi; auto | exact Hs].
Qed.

Lemma step_inv a q' r Rem' R Rem'' :
  Inv R ((a, q', r) :: Rem') ->
  let V := victims L a q' r in
  let gone := filter (fun x => memP x V) R in
  let R' := filter (fun x => negb (memP x V)) R in
  (forall t, In t Rem'' -> In t Rem' \/ In t (new_removes L R' gone)) ->
  (forall t, In t Rem' -> In t Rem'') ->
  (forall b q r0, In (b, q, r0) (new_removes L R' gone) -> (exists x, In (x, b, q) L) -> In (b, q, r0) Rem'') ->
  Inv R' Rem''.
Proof.
  intros [I1 [I2 [I5 I4]]] V gone R' H1 H2 H3.
  assert (HR' : forall x, In x R' <-> In x R /\ ~ In x V).
  { intros x. unfold R'. rewrite filter_In. rewrite negb_true_iff. split; intros [Ha Hb]; split; auto.
    - intros Hv. apply memP_In in Hv. congruence.
    - destruct (memP x V) eqn:E; auto. apply memP_In in E. destruct (Hb E). }
  assert (Hgone : forall x, In x gone <-> In x R /\ In x V).
  { intros x. unfold gone. rewrite filter_In, memP_In. tauto. }
  split; [|split; [|split]].
  - intros x Hx. apply I1. apply HR' in Hx. tauto.
  - intros [x y] Hx. apply HR'. split; [apply I2; auto|]. intros Hv. apply victims_In in Hv as [-> He].
    destruct (G_sim x r Hx a q' He) as [r'' [He' Hg]].
    apply (I5 a q' r (or_introl eq_refl) r'' He'). apply I2; auto.
  - intros b x y Ht r'' He Hin. apply H1 in Ht as [Ht|Ht].
    + apply (I5 b x y (or_intror Ht) r'' He). apply HR' in Hin. tauto.
    + apply new_removes_In in Ht as [r1 [_ [_ Hf]]]. rewrite has_succ_false in Hf. apply (Hf r'' He Hin).
  - intros x y Hxy b x' He. apply HR' in Hxy as [Hxy Hnv].
    destruct (I4 x y Hxy b x' He) as [[y'' [He' Hin]]|Ht].
    + destruct (has_succ L R' b x' y) eqn:E.
      * apply has_succ_spec in E. left; auto.
      * right. apply H3; [|exists x; auto]. apply new_removes_In. exists y''. split; [|split; auto].
        apply Hgone. split; auto.
        destruct (memP (x', y'') V) eqn:EV; [apply memP_In; auto|].
        exfalso. rewrite has_succ_false in E. apply (E y'' He'). apply HR'. split; auto.
        intros Hv. apply memP_In in Hv. congruence.
    + destruct Ht as [Ht|Ht].
      * inversion Ht; subst. exfalso. apply Hnv. apply victims_In. auto.
      * right. apply H2. auto.
Qed.

Lemma hhk_inv lifo : forall fuel R Rem R', Inv R Rem -> hhk L lifo fuel R Rem = Some R' -> Inv R' [].
Proof.
  induction fuel as [|f IH]; intros R Rem R' HI H; simpl in H; [discriminate|].
  destruct Rem as [|[[a q'] r] Rem'].
  - inversion H; subst; auto.
  - eapply IH; [|exact H]. eapply step_inv; [exact HI| | |].
    + intros t. destruct lifo; rewrite in_app_iff; tauto.
    + intros t. destruct lifo; rewrite in_app_iff; tauto.
    + intros b q r0 Hn _. destruct lifo; rewrite in_app_iff; tauto.
Qed.

Lemma inv_final R : Inv R [] -> forall q r, In (q, r) R <-> In (q, r) G.
Proof.
  intros [I1 [I2 [_ I4]]] q r. split; [|apply I2].
  apply (G_greatest R I1). intros x y Hxy a x' He. destruct (I4 x y Hxy a x' He) as [H|[]]; auto.
Qed.

Theorem hhk_partial_correct lifo fuel R Rem R' :
  Inv R Rem -> hhk L lifo fuel R Rem = Some R' -> forall q r, In (q, r) R' <-> In (q, r) G.
Proof. intros HI H. apply inv_final. eapply hhk_inv; eauto. Qed.

(* the state after init() satisfies the invariant *)
Lemma init_inv : Inv (prune_enabled L R0) (init_removes L (prune_enabled L R0)).
Proof.
  split; [|split; [|split]].
  - intros x Hx. apply filter_In in Hx. tauto.
  - intros [q r] Hx. apply filter_In. split.
    + destruct (lts_sim_from_greatest L R0) as [[Hs _] _]. apply (Hs q r Hx).
    + apply prune_pair_spec. intros a q' He. destruct (G_sim q r Hx a q' He) as [r'' [He' _]]. eauto.
  - intros a q' r Ht r'' He Hin. apply init_removes_In in Ht as [_ [_ Hf]]. rewrite has_succ_false in Hf. apply (Hf r'' He Hin).
  - intros q r Hx a q' He. destruct (has_succ L (prune_enabled L R0) a q' r) eqn:E.
    + left. apply has_succ_spec; auto.
    + right. apply init_removes_In. split; [eauto|]. split; auto.
      apply filter_In in Hx as [_ Hp]. rewrite prune_pair_spec in Hp. eapply Hp; eauto.
Qed.
End Run.

Theorem hhk_sim_partial_correct L lifo fuel n part brel R' :
  hhk_sim L lifo fuel n part brel = Some R' -> forall q r, In (q, r) R' <-> In (q, r) (lts_sim L n part brel).
Proof. unfold hhk_sim, lts_sim. intros H. eapply hhk_partial_correct; [apply init_inv | exact H]. Qed.

(* as a statement about the gate: a finished run passes the gate of the property for every output size *)
Theorem hhk_sim_passes_gate L lifo fuel n part brel m R' :
  hhk_sim L lifo fuel n part brel = Some R' -> gate_lts L n part brel m (output m R') = true.
Proof.
  intros H. unfold gate_lts. apply rel_same_spec. intros q r. rewrite !output_spec.
  rewrite (hhk_sim_partial_correct L lifo fuel n part brel R' H q r). tauto.
Qed.

(* non-vacuity: the run on the example system ends, in both queue disciplines, with the relation of the functional model *)
Example hhk_example :
  hhk_sim ex_lts true 20 3 [[0; 2]; [1]]%N [(0, 0); (1, 1); (0, 1)]%N = Some [(0, 0); (0, 1); (1, 1); (2, 2)]%N /\
  hhk_sim ex_lts false 20 3 [[0; 2]; [1]]%N [(0, 0); (1, 1); (0, 1)]%N = Some [(0, 0); (0, 1); (1, 1); (2, 2)]%N.
Proof. vm_compute. split; reflexivity. Qed.

(* init()'s pruning by enabled labels is necessary: without it a candidate that lacks a label altogether is never looked at *)
Definition np_lts : lts := [(0, 0, 0)]%N.
Theorem hhk_noprune_refuted :
  exists R', hhk_sim_noprune np_lts true 10 2 [[0; 1]]%N [(0, 0)]%N = Some R' /\ In (0, 1)%N R' /\
             ~ In (0, 1)%N (lts_sim np_lts 2 [[0; 1]]%N [(0, 0)]%N).
Proof.
  eexists. split; [vm_compute; reflexivity|]. split; [vm_compute; tauto|].
  vm_compute. intros H. repeat (destruct H as [H|H]; [discriminate|]). exact H.
Qed.
