(* C11, copy-on-write level: the storage of ExplicitTreeAutCore as a heap of shared objects at three levels
     handle  --transitions_-->  map object      (state  -> cluster id)
     map entry  ------------->  cluster object  (symbol -> tuple-set id)
     cluster entry  --------->  tuple-set object (list of child tuples)
   The use count of an object is DERIVED: the number of referrers among the live handles / live map objects /
   live cluster objects (what shared_ptr::use_count() returns); `unique()` is "use count = 1".  Every mutating
   step is written as the code writes it: uniqueClusterMap, then uniqueCluster, then uniqueTuplePtrSet, then
   insert; Clear replaces or clears depending on unique(); results of trimming share the whole map or single
   clusters with the operand.  Definitions only. *)
From Coq Require Import List NArith Bool PeanoNat.
Import ListNotations.
From V Require Import Sem StoreDefs ValueDefs.

Definition fset {X} (f : N -> option X) (k : N) (v : option X) : N -> option X := fun x => if N.eqb x k then v else f x.
Fixpoint countN (x : N) (l : list N) : nat := match l with [] => 0 | y :: t => (if N.eqb x y then 1 else 0) + countN x t end.
Fixpoint hdel {V} (k : N) (l : list (N * V)) : list (N * V) :=
  match l with [] => [] | (k', v) :: t => if N.eqb k k' then hdel k t else (k', v) :: hdel k t end.
Definition put {V} (k : N) (v : V) (l : list (N * V)) : list (N * V) := upd k v (fun _ => v) l.

Record cow := {
  hnd : list (N * (list N * N));      (* live handles: final states (held by value), id of the map object *)
  mps : N -> option (list (N * N));   (* map objects *)
  cls : N -> option (list (N * N));   (* cluster objects *)
  tss : N -> option tset;             (* tuple-set objects *)
  nxt : N }.                          (* allocation counter *)
Definition cempty : cow := {| hnd := []; mps := fun _ => None; cls := fun _ => None; tss := fun _ => None; nxt := 0 |}.

Definition mget (c : cow) (m : N) : list (N * N) := match mps c m with Some es => es | None => [] end.
Definition cget (c : cow) (cl : N) : list (N * N) := match cls c cl with Some es => es | None => [] end.
Definition tget (c : cow) (ts : N) : tset := match tss c ts with Some x => x | None => [] end.

(* referrers *)
Definition lmaps (c : cow) : list N := map (fun e => snd (snd e)) (hnd c).
Definition lcls (c : cow) : list N := flat_map (fun m => map snd (mget c m)) (nodupN (lmaps c)).
Definition ltss (c : cow) : list N := flat_map (fun cl => map snd (cget c cl)) (nodupN (lcls c)).
Definition map_unique (c : cow) (m : N) : bool := Nat.eqb (countN m (lmaps c)) 1.
Definition cl_unique (c : cow) (cl : N) : bool := Nat.eqb (countN cl (lcls c)) 1.
Definition ts_unique (c : cow) (ts : N) : bool := Nat.eqb (countN ts (ltss c)) 1.

(* uniqueClusterMap() of handle h *)
Definition uniq_map (c : cow) (h : N) (fs : list N) (m : N) : cow * N :=
  if map_unique c m then (c, m)
  else let m' := nxt c in
       ({| hnd := put h (fs, m') (hnd c); mps := fset (mps c) m' (Some (mget c m)); cls := cls c; tss := tss c; nxt := N.succ (nxt c) |}, m').

(* m->uniqueCluster(q) — m is unique already *)
Definition alloc_cluster (c : cow) (m q : N) (content : list (N * N)) : cow * N :=
  let cl' := nxt c in
  ({| hnd := hnd c; mps := fset (mps c) m (Some (put q cl' (mget c m))); cls := fset (cls c) cl' (Some content); tss := tss c; nxt := N.succ (nxt c) |}, cl').
Definition uniq_cluster (c : cow) (m q : N) : cow * N :=
  match get q (mget c m) with
  | Some cl => if cl_unique c cl then (c, cl) else alloc_cluster c m q (cget c cl)
  | None => alloc_cluster c m q []
  end.

(* cl->uniqueTuplePtrSet(a) — cl is unique already *)
Definition alloc_ts (c : cow) (cl a : N) (content : tset) : cow * N :=
  let ts' := nxt c in
  ({| hnd := hnd c; mps := mps c; cls := fset (cls c) cl (Some (put a ts' (cget c cl))); tss := fset (tss c) ts' (Some content); nxt := N.succ (nxt c) |}, ts').
Definition uniq_ts (c : cow) (cl a : N) : cow * N :=
  match get a (cget c cl) with
  | Some ts => if ts_unique c ts then (c, ts) else alloc_ts c cl a (tget c ts)
  | None => alloc_ts c cl a []
  end.

Definition write_ts (c : cow) (ts : N) (x : tset) : cow :=
  {| hnd := hnd c; mps := mps c; cls := cls c; tss := fset (tss c) ts (Some x); nxt := nxt c |}.
Definition set_handle (c : cow) (h : N) (v : list N * N) : cow :=
  {| hnd := put h v (hnd c); mps := mps c; cls := cls c; tss := tss c; nxt := nxt c |}.
Definition new_map (c : cow) (es : list (N * N)) : cow * N :=
  let m' := nxt c in
  ({| hnd := hnd c; mps := fset (mps c) m' (Some es); cls := cls c; tss := tss c; nxt := N.succ (nxt c) |}, m').

(* internalAddTransition *)
Definition cow_add (c : cow) (h : N) (r : rule) : cow :=
  match get h (hnd c) with
  | None => c
  | Some (fs, m) =>
    let (c1, m1) := uniq_map c h fs m in
    let (c2, cl) := uniq_cluster c1 m1 (par r) in
    let (c3, ts) := uniq_ts c2 cl (sym r) in
    write_ts c3 ts (ins (ch r) (tget c3 ts))
  end.

Inductive cstep :=
| CNew (h : N)
| CCopy (h s : N)                                  (* copy construction / copy assignment: finals by value, map pointer shared *)
| CMove (h s : N)
| CAdd (h : N) (r : rule)
| CSetFinal (h q : N)
| CEraseFinals (h : N)
| CClear (h : N)
| CUnshare (h : N)                                 (* AreTransitionsEmpty(): uniqueClusterMap() *)
| CDestroy (h : N)
| CShareMap (h s : N) (fs : list N)                (* a result sharing the whole map: `return *this`; RemoveUselessStates with remaining = 0 *)
| CShareClusters (h s : N) (keep fs : list N).     (* RemoveUnreachableStates: a new map holding the operand's cluster pointers of the kept states *)

Definition keep_entries {V} (keep : list N) (es : list (N * V)) : list (N * V) := filter (fun e => memN (fst e) keep) es.

Definition cstep_run (c : cow) (stp : cstep) : cow :=
  match stp with
  | CNew h => let (c1, m) := new_map c [] in set_handle c1 h ([], m)
  | CCopy h s => match get s (hnd c) with Some v => set_handle c h v | None => c end
  | CMove h s => match get s (hnd c) with
                 | Some v => {| hnd := put h v (hdel s (hnd c)); mps := mps c; cls := cls c; tss := tss c; nxt := nxt c |}
                 | None => c end
  | CAdd h r => cow_add c h r
  | CSetFinal h q => match get h (hnd c) with Some (fs, m) => set_handle c h (addN q fs, m) | None => c end
  | CEraseFinals h => match get h (hnd c) with Some (fs, m) => set_handle c h ([], m) | None => c end
  | CClear h => match get h (hnd c) with
                | Some (fs, m) =>
                  if map_unique c m
                  then {| hnd := put h ([], m) (hnd c); mps := fset (mps c) m (Some []); cls := cls c; tss := tss c; nxt := nxt c |}
                  else let (c1, m') := new_map c [] in set_handle c1 h ([], m')
                | None => c end
  | CUnshare h => match get h (hnd c) with Some (fs, m) => fst (uniq_map c h fs m) | None => c end
  | CDestroy h => {| hnd := hdel h (hnd c); mps := mps c; cls := cls c; tss := tss c; nxt := nxt c |}
  | CShareMap h s fs => match get s (hnd c) with Some (_, m) => set_handle c h (fs, m) | None => c end
  | CShareClusters h s keep fs =>
    match get s (hnd c) with
    | Some (_, m) => let (c1, m') := new_map c (keep_entries keep (mget c m)) in set_handle c1 h (fs, m')
    | None => c end
  end.
Definition crun (l : list cstep) : cow := fold_left cstep_run l cempty.

(* the value-level meaning of each step (values: the nested store of C12) *)
Definition abs_step (stp : cstep) : vstep aut :=
  match stp with
  | CNew h => VNew h init
  | CCopy h s => VCopy h s
  | CMove h s => VMove h s
  | CAdd h r => VMut h (fun a => step a (Add r))
  | CSetFinal h q => VMut h (fun a => step a (SetFinal q))
  | CEraseFinals h => VMut h (fun a => step a EraseFinals)
  | CClear h => VMut h (fun a => step a Clear)
  | CUnshare h => VMut h (fun a => a)
  | CDestroy h => VDestroy h
  | CShareMap h s fs => VLib1 h (fun a => {| st := st a; fin := fs |}) s
  | CShareClusters h s keep fs => VLib1 h (fun a => {| st := keep_entries keep (st a); fin := fs |}) s
  end.
Definition vrun_abs (l : list cstep) : pool aut := vrun pempty (map abs_step l).

(* what is read through a handle: the lookups of ContainsTransition / the iterators *)
Definition clookup (c : cow) (m q a : N) : option tset :=
  match get q (mget c m) with
  | None => None
  | Some cl => match get a (cget c cl) with None => None | Some ts => Some (tget c ts) end
  end.
Definition slookup (s : store) (q a : N) : option tset :=
  match get q s with None => None | Some cl => get a cl end.
Definition cow_contains (c : cow) (h : N) (r : rule) : bool :=
  match get h (hnd c) with
  | Some (_, m) => match clookup c m (par r) (sym r) with Some ts => memT (ch r) ts | None => false end
  | None => false
  end.
