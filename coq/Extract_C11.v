(* extraction root for C11 — no proofs of this property are needed to build this file *)
Require Extraction.
Require Import ExtrOcamlBasic.
From V Require Import Sem Prod.
From V Require TrimDefs Lang.
From V Require Import StoreDefs ReindexDefs ValueDefs.
Extraction "ex_c11.ml" pempty vstep_run t_empty t_add t_setfinal t_erasefinals t_clear t_select t_union_disjoint
  w_empty w_add w_setfinal w_setstart wapp t_obs_eq w_obs_eq w_vis_eq wvisible t_union_gate t_image_gate w_union_gate w_image_gate app_map
  TrimDefs.remove_unreachable TrimDefs.remove_useless states wstates.
