(* extraction root for C04 — no proofs are needed to build this file *)
Require Extraction.
Require Import ExtrOcamlBasic.
From V Require Import Gfp Sem Prod Incl TrimDefs LtsSimDefs TaSimDefs.
Extraction "ex_c04.ml" down_sim up_sim gate_down gate_up gate_equivariant map_pair perm_fun is_perm perm_inv image_ta
  dense_ok trimmed_ok ranked_ok is_reflexive is_transitive rel_same ta_same states all_pairs.
