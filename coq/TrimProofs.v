(* C03 — proofs about the trimming models of TrimDefs.v. *)
From Coq Require Import List NArith Bool Arith Lia.
Import ListNotations.
From V Require Import Fix Sem Prod Incl TrimDefs.

Definition leq (A B : ta) := forall t, accepts A t <-> accepts B t.

(* ---------- generic helpers ---------- *)
Lemma subN_spec l m : subN l m = true <-> incl l m.
Proof. unfold subN. rewrite forallb_forall. split; intros H x Hx; [apply memN_In, H, Hx | apply memN_In, H, Hx]. Qed.

Lemma Forall2_reach_mono (A B : ta) ts cs :
  Forall (fun t => forall q, reach A t q -> reach B t q) ts -> Forall2 (reach A) ts cs -> Forall2 (reach B) ts cs.
Proof. intros HF F. induction F as [|t c ts cs Ht F IH]; constructor; inversion HF; subst; auto. Qed.

Lemma reach_mono (A B : ta) : incl (rules A) (rules B) -> forall t q, reach A t q -> reach B t q.
Proof.
  intros Hsub. induction t as [f ts IH] using tree_ind'. intros q Hr.
  inversion Hr as [f' ts' r Hin Hs HF]; subst. constructor; auto. eapply Forall2_reach_mono; eauto.
Qed.

Lemma equiv_dec_spec A B : equiv_dec A B = true <-> leq A B.
Proof. unfold equiv_dec, leq. rewrite andb_true_iff, !incl_dec_spec. unfold lincl. firstorder. Qed.

(* ---------- top-down reachability ---------- *)
Inductive TdReach (A : ta) : N -> Prop :=
| td_fin q : In q (finals A) -> TdReach A q
| td_child r c : In r (rules A) -> TdReach A (par r) -> In c (ch r) -> TdReach A c.

Lemma td_step_in A S x : In x (td_step A S) <->
  In x (finals A) \/ exists r, In r (rules A) /\ In (par r) S /\ In x (ch r).
Proof.
  unfold td_step. rewrite in_app_iff, in_flat_map. split.
  - intros [H|[r [Hr Hx]]]; auto. right. exists r. destruct (memN (par r) S) eqn:E; [|destruct Hx].
    apply memN_In in E. auto.
  - intros [H|[r [Hr [Hp Hx]]]]; auto. right. exists r. split; auto. apply memN_In in Hp. rewrite Hp. auto.
Qed.

Lemma td_step_mono A S T : incl S T -> incl (td_step A S) (td_step A T).
Proof. intros H x Hx. apply td_step_in in Hx. apply td_step_in. destruct Hx as [Hx|[r [Hr [Hp Hx]]]]; auto.
  right. exists r. auto. Qed.

Lemma td_step_bounded A S : incl S (states A) -> incl (td_step A S) (states A).
Proof. intros _ x Hx. apply td_step_in in Hx. unfold states. apply in_or_app.
  destruct Hx as [Hx|[r [Hr [_ Hx]]]]; auto. left. apply in_flat_map. exists r. simpl; auto. Qed.

Theorem td_reach_spec A q : In q (td_reach A) <-> TdReach A q.
Proof.
  unfold td_reach. rewrite (saturate_lfp N N.eq_dec (td_step A) (td_step_mono A) (states A) (td_step_bounded A)).
  split.
  - intros D. induction D as [S x _ IH Hx]. apply td_step_in in Hx as [Hx|[r [Hr [Hp Hx]]]].
    + apply td_fin; auto.
    + eapply td_child; eauto.
  - intros T. induction T as [q Hq|r c Hr _ IH Hc].
    + apply (der N (td_step A) []). intros y []. apply td_step_in. auto.
    + apply (der N (td_step A) [par r]). intros y [<-|[]]; auto. apply td_step_in. right. exists r. simpl; auto.
Qed.

Lemma td_reach_nodup A : NoDup (td_reach A).
Proof. unfold td_reach. apply saturate_nodup. constructor. Qed.

(* ---------- RemoveUnreachableStates ---------- *)
Lemma restrict_reach A t : forall q, reach A t q -> TdReach A q -> reach (restrict_par (td_reach A) A) t q.
Proof.
  induction t as [f ts IH] using tree_ind'. intros q Hr Hq.
  inversion Hr as [f' ts' r Hin Hs HF]; subst. constructor; auto.
  - simpl. apply filter_In. split; auto. apply memN_In, td_reach_spec; auto.
  - assert (Hc : forall c, In c (ch r) -> TdReach A c) by (intros c Hc; eapply td_child; eauto).
    clear Hr Hin. revert IH Hc. induction HF as [|t c ts cs Ht F IH2]; intros IH Hc; constructor.
    + inversion IH; subst. apply H1; auto. apply Hc; left; auto.
    + inversion IH; subst. apply IH2; auto. intros; apply Hc; right; auto.
Qed.

Lemma restrict_lang A : leq (restrict_par (td_reach A) A) A.
Proof.
  intros t. split; intros [q [Hq Hr]]; exists q; split; auto.
  - eapply reach_mono; [|exact Hr]. simpl. intros r Hin. apply filter_In in Hin. tauto.
  - apply restrict_reach; auto. apply td_fin; auto.
Qed.

Theorem unreach_lang_any sc A : leq (remove_unreachable_with sc A) A.
Proof. unfold remove_unreachable_with. destruct (sc _ _); [intros t; tauto | apply restrict_lang]. Qed.

Lemma restrict_td A q : TdReach A q -> TdReach (restrict_par (td_reach A) A) q.
Proof.
  intros T. induction T as [q Hq|r c Hr Hp IH Hc]; [apply td_fin; auto|].
  apply (td_child _ r); auto. simpl. apply filter_In. split; auto. apply memN_In, td_reach_spec; auto.
Qed.

Lemma owners_in A q : In q (owners A) <-> exists r, In r (rules A) /\ par r = q.
Proof. unfold owners. rewrite nodup_In, in_map_iff. firstorder. Qed.

Lemma filter_nodup {X} (p : X -> bool) l : NoDup l -> NoDup (filter p l).
Proof. induction 1 as [|x l Hx ND IH]; simpl; [constructor|]. destruct (p x); auto. constructor; auto.
  intros H. apply filter_In in H. tauto. Qed.

Lemma shortcut_owners A : shortcut (td_reach A) A = true -> incl (owners A) (td_reach A).
Proof.
  unfold shortcut. intros E. apply Nat.eqb_eq in E.
  set (F := filter (fun q => memN q (owners A)) (td_reach A)) in *.
  assert (HF : incl F (owners A)) by (intros x Hx; apply filter_In in Hx as [_ Hx]; apply memN_In; auto).
  assert (ND : NoDup F) by (apply filter_nodup, td_reach_nodup).
  assert (Hi : incl (owners A) F).
  { apply NoDup_length_incl; auto. lia. }
  intros x Hx. apply Hi in Hx. apply filter_In in Hx. tauto.
Qed.

Lemma all_states_td A : incl (owners A) (td_reach A) -> forall q, In q (states A) -> TdReach A q.
Proof.
  intros H q Hq. unfold states in Hq. apply in_app_or in Hq as [Hq|Hq]; [|apply td_fin; auto].
  apply in_flat_map in Hq as [r [Hr Hq]].
  assert (Hp : TdReach A (par r)) by (apply td_reach_spec, H, owners_in; eauto).
  destruct Hq as [<-|Hc]; auto. eapply td_child; eauto.
Qed.

Theorem unreach_post A : forall q, In q (states (remove_unreachable A)) -> TdReach (remove_unreachable A) q.
Proof.
  unfold remove_unreachable, remove_unreachable_with.
  destruct (shortcut (td_reach A) A) eqn:E.
  - apply all_states_td, shortcut_owners, E.
  - intros q Hq. unfold states in Hq. apply in_app_or in Hq as [Hq|Hq]; [|apply td_fin; auto].
    apply in_flat_map in Hq as [r [Hr Hq]].
    assert (Hr' := Hr). simpl in Hr'. apply filter_In in Hr' as [HrA Hp]. apply memN_In, td_reach_spec in Hp.
    assert (Hp' := restrict_td A _ Hp).
    destruct Hq as [<-|Hc]; auto. eapply td_child; eauto.
Qed.

(* ---------- RemoveUselessStates ---------- *)
Lemma rule_productive_spec P r : rule_productive P r = true <-> forall c, In c (ch r) -> In c P.
Proof. unfold rule_productive. rewrite forallb_forall. split; intros H c Hc; apply memN_In, H, Hc. Qed.

Lemma reach_children_productive A (ts : list tree) r : Forall2 (reach A) ts (ch r) -> forall c, In c (ch r) -> In c (productive A).
Proof. intros F c Hc. apply productive_spec. induction F as [|t c' ts' cs Ht F IH]; [destruct Hc|].
  destruct Hc as [<-|Hc]; eauto. Qed.

Lemma list_sum_ge_len {X} (g : X -> nat) l : (forall x, In x l -> 1 <= g x) -> length l <= list_sum (map g l).
Proof. induction l as [|x l IH]; simpl; intros H; auto. specialize (H x (or_introl eq_refl)) as H1.
  assert (length l <= list_sum (map g l)) by (apply IH; intros; apply H; right; auto). lia. Qed.

Lemma filter_length_le' {X} (p : X -> bool) l : length (filter p l) <= length l.
Proof. induction l as [|a l IH]; simpl; auto. destruct (p a); simpl; lia. Qed.
Lemma filter_same_len' {X} (p : X -> bool) l : length (filter p l) = length l -> forall x, In x l -> p x = true.
Proof.
  induction l as [|a l IH]; simpl; intros E x Hx; [tauto|].
  destruct (p a) eqn:Pa; simpl in E.
  - destruct Hx as [<-|Hx]; auto.
  - pose proof (filter_length_le' p l). lia.
Qed.

(* the `remaining == 0` shortcut is harmless: it can only fire when every rule is productive *)
Lemma remaining_zero A P : remaining A P = 0 -> forall r, In r (rules A) -> rule_productive P r = true.
Proof.
  unfold remaining. intros E r Hr.
  destruct (nonnull r) eqn:Nn.
  2:{ unfold nonnull in Nn. unfold rule_productive. destruct (ch r); [reflexivity|discriminate]. }
  set (NN := filter nonnull (rules A)) in *.
  assert (H1 : length NN <= list_sum (map (fun r => length (nodup N.eq_dec (ch r))) NN)).
  { apply list_sum_ge_len. intros x Hx. apply filter_In in Hx as [_ Hx]. unfold nonnull in Hx.
    destruct (ch x) as [|c cs] eqn:Ec; [discriminate|].
    assert (Hin : In c (nodup N.eq_dec (c :: cs))) by (apply nodup_In; left; auto).
    destruct (nodup N.eq_dec (c :: cs)); [destruct Hin | simpl; lia]. }
  pose proof (filter_length_le' (rule_productive P) NN) as H2.
  apply (filter_same_len' (rule_productive P) NN); [lia|]. apply filter_In; auto.
Qed.

Lemma pp_rules A r : In r (rules (productive_part A)) <-> In r (rules A) /\ rule_productive (productive A) r = true.
Proof.
  unfold productive_part. simpl. destruct (Nat.eqb_spec (remaining A (productive A)) 0) as [E|NE].
  - split; [intros H; split; auto; eapply remaining_zero; eauto | tauto].
  - apply filter_In.
Qed.

Lemma pp_reach A t : forall q, reach (productive_part A) t q <-> reach A t q.
Proof.
  induction t as [f ts IH] using tree_ind'. intros q. split; intros Hr.
  - inversion Hr as [f' ts' r Hin Hs HF]; subst. apply pp_rules in Hin as [Hin _]. constructor; auto.
    eapply Forall2_reach_mono; [|exact HF]. eapply Forall_impl; [|exact IH]. intros t H q. apply H.
  - inversion Hr as [f' ts' r Hin Hs HF]; subst. constructor; auto.
    + apply pp_rules. split; auto. apply rule_productive_spec. eapply reach_children_productive; eauto.
    + eapply Forall2_reach_mono; [|exact HF]. eapply Forall_impl; [|exact IH]. intros t H q. apply H.
Qed.

Lemma pp_lang A : leq (productive_part A) A.
Proof.
  intros t. split; intros [q [Hq Hr]]; exists q.
  - simpl in Hq. apply filter_In in Hq as [Hq _]. split; auto. apply pp_reach; auto.
  - split; [|apply pp_reach; auto]. simpl. apply filter_In. split; auto. apply memN_In, productive_spec. eauto.
Qed.

Theorem useless_lang A : leq (remove_useless A) A.
Proof. intros t. unfold remove_useless. rewrite (unreach_lang_any shortcut (productive_part A) t). apply pp_lang. Qed.

Lemma pp_productive A q : In q (productive (productive_part A)) <-> In q (productive A).
Proof. rewrite !productive_spec. split; intros [t Ht]; exists t; apply pp_reach; auto. Qed.

Lemma pp_states_productive A q : In q (states (productive_part A)) -> In q (productive A).
Proof.
  intros Hq. unfold states in Hq. apply in_app_or in Hq as [Hq|Hq].
  - apply in_flat_map in Hq as [r [Hr Hq]]. apply pp_rules in Hr as [Hr Hp].
    assert (Hc := proj1 (rule_productive_spec _ _) Hp).
    destruct Hq as [<-|Hc']; auto.
    apply productive_spec.
    destruct (children_trees A (fun c => In c (productive A)) (fun c H => proj1 (productive_spec A c) H) (ch r) Hc) as [ts Hts].
    exists (Node (sym r) ts). constructor; auto.
  - simpl in Hq. apply filter_In in Hq as [_ Hq]. apply memN_In; auto.
Qed.

(* a state that is both productive and top-down reachable stays productive after pruning *)
Lemma unreach_productive A q : TdReach A q -> In q (productive A) -> In q (productive (remove_unreachable A)).
Proof.
  intros T Hp. unfold remove_unreachable, remove_unreachable_with. destruct (shortcut _ _); auto.
  apply productive_spec in Hp as [t Ht]. apply productive_spec. exists t. apply restrict_reach; auto.
Qed.

Lemma unreach_rules_sub A : incl (rules (remove_unreachable A)) (rules A).
Proof. unfold remove_unreachable, remove_unreachable_with. destruct (shortcut _ _); [apply incl_refl|].
  simpl. intros r Hr. apply filter_In in Hr. tauto. Qed.
Lemma unreach_finals A : finals (remove_unreachable A) = finals A.
Proof. unfold remove_unreachable, remove_unreachable_with. destruct (shortcut _ _); reflexivity. Qed.

Lemma unreach_td_back A q : TdReach (remove_unreachable A) q -> TdReach A q.
Proof.
  intros T. induction T as [q Hq|r c Hr _ IH Hc].
  - apply td_fin. rewrite unreach_finals in Hq; auto.
  - eapply td_child; eauto. apply unreach_rules_sub; auto.
Qed.

Lemma states_sub A B : incl (rules A) (rules B) -> incl (finals A) (finals B) -> incl (states A) (states B).
Proof. intros H1 H2 q Hq. unfold states in *. apply in_app_or in Hq as [Hq|Hq]; apply in_or_app; auto.
  left. apply in_flat_map in Hq as [r [Hr Hq]]. apply in_flat_map. exists r; auto. Qed.

Theorem useless_post A :
  let L := remove_useless A in
  (forall r, In r (rules L) -> TdReach L (par r) /\ forall c, In c (ch r) -> In c (productive L)) /\
  (forall q, In q (states L) -> TdReach L q /\ In q (productive L)).
Proof.
  intros L. set (PP := productive_part A).
  assert (HS : forall q, In q (states L) -> TdReach L q /\ In q (productive L)).
  { intros q Hq. assert (T := unreach_post PP q Hq). split; auto.
    apply unreach_productive; [apply unreach_td_back; auto|].
    apply pp_productive, pp_states_productive.
    eapply states_sub; [apply unreach_rules_sub | rewrite unreach_finals; apply incl_refl | exact Hq]. }
  split; auto.
  intros r Hr. split.
  - apply HS. unfold states. apply in_or_app. left. apply in_flat_map. exists r. simpl; auto.
  - intros c Hc. apply HS. unfold states. apply in_or_app. left. apply in_flat_map. exists r. simpl; auto.
Qed.

(* ---------- IsLangEmpty ---------- *)
Theorem is_lang_empty_spec A : is_lang_empty A = true <-> forall t, ~ accepts A t.
Proof.
  rewrite <- is_empty_spec. unfold is_lang_empty, remove_useless. rewrite unreach_finals. simpl.
  unfold is_empty. rewrite negb_true_iff. split.
  - intros H. destruct (filter _ _) eqn:E; [|discriminate].
    destruct (existsb _ _) eqn:E2; auto. apply existsb_exists in E2 as [q [Hq Hm]].
    assert (In q (filter (fun q => memN q (productive A)) (finals A))) by (apply filter_In; auto).
    rewrite E in H0. destruct H0.
  - intros H. destruct (filter _ _) as [|q l] eqn:E; auto.
    assert (Hin : In q (filter (fun q => memN q (productive A)) (finals A))) by (rewrite E; left; auto).
    apply filter_In in Hin. assert (existsb (fun q => memN q (productive A)) (finals A) = true).
    { apply existsb_exists. exists q. tauto. } congruence.
Qed.

(* ---------- the gates ---------- *)
Theorem gate_unreach_sound A U : gate_unreach A U = true ->
  leq U A /\ forall q, In q (states U) -> TdReach U q.
Proof. unfold gate_unreach, no_unreachable. rewrite andb_true_iff, equiv_dec_spec, subN_spec.
  intros [H1 H2]. split; auto. intros q Hq. apply td_reach_spec, H2, Hq. Qed.

Theorem gate_unreach_complete A U : leq U A -> (forall q, In q (states U) -> TdReach U q) -> gate_unreach A U = true.
Proof. intros H1 H2. unfold gate_unreach, no_unreachable. rewrite andb_true_iff, equiv_dec_spec, subN_spec.
  split; auto. intros q Hq. apply td_reach_spec, H2, Hq. Qed.

Definition useless_postcond (L : ta) :=
  (forall r, In r (rules L) -> TdReach L (par r) /\ forall c, In c (ch r) -> exists t, reach L t c) /\
  (forall q, In q (states L) -> TdReach L q /\ exists t, reach L t q).

Lemma no_useless_spec L : no_useless L = true <-> useless_postcond L.
Proof.
  unfold no_useless, useless_postcond. rewrite andb_true_iff, !forallb_forall. unfold rule_useful, state_useful.
  split; intros [H1 H2]; split.
  - intros r Hr. specialize (H1 r Hr). apply andb_true_iff in H1 as [Ha Hb]. split.
    + apply td_reach_spec, memN_In, Ha.
    + intros c Hc. apply productive_spec. apply (proj1 (rule_productive_spec _ _) Hb c Hc).
  - intros q Hq. specialize (H2 q Hq). apply andb_true_iff in H2 as [Ha Hb]. split.
    + apply td_reach_spec, memN_In, Ha.
    + apply productive_spec, memN_In, Hb.
  - intros r Hr. destruct (H1 r Hr) as [Ha Hb]. apply andb_true_iff. split.
    + apply memN_In, td_reach_spec, Ha.
    + apply rule_productive_spec. intros c Hc. apply productive_spec. auto.
  - intros q Hq. destruct (H2 q Hq) as [Ha Hb]. apply andb_true_iff. split.
    + apply memN_In, td_reach_spec, Ha.
    + apply memN_In, productive_spec, Hb.
Qed.

Theorem gate_useless_spec A L : gate_useless A L = true <-> leq L A /\ useless_postcond L.
Proof. unfold gate_useless. rewrite andb_true_iff, equiv_dec_spec, no_useless_spec. tauto. Qed.

Theorem gate_empty_spec A e : gate_empty A e = true <-> (e = true <-> forall t, ~ accepts A t).
Proof. unfold gate_empty. rewrite <- is_empty_spec. destruct e, (is_empty A); simpl; intuition congruence. Qed.

(* the models pass their own gates: an implementation that agrees with the model raises no alarm *)
Theorem model_unreach_passes A : gate_unreach A (remove_unreachable A) = true.
Proof. apply gate_unreach_complete; [apply unreach_lang_any | apply unreach_post]. Qed.

Theorem model_useless_passes A : gate_useless A (remove_useless A) = true.
Proof.
  apply gate_useless_spec. split; [apply useless_lang|].
  destruct (useless_post A) as [H1 H2]. split.
  - intros r Hr. destruct (H1 r Hr) as [Ha Hb]. split; auto. intros c Hc. apply productive_spec; auto.
  - intros q Hq. destruct (H2 q Hq) as [Ha Hb]. split; auto. apply productive_spec; auto.
Qed.

Theorem model_empty_passes A : gate_empty A (is_lang_empty A) = true.
Proof. apply gate_empty_spec, is_lang_empty_spec. Qed.

(* ---------- the historical size-comparison shortcut violates the post-condition ---------- *)
(* final state 5 owns no rule, rule a() -> 7: one reachable state, one rule owner, different sets *)
Definition old_shortcut_witness : ta := {| rules := [ {| sym := 0; ch := []; par := 7 |} ]; finals := [5%N] |}.
Theorem C03_old_shortcut_refuted :
  exists A, no_unreachable (remove_unreachable_old A) = false.
Proof. exists old_shortcut_witness. vm_compute. reflexivity. Qed.
