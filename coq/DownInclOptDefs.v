(* C01 / C07 (A) increment — the recursive downward inclusion algorithm with the IMPLICATION CACHE (OptDownwardInclusionFunctor,
   src/down_tree_opt_incl_fctor.hh): every positive answer comes with its ANTECEDENT, the goals open on the call stack that were used
   as hypotheses to obtain it, and with its CONSEQUENTS, the goals proved on the way under those hypotheses. When the expansion of a
   goal succeeds, the goal itself leaves the antecedent (coinduction) and joins the consequents; when the antecedent becomes empty the
   consequents are promoted to the global cache of unconditional inclusions, which every later call may use.
     careless = false : promotion only with an empty antecedent (libvata's discipline);
     careless = true  : consequents are promoted at once, whatever the antecedent.
   State passing, fuel as in DownIncl.v; None = out of fuel. *)
From Coq Require Import List NArith Bool Arith Lia.
Import ListNotations.
From V Require Import Fix Sem Prod Incl TrimDefs Lang InclDefs ComplDefs ComplModel DownIncl DownInclCacheDefs.

Definition goal := (N * list N)%type.
Definition hit (q : N) (S : list N) (p : goal) : bool := N.eqb (fst p) q && subN (snd p) S.
Definition same_goal (g h : goal) : bool := N.eqb (fst g) (fst h) && subN (snd g) (snd h) && subN (snd h) (snd g).

Record ores := { ok : bool; deps : list goal; cons : list goal; gc : list goal }.
(* the state threaded through one expansion: antecedent collected so far, consequents collected so far, global cache *)
Definition ost := (list goal * list goal * list goal)%type.

Section Folds.
  Context {X ST : Type}.
  Fixpoint forall_s (f : X -> ST -> option (bool * ST)) (l : list X) (C : ST) : option (bool * ST) :=
    match l with
    | [] => Some (true, C)
    | x :: r => match f x C with Some (true, C') => forall_s f r C' | Some (false, C') => Some (false, C') | None => None end
    end.
  Fixpoint exists_s (f : X -> ST -> option (bool * ST)) (l : list X) (C : ST) : option (bool * ST) :=
    match l with
    | [] => Some (false, C)
    | x :: r => match f x C with Some (false, C') => exists_s f r C' | Some (true, C') => Some (true, C') | None => None end
    end.
End Folds.

Fixpoint downo (careless : bool) (A B : ta) (fuel : nat) (q : N) (S : list N) (W G : list goal) : option ores :=
  match fuel with
  | 0 => None
  | Datatypes.S f =>
      match find (hit q S) W with
      | Some h => Some {| ok := true; deps := [h]; cons := []; gc := G |}
      | None =>
        if existsb (hit q S) G then Some {| ok := true; deps := []; cons := []; gc := G |} else
        match forall_s (fun r (st : ost) =>
                if negb (N.eqb (par r) q) then Some (true, st) else
                let k := length (ch r) in
                let T := tuplesB B S (sym r) k in
                match k with
                | 0 => Some (negb (is_nil T), st)
                | _ => forall_s (fun c st1 => exists_s (fun i (st2 : ost) =>
                           match downo careless A B f (nth i (ch r) 0%N) (pick T c i) ((q, S) :: W) (snd st2) with
                           | Some r' => if ok r' then Some (true, (deps r' ++ fst (fst st2), cons r' ++ snd (fst st2), gc r'))
                                        else Some (false, (fst (fst st2), snd (fst st2), gc r'))
                           | None => None
                           end) (seq 0 k) st1)
                         (all_choices (length T) k) st
                end) (rules A) ([], [], G)
        with
        | Some (true, (D, Cn, G1)) =>
            let D' := filter (fun h => negb (same_goal (q, S) h)) D in
            let Cn' := (q, S) :: Cn in
            if is_nil D' || careless then Some {| ok := true; deps := D'; cons := []; gc := Cn' ++ G1 |}
            else Some {| ok := true; deps := D'; cons := Cn'; gc := G1 |}
        | Some (false, (_, _, G1)) => Some {| ok := false; deps := []; cons := []; gc := G1 |}
        | None => None
        end
      end
  end.

Definition downo_incl (careless : bool) (A B : ta) (fuel : nat) : option bool :=
  match forall_s (fun q (G : list goal) => match downo careless A B fuel q (finals B) [] G with
                                           | Some r => Some (ok r, gc r) | None => None end) (finals A) [] with
  | Some (b, _) => Some b
  | None => None
  end.
