From Coq Require Import List NArith Bool Lia.
Import ListNotations.
From V Require Import Fix Sem Prod Incl TrimDefs TrimProofs Lang CandDefs.

Definition cand_prop (A R : ta) := (forall t, accepts R t -> accepts A t) /\ ((exists t, accepts A t) -> exists t, accepts R t).

Lemma nonempty_spec A : is_empty A = false <-> exists t, accepts A t.
Proof.
  split.
  - intros H. unfold is_empty in H. apply negb_false_iff in H. apply existsb_exists in H as [q [Hq Hp]].
    apply memN_In, productive_spec in Hp as [t Ht]. exists t, q; auto.
  - intros [t Ht]. destruct (is_empty A) eqn:E; auto. exfalso. apply (proj1 (is_empty_spec A) E t Ht).
Qed.

Theorem cand_gate_spec A R : cand_gate A R = true <-> cand_prop A R.
Proof.
  unfold cand_gate, cand_prop. rewrite andb_true_iff, incl_dec_spec, orb_true_iff, negb_true_iff. unfold lincl. split.
  - intros [H1 [H2|H2]]; split; auto.
    + intros [t Ht]. exfalso. apply (proj1 (is_empty_spec A) H2 t Ht).
    + intros _. apply nonempty_spec; auto.
  - intros [H1 H2]. split; auto. destruct (is_empty A) eqn:E; auto. right. apply nonempty_spec. apply H2. apply nonempty_spec; auto.
Qed.

Lemma rule_eqb_spec r s : rule_eqb r s = true <-> r = s.
Proof.
  unfold rule_eqb. destruct r as [f cs p], s as [g ds q]. simpl. rewrite !andb_true_iff, !N.eqb_eq.
  assert (L : forall a b : list N, (fix leq (a b : list N) := match a, b with
     | [], [] => true | x :: a', y :: b' => N.eqb x y && leq a' b' | _, _ => false end) a b = true <-> a = b).
  { induction a as [|x a IH]; intros [|y b]; split; intros H; try discriminate; auto.
    - apply andb_true_iff in H as [H1 H2]. apply N.eqb_eq in H1. apply IH in H2. subst; auto.
    - inversion H; subst. apply andb_true_iff. split; [apply N.eqb_refl | apply IH; auto]. }
  rewrite L. split; [intros [[-> ->] ->]; auto | intros H; inversion H; auto].
Qed.
Lemma subR_spec l m : subR l m = true <-> incl l m.
Proof.
  unfold subR, memR. rewrite forallb_forall. split; intros H r Hr; specialize (H r Hr).
  - apply existsb_exists in H as [s [Hs E]]. apply rule_eqb_spec in E. subst; auto.
  - apply existsb_exists. exists r. split; auto. apply rule_eqb_spec; auto.
Qed.

(* a sub-automaton accepts a sub-language *)
Theorem cand_sub_lang A R : cand_sub A R = true -> forall t, accepts R t -> accepts A t.
Proof.
  unfold cand_sub. rewrite andb_true_iff, subR_spec, subN_spec. intros [H1 H2] t [q [Hq Rq]].
  exists q. split; auto. eapply reach_mono; eauto.
Qed.

Theorem candidate_ok_sound A R : candidate_ok A R = true -> cand_prop A R.
Proof.
  unfold candidate_ok. rewrite andb_true_iff. intros [H1 H2]. apply cand_gate_spec. unfold cand_gate.
  rewrite H2, andb_true_r. apply incl_dec_spec. intros t. apply cand_sub_lang; auto.
Qed.

Example cand_example :
  let A := {| rules := [ {| sym := 0; ch := []; par := 0 |}; {| sym := 2; ch := [0%N]; par := 1 |}; {| sym := 2; ch := [1%N]; par := 1 |} ]; finals := [1%N] |} in
  let R := {| rules := [ {| sym := 0; ch := []; par := 0 |}; {| sym := 2; ch := [0%N]; par := 1 |} ]; finals := [1%N] |} in
  candidate_ok A R = true /\ cand_gate A R = true /\ cand_gate A {| rules := []; finals := [] |} = false.
Proof. vm_compute. repeat split; reflexivity. Qed.
