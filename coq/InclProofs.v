From Coq Require Import List NArith Bool Lia.
Import ListNotations.
From V Require Import Fix Sem Prod Incl TrimDefs TrimProofs Lang InclDefs.

Lemma lincl_leq A A' B B' : leq A' A -> leq B' B -> (lincl A' B' <-> lincl A B).
Proof. intros HA HB. unfold lincl. split; intros H t Ht; apply HB; apply H; apply HA; auto. Qed.

Theorem incl_model_exact v A B : incl_model v A B = true <-> lincl A B.
Proof. unfold incl_model. rewrite incl_dec_spec. apply lincl_leq; apply useless_lang. Qed.

Theorem incl_model_agree v w A B : incl_model v A B = incl_model w A B.
Proof. reflexivity. Qed.

Theorem gate_verdict_spec A B b : gate_verdict A B b = true <-> (b = true <-> lincl A B).
Proof.
  unfold gate_verdict. rewrite <- incl_dec_spec. destruct b, (incl_dec A B); simpl; split; intros H; auto; try discriminate.
  - split; auto.
  - destruct H as [H _]. specialize (H eq_refl). discriminate.
  - destruct H as [_ H]. specialize (H eq_refl). discriminate.
  - split; intros; discriminate.
Qed.

Theorem model_passes_gate v A B : gate_verdict A B (incl_model v A B) = true.
Proof. apply gate_verdict_spec. rewrite incl_model_exact. tauto. Qed.

Theorem prepared_lang_spec A B A' B' : prepared_lang A B A' B' = true -> (lincl A' B' <-> lincl A B).
Proof. unfold prepared_lang. rewrite andb_true_iff, !equiv_dec_spec. intros [HA HB]. apply lincl_leq; auto. Qed.

Lemma is_nil_spec {X} (l : list X) : is_nil l = true <-> l = [].
Proof. destruct l; simpl; split; auto; discriminate. Qed.

Theorem leaf_match_spec B a S : leaf_match B a S = true <-> exists p, In p S /\ reach B (Node a []) p.
Proof.
  unfold leaf_match, owns_leaf. rewrite existsb_exists. split.
  - intros [p [Hp H]]. apply existsb_exists in H as [r [Hr H]]. apply andb_true_iff in H as [H H3].
    apply andb_true_iff in H as [H1 H2]. apply N.eqb_eq in H1, H2. apply is_nil_spec in H3.
    exists p. split; auto. subst. constructor; auto. rewrite H3. constructor.
  - intros [p [Hp R]]. exists p. split; auto. inversion R as [f ts r Hr Hs HF]; subst.
    apply existsb_exists. exists r. split; auto. rewrite !N.eqb_refl. simpl. inversion HF; subst. reflexivity.
Qed.

(* the branch as it was before the fix accepted a leaf of the smaller automaton whenever some state of the
   macro-state owned any rule at all *)
Theorem leaf_match_old_refuted : exists B a S, leaf_match_old B a S = true /\ ~ exists p, In p S /\ reach B (Node a []) p.
Proof.
  exists {| rules := [ {| sym := 1; ch := []; par := 0 |} ]; finals := [0%N] |}, 0%N, [0%N]. split; [vm_compute; reflexivity|].
  intros [p [Hp R]]. inversion R as [f ts r Hr Hs HF]; subst. simpl in Hr. destruct Hr as [<-|[]]. simpl in Hs. discriminate.
Qed.

(* non-vacuity: a pair that needs a non-singleton macro-state, a pair with a missing leaf symbol *)
Example incl_needs_macro :
  let A := {| rules := [ {| sym := 0; ch := []; par := 0 |}; {| sym := 2; ch := [0%N]; par := 1 |} ]; finals := [1%N] |} in
  let B := {| rules := [ {| sym := 0; ch := []; par := 0 |}; {| sym := 0; ch := []; par := 1 |};
                         {| sym := 2; ch := [1%N]; par := 2 |} ]; finals := [2%N] |} in
  incl_model 0 A B = true /\ incl_model 0 B A = true.
Proof. vm_compute. split; reflexivity. Qed.
Example incl_missing_leaf :
  incl_model 0 {| rules := [ {| sym := 0; ch := []; par := 0 |} ]; finals := [0%N] |}
               {| rules := [ {| sym := 1; ch := []; par := 0 |} ]; finals := [0%N] |} = false.
Proof. vm_compute. reflexivity. Qed.
