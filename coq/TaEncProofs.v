(* C04 — the two LTS encodings of src/explicit_tree_transl.hh are correct: the greatest LTS simulation of the
   encoded system, read back through the state index, is the greatest downward / upward simulation. *)
From Coq Require Import List NArith Bool Arith Lia.
Import ListNotations.
From V Require Import Gfp Sem Prod Incl TrimDefs TrimProofs Lang LtsSimDefs LtsSimProofs TaSimDefs TaSimProofs TaEncDefs.

(* ---------- list helpers ---------- *)
Lemma Forall2_nth_error {X} (P : X -> X -> Prop) : forall l m, length l = length m ->
  (forall i x y, nth_error l i = Some x -> nth_error m i = Some y -> P x y) -> Forall2 P l m.
Proof.
  induction l as [|a l IH]; destruct m as [|b m]; simpl; intros HL H; try discriminate; constructor.
  - apply (H 0); auto.
  - apply IH; [lia|]. intros i x y Hx Hy. apply (H (S i)); auto.
Qed.
Lemma Forall2_nth_error_l {X} (P : X -> X -> Prop) l m : Forall2 P l m ->
  forall i x, nth_error l i = Some x -> exists y, nth_error m i = Some y /\ P x y.
Proof. intros F. induction F as [|a b l m Hab F IH]; intros i x Hx; destruct i; simpl in *; try discriminate.
  - inversion Hx; subst. eauto.
  - apply IH; auto. Qed.
Lemma Forall2_length {X Y} (P : X -> Y -> Prop) l m : Forall2 P l m -> length l = length m.
Proof. intros F; induction F; simpl; auto. Qed.
Lemma nth_error_map_some {X Y} (f : X -> Y) l i y : nth_error (map f l) i = Some y -> exists x, nth_error l i = Some x /\ y = f x.
Proof. revert i. induction l as [|a l IH]; intros [|i]; simpl; intros H; try discriminate.
  - inversion H. eauto.
  - apply IH; auto. Qed.

Definition ranked (A : ta) : Prop :=
  forall p p', In p (rules A) -> In p' (rules A) -> sym p = sym p' -> length (ch p) = length (ch p').
Lemma ranked_ok_spec A : ranked_ok A = true -> ranked A.
Proof. unfold ranked_ok. rewrite forallb_forall. intros H p p' Hp Hp' E. specialize (H p Hp). rewrite forallb_forall in H.
  specialize (H p' Hp'). rewrite E, N.eqb_refl in H. apply Nat.eqb_eq; auto. Qed.

(* =====================================================================================
   downward
   ===================================================================================== *)
Lemma tuple_edges_In nsym t : forall cs s e, In e (tuple_edges nsym t s cs) <->
  exists i c, nth_error cs i = Some c /\ e = (t, (nsym + (s + N.of_nat i))%N, c).
Proof.
  induction cs as [|c cs IH]; intros s e; simpl.
  - split; [tauto | intros [[|i] [c [H _]]]; discriminate].
  - rewrite IH. split.
    + intros [<-|[i [c' [H ->]]]].
      * exists 0, c. simpl. split; auto. do 2 f_equal; lia.
      * exists (S i), c'. simpl. split; auto. do 2 f_equal; lia.
    + intros [[|i] [c' [H ->]]]; simpl in H.
      * inversion H; subst. left. do 2 f_equal; simpl; lia.
      * right. exists i, c'. split; auto. do 2 f_equal; lia.
Qed.

Definition unary (p : rule) : Prop := length (ch p) = 1.

Lemma classic_unary p : (exists c, ch p = [c]) \/ ~ unary p.
Proof. unfold unary. destruct (ch p) as [|c [|c' cs]]; simpl; [right; lia | left; eauto | right; lia]. Qed.

Lemma down_rule_edges_In X p e : In e (down_rule_edges X p) <->
  (exists c, ch p = [c] /\ e = (d_idx X (par p), d_sidx X (sym p), d_idx X c)) \/
  (~ unary p /\ e = (d_idx X (par p), d_sidx X (sym p), d_tidx X (ch p))) \/
  (~ unary p /\ exists i c, nth_error (ch p) i = Some c /\ e = (d_tidx X (ch p), (d_nsym X + N.of_nat i)%N, d_idx X c)).
Proof.
  unfold down_rule_edges, unary. destruct (ch p) as [|c [|c' cs]] eqn:E.
  - simpl. split.
    + intros [<-|[]]. right; left. split; auto.
    + intros [[c [H _]]|[[_ ->]|[_ [[|i] [c [H _]]]]]]; try discriminate; auto.
  - simpl. split.
    + intros [<-|[]]. left. eauto.
    + intros [[c0 [H ->]]|[[H _]|[H _]]]; [inversion H; auto | exfalso; apply H; auto ..].
  - set (l := c :: c' :: cs) in *. assert (NU : length l <> 1) by (simpl; lia).
    cbn [In]. rewrite tuple_edges_In. split.
    + intros [<-|[i [x [H ->]]]].
      * right; left. auto.
      * right; right. split; auto. apply nth_error_map_some in H as [y [Hy ->]]. exists i, y. split; auto.
    + intros [[c0 [H _]]|[[_ ->]|[_ [i [x [H ->]]]]]]; [discriminate | left; auto | right].
      exists i, (d_idx X x). split; auto. rewrite nth_error_map, H. reflexivity.
Qed.

Lemma translate_down_In X A e : In e (translate_down X A) <-> exists p, In p (rules A) /\ In e (down_rule_edges X p).
Proof. unfold translate_down. apply in_flat_map. Qed.

(* validity of the indices built by TranslateDownward *)
Record down_ok (X : dix) (A : ta) (n N : nat) : Prop := {
  dk_lt : forall x, (x < N.of_nat n)%N -> (d_idx X x < N.of_nat n)%N;
  dk_inj : forall x y, (x < N.of_nat n)%N -> (y < N.of_nat n)%N -> d_idx X x = d_idx X y -> x = y;
  dk_sinj : forall p p', In p (rules A) -> In p' (rules A) -> d_sidx X (sym p) = d_sidx X (sym p') -> sym p = sym p';
  dk_slt : forall p, In p (rules A) -> (d_sidx X (sym p) < d_nsym X)%N;
  dk_tinj : forall p p', In p (rules A) -> In p' (rules A) -> ~ unary p -> ~ unary p' ->
              d_tidx X (ch p) = d_tidx X (ch p') -> ch p = ch p';
  dk_trng : forall p, In p (rules A) -> ~ unary p -> (N.of_nat n <= d_tidx X (ch p) < N.of_nat N)%N;
  dk_nN : n <= N
}.

Section Down.
Variables (X : dix) (A : ta) (n NN : nat).
Hypothesis Hbelow : states_below A n.
Hypothesis Hranked : ranked A.
Hypothesis Hok : down_ok X A n NN.
Let L := translate_down X A.
Let idx := d_idx X.

Lemma par_lt p : In p (rules A) -> (par p < N.of_nat n)%N.
Proof. intros Hp. apply Hbelow, (proj1 (rule_states A p Hp)). Qed.
Lemma ch_lt p c : In p (rules A) -> In c (ch p) -> (c < N.of_nat n)%N.
Proof. intros Hp Hc. apply Hbelow, (proj2 (rule_states A p Hp)), Hc. Qed.

(* edges leaving a state node idx r : exactly the rule edges of the rules with parent r *)
Lemma edges_from_state r a y : (r < N.of_nat n)%N -> In (idx r, a, y) L ->
  exists p, In p (rules A) /\ par p = r /\ a = d_sidx X (sym p) /\
            ((exists c, ch p = [c] /\ y = idx c) \/ (~ unary p /\ y = d_tidx X (ch p))).
Proof.
  intros Hr He. apply translate_down_In in He as [p [Hp He]]. apply down_rule_edges_In in He.
  destruct He as [[c [Hc E]]|[[NU E]|[NU [i [c [Hc E]]]]]]; inversion E; subst.
  - exists p. repeat split; auto. apply (dk_inj _ _ _ _ Hok); auto. apply par_lt; auto. left. eauto.
  - exists p. repeat split; auto. apply (dk_inj _ _ _ _ Hok); auto. apply par_lt; auto.
  - exfalso. pose proof (dk_trng _ _ _ _ Hok p Hp NU). pose proof (dk_lt _ _ _ _ Hok r Hr). unfold idx in *. lia.
Qed.

(* edges leaving a tuple node *)
Lemma edges_from_tuple p a y : In p (rules A) -> ~ unary p -> In (d_tidx X (ch p), a, y) L ->
  exists i c, nth_error (ch p) i = Some c /\ a = (d_nsym X + N.of_nat i)%N /\ y = idx c.
Proof.
  intros Hp NU He. apply translate_down_In in He as [p' [Hp' He]]. apply down_rule_edges_In in He.
  pose proof (dk_trng _ _ _ _ Hok p Hp NU) as Hr.
  destruct He as [[c [Hc E]]|[[NU' E]|[NU' [i [c [Hc E]]]]]]; inversion E; subst.
  - exfalso. pose proof (dk_lt _ _ _ _ Hok _ (par_lt p' Hp')). lia.
  - exfalso. pose proof (dk_lt _ _ _ _ Hok _ (par_lt p' Hp')). lia.
  - assert (ch p = ch p') by (apply (dk_tinj _ _ _ _ Hok); auto). exists i, c. rewrite H. auto.
Qed.

Lemma rule_edge_unary p c : In p (rules A) -> ch p = [c] -> In (idx (par p), d_sidx X (sym p), idx c) L.
Proof. intros Hp Hc. apply translate_down_In. exists p. split; auto. apply down_rule_edges_In. left. eauto. Qed.
Lemma rule_edge_tuple p : In p (rules A) -> ~ unary p -> In (idx (par p), d_sidx X (sym p), d_tidx X (ch p)) L.
Proof. intros Hp NU. apply translate_down_In. exists p. split; auto. apply down_rule_edges_In. right; left. auto. Qed.
Lemma tuple_edge p i c : In p (rules A) -> ~ unary p -> nth_error (ch p) i = Some c ->
  In (d_tidx X (ch p), (d_nsym X + N.of_nat i)%N, idx c) L.
Proof. intros Hp NU Hc. apply translate_down_In. exists p. split; auto. apply down_rule_edges_In. right; right. split; auto. eauto. Qed.

Let SL := rel_of (lts_sim_default L NN).
Let D := rel_of (down_sim A n).

(* LTS simulation, read back, is a downward simulation *)
Lemma down_from_lts : down_simulation A (fun q r => (q < N.of_nat n)%N /\ (r < N.of_nat n)%N /\ SL (idx q) (idx r)).
Proof.
  destruct (lts_sim_default_greatest L NN) as [[_ Hsim] _]. fold SL in Hsim.
  intros q r [Hq [Hr HS]] p Hp Hpq. subst q.
  destruct (classic_unary p) as [[c Hc]|NU].
  - pose proof (rule_edge_unary p c Hp Hc) as He.
    destruct (Hsim _ _ HS _ _ He) as [y [He' HS']].
    apply edges_from_state in He' as [p' [Hp' [Epar [Esym Hy]]]]; auto.
    assert (Es : sym p' = sym p) by (symmetry; apply (dk_sinj _ _ _ _ Hok); auto).
    assert (EL : length (ch p') = length (ch p)) by (apply Hranked; auto).
    destruct Hy as [[c' [Hc' ->]]|[NU' _]].
    + exists p'. repeat split; auto. rewrite Hc, Hc'. constructor; [|constructor].
      repeat split; auto; [apply (ch_lt p) | apply (ch_lt p')]; auto; [rewrite Hc | rewrite Hc']; left; auto.
    + exfalso. apply NU'. unfold unary. rewrite EL, Hc. reflexivity.
  - pose proof (rule_edge_tuple p Hp NU) as He.
    destruct (Hsim _ _ HS _ _ He) as [y [He' HS']].
    apply edges_from_state in He' as [p' [Hp' [Epar [Esym Hy]]]]; auto.
    assert (Es : sym p' = sym p) by (symmetry; apply (dk_sinj _ _ _ _ Hok); auto).
    assert (EL : length (ch p') = length (ch p)) by (apply Hranked; auto).
    destruct Hy as [[c' [Hc' ->]]|[NU' ->]].
    + exfalso. apply NU. unfold unary. rewrite <- EL, Hc'. reflexivity.
    + exists p'. repeat split; auto. apply Forall2_nth_error; auto.
      intros i x y Hx Hy. pose proof (tuple_edge p i x Hp NU Hx) as Ht.
      destruct (Hsim _ _ HS' _ _ Ht) as [z [Ht' HSz]].
      apply edges_from_tuple in Ht' as [j [c' [Hc' [Ej ->]]]]; auto.
      assert (j = i) by lia. subst j. rewrite Hy in Hc'. inversion Hc'; subst c'.
      repeat split; auto; [apply (ch_lt p) | apply (ch_lt p')]; auto; eapply nth_error_In; eauto.
Qed.

(* downward simulation, pushed through the index, is an LTS simulation *)
Definition tuple_node (cs : list N) : Prop := exists p, In p (rules A) /\ ~ unary p /\ ch p = cs.
Definition S_down : relN := fun x y =>
  (exists q r, D q r /\ x = idx q /\ y = idx r) \/
  (exists cs cs', tuple_node cs /\ tuple_node cs' /\ Forall2 D cs cs' /\ x = d_tidx X cs /\ y = d_tidx X cs').

Lemma S_down_within : within NN S_down.
Proof.
  destruct (down_sim_greatest A n) as [[Hw _] _]. pose proof (dk_nN _ _ _ _ Hok).
  intros x y [[q [r [HD [-> ->]]]]|[cs [cs' [[p [Hp [NU <-]]] [[p' [Hp' [NU' <-]]] [_ [-> ->]]]]]]].
  - destruct (Hw _ _ HD) as [Hq Hr]. pose proof (dk_lt _ _ _ _ Hok _ Hq). pose proof (dk_lt _ _ _ _ Hok _ Hr). unfold idx. lia.
  - pose proof (dk_trng _ _ _ _ Hok p Hp NU). pose proof (dk_trng _ _ _ _ Hok p' Hp' NU'). lia.
Qed.

Lemma S_down_sim : simulation L S_down.
Proof.
  destruct (down_sim_greatest A n) as [[Hw Hsim] _]. fold D in Hw, Hsim.
  intros x y HS a x' He. apply translate_down_In in He as [p [Hp He]]. apply down_rule_edges_In in He.
  destruct He as [[c [Hc E]]|[[NU E]|[NU [i [c [Hc E]]]]]]; inversion E; subst; clear E.
  - (* unary rule edge *)
    destruct HS as [[q [r [HD [Eq ->]]]]|[cs [cs' [[p0 [Hp0 [NU0 <-]]] [_ [_ [Eq _]]]]]]].
    + destruct (Hw _ _ HD) as [Hq Hr]. apply (dk_inj _ _ _ _ Hok) in Eq; auto; [|apply par_lt; auto]. subst q.
      destruct (Hsim _ _ HD p Hp eq_refl) as [p' [Hp' [Epar [Esym F]]]]. rewrite Hc in F.
      inversion F as [|? c' ? l' Hcc' F']; subst. inversion F'; subst.
      exists (idx c'). split.
      * rewrite <- Esym. apply rule_edge_unary; auto.
      * left. exists c, c'. auto.
    + exfalso. pose proof (dk_trng _ _ _ _ Hok p0 Hp0 NU0). pose proof (dk_lt _ _ _ _ Hok _ (par_lt p Hp)). lia.
  - (* rule edge to a tuple node *)
    destruct HS as [[q [r [HD [Eq ->]]]]|[cs [cs' [[p0 [Hp0 [NU0 <-]]] [_ [_ [Eq _]]]]]]].
    + destruct (Hw _ _ HD) as [Hq Hr]. apply (dk_inj _ _ _ _ Hok) in Eq; auto; [|apply par_lt; auto]. subst q.
      destruct (Hsim _ _ HD p Hp eq_refl) as [p' [Hp' [Epar [Esym F]]]].
      assert (NU' : ~ unary p') by (unfold unary in *; rewrite <- (Forall2_length _ _ _ F); auto).
      exists (d_tidx X (ch p')). split.
      * rewrite <- Esym, <- Epar. apply rule_edge_tuple; auto.
      * right. exists (ch p), (ch p'). repeat split; auto; [exists p | exists p']; auto.
    + exfalso. pose proof (dk_trng _ _ _ _ Hok p0 Hp0 NU0). pose proof (dk_lt _ _ _ _ Hok _ (par_lt p Hp)). lia.
  - (* position edge of a tuple node *)
    destruct HS as [[q [r [HD [Eq ->]]]]|[cs [cs' [[p0 [Hp0 [NU0 <-]]] [[p' [Hp' [NU' <-]]] [F [Eq ->]]]]]]].
    + exfalso. destruct (Hw _ _ HD) as [Hq Hr]. pose proof (dk_trng _ _ _ _ Hok p Hp NU). pose proof (dk_lt _ _ _ _ Hok _ Hq). unfold idx in *. lia.
    + apply (dk_tinj _ _ _ _ Hok) in Eq; auto. rewrite <- Eq in F.
      destruct (Forall2_nth_error_l _ _ _ F i c Hc) as [c' [Hc' HD]].
      exists (idx c'). split; [apply tuple_edge; auto|]. left. exists c, c'. auto.
Qed.

Theorem encode_down_correct_aux q r : (q < N.of_nat n)%N -> (r < N.of_nat n)%N ->
  (In (q, r) (down_sim A n) <-> In (idx q, idx r) (lts_sim_default L NN)).
Proof.
  intros Hq Hr. split.
  - intros H. destruct (lts_sim_default_greatest L NN) as [_ Hg].
    apply (Hg S_down); [split; [apply S_down_within | apply S_down_sim]|]. left. exists q, r. auto.
  - intros H. destruct (down_sim_greatest A n) as [_ Hg].
    apply (Hg (fun q r => (q < N.of_nat n)%N /\ (r < N.of_nat n)%N /\ SL (idx q) (idx r))); auto.
    split; [intros x y [? [? _]]; auto | apply down_from_lts].
Qed.
End Down.

Definition encode_down_correct := encode_down_correct_aux.

(* the ranked-alphabet hypothesis is necessary: with a symbol used with arities 1 and 2 the inlining of unary rules lets
   a unary rule be answered by a binary one (a state without rules is simulated by a tuple node) *)
Definition unranked_X : dix := {| d_idx := fun x => x; d_sidx := fun _ => 0%N; d_nsym := 1%N; d_tidx := fun _ => 3%N |}.
Definition unranked_A : ta := {| rules := [ {| sym := 5; ch := [2]; par := 0 |}; {| sym := 5; ch := [2; 2]; par := 1 |} ]%N; finals := [] |}.
Lemma unranked_ok : states_below unranked_A 3 /\ down_ok unranked_X unranked_A 3 4.
Proof.
  split.
  - intros q Hq. vm_compute in Hq. destruct Hq as [<-|[<-|[<-|[<-|[<-|[]]]]]]; reflexivity.
  - constructor.
    + intros x Hx. exact Hx.
    + intros x y _ _ E. exact E.
    + intros p p' [E|[E|[]]] [E'|[E'|[]]] _; subst; reflexivity.
    + intros p _. reflexivity.
    + intros p p' [E|[E|[]]] [E'|[E'|[]]] NU NU' _; subst; try reflexivity; exfalso; [apply NU | apply NU']; reflexivity.
    + intros p _ _. split; [apply N.le_refl | reflexivity].
    + lia.
Qed.
Theorem encode_down_unranked_refuted :
  exists X A n NN, states_below A n /\ down_ok X A n NN /\
    In (d_idx X 0%N, d_idx X 1%N) (lts_sim_default (translate_down X A) NN) /\ ~ In (0%N, 1%N) (down_sim A n).
Proof.
  exists unranked_X, unranked_A, 3, 4. destruct unranked_ok as [H1 H2]. split; [exact H1|]. split; [exact H2|]. split.
  - apply memP_In. vm_compute. reflexivity.
  - intros H. apply memP_In in H. vm_compute in H. discriminate.
Qed.

(* =====================================================================================
   upward
   ===================================================================================== *)
Definition mkenv (X : uix) (p : rule) (a b : list N) : env :=
  (a ++ b, N.of_nat (length a), u_sidx X (sym p), u_idx X (par p)).

Lemma envs_of_rule_In X p q E : In (q, E) (envs_of_rule X p) <-> exists a b, ch p = a ++ q :: b /\ E = mkenv X p a b.
Proof.
  unfold envs_of_rule, mkenv. rewrite in_map_iff. split.
  - intros [[[a y] b] [Eq Hs]]. simpl in Eq. inversion Eq; subst. apply splits_spec in Hs. eauto.
  - intros [a [b [Hc ->]]]. exists (a, q, b). split; auto. apply splits_spec; auto.
Qed.

Definition wide (p : rule) : Prop := 2 <= length (ch p).

Lemma up_rule_edges_In X leaf p e : In e (up_rule_edges X leaf p) <->
  (ch p = [] /\ e = (leaf, u_sidx X (sym p), u_idx X (par p))) \/
  (exists c, ch p = [c] /\ e = (u_idx X c, u_sidx X (sym p), u_idx X (par p))) \/
  (wide p /\ exists a q b, ch p = a ++ q :: b /\
     (e = (u_idx X q, u_nsym X, u_eidx X (mkenv X p a b)) \/
      e = (u_eidx X (mkenv X p a b), u_sidx X (sym p), u_idx X (par p)))).
Proof.
  unfold up_rule_edges, wide. destruct (ch p) as [|c [|c' cs]] eqn:E.
  - simpl. split.
    + intros [<-|[]]. left; auto.
    + intros [[_ ->]|[[c [H _]]|[H _]]]; [left; auto | discriminate | simpl in H; lia].
  - simpl. split.
    + intros [<-|[]]. right; left. eauto.
    + intros [[H _]|[[c0 [H ->]]|[H _]]]; [discriminate | inversion H; auto | simpl in H; lia].
  - rewrite <- E. rewrite in_flat_map. split.
    + intros [[q En] [Hce He]]. apply envs_of_rule_In in Hce as [a [b [Hc ->]]]. right; right.
      split; [rewrite E; simpl; lia|]. exists a, q, b. split; auto. simpl in He.
      destruct He as [<-|[<-|[]]]; [left | right]; reflexivity.
    + intros [[H _]|[[c0 [H _]]|[_ [a [q [b [Hc He]]]]]]]; [rewrite E in H; discriminate | rewrite E in H; discriminate|].
      exists (q, mkenv X p a b). split; [apply envs_of_rule_In; eauto|]. simpl. destruct He as [->| ->]; auto.
Qed.

Lemma translate_up_In X n A e : In e (translate_up X n A) <-> exists p, In p (rules A) /\ In e (up_rule_edges X (N.of_nat n) p).
Proof. unfold translate_up. apply in_flat_map. Qed.

Lemma all_envs_In X A E : In E (all_envs X A) <-> exists p a q b, In p (rules A) /\ wide p /\ ch p = a ++ q :: b /\ E = mkenv X p a b.
Proof.
  unfold all_envs, wide. rewrite in_flat_map. split.
  - intros [p [Hp H]]. destruct (ch p) as [|c [|c' cs]] eqn:Ec; try (destruct H; fail).
    apply in_map_iff in H as [[q E'] [<- H]]. apply envs_of_rule_In in H as [a [b [Hc ->]]].
    exists p, a, q, b. repeat split; auto. rewrite Ec; simpl; lia.
  - intros [p [a [q [b [Hp [Hw [Hc ->]]]]]]]. exists p. split; auto.
    destruct (ch p) as [|c [|c' cs]] eqn:Ec; [simpl in Hw; lia | simpl in Hw; lia|].
    apply in_map_iff. exists (q, mkenv X p a b). split; auto. apply envs_of_rule_In. exists a, b. split; auto. congruence.
Qed.

Lemma env_key_eqb_spec E E' : env_key_eqb E E' = true <-> e_sibs E = e_sibs E' /\ e_pos E = e_pos E' /\ e_sym E = e_sym E'.
Proof. unfold env_key_eqb. rewrite !andb_true_iff, listN_eqb_eq, !N.eqb_eq. tauto. Qed.

Lemma up_node_init_In X n A x y : In (x, y) (up_node_init X n A) <->
  (exists q r, In (q, r) (up_init A n) /\ x = u_idx X q /\ y = u_idx X r) \/
  (x = N.of_nat n /\ y = N.of_nat n) \/
  (exists E E', In E (all_envs X A) /\ In E' (all_envs X A) /\ env_key_eqb E E' = true /\ x = u_eidx X E /\ y = u_eidx X E').
Proof.
  unfold up_node_init. rewrite !in_app_iff, in_map_iff, in_flat_map. simpl. split.
  - intros [[[q r] [E H]]|[[E|[]]|[E [HE H]]]].
    + simpl in E. inversion E; subst. left. eauto.
    + inversion E; subst. right; left. auto.
    + apply in_flat_map in H as [E' [HE' H]]. destruct (env_key_eqb E E') eqn:K; [|destruct H].
      destruct H as [H|[]]. inversion H; subst. right; right. exists E, E'. auto.
  - intros [[q [r [H [-> ->]]]]|[[-> ->]|[E [E' [HE [HE' [K [-> ->]]]]]]]].
    + left. exists (q, r). auto.
    + right; left. auto.
    + right; right. exists E. split; auto. apply in_flat_map. exists E'. split; auto. rewrite K. simpl; auto.
Qed.

Record up_ok (X : uix) (A : ta) (n : nat) : Prop := {
  uk_lt : forall x, (x < N.of_nat n)%N -> (u_idx X x < N.of_nat n)%N;
  uk_inj : forall x y, (x < N.of_nat n)%N -> (y < N.of_nat n)%N -> u_idx X x = u_idx X y -> x = y;
  uk_sinj : forall p p', In p (rules A) -> In p' (rules A) -> u_sidx X (sym p) = u_sidx X (sym p') -> sym p = sym p';
  uk_slt : forall p, In p (rules A) -> (u_sidx X (sym p) < u_nsym X)%N;
  uk_einj : forall E E', In E (all_envs X A) -> In E' (all_envs X A) -> u_eidx X E = u_eidx X E' -> E = E';
  uk_erng : forall E, In E (all_envs X A) -> (N.of_nat n < u_eidx X E)%N
}.

Lemma app_inv_len {T} (a a' b b' : list T) : a ++ b = a' ++ b' -> length a = length a' -> a = a' /\ b = b'.
Proof. revert a'. induction a as [|x a IH]; destruct a' as [|x' a']; simpl; intros E HL; try discriminate; auto.
  inversion E; subst. destruct (IH a' H1) as [-> ->]; auto. Qed.

Section Up.
Variables (X : uix) (A : ta) (n : nat).
Hypothesis Hbelow : states_below A n.
Hypothesis Hok : up_ok X A n.
Let L := translate_up X n A.
Let idx := u_idx X.
Let leaf := N.of_nat n.

Lemma upar_lt p : In p (rules A) -> (par p < N.of_nat n)%N.
Proof. intros Hp. apply Hbelow, (proj1 (rule_states A p Hp)). Qed.
Lemma uch_lt p c : In p (rules A) -> In c (ch p) -> (c < N.of_nat n)%N.
Proof. intros Hp Hc. apply Hbelow, (proj2 (rule_states A p Hp)), Hc. Qed.
Lemma idx_lt x : (x < N.of_nat n)%N -> (idx x < N.of_nat n)%N.
Proof. apply (uk_lt _ _ _ Hok). Qed.
Lemma split_mid_lt p a q b : In p (rules A) -> ch p = a ++ q :: b -> (q < N.of_nat n)%N.
Proof. intros Hp Hc. apply (uch_lt p); auto. rewrite Hc. apply in_or_app. right; left; auto. Qed.
Lemma env_in p a q b : In p (rules A) -> wide p -> ch p = a ++ q :: b -> In (mkenv X p a b) (all_envs X A).
Proof. intros. apply all_envs_In. exists p, a, q, b. auto. Qed.

(* the edges of the encoding, by kind *)
Lemma edge_leaf p : In p (rules A) -> ch p = [] -> In (leaf, u_sidx X (sym p), idx (par p)) L.
Proof. intros Hp Hc. apply translate_up_In. exists p. split; auto. apply up_rule_edges_In. left; auto. Qed.
Lemma edge_unary p c : In p (rules A) -> ch p = [c] -> In (idx c, u_sidx X (sym p), idx (par p)) L.
Proof. intros Hp Hc. apply translate_up_In. exists p. split; auto. apply up_rule_edges_In. right; left. eauto. Qed.
Lemma edge_to_env p a q b : In p (rules A) -> wide p -> ch p = a ++ q :: b -> In (idx q, u_nsym X, u_eidx X (mkenv X p a b)) L.
Proof. intros Hp Hw Hc. apply translate_up_In. exists p. split; auto. apply up_rule_edges_In. right; right. split; auto. exists a, q, b. auto. Qed.
Lemma edge_from_env E : In E (all_envs X A) -> In (u_eidx X E, e_sym E, e_par E) L.
Proof. intros HE. apply all_envs_In in HE as [p [a [q [b [Hp [Hw [Hc ->]]]]]]].
  apply translate_up_In. exists p. split; auto. apply up_rule_edges_In. right; right. split; auto. exists a, q, b. split; auto. Qed.

(* inversion of an edge of the encoding *)
Lemma edge_inv e : In e L ->
  (exists p, In p (rules A) /\ ch p = [] /\ e = (leaf, u_sidx X (sym p), idx (par p))) \/
  (exists p c, In p (rules A) /\ ch p = [c] /\ e = (idx c, u_sidx X (sym p), idx (par p))) \/
  (exists p a q b, In p (rules A) /\ wide p /\ ch p = a ++ q :: b /\ e = (idx q, u_nsym X, u_eidx X (mkenv X p a b))) \/
  (exists E, In E (all_envs X A) /\ e = (u_eidx X E, e_sym E, e_par E)).
Proof.
  intros He. apply translate_up_In in He as [p [Hp He]]. apply up_rule_edges_In in He.
  destruct He as [[Hc ->]|[[c [Hc ->]]|[Hw [a [q [b [Hc [->| ->]]]]]]]].
  - left. eauto.
  - right; left. eauto.
  - right; right; left. exists p, a, q, b. auto.
  - right; right; right. exists (mkenv X p a b). split; auto. eapply env_in; eauto.
Qed.

(* edges leaving a state node, with a symbol label: unary rules using the state *)
Lemma from_state_sym r a y : (r < N.of_nat n)%N -> (a < u_nsym X)%N -> In (idx r, a, y) L ->
  exists p, In p (rules A) /\ ch p = [r] /\ a = u_sidx X (sym p) /\ y = idx (par p).
Proof.
  intros Hr Ha He. pose proof (idx_lt r Hr) as Hir.
  destruct (edge_inv _ He) as [[p [Hp [Hc E]]]|[[p [c [Hp [Hc E]]]]|[[p [a' [q [b [Hp [Hw [Hc E]]]]]]]|[E' [HE' E]]]]]; inversion E; subst.
  - exfalso. unfold leaf in *. lia.
  - assert (c = r).
    { apply (uk_inj _ _ _ Hok); auto. apply (uch_lt p); auto. rewrite Hc; left; auto. }
    subst c. exists p. auto.
  - exfalso. lia.
  - exfalso. pose proof (uk_erng _ _ _ Hok E' HE'). unfold idx in *. lia.
Qed.

(* edges leaving a state node with the environment label: wide rules using the state at some position *)
Lemma from_state_env r y : (r < N.of_nat n)%N -> In (idx r, u_nsym X, y) L ->
  exists p a b, In p (rules A) /\ wide p /\ ch p = a ++ r :: b /\ y = u_eidx X (mkenv X p a b).
Proof.
  intros Hr He. pose proof (idx_lt r Hr) as Hir.
  destruct (edge_inv _ He) as [[p [Hp [Hc E]]]|[[p [c [Hp [Hc E]]]]|[[p [a' [q [b [Hp [Hw [Hc E]]]]]]]|[E' [HE' E]]]]]; inversion E; subst.
  - exfalso. unfold leaf in *. lia.
  - exfalso. pose proof (uk_slt _ _ _ Hok p Hp). lia.
  - assert (q = r) by (apply (uk_inj _ _ _ Hok); auto; eapply split_mid_lt; eauto). subst q.
    exists p, a', b. auto.
  - exfalso. pose proof (uk_erng _ _ _ Hok E' HE'). unfold idx in *. lia.
Qed.

(* edges leaving an environment node *)
Lemma from_env E a y : In E (all_envs X A) -> In (u_eidx X E, a, y) L -> a = e_sym E /\ y = e_par E.
Proof.
  intros HE He. pose proof (uk_erng _ _ _ Hok E HE) as Hr.
  destruct (edge_inv _ He) as [[p [Hp [Hc E0]]]|[[p [c [Hp [Hc E0]]]]|[[p [a' [q [b [Hp [Hw [Hc E0]]]]]]]|[E' [HE' E0]]]]]; inversion E0; subst.
  - exfalso. unfold leaf in *. lia.
  - exfalso. pose proof (idx_lt c (uch_lt p c Hp ltac:(rewrite Hc; left; auto))). unfold idx in *. lia.
  - exfalso. pose proof (idx_lt q (split_mid_lt p a' q b Hp Hc)). unfold idx in *. lia.
  - assert (E = E') by (apply (uk_einj _ _ _ Hok); auto). subst. auto.
Qed.

Let SL := rel_of (up_lts_sim X n A).
Let U := rel_of (up_sim A n).

Lemma SL_props : sub_rel SL (rel_of (up_node_init X n A)) /\ simulation L SL.
Proof. destruct (lts_sim_from_greatest L (up_node_init X n A)) as [H _]. exact H. Qed.

(* related state nodes / environment nodes are initially related *)
Lemma SL_states q r : (q < N.of_nat n)%N -> (r < N.of_nat n)%N -> SL (idx q) (idx r) -> In q (finals A) -> In r (finals A).
Proof.
  intros Hq Hr HS. apply (proj1 SL_props) in HS. apply up_node_init_In in HS.
  pose proof (idx_lt q Hq). pose proof (idx_lt r Hr).
  destruct HS as [[q0 [r0 [HI [Eq Er]]]]|[[Eq _]|[E [E' [HE [_ [_ [Eq _]]]]]]]].
  - apply up_init_In in HI as [Hq0 [Hr0 Hf]]. apply (uk_inj _ _ _ Hok) in Eq; auto. apply (uk_inj _ _ _ Hok) in Er; auto. subst. auto.
  - exfalso. unfold idx in *. lia.
  - exfalso. pose proof (uk_erng _ _ _ Hok E HE). unfold idx in *. lia.
Qed.

Lemma SL_envs E E' : In E (all_envs X A) -> In E' (all_envs X A) -> SL (u_eidx X E) (u_eidx X E') -> env_key_eqb E E' = true.
Proof.
  intros HE HE' HS. apply (proj1 SL_props) in HS. apply up_node_init_In in HS.
  pose proof (uk_erng _ _ _ Hok E HE).
  destruct HS as [[q0 [r0 [HI [Eq Er]]]]|[[Eq _]|[E0 [E0' [HE0 [HE0' [K [Eq Er]]]]]]]].
  - exfalso. apply up_init_In in HI as [Hq0 _]. pose proof (idx_lt q0 Hq0). unfold idx in *. lia.
  - exfalso. lia.
  - apply (uk_einj _ _ _ Hok) in Eq; auto. apply (uk_einj _ _ _ Hok) in Er; auto. subst. auto.
Qed.

Lemma up_from_lts : up_simulation A (fun q r => (q < N.of_nat n)%N /\ (r < N.of_nat n)%N /\ SL (idx q) (idx r)).
Proof.
  pose proof (proj2 SL_props) as Hsim.
  intros q r [Hq [Hr HS]]. split; [apply SL_states; auto|].
  intros p a b Hp Hc.
  destruct (Nat.le_gt_cases 2 (length (ch p))) as [Hw|Hn].
  - (* wide rule: through the environment *)
    pose proof (edge_to_env p a q b Hp Hw Hc) as He.
    destruct (Hsim _ _ HS _ _ He) as [y [He' HS']].
    apply from_state_env in He' as [p' [a' [b' [Hp' [Hw' [Hc' ->]]]]]]; auto.
    pose proof (env_in p a q b Hp Hw Hc) as HE. pose proof (env_in p' a' r b' Hp' Hw' Hc') as HE'.
    pose proof (SL_envs _ _ HE HE' HS') as K. apply env_key_eqb_spec in K as [K1 [K2 K3]].
    unfold mkenv, e_sibs, e_pos, e_sym in K1, K2, K3. simpl in K1, K2, K3.
    assert (HL : length a = length a') by lia. destruct (app_inv_len _ _ _ _ K1 HL) as [-> ->].
    pose proof (edge_from_env _ HE) as He2. unfold e_sym, e_par, mkenv in He2. simpl in He2.
    destruct (Hsim _ _ HS' _ _ He2) as [z [He2' HSz]].
    apply from_env in He2' as [_ ->]; auto. unfold e_par, mkenv in HSz. simpl in HSz.
    exists p'. repeat split; auto.
    + symmetry. apply (uk_sinj _ _ _ Hok); auto.
    + apply upar_lt; auto.
    + apply upar_lt; auto.
  - (* unary rule *)
    assert (a = [] /\ b = []) as [-> ->].
    { rewrite Hc, app_length in Hn. simpl in Hn. destruct a, b; simpl in Hn; auto; lia. }
    simpl in Hc. pose proof (edge_unary p q Hp Hc) as He.
    destruct (Hsim _ _ HS _ _ He) as [y [He' HS']].
    apply from_state_sym in He' as [p' [Hp' [Hc' [Es ->]]]]; auto; [|apply (uk_slt _ _ _ Hok); auto].
    exists p'. repeat split; auto.
    + symmetry. apply (uk_sinj _ _ _ Hok); auto.
    + apply upar_lt; auto.
    + apply upar_lt; auto.
Qed.

Definition S_up : relN := fun x y =>
  (exists q r, U q r /\ x = idx q /\ y = idx r) \/
  (x = leaf /\ y = leaf) \/
  (exists E E', In E (all_envs X A) /\ In E' (all_envs X A) /\ env_key_eqb E E' = true /\
                (exists u v, U u v /\ e_par E = idx u /\ e_par E' = idx v) /\ x = u_eidx X E /\ y = u_eidx X E').

Lemma U_props : within n U /\ up_simulation A U.
Proof. destruct (up_sim_greatest A n) as [H _]. exact H. Qed.

Lemma S_up_init : sub_rel S_up (rel_of (up_node_init X n A)).
Proof.
  intros x y HS. apply up_node_init_In. destruct HS as [[q [r [HU [-> ->]]]]|[[-> ->]|[E [E' [HE [HE' [K [_ [-> ->]]]]]]]]].
  - left. exists q, r. repeat split; auto. apply up_init_In. destruct (proj1 U_props _ _ HU). repeat split; auto.
    apply (proj2 U_props _ _ HU).
  - right; left. auto.
  - right; right. exists E, E'. auto.
Qed.

Lemma S_up_sim : simulation L S_up.
Proof.
  destruct U_props as [Hw Hsim].
  intros x y HS a x' He.
  destruct (edge_inv _ He) as [[p [Hp [Hc E]]]|[[p [c [Hp [Hc E]]]]|[[p [a' [q [b [Hp [Hwd [Hc E]]]]]]]|[E0 [HE0 E]]]]]; inversion E; subst; clear E.
  - (* leaf edge: only the leaf node is related to the leaf node *)
    destruct HS as [[q [r [HU [Eq _]]]]|[[_ ->]|[E [E' [HE [_ [_ [_ [Eq _]]]]]]]]].
    + exfalso. destruct (Hw _ _ HU) as [Hq _]. pose proof (idx_lt q Hq). unfold leaf, idx in *. lia.
    + exists (idx (par p)). split; auto. left. exists (par p), (par p). repeat split; auto.
      apply up_sim_reflexive; auto. apply upar_lt; auto.
    + exfalso. pose proof (uk_erng _ _ _ Hok E HE). unfold leaf in *. lia.
  - (* unary rule edge *)
    assert (Hcn : (c < N.of_nat n)%N) by (apply (uch_lt p); auto; rewrite Hc; left; auto).
    destruct HS as [[q [r [HU [Eq ->]]]]|[[Eq _]|[E [E' [HE [_ [_ [_ [Eq _]]]]]]]]].
    + destruct (Hw _ _ HU) as [Hq Hr]. apply (uk_inj _ _ _ Hok) in Eq; auto. subst q.
      destruct (proj2 (Hsim _ _ HU) p [] [] Hp Hc) as [p' [Hp' [Es [Hc' HU']]]]. simpl in Hc'.
      exists (idx (par p')). split.
      * rewrite <- Es. apply edge_unary; auto.
      * left. exists (par p), (par p'). auto.
    + exfalso. pose proof (idx_lt c Hcn). unfold leaf, idx in *. lia.
    + exfalso. pose proof (uk_erng _ _ _ Hok E HE). pose proof (idx_lt c Hcn). unfold idx in *. lia.
  - (* state -> environment edge *)
    assert (Hqn : (q < N.of_nat n)%N) by (eapply split_mid_lt; eauto).
    destruct HS as [[q0 [r [HU [Eq ->]]]]|[[Eq _]|[E [E' [HE [_ [_ [_ [Eq _]]]]]]]]].
    + destruct (Hw _ _ HU) as [Hq0 Hr]. apply (uk_inj _ _ _ Hok) in Eq; auto. subst q0.
      destruct (proj2 (Hsim _ _ HU) p a' b Hp Hc) as [p' [Hp' [Es [Hc' HU']]]].
      assert (Hwd' : wide p').
      { unfold wide in *. rewrite Hc', app_length. rewrite Hc, app_length in Hwd. simpl in *. lia. }
      exists (u_eidx X (mkenv X p' a' b)). split; [apply edge_to_env; auto|].
      right; right. exists (mkenv X p a' b), (mkenv X p' a' b). repeat split; auto.
      * eapply env_in; eauto.
      * eapply env_in; eauto.
      * apply env_key_eqb_spec. unfold mkenv, e_sibs, e_pos, e_sym. simpl. rewrite Es. auto.
      * exists (par p), (par p'). auto.
    + exfalso. pose proof (idx_lt q Hqn). unfold leaf, idx in *. lia.
    + exfalso. pose proof (uk_erng _ _ _ Hok E HE). pose proof (idx_lt q Hqn). unfold idx in *. lia.
  - (* environment -> parent edge *)
    pose proof (uk_erng _ _ _ Hok E0 HE0) as Hr0.
    destruct HS as [[q [r [HU [Eq _]]]]|[[Eq _]|[E [E' [HE [HE' [K [[u [v [HU [Eu Ev]]]] [Eq ->]]]]]]]]].
    + exfalso. destruct (Hw _ _ HU) as [Hq _]. pose proof (idx_lt q Hq). unfold idx in *. lia.
    + exfalso. unfold leaf in *. lia.
    + apply (uk_einj _ _ _ Hok) in Eq; auto. subst E0.
      exists (e_par E'). split.
      * apply env_key_eqb_spec in K as [_ [_ K3]]. rewrite K3. apply edge_from_env; auto.
      * left. exists u, v. auto.
Qed.

Theorem encode_up_correct_aux q r : (q < N.of_nat n)%N -> (r < N.of_nat n)%N ->
  (In (q, r) (up_sim A n) <-> In (idx q, idx r) (up_lts_sim X n A)).
Proof.
  intros Hq Hr. split.
  - intros H. destruct (lts_sim_from_greatest L (up_node_init X n A)) as [_ Hg].
    apply (Hg S_up); [split; [apply S_up_init | apply S_up_sim]|]. left. exists q, r. auto.
  - intros H. destruct (up_sim_greatest A n) as [_ Hg].
    apply (Hg (fun q r => (q < N.of_nat n)%N /\ (r < N.of_nat n)%N /\ SL (idx q) (idx r))); auto.
    split; [intros x y [? [? _]]; auto | apply up_from_lts].
Qed.
End Up.

Definition encode_up_correct_partial := encode_up_correct_aux.

(* ---------- the validity predicates are decidable; the canonical indices are valid on an example ---------- *)
Lemma forallb2_spec {T} (f : T -> T -> bool) l : forallb (fun x => forallb (f x) l) l = true <-> forall x y, In x l -> In y l -> f x y = true.
Proof. rewrite forallb_forall. split.
  - intros H x y Hx Hy. specialize (H x Hx). rewrite forallb_forall in H. auto.
  - intros H x Hx. apply forallb_forall. auto. Qed.
Lemma unaryb_spec p : unaryb p = true <-> unary p.
Proof. unfold unaryb, unary. apply Nat.eqb_eq. Qed.
Lemma nor_eq a b : negb a || b = true <-> (a = true -> b = true).
Proof. destruct a, b; simpl; intuition discriminate. Qed.

Lemma down_ok_b_sound X A n NN : down_ok_b X A n NN = true -> down_ok X A n NN.
Proof.
  unfold down_ok_b. rewrite !andb_true_iff. intros [[[[[[H1 H2] H3] H4] H5] H6] H7].
  rewrite forallb_forall in H1, H4, H6.
  pose proof (proj1 (forallb2_spec _ _) H2) as H2'. pose proof (proj1 (forallb2_spec _ _) H3) as H3'. pose proof (proj1 (forallb2_spec _ _) H5) as H5'.
  clear H2 H3 H5. rename H2' into H2, H3' into H3, H5' into H5. constructor.
  - intros x Hx. apply N.ltb_lt, H1, seqN_In, Hx.
  - intros x y Hx Hy E. apply seqN_In in Hx, Hy. specialize (H2 x y Hx Hy). cbv beta in H2. apply N.eqb_eq, (proj1 (nor_eq _ _) H2), N.eqb_eq, E.
  - intros p p' Hp Hp' E. specialize (H3 p p' Hp Hp'). cbv beta in H3. apply N.eqb_eq, (proj1 (nor_eq _ _) H3), N.eqb_eq, E.
  - intros p Hp. apply N.ltb_lt, H4, Hp.
  - intros p p' Hp Hp' NU NU' E. specialize (H5 p p' Hp Hp'). cbv beta in H5. rewrite !orb_true_iff in H5.
    destruct H5 as [[[U|U]|U]|U].
    + apply unaryb_spec in U. tauto.
    + apply unaryb_spec in U. tauto.
    + rewrite E, N.eqb_refl in U. discriminate.
    + apply listN_eqb_eq; auto.
  - intros p Hp NU. specialize (H6 p Hp). rewrite orb_true_iff, andb_true_iff, N.leb_le, N.ltb_lt in H6.
    destruct H6 as [U|H6]; auto. apply unaryb_spec in U. tauto.
  - apply Nat.leb_le; auto.
Qed.

Lemma env_eqb_eq e e' : env_eqb e e' = true <-> e = e'.
Proof.
  unfold env_eqb. rewrite andb_true_iff, env_key_eqb_spec, N.eqb_eq.
  destruct e as [[[s i] a] q], e' as [[[s' i'] a'] q']. unfold e_sibs, e_pos, e_sym, e_par. simpl. split.
  - intros [[-> [-> ->]] ->]. reflexivity.
  - intros E. inversion E. auto.
Qed.

Lemma up_ok_b_sound X A n : up_ok_b X A n = true -> up_ok X A n.
Proof.
  unfold up_ok_b. rewrite !andb_true_iff. intros [[[[[H1 H2] H3] H4] H5] H6].
  rewrite forallb_forall in H1, H4, H6.
  pose proof (proj1 (forallb2_spec _ _) H2) as H2'. pose proof (proj1 (forallb2_spec _ _) H3) as H3'. pose proof (proj1 (forallb2_spec _ _) H5) as H5'.
  clear H2 H3 H5. rename H2' into H2, H3' into H3, H5' into H5. constructor.
  - intros x Hx. apply N.ltb_lt, H1, seqN_In, Hx.
  - intros x y Hx Hy E. apply seqN_In in Hx, Hy. specialize (H2 x y Hx Hy). cbv beta in H2. apply N.eqb_eq, (proj1 (nor_eq _ _) H2), N.eqb_eq, E.
  - intros p p' Hp Hp' E. specialize (H3 p p' Hp Hp'). cbv beta in H3. apply N.eqb_eq, (proj1 (nor_eq _ _) H3), N.eqb_eq, E.
  - intros p Hp. apply N.ltb_lt, H4, Hp.
  - intros e e' He He' E. specialize (H5 e e' He He'). cbv beta in H5. apply env_eqb_eq, (proj1 (nor_eq _ _) H5), N.eqb_eq, E.
  - intros e He. apply N.ltb_lt, H6, He.
Qed.

Example ex_enc_valid : states_below ex_ta 4 /\ ranked ex_ta /\ down_ok (canon_dix ex_ta 4) ex_ta 4 9 /\ up_ok (canon_uix ex_ta 4) ex_ta 4.
Proof.
  split; [apply dense_ok_below; vm_compute; reflexivity|].
  split; [apply ranked_ok_spec; vm_compute; reflexivity|].
  split; [apply down_ok_b_sound; vm_compute; reflexivity | apply up_ok_b_sound; vm_compute; reflexivity].
Qed.
