(* C01 / C07 — models of the inclusion verdicts (function level), of operand preparation, and of the
   leaf branch of the non-recursive downward checker. Definitions only (extracted). *)
From Coq Require Import List NArith Bool.
Import ListNotations.
From V Require Import Fix Sem Prod Incl TrimDefs.

(* every implemented selection computes: prepare (trim) both operands, then decide *)
Definition incl_model (v : N) (A B : ta) : bool := incl_dec (remove_useless A) (remove_useless B).

(* the gate on a reported verdict *)
Definition gate_verdict (A B : ta) (b : bool) : bool := Bool.eqb b (incl_dec A B).

(* SanitizeAutsForInclusion: gate = languages kept; drift = trimmed, dense below n, disjoint *)
Definition prepared_lang (A B A' B' : ta) : bool := equiv_dec A' A && equiv_dec B' B.
Definition prepared_shape (A' B' : ta) (n : N) : bool :=
  forallb (fun q => N.ltb q n) (states A' ++ states B') &&
  forallb (fun q => negb (memN q (states B'))) (states A') &&
  no_useless A' && no_useless B'.

(* leaf branch of ExplicitDownwardInclusion::expand: a leaf rule a -> p_S of the smaller automaton is
   answered by the macro-state S of the bigger automaton *)
Definition is_nil {X} (l : list X) : bool := match l with [] => true | _ => false end.
Definition owns_any (B : ta) (p : N) : bool := existsb (fun r => N.eqb (par r) p) (rules B).
Definition owns_leaf (B : ta) (a p : N) : bool :=
  existsb (fun r => N.eqb (par r) p && N.eqb (sym r) a && is_nil (ch r)) (rules B).
Definition leaf_match_old (B : ta) (a : N) (S : list N) : bool := existsb (owns_any B) S.   (* before the fix *)
Definition leaf_match (B : ta) (a : N) (S : list N) : bool := existsb (owns_leaf B a) S.    (* as fixed *)
