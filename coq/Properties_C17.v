(* C17 — MTBDD operations are pointwise correct and representations are canonical.
   Nothing but statements closed by [exact]; the proofs are in MtbddProofs.v / MtbddStoreProofs.v.
   Model: MtbddDefs.v (functional, follows ondriks_mtbdd.hh / apply{1,2,3}func.hh / classify_case.hh),
   MtbddStoreDefs.v (hash-consing store, for the operator== clause). *)
From Coq Require Import List Arith Bool.
From V Require Import MtbddDefs MtbddOps MtbddProofs MtbddStoreDefs MtbddStoreProofs MtbddMemo.
Import ListNotations.

Section P.
Variable V : Type.
Variable V_eq_dec : forall a b : V, {a = b} + {a <> b}.
Notation dd := (dd V).
Notation ev := (ev V).
Notation wf := (wf V).

(* an MTBDD returns, for a total assignment, the value it was built with:
   value v on the assignments matched by asgn (don't-care positions match both), dflt elsewhere *)
Theorem C17_construct_ev : forall asgn v dflt s,
  (refines asgn s -> ev (construct V V_eq_dec asgn v dflt) s = v) /\
  (~ refines asgn s -> ev (construct V V_eq_dec asgn v dflt) s = dflt).
Proof. exact (construct_ev_refines V V_eq_dec). Qed.
Theorem C17_construct_wf : forall asgn v dflt, wf (construct V V_eq_dec asgn v dflt).
Proof. exact (construct_wf V V_eq_dec). Qed.
(* GetValue: a don't-care (or missing) position follows the low child; on a total assignment this is ev *)
Theorem C17_get_value_ev : forall d a, get_value V d a = ev d (asg_of a).
Proof. exact (get_value_ev V). Qed.
Theorem C17_get_value_member : forall d a, exists s, refines a s /\ get_value V d a = ev d s.
Proof. exact (get_value_member V). Qed.

(* apply: for every assignment the leaf operation applied to the operands' values *)
Theorem C17_apply1_ev : forall f d s, ev (apply1 V V_eq_dec f d) s = f (ev d s).
Proof. exact (apply1_ev V V_eq_dec). Qed.
Theorem C17_apply2_ev : forall op a b s, ev (apply2 V V_eq_dec op a b) s = op (ev a s) (ev b s).
Proof. exact (apply2_ev V V_eq_dec). Qed.
Theorem C17_apply3_ev : forall op a b c s, ev (apply3 V V_eq_dec op a b c) s = op (ev a s) (ev b s) (ev c s).
Proof. exact (apply3_ev V V_eq_dec). Qed.
Theorem C17_apply1_wf : forall f d, wf d -> wf (apply1 V V_eq_dec f d).
Proof. exact (apply1_wf V V_eq_dec). Qed.
Theorem C17_apply2_wf : forall op a b, wf a -> wf b -> wf (apply2 V V_eq_dec op a b).
Proof. exact (apply2_wf V V_eq_dec). Qed.
Theorem C17_apply3_wf : forall op a b c, wf a -> wf b -> wf c -> wf (apply3 V V_eq_dec op a b c).
Proof. exact (apply3_wf V V_eq_dec). Qed.
(* the models of apply2 / apply3 are the recursion of recDescend driven by classifyCase *)
Theorem C17_apply2_recdescend : forall op a b,
  apply2 V V_eq_dec op a b =
  let '(b1, b2) := classify2 V a b in
  if negb b1 && negb b2
  then match a, b with Leaf u, Leaf v => Leaf (op u v) | _, _ => a end
  else let x := if b2 then var_of V b else var_of V a in
       mk V V_eq_dec x (apply2 V V_eq_dec op (if b1 then child_lo V a else a) (if b2 then child_lo V b else b))
                       (apply2 V V_eq_dec op (if b1 then child_hi V a else a) (if b2 then child_hi V b else b)).
Proof. exact (apply2_recdescend V V_eq_dec). Qed.
Theorem C17_apply3_recdescend : forall op a b c,
  apply3 V V_eq_dec op a b c =
  match top3 V a b c with
  | None => match a, b, c with Leaf u, Leaf v, Leaf w => Leaf (op u v w) | _, _, _ => a end
  | Some x => mk V V_eq_dec x (apply3 V V_eq_dec op (lo_at V x a) (lo_at V x b) (lo_at V x c))
                              (apply3 V V_eq_dec op (hi_at V x a) (hi_at V x b) (hi_at V x c))
  end.
Proof. exact (apply3_unfold V V_eq_dec). Qed.
Theorem C17_classify3_children : forall a b c x, top3 V a b c = Some x ->
  let '(b1, b2, b3) := classify3 V a b c in
  lo_at V x a = (if b1 then child_lo V a else a) /\ hi_at V x a = (if b1 then child_hi V a else a) /\
  lo_at V x b = (if b2 then child_lo V b else b) /\ hi_at V x b = (if b2 then child_hi V b else b) /\
  lo_at V x c = (if b3 then child_lo V c else c) /\ hi_at V x c = (if b3 then child_hi V c else c) /\
  (b1 || b2 || b3 = true).
Proof. exact (classify3_children V). Qed.

(* canonicity: well-formed diagrams denoting the same function are the same diagram *)
Theorem C17_canonical : forall a b, wf a -> wf b -> (forall s, ev a s = ev b s) -> a = b.
Proof. exact (canonical V). Qed.
(* the equality gate: structural equality of model diagrams decides equality of the functions *)
Theorem C17_eqb_spec : forall a b, wf a -> wf b -> (dd_eqb V V_eq_dec a b = true <-> forall s, ev a s = ev b s).
Proof. exact (dd_eqb_spec V V_eq_dec). Qed.
(* two MTBDDs compare equal (operator== compares the roots) exactly when they denote the same
   function, in every store satisfying the invariant of C18 *)
Theorem C17_root_eq_iff_same_function : forall s X h1 h2 hd1 hd2,
  Core V V_eq_dec s X -> hlookup V s h1 = Some hd1 -> hlookup V s h2 = Some hd2 ->
  (root V hd1 = root V hd2 <-> forall sg, ev (ghost V hd1) sg = ev (ghost V hd2) sg).
Proof. exact (root_eq_iff_same_function V V_eq_dec). Qed.

(* projection: always the structural meaning (a removed node combines its projected children) ... *)
Theorem C17_project_ev_struct : forall pred op d s, ev (project V V_eq_dec pred op d) s = pev V pred op d s.
Proof. exact (project_ev_struct V V_eq_dec). Qed.
(* ... which for one variable and an idempotent leaf operation is the combination of the two cofactors,
   and never depends on a removed variable *)
Theorem C17_project_ev_var : forall op x d s, wf d -> (forall v, op v v = v) ->
  ev (project V V_eq_dec (fun y => y =? x) op d) s = op (ev d (upd s x false)) (ev d (upd s x true)).
Proof. exact (project_ev_var V V_eq_dec). Qed.
Theorem C17_project_ev_indep : forall pred op d s t, (forall x, pred x = false -> s x = t x) ->
  ev (project V V_eq_dec pred op d) s = ev (project V V_eq_dec pred op d) t.
Proof. exact (project_ev_indep V V_eq_dec). Qed.
Theorem C17_project_wf : forall pred op d, wf d -> wf (project V V_eq_dec pred op d).
Proof. exact (project_wf V V_eq_dec). Qed.
(* renaming *)
Theorem C17_rename_ev : forall rho d s, ev (rename V rho d) s = ev d (fun x => s (rho x)).
Proof. exact (rename_ev V). Qed.
Theorem C17_rename_wf : forall rho d, (forall x y, x < y -> rho x < rho y) -> wf d -> wf (rename V rho d).
Proof. exact (rename_wf V). Qed.
(* prefix extension: above the operand's variables the prefix is tested, a mismatch gives the default *)
Theorem C17_extend_ev : forall asgn off d dflt s,
  ev (extend V V_eq_dec asgn off d dflt) s = if matches asgn 0 off s then ev d s else dflt.
Proof. exact (extend_ev V V_eq_dec). Qed.
Theorem C17_matches_refines : forall asgn i off s,
  matches asgn i off s = true <->
  forall k, (nth k asgn TX = T1 -> s (k + i + off) = true) /\ (nth k asgn TX = T0 -> s (k + i + off) = false).
Proof. exact matches_refines. Qed.
Theorem C17_extend_wf : forall asgn off d dflt, wf d -> top_lt V d off -> wf (extend V V_eq_dec asgn off d dflt).
Proof. exact (extend_wf V V_eq_dec). Qed.
(* prefix selection: variables >= off are fixed by the prefix (don't-care goes low), the rest are free *)
Theorem C17_prefix_ev : forall asgn off d s, ordered V d ->
  ev (prefix V asgn off d) s = ev d (fun x => if x <? off then s x else is_one (nth (x - off) asgn TX)).
Proof. exact (prefix_ev V). Qed.
Theorem C17_prefix_wf : forall asgn off d, wf d -> wf (prefix V asgn off d).
Proof. exact (prefix_wf V). Qed.

(* GetPaths (compared as drift): every listed path carries the value of all assignments it covers *)
Theorem C17_paths_sound : forall d, ordered V d -> forall p v, In (p, v) (paths V d) -> forall s, refines p s -> ev d s = v.
Proof. exact (paths_sound V). Qed.

(* gates evaluated on libvata's output *)
Theorem C17_dc_gate_sound : forall d a v, dc_gate V V_eq_dec d a v = true -> exists s, refines a s /\ ev d s = v.
Proof. exact (dc_gate_sound V V_eq_dec). Qed.
Theorem C17_dc_gate_model : forall d a, dc_gate V V_eq_dec d a (get_value V d a) = true.
Proof. exact (dc_gate_model V V_eq_dec). Qed.
Theorem C17_void1_gate : forall seen d, wf d ->
  (same_set V V_eq_dec seen (leaves V d) = true <-> forall v, In v seen <-> exists s, ev d s = v).
Proof. exact (void1_gate V V_eq_dec). Qed.
Theorem C17_void2_gate : forall op seen a b, wf a -> wf b ->
  (same_set V V_eq_dec seen (leaves V (apply2 V V_eq_dec op a b)) = true <->
   forall p, In p seen <-> exists s, op (ev a s) (ev b s) = p).
Proof. exact (void2_gate V V_eq_dec). Qed.
End P.

(* the hypotheses are satisfiable: a diagram over two variables, built and combined as the package does *)
Example C17_example :
  let a := construct nat Nat.eq_dec [T1; TX] 1 0 in
  let b := construct nat Nat.eq_dec [TX; T1] 2 0 in
  let c := apply2 nat Nat.eq_dec Nat.add a b in
  wf nat c /\ c = Nd 1 (Nd 0 (Leaf 0) (Leaf 1)) (Nd 0 (Leaf 2) (Leaf 3)) /\
  apply2 nat Nat.eq_dec Nat.add b a = c /\ get_value nat c [TX; T1] = 2.
Proof. exact example_dd. Qed.

(* (A) the memo table of one apply call (keyed by the pair of operand nodes, looked up before the case split, filled after the descent):
   starting from a table whose entries are right for the operation (the empty table), every result is that of the memo-free apply2 and
   the table stays right — for every fuel *)
Theorem C17_apply2_memo_correct : forall (V : Type) (V_eq_dec : forall a b : V, {a = b} + {a <> b}) op fuel m a b m' r,
  memo_ok V V_eq_dec op m -> apply2m V V_eq_dec fuel op m a b = Some (m', r) ->
  r = apply2 V V_eq_dec op a b /\ memo_ok V V_eq_dec op m'.
Proof. exact apply2m_correct. Qed.
Theorem C17_apply2_memo_fresh : forall (V : Type) (V_eq_dec : forall a b : V, {a = b} + {a <> b}) op fuel a b m' r,
  apply2m V V_eq_dec fuel op nil a b = Some (m', r) -> r = apply2 V V_eq_dec op a b.
Proof. exact apply2m_fresh. Qed.
(* a table that survives into a call with another leaf operation is wrong: refuted *)
Theorem C17_apply2_memo_stale_refuted :
  let a := Leaf 1 in let b := Leaf 2 in
  exists m r, apply2m nat Nat.eq_dec 5 Nat.add nil a b = Some (m, r) /\
              apply2m nat Nat.eq_dec 5 Nat.mul m a b = Some (m, Leaf 3) /\ apply2 nat Nat.eq_dec Nat.mul a b = Leaf 2.
Proof. exact apply2m_stale_refuted. Qed.
Example C17_apply2_memo_example :
  let s := Nd 0 (Leaf 1) (Leaf 2) in let a := Nd 1 s s in let b := Nd 1 (Leaf 5) (Leaf 7) in
  option_map snd (apply2m nat Nat.eq_dec 10 Nat.add nil (Nd 2 a a) (Nd 2 b b)) = Some (apply2 nat Nat.eq_dec Nat.add (Nd 2 a a) (Nd 2 b b)) /\
  option_map (fun x => length (fst x)) (apply2m nat Nat.eq_dec 10 Nat.add nil (Nd 2 a a) (Nd 2 b b)) = Some 8.
Proof. exact apply2m_example. Qed.

Print Assumptions C17_construct_ev.
Print Assumptions C17_construct_wf.
Print Assumptions C17_get_value_ev.
Print Assumptions C17_get_value_member.
Print Assumptions C17_apply1_ev.
Print Assumptions C17_apply2_ev.
Print Assumptions C17_apply3_ev.
Print Assumptions C17_apply1_wf.
Print Assumptions C17_apply2_wf.
Print Assumptions C17_apply3_wf.
Print Assumptions C17_apply2_recdescend.
Print Assumptions C17_apply3_recdescend.
Print Assumptions C17_classify3_children.
Print Assumptions C17_canonical.
Print Assumptions C17_eqb_spec.
Print Assumptions C17_root_eq_iff_same_function.
Print Assumptions C17_project_ev_struct.
Print Assumptions C17_project_ev_var.
Print Assumptions C17_project_ev_indep.
Print Assumptions C17_project_wf.
Print Assumptions C17_rename_ev.
Print Assumptions C17_rename_wf.
Print Assumptions C17_extend_ev.
Print Assumptions C17_matches_refines.
Print Assumptions C17_extend_wf.
Print Assumptions C17_prefix_ev.
Print Assumptions C17_prefix_wf.
Print Assumptions C17_paths_sound.
Print Assumptions C17_dc_gate_sound.
Print Assumptions C17_dc_gate_model.
Print Assumptions C17_void1_gate.
Print Assumptions C17_void2_gate.
Print Assumptions C17_example.
Print Assumptions C17_apply2_memo_correct.
Print Assumptions C17_apply2_memo_fresh.
Print Assumptions C17_apply2_memo_stale_refuted.
Print Assumptions C17_apply2_memo_example.
