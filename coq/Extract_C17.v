(* extraction root for C17 — no proofs are needed to build this file *)
Require Extraction.
Require Import ExtrOcamlBasic.
From Coq Require Import NArith.
From V Require Import MtbddDefs MtbddOps.
Extraction "ex_c17.ml" construct extend prefix apply1 apply2 apply3 project rename get_value dc_gate dd_eqb
  paths totals refinements op1 op2 op3 leaves same_set size_dd N.eq_dec N.add N.mul tri_eqb.
