(* C04 — proofs about the functional models of the downward / upward tree-automata simulations. *)
From Coq Require Import List NArith Bool Arith Lia FinFun.
Import ListNotations.
From V Require Import Gfp Sem Prod Incl TrimDefs TrimProofs Lang LtsSimDefs LtsSimProofs TaSimDefs.

(* ---------- the two step conditions, in the words of the property ---------- *)
(* every rule a(q1..qk)->q can be answered by a rule a(r1..rk)->r whose children are pairwise related *)
Definition down_simulation (A : ta) (R : relN) : Prop :=
  forall q r, R q r -> forall p, In p (rules A) -> par p = q ->
    exists p', In p' (rules A) /\ par p' = r /\ sym p' = sym p /\ Forall2 R (ch p) (ch p').

(* r is final whenever q is; every rule using q at some child position (ch p = a ++ q :: b) is answered by a
   rule with the same symbol using r at the same position with identical siblings and a related parent *)
Definition up_simulation (A : ta) (R : relN) : Prop :=
  forall q r, R q r ->
    (In q (finals A) -> In r (finals A)) /\
    forall p a b, In p (rules A) -> ch p = a ++ q :: b ->
      exists p', In p' (rules A) /\ sym p' = sym p /\ ch p' = a ++ r :: b /\ R (par p) (par p').

(* ---------- boolean helpers ---------- *)
Lemma pairwise_spec R : forall l m, pairwise R l m = true <-> Forall2 (rel_of R) l m.
Proof.
  induction l as [|x l IH]; destruct m as [|y m]; simpl.
  - split; auto.
  - split; [discriminate | intros H; inversion H].
  - split; [discriminate | intros H; inversion H].
  - rewrite andb_true_iff, memP_In, IH. split; [intros [? ?]; constructor; auto | intros H; inversion H; subst; auto].
Qed.

Lemma listN_eqb_eq : forall a b, listN_eqb a b = true <-> a = b.
Proof.
  induction a as [|x a IH]; destruct b as [|y b]; simpl; try (split; [discriminate | intros H; inversion H]); [split; auto|].
  rewrite andb_true_iff, N.eqb_eq, IH. split; [intros [-> ->]; auto | intros H; inversion H; auto].
Qed.

Lemma splits_spec : forall l a y b, In (a, y, b) (splits l) <-> l = a ++ y :: b.
Proof.
  induction l as [|x l IH]; intros a y b; simpl.
  - split; [tauto | destruct a; discriminate].
  - rewrite in_map_iff. split.
    + intros [E|[[[a' y'] b'] [E H]]].
      * inversion E; subst. auto.
      * simpl in E. inversion E; subst. apply IH in H. subst. auto.
    + destruct a as [|x' a']; simpl; intros E; inversion E; subst; auto.
      right. exists (a', y, b). split; auto. apply IH. auto.
Qed.

(* ---------- downward ---------- *)
Lemma down_keep_spec A R q r : down_keep A R (q, r) = true <->
  forall p, In p (rules A) -> par p = q ->
    exists p', In p' (rules A) /\ par p' = r /\ sym p' = sym p /\ Forall2 (rel_of R) (ch p) (ch p').
Proof.
  unfold down_keep. rewrite forallb_forall. simpl. split.
  - intros H p Hp Hq. specialize (H p Hp). rewrite Hq, N.eqb_refl in H.
    apply existsb_exists in H as [p' [Hp' H]]. rewrite !andb_true_iff, !N.eqb_eq, pairwise_spec in H.
    exists p'. tauto.
  - intros H p Hp. destruct (N.eqb_spec (par p) q) as [E|]; auto.
    destruct (H p Hp E) as [p' [Hp' [H1 [H2 H3]]]]. apply existsb_exists. exists p'. split; auto.
    rewrite !andb_true_iff, !N.eqb_eq, pairwise_spec. auto.
Qed.

Lemma Forall2_impl2 {X} (P Q : X -> X -> Prop) l m : (forall x y, P x y -> Q x y) -> Forall2 P l m -> Forall2 Q l m.
Proof. intros H F. induction F; constructor; auto. Qed.

Lemma down_keep_mono A R R' x : incl R R' -> down_keep A R x = true -> down_keep A R' x = true.
Proof. destruct x as [q r]. rewrite !down_keep_spec. intros Hi H p Hp Hq.
  destruct (H p Hp Hq) as [p' [? [? [? F]]]]. exists p'. repeat split; auto.
  eapply Forall2_impl2; [|exact F]. intros x y. apply Hi. Qed.

Theorem down_sim_greatest A n :
  is_greatest (fun R => within n R /\ down_simulation A R) (rel_of (down_sim A n)).
Proof.
  unfold down_sim. destruct (refine_gfp (N * N) (down_keep A) (down_keep_mono A) (all_pairs n)) as [Hsub [Hpf _]].
  split; [split|].
  - intros q r H. apply all_pairs_In, Hsub, H.
  - intros q r H p Hp Hq. apply Hpf in H. rewrite down_keep_spec in H. apply (H p Hp Hq).
  - intros R' [Hin Hsim] q r Hqr.
    refine (refine_greatest_prop (down_keep A) (fun x => R' (fst x) (snd x)) _ _ (all_pairs n) _ (q, r) Hqr).
    + intros R [x y] HR Hx. simpl in Hx. apply down_keep_spec. intros p Hp Hq.
      destruct (Hsim x y Hx p Hp Hq) as [p' [? [? [? F]]]]. exists p'. repeat split; auto.
      eapply Forall2_impl2; [|exact F]. intros u v Huv. apply (HR (u, v)). auto.
    + intros [x y] Hxy. simpl in Hxy. apply all_pairs_In, Hin, Hxy.
Qed.

Definition states_below (A : ta) (n : nat) : Prop := forall q, In q (states A) -> (q < N.of_nat n)%N.

Lemma Forall2_refl_on {X} (P : X -> X -> Prop) l : (forall x, In x l -> P x x) -> Forall2 P l l.
Proof. induction l; intros H; constructor; [apply H; left; auto | apply IHl; intros; apply H; right; auto]. Qed.
Lemma Forall2_comp {X} (P Q : X -> X -> Prop) l m k : Forall2 P l m -> Forall2 Q m k -> Forall2 (fun x z => exists y, P x y /\ Q y z) l k.
Proof. intros F. revert k. induction F; intros k G; inversion G; subst; constructor; eauto. Qed.

Theorem down_sim_reflexive A n : states_below A n -> reflexive_on n (rel_of (down_sim A n)).
Proof.
  intros Hb q Hq. destruct (down_sim_greatest A n) as [_ Hg].
  apply (Hg (fun x y => x = y /\ (x < N.of_nat n)%N)); auto. split.
  - intros x y [<- Hx]; auto.
  - intros x y [<- Hx] p Hp Hpq. exists p. repeat split; auto. apply Forall2_refl_on.
    intros c Hc. split; auto. apply Hb. apply (rule_states A p Hp); auto.
Qed.

Theorem down_sim_transitive A n : transitive (rel_of (down_sim A n)).
Proof.
  intros x y z Hxy Hyz. destruct (down_sim_greatest A n) as [[Hin Hsim] Hg].
  set (S := rel_of (down_sim A n)) in *.
  apply (Hg (fun a c => exists b, S a b /\ S b c)); [|exists y; auto]. split.
  - intros a c [b [Hab Hbc]]. apply Hin in Hab. apply Hin in Hbc. tauto.
  - intros a c [b [Hab Hbc]] p Hp Hpa. destruct (Hsim _ _ Hab p Hp Hpa) as [p1 [Hp1 [E1 [S1 F1]]]].
    destruct (Hsim _ _ Hbc p1 Hp1 E1) as [p2 [Hp2 [E2 [S2 F2]]]]. exists p2. repeat split; auto; [congruence|].
    eapply Forall2_comp; eauto.
Qed.

(* ---------- upward ---------- *)
Lemma up_keep_spec A R q r : up_keep A R (q, r) = true <->
  forall p a b, In p (rules A) -> ch p = a ++ q :: b ->
    exists p', In p' (rules A) /\ sym p' = sym p /\ ch p' = a ++ r :: b /\ In (par p, par p') R.
Proof.
  unfold up_keep. rewrite forallb_forall. simpl. split.
  - intros H p a b Hp E. specialize (H p Hp). rewrite forallb_forall in H.
    specialize (H (a, q, b) (proj2 (splits_spec _ _ _ _) E)). simpl in H. rewrite N.eqb_refl in H.
    apply existsb_exists in H as [p' [Hp' H]]. rewrite !andb_true_iff, N.eqb_eq, listN_eqb_eq, memP_In in H.
    exists p'. tauto.
  - intros H p Hp. apply forallb_forall. intros [[a y] b] Hs. simpl. apply splits_spec in Hs.
    destruct (N.eqb_spec y q) as [->|]; auto.
    destruct (H p a b Hp Hs) as [p' [Hp' [H1 [H2 H3]]]]. apply existsb_exists. exists p'. split; auto.
    rewrite !andb_true_iff, N.eqb_eq, listN_eqb_eq, memP_In. auto.
Qed.

Lemma up_keep_mono A R R' x : incl R R' -> up_keep A R x = true -> up_keep A R' x = true.
Proof. destruct x as [q r]. rewrite !up_keep_spec. intros Hi H p a b Hp E.
  destruct (H p a b Hp E) as [p' [? [? [? ?]]]]. exists p'. auto. Qed.

Lemma up_init_In A n q r : In (q, r) (up_init A n) <->
  (q < N.of_nat n)%N /\ (r < N.of_nat n)%N /\ (In q (finals A) -> In r (finals A)).
Proof.
  unfold up_init. rewrite filter_In, all_pairs_In. simpl. split.
  - intros [[Hq Hr] H]. repeat split; auto. intros Hf. apply memN_In in Hf. rewrite Hf in H. simpl in H. apply memN_In; auto.
  - intros [Hq [Hr H]]. split; auto. destruct (memN q (finals A)) eqn:E; simpl; auto. apply memN_In, H, memN_In, E.
Qed.

Theorem up_sim_greatest A n :
  is_greatest (fun R => within n R /\ up_simulation A R) (rel_of (up_sim A n)).
Proof.
  unfold up_sim. destruct (refine_gfp (N * N) (up_keep A) (up_keep_mono A) (up_init A n)) as [Hsub [Hpf _]].
  split; [split|].
  - intros q r H. apply Hsub, up_init_In in H. tauto.
  - intros q r H. split.
    + apply Hsub, up_init_In in H. tauto.
    + intros p a b Hp E. apply Hpf in H. rewrite up_keep_spec in H. apply (H p a b Hp E).
  - intros R' [Hin Hsim] q r Hqr.
    refine (refine_greatest_prop (up_keep A) (fun x => R' (fst x) (snd x)) _ _ (up_init A n) _ (q, r) Hqr).
    + intros R [x y] HR Hx. simpl in Hx. apply up_keep_spec. intros p a b Hp E.
      destruct (proj2 (Hsim x y Hx) p a b Hp E) as [p' [? [? [? Hr]]]]. exists p'. repeat split; auto; try (apply (HR (par p, par p')); auto).
    + intros [x y] Hxy. simpl in Hxy. apply up_init_In. destruct (Hin _ _ Hxy). repeat split; auto.
      apply (Hsim _ _ Hxy).
Qed.

Theorem up_sim_reflexive A n : states_below A n -> reflexive_on n (rel_of (up_sim A n)).
Proof.
  intros Hb q Hq. destruct (up_sim_greatest A n) as [_ Hg].
  apply (Hg (fun x y => x = y /\ (x < N.of_nat n)%N)); auto. split.
  - intros x y [<- Hx]; auto.
  - intros x y [<- Hx]. split; auto. intros p a b Hp E. exists p. repeat split; auto.
    apply Hb. apply (proj1 (rule_states A p Hp)).
Qed.

Theorem up_sim_transitive A n : transitive (rel_of (up_sim A n)).
Proof.
  intros x y z Hxy Hyz. destruct (up_sim_greatest A n) as [[Hin Hsim] Hg].
  set (S := rel_of (up_sim A n)) in *.
  apply (Hg (fun a c => exists b, S a b /\ S b c)); [|exists y; auto]. split.
  - intros a c [b [Hab Hbc]]. apply Hin in Hab. apply Hin in Hbc. tauto.
  - intros a c [b [Hab Hbc]]. split.
    + intros Hf. apply (Hsim _ _ Hbc), (Hsim _ _ Hab), Hf.
    + intros p l1 l2 Hp E. destruct (proj2 (Hsim _ _ Hab) p l1 l2 Hp E) as [p1 [Hp1 [S1 [E1 R1]]]].
      destruct (proj2 (Hsim _ _ Hbc) p1 l1 l2 Hp1 E1) as [p2 [Hp2 [S2 [E2 R2]]]].
      exists p2. repeat split; auto; [congruence|]. exists (par p1). auto.
Qed.

(* ---------- equivariance under a bijective renaming of the states ---------- *)
Definition map_rel (h : N -> N) (R : relN) : relN := fun q' r' => exists q r, R q r /\ q' = h q /\ r' = h r.
(* h and g are mutually inverse bijections of 0..n-1 *)
Definition bij_on (n : nat) (h g : N -> N) : Prop :=
  forall x, (x < N.of_nat n)%N -> (h x < N.of_nat n)%N /\ g (h x) = x /\ (g x < N.of_nat n)%N /\ h (g x) = x.

Lemma image_ta_image h A : image_ta h A = image h A.
Proof. reflexivity. Qed.

Lemma image_inv h g A : (forall x, In x (states A) -> g (h x) = x) -> image g (image h A) = A.
Proof.
  intros H. destruct A as [rs fs]. unfold image. simpl. f_equal.
  - rewrite map_map. rewrite <- (map_id rs) at 2. apply map_ext_in. intros p Hp. destruct p as [s c q]. unfold map_rule. simpl.
    assert (Hs := rule_states {| rules := rs; finals := fs |} _ Hp). simpl in Hs. destruct Hs as [Hq Hc]. f_equal.
    + rewrite map_map. rewrite <- (map_id c) at 2. apply map_ext_in. intros x Hx. apply H, Hc, Hx.
    + apply H, Hq.
  - rewrite map_map. rewrite <- (map_id fs) at 2. apply map_ext_in. intros x Hx. apply H. unfold states. simpl.
    apply in_or_app. right; auto.
Qed.

Lemma image_states_below h g A n : bij_on n h g -> states_below A n -> states_below (image h A) n.
Proof. intros Hb Hs x Hx. apply image_states in Hx as [y [Hy ->]]. apply Hb, Hs, Hy. Qed.

Lemma within_map_rel n h g R : bij_on n h g -> within n R -> within n (map_rel h R).
Proof. intros Hb Hw q' r' [q [r [H [-> ->]]]]. destruct (Hw _ _ H). split; apply Hb; auto. Qed.

Lemma Forall2_map_both {X Y} (P : X -> X -> Prop) (Q : Y -> Y -> Prop) (f : X -> Y) l m :
  (forall x y, P x y -> Q (f x) (f y)) -> Forall2 P l m -> Forall2 Q (map f l) (map f m).
Proof. intros H F. induction F; simpl; constructor; auto. Qed.

Lemma down_image n h g A R : bij_on n h g -> states_below A n -> within n R ->
  down_simulation A R -> down_simulation (image h A) (map_rel h R).
Proof.
  intros Hb Hs Hw Hsim q' r' [q [r [HR [-> ->]]]] p' Hp' Hq'.
  simpl in Hp'. apply in_map_iff in Hp' as [p [<- Hp]]. simpl in Hq'.
  assert (par p = q).
  { destruct (Hw _ _ HR) as [Hq _]. assert (Hpp : (par p < N.of_nat n)%N) by (apply Hs, (proj1 (rule_states A p Hp))).
    rewrite <- (proj1 (proj2 (Hb _ Hpp))), Hq'. apply Hb; auto. }
  destruct (Hsim q r HR p Hp H) as [p2 [Hp2 [E2 [S2 F2]]]].
  exists (map_rule h p2). simpl. repeat split; auto; [apply in_map; auto | congruence|].
  eapply Forall2_map_both; [|exact F2]. intros x y Hxy. exists x, y. auto.
Qed.

Lemma up_image n h g A R : bij_on n h g -> states_below A n -> within n R ->
  up_simulation A R -> up_simulation (image h A) (map_rel h R).
Proof.
  intros Hb Hs Hw Hsim q' r' [q [r [HR [-> ->]]]]. destruct (Hw _ _ HR) as [Hq Hr]. split.
  - simpl. intros Hf. apply in_map_iff in Hf as [q0 [E Hq0]].
    assert (q0 = q).
    { assert (Hq0' : (q0 < N.of_nat n)%N) by (apply Hs; unfold states; apply in_or_app; right; auto).
      rewrite <- (proj1 (proj2 (Hb _ Hq0'))), E. apply Hb; auto. }
    subst q0. apply in_map. apply (Hsim _ _ HR), Hq0.
  - intros p' a' b' Hp' E'. simpl in Hp'. apply in_map_iff in Hp' as [p [<- Hp]]. simpl in E'. simpl.
    (* split ch p at the position of length a' *)
    assert (Hc : forall c, In c (ch p) -> (c < N.of_nat n)%N) by (intros c Hc; apply Hs, (proj2 (rule_states A p Hp)), Hc).
    assert (X : exists a b, ch p = a ++ q :: b /\ a' = map h a /\ b' = map h b).
    { clear Hp. revert a' E' Hc. induction (ch p) as [|c cs IH]; intros a' E' Hc.
      - destruct a'; discriminate.
      - destruct a' as [|x a']; simpl in E'; inversion E'; subst.
        + exists [], cs. repeat split; auto. simpl. f_equal.
          assert (Hcc : (c < N.of_nat n)%N) by (apply Hc; left; auto).
          rewrite <- (proj1 (proj2 (Hb _ Hcc))). rewrite H0. apply Hb; auto.
        + destruct (IH a' H1) as [a [b [E1 [E2 E3]]]]; [intros; apply Hc; right; auto|].
          exists (c :: a), b. subst. repeat split; auto. }
    destruct X as [a [b [E [-> ->]]]].
    destruct (proj2 (Hsim _ _ HR) p a b Hp E) as [p2 [Hp2 [S2 [E2 R2]]]].
    exists (map_rule h p2). simpl. repeat split; auto; [apply in_map; auto| |].
    + rewrite E2, map_app. reflexivity.
    + exists (par p), (par p2). auto.
Qed.

Section Equivariance.
  Variable Phi : ta -> relN -> Prop.
  Variable sim : ta -> nat -> list (N * N).
  Hypothesis sim_greatest : forall A n, is_greatest (fun R => within n R /\ Phi A R) (rel_of (sim A n)).
  Hypothesis phi_image : forall n h g A R, bij_on n h g -> states_below A n -> within n R -> Phi A R -> Phi (image h A) (map_rel h R).

  Lemma equivariant_sub n h g A : bij_on n h g -> states_below A n ->
    sub_rel (map_rel h (rel_of (sim A n))) (rel_of (sim (image h A) n)).
  Proof.
    intros Hb Hs. destruct (sim_greatest A n) as [[Hw Hp] _]. destruct (sim_greatest (image h A) n) as [_ Hg].
    apply Hg. split; [eapply within_map_rel; eauto | eapply phi_image; eauto].
  Qed.

  Theorem equivariant n h g A : bij_on n h g -> states_below A n ->
    forall q' r', In (q', r') (sim (image h A) n) <-> In (q', r') (map_pair h (sim A n)).
  Proof.
    intros Hb Hs q' r'. unfold map_pair. rewrite in_map_iff. split.
    - intros H. assert (Hb' : bij_on n g h) by (intros x Hx; destruct (Hb x Hx) as [? [? [? ?]]]; auto).
      destruct (sim_greatest (image h A) n) as [[Hw _] _]. destruct (Hw _ _ H) as [Hq Hr].
      assert (X := equivariant_sub n g h (image h A) Hb' (image_states_below h g A n Hb Hs) (g q') (g r')).
      rewrite image_inv in X by (intros x Hx; apply Hb, Hs, Hx).
      exists (g q', g r'). simpl. split.
      + f_equal; apply Hb; auto.
      + apply X. exists q', r'. auto.
    - intros [[q r] [E H]]. simpl in E. inversion E; subst. apply (equivariant_sub n h g A Hb Hs). exists q, r. auto.
  Qed.
End Equivariance.

Theorem down_sim_equivariant n h g A : bij_on n h g -> states_below A n ->
  forall q' r', In (q', r') (down_sim (image h A) n) <-> In (q', r') (map_pair h (down_sim A n)).
Proof. apply (equivariant down_simulation down_sim down_sim_greatest down_image). Qed.

Theorem up_sim_equivariant n h g A : bij_on n h g -> states_below A n ->
  forall q' r', In (q', r') (up_sim (image h A) n) <-> In (q', r') (map_pair h (up_sim A n)).
Proof. apply (equivariant up_simulation up_sim up_sim_greatest up_image). Qed.

(* ---------- gates ---------- *)
Theorem gate_down_spec A n impl : gate_down A n impl = true <->
  exists S, is_greatest (fun R => within n R /\ down_simulation A R) S /\ forall q r, In (q, r) impl <-> S q r.
Proof.
  unfold gate_down. rewrite rel_same_spec. split.
  - intros H. exists (rel_of (down_sim A n)). split; [apply down_sim_greatest | exact H].
  - intros [S [[HS HgS] H]] q r. rewrite H. destruct (down_sim_greatest A n) as [HM HgM].
    split; [apply (HgM S HS) | apply (HgS _ HM)].
Qed.

Theorem gate_up_spec A n impl : gate_up A n impl = true <->
  exists S, is_greatest (fun R => within n R /\ up_simulation A R) S /\ forall q r, In (q, r) impl <-> S q r.
Proof.
  unfold gate_up. rewrite rel_same_spec. split.
  - intros H. exists (rel_of (up_sim A n)). split; [apply up_sim_greatest | exact H].
  - intros [S [[HS HgS] H]] q r. rewrite H. destruct (up_sim_greatest A n) as [HM HgM].
    split; [apply (HgM S HS) | apply (HgS _ HM)].
Qed.

Theorem gate_equivariant_spec h base variant : gate_equivariant h base variant = true <->
  forall q' r', In (q', r') variant <-> exists q r, In (q, r) base /\ q' = h q /\ r' = h r.
Proof.
  unfold gate_equivariant, map_pair. rewrite rel_same_spec. split; intros H q' r'; rewrite H, in_map_iff.
  - split; [intros [[q r] [E Hx]]; inversion E; subst; eauto | intros [q [r [Hx [-> ->]]]]; exists (q, r); auto].
  - split; [intros [q [r [Hx [-> ->]]]]; exists (q, r); auto | intros [[q r] [E Hx]]; inversion E; subst; eauto].
Qed.

(* validity predicates *)
Lemma dense_ok_below A n : dense_ok A n = true -> states_below A n.
Proof. unfold dense_ok. rewrite andb_true_iff, forallb_forall. intros [H _] q Hq. apply N.ltb_lt, H, Hq. Qed.

Lemma perm_fun_bij n p : is_perm n p = true -> bij_on n (perm_fun p) (perm_inv p).
Proof.
  unfold is_perm. rewrite andb_true_iff, Nat.eqb_eq, forallb_forall. intros [Hl Hm].
  (* surjective onto 0..n-1 with n entries: hence a bijection *)
  assert (Hin : forall y, (y < N.of_nat n)%N -> In y p) by (intros y Hy; apply memN_In, Hm, seqN_In, Hy).
  assert (ND : NoDup p /\ incl p (seqN n)).
  { assert (NDs : NoDup (seqN n)).
    { unfold seqN. apply Injective_map_NoDup; [intros a b; apply Nat2N.inj | apply seq_NoDup]. }
    assert (I : incl (seqN n) p) by (intros y Hy; apply Hin, seqN_In, Hy).
    assert (Ls : length (seqN n) = n) by (unfold seqN; rewrite map_length, seq_length; auto).
    split.
    - apply (NoDup_incl_NoDup NDs); [lia | exact I].
    - apply (NoDup_length_incl NDs); [lia | exact I]. }
  destruct ND as [ND Hsub].
  assert (IX : forall l y i, In y l -> exists k, index_of y l i = (i + N.of_nat k)%N /\ k < length l /\ nth k l y = y /\ forall d, nth k l d = y).
  { induction l as [|x l IH]; intros y i Hy; [destruct Hy|]. simpl. destruct (N.eqb_spec x y) as [->|NE].
    - exists 0. simpl. repeat split; auto; lia.
    - destruct Hy as [->|Hy]; [congruence|]. destruct (IH y (N.succ i) Hy) as [k [E [Hk [Hn Hd]]]]. exists (S k). simpl.
      repeat split; auto; lia. }
  assert (NTH : forall l k d, NoDup l -> k < length l -> index_of (nth k l d) l 0 = N.of_nat k).
  { intros l k d NDl Hk. destruct (IX l (nth k l d) 0%N (nth_In l d Hk)) as [k' [E [Hk' [_ Hd]]]].
    rewrite E. simpl. f_equal. rewrite NoDup_nth in NDl. symmetry. apply (NDl k k' Hk Hk'). rewrite (Hd d). reflexivity. }
  intros x Hx. unfold perm_fun, perm_inv.
  assert (Hxl : N.to_nat x < length p) by lia.
  repeat split.
  - apply seqN_In, Hsub, nth_In, Hxl.
  - rewrite (NTH p _ x ND Hxl). apply N2Nat.id.
  - destruct (IX p x 0%N (Hin x Hx)) as [k [E [Hk _]]]. rewrite E. lia.
  - destruct (IX p x 0%N (Hin x Hx)) as [k [E [Hk [_ Hd]]]]. rewrite E. simpl. rewrite Nat2N.id. apply Hd.
Qed.

(* ---------- the hypotheses are satisfiable; non-vacuity ---------- *)
Example ex_ta : ta := {| rules := [ {| sym := 0; ch := []; par := 0 |}; {| sym := 1; ch := []; par := 1 |};
                                      {| sym := 0; ch := []; par := 1 |};
                                      {| sym := 3; ch := [0; 1]; par := 2 |}; {| sym := 3; ch := [1; 1]; par := 3 |} ];
                           finals := [2; 3] |}%N.
Example ex_valid : dense_ok ex_ta 4 = true /\ trimmed_ok ex_ta = true /\ ranked_ok ex_ta = true /\ is_perm 4 [2; 0; 3; 1]%N = true.
Proof. vm_compute. auto. Qed.
Example ex_down : down_sim ex_ta 4 = [(0, 0); (0, 1); (1, 1); (2, 2); (2, 3); (3, 3)]%N.
Proof. vm_compute. reflexivity. Qed.
Example ex_up : up_sim ex_ta 4 = [(0, 0); (0, 1); (1, 1); (2, 2); (2, 3); (3, 2); (3, 3)]%N.
Proof. vm_compute. reflexivity. Qed.
