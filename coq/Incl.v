From Coq Require Import List NArith Bool Arith Lia.
Import ListNotations.
From V Require Import Fix Sem Prod.

Definition QB (B : ta) : list N := nodup N.eq_dec (states B).
Lemma QB_in B q : In q (QB B) <-> In q (states B).
Proof. unfold QB. apply nodup_In. Qed.

Definition evalset (B : ta) (t : tree) : list N := filter (fun p => memN p (eval B t)) (QB B).

Definition fires (B : ta) (f : N) (Ss : list (list N)) (p : N) : bool :=
  existsb (fun r => N.eqb (sym r) f && matches (ch r) Ss && N.eqb (par r) p) (rules B).
Definition postB (B : ta) (f : N) (Ss : list (list N)) : list N := filter (fires B f Ss) (QB B).

Lemma rule_states B r : In r (rules B) -> In (par r) (states B) /\ forall c, In c (ch r) -> In c (states B).
Proof. intros Hr. unfold states. split; [|intros c Hc]; apply in_or_app; left; apply in_flat_map; exists r; simpl; auto. Qed.

Lemma matches_evalset B : forall qs ts, (forall c, In c qs -> In c (states B)) ->
  matches qs (map (evalset B) ts) = matches qs (map (eval B) ts).
Proof.
  induction qs as [|q qs IH]; intros [|t ts] Hq; simpl; auto.
  rewrite IH by (intros; apply Hq; right; auto). f_equal.
  unfold evalset. destruct (memN q (eval B t)) eqn:E.
  - apply memN_In. apply filter_In. split; auto. apply QB_in, Hq. left; auto.
  - destruct (memN q (filter _ _)) eqn:E2; auto. apply memN_In, filter_In in E2. destruct E2; congruence.
Qed.

Lemma eval_in B f ts p : In p (eval B (Node f ts)) <->
  exists r, In r (rules B) /\ sym r = f /\ matches (ch r) (map (eval B) ts) = true /\ par r = p.
Proof.
  simpl. rewrite in_flat_map. split.
  - intros [r [Hr Hp]]. destruct (N.eqb (sym r) f) eqn:E; simpl in Hp; [|contradiction].
    destruct (matches _ _) eqn:M; simpl in Hp; [|contradiction]. destruct Hp as [<-|[]].
    exists r. apply N.eqb_eq in E. auto.
  - intros [r [Hr [<- [M <-]]]]. exists r. split; auto. rewrite N.eqb_refl, M. simpl; auto.
Qed.

Lemma postB_eval B f ts : postB B f (map (evalset B) ts) = evalset B (Node f ts).
Proof.
  unfold postB. change (evalset B (Node f ts)) with (filter (fun p => memN p (eval B (Node f ts))) (QB B)).
  apply filter_ext_in. intros p Hp. unfold fires.
  destruct (memN p (eval B (Node f ts))) eqn:E.
  - apply memN_In, eval_in in E as [r [Hr [Hs [M Hpar]]]]. apply existsb_exists. exists r. split; auto.
    rewrite matches_evalset by (apply rule_states; auto). rewrite M. subst. rewrite !N.eqb_refl. auto.
  - destruct (existsb _ _) eqn:E2; auto. apply existsb_exists in E2 as [r [Hr H]].
    apply andb_true_iff in H as [H H3]. apply andb_true_iff in H as [H1 H2].
    apply N.eqb_eq in H1, H3. rewrite matches_evalset in H2 by (apply rule_states; auto).
    assert (In p (eval B (Node f ts))) by (apply eval_in; exists r; auto). apply memN_In in H. congruence.
Qed.

(* ---- reachable macro pairs ---- *)
Definition mp := (N * list N)%type.
Definition mp_eq_dec : forall x y : mp, {x = y} + {x <> y}.
Proof. decide equality; [apply (list_eq_dec N.eq_dec) | apply N.eq_dec]. Defined.

Definition lookup (R : list mp) (q : N) : list (list N) := map snd (filter (fun p => N.eqb (fst p) q) R).
Lemma lookup_in R q S : In S (lookup R q) <-> In (q, S) R.
Proof. unfold lookup. rewrite in_map_iff. split.
  - intros [[q' S'] [E H]]. simpl in E; subst. apply filter_In in H as [H E]. simpl in E. apply N.eqb_eq in E. subst; auto.
  - intros H. exists (q, S). split; auto. apply filter_In. split; auto. simpl. apply N.eqb_refl. Qed.

Fixpoint choices (R : list mp) (qs : list N) : list (list (list N)) :=
  match qs with
  | [] => [[]]
  | q :: qs' => flat_map (fun S => map (cons S) (choices R qs')) (lookup R q)
  end.
Lemma choices_in R : forall qs Ss, In Ss (choices R qs) <-> Forall2 (fun q S => In (q, S) R) qs Ss.
Proof.
  induction qs as [|q qs IH]; intros Ss; simpl.
  - split; [intros [<-|[]]; constructor | intros H; inversion H; auto].
  - rewrite in_flat_map. split.
    + intros [S [HS H]]. apply in_map_iff in H as [Ss' [<- H]]. constructor; [apply lookup_in; auto | apply IH; auto].
    + intros H. inversion H as [|? S ? Ss' H1 H2]; subst. exists S. split; [apply lookup_in; auto|].
      apply in_map_iff. exists Ss'. split; auto. apply IH; auto.
Qed.

Definition mstep (A B : ta) (R : list mp) : list mp :=
  flat_map (fun r => map (fun Ss => (par r, postB B (sym r) Ss)) (choices R (ch r))) (rules A).
Lemma mstep_in A B R x : In x (mstep A B R) <->
  exists r Ss, In r (rules A) /\ Forall2 (fun q S => In (q, S) R) (ch r) Ss /\ x = (par r, postB B (sym r) Ss).
Proof. unfold mstep. rewrite in_flat_map. split.
  - intros [r [Hr H]]. apply in_map_iff in H as [Ss [<- H]]. exists r, Ss. split; auto. split; auto. apply choices_in; auto.
  - intros [r [Ss [Hr [H ->]]]]. exists r. split; auto. apply in_map_iff. exists Ss. split; auto. apply choices_in; auto. Qed.

Lemma Forall2_impl' {X Y} (P Q : X -> Y -> Prop) l l' : (forall x y, P x y -> Q x y) -> Forall2 P l l' -> Forall2 Q l l'.
Proof. intros H F. induction F; constructor; auto. Qed.

Lemma mstep_mono A B S T : incl S T -> incl (mstep A B S) (mstep A B T).
Proof. intros H x Hx. apply mstep_in in Hx as [r [Ss [Hr [F ->]]]]. apply mstep_in. exists r, Ss. repeat split; auto.
  eapply Forall2_impl'; [|exact F]. intros; apply H; auto. Qed.

Fixpoint sublists (l : list N) : list (list N) :=
  match l with [] => [[]] | x :: r => map (cons x) (sublists r) ++ sublists r end.
Lemma filter_sublist p : forall l, In (filter p l) (sublists l).
Proof. induction l as [|x l IH]; simpl; auto. destruct (p x); apply in_or_app; [left; apply in_map; auto | right; auto]. Qed.

Definition universe (A B : ta) : list mp := list_prod (states A) (sublists (QB B)).
Lemma mstep_bounded A B S : incl S (universe A B) -> incl (mstep A B S) (universe A B).
Proof. intros _ x Hx. apply mstep_in in Hx as [r [Ss [Hr [_ ->]]]]. apply in_prod; [apply rule_states; auto | apply filter_sublist]. Qed.

Lemma sublists_length l : length (sublists l) = 2 ^ length l.
Proof. induction l as [|x l IH]; simpl; auto. rewrite app_length, map_length, IH. lia. Qed.

Lemma universe_fuel A B : S (length (universe A B)) <= 2 ^ (length (states A) + length (QB B)).
Proof.
  unfold universe, mp. rewrite prod_length, sublists_length, Nat.pow_add_r.
  set (a := length (states A)). set (p := 2 ^ length (QB B)).
  assert (Ha : a < 2 ^ a) by (apply Nat.pow_gt_lin_r; lia).
  assert (Hp : 1 <= p) by (unfold p; clear; induction (length (QB B)); simpl; lia).
  nia.
Qed.

(* 2^(|Q_A| + |Q_B|) rounds, nested (logarithmic fuel); the iteration stops at the fixpoint *)
Definition macro_reach (A B : ta) : list mp :=
  saturate2 mp mp_eq_dec (mstep A B) (length (states A) + length (QB B)) [].

Theorem macro_reach_spec A B q S : In (q, S) (macro_reach A B) <-> exists t, reach A t q /\ S = evalset B t.
Proof.
  unfold macro_reach. rewrite (saturate2_lfp mp mp_eq_dec (mstep A B) (mstep_mono A B) (universe A B) (mstep_bounded A B) _ (universe_fuel A B)).
  split.
  - intros D. remember (q, S) as x eqn:Ex. revert q S Ex. induction D as [R x _ IH Hx]. intros q S ->.
    apply mstep_in in Hx as [r [Ss [Hr [F E]]]]. inversion E; subst. clear E.
    assert (X : exists ts, Forall2 (reach A) ts (ch r) /\ Ss = map (evalset B) ts).
    { clear Hr. induction F as [|c S0 cs Ss0 H F IH2].
      - exists []. split; constructor.
      - destruct (IH (c, S0) H c S0 eq_refl) as [t [Ht ->]]. destruct IH2 as [ts [Hts ->]].
        exists (t :: ts). split; [constructor; auto | reflexivity]. }
    destruct X as [ts [Hts ->]]. exists (Node (sym r) ts). split; [constructor; auto | apply postB_eval].
  - intros [t [Ht ->]]. revert q Ht. induction t as [f ts IH] using tree_ind'. intros q Ht.
    inversion Ht as [f' ts' r Hr Hs HF]; subst.
    apply (der mp (mstep A B) (combine (ch r) (map (evalset B) ts))).
    + intros [c S0] Hin. clear Ht Hr. revert IH Hin. induction HF as [|t c0 ts cs Htc HF IH2]; intros IH Hin; simpl in Hin; [destruct Hin|].
      inversion IH as [|? ? Ht0 Hts0]; subst. destruct Hin as [E|Hin]; [inversion E; subst; apply Ht0; auto | apply IH2; auto].
    + apply mstep_in. exists r, (map (evalset B) ts). split; auto. split; [|rewrite postB_eval; reflexivity].
      clear Ht Hr IH. induction HF as [|t c0 ts cs Htc HF IH2]; simpl; constructor; [left; auto|].
      eapply Forall2_impl'; [|exact IH2]. intros; right; auto.
Qed.

Definition incl_dec (A B : ta) : bool :=
  forallb (fun p : mp => implb (memN (fst p) (finals A)) (existsb (fun q => memN q (finals B)) (snd p))) (macro_reach A B).

Definition lincl A B := forall t, accepts A t -> accepts B t.

Theorem incl_dec_spec A B : incl_dec A B = true <-> lincl A B.
Proof.
  unfold incl_dec. rewrite forallb_forall. split.
  - intros H t [q [Hq Hr]]. specialize (H (q, evalset B t)). simpl in H.
    assert (Hin : In (q, evalset B t) (macro_reach A B)) by (apply macro_reach_spec; eauto).
    specialize (H Hin). apply memN_In in Hq. rewrite Hq in H. simpl in H.
    apply existsb_exists in H as [p [Hp Hf]]. apply filter_In in Hp as [_ Hp]. apply memN_In in Hf.
    exists p. split; auto. apply eval_spec, memN_In; auto.
  - intros H [q S] Hin. simpl. apply macro_reach_spec in Hin as [t [Ht ->]].
    destruct (memN q (finals A)) eqn:Eq; simpl; auto. apply memN_In in Eq.
    destruct (H t) as [p [Hp Hr]]; [exists q; auto|].
    apply existsb_exists. exists p. split; [|apply memN_In; auto].
    apply filter_In. split; [apply QB_in; unfold states; apply in_or_app; right; auto | apply memN_In, eval_spec; auto].
Qed.
Print Assumptions incl_dec_spec.
