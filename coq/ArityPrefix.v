(* C08 — the arity prefix of the top-down BDD encoding (BDDTDTreeAutCore::addArityToSymbol): a transition of the top-down
   automaton is keyed by the 16 symbol bits followed by SYMBOL_ARITY_LENGTH = 6 bits holding the arity. Model: the key is
   sym + 2^16 * arity. Within the guards (sym < 2^16, arity <= MAX_SYMBOL_ARITY = 63) the key determines symbol and arity, so
   rules of different arities never share a key; outside the guard they can. *)
From Coq Require Import List NArith Bool Lia.
Import ListNotations.

Definition SYMBOL_BITS : N := 16.
Definition ARITY_BITS : N := 6.
Definition MAX_ARITY : N := 2 ^ ARITY_BITS - 1.
Definition td_key (sym arity : N) : N := (sym + 2 ^ SYMBOL_BITS * (arity mod 2 ^ ARITY_BITS))%N.     (* 6 bits are stored *)
Definition key_sym (k : N) : N := (k mod 2 ^ SYMBOL_BITS)%N.
Definition key_arity (k : N) : N := (k / 2 ^ SYMBOL_BITS)%N.
Definition in_guard (sym arity : N) : bool := N.ltb sym (2 ^ SYMBOL_BITS) && N.leb arity MAX_ARITY.

Theorem td_key_decode sym arity : in_guard sym arity = true -> key_sym (td_key sym arity) = sym /\ key_arity (td_key sym arity) = arity.
Proof.
  unfold in_guard, td_key, key_sym, key_arity, MAX_ARITY, SYMBOL_BITS, ARITY_BITS. rewrite andb_true_iff, N.ltb_lt, N.leb_le.
  change (2 ^ 16)%N with 65536%N. change (2 ^ 6)%N with 64%N. intros [H1 H2].
  rewrite (N.mod_small arity 64) by lia. split.
  - rewrite N.mul_comm, N.mod_add by lia. apply N.mod_small; lia.
  - rewrite N.mul_comm, N.div_add by lia. rewrite N.div_small by lia. lia.
Qed.

Theorem td_key_injective s1 a1 s2 a2 : in_guard s1 a1 = true -> in_guard s2 a2 = true -> td_key s1 a1 = td_key s2 a2 -> s1 = s2 /\ a1 = a2.
Proof.
  intros G1 G2 E. destruct (td_key_decode s1 a1 G1) as [S1 A1]. destruct (td_key_decode s2 a2 G2) as [S2 A2].
  rewrite E in S1, A1. split; congruence.
Qed.

(* outside the guard two different arities collide (the assert in addArityToSymbol is compiled out in release builds) *)
Theorem td_key_guard_needed : td_key 5 64 = td_key 5 0 /\ in_guard 5 64 = false.
Proof. vm_compute. split; reflexivity. Qed.
