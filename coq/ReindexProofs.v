(* C14 proofs: exactness of the flat images, injective => isomorphic (language and counts), any map => language
   grows, the same for symbols (language = relabelled language); the nested re-indexing written as the code
   iterates yields exactly the image (merged into the destination), keeps the store well-formed; gates. *)
From Coq Require Import List NArith Bool Lia Permutation PeanoNat.
Import ListNotations.
From V Require Import Sem Prod Incl.
From V Require TrimProofs Lang.
From V Require Import StoreDefs StoreProofs ReindexDefs.

(* ---------- flat image: exactness ---------- *)
Theorem image_exact_rules h A r' : In r' (rules (Lang.image h A)) <-> exists r, In r (rules A) /\ r' = Lang.map_rule h r.
Proof. simpl. rewrite in_map_iff. split; intros [r [H1 H2]]; exists r; auto. Qed.
Theorem image_exact_finals h A q' : In q' (finals (Lang.image h A)) <-> exists q, In q (finals A) /\ q' = h q.
Proof. simpl. rewrite in_map_iff. split; intros [r [H1 H2]]; exists r; auto. Qed.
Theorem simage_exact_rules g A r' : In r' (rules (simage g A)) <-> exists r, In r (rules A) /\ r' = smap_rule g r.
Proof. simpl. rewrite in_map_iff. split; intros [r [H1 H2]]; exists r; auto. Qed.

Lemma ta_set_eq_spec A B : ta_set_eq A B = true <->
  (forall r, In r (rules A) <-> In r (rules B)) /\ (forall q, In q (finals A) <-> In q (finals B)).
Proof. unfold ta_set_eq. rewrite andb_true_iff, set_eqR_spec, set_eqN_spec. tauto. Qed.

Lemma ta_nodup_spec R : ta_nodup R = true <-> NoDup (rules R) /\ NoDup (finals R).
Proof. unfold ta_nodup. rewrite andb_true_iff, nodupRb_spec, nodupNb_spec. tauto. Qed.

Lemma set_eq_accepts A B : (forall r, In r (rules A) <-> In r (rules B)) -> (forall q, In q (finals A) <-> In q (finals B)) ->
  forall t, accepts A t <-> accepts B t.
Proof.
  intros HR HF t. split; intros [q [Hq R]]; exists q; split; try (apply HF; auto).
  - revert R. apply TrimProofs.reach_mono. intros r Hr. apply HR; auto.
  - revert R. apply TrimProofs.reach_mono. intros r Hr. apply HR; auto.
Qed.

Lemma states_In A x : In x (states A) <-> (exists r, In r (rules A) /\ (x = par r \/ In x (ch r))) \/ In x (finals A).
Proof.
  unfold states. rewrite in_app_iff, in_flat_map. simpl. split; (intros [[r [Hr Hx]]|H]; [left; exists r; split; auto|right; auto]).
  - destruct Hx as [<-|Hx]; auto. - destruct Hx as [->|Hx]; auto.
Qed.

Lemma set_eq_states A B : (forall r, In r (rules A) <-> In r (rules B)) -> (forall q, In q (finals A) <-> In q (finals B)) ->
  forall x, In x (states A) <-> In x (states B).
Proof. intros HR HF x. rewrite !states_In. split; (intros [[r [Hr Hx]]|H]; [left; exists r; split; auto; apply HR; auto | right; apply HF; auto]). Qed.

(* ---------- counting distinct elements ---------- *)
Lemma nodup_len_seteq {X} (dec : forall a b : X, {a = b} + {a <> b}) (l m : list X) :
  (forall x, In x l <-> In x m) -> length (nodup dec l) = length (nodup dec m).
Proof.
  intros H. apply Permutation_length. apply NoDup_Permutation; try apply NoDup_nodup.
  intros x. rewrite !nodup_In. auto.
Qed.

Lemma nodup_map_len {X Y} (dx : forall a b : X, {a = b} + {a <> b}) (dy : forall a b : Y, {a = b} + {a <> b}) (f : X -> Y) l :
  (forall x y, In x l -> In y l -> f x = f y -> x = y) -> length (nodup dy (map f l)) = length (nodup dx l).
Proof.
  induction l as [|a l IH]; simpl; intros Hinj; auto.
  assert (IH' : length (nodup dy (map f l)) = length (nodup dx l)) by (apply IH; intros; apply Hinj; auto).
  destruct (in_dec dx a l) as [Hin|Hn]; destruct (in_dec dy (f a) (map f l)) as [Hin'|Hn']; simpl; auto.
  - exfalso. apply Hn'. apply in_map; auto.
  - exfalso. apply in_map_iff in Hin' as [b [E Hb]]. assert (b = a) by (apply Hinj; auto). subst; auto.
Qed.

Lemma NoDup_nodup_id {X} (dec : forall a b : X, {a = b} + {a <> b}) l : NoDup l -> nodup dec l = l.
Proof. induction 1 as [|x l Hx ND IH]; simpl; auto. destruct (in_dec dec x l); [contradiction | rewrite IH; auto]. Qed.

(* ---------- injective renaming of states: isomorphic ---------- *)
Lemma map_inj_on h S : Lang.inj_on h S -> forall l1 l2, (forall x, In x l1 -> In x S) -> (forall x, In x l2 -> In x S) ->
  map h l1 = map h l2 -> l1 = l2.
Proof.
  intros Hinj. induction l1 as [|a l1 IH]; destruct l2 as [|b l2]; simpl; intros H1 H2 E; try discriminate; auto.
  inversion E. f_equal; [apply Hinj; auto | apply IH; auto].
Qed.

Lemma map_rule_inj h A : Lang.inj_on h (states A) -> forall r1 r2, In r1 (rules A) -> In r2 (rules A) ->
  Lang.map_rule h r1 = Lang.map_rule h r2 -> r1 = r2.
Proof.
  intros Hinj r1 r2 H1 H2 E. destruct (rule_states A r1 H1) as [P1 C1]. destruct (rule_states A r2 H2) as [P2 C2].
  unfold Lang.map_rule in E. inversion E as [[Es Ec Ep]]. destruct r1, r2; simpl in *. f_equal; auto.
  eapply map_inj_on; eauto.
Qed.

Theorem image_inj_iso h A : Lang.inj_on h (states A) ->
  (forall t, accepts (Lang.image h A) t <-> accepts A t) /\
  length (nodup N.eq_dec (states (Lang.image h A))) = length (nodup N.eq_dec (states A)) /\
  length (nodup rule_eq_dec (rules (Lang.image h A))) = length (nodup rule_eq_dec (rules A)).
Proof.
  intros Hinj. split; [apply Lang.image_lang_inj; auto|]. split.
  - rewrite (nodup_len_seteq N.eq_dec (states (Lang.image h A)) (map h (states A))).
    + apply nodup_map_len. intros x y Hx Hy. apply Hinj; auto.
    + intros x. rewrite Lang.image_states, in_map_iff. split; intros [y [H1 H2]]; exists y; auto.
  - simpl. apply nodup_map_len. apply map_rule_inj; auto.
Qed.

Theorem image_lang_sup h A : forall t, accepts A t -> accepts (Lang.image h A) t.
Proof. exact (Lang.image_lang_sup h A). Qed.

(* the image depends on h only through the states of A *)
Lemma image_ext h h' A : (forall x, In x (states A) -> h x = h' x) -> Lang.image h A = Lang.image h' A.
Proof.
  intros H. unfold Lang.image. f_equal.
  - apply map_ext_in. intros r Hr. destruct (rule_states A r Hr) as [P C]. unfold Lang.map_rule. f_equal; [|apply H; auto].
    apply map_ext_in. intros c Hc. apply H; auto.
  - apply map_ext_in. intros q Hq. apply H. unfold states. apply in_or_app; auto.
Qed.

(* ---------- symbols ---------- *)
Lemma simage_states g A : states (simage g A) = states A.
Proof. unfold states. simpl. f_equal. induction (rules A) as [|r l IH]; simpl; auto. rewrite IH. auto. Qed.

Lemma reach_simage g A t q : reach A t q -> reach (simage g A) (relabel g t) q.
Proof.
  revert t q. apply Lang.reach_ind'. intros f ts r Hr Hs _ IH. simpl.
  change (par r) with (par (smap_rule g r)). constructor; simpl; auto.
  - apply in_map; auto.
  - subst; auto.
  - clear Hr Hs. induction IH; simpl; constructor; auto.
Qed.

Lemma reach_simage_inv g A : forall t' q, reach (simage g A) t' q -> exists t, t' = relabel g t /\ reach A t q.
Proof.
  apply (Lang.reach_ind' (simage g A) (fun t' q => exists t, t' = relabel g t /\ reach A t q)).
  intros f ts' r' Hr' Hs _ IH. simpl in Hr'. apply in_map_iff in Hr' as [r [<- Hr]]. simpl in *.
  assert (X : exists ts, ts' = map (relabel g) ts /\ Forall2 (reach A) ts (ch r)).
  { clear Hr Hs. induction IH as [|t' c ts' cs [t [-> Ht]] F [ts [-> Hts]]].
    - exists []. split; auto.
    - exists (t :: ts). split; auto. }
  destruct X as [ts [-> Hts]]. exists (Node (sym r) ts). simpl. subst f. split; auto. constructor; auto.
Qed.

(* the language of the symbol image is the relabelled language, for every symbol map *)
Theorem simage_lang g A t' : accepts (simage g A) t' <-> exists t, t' = relabel g t /\ accepts A t.
Proof.
  split.
  - intros [q [Hq R]]. apply reach_simage_inv in R as [t [-> R]]. exists t. split; auto. exists q; auto.
  - intros [t [-> [q [Hq R]]]]. exists q. split; auto. apply reach_simage; auto.
Qed.

Theorem simage_inj_iso g A : Lang.inj_on g (map sym (rules A)) ->
  states (simage g A) = states A /\
  length (nodup rule_eq_dec (rules (simage g A))) = length (nodup rule_eq_dec (rules A)).
Proof.
  intros Hinj. split; [apply simage_states|]. simpl. apply nodup_map_len.
  intros r1 r2 H1 H2 E.
  assert (S1 : In (sym r1) (map sym (rules A))) by (apply in_map; auto).
  assert (S2 : In (sym r2) (map sym (rules A))) by (apply in_map; auto).
  unfold smap_rule in E. inversion E as [[Es Ec Ep]]. apply Hinj in Es; auto. destruct r1, r2; simpl in *. subst; auto.
Qed.

(* ---------- gates on an implementation's result ---------- *)
Theorem gate_image_spec h A R : gate_image h A R = true <->
  NoDup (rules R) /\ NoDup (finals R) /\
  (forall r', In r' (rules R) <-> exists r, In r (rules A) /\ r' = Lang.map_rule h r) /\
  (forall q', In q' (finals R) <-> exists q, In q (finals A) /\ q' = h q).
Proof.
  unfold gate_image. rewrite andb_true_iff, ta_nodup_spec, ta_set_eq_spec. split.
  - intros [[N1 N2] [HR HF]]. repeat split; auto; try (intros X; apply image_exact_rules, HR; auto);
      try (intros X; apply HR, image_exact_rules; auto); try (intros X; apply image_exact_finals, HF; auto);
      try (intros X; apply HF, image_exact_finals; auto).
  - intros [N1 [N2 [HR HF]]]. repeat split; auto; intros X.
    + apply image_exact_rules, HR; auto. + apply HR, image_exact_rules; auto.
    + apply image_exact_finals, HF; auto. + apply HF, image_exact_finals; auto.
Qed.

Theorem gate_image_sup h A R : gate_image h A R = true -> forall t, accepts A t -> accepts R t.
Proof.
  unfold gate_image. rewrite andb_true_iff, ta_set_eq_spec. intros [_ [HR HF]] t Ht.
  apply (set_eq_accepts R (Lang.image h A) HR HF). apply image_lang_sup; auto.
Qed.

Theorem gate_image_inj h A R : gate_image h A R = true -> Lang.inj_on h (states A) ->
  (forall t, accepts R t <-> accepts A t) /\
  length (nodup N.eq_dec (states R)) = length (nodup N.eq_dec (states A)) /\
  length (rules R) = length (nodup rule_eq_dec (rules A)).
Proof.
  unfold gate_image. rewrite andb_true_iff, ta_nodup_spec, ta_set_eq_spec. intros [[N1 N2] [HR HF]] Hinj.
  destruct (image_inj_iso h A Hinj) as [L [S1 S2]]. split; [|split].
  - intros t. rewrite (set_eq_accepts R (Lang.image h A) HR HF). apply L.
  - rewrite <- S1. apply nodup_len_seteq. apply set_eq_states; auto.
  - rewrite <- S2. rewrite <- (NoDup_nodup_id rule_eq_dec (rules R) N1) at 1. apply nodup_len_seteq; auto.
Qed.

Theorem gate_simage_spec g A R : gate_simage g A R = true <->
  NoDup (rules R) /\ NoDup (finals R) /\
  (forall r', In r' (rules R) <-> exists r, In r (rules A) /\ r' = smap_rule g r) /\
  (forall q, In q (finals R) <-> In q (finals A)).
Proof.
  unfold gate_simage. rewrite andb_true_iff, ta_nodup_spec, ta_set_eq_spec. simpl. split.
  - intros [[N1 N2] [HR HF]]. repeat split; auto; intros X.
    + apply simage_exact_rules, HR; auto. + apply HR, simage_exact_rules; auto. + apply HF; auto. + apply HF; auto.
  - intros [N1 [N2 [HR HF]]]. repeat split; auto; intros X.
    + apply simage_exact_rules, HR; auto. + apply HR, simage_exact_rules; auto. + apply HF; auto. + apply HF; auto.
Qed.

Theorem gate_simage_lang g A R : gate_simage g A R = true ->
  forall t', accepts R t' <-> exists t, t' = relabel g t /\ accepts A t.
Proof.
  unfold gate_simage. rewrite andb_true_iff, ta_set_eq_spec. intros [_ [HR HF]] t'.
  rewrite (set_eq_accepts R (simage g A) HR HF). apply simage_lang.
Qed.

Theorem gate_simage_inj g A R : gate_simage g A R = true -> Lang.inj_on g (map sym (rules A)) ->
  (forall x, In x (states R) <-> In x (states A)) /\ length (rules R) = length (nodup rule_eq_dec (rules A)).
Proof.
  unfold gate_simage. rewrite andb_true_iff, ta_nodup_spec, ta_set_eq_spec. intros [[N1 N2] [HR HF]] Hinj.
  destruct (simage_inj_iso g A Hinj) as [S1 S2]. split.
  - intros x. rewrite (set_eq_states R (simage g A) HR HF). rewrite S1. tauto.
  - rewrite <- S2. rewrite <- (NoDup_nodup_id rule_eq_dec (rules R) N1) at 1. apply nodup_len_seteq; auto.
Qed.

Lemma inj_onb_spec h l : inj_onb h l = true <-> Lang.inj_on h l.
Proof.
  unfold inj_onb, Lang.inj_on. rewrite forallb_forall. split.
  - intros H x y Hx Hy E. specialize (H x Hx). rewrite forallb_forall in H. specialize (H y Hy).
    apply N.eqb_eq in E. rewrite E in H. simpl in H. apply N.eqb_eq; auto.
  - intros H x Hx. apply forallb_forall. intros y Hy. destruct (N.eqb (h x) (h y)) eqn:E; simpl; auto.
    apply N.eqb_eq in E. apply N.eqb_eq. auto.
Qed.

(* read-back translator contents *)
Theorem gate_translator_spec pre m A : gate_translator pre m A = true ->
  NoDup (keys m) /\ (forall x, In x (states A) -> exists y, get x m = Some y) /\
  (forall k v, In (k, v) pre -> get k m = Some v).
Proof.
  unfold gate_translator, functional, total_on, extends. rewrite !andb_true_iff, nodupNb_spec, !forallb_forall.
  intros [[N1 E] T]. split; auto. split.
  - intros x Hx. specialize (T x Hx). unfold has_key in T. destruct (get x m) as [y|]; [exists y; auto | discriminate].
  - intros k v H. specialize (E (k, v) H). simpl in E. destruct (get k m) as [v'|]; [|discriminate]. apply N.eqb_eq in E. subst; auto.
Qed.

(* when the map is total on the used states the offset for unlisted keys is irrelevant *)
Theorem app_map_total m A off off' : total_on m (states A) = true -> Lang.image (app_map m off) A = Lang.image (app_map m off') A.
Proof.
  unfold total_on. rewrite forallb_forall. intros T. apply image_ext. intros x Hx. specialize (T x Hx).
  unfold app_map, has_key in *. destruct (get x m); [auto | discriminate].
Qed.

(* ---------- nested re-indexing ---------- *)
Definition wfc0 (cl : cluster) : Prop := NoDup (keys cl) /\ Forall wf_ts (vals cl).

Lemma In_reindex_ts h ts0 : forall d t, In t (reindex_ts h ts0 d) <-> In t d \/ In t (map (map h) ts0).
Proof.
  unfold reindex_ts. induction ts0 as [|t0 ts0 IH]; simpl; intros d t; [tauto|].
  rewrite IH, In_ins. split; [intros [[->|H]|H]; auto | intros [H|[<-|H]]; auto].
Qed.

Lemma reindex_ts_NoDup h ts0 : forall d, NoDup d -> NoDup (reindex_ts h ts0 d).
Proof. unfold reindex_ts. induction ts0 as [|t0 ts0 IH]; simpl; intros d ND; auto. apply IH. apply ins_wf; auto. Qed.

Lemma reindex_ts_wf h ts0 d : ts0 <> [] \/ d <> [] -> NoDup d -> wf_ts (reindex_ts h ts0 d).
Proof.
  intros Hne ND. split; [apply reindex_ts_NoDup; auto|]. intros E.
  assert (X : forall t, ~ In t (reindex_ts h ts0 d)) by (rewrite E; intros t []).
  destruct Hne as [Hne|Hne].
  - destruct ts0 as [|t0 ts0]; [congruence|]. apply (X (map h t0)). apply In_reindex_ts. right. simpl; auto.
  - destruct d as [|t0 d]; [congruence|]. apply (X t0). apply In_reindex_ts. left. simpl; auto.
Qed.

Lemma ccontains_getd k (cl : cluster) t : memT t (getd k [] cl) = ccontains cl k t.
Proof. unfold getd, ccontains, cluster, tset in *. destruct (get k cl); reflexivity. Qed.

Lemma ccontains_reindex_cl h cl0 : forall d a t,
  ccontains (reindex_cl h cl0 d) a t = true <->
  ccontains d a t = true \/ exists ts0, In (a, ts0) cl0 /\ In t (map (map h) ts0).
Proof.
  unfold reindex_cl. induction cl0 as [|[a0 ts0] cl0 IH]; simpl; intros d a t.
  - split; auto. intros [H|[ts [[] _]]]; auto.
  - rewrite IH. unfold ccontains at 1. rewrite get_upd. destruct (N.eqb a a0) eqn:E.
    + apply N.eqb_eq in E. subst a0. rewrite memT_In, In_reindex_ts, <- memT_In, ccontains_getd. split.
      * intros [[H|H]|[ts [H1 H2]]]; auto; right; [exists ts0 | exists ts]; auto.
      * intros [H|[ts [[H1|H1] H2]]]; auto; [inversion H1; subst; auto | right; exists ts; auto].
    + fold (ccontains d a t). split.
      * intros [H|[ts [H1 H2]]]; auto. right. exists ts; auto.
      * intros [H|[ts [[H1|H1] H2]]]; auto; [inversion H1; subst; rewrite N.eqb_refl in E; discriminate | right; exists ts; auto].
Qed.

Lemma reindex_cl_wfc0 h cl0 : Forall (fun ts => ts <> []) (vals cl0) -> forall d, wfc0 d -> wfc0 (reindex_cl h cl0 d).
Proof.
  unfold reindex_cl. induction cl0 as [|[a0 ts0] cl0 IH]; simpl; intros HF d W; auto.
  inversion HF as [|? ? Hne HF']; subst. apply IH; auto. destruct W as [ND HW]. split; [apply keys_upd_NoDup; auto|].
  apply vals_upd; auto.
  - intros _. apply reindex_ts_wf; auto. constructor.
  - intros v _ [Hv _]. apply reindex_ts_wf; auto.
Qed.

Lemma fold_upd_nonempty {V X} (k : X -> N) (f : X -> V -> V) (dv : V) l : forall d : list (N * V), d <> [] ->
  fold_left (fun d e => upd (k e) dv (f e) d) l d <> [].
Proof. induction l as [|e l IH]; simpl; intros d H; auto. apply IH. apply upd_nonempty. Qed.

Lemma reindex_cl_wf h cl0 d : Forall (fun ts => ts <> []) (vals cl0) -> cl0 <> [] \/ d <> [] -> wfc0 d -> wf_cl (reindex_cl h cl0 d).
Proof.
  intros HF Hne W. destruct (reindex_cl_wfc0 h cl0 HF d W) as [ND HW]. split; auto. split; auto.
  unfold reindex_cl. destruct Hne as [Hne|Hne].
  - destruct cl0 as [|e cl0]; [congruence|]. simpl. apply fold_upd_nonempty. apply upd_nonempty.
  - apply fold_upd_nonempty; auto.
Qed.

Definition src_ok (S : store) : Prop := Forall (fun cl => cl <> [] /\ Forall (fun ts => ts <> []) (vals cl)) (vals S).

Lemma wf_src_ok S : wf_st S -> src_ok S.
Proof.
  intros [_ HF]. unfold src_ok. eapply Forall_impl; [|exact HF]. intros cl [_ [Hne Hts]]. split; auto.
  eapply Forall_impl; [|exact Hts]. intros ts [_ Hn]; auto.
Qed.

Lemma contains_as_ccontains (s : store) r :
  contains s r = match get (par r) s with Some cl => ccontains cl (sym r) (ch r) | None => false end.
Proof. reflexivity. Qed.

Lemma contains_getd (s : store) r : ccontains (getd (par r) [] s) (sym r) (ch r) = contains s r.
Proof. rewrite contains_as_ccontains. unfold getd, store, cluster, tset in *. destruct (get (par r) s); reflexivity. Qed.

Lemma contains_reindex h S : forall D r,
  contains (reindex_nested h S D) r = true <->
  contains D r = true \/ exists q cl ts0, In (q, cl) S /\ par r = h q /\ In (sym r, ts0) cl /\ In (ch r) (map (map h) ts0).
Proof.
  unfold reindex_nested. induction S as [|[q0 cl0] S IH]; simpl; intros D r.
  - split; auto. intros [H|[q [cl [ts [[] _]]]]]; auto.
  - rewrite IH. rewrite (contains_as_ccontains (upd _ _ _ _)). rewrite get_upd. destruct (N.eqb (par r) (h q0)) eqn:E.
    + apply N.eqb_eq in E. rewrite ccontains_reindex_cl. rewrite <- E, contains_getd. split.
      * intros [[H|[ts [H1 H2]]]|[q [cl [ts [H1 H2]]]]]; auto; right; [exists q0, cl0, ts | exists q, cl, ts]; auto.
      * intros [H|[q [cl [ts [[H1|H1] [H2 [H3 H4]]]]]]]; auto.
        -- inversion H1; subst. left. right. exists ts; auto.
        -- right. exists q, cl, ts; auto.
    + rewrite <- contains_as_ccontains. split.
      * intros [H|[q [cl [ts [H1 H2]]]]]; auto. right. exists q, cl, ts. tauto.
      * intros [H|[q [cl [ts [[H1|H1] [H2 H3]]]]]]; auto.
        -- inversion H1; subst. rewrite H2, N.eqb_refl in E. discriminate.
        -- right. exists q, cl, ts; auto.
Qed.

Lemma reindex_nested_wf h S : src_ok S -> forall D, wf_st D -> wf_st (reindex_nested h S D).
Proof.
  unfold reindex_nested, src_ok. induction S as [|[q0 cl0] S IH]; simpl; intros HS D W; auto.
  inversion HS as [|? ? [Hne Hts] HS']; subst. apply IH; auto. destruct W as [ND HF]. split; [apply keys_upd_NoDup; auto|].
  apply vals_upd; auto.
  - intros _. apply reindex_cl_wf; auto. split; constructor.
  - intros v _ [Hk [Hn Hv]]. apply reindex_cl_wf; auto. split; auto.
Qed.

Lemma image_of_iter h S r : (exists q cl ts0, In (q, cl) S /\ par r = h q /\ In (sym r, ts0) cl /\ In (ch r) (map (map h) ts0)) <->
  exists r0, In r0 (iter S) /\ r = Lang.map_rule h r0.
Proof.
  split.
  - intros [q [cl [ts0 [H1 [H2 [H3 H4]]]]]]. apply in_map_iff in H4 as [t0 [E Ht0]].
    exists (mkrule q (sym r) t0). split.
    + apply In_iter. exists cl, ts0. simpl; auto.
    + unfold Lang.map_rule, mkrule. simpl. destruct r; simpl in *. subst; auto.
  - intros [r0 [H ->]]. apply In_iter in H as [cl [ts [H1 [H2 H3]]]]. exists (par r0), cl, ts. simpl.
    split; auto. split; auto. split; auto. apply in_map; auto.
Qed.

(* the nested re-indexing, written as the code iterates, yields exactly destination + image, each rule once *)
Theorem reindex_nested_image h S D : wf_st S -> wf_st D ->
  NoDup (iter (reindex_nested h S D)) /\
  forall r, In r (iter (reindex_nested h S D)) <-> In r (iter D) \/ exists r0, In r0 (iter S) /\ r = Lang.map_rule h r0.
Proof.
  intros WS WD. assert (W : wf_st (reindex_nested h S D)) by (apply reindex_nested_wf; auto; apply wf_src_ok; auto).
  split; [apply iter_nodup_wf; auto|]. intros r. rewrite (iter_contains _ _ W), contains_reindex, image_of_iter, (iter_contains _ _ WD). tauto.
Qed.

Lemma In_fold_addN_map (h : N -> N) (fs : list N) : forall d x, In x (fold_left (fun l q => addN (h q) l) fs d) <-> In x d \/ In x (map h fs).
Proof. induction fs as [|f fs IH]; simpl; intros d x; [tauto|]. rewrite IH, In_addN. split; [intros [[->|H]|H]; auto | intros [H|[<-|H]]; auto]. Qed.
Lemma fold_addN_map_NoDup (h : N -> N) (fs : list N) : forall d, NoDup d -> NoDup (fold_left (fun l q => addN (h q) l) fs d).
Proof. induction fs; simpl; intros; auto. apply IHfs. apply addN_NoDup; auto. Qed.

Theorem reindex_aut_wf h addf a d : wf a -> wf d -> wf (reindex_aut h addf a d).
Proof.
  intros [Wa Fa] [Wd Fd]. split; simpl.
  - apply reindex_nested_wf; auto. apply wf_src_ok; auto.
  - destruct addf; auto. apply fold_addN_map_NoDup; auto.
Qed.

Theorem reindex_model_passes h addf a d : wf a -> wf d ->
  gate_reindex h addf (flat a) (flat d) (flat (reindex_aut h addf a d)) = true.
Proof.
  intros [Wa Fa] [Wd Fd]. unfold gate_reindex. rewrite andb_true_iff, ta_nodup_spec, ta_set_eq_spec.
  destruct (reindex_nested_image h (st a) (st d) Wa Wd) as [ND HI]. split; [split|split]; simpl.
  - auto.
  - destruct addf; auto. apply fold_addN_map_NoDup; auto.
  - intros r. rewrite HI. destruct addf; simpl; rewrite in_app_iff, in_map_iff; split; (intros [H|[r0 [H1 H2]]]; [left; auto | right; exists r0; auto]).
  - intros q. destruct addf; simpl.
    + rewrite In_fold_addN_map, in_app_iff. tauto.
    + rewrite app_nil_r. tauto.
Qed.

(* TranslateSymbols as coded *)
Lemma fold_add_contains (f : rule -> rule) l : forall D r', contains (fold_left (fun D r => add_rule (f r) D) l D) r' = true <->
  contains D r' = true \/ exists r0, In r0 l /\ r' = f r0.
Proof.
  induction l as [|r l IH]; simpl; intros D r'.
  - split; auto. intros [H|[r0 [[] _]]]; auto.
  - rewrite IH, contains_add, orb_true_iff, rule_eqb_eq. split.
    + intros [[H|H]|[r0 [H1 H2]]]; auto; right; [exists r; auto | exists r0; auto].
    + intros [H|[r0 [[H1|H1] H2]]]; auto; [subst; auto | right; exists r0; auto].
Qed.
Lemma fold_add_wf (f : rule -> rule) l : forall D, wf_st D -> wf_st (fold_left (fun D r => add_rule (f r) D) l D).
Proof. induction l; simpl; intros; auto. apply IHl. apply add_rule_wf; auto. Qed.

Theorem translate_model_passes g a : wf a -> gate_simage g (flat a) (flat (translate_aut g a)) = true.
Proof.
  intros [Wa Fa]. apply gate_simage_spec. simpl.
  assert (W : wf_st (fold_left (fun D r => add_rule (smap_rule g r) D) (iter (st a)) [])) by (apply fold_add_wf; split; constructor).
  split; [apply iter_nodup_wf; auto|]. split; auto. split; [|tauto].
  intros r'. rewrite (iter_contains _ _ W), fold_add_contains. split.
  - intros [H|H]; auto. discriminate.
  - auto.
Qed.

(* the automaton the driver builds from a flat description *)
Lemma live_map_Add l fs r : In r (live (map Add l ++ [SetFinals fs])) <-> In r l.
Proof.
  rewrite live_snoc. simpl. induction l as [|x l IH] using rev_ind; simpl; [tauto|].
  rewrite map_app. simpl. rewrite live_snoc. simpl. rewrite IH, in_app_iff. simpl. tauto.
Qed.
Lemma livef_map_Add l fs q : In q (livef (map Add l ++ [SetFinals fs])) <-> In q fs.
Proof.
  rewrite livef_snoc. simpl. rewrite in_app_iff.
  assert (E : livef (map Add l) = []).
  { induction l as [|x l IH] using rev_ind; auto. rewrite map_app. simpl. rewrite livef_snoc. simpl. auto. }
  rewrite E. simpl. tauto.
Qed.

Theorem of_ta_flat A : wf (of_ta A) /\ ta_set_eq (flat (of_ta A)) A = true.
Proof.
  split; [apply run_wf|]. apply ta_set_eq_spec. unfold of_ta, flat. simpl. split.
  - intros r. rewrite iter_complete. apply live_map_Add.
  - intros q. rewrite finals_run. apply livef_map_Add.
Qed.

Lemma image_set_eq h A B : ta_set_eq A B = true -> ta_set_eq (Lang.image h A) (Lang.image h B) = true.
Proof.
  rewrite !ta_set_eq_spec. intros [HR HF]. simpl. split; intros x; rewrite !in_map_iff; split; intros [y [H1 H2]]; exists y; split; auto;
    try (apply HR; auto); try (apply HF; auto).
Qed.

(* end to end for the model: build A as the driver does, re-index into a fresh automaton => passes gate_image *)
Theorem model_image_passes h A : gate_image h A (flat (reindex_aut h true (of_ta A) init)) = true.
Proof.
  destruct (of_ta_flat A) as [W E].
  pose proof (reindex_model_passes h true (of_ta A) init W init_wf) as G.
  unfold gate_reindex in G. unfold gate_image. apply andb_true_iff in G as [G1 G2]. rewrite G1. simpl.
  apply ta_set_eq_spec. apply ta_set_eq_spec in G2 as [HR HF]. apply (image_set_eq h) in E. apply ta_set_eq_spec in E as [ER EF].
  split.
  - intros r. rewrite HR. simpl. rewrite <- ER. simpl. tauto.
  - intros q. rewrite HF. simpl. rewrite <- EF. simpl. tauto.
Qed.

(* the hypotheses of the gate theorems are satisfiable *)
Example gate_image_example :
  let A := {| rules := [ {| sym := 0; ch := []; par := 1 |}; {| sym := 2; ch := [1; 2]; par := 2 |} ]; finals := [2] |}%N in
  let h := app_map [(1, 7); (2, 7)]%N 0 in
  gate_image h A (flat (reindex_aut h true (of_ta A) init)) = true /\ inj_onb h (states A) = false /\
  gate_translator [(1, 7)]%N [(1, 7); (2, 7)]%N A = true.
Proof. vm_compute. auto. Qed.
