(* C16 (A) increment, second layer — the refinement loop of LtsWorkDefs.v with the counters of the code (SharedCounter):
   counter (b, q, r0) = number of b-transitions of r0 into states still related to q, kept for the labels b that enter q;
   erasing a pair (q, r) decrements the counter of every transition r0 -b-> r, and r0 enters the remove set of q for b when
   the counter reaches zero (processRemove: `if (!b1->counter_.decr(a, pre)) enqueueToRemove(b1, a, pre)`).
   Definitions only (extracted); proofs in LtsCountProofs.v. *)
From Coq Require Import List NArith Bool Arith.
Import ListNotations.
From V Require Import Gfp LtsSimDefs LtsWorkDefs.

Definition trip_eqb (x y : trip) : bool :=
  N.eqb (fst (fst x)) (fst (fst y)) && N.eqb (snd (fst x)) (snd (fst y)) && N.eqb (snd x) (snd y).
Definition cnt_t := list (trip * nat).            (* (b, q, r0) |-> number of b-transitions of r0 into states related to q *)
Fixpoint cnt_get (c : cnt_t) (k : trip) : nat :=
  match c with [] => 0 | (k', v) :: c' => if trip_eqb k k' then v else cnt_get c' k end.
Definition cnt_set (c : cnt_t) (k : trip) (v : nat) : cnt_t := (k, v) :: c.

Definition count_succ (L : lts) (R : list (N * N)) (b q r0 : N) : nat :=
  length (filter (fun e => N.eqb (esrc e) r0 && N.eqb (elab e) b && memP (q, edst e) R) L).
(* init(): counters of all keys (b, q, r0) with b entering q and r0 in delta1[b] *)
Definition init_counts (L : lts) (R : list (N * N)) : cnt_t :=
  flat_map (fun e1 => map (fun e2 => ((elab e1, edst e1, esrc e2), count_succ L R (elab e1) (edst e1) (esrc e2))) L) L.

(* erasing (q, r): every transition e = r0 -b-> r decrements counter (b, q, r0); at zero r0 enters the remove set *)
(* label b enters q (b in inset(q)): only then the block of q keeps counters for b *)
Definition enters (L : lts) (b q : N) : bool := existsb (fun e => N.eqb (elab e) b && N.eqb (edst e) q) L.
Definition decr_edge (L : lts) (q r : N) (st : cnt_t * list trip) (e : N * N * N) : cnt_t * list trip :=
  if N.eqb (edst e) r && enters L (elab e) q then
    let k := (elab e, q, esrc e) in
    let v := pred (cnt_get (fst st) k) in
    (cnt_set (fst st) k v, if Nat.eqb v 0 then snd st ++ [k] else snd st)
  else st.
Definition decr_pair (L : lts) (st : cnt_t * list trip) (x : N * N) : cnt_t * list trip :=
  fold_left (decr_edge L (fst x) (snd x)) L st.

Fixpoint hhkc (L : lts) (lifo : bool) (fuel : nat) (R : list (N * N)) (c : cnt_t) (Rem : list trip) : option (list (N * N)) :=
  match fuel with
  | 0 => None
  | S f =>
      match Rem with
      | [] => Some R
      | (a, q', r) :: Rem' =>
          let V := victims L a q' r in
          let gone := filter (fun x => memP x V) R in
          let R' := filter (fun x => negb (memP x V)) R in
          let st := fold_left (decr_pair L) gone (c, []) in
          hhkc L lifo f R' (fst st) (if lifo then snd st ++ Rem' else Rem' ++ snd st)
      end
  end.

Definition hhkc_sim (L : lts) (lifo : bool) (fuel : nat) (n : nat) (part : list (list N)) (brel : list (N * N)) : option (list (N * N)) :=
  let R1 := prune_enabled L (init_rel n part brel) in hhkc L lifo fuel R1 (init_counts L R1) (init_removes L R1).

(* the same run with the counters computed before init()'s pruning (refuted in the proofs file: a counter that starts too high
   never reaches zero) *)
Definition hhkc_sim_stale (L : lts) (lifo : bool) (fuel : nat) (n : nat) (part : list (list N)) (brel : list (N * N)) : option (list (N * N)) :=
  let R0 := init_rel n part brel in
  let R1 := prune_enabled L R0 in hhkc L lifo fuel R1 (init_counts L R0) (init_removes L R1).
