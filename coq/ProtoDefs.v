(* C20 (the part that is logic) — protocol models of the address-keyed memo of Util::Cache + CachedBinaryOp under
   ADDRESS REUSE, and of CachingAllocator as a pool state machine. Definitions only (extracted). *)
From Coq Require Import List NArith Bool.
Import ListNotations.

(* ---------- hash-consing cache + memo keyed by addresses ---------- *)
Section Memo.
Variable V : Type.                       (* values stored in the cache (state sets) *)
Variable veqb : V -> V -> bool.
Variable f : V -> V -> bool.             (* the memoised binary operation (e.g. simulation-lifted inclusion) *)

Record mstate := { live : list (N * V); memo : list ((N * N) * bool) }.
Definition minit : mstate := {| live := []; memo := [] |}.

Definition addr_of (s : mstate) (v : V) : option N :=
  match find (fun e => veqb (snd e) v) (live s) with Some e => Some (fst e) | None => None end.
Definition val_of (s : mstate) (a : N) : option V :=
  match find (fun e => N.eqb (fst e) a) (live s) with Some e => Some (snd e) | None => None end.
Definition is_live (s : mstate) (a : N) : bool := existsb (fun e => N.eqb (fst e) a) (live s).

Inductive mop :=
| MAlloc (v : V) (a : N)     (* cache.lookup(v): existing object or a new one at address a chosen by the allocator *)
| MRelease (a : N)           (* last shared_ptr to the object at a dies: deleter invalidates, then the store forgets it *)
| MLookup (a b : N).         (* memo.lookup(a, b, f) *)

Definition invalidate (a : N) (m : list ((N * N) * bool)) : list ((N * N) * bool) :=
  filter (fun e => negb (N.eqb (fst (fst e)) a) && negb (N.eqb (snd (fst e)) a)) m.

Definition memo_find (m : list ((N * N) * bool)) (a b : N) : option bool :=
  match find (fun e => N.eqb (fst (fst e)) a && N.eqb (snd (fst e)) b) m with Some e => Some (snd e) | None => None end.

(* [inval] = whether the cache's deleter invalidates the memo (the code does; false models a forgotten deleter) *)
Definition mstep (inval : bool) (s : mstate) (o : mop) : mstate * option bool :=
  match o with
  | MAlloc v a =>
      match addr_of s v with
      | Some _ => (s, None)
      | None => if is_live s a then (s, None)                    (* the allocator never hands out a live address *)
                else ({| live := (a, v) :: live s; memo := memo s |}, None)
      end
  | MRelease a =>
      ({| live := filter (fun e => negb (N.eqb (fst e) a)) (live s);
          memo := if inval then invalidate a (memo s) else memo s |}, None)
  | MLookup a b =>
      match val_of s a, val_of s b with
      | Some x, Some y =>
          match memo_find (memo s) a b with
          | Some r => (s, Some r)
          | None => let r := f x y in ({| live := live s; memo := ((a, b), r) :: memo s |}, Some r)
          end
      | _, _ => (s, None)                                        (* clients only look up live objects *)
      end
  end.

Fixpoint mrun (inval : bool) (s : mstate) (ops : list mop) : mstate * list (option bool) :=
  match ops with
  | [] => (s, [])
  | o :: r => let (s1, out) := mstep inval s o in let (s2, outs) := mrun inval s1 r in (s2, out :: outs)
  end.
End Memo.

(* ---------- CachingAllocator: free list + live set ---------- *)
Record pstate := { pfree : list N; plive : list N; pnext : N }.
Definition pinit : pstate := {| pfree := []; plive := []; pnext := 0 |}.
Inductive pop := PAlloc | PReclaim (p : N).

Definition pstep (s : pstate) (o : pop) : pstate * option N :=
  match o with
  | PAlloc =>
      match pfree s with
      | p :: r => ({| pfree := r; plive := p :: plive s; pnext := pnext s |}, Some p)
      | [] => ({| pfree := []; plive := pnext s :: plive s; pnext := N.succ (pnext s) |}, Some (pnext s))
      end
  | PReclaim p => ({| pfree := p :: pfree s; plive := filter (fun q => negb (N.eqb q p)) (plive s); pnext := pnext s |}, None)
  end.
Fixpoint prun (s : pstate) (ops : list pop) : pstate * list (option N) :=
  match ops with
  | [] => (s, [])
  | o :: r => let (s1, out) := pstep s o in let (s2, outs) := prun s1 r in (s2, out :: outs)
  end.
(* client discipline: only live pointers are reclaimed *)
Definition pop_ok (s : pstate) (o : pop) : bool :=
  match o with PAlloc => true | PReclaim p => existsb (N.eqb p) (plive s) end.
