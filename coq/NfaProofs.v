(* C09 / C10 — proofs about the word-automata models of NfaDefs.v (all automata, no bounds). *)
From Coq Require Import List NArith Bool Arith Lia.
Import ListNotations.
From V Require Import Fix Sem Prod Incl TrimDefs TrimProofs Lang NfaDefs.

(* ---------- helpers ---------- *)
Lemma edge_eta (e : edge) : e = (esrc e, esym e, edst e).
Proof. destruct e as [[p a] q]; reflexivity. Qed.

Lemma nstates_start A p : In p (nstarts A) -> In p (nstates A).
Proof. intros H. unfold nstates. apply in_or_app; auto. Qed.
Lemma nstates_final A p : In p (nfinals A) -> In p (nstates A).
Proof. intros H. unfold nstates. apply in_or_app; right. apply in_or_app; auto. Qed.
Lemma nstates_edge A p a q : In (p, a, q) (edges A) -> In p (nstates A) /\ In q (nstates A).
Proof.
  intros H. unfold nstates. split; apply in_or_app; right; apply in_or_app; right; apply in_flat_map;
    exists (p, a, q); simpl; auto.
Qed.
Lemma nstates_inv A x : In x (nstates A) ->
  In x (nstarts A) \/ In x (nfinals A) \/ exists e, In e (edges A) /\ (x = esrc e \/ x = edst e).
Proof.
  unfold nstates. rewrite !in_app_iff, in_flat_map. intros [H|[H|[e [He Hx]]]]; auto.
  right; right. exists e. split; auto. simpl in Hx. destruct Hx as [<-|[<-|[]]]; auto.
Qed.

Lemma wpath_mono A B : incl (edges A) (edges B) -> forall w p q, wpath A w p q -> wpath B w p q.
Proof.
  intros Hi. induction w as [|a w IH]; simpl; intros p q H; auto.
  destruct H as [m [He H]]. exists m. split; auto.
Qed.

Lemma wpath_end A : forall w p q, In p (nstates A) -> wpath A w p q -> In q (nstates A).
Proof.
  induction w as [|a w IH]; simpl; intros p q Hp H.
  - subst; auto.
  - destruct H as [m [He H]]. apply (IH m); auto. apply nstates_edge in He. tauto.
Qed.

Lemma subN_incl l m : subN l m = true <-> incl l m.
Proof. apply subN_spec. Qed.

Lemma edge_eqb_eq e f : edge_eqb e f = true <-> e = f.
Proof.
  unfold edge_eqb. rewrite !andb_true_iff, !N.eqb_eq. split.
  - intros [[H1 H2] H3]. rewrite (edge_eta e), (edge_eta f). congruence.
  - intros ->; auto.
Qed.
Lemma memE_In e l : memE e l = true <-> In e l.
Proof.
  unfold memE. rewrite existsb_exists. split.
  - intros [f [Hf E]]. apply edge_eqb_eq in E. subst; auto.
  - intros H. exists e. split; auto. apply edge_eqb_eq; auto.
Qed.
Lemma subE_incl l m : subE l m = true <-> incl l m.
Proof. unfold subE. rewrite forallb_forall. split; intros H e He; [apply memE_In, H, He | apply memE_In, H, He]. Qed.

Lemma nfa_sub_spec A B : nfa_sub A B = true <->
  incl (nstarts A) (nstarts B) /\ incl (nfinals A) (nfinals B) /\ incl (edges A) (edges B).
Proof. unfold nfa_sub. rewrite !andb_true_iff, !subN_incl, subE_incl. tauto. Qed.

Theorem nfa_sub_lang A B : nfa_sub A B = true -> wlincl A B.
Proof.
  intros H. apply nfa_sub_spec in H as [Hs [Hf He]]. intros w [p [q [Hp [Hq Hw]]]].
  exists p, q. split; auto. split; auto. eapply wpath_mono; eauto.
Qed.

Theorem nfa_same_lang A B : nfa_same A B = true -> forall w, waccepts A w <-> waccepts B w.
Proof. unfold nfa_same. rewrite andb_true_iff. intros [H1 H2] w. split; apply nfa_sub_lang; auto. Qed.

(* ---------- union ---------- *)
Lemma napp_path_l A B : disjoint (nstates A) (nstates B) ->
  forall w p q, In p (nstates A) -> wpath (napp A B) w p q -> wpath A w p q.
Proof.
  intros D. induction w as [|a w IH]; simpl; intros p q Hp H; auto.
  destruct H as [m [He H]]. apply in_app_or in He as [He|He].
  - exists m. split; auto. apply IH; auto. apply nstates_edge in He. tauto.
  - exfalso. apply (D p); auto. apply nstates_edge in He. tauto.
Qed.
Lemma napp_path_r A B : disjoint (nstates A) (nstates B) ->
  forall w p q, In p (nstates B) -> wpath (napp A B) w p q -> wpath B w p q.
Proof.
  intros D. induction w as [|a w IH]; simpl; intros p q Hp H; auto.
  destruct H as [m [He H]]. apply in_app_or in He as [He|He].
  - exfalso. apply (D p); auto. apply nstates_edge in He. tauto.
  - exists m. split; auto. apply IH; auto. apply nstates_edge in He. tauto.
Qed.

Theorem napp_lang A B : disjoint (nstates A) (nstates B) ->
  forall w, waccepts (napp A B) w <-> waccepts A w \/ waccepts B w.
Proof.
  intros D w. split.
  - intros [p [q [Hp [Hq H]]]]. simpl in Hp, Hq. apply in_app_or in Hp as [Hp|Hp].
    + left. apply nstates_start in Hp as Hp'. apply napp_path_l in H; auto.
      exists p, q. split; auto. split; auto. apply in_app_or in Hq as [Hq|Hq]; auto.
      exfalso. apply (D q); [eapply wpath_end; eauto | apply nstates_final; auto].
    + right. apply nstates_start in Hp as Hp'. apply napp_path_r in H; auto.
      exists p, q. split; auto. split; auto. apply in_app_or in Hq as [Hq|Hq]; auto.
      exfalso. apply (D q); [apply nstates_final; auto | eapply wpath_end; eauto].
  - intros [[p [q [Hp [Hq H]]]]|[p [q [Hp [Hq H]]]]]; exists p, q; simpl; (split; [apply in_or_app; auto|]);
      (split; [apply in_or_app; auto|]); (eapply wpath_mono; [|exact H]); simpl.
    + apply incl_appl, incl_refl.
    + apply incl_appr, incl_refl.
Qed.

Lemma nimage_path h A : forall w p q, wpath A w p q -> wpath (nimage h A) w (h p) (h q).
Proof.
  induction w as [|a w IH]; simpl; intros p q H.
  - congruence.
  - destruct H as [m [He H]]. exists (h m). split; auto.
    apply in_map_iff. exists (p, a, m). split; auto.
Qed.

Lemma nimage_path_inv h A : inj_on h (nstates A) ->
  forall w p q', In p (nstates A) -> wpath (nimage h A) w (h p) q' ->
  exists q, q' = h q /\ In q (nstates A) /\ wpath A w p q.
Proof.
  intros Hinj. induction w as [|a w IH]; simpl; intros p q' Hp H.
  - exists p. auto.
  - destruct H as [m' [He H]]. apply in_map_iff in He as [[[p1 a1] m1] [E He]].
    unfold map_edge in E. simpl in E. inversion E; subst. clear E.
    destruct (nstates_edge _ _ _ _ He) as [Hp1 Hm1].
    assert (p1 = p) by (apply Hinj; auto). subst.
    destruct (IH m1 q' Hm1 H) as [q [E [Hq Hw]]]. exists q. split; auto. split; auto. exists m1. auto.
Qed.

Theorem nimage_lang h A : inj_on h (nstates A) -> forall w, waccepts (nimage h A) w <-> waccepts A w.
Proof.
  intros Hinj w. split.
  - intros [p' [q' [Hp [Hq H]]]]. simpl in Hp, Hq.
    apply in_map_iff in Hp as [p [<- Hp]]. apply in_map_iff in Hq as [f [<- Hf]].
    destruct (nimage_path_inv h A Hinj w p (h f) (nstates_start _ _ Hp) H) as [q [E [Hq Hw]]].
    assert (f = q) by (apply Hinj; auto; apply nstates_final; auto). subst.
    exists p, q. auto.
  - intros [p [q [Hp [Hq H]]]]. exists (h p), (h q). simpl. split; [apply in_map; auto|].
    split; [apply in_map; auto | apply nimage_path; auto].
Qed.

Lemma nimage_states h A x : In x (nstates (nimage h A)) <-> exists y, In y (nstates A) /\ x = h y.
Proof.
  split.
  - intros H. apply nstates_inv in H. simpl in H. destruct H as [H|[H|[e [He H]]]].
    + apply in_map_iff in H as [y [<- Hy]]. exists y. split; auto. apply nstates_start; auto.
    + apply in_map_iff in H as [y [<- Hy]]. exists y. split; auto. apply nstates_final; auto.
    + apply in_map_iff in He as [[[p a] q] [<- He]]. apply nstates_edge in He as [H1 H2].
      unfold map_edge in H; simpl in H. destruct H as [->| ->]; [exists p | exists q]; auto.
  - intros [y [Hy ->]]. apply nstates_inv in Hy. destruct Hy as [H|[H|[e [He H]]]].
    + apply nstates_start. simpl. apply in_map; auto.
    + apply nstates_final. simpl. apply in_map; auto.
    + assert (Hin : In (map_edge h e) (edges (nimage h A))) by (simpl; apply in_map; auto).
      rewrite (edge_eta (map_edge h e)) in Hin. apply nstates_edge in Hin. unfold map_edge in Hin. simpl in Hin.
      destruct H as [->| ->]; tauto.
Qed.

Definition valid_nunion (hA hB : N -> N) (A B : nfa) :=
  inj_on hA (nstates A) /\ inj_on hB (nstates B) /\ disjoint (map hA (nstates A)) (map hB (nstates B)).

Theorem nunion_lang hA hB A B : valid_nunion hA hB A B ->
  forall w, waccepts (nunion_with hA hB A B) w <-> waccepts A w \/ waccepts B w.
Proof.
  intros [IA [IB D]] w. unfold nunion_with. rewrite napp_lang.
  - rewrite (nimage_lang hA A IA), (nimage_lang hB B IB). tauto.
  - intros x Hx Hy. apply nimage_states in Hx as [a [Ha ->]]. apply nimage_states in Hy as [b [Hb E]].
    apply (D (hA a)); [apply in_map; auto | rewrite E; apply in_map; auto].
Qed.

Theorem nunion_disjoint_lang A B : disjoint (nstates A) (nstates B) ->
  forall w, waccepts (nunion_disjoint A B) w <-> waccepts A w \/ waccepts B w.
Proof. exact (napp_lang A B). Qed.

Lemma inj_onb_spec h l : inj_onb h l = true <-> inj_on h l.
Proof.
  unfold inj_onb, inj_on. rewrite forallb_forall. split.
  - intros H x y Hx Hy E. specialize (H x Hx). rewrite forallb_forall in H. specialize (H y Hy).
    rewrite E, N.eqb_refl in H. simpl in H. apply N.eqb_eq; auto.
  - intros H x Hx. apply forallb_forall. intros y Hy. destruct (N.eqb (h x) (h y)) eqn:E; simpl; auto.
    apply N.eqb_eq in E. apply N.eqb_eq. auto.
Qed.
Lemma disjointb_spec l m : disjointb l m = true <-> disjoint l m.
Proof.
  unfold disjointb, disjoint. rewrite forallb_forall. split.
  - intros H x Hx Hm. specialize (H x Hx). apply memN_In in Hm. rewrite Hm in H. discriminate.
  - intros H x Hx. destruct (memN x m) eqn:E; auto. apply memN_In in E. exfalso; eauto.
Qed.
Lemma valid_nunionb_spec hA hB A B : valid_nunionb hA hB A B = true <-> valid_nunion hA hB A B.
Proof. unfold valid_nunionb, valid_nunion. rewrite !andb_true_iff, !inj_onb_spec, disjointb_spec. tauto. Qed.

Lemma d01_valid A B : valid_nunion d0 d1 A B.
Proof. split; [apply d0_inj|]. split; [apply d1_inj | apply d01_disjoint]. Qed.

Lemma filter_all {X} (f : X -> bool) l : (forall x, In x l -> f x = true) -> filter f l = l.
Proof. induction l as [|x l IH]; simpl; intros H; auto. rewrite (H x) by auto. f_equal. apply IH. intros; apply H; auto. Qed.

(* UnionDisjointStates as coded coincides with the concatenation on disjoint operands *)
Lemma nunion_coded_disjoint A B : disjoint (nstates A) (nstates B) ->
  edges (nunion_disjoint_coded A B) = edges (napp A B).
Proof.
  intros D. simpl. f_equal. apply filter_all. intros e He.
  destruct (memN (esrc e) (map esrc (edges A))) eqn:E; auto. exfalso.
  apply memN_In, in_map_iff in E as [f [E Hf]]. rewrite (edge_eta f) in Hf. rewrite (edge_eta e) in He.
  apply nstates_edge in Hf as [Hf _]. apply nstates_edge in He as [He _]. rewrite E in Hf. eapply D; eauto.
Qed.

(* ---------- reverse ---------- *)
Lemma nreverse_path A : forall w p q, wpath (nreverse A) w q p <-> wpath A (rev w) p q.
Proof.
  induction w as [|a w IH]; simpl; intros p q.
  - split; congruence.
  - rewrite wpath_app. split.
    + intros [m [He H]]. apply in_map_iff in He as [[[x b] y] [E He]].
      unfold rev_edge, edst, esym, esrc in E; simpl in E. injection E as E1 E2 E3. subst x b y. exists m. split; [apply IH; auto|]. simpl. exists q. auto.
    + intros [m [H [m' [He E]]]]. simpl in E. subst m'. exists m. split; [|apply IH; auto].
      apply in_map_iff. exists (m, a, q). auto.
Qed.

Theorem nreverse_lang A w : waccepts (nreverse A) w <-> waccepts A (rev w).
Proof.
  unfold waccepts. simpl. split; intros [p [q [Hp [Hq H]]]]; exists q, p; (split; [auto|]); (split; [auto|]);
    apply nreverse_path; auto.
Qed.

(* ---------- unreachable states ---------- *)
Definition nreachable (A : nfa) (q : N) := exists p w, In p (nstarts A) /\ wpath A w p q.

Lemma nreach_step_in A S x : In x (nreach_step A S) <->
  In x (nstarts A) \/ exists p a, In (p, a, x) (edges A) /\ In p S.
Proof.
  unfold nreach_step. rewrite in_app_iff, in_flat_map. split.
  - intros [H|[e [He H]]]; auto. right. destruct (memN (esrc e) S) eqn:E; [|destruct H].
    destruct H as [<-|[]]. exists (esrc e), (esym e). rewrite <- edge_eta. split; auto. apply memN_In; auto.
  - intros [H|[p [a [He Hp]]]]; auto. right. exists (p, a, x). split; auto. simpl.
    apply memN_In in Hp. unfold esrc; simpl. rewrite Hp. simpl; auto.
Qed.
Lemma nreach_step_mono A S T : incl S T -> incl (nreach_step A S) (nreach_step A T).
Proof. intros H x Hx. apply nreach_step_in in Hx. apply nreach_step_in. destruct Hx as [Hx|[p [a [He Hp]]]]; auto.
  right. exists p, a. auto. Qed.
Lemma nreach_step_bounded A S : incl S (nstates A) -> incl (nreach_step A S) (nstates A).
Proof. intros _ x Hx. apply nreach_step_in in Hx. destruct Hx as [Hx|[p [a [He _]]]].
  - apply nstates_start; auto. - apply nstates_edge in He. tauto. Qed.

Lemma wpath_snoc A w a p m q : wpath A w p m -> In (m, a, q) (edges A) -> wpath A (w ++ [a]) p q.
Proof. intros H He. apply wpath_app. exists m. split; auto. simpl. exists q. auto. Qed.

Theorem nreach_spec A q : In q (nreach A) <-> nreachable A q.
Proof.
  unfold nreach. rewrite (saturate_lfp N N.eq_dec (nreach_step A) (nreach_step_mono A) (nstates A) (nreach_step_bounded A)).
  split.
  - intros D. induction D as [S x _ IH Hx]. apply nreach_step_in in Hx as [Hx|[p [a [He Hp]]]].
    + exists x, []. simpl. auto.
    + destruct (IH p Hp) as [s [w [Hs Hw]]]. exists s, (w ++ [a]). split; auto. eapply wpath_snoc; eauto.
  - intros [p [w [Hp Hw]]]. revert q Hw. induction w as [|a w IH] using rev_ind; intros q Hw.
    + simpl in Hw. subst. apply (der N (nreach_step A) []). intros y []. apply nreach_step_in. auto.
    + apply wpath_app in Hw as [m [H1 [m' [He E]]]]. simpl in E. subst.
      apply (der N (nreach_step A) [m]). intros y [<-|[]]; auto. apply nreach_step_in. right. exists m, a. simpl; auto.
Qed.

Lemma nunreach_path A : forall w p q, nreachable A p -> wpath A w p q -> wpath (nunreach A) w p q.
Proof.
  induction w as [|a w IH]; simpl; intros p q Hp H; auto.
  destruct H as [m [He H]]. exists m. split.
  - apply filter_In. split; auto. apply memN_In, nreach_spec. auto.
  - apply IH; auto. destruct Hp as [s [u [Hs Hu]]]. exists s, (u ++ [a]). split; auto. eapply wpath_snoc; eauto.
Qed.

Theorem nunreach_lang A w : waccepts (nunreach A) w <-> waccepts A w.
Proof.
  split.
  - intros [p [q [Hp [Hq H]]]]. simpl in Hp, Hq. apply filter_In in Hq as [Hq _]. exists p, q. split; auto. split; auto.
    eapply wpath_mono; [|exact H]. simpl. intros e He. apply filter_In in He. tauto.
  - intros [p [q [Hp [Hq H]]]]. exists p, q. simpl. split; auto. split.
    + apply filter_In. split; auto. apply memN_In, nreach_spec. exists p, w. auto.
    + apply nunreach_path; auto. exists p, []. simpl; auto.
Qed.

Lemma nunreach_sub A : nfa_sub (nunreach A) A = true.
Proof. apply nfa_sub_spec. simpl. split; [apply incl_refl|]. split; intros x Hx; apply filter_In in Hx; tauto. Qed.

(* ---------- useless states ---------- *)
Theorem nuseless_lang A w : waccepts (nuseless A) w <-> waccepts A w.
Proof.
  unfold nuseless. rewrite nreverse_lang, nunreach_lang, nreverse_lang, rev_involutive, nunreach_lang. tauto.
Qed.

Lemma rev_edge_invol e : rev_edge (rev_edge e) = e.
Proof. destruct e as [[p a] q]. reflexivity. Qed.

Lemma nuseless_sub A : nfa_sub (nuseless A) A = true.
Proof.
  apply nfa_sub_spec. unfold nuseless. simpl. split; [|split].
  - intros x Hx. apply filter_In in Hx as [Hx _]. auto.
  - intros x Hx. apply filter_In in Hx as [Hx _]. auto.
  - intros e He. apply in_map_iff in He as [f [<- Hf]]. apply filter_In in Hf as [Hf _].
    apply in_map_iff in Hf as [g [<- Hg]]. rewrite rev_edge_invol. apply filter_In in Hg. tauto.
Qed.

(* every state left by RemoveUselessStates is reachable from a start state and reaches a final state *)
Definition nuseful (A : nfa) (x : N) :=
  (exists p w, In p (nstarts A) /\ wpath A w p x) /\ (exists q w, In q (nfinals A) /\ wpath A w x q).

(* ---------- intersection ---------- *)
Definition inj2_on (pr : N -> N -> N) (la lb : list N) :=
  forall p p' q q', In p la -> In p' la -> In q lb -> In q' lb -> pr p q = pr p' q' -> p = p' /\ q = q'.

Lemma nprod_edge pr A B x a y : In (x, a, y) (edges (nprod_full pr A B)) <->
  exists p p' q q', In (p, a, p') (edges A) /\ In (q, a, q') (edges B) /\ x = pr p q /\ y = pr p' q'.
Proof.
  simpl. rewrite in_flat_map. split.
  - intros [e [He H]]. apply in_flat_map in H as [f [Hf H]].
    destruct (N.eqb (esym e) (esym f)) eqn:E; [|destruct H]. destruct H as [H|[]]. apply N.eqb_eq in E.
    inversion H; subst. exists (esrc e), (edst e), (esrc f), (edst f). rewrite E at 2. rewrite <- !edge_eta. auto.
  - intros [p [p' [q [q' [He [Hf [-> ->]]]]]]]. exists (p, a, p'). split; auto. apply in_flat_map. exists (q, a, q'). split; auto.
    unfold esym, esrc, edst; simpl. rewrite N.eqb_refl. simpl; auto.
Qed.

Lemma nprod_pair (pr : N -> N -> N) (la lb : list N) (x : N) : In x (flat_map (fun p => map (pr p) lb) la) <-> exists p q, In p la /\ In q lb /\ x = pr p q.
Proof.
  rewrite in_flat_map. split.
  - intros [p [Hp H]]. apply in_map_iff in H as [q [<- Hq]]. exists p, q. auto.
  - intros [p [q [Hp [Hq ->]]]]. exists p. split; auto. apply in_map; auto.
Qed.

Lemma nprod_path pr A B : forall w p p' q q', wpath A w p p' -> wpath B w q q' ->
  wpath (nprod_full pr A B) w (pr p q) (pr p' q').
Proof.
  induction w as [|a w IH]; simpl; intros p p' q q' H1 H2.
  - congruence.
  - destruct H1 as [m1 [He1 H1]]. destruct H2 as [m2 [He2 H2]]. exists (pr m1 m2). split; [|apply IH; auto].
    apply (nprod_edge pr A B). exists p, m1, q, m2. auto.
Qed.

Lemma nprod_path_inv pr A B : inj2_on pr (nstates A) (nstates B) ->
  forall w p q y, In p (nstates A) -> In q (nstates B) -> wpath (nprod_full pr A B) w (pr p q) y ->
  exists p' q', y = pr p' q' /\ In p' (nstates A) /\ In q' (nstates B) /\ wpath A w p p' /\ wpath B w q q'.
Proof.
  intros Hinj. induction w as [|a w IH]; intros p q y Hp Hq H.
  - simpl in H. subst. exists p, q. simpl. auto.
  - destruct H as [m [He H]]. apply nprod_edge in He as [p1 [p1' [q1 [q1' [He1 [He2 [E ->]]]]]]].
    destruct (nstates_edge _ _ _ _ He1) as [Hp1 Hp1']. destruct (nstates_edge _ _ _ _ He2) as [Hq1 Hq1'].
    destruct (Hinj p p1 q q1 Hp Hp1 Hq Hq1 E) as [-> ->].
    destruct (IH p1' q1' y Hp1' Hq1' H) as [p' [q' [Ey [Hp' [Hq' [H1 H2]]]]]].
    exists p', q'. split; auto. split; auto. split; auto. split; [exists p1' | exists q1']; auto.
Qed.

Theorem nprod_lang pr A B : inj2_on pr (nstates A) (nstates B) ->
  forall w, waccepts (nprod_full pr A B) w <-> waccepts A w /\ waccepts B w.
Proof.
  intros Hinj w. split.
  - intros [x [y [Hx [Hy H]]]]. apply nprod_pair in Hx as [p [q [Hp [Hq ->]]]]. apply nprod_pair in Hy as [f [g [Hf [Hg ->]]]].
    destruct (nprod_path_inv pr A B Hinj w p q _ (nstates_start _ _ Hp) (nstates_start _ _ Hq) H)
      as [p' [q' [E [Hp' [Hq' [H1 H2]]]]]].
    destruct (Hinj f p' g q' (nstates_final _ _ Hf) Hp' (nstates_final _ _ Hg) Hq' E) as [-> ->].
    split; [exists p, p' | exists q, q']; auto.
  - intros [[p [p' [Hp [Hp' H1]]]] [q [q' [Hq [Hq' H2]]]]]. exists (pr p q), (pr p' q').
    split; [apply nprod_pair; exists p, q; auto|]. split; [apply nprod_pair; exists p', q'; auto|].
    apply nprod_path; auto.
Qed.

Theorem nisect_lang pr A B : inj2_on pr (nstates A) (nstates B) ->
  forall w, waccepts (nisect pr A B) w <-> waccepts A w /\ waccepts B w.
Proof. intros Hinj w. unfold nisect. rewrite nuseless_lang, nunreach_lang. apply nprod_lang; auto. Qed.

Lemma inj2_onb_spec pr la lb : inj2_onb pr la lb = true -> inj2_on pr la lb.
Proof.
  unfold inj2_onb, inj2_on. rewrite forallb_forall. intros H p p' q q' Hp Hp' Hq Hq' E.
  specialize (H (p, q) (in_prod _ _ _ _ Hp Hq)). rewrite forallb_forall in H.
  specialize (H (p', q') (in_prod _ _ _ _ Hp' Hq')). simpl in H. rewrite E, N.eqb_refl in H. simpl in H.
  apply andb_true_iff in H as [H1 H2]. apply N.eqb_eq in H1, H2. auto.
Qed.

Lemma fold_max_ge l : forall x, In x l -> (x <= fold_right N.max 0%N l)%N.
Proof. induction l as [|y l IH]; simpl; intros x []; [subst; lia | specialize (IH x H); lia]. Qed.

Lemma pr0_inj A B : inj2_on (pr0 (nbound B)) (nstates A) (nstates B).
Proof.
  intros p p' q q' _ _ Hq Hq' E. unfold pr0, nbound in E.
  apply fold_max_ge in Hq, Hq'. set (K := N.succ (fold_right N.max 0%N (nstates B))) in *.
  assert (q < K)%N by (unfold K; lia). assert (q' < K)%N by (unfold K; lia).
  assert (p = p') by nia. subst. split; auto. lia.
Qed.

(* ---------- emptiness with a witness ---------- *)
Lemma wis_empty_false A : wis_empty A = false -> exists w, waccepts A w.
Proof.
  unfold wis_empty, is_empty. rewrite negb_false_iff, existsb_exists. intros [q [Hq Hm]].
  apply memN_In, productive_spec in Hm as [t Ht]. destruct (enc_reach_shape A t q Ht) as [rw ->].
  exists (rev rw). apply enc_accepts. rewrite rev_involutive. exists q. auto.
Qed.

Lemma implb_empty_spec R A : implb (wis_empty R) (wis_empty A) = true <->
  ((exists w, waccepts A w) -> exists w, waccepts R w).
Proof.
  split.
  - intros H [w Hw]. destruct (wis_empty R) eqn:ER.
    + simpl in H. exfalso. apply (proj1 (wis_empty_spec A) H w Hw).
    + apply wis_empty_false; auto.
  - intros H. destruct (wis_empty R) eqn:ER; auto. simpl. destruct (wis_empty A) eqn:EA; auto.
    apply wis_empty_false in EA. destruct (H EA) as [w Hw]. exfalso. apply (proj1 (wis_empty_spec R) ER w Hw).
Qed.

(* ---------- the gates decide the property clauses ---------- *)
Theorem gate_nunion_spec A B R : gate_nunion A B R = true <->
  forall w, waccepts R w <-> waccepts A w \/ waccepts B w.
Proof.
  unfold gate_nunion. rewrite !andb_true_iff, !wincl_dec_spec. unfold wlincl.
  pose proof (nunion_lang d0 d1 A B (d01_valid A B)) as U. split.
  - intros [[H1 H2] H3] w. split; [intros Hw; apply U; auto | intros [H|H]; auto].
  - intros H. split; [split|]; intros w Hw; [apply H; auto | apply H; auto | apply U, H; auto].
Qed.

Lemma nprod0_lang A B w : waccepts (nuseless (nprod_full (pr0 (nbound B)) A B)) w <-> waccepts A w /\ waccepts B w.
Proof. rewrite nuseless_lang. apply nprod_lang, pr0_inj. Qed.

Theorem gate_nisect_spec A B R : gate_nisect A B R = true <->
  forall w, waccepts R w <-> waccepts A w /\ waccepts B w.
Proof.
  unfold gate_nisect. rewrite !andb_true_iff, !wincl_dec_spec. unfold wlincl. split.
  - intros [[H1 H2] H3] w. split; [intros Hw; split; auto | intros H; apply H3, nprod0_lang; auto].
  - intros H. split; [split|]; intros w Hw; [apply H; auto | apply H; auto | apply H, nprod0_lang; auto].
Qed.

Theorem gate_nreverse_spec A R : gate_nreverse A R = true <-> forall w, waccepts R w <-> waccepts A (rev w).
Proof.
  unfold gate_nreverse. rewrite wequiv_dec_spec. split; intros H w; [rewrite H | rewrite H]; [apply nreverse_lang | symmetry; apply nreverse_lang].
Qed.

Theorem gate_nsame_spec A R : gate_nsame A R = true <-> forall w, waccepts R w <-> waccepts A w.
Proof. apply wequiv_dec_spec. Qed.

Theorem gate_ncandidate_spec A R : gate_ncandidate A R = true <->
  wlincl R A /\ ((exists w, waccepts A w) -> exists w, waccepts R w).
Proof. unfold gate_ncandidate. rewrite andb_true_iff, wincl_dec_spec, implb_empty_spec. tauto. Qed.

Theorem ncandidate_sub A R : ncandidate_ok A R = true -> wlincl R A.
Proof. unfold ncandidate_ok. rewrite andb_true_iff. intros [H _]. apply nfa_sub_lang; auto. Qed.
Theorem ncandidate_nonempty A R : ncandidate_ok A R = true -> (exists w, waccepts A w) -> exists w, waccepts R w.
Proof. unfold ncandidate_ok. rewrite andb_true_iff, implb_empty_spec. tauto. Qed.
Theorem ncandidate_ok_gate A R : ncandidate_ok A R = true -> gate_ncandidate A R = true.
Proof. intros H. apply gate_ncandidate_spec. split; [eapply ncandidate_sub | eapply ncandidate_nonempty]; eauto. Qed.

(* the models pass their gates (an implementation agreeing with the model is accepted) *)
Theorem model_nunion_passes hA hB A B : valid_nunion hA hB A B -> gate_nunion A B (nunion_with hA hB A B) = true.
Proof. intros V. apply gate_nunion_spec, nunion_lang, V. Qed.
Theorem model_nisect_passes pr A B : inj2_on pr (nstates A) (nstates B) -> gate_nisect A B (nisect pr A B) = true.
Proof. intros V. apply gate_nisect_spec, nisect_lang, V. Qed.
Theorem model_nreverse_passes A : gate_nreverse A (nreverse A) = true.
Proof. apply gate_nreverse_spec. intros w. apply nreverse_lang. Qed.
Theorem model_nunreach_passes A : gate_nsame A (nunreach A) = true.
Proof. apply gate_nsame_spec. intros w. apply nunreach_lang. Qed.
Theorem model_nuseless_passes A : gate_nsame A (nuseless A) = true.
Proof. apply gate_nsame_spec. intros w. apply nuseless_lang. Qed.

(* ---------- historical defects: the models of the code before the fix: commits ---------- *)
Definition wA_astar : nfa := {| nstarts := [0%N]; nfinals := [0%N]; edges := [(0, 0, 0)%N] |}.
Definition wA_aplus : nfa := {| nstarts := [0%N]; nfinals := [1%N]; edges := [(0, 0, 1)%N; (1, 0, 1)%N] |}.
Definition wA_eps : nfa := {| nstarts := [0%N]; nfinals := [0%N]; edges := [] |}.

(* D7: a* ∩ a+ accepted the empty word; {ε} ∩ {ε} was empty *)
Theorem nisect_old_refuted :
  (exists A B, gate_nisect A B (nisect_old (pr0 (nbound B)) A B) = false /\ wincl_dec (nisect_old (pr0 (nbound B)) A B) B = false) /\
  (exists A B, gate_nisect A B (nisect_old (pr0 (nbound B)) A B) = false /\ wis_empty (nisect_old (pr0 (nbound B)) A B) = true).
Proof.
  split; [exists wA_astar, wA_aplus | exists wA_eps, wA_eps]; split; vm_compute; reflexivity.
Qed.
(* the same witnesses pass with the product as repaired *)
Example nisect_witnesses_pass :
  gate_nisect wA_astar wA_aplus (nisect (pr0 (nbound wA_aplus)) wA_astar wA_aplus) = true /\
  gate_nisect wA_eps wA_eps (nisect (pr0 (nbound wA_eps)) wA_eps wA_eps) = true.
Proof. split; vm_compute; reflexivity. Qed.

(* D13: the search never marked a final start state final: the witness of {ε} was empty *)
Theorem ncandidate_old_refuted : exists A, gate_ncandidate A (ncandidate_old A) = false /\ wis_empty A = false.
Proof. exists wA_eps. split; vm_compute; reflexivity. Qed.
Example ncandidate_witness_passes : ncandidate_ok wA_eps (ncandidate wA_eps) = true.
Proof. vm_compute. reflexivity. Qed.

(* ---------- C09: the verdict function ---------- *)
Theorem wincl_model_exact v A B : wincl_model v A B = true <-> wlincl A B.
Proof.
  assert (E : wlincl (nuseless A) (nuseless B) <-> wlincl A B).
  { unfold wlincl. split; intros H w Hw.
    - apply nuseless_lang, H, nuseless_lang, Hw.
    - apply nuseless_lang, H, nuseless_lang, Hw. }
  destruct v; simpl.
  - rewrite wincl_dec_spec. exact E.
  - rewrite wequiv_dec_spec, <- E. pose proof (nunion_lang d0 d1 (nuseless A) (nuseless B) (d01_valid _ _)) as U.
    unfold wlincl. split.
    + intros H w Hw. apply H, U. auto.
    + intros H w. rewrite U. split; [intros [X|X]; auto | auto].
  - rewrite wequiv_dec_spec, <- E. pose proof (nunion_lang d0 d1 (nuseless A) (nuseless B) (d01_valid _ _)) as U.
    unfold wlincl. split.
    + intros H w Hw. apply H, U. auto.
    + intros H w. rewrite U. split; [intros [X|X]; auto | auto].
Qed.

Lemma bool_ext (a b : bool) : (a = true <-> b = true) -> a = b.
Proof. destruct a, b; intros [H1 H2]; auto; try (symmetry; apply H1; reflexivity); try (apply H2; reflexivity). Qed.

Theorem wincl_model_is_dec v A B : wincl_model v A B = wincl_dec A B.
Proof. apply bool_ext. rewrite wincl_model_exact, wincl_dec_spec. tauto. Qed.

Theorem wincl_model_agree v v' A B : wincl_model v A B = wincl_model v' A B.
Proof. rewrite !wincl_model_is_dec. reflexivity. Qed.

Theorem gate_verdict_spec A B v : gate_verdict A B v = true <-> (v = true <-> wlincl A B).
Proof.
  unfold gate_verdict. rewrite <- wincl_dec_spec. destruct v, (wincl_dec A B); simpl; intuition; try discriminate.
Qed.

(* inclusion reduces to equivalence of the disjoint union with the bigger automaton
   (what the congruence selections decide after the repair of D6) *)
Theorem congr_operands_ok A B : disjoint (nstates A) (nstates B) ->
  (wlincl A B <-> forall w, waccepts (nunion_disjoint A B) w <-> waccepts B w).
Proof.
  intros D. pose proof (nunion_disjoint_lang A B D) as U. unfold wlincl. split.
  - intros H w. rewrite U. split; [intros [X|X]; auto | auto].
  - intros H w Hw. apply H, U. auto.
Qed.

(* D6: with the union built from the unsanitized operands a start state of the smaller automaton and a
   final state of the bigger one that share a number make the union accept the empty word *)
Theorem congr_operands_refuted : exists A B, wincl_congr_old A B = false /\ wincl_dec A B = true.
Proof.
  exists {| nstarts := [0%N]; nfinals := []; edges := [] |}, {| nstarts := []; nfinals := [0%N]; edges := [] |}.
  split; vm_compute; reflexivity.
Qed.

(* ---------- RemoveUselessStates leaves only useful states ---------- *)
Lemma nreach2_useful A x : In x (nreach (nreverse (nunreach A))) -> nuseful A x.
Proof.
  intros H. apply nreach_spec in H as [f [w [Hf Hw]]]. simpl in Hf. apply filter_In in Hf as [Hf Hr].
  apply memN_In, nreach_spec in Hr. apply nreverse_path in Hw.
  assert (Hco : exists q u, In q (nfinals A) /\ wpath A u x q).
  { exists f, (rev w). split; auto. eapply wpath_mono; [|exact Hw]. simpl. intros e He. apply filter_In in He. tauto. }
  split; auto.
  destruct (rev w) as [|a u]; simpl in Hw.
  - subst. exact Hr.
  - destruct Hw as [m [He _]]. apply filter_In in He as [_ He]. apply memN_In, nreach_spec in He. exact He.
Qed.

Theorem nuseless_useful A x : In x (nstates (nuseless A)) -> nuseful A x.
Proof.
  intros H. apply nstates_inv in H. destruct H as [H|[H|[e [He H]]]].
  - simpl in H. apply filter_In in H as [_ H]. apply memN_In in H. apply nreach2_useful; auto.
  - simpl in H. apply filter_In in H as [Hf Hr]. apply memN_In, nreach_spec in Hr. split; auto.
    exists x, []. simpl. auto.
  - unfold nuseless in He. simpl in He. apply in_map_iff in He as [g [<- Hg]]. apply filter_In in Hg as [Hg Hsrc].
    apply in_map_iff in Hg as [h [<- Hh]]. apply filter_In in Hh as [Hh Hr1].
    rewrite rev_edge_invol in H. apply memN_In in Hsrc. apply memN_In, nreach_spec in Hr1.
    destruct h as [[p a] q]. unfold rev_edge, esrc, edst in *; simpl in *.
    pose proof (nreach2_useful A q Hsrc) as Uq.
    destruct H as [->| ->]; auto.
    split; auto. destruct Uq as [_ [f [u [Hf Hu]]]]. exists f, (a :: u). split; auto. simpl. exists q. auto.
Qed.
