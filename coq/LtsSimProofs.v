(* C16 — proofs about the functional model of the LTS simulation engine (LtsSimDefs.v). *)
From Coq Require Import List NArith Bool Arith Lia.
Import ListNotations.
From V Require Import Gfp LtsSimDefs.

(* ---------- relations as predicates; "the greatest relation such that ..." ---------- *)
Definition relN := N -> N -> Prop.
Definition rel_of (l : list (N * N)) : relN := fun q r => In (q, r) l.
Definition sub_rel (R S : relN) : Prop := forall q r, R q r -> S q r.
Definition is_greatest (Phi : relN -> Prop) (R : relN) : Prop := Phi R /\ forall R', Phi R' -> sub_rel R' R.
Definition within (n : nat) (R : relN) : Prop := forall q r, R q r -> (q < N.of_nat n)%N /\ (r < N.of_nat n)%N.
Definition reflexive_on (n : nat) (R : relN) : Prop := forall q, (q < N.of_nat n)%N -> R q q.
Definition transitive (R : relN) : Prop := forall x y z, R x y -> R y z -> R x z.

(* the step condition, in the words of the property *)
Definition simulation (L : lts) (R : relN) : Prop :=
  forall q r, R q r -> forall a q', In (q, a, q') L -> exists r', In (r, a, r') L /\ R q' r'.

(* the initial relation: both states below n, their blocks related *)
Definition init_relP (n : nat) (part : list (list N)) (brel : list (N * N)) : relN :=
  fun q r => (q < N.of_nat n)%N /\ (r < N.of_nat n)%N /\
             exists i j, block_of part q = Some i /\ block_of part r = Some j /\ In (i, j) brel.

(* ---------- generic: refine is above every post-fixed predicate ---------- *)
Lemma refine_greatest_prop {X} (keep : list X -> X -> bool) (P : X -> Prop) :
  (forall R x, (forall y, P y -> In y R) -> P x -> keep R x = true) ->
  forall fuel R, (forall y, P y -> In y R) -> forall y, P y -> In y (refine X keep fuel R).
Proof.
  intros HP. induction fuel as [|f IH]; simpl; intros R HR y Hy; auto.
  destruct (Nat.eqb _ _); auto. apply IH; auto.
  intros z Hz. apply filter_In. split; auto.
Qed.

(* ---------- basic list facts ---------- *)
Lemma pairN_eqb_eq x y : pairN_eqb x y = true <-> x = y.
Proof. destruct x as [a b], y as [c d]. unfold pairN_eqb. simpl. rewrite andb_true_iff, !N.eqb_eq.
  split; [intros [-> ->]; auto | intros E; inversion E; auto]. Qed.
Lemma memP_In x l : memP x l = true <-> In x l.
Proof. unfold memP. rewrite existsb_exists. split.
  - intros [y [Hy E]]. apply pairN_eqb_eq in E. subst; auto.
  - intros H. exists x. split; auto. apply pairN_eqb_eq; auto. Qed.
Lemma seqN_In q n : In q (seqN n) <-> (q < N.of_nat n)%N.
Proof. unfold seqN. rewrite in_map_iff. split.
  - intros [k [<- Hk]]. apply in_seq in Hk. lia.
  - intros H. exists (N.to_nat q). split; [apply N2Nat.id|]. apply in_seq. lia. Qed.
Lemma all_pairs_In q r n : In (q, r) (all_pairs n) <-> (q < N.of_nat n)%N /\ (r < N.of_nat n)%N.
Proof. unfold all_pairs. rewrite in_flat_map. split.
  - intros [x [Hx H]]. apply in_map_iff in H as [y [E Hy]]. inversion E; subst. rewrite <- !seqN_In. auto.
  - intros [Hq Hr]. exists q. split; [apply seqN_In; auto|]. apply in_map_iff. exists r. split; auto. apply seqN_In; auto. Qed.

Lemma init_rel_In n part brel q r : In (q, r) (init_rel n part brel) <-> init_relP n part brel q r.
Proof.
  unfold init_rel, init_relP. rewrite filter_In, all_pairs_In. unfold init_pair. simpl. split.
  - intros [[Hq Hr] H]. split; auto. split; auto.
    destruct (block_of part q) as [i|]; [|discriminate]. destruct (block_of part r) as [j|]; [|discriminate].
    exists i, j. repeat split; auto. apply memP_In; auto.
  - intros [Hq [Hr [i [j [-> [-> H]]]]]]. split; auto. apply memP_In; auto.
Qed.

(* ---------- the step condition, boolean vs. Prop ---------- *)
Lemma lts_keep_spec L R q r : lts_keep L R (q, r) = true <->
  forall a q', In (q, a, q') L -> exists r', In (r, a, r') L /\ In (q', r') R.
Proof.
  unfold lts_keep. rewrite forallb_forall. simpl. split.
  - intros H a q' He. specialize (H _ He). unfold esrc, elab, edst in H. simpl in H. rewrite N.eqb_refl in H.
    apply existsb_exists in H as [[[s b] r'] [He' H]]. simpl in H.
    rewrite !andb_true_iff, !N.eqb_eq, memP_In in H. destruct H as [[-> ->] H]. exists r'. auto.
  - intros H [[s a] q'] He. unfold esrc, elab, edst. simpl. destruct (N.eqb_spec s q) as [->|]; auto.
    destruct (H a q' He) as [r' [He' HR]]. apply existsb_exists. exists (r, a, r'). split; auto. simpl.
    rewrite !N.eqb_refl. simpl. apply memP_In; auto.
Qed.

Lemma lts_keep_mono L R R' x : incl R R' -> lts_keep L R x = true -> lts_keep L R' x = true.
Proof. destruct x as [q r]. rewrite !lts_keep_spec. intros Hi H a q' He. destruct (H a q' He) as [r' [? ?]]. exists r'; auto. Qed.

(* ---------- the result is the greatest simulation inside the initial relation ---------- *)
Theorem lts_sim_from_greatest L R0 :
  is_greatest (fun R => sub_rel R (rel_of R0) /\ simulation L R) (rel_of (lts_sim_from L R0)).
Proof.
  unfold lts_sim_from. destruct (refine_gfp (N * N) (lts_keep L) (lts_keep_mono L) R0) as [Hsub [Hpf _]].
  split; [split|].
  - intros q r H. apply Hsub; auto.
  - intros q r H a q' He. apply Hpf in H. rewrite lts_keep_spec in H. apply (H a q' He).
  - intros R' [Hin Hsim] q r Hqr.
    refine (refine_greatest_prop (lts_keep L) (fun x => R' (fst x) (snd x)) _ _ R0 _ (q, r) Hqr).
    + intros R [x y] HR Hx. simpl in Hx. apply lts_keep_spec. intros a q' He.
      destruct (Hsim x y Hx a q' He) as [r' [He' Hr']]. exists r'. split; auto; try (apply (HR (q', r')); auto).
    + intros [x y] Hxy. simpl in Hxy. apply Hin; auto.
Qed.

Theorem lts_sim_greatest L n part brel :
  is_greatest (fun R => sub_rel R (init_relP n part brel) /\ simulation L R) (rel_of (lts_sim L n part brel)).
Proof.
  unfold lts_sim. destruct (lts_sim_from_greatest L (init_rel n part brel)) as [[H1 H2] H3]. split; [split|]; auto.
  - intros q r H. apply init_rel_In, H1, H.
  - intros R' [Hin Hsim]. apply H3. split; auto. intros q r H. apply init_rel_In, Hin, H.
Qed.

(* ---------- validity predicates ---------- *)
Lemma lts_wf_spec L n : lts_wf L n = true <->
  forall q a q', In (q, a, q') L -> (q < N.of_nat n)%N /\ (q' < N.of_nat n)%N.
Proof. unfold lts_wf. rewrite forallb_forall. split.
  - intros H q a q' He. specialize (H _ He). unfold esrc, edst in H. simpl in H.
    rewrite andb_true_iff, !N.ltb_lt in H. auto.
  - intros H [[q a] q'] He. unfold esrc, edst. simpl. rewrite andb_true_iff, !N.ltb_lt. eauto. Qed.

Lemma block_of_from_some i part q : (exists b, In b part /\ In q b) -> exists j, block_of_from i part q = Some j.
Proof. revert i. induction part as [|b rest IH]; intros i [b' [Hb Hq]]; [destruct Hb|]. simpl.
  destruct (existsb (N.eqb q) b) eqn:E; [eauto|]. destruct Hb as [->|Hb].
  - exfalso. assert (existsb (N.eqb q) b' = true) by (apply existsb_exists; exists q; split; auto; apply N.eqb_refl). congruence.
  - apply IH. eauto. Qed.

Lemma block_of_from_lt i part q j : block_of_from i part q = Some j -> (i <= j < i + N.of_nat (length part))%N.
Proof. revert i. induction part as [|b rest IH]; simpl; intros i H; [discriminate|].
  destruct (existsb (N.eqb q) b); [inversion H; lia|]. apply IH in H. lia. Qed.

Lemma count_pos q l : length (filter (N.eqb q) l) <> 0 -> In q l.
Proof. induction l as [|x l IH]; simpl; [tauto|]. destruct (N.eqb_spec q x); subst; auto. Qed.

Lemma partition_covers n part q : partition_ok n part = true -> (q < N.of_nat n)%N -> exists i, block_of part q = Some i.
Proof.
  unfold partition_ok. rewrite !andb_true_iff. intros [[H _] _] Hq. rewrite forallb_forall in H.
  specialize (H q (proj2 (seqN_In q n) Hq)). apply Nat.eqb_eq in H. unfold count_in in H.
  assert (In q (concat part)) by (apply count_pos; lia). apply in_concat in H0 as [b [Hb Hqb]].
  apply block_of_from_some. eauto.
Qed.

Lemma brel_refl_spec part brel : brel_refl part brel = true -> forall i, (i < N.of_nat (length part))%N -> In (i, i) brel.
Proof. unfold brel_refl, block_ids. rewrite forallb_forall. intros H i Hi. apply memP_In, H, seqN_In, Hi. Qed.
Lemma brel_trans_spec brel : brel_trans brel = true -> forall i j k, In (i, j) brel -> In (j, k) brel -> In (i, k) brel.
Proof. unfold brel_trans. rewrite forallb_forall. intros H i j k H1 H2. specialize (H _ H1). rewrite forallb_forall in H.
  specialize (H _ H2). simpl in H. rewrite N.eqb_refl in H. apply memP_In; auto. Qed.

(* ---------- the result is a preorder on 0..n-1 ---------- *)
Theorem lts_sim_reflexive L n part brel :
  lts_wf L n = true -> partition_ok n part = true -> brel_refl part brel = true ->
  reflexive_on n (rel_of (lts_sim L n part brel)).
Proof.
  intros Hwf Hp Hr q Hq. destruct (lts_sim_greatest L n part brel) as [_ Hg].
  apply (Hg (fun x y => x = y /\ (x < N.of_nat n)%N)); auto. split.
  - intros x y [<- Hx]. split; auto. split; auto. destruct (partition_covers n part x Hp Hx) as [i Hi].
    exists i, i. repeat split; auto. apply (brel_refl_spec part brel Hr).
    unfold block_of in Hi. apply block_of_from_lt in Hi. lia.
  - intros x y [<- Hx] a q' He. exists q'. split; auto. split; auto.
    rewrite lts_wf_spec in Hwf. apply (Hwf _ _ _ He).
Qed.

Theorem lts_sim_transitive L n part brel :
  brel_trans brel = true -> transitive (rel_of (lts_sim L n part brel)).
Proof.
  intros Ht x y z Hxy Hyz. destruct (lts_sim_greatest L n part brel) as [[Hin Hsim] Hg].
  set (S := rel_of (lts_sim L n part brel)) in *.
  apply (Hg (fun a c => exists b, S a b /\ S b c)); [|exists y; auto]. split.
  - intros a c [b [Hab Hbc]]. apply Hin in Hab. apply Hin in Hbc.
    destruct Hab as [Ha [Hb [i [j [Hi [Hj Hij]]]]]]. destruct Hbc as [_ [Hc [j' [k [Hj' [Hk Hjk]]]]]].
    rewrite Hj in Hj'. inversion Hj'; subst j'. split; auto. split; auto. exists i, k. repeat split; auto.
    eapply brel_trans_spec; eauto.
  - intros a c [b [Hab Hbc]] l a' He. destruct (Hsim _ _ Hab _ _ He) as [b' [He' Hab']].
    destruct (Hsim _ _ Hbc _ _ He') as [c' [He'' Hbc']]. exists c'. split; auto. exists b'. auto.
Qed.

(* ---------- no partition given: the greatest simulation preorder of the system ---------- *)
Lemma default_init n q r : init_relP n [seqN n] [(0%N, 0%N)] q r <-> (q < N.of_nat n)%N /\ (r < N.of_nat n)%N.
Proof.
  unfold init_relP. split; [tauto|]. intros [Hq Hr]. split; auto. split; auto. exists 0%N, 0%N.
  assert (B : forall x, (x < N.of_nat n)%N -> block_of [seqN n] x = Some 0%N).
  { intros x Hx. unfold block_of. simpl.
    assert (existsb (N.eqb x) (seqN n) = true) as -> by (apply existsb_exists; exists x; split; [apply seqN_In; auto|apply N.eqb_refl]). auto. }
  repeat split; auto. simpl; auto.
Qed.

Theorem lts_sim_default_greatest L n :
  is_greatest (fun R => within n R /\ simulation L R) (rel_of (lts_sim_default L n)).
Proof.
  unfold lts_sim_default. destruct (lts_sim_greatest L n [seqN n] [(0%N, 0%N)]) as [[H1 H2] H3]. split; [split|]; auto.
  - intros q r H. apply default_init, H1, H.
  - intros R' [Hin Hsim]. apply H3. split; auto. intros q r H. apply default_init, Hin, H.
Qed.

Lemma count_seqN q : forall k s, length (filter (N.eqb q) (map N.of_nat (seq s k))) =
  if (s <=? N.to_nat q) && (N.to_nat q <? s + k) then 1 else 0.
Proof.
  induction k as [|k IH]; intros s.
  - simpl. destruct (Nat.leb_spec s (N.to_nat q)), (Nat.ltb_spec (N.to_nat q) (s + 0)); simpl; auto; lia.
  - cbn [seq map filter]. destruct (N.eqb_spec q (N.of_nat s)) as [->|NE]; cbn [length]; rewrite IH.
    + rewrite Nat2N.id. destruct (Nat.leb_spec (S s) s), (Nat.leb_spec s s), (Nat.ltb_spec s (s + S k)); simpl; auto; lia.
    + assert (N.to_nat q <> s) by (intros <-; apply NE; rewrite N2Nat.id; auto).
      destruct (Nat.leb_spec (S s) (N.to_nat q)), (Nat.leb_spec s (N.to_nat q)),
        (Nat.ltb_spec (N.to_nat q) (S s + k)), (Nat.ltb_spec (N.to_nat q) (s + S k)); simpl; auto; lia.
Qed.

Lemma default_partition_ok n : partition_ok n [seqN n] = true \/ n = 0.
Proof.
  destruct n as [|n]; [right; auto|left]. unfold partition_ok. rewrite !andb_true_iff. repeat split.
  - apply forallb_forall. intros q Hq. apply Nat.eqb_eq. unfold count_in. cbn [concat]. rewrite app_nil_r.
    apply seqN_In in Hq. unfold seqN. rewrite count_seqN.
    destruct (Nat.leb_spec 0 (N.to_nat q)), (Nat.ltb_spec (N.to_nat q) (0 + S n)); simpl; auto; lia.
  - apply forallb_forall. intros q Hq. cbn [concat] in Hq. rewrite app_nil_r in Hq. apply N.ltb_lt, seqN_In, Hq.
Qed.

Theorem lts_sim_default_preorder L n : lts_wf L n = true ->
  reflexive_on n (rel_of (lts_sim_default L n)) /\ transitive (rel_of (lts_sim_default L n)).
Proof.
  intros Hwf. split.
  - destruct (default_partition_ok n) as [Hp| ->].
    + apply lts_sim_reflexive; auto.
    + intros q Hq. simpl in Hq. lia.
  - apply lts_sim_transitive. reflexivity.
Qed.

(* ---------- output restriction ---------- *)
Theorem output_spec m R q r : In (q, r) (output m R) <-> In (q, r) R /\ (q < m)%N /\ (r < m)%N.
Proof. unfold output. rewrite filter_In. simpl. rewrite andb_true_iff, !N.ltb_lt. tauto. Qed.

Lemma below_spec m R : below m R = true <-> forall q r, In (q, r) R -> (q < m)%N /\ (r < m)%N.
Proof. unfold below. rewrite forallb_forall. split.
  - intros H q r Hx. specialize (H _ Hx). simpl in H. rewrite andb_true_iff, !N.ltb_lt in H. auto.
  - intros H [q r] Hx. simpl. rewrite andb_true_iff, !N.ltb_lt. auto. Qed.

(* ---------- the gate decides set equality with the model ---------- *)
Lemma subP_spec l m : subP l m = true <-> incl l m.
Proof. unfold subP. rewrite forallb_forall. split; intros H x Hx; [apply memP_In | apply memP_In]; auto. Qed.
Theorem rel_same_spec l m : rel_same l m = true <-> forall q r, In (q, r) l <-> In (q, r) m.
Proof. unfold rel_same. rewrite andb_true_iff, !subP_spec. split.
  - intros [H1 H2] q r. split; auto.
  - intros H. split; intros [q r] Hx; apply H; auto. Qed.

(* an implementation output passes the gate iff it reports exactly: the pairs below the requested size
   that belong to the greatest simulation inside the initial relation *)
Theorem gate_lts_spec L n part brel m impl :
  gate_lts L n part brel m impl = true <->
  exists S, is_greatest (fun R => sub_rel R (init_relP n part brel) /\ simulation L R) S /\
            forall q r, In (q, r) impl <-> S q r /\ (q < m)%N /\ (r < m)%N.
Proof.
  unfold gate_lts. rewrite rel_same_spec. split.
  - intros H. exists (rel_of (lts_sim L n part brel)). split; [apply lts_sim_greatest|].
    intros q r. rewrite H, output_spec. reflexivity.
  - intros [S [[HS HgS] H]] q r. rewrite H, output_spec. destruct (lts_sim_greatest L n part brel) as [HM HgM].
    split; intros [H1 H2]; split; auto; [apply (HgM S HS) | apply (HgS _ HM)]; auto.
Qed.

Theorem gate_lts_default_spec L n m impl :
  gate_lts_default L n m impl = true <->
  exists S, is_greatest (fun R => within n R /\ simulation L R) S /\
            forall q r, In (q, r) impl <-> S q r /\ (q < m)%N /\ (r < m)%N.
Proof.
  unfold gate_lts_default. rewrite rel_same_spec. split.
  - intros H. exists (rel_of (lts_sim_default L n)). split; [apply lts_sim_default_greatest|].
    intros q r. rewrite H, output_spec. reflexivity.
  - intros [S [[HS HgS] H]] q r. rewrite H, output_spec. destruct (lts_sim_default_greatest L n) as [HM HgM].
    split; intros [H1 H2]; split; auto; [apply (HgM S HS) | apply (HgS _ HM)]; auto.
Qed.

(* ---------- the hypotheses are satisfiable, and the statement is not vacuous ---------- *)
Example ex_lts : lts := [(0, 0, 1); (1, 0, 1); (2, 0, 0); (2, 1, 2)]%N.
Example ex_input_ok : input_ok ex_lts 3 [[0; 2]; [1]]%N [(0, 0); (1, 1); (0, 1)]%N = true.
Proof. vm_compute. reflexivity. Qed.
Example ex_result : lts_sim ex_lts 3 [[0; 2]; [1]]%N [(0, 0); (1, 1); (0, 1)]%N = [(0, 0); (0, 1); (1, 1); (2, 2)]%N.
Proof. vm_compute. reflexivity. Qed.
Example ex_default : lts_sim_default ex_lts 3 = [(0, 0); (0, 1); (0, 2); (1, 0); (1, 1); (1, 2); (2, 2)]%N.
Proof. vm_compute. reflexivity. Qed.
