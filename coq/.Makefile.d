Fix.vo Fix.glob Fix.v.beautified Fix.required_vo: Fix.v 
Fix.vio: Fix.v 
Fix.vos Fix.vok Fix.required_vos: Fix.v 
Gfp.vo Gfp.glob Gfp.v.beautified Gfp.required_vo: Gfp.v 
Gfp.vio: Gfp.v 
Gfp.vos Gfp.vok Gfp.required_vos: Gfp.v 
Sem.vo Sem.glob Sem.v.beautified Sem.required_vo: Sem.v 
Sem.vio: Sem.v 
Sem.vos Sem.vok Sem.required_vos: Sem.v 
Prod.vo Prod.glob Prod.v.beautified Prod.required_vo: Prod.v Fix.vo Sem.vo
Prod.vio: Prod.v Fix.vio Sem.vio
Prod.vos Prod.vok Prod.required_vos: Prod.v Fix.vos Sem.vos
Incl.vo Incl.glob Incl.v.beautified Incl.required_vo: Incl.v Fix.vo Sem.vo Prod.vo
Incl.vio: Incl.v Fix.vio Sem.vio Prod.vio
Incl.vos Incl.vok Incl.required_vos: Incl.v Fix.vos Sem.vos Prod.vos
TrimDefs.vo TrimDefs.glob TrimDefs.v.beautified TrimDefs.required_vo: TrimDefs.v Fix.vo Sem.vo Prod.vo Incl.vo
TrimDefs.vio: TrimDefs.v Fix.vio Sem.vio Prod.vio Incl.vio
TrimDefs.vos TrimDefs.vok TrimDefs.required_vos: TrimDefs.v Fix.vos Sem.vos Prod.vos Incl.vos
TrimProofs.vo TrimProofs.glob TrimProofs.v.beautified TrimProofs.required_vo: TrimProofs.v Fix.vo Sem.vo Prod.vo Incl.vo TrimDefs.vo
TrimProofs.vio: TrimProofs.v Fix.vio Sem.vio Prod.vio Incl.vio TrimDefs.vio
TrimProofs.vos TrimProofs.vok TrimProofs.required_vos: TrimProofs.v Fix.vos Sem.vos Prod.vos Incl.vos TrimDefs.vos
Properties_C03.vo Properties_C03.glob Properties_C03.v.beautified Properties_C03.required_vo: Properties_C03.v Sem.vo Prod.vo Incl.vo TrimDefs.vo TrimProofs.vo
Properties_C03.vio: Properties_C03.v Sem.vio Prod.vio Incl.vio TrimDefs.vio TrimProofs.vio
Properties_C03.vos Properties_C03.vok Properties_C03.required_vos: Properties_C03.v Sem.vos Prod.vos Incl.vos TrimDefs.vos TrimProofs.vos
Extract_C03.vo Extract_C03.glob Extract_C03.v.beautified Extract_C03.required_vo: Extract_C03.v Sem.vo Prod.vo Incl.vo TrimDefs.vo
Extract_C03.vio: Extract_C03.v Sem.vio Prod.vio Incl.vio TrimDefs.vio
Extract_C03.vos Extract_C03.vok Extract_C03.required_vos: Extract_C03.v Sem.vos Prod.vos Incl.vos TrimDefs.vos
