(* C03 — executable models of the trimming operations of the explicit tree encoding
   (src/explicit_tree_unreach.cc, src/explicit_tree_useless.cc, IsLangEmpty in
   src/explicit_tree_aut_core.hh), following the code's phases and its shortcuts.
   Definitions only: this file is extracted, proofs live in TrimProofs.v. *)
From Coq Require Import List NArith Bool Arith.
Import ListNotations.
From V Require Import Fix Sem Prod Incl.

(* ---- top-down reachability (worklist of RemoveUnreachableStates) ---- *)
Definition td_step (A : ta) (S : list N) : list N :=
  finals A ++ flat_map (fun r => if memN (par r) S then ch r else []) (rules A).

Definition td_reach (A : ta) : list N :=
  saturate N N.eq_dec (td_step A) (S (length (states A))) [].

(* states that own at least one rule: the keys of transitions_ *)
Definition owners (A : ta) : list N := nodup N.eq_dec (map par (rules A)).

Definition restrict_par (R : list N) (A : ta) : ta :=
  {| rules := filter (fun r => memN (par r) R) (rules A); finals := finals A |}.

(* the size-comparison shortcut, as repaired by the fix: commit
   ("count reachable states that own rules"); the historical shortcut compared
   |reachable| with |owners| directly, see [shortcut_old] and TrimProofs.C03_old_shortcut_refuted *)
Definition shortcut (R : list N) (A : ta) : bool :=
  Nat.eqb (length (filter (fun q => memN q (owners A)) R)) (length (owners A)).
Definition shortcut_old (R : list N) (A : ta) : bool :=
  Nat.eqb (length R) (length (owners A)).

Definition remove_unreachable_with (sc : list N -> ta -> bool) (A : ta) : ta :=
  let R := td_reach A in
  if sc R A then A else restrict_par R A.
Definition remove_unreachable := remove_unreachable_with shortcut.
Definition remove_unreachable_old := remove_unreachable_with shortcut_old.

(* ---- bottom-up productivity (RemoveUselessStates) ---- *)
Definition rule_productive (P : list N) (r : rule) : bool := forallb (fun c => memN c P) (ch r).

Definition nonnull (r : rule) : bool := match ch r with [] => false | _ => true end.

(* the counter `remaining`: incremented once per distinct child of every non-nullary rule,
   decremented once per non-nullary rule whose children all became productive *)
Definition remaining (A : ta) (P : list N) : nat :=
  list_sum (map (fun r => length (nodup N.eq_dec (ch r))) (filter nonnull (rules A)))
  - length (filter (rule_productive P) (filter nonnull (rules A))).

Definition productive_part (A : ta) : ta :=
  let P := productive A in
  {| rules := if Nat.eqb (remaining A P) 0 then rules A else filter (rule_productive P) (rules A);
     finals := filter (fun q => memN q P) (finals A) |}.

Definition remove_useless (A : ta) : ta := remove_unreachable (productive_part A).

Definition is_lang_empty (A : ta) : bool :=
  match finals (remove_useless A) with [] => true | _ => false end.

(* ---- canonical comparison of automata as sets ---- *)
Definition rule_eqb (r s : rule) : bool :=
  N.eqb (sym r) (sym s) && N.eqb (par r) (par s) &&
  (fix leq (a b : list N) := match a, b with
     | [], [] => true | x :: a', y :: b' => N.eqb x y && leq a' b' | _, _ => false end) (ch r) (ch s).
Definition memR (r : rule) (l : list rule) : bool := existsb (rule_eqb r) l.
Definition subR (l m : list rule) : bool := forallb (fun r => memR r m) l.
Definition subN (l m : list N) : bool := forallb (fun q => memN q m) l.
Definition ta_same (A B : ta) : bool :=
  subR (rules A) (rules B) && subR (rules B) (rules A) && subN (finals A) (finals B) && subN (finals B) (finals A).

(* ---- the gates: the property evaluated on the implementation's output ---- *)
Definition equiv_dec (A B : ta) : bool := incl_dec A B && incl_dec B A.

(* every state that still occurs is reachable top-down from a final state *)
Definition no_unreachable (U : ta) : bool := subN (states U) (td_reach U).

(* every remaining rule / state takes part in an accepting run *)
Definition rule_useful (L : ta) (r : rule) : bool :=
  memN (par r) (td_reach L) && rule_productive (productive L) r.
Definition state_useful (L : ta) (q : N) : bool :=
  memN q (td_reach L) && memN q (productive L).
Definition no_useless (L : ta) : bool :=
  forallb (rule_useful L) (rules L) && forallb (state_useful L) (states L).

Definition gate_unreach (A U : ta) : bool := equiv_dec U A && no_unreachable U.
Definition gate_useless (A L : ta) : bool := equiv_dec L A && no_useless L.
Definition gate_empty (A : ta) (e : bool) : bool := Bool.eqb e (is_empty A).
