(* C09 / C10 — executable models of the word-automata operations of libvata
   (src/explicit_finite_union.cc, _isect.cc, _reverse.cc, _unreach.cc, _useless.cc, _candidate.cc,
   src/explicit_finite_incl.cc) and the boolean gates evaluated on libvata's output.
   Definitions only: this file is extracted; the proofs live in NfaProofs.v.
   The word semantics ([nfa], [wpath], [waccepts], [wlincl]) and the verified deciders
   ([wincl_dec], [wequiv_dec], [wis_empty]) come from Lang.v. *)
From Coq Require Import List NArith Bool Arith.
Import ListNotations.
From V Require Import Fix Sem Prod Incl TrimDefs Lang.

Definition edge := (N * N * N)%type.                 (* (source, symbol, target) *)
Definition esrc (e : edge) : N := fst (fst e).
Definition esym (e : edge) : N := snd (fst e).
Definition edst (e : edge) : N := snd e.

Definition nstates (A : nfa) : list N :=
  nstarts A ++ nfinals A ++ flat_map (fun e => [esrc e; edst e]) (edges A).

(* ---------- renaming, concatenation: Union / UnionDisjointStates ---------- *)
Definition map_edge (h : N -> N) (e : edge) : edge := (h (esrc e), esym e, h (edst e)).
Definition nimage (h : N -> N) (A : nfa) : nfa :=
  {| nstarts := map h (nstarts A); nfinals := map h (nfinals A); edges := map (map_edge h) (edges A) |}.
Definition napp (A B : nfa) : nfa :=
  {| nstarts := nstarts A ++ nstarts B; nfinals := nfinals A ++ nfinals B; edges := edges A ++ edges B |}.

(* Union: both operands re-indexed (ReindexStates) into one fresh automaton through the
   translation maps the call reports; (R) model: the maps are an argument *)
Definition nunion_with (hA hB : N -> N) (A B : nfa) : nfa := napp (nimage hA A) (nimage hB B).
(* UnionDisjointStates on operands with disjoint state sets *)
Definition nunion_disjoint (A B : nfa) : nfa := napp A B.
(* UnionDisjointStates as coded for arbitrary operands: the cluster map of rhs is inserted into a
   copy of lhs's, and unordered_map::insert keeps the existing entry: a source state that owns
   edges in lhs keeps only those (equal to [napp] when the state sets are disjoint) *)
Definition nunion_disjoint_coded (A B : nfa) : nfa :=
  {| nstarts := nstarts A ++ nstarts B; nfinals := nfinals A ++ nfinals B;
     edges := edges A ++ filter (fun e => negb (memN (esrc e) (map esrc (edges A)))) (edges B) |}.

(* finite maps reported by the implementation *)
Fixpoint alookup (m : list (N * N)) (x : N) : option N :=
  match m with [] => None | (k, v) :: r => if N.eqb k x then Some v else alookup r x end.
Definition amap (m : list (N * N)) (x : N) : N := match alookup m x with Some v => v | None => x end.

Definition inj_onb (h : N -> N) (l : list N) : bool :=
  forallb (fun x => forallb (fun y => implb (N.eqb (h x) (h y)) (N.eqb x y)) l) l.
Definition disjointb (l m : list N) : bool := forallb (fun x => negb (memN x m)) l.
Definition valid_nunionb (hA hB : N -> N) (A B : nfa) : bool :=
  inj_onb hA (nstates A) && inj_onb hB (nstates B) && disjointb (map hA (nstates A)) (map hB (nstates B)).

(* ---------- Reverse ---------- *)
Definition rev_edge (e : edge) : edge := (edst e, esym e, esrc e).
Definition nreverse (A : nfa) : nfa :=
  {| nstarts := nfinals A; nfinals := nstarts A; edges := map rev_edge (edges A) |}.

(* ---------- RemoveUnreachableStates: worklist from the start states ---------- *)
Definition nreach_step (A : nfa) (S : list N) : list N :=
  nstarts A ++ flat_map (fun e => if memN (esrc e) S then [edst e] else []) (edges A).
Definition nreach (A : nfa) : list N :=
  saturate N N.eq_dec (nreach_step A) (S (length (nstates A))) [].
(* start states are all kept; final states and clusters (edges by source) of reachable states *)
Definition nunreach (A : nfa) : nfa :=
  let R := nreach A in
  {| nstarts := nstarts A; nfinals := filter (fun q => memN q R) (nfinals A);
     edges := filter (fun e => memN (esrc e) R) (edges A) |}.

(* ---------- RemoveUselessStates, exactly the chain of the code ---------- *)
Definition nuseless (A : nfa) : nfa := nreverse (nunreach (nreverse (nunreach A))).

(* ---------- Intersection ---------- *)
(* full product under a pairing function; a pair is initial iff both components are *)
Definition nprod_full (pr : N -> N -> N) (A B : nfa) : nfa :=
  {| nstarts := flat_map (fun p => map (pr p) (nstarts B)) (nstarts A);
     nfinals := flat_map (fun p => map (pr p) (nfinals B)) (nfinals A);
     edges := flat_map (fun e => flat_map (fun f =>
                if N.eqb (esym e) (esym f) then [(pr (esrc e) (esrc f), esym e, pr (edst e) (edst f))] else [])
                (edges B)) (edges A) |}.
(* as coded: explore from the start pairs, then RemoveUselessStates *)
Definition nisect (pr : N -> N -> N) (A B : nfa) : nfa := nuseless (nunreach (nprod_full pr A B)).
(* historical product (before the fix of D7): a reached pair was made initial when either component
   was initial and the pair had a common-symbol edge; only the start set differs *)
Definition nisect_old_starts (pr : N -> N -> N) (A B : nfa) : list N :=
  flat_map (fun e => flat_map (fun f =>
     if N.eqb (esym e) (esym f) && memN (pr (esrc e) (esrc f)) (nreach (nprod_full pr A B))
        && (memN (esrc e) (nstarts A) || memN (esrc f) (nstarts B))
     then [pr (esrc e) (esrc f)] else []) (edges B)) (edges A).
Definition nisect_old (pr : N -> N -> N) (A B : nfa) : nfa :=
  let P := nunreach (nprod_full pr A B) in
  nuseless {| nstarts := nisect_old_starts pr A B; nfinals := nfinals P; edges := edges P |}.

Definition inj2_onb (pr : N -> N -> N) (la lb : list N) : bool :=
  let ps := list_prod la lb in
  forallb (fun x => forallb (fun y =>
    implb (N.eqb (pr (fst x) (snd x)) (pr (fst y) (snd y))) (N.eqb (fst x) (fst y) && N.eqb (snd x) (snd y))) ps) ps.

(* the canonical pairing used by the gate:  p * K + q  with K above every state of B *)
Definition nbound (B : nfa) : N := N.succ (fold_right N.max 0%N (nstates B)).
Definition pr0 (K p q : N) : N := (p * K + q)%N.

(* pairing read from the reported ProductTranslMap; unreported pairs go above [big] *)
Fixpoint plookup (m : list (N * N * N)) (p q : N) : option N :=
  match m with [] => None | (a, b, r) :: t => if N.eqb a p && N.eqb b q then Some r else plookup t p q end.
Definition pmap (m : list (N * N * N)) (big K p q : N) : N :=
  match plookup m p q with Some r => r | None => (big + pr0 K p q)%N end.

(* ---------- GetCandidateTree: breadth-first search for the first final state ---------- *)
Definition out_edges (A : nfa) (s : N) : list edge := filter (fun e => N.eqb (esrc e) s) (edges A).

(* scanning the successors of the dequeued state: stops at the first final successor *)
Fixpoint cand_scan (A : nfa) (es : list edge) (seen queue : list N) : option N * (list N * list N) :=
  match es with
  | [] => (None, (seen, queue))
  | e :: r =>
      let q := edst e in
      let sq := if memN q seen then (seen, queue) else (q :: seen, queue ++ [q]) in
      if memN q (nfinals A) then (Some q, sq) else cand_scan A r (fst sq) (snd sq)
  end.

Fixpoint cand_bfs (fuel : nat) (A : nfa) (seen queue : list N) (acc : list edge) : list N * list edge :=
  match fuel with
  | 0 => ([], acc)
  | S f =>
    match queue with
    | [] => ([], acc)
    | s :: rest =>
        let es := out_edges A s in
        match cand_scan A es seen rest with
        | (Some q, _) => ([q], acc ++ es)
        | (None, (seen', queue')) => cand_bfs f A seen' queue' (acc ++ es)
        end
    end
  end.

(* the initial loop over the start states with the repair of D13: a final start state ends the search *)
Fixpoint cand_first_final_start (A : nfa) (ss done : list N) : option (list N * N) :=
  match ss with
  | [] => None
  | s :: r => if memN s (nfinals A) then Some (done ++ [s], s) else cand_first_final_start A r (done ++ [s])
  end.

Definition ncandidate_raw_old (A : nfa) : nfa :=
  let ss := nodup N.eq_dec (nstarts A) in
  let '(fs, es) := cand_bfs (S (length (nstates A))) A ss ss [] in
  {| nstarts := nstarts A; nfinals := fs; edges := es |}.
Definition ncandidate_raw (A : nfa) : nfa :=
  match cand_first_final_start A (nstarts A) [] with
  | Some (ss, s) => {| nstarts := ss; nfinals := [s]; edges := [] |}
  | None => ncandidate_raw_old A
  end.
(* the code before the fix of D13 never tested the start states for finality *)
Definition ncandidate_old (A : nfa) : nfa := nuseless (ncandidate_raw_old A).
Definition ncandidate (A : nfa) : nfa := nuseless (ncandidate_raw A).

(* ---------- structural comparison (sets) ---------- *)
Definition edge_eqb (e f : edge) : bool := N.eqb (esrc e) (esrc f) && N.eqb (esym e) (esym f) && N.eqb (edst e) (edst f).
Definition memE (e : edge) (l : list edge) : bool := existsb (edge_eqb e) l.
Definition subE (l m : list edge) : bool := forallb (fun e => memE e m) l.
Definition nfa_sub (A B : nfa) : bool :=
  subN (nstarts A) (nstarts B) && subN (nfinals A) (nfinals B) && subE (edges A) (edges B).
Definition nfa_same (A B : nfa) : bool := nfa_sub A B && nfa_sub B A.

(* ---------- the gates of C10: the property clauses evaluated on libvata's output ---------- *)
(* R accepts exactly L(A) ∪ L(B) *)
Definition gate_nunion (A B R : nfa) : bool :=
  wincl_dec A R && wincl_dec B R && wincl_dec R (nunion_with d0 d1 A B).
(* R accepts exactly L(A) ∩ L(B) *)
Definition gate_nisect (A B R : nfa) : bool :=
  wincl_dec R A && wincl_dec R B && wincl_dec (nuseless (nprod_full (pr0 (nbound B)) A B)) R.
(* R accepts exactly the mirror images of the words of A *)
Definition gate_nreverse (A R : nfa) : bool := wequiv_dec R (nreverse A).
(* R has the language of A (RemoveUnreachableStates, RemoveUselessStates) *)
Definition gate_nsame (A R : nfa) : bool := wequiv_dec R A.
(* L(R) ⊆ L(A), and L(R) empty only if L(A) empty (GetCandidateTree) *)
Definition gate_ncandidate (A R : nfa) : bool := wincl_dec R A && implb (wis_empty R) (wis_empty A).
(* fast path / structural reading: a sub-automaton that is non-empty if A is *)
Definition ncandidate_ok (A R : nfa) : bool := nfa_sub R A && implb (wis_empty R) (wis_empty A).

(* ---------- C09: the verdict function ---------- *)
Inductive nsel := Antichains | CongrDepth | CongrBreadth.
(* every selection first sanitizes both operands (RemoveUselessStates + renumbering, the latter an
   injective renaming and not modelled here), the congruence selections then compare
   L(smaller ∪ bigger) with L(bigger); at the functional level all three are the verified decider *)
Definition wincl_model (v : nsel) (A B : nfa) : bool :=
  match v with
  | Antichains => wincl_dec (nuseless A) (nuseless B)
  | CongrDepth | CongrBreadth => wequiv_dec (nunion_with d0 d1 (nuseless A) (nuseless B)) (nuseless B)
  end.
(* operand preparation of the congruence selections before the fix of D6: the union automaton was
   built by UnionDisjointStates from the operands as given (shared state numbers merge) *)
Definition wincl_congr_old (A B : nfa) : bool := wequiv_dec (nunion_disjoint_coded A B) (nuseless B).
(* gate: a reported verdict is the truth *)
Definition gate_verdict (A B : nfa) (v : bool) : bool := Bool.eqb v (wincl_dec A B).
