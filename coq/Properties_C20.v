(* C20 — the part of "no memory errors / undefined behaviour" that is logic: protocol models of the address-keyed memo
   (Util::Cache + CachedBinaryOp) under address reuse and of CachingAllocator. Statements only. The rest of C20
   (bounds, initialisation, iterator validity, arithmetic) cannot be exhibited by a Gallina model and is observed by
   instrumented execution (ASan/UBSan/valgrind) of the correspondence workloads — see DESIGN.md. *)
From Coq Require Import List NArith Bool.
Import ListNotations.
From V Require Import ProtoDefs ProtoProofs.

(* with the cache's deleter invalidating the memo, along every history — whatever addresses are recycled — every memo
   lookup returns f applied to the CURRENT contents of its two arguments *)
Theorem C20_memo_sound_under_reuse : forall (V : Type) (veqb f : V -> V -> bool) (ops : list (mop V)),
  sound_outputs V veqb f (minit V) ops.
Proof. exact memo_sound_under_reuse. Qed.
Theorem C20_memo_step_inv : forall (V : Type) (veqb f : V -> V -> bool) s o, MInv V f s -> MInv V f (fst (mstep V veqb f true s o)).
Proof. exact mstep_inv. Qed.
(* without the invalidation a recycled address yields a stale answer *)
Theorem C20_memo_without_invalidation_refuted :
  snd (mrun N N.eqb N.leb false (minit N) stale_history) = [None; None; Some true; None; None; Some true] /\
  snd (mrun N N.eqb N.leb true (minit N) stale_history) = [None; None; Some true; None; None; Some false] /\
  N.leb 9 5 = false.
Proof. exact memo_without_invalidation_refuted. Qed.
(* the allocator pool never hands out a live object as long as clients reclaim only live objects *)
Theorem C20_pool_step_inv : forall s o, PInv s -> pop_ok s o = true -> PInv (fst (pstep s o)).
Proof. exact pstep_inv. Qed.
Theorem C20_pool_no_alias : forall s ops, PInv s -> pool_ok_run s ops -> no_alias_run s ops.
Proof. exact pool_no_alias_run. Qed.
Theorem C20_pool_init : PInv pinit.
Proof. exact pinit_inv. Qed.
(* a double reclaim breaks it *)
Theorem C20_pool_double_reclaim_refuted :
  snd (prun pinit [PAlloc; PReclaim 0; PReclaim 0; PAlloc; PAlloc]%N) = [Some 0; None; None; Some 0; Some 0]%N.
Proof. exact pool_double_reclaim_refuted. Qed.

Print Assumptions C20_memo_sound_under_reuse.
Print Assumptions C20_memo_step_inv.
Print Assumptions C20_memo_without_invalidation_refuted.
Print Assumptions C20_pool_step_inv.
Print Assumptions C20_pool_no_alias.
Print Assumptions C20_pool_init.
Print Assumptions C20_pool_double_reclaim_refuted.
