(* C17 — proofs about the functional MTBDD model of MtbddDefs.v: canonicity (copied from the
   prototype Dd.v and adapted), GetValue, construction, apply1/2/3, projection, renaming, prefix
   extension and selection: pointwise meaning and preservation of well-formedness. *)
From Coq Require Import List Arith Lia Bool.
From V Require Import MtbddDefs MtbddOps.
Import ListNotations.

Section DDP.
Variable V : Type.
Variable V_eq_dec : forall a b : V, {a = b} + {a <> b}.
Notation dd := (dd V).
Notation ev := (ev V).
Notation mk := (mk V V_eq_dec).

(* variables strictly decrease from the root: the root carries the highest index *)
Definition top_lt (d : dd) (b : nat) : Prop := match d with Leaf _ => True | Nd x _ _ => x < b end.
Fixpoint wf (d : dd) : Prop :=
  match d with
  | Leaf _ => True
  | Nd x lo hi => lo <> hi /\ top_lt lo x /\ top_lt hi x /\ wf lo /\ wf hi
  end.
(* ordered only (what the pointwise theorems about prefix selection need) *)
Fixpoint ordered (d : dd) : Prop :=
  match d with
  | Leaf _ => True
  | Nd x lo hi => top_lt lo x /\ top_lt hi x /\ ordered lo /\ ordered hi
  end.
Lemma wf_ordered d : wf d -> ordered d.
Proof. induction d; simpl; tauto. Qed.

Fixpoint below (d : dd) (b : nat) : Prop :=
  match d with Leaf _ => True | Nd x lo hi => x < b /\ below lo b /\ below hi b end.
Lemma top_lt_weaken d b c : top_lt d b -> b <= c -> top_lt d c.
Proof. destruct d; simpl; auto. lia. Qed.
Lemma ordered_below d : ordered d -> forall b, top_lt d b -> below d b.
Proof.
  induction d as [v|x lo IHlo hi IHhi]; simpl; auto.
  intros [Hl [Hh [Wl Wh]]] b Hb. split; auto. split.
  - apply IHlo; auto. eapply top_lt_weaken; eauto. lia.
  - apply IHhi; auto. eapply top_lt_weaken; eauto. lia.
Qed.
Lemma wf_below d : wf d -> forall b, top_lt d b -> below d b.
Proof. intros W. apply ordered_below, wf_ordered, W. Qed.
Lemma below_weaken d : forall b c, below d b -> b <= c -> below d c.
Proof. induction d; simpl; auto. intros b c [H1 [H2 H3]] L. repeat split; [lia| eapply IHd1 | eapply IHd2]; eauto. Qed.
Lemma below_top_lt d b : below d b -> top_lt d b.
Proof. destruct d; simpl; tauto. Qed.

Definition upd (s : asg) (x : nat) (b : bool) : asg := fun y => if Nat.eqb y x then b else s y.
Lemma ev_ext d : forall s t, (forall x, s x = t x) -> ev d s = ev d t.
Proof. induction d; simpl; auto. intros s t E. rewrite (E x), (IHd1 s t E), (IHd2 s t E). reflexivity. Qed.
Lemma ev_agree_below d : forall b s t, below d b -> (forall x, x < b -> s x = t x) -> ev d s = ev d t.
Proof.
  induction d as [v|y lo IHlo hi IHhi]; simpl; auto. intros b s t [Hy [Hl Hh]] E.
  rewrite (E y Hy), (IHlo b s t Hl E), (IHhi b s t Hh E). reflexivity.
Qed.
Lemma ev_upd_below d : forall x b s, below d x -> ev d (upd s x b) = ev d s.
Proof.
  intros x b s B. apply (ev_agree_below d x); auto. intros y Hy. unfold upd.
  destruct (Nat.eqb_spec y x); [lia|reflexivity].
Qed.
Lemma ev_node_upd x lo hi s b : below lo x -> below hi x ->
  ev (Nd x lo hi) (upd s x b) = if b then ev hi s else ev lo s.
Proof. intros Hl Hh. simpl. unfold upd at 1. rewrite Nat.eqb_refl. destruct b; apply ev_upd_below; auto. Qed.

Lemma split_eq x lo hi d : below lo x -> below hi x -> below d x ->
  (forall s, ev (Nd x lo hi) s = ev d s) -> (forall s, ev lo s = ev d s) /\ (forall s, ev hi s = ev d s).
Proof.
  intros Hl Hh Hd E. split; intros s.
  - specialize (E (upd s x false)). rewrite ev_node_upd in E by auto. rewrite ev_upd_below in E by auto. exact E.
  - specialize (E (upd s x true)). rewrite ev_node_upd in E by auto. rewrite ev_upd_below in E by auto. exact E.
Qed.

(* canonicity: two reduced ordered diagrams denoting the same function are the same diagram *)
Theorem canonical : forall a b, wf a -> wf b -> (forall s, ev a s = ev b s) -> a = b.
Proof.
  induction a as [va|x lo IHlo hi IHhi]; intros b Wa Wb E.
  - induction b as [vb|y l IHl h IHh]; [f_equal; apply (E (fun _ => false))|].
    exfalso. simpl in Wb. destruct Wb as [Hne [Tl [Th [Wl Wh]]]].
    assert (Bl := wf_below l Wl y Tl). assert (Bh := wf_below h Wh y Th).
    destruct (split_eq y l h (Leaf va) Bl Bh I (fun s => eq_sym (E s))) as [E1 E2].
    apply Hne. transitivity (@Leaf V va); [symmetry; apply IHl; auto | apply IHh; auto].
  - simpl in Wa. destruct Wa as [Hne [Tl [Th [Wl Wh]]]].
    assert (Bl := wf_below lo Wl x Tl). assert (Bh := wf_below hi Wh x Th).
    induction b as [vb|y l IHl h IHh].
    + exfalso. destruct (split_eq x lo hi (Leaf vb) Bl Bh I E) as [E1 E2].
      apply Hne. transitivity (@Leaf V vb); [apply IHlo | symmetry; apply IHhi]; simpl; auto.
    + simpl in Wb. destruct Wb as [Hne' [Tl' [Th' [Wl' Wh']]]].
      assert (Bl' := wf_below l Wl' y Tl'). assert (Bh' := wf_below h Wh' y Th').
      destruct (lt_eq_lt_dec x y) as [[L|Eq]|G].
      * exfalso.
        assert (Ba : below (Nd x lo hi) y) by (simpl; repeat split; auto; eapply below_weaken; eauto; lia).
        destruct (split_eq y l h (Nd x lo hi) Bl' Bh' Ba (fun s => eq_sym (E s))) as [E1 E2].
        apply Hne'. transitivity (Nd x lo hi); [symmetry; apply IHl; auto | apply IHh; auto].
      * subst y. f_equal.
        -- apply IHlo; auto. intros s. specialize (E (upd s x false)). rewrite !ev_node_upd in E by auto. exact E.
        -- apply IHhi; auto. intros s. specialize (E (upd s x true)). rewrite !ev_node_upd in E by auto. exact E.
      * exfalso.
        assert (Bb : below (Nd y l h) x) by (simpl; repeat split; auto; eapply below_weaken; eauto; lia).
        destruct (split_eq x lo hi (Nd y l h) Bl Bh Bb E) as [E1 E2].
        apply Hne. transitivity (Nd y l h); [apply IHlo | symmetry; apply IHhi]; simpl; auto.
Qed.

(* structural equality of well-formed diagrams decides equality of the denoted functions *)
Theorem dd_eqb_spec a b : wf a -> wf b -> (dd_eqb V V_eq_dec a b = true <-> forall s, ev a s = ev b s).
Proof.
  intros Wa Wb. unfold dd_eqb. destruct (dd_eq_dec V V_eq_dec a b) as [E|N].
  - subst. tauto.
  - split; [discriminate|]. intros E. exfalso. apply N, canonical; auto.
Qed.

(* ---- GetValue ------------------------------------------------------------------------------ *)
Definition asg_of (a : list tri) : asg := fun x => is_one (nth x a TX).
Definition refines (a : list tri) (s : asg) : Prop :=
  forall x, (nth x a TX = T1 -> s x = true) /\ (nth x a TX = T0 -> s x = false).

(* a don't-care (and a missing) position follows the low child *)
Theorem get_value_ev d a : get_value V d a = ev d (asg_of a).
Proof. induction d; simpl; auto. unfold asg_of at 1. rewrite IHd1, IHd2. reflexivity. Qed.
Lemma asg_of_refines a : refines a (asg_of a).
Proof. intros x. unfold asg_of. split; intros E; rewrite E; reflexivity. Qed.
Theorem get_value_member d a : exists s, refines a s /\ get_value V d a = ev d s.
Proof. exists (asg_of a). split; [apply asg_of_refines | apply get_value_ev]. Qed.

Lemma refinements_refine a : forall t, In t (refinements a) -> forall s, refines t s -> refines a s.
Proof.
  induction a as [|h r IH]; simpl; intros t Ht s R.
  - destruct Ht as [<-|[]]. exact R.
  - assert (G : forall c t', In t' (refinements r) -> t = c :: t' -> (h = c \/ h = TX) -> c <> TX -> refines (h :: r) s).
    { intros c t' Ht' -> Hc Nc x. destruct x as [|x]; simpl.
      - specialize (R 0). simpl in R. destruct Hc as [->| ->]; [exact R|]. split; discriminate.
      - apply (IH t' Ht' (fun y => s (S y))). intros y. apply (R (S y)). }
    destruct h.
    + apply in_map_iff in Ht as [t' [<- Ht']]. apply (G T0 t'); auto. discriminate.
    + apply in_map_iff in Ht as [t' [<- Ht']]. apply (G T1 t'); auto. discriminate.
    + apply in_app_or in Ht as [Ht|Ht]; apply in_map_iff in Ht as [t' [<- Ht']].
      * apply (G T0 t'); auto. discriminate.
      * apply (G T1 t'); auto. discriminate.
Qed.
Lemma refinements_self a : exists t, In t (refinements a) /\ forall x, is_one (nth x t TX) = is_one (nth x a TX).
Proof.
  induction a as [|h r [t [Ht E]]]; simpl.
  - exists []. split; auto.
  - destruct h.
    + exists (T0 :: t). split; [apply in_map; auto|]. intros [|x]; simpl; auto.
    + exists (T1 :: t). split; [apply in_map; auto|]. intros [|x]; simpl; auto.
    + exists (T0 :: t). split; [apply in_or_app; left; apply in_map; auto|]. intros [|x]; simpl; auto.
Qed.

(* the gate for partial assignments accepts exactly values the diagram takes on a refinement ... *)
Theorem dc_gate_sound d a v : dc_gate V V_eq_dec d a v = true -> exists s, refines a s /\ ev d s = v.
Proof.
  unfold dc_gate. intros H. apply existsb_exists in H as [t [Ht E]].
  destruct (V_eq_dec (get_value V d t) v) as [E'|]; [|discriminate].
  exists (asg_of t). split.
  - eapply refinements_refine; eauto. apply asg_of_refines.
  - rewrite <- get_value_ev. exact E'.
Qed.
(* ... and accepts what the model (don't-care goes low) returns *)
Theorem dc_gate_model d a : dc_gate V V_eq_dec d a (get_value V d a) = true.
Proof.
  unfold dc_gate. apply existsb_exists. destruct (refinements_self a) as [t [Ht E]].
  exists t. split; auto.
  destruct (V_eq_dec (get_value V d t) (get_value V d a)) as [|N]; auto. exfalso. apply N.
  rewrite !get_value_ev. apply ev_ext. intros x. unfold asg_of. apply E.
Qed.

(* ---- mk -------------------------------------------------------------------------------------- *)
Lemma ev_mk x l h s : ev (mk x l h) s = if s x then ev h s else ev l s.
Proof. unfold MtbddDefs.mk. destruct (dd_eq_dec V V_eq_dec l h) as [->|]; simpl; auto. destruct (s x); auto. Qed.
Lemma wf_mk x l h : wf l -> wf h -> top_lt l x -> top_lt h x -> wf (mk x l h).
Proof. intros. unfold MtbddDefs.mk. destruct (dd_eq_dec V V_eq_dec l h); simpl; auto. Qed.
Lemma top_lt_mk x l h n : top_lt l x -> x < n -> top_lt (mk x l h) n.
Proof. intros. unfold MtbddDefs.mk. destruct (dd_eq_dec V V_eq_dec l h); simpl; auto. eapply top_lt_weaken; eauto. lia. Qed.

(* ---- construction ---------------------------------------------------------------------------- *)
(* the assignment positions i.. of asgn, read at variables i+off.., are matched by s *)
Fixpoint matches (asgn : list tri) (i off : nat) (s : asg) : bool :=
  match asgn with
  | [] => true
  | T1 :: r => s (i + off) && matches r (S i) off s
  | T0 :: r => negb (s (i + off)) && matches r (S i) off s
  | TX :: r => matches r (S i) off s
  end.

Lemma chain_ev asgn : forall i off sink proc s,
  ev (chain V asgn i off sink proc) s = if matches asgn i off s then ev proc s else ev sink s.
Proof.
  induction asgn as [|t r IH]; simpl; intros; auto.
  destruct t; rewrite IH; simpl; destruct (s (i + off)); simpl; auto; destruct (matches r (S i) off s); auto.
Qed.

Lemma chain_wf asgn : forall i off dflt proc,
  wf proc -> top_lt proc (i + off) -> proc <> Leaf dflt ->
  wf (chain V asgn i off (Leaf dflt) proc) /\ top_lt (chain V asgn i off (Leaf dflt) proc) (length asgn + i + off)
  /\ chain V asgn i off (Leaf dflt) proc <> Leaf dflt.
Proof.
  induction asgn as [|t r IH]; simpl; intros i off dflt proc W T N.
  - auto.
  - replace (S (length r + i + off)) with (length r + S i + off) by lia. destruct t.
    + apply IH; [simpl; repeat split; auto | simpl; lia | discriminate].
    + apply IH; [simpl; repeat split; auto | simpl; lia | discriminate].
    + apply IH; auto. eapply top_lt_weaken; eauto. simpl. lia.
Qed.

Lemma is_leaf_val_true d v : is_leaf_val V V_eq_dec d v = true -> d = Leaf v.
Proof. destruct d; simpl; [|discriminate]. destruct (V_eq_dec v0 v); [congruence|discriminate]. Qed.
Lemma is_leaf_val_false d v : is_leaf_val V V_eq_dec d v = false -> d <> Leaf v.
Proof. destruct d; simpl; [|discriminate]. destruct (V_eq_dec v0 v); [discriminate|congruence]. Qed.

Theorem construct_from_ev asgn node dflt off s :
  ev (construct_from V V_eq_dec asgn node dflt off) s = if matches asgn 0 off s then ev node s else dflt.
Proof.
  unfold construct_from. destruct (is_leaf_val V V_eq_dec node dflt) eqn:E.
  - apply is_leaf_val_true in E. subst. simpl. destruct (matches asgn 0 off s); reflexivity.
  - rewrite chain_ev. reflexivity.
Qed.
Theorem construct_from_wf asgn node dflt off : wf node -> top_lt node off ->
  wf (construct_from V V_eq_dec asgn node dflt off) /\ top_lt (construct_from V V_eq_dec asgn node dflt off) (length asgn + off).
Proof.
  intros W T. unfold construct_from. destruct (is_leaf_val V V_eq_dec node dflt) eqn:E.
  - split; auto. eapply top_lt_weaken; eauto. lia.
  - apply is_leaf_val_false in E. destruct (chain_wf asgn 0 off dflt node W T E) as [A [B _]].
    split; auto. replace (length asgn + off) with (length asgn + 0 + off) by lia. exact B.
Qed.

(* OndriksMTBDD(asgn, value, default): value exactly on the assignments matched by asgn *)
Theorem construct_ev asgn v dflt s :
  ev (construct V V_eq_dec asgn v dflt) s = if matches asgn 0 0 s then v else dflt.
Proof. unfold construct. rewrite construct_from_ev. reflexivity. Qed.
Theorem construct_wf asgn v dflt : wf (construct V V_eq_dec asgn v dflt).
Proof. apply (construct_from_wf asgn (Leaf v) dflt 0); simpl; auto. Qed.
Lemma construct_top asgn v dflt : top_lt (construct V V_eq_dec asgn v dflt) (length asgn).
Proof. replace (length asgn) with (length asgn + 0) by lia. apply (construct_from_wf asgn (Leaf v) dflt 0); simpl; auto. Qed.

(* [matches] is the membership test of the total assignment s in the symbolic assignment asgn *)
Lemma matches_refines asgn : forall i off s,
  matches asgn i off s = true <-> forall k, (nth k asgn TX = T1 -> s (k + i + off) = true) /\ (nth k asgn TX = T0 -> s (k + i + off) = false).
Proof.
  induction asgn as [|t r IH]; intros i off s; simpl.
  - split; auto. intros _ k. destruct k; split; discriminate.
  - assert (Sh : forall k, S (k + i + off) = k + S i + off) by (intros; lia).
    destruct t; simpl.
    + rewrite andb_true_iff, negb_true_iff, IH. split.
      * intros [A B] [|k]; simpl; [split; [discriminate|auto]|]. rewrite Sh. apply B.
      * intros H. split; [apply (H 0); reflexivity|]. intros k. specialize (H (S k)). simpl in H. rewrite Sh in H. exact H.
    + rewrite andb_true_iff, IH. split.
      * intros [A B] [|k]; simpl; [split; [auto|discriminate]|]. rewrite Sh. apply B.
      * intros H. split; [apply (H 0); reflexivity|]. intros k. specialize (H (S k)). simpl in H. rewrite Sh in H. exact H.
    + rewrite IH. split.
      * intros B [|k]; simpl; [split; discriminate|]. rewrite Sh. apply B.
      * intros H k. specialize (H (S k)). simpl in H. rewrite Sh in H. exact H.
Qed.
Corollary construct_ev_refines asgn v dflt s :
  (refines asgn s -> ev (construct V V_eq_dec asgn v dflt) s = v) /\
  (~ refines asgn s -> ev (construct V V_eq_dec asgn v dflt) s = dflt).
Proof.
  rewrite construct_ev. split; intros H.
  - replace (matches asgn 0 0 s) with true; auto. symmetry. apply matches_refines. intros k.
    replace (k + 0 + 0) with k by lia. apply H.
  - destruct (matches asgn 0 0 s) eqn:E; auto. exfalso. apply H. intros k.
    rewrite matches_refines in E. specialize (E k). replace (k + 0 + 0) with k in E by lia. exact E.
Qed.

(* ExtendWith *)
Theorem extend_ev asgn off d dflt s :
  ev (extend V V_eq_dec asgn off d dflt) s = if matches asgn 0 off s then ev d s else dflt.
Proof. apply construct_from_ev. Qed.
Theorem extend_wf asgn off d dflt : wf d -> top_lt d off -> wf (extend V V_eq_dec asgn off d dflt).
Proof. intros W T. apply construct_from_wf; auto. Qed.
Lemma extend_top asgn off d dflt : wf d -> top_lt d off -> top_lt (extend V V_eq_dec asgn off d dflt) (length asgn + off).
Proof. intros W T. apply construct_from_wf; auto. Qed.

(* ---- GetMtbddForPrefix ----------------------------------------------------------------------- *)
Lemma prefix_sub asgn off d : forall n, ordered d -> top_lt d n ->
  ordered (prefix V asgn off d) /\ top_lt (prefix V asgn off d) n /\ top_lt (prefix V asgn off d) off.
Proof.
  induction d as [v|x lo IHlo hi IHhi]; simpl; intros n O T; auto.
  destruct O as [Tl [Th [Ol Oh]]].
  destruct (Nat.ltb_spec x off).
  - simpl. auto.
  - destruct (is_one (nth (x - off) asgn TX)).
    + apply IHhi; auto. eapply top_lt_weaken; eauto. lia.
    + apply IHlo; auto. eapply top_lt_weaken; eauto. lia.
Qed.
Lemma prefix_wf asgn off d : wf d -> wf (prefix V asgn off d).
Proof.
  induction d as [v|x lo IHlo hi IHhi]; simpl; auto. intros W.
  destruct (x <? off); auto. destruct W as [_ [_ [_ [Wl Wh]]]].
  destruct (is_one (nth (x - off) asgn TX)); auto.
Qed.
(* variables below off are read from s, variable x >= off from position x - off of the prefix *)
Theorem prefix_ev asgn off d s : ordered d ->
  ev (prefix V asgn off d) s = ev d (fun x => if x <? off then s x else is_one (nth (x - off) asgn TX)).
Proof.
  induction d as [v|x lo IHlo hi IHhi]; simpl; auto. intros [Tl [Th [Ol Oh]]].
  destruct (Nat.ltb_spec x off) as [L|G].
  - simpl. assert (Bl := ordered_below lo Ol x Tl). assert (Bh := ordered_below hi Oh x Th).
    destruct (s x).
    + apply (ev_agree_below hi x); auto. intros y Hy. destruct (Nat.ltb_spec y off); auto. lia.
    + apply (ev_agree_below lo x); auto. intros y Hy. destruct (Nat.ltb_spec y off); auto. lia.
  - destruct (is_one (nth (x - off) asgn TX)); auto.
Qed.

(* ---- apply1 ---------------------------------------------------------------------------------- *)
Theorem apply1_ev f d s : ev (apply1 V V_eq_dec f d) s = f (ev d s).
Proof. induction d; simpl; auto. rewrite ev_mk, IHd1, IHd2. destruct (s x); auto. Qed.
Lemma apply1_wf_top f d : wf d -> wf (apply1 V V_eq_dec f d) /\ forall n, top_lt d n -> top_lt (apply1 V V_eq_dec f d) n.
Proof.
  induction d as [v|x lo IHlo hi IHhi]; simpl; auto. intros [_ [Tl [Th [Wl Wh]]]].
  destruct (IHlo Wl) as [A1 A2]. destruct (IHhi Wh) as [B1 B2]. split.
  - apply wf_mk; auto.
  - intros n Hn. apply top_lt_mk; auto.
Qed.
Theorem apply1_wf f d : wf d -> wf (apply1 V V_eq_dec f d).
Proof. intros W. apply apply1_wf_top, W. Qed.

(* ---- apply2 ---------------------------------------------------------------------------------- *)
Theorem apply2_ev op a : forall b s, ev (apply2 V V_eq_dec op a b) s = op (ev a s) (ev b s).
Proof.
  induction a as [u|x al IHl ah IHh]; induction b as [v|y bl IHbl bh IHbh]; intros s; simpl; auto.
  - rewrite ev_mk. simpl in IHbl, IHbh. rewrite IHbl, IHbh. destruct (s y); auto.
  - rewrite ev_mk, IHl, IHh. simpl. destruct (s x); auto.
  - destruct (Nat.compare_spec x y) as [E|L|G].
    + subst y. rewrite ev_mk, IHl, IHh. destruct (s x); auto.
    + rewrite ev_mk. simpl in IHbl, IHbh. rewrite IHbl, IHbh. destruct (s y); auto.
    + rewrite ev_mk, IHl, IHh. simpl. destruct (s x); auto.
Qed.

Lemma apply2_wf_top op a : forall b, wf a -> wf b ->
  wf (apply2 V V_eq_dec op a b) /\ forall n, top_lt a n -> top_lt b n -> top_lt (apply2 V V_eq_dec op a b) n.
Proof.
  induction a as [u|x al IHl ah IHh]; induction b as [v|y bl IHbl bh IHbh]; intros Wa Wb.
  - simpl; auto.
  - simpl. simpl in IHbl, IHbh. destruct Wb as [_ [Tl [Th [Wl Wh]]]].
    destruct (IHbl Wa Wl) as [A1 A2]. destruct (IHbh Wa Wh) as [B1 B2]. split.
    + apply wf_mk; [exact A1 | exact B1 | apply A2; simpl; auto | apply B2; simpl; auto].
    + intros n _ Hn. simpl in Hn. apply top_lt_mk; [apply A2; simpl; auto | auto].
  - simpl. destruct Wa as [_ [Tl [Th [Wl Wh]]]].
    destruct (IHl (Leaf v) Wl I) as [A1 A2]. destruct (IHh (Leaf v) Wh I) as [B1 B2]. split.
    + apply wf_mk; [exact A1 | exact B1 | apply A2; simpl; auto | apply B2; simpl; auto].
    + intros n Hn _. simpl in Hn. apply top_lt_mk; [apply A2; simpl; auto | auto].
  - assert (Wa' := Wa). assert (Wb' := Wb).
    destruct Wa as [_ [Tal [Tah [Wal Wah]]]]. destruct Wb as [_ [Tbl [Tbh [Wbl Wbh]]]].
    simpl. destruct (Nat.compare_spec x y) as [E|L|G].
    + subst y. destruct (IHl bl Wal Wbl) as [A1 A2]. destruct (IHh bh Wah Wbh) as [B1 B2]. split.
      * apply wf_mk; auto.
      * intros n Hn _. simpl in Hn. apply top_lt_mk; auto.
    + simpl in IHbl, IHbh. destruct (IHbl Wa' Wbl) as [A1 A2]. destruct (IHbh Wa' Wbh) as [B1 B2].
      rewrite <- Nat.compare_lt_iff in L.
      split.
      * apply wf_mk; [exact A1 | exact B1 | apply A2; simpl; auto; apply Nat.compare_lt_iff; auto | apply B2; simpl; auto; apply Nat.compare_lt_iff; auto].
      * intros n _ Hn. simpl in Hn. apply top_lt_mk; [apply A2; simpl; auto; apply Nat.compare_lt_iff; auto | auto].
    + destruct (IHl (Nd y bl bh) Wal Wb') as [A1 A2]. destruct (IHh (Nd y bl bh) Wah Wb') as [B1 B2]. split.
      * apply wf_mk; [exact A1 | exact B1 | apply A2; simpl; auto | apply B2; simpl; auto].
      * intros n Hn _. simpl in Hn. apply top_lt_mk; [apply A2; simpl; auto | auto].
Qed.
Theorem apply2_wf op a b : wf a -> wf b -> wf (apply2 V V_eq_dec op a b).
Proof. intros Wa Wb. apply apply2_wf_top; auto. Qed.
Lemma apply2_top op a b n : wf a -> wf b -> top_lt a n -> top_lt b n -> top_lt (apply2 V V_eq_dec op a b) n.
Proof. intros Wa Wb. apply apply2_wf_top; auto. Qed.


(* apply2 is recDescend of apply2func.hh: classifyCase2 decides which operands are branched *)
Definition child_lo (d : dd) : dd := match d with Nd _ l _ => l | Leaf _ => d end.
Definition child_hi (d : dd) : dd := match d with Nd _ _ h => h | Leaf _ => d end.
Definition var_of (d : dd) : nat := match d with Nd x _ _ => x | Leaf _ => 0 end.
Theorem apply2_recdescend op a b :
  apply2 V V_eq_dec op a b =
  let '(b1, b2) := classify2 V a b in
  if negb b1 && negb b2
  then match a, b with Leaf u, Leaf v => Leaf (op u v) | _, _ => a end
  else let x := if b2 then var_of b else var_of a in
       mk x (apply2 V V_eq_dec op (if b1 then child_lo a else a) (if b2 then child_lo b else b))
            (apply2 V V_eq_dec op (if b1 then child_hi a else a) (if b2 then child_hi b else b)).
Proof.
  destruct a as [u|x al ah]; destruct b as [v|y bl bh]; try reflexivity.
  cbn [classify2]. cbn [apply2].
  destruct (Nat.compare_spec x y) as [E|L|G].
  - subst y. rewrite Nat.leb_refl. reflexivity.
  - destruct (Nat.leb_spec y x); [lia|]. destruct (Nat.leb_spec x y); [|lia]. reflexivity.
  - destruct (Nat.leb_spec y x); [|lia]. destruct (Nat.leb_spec x y); [lia|]. reflexivity.
Qed.

(* ---- apply3 ---------------------------------------------------------------------------------- *)
Fixpoint size (d : dd) : nat := match d with Leaf _ => 0 | Nd _ l h => S (size l + size h) end.

Definition top3 (a b c : dd) : option nat := omax (topv V a) (omax (topv V b) (topv V c)).

(* the defining equation of apply3 with the local fixpoints folded back *)
Lemma apply3_eq op a b c :
  apply3 V V_eq_dec op a b c =
  let m := top3 a b c in
  let is_m := fun x => match m with Some y => x =? y | None => false end in
  let on_c := match c with
              | Nd xc cl ch => mk xc (apply3 V V_eq_dec op a b cl) (apply3 V V_eq_dec op a b ch)
              | Leaf w => match a, b with Leaf u, Leaf v => Leaf (op u v w) | _, _ => Leaf w end
              end in
  let on_b := match b with
              | Nd xb bl bh =>
                if is_m xb then mk xb (apply3 V V_eq_dec op a bl (lo_at V xb c)) (apply3 V V_eq_dec op a bh (hi_at V xb c))
                else on_c
              | Leaf _ => on_c
              end in
  match a with
  | Nd xa al ah =>
    if is_m xa then mk xa (apply3 V V_eq_dec op al (lo_at V xa b) (lo_at V xa c))
                          (apply3 V V_eq_dec op ah (hi_at V xa b) (hi_at V xa c))
    else on_b
  | Leaf _ => on_b
  end.
Proof. destruct a, b, c; reflexivity. Qed.

(* one step of Apply3Functor::recDescend: every operand whose variable is the maximum is branched *)
Lemma apply3_unfold op a b c :
  apply3 V V_eq_dec op a b c =
  match top3 a b c with
  | None => match a, b, c with Leaf u, Leaf v, Leaf w => Leaf (op u v w) | _, _, _ => a end
  | Some x => mk x (apply3 V V_eq_dec op (lo_at V x a) (lo_at V x b) (lo_at V x c))
                   (apply3 V V_eq_dec op (hi_at V x a) (hi_at V x b) (hi_at V x c))
  end.
Proof.
  rewrite apply3_eq. unfold top3.
  destruct a as [u|xa al ah]; destruct b as [v|xb bl bh]; destruct c as [w|xc cl ch];
    cbn [topv omax lo_at hi_at]; cbv zeta; try reflexivity;
    repeat match goal with
           | |- context [Nat.eqb ?p ?q] => destruct (Nat.eqb_spec p q)
           end; try reflexivity; try (exfalso; lia); try congruence.
Qed.

Lemma lo_at_size x d : size (lo_at V x d) <= size d.
Proof. destruct d; simpl; auto. destruct (x0 =? x); simpl; lia. Qed.
Lemma hi_at_size x d : size (hi_at V x d) <= size d.
Proof. destruct d; simpl; auto. destruct (x0 =? x); simpl; lia. Qed.
Lemma lo_at_size_top x d : topv V d = Some x -> size (lo_at V x d) < size d.
Proof. destruct d; simpl; [discriminate|]. intros [= ->]. rewrite Nat.eqb_refl. lia. Qed.
Lemma hi_at_size_top x d : topv V d = Some x -> size (hi_at V x d) < size d.
Proof. destruct d; simpl; [discriminate|]. intros [= ->]. rewrite Nat.eqb_refl. lia. Qed.
Lemma top3_some a b c x : top3 a b c = Some x -> topv V a = Some x \/ topv V b = Some x \/ topv V c = Some x.
Proof.
  unfold top3. destruct a, b, c; simpl; intros [= <-]; auto;
  repeat match goal with |- context [Nat.max ?p ?q] => destruct (Nat.max_spec p q) as [[? ->]|[? ->]] end; auto.
Qed.
Lemma top3_none a b c : top3 a b c = None -> exists u v w, a = Leaf u /\ b = Leaf v /\ c = Leaf w.
Proof. unfold top3. destruct a, b, c; simpl; try discriminate. intros _. repeat eexists. Qed.
Lemma top3_ge a b c x : top3 a b c = Some x -> top_lt a (S x) /\ top_lt b (S x) /\ top_lt c (S x).
Proof. unfold top3. destruct a, b, c; simpl; intros [= <-]; repeat split; lia. Qed.

Lemma ev_lo_at x d s : s x = false -> ev (lo_at V x d) s = ev d s.
Proof. destruct d; simpl; auto. destruct (Nat.eqb_spec x0 x); simpl; auto. subst. intros ->. reflexivity. Qed.
Lemma ev_hi_at x d s : s x = true -> ev (hi_at V x d) s = ev d s.
Proof. destruct d; simpl; auto. destruct (Nat.eqb_spec x0 x); simpl; auto. subst. intros ->. reflexivity. Qed.

Lemma size3_dec a b c x : top3 a b c = Some x ->
  size (lo_at V x a) + size (lo_at V x b) + size (lo_at V x c) < size a + size b + size c /\
  size (hi_at V x a) + size (hi_at V x b) + size (hi_at V x c) < size a + size b + size c.
Proof.
  intros T. pose proof (lo_at_size x a). pose proof (lo_at_size x b). pose proof (lo_at_size x c).
  pose proof (hi_at_size x a). pose proof (hi_at_size x b). pose proof (hi_at_size x c).
  destruct (top3_some _ _ _ _ T) as [E|[E|E]];
    pose proof (lo_at_size_top _ _ E); pose proof (hi_at_size_top _ _ E); lia.
Qed.

Theorem apply3_ev op a b c s : ev (apply3 V V_eq_dec op a b c) s = op (ev a s) (ev b s) (ev c s).
Proof.
  remember (S (size a + size b + size c)) as n eqn:Hn.
  assert (L : size a + size b + size c < n) by lia. clear Hn. revert a b c L.
  induction n as [|n IH]; intros a b c L; [lia|].
  rewrite apply3_unfold. destruct (top3 a b c) as [x|] eqn:T.
  - destruct (size3_dec a b c x T) as [Sl Sh]. rewrite ev_mk. destruct (s x) eqn:E.
    + rewrite IH by lia. rewrite !ev_hi_at by auto. reflexivity.
    + rewrite IH by lia. rewrite !ev_lo_at by auto. reflexivity.
  - destruct (top3_none a b c T) as [u [v [w [-> [-> ->]]]]]. reflexivity.
Qed.

Lemma lo_at_wf x d : wf d -> top_lt d (S x) -> wf (lo_at V x d) /\ top_lt (lo_at V x d) x.
Proof.
  destruct d as [v|y l h]; simpl; auto. intros [N [Tl [Th [Wl Wh]]]] Hy.
  destruct (Nat.eqb_spec y x); [subst; auto|]. simpl. repeat split; auto. lia.
Qed.
Lemma hi_at_wf x d : wf d -> top_lt d (S x) -> wf (hi_at V x d) /\ top_lt (hi_at V x d) x.
Proof.
  destruct d as [v|y l h]; simpl; auto. intros [N [Tl [Th [Wl Wh]]]] Hy.
  destruct (Nat.eqb_spec y x); [subst; auto|]. simpl. repeat split; auto. lia.
Qed.

Lemma apply3_wf_top op a b c : wf a -> wf b -> wf c ->
  wf (apply3 V V_eq_dec op a b c) /\
  forall n, top_lt a n -> top_lt b n -> top_lt c n -> top_lt (apply3 V V_eq_dec op a b c) n.
Proof.
  remember (S (size a + size b + size c)) as k eqn:Hk.
  assert (L : size a + size b + size c < k) by lia. clear Hk. revert a b c L.
  induction k as [|k IH]; intros a b c L Wa Wb Wc; [lia|].
  rewrite apply3_unfold. destruct (top3 a b c) as [x|] eqn:T.
  - destruct (size3_dec a b c x T) as [Sl Sh]. destruct (top3_ge a b c x T) as [Ta [Tb Tc]].
    destruct (lo_at_wf x a Wa Ta) as [W1 T1]. destruct (lo_at_wf x b Wb Tb) as [W2 T2].
    destruct (lo_at_wf x c Wc Tc) as [W3 T3]. destruct (hi_at_wf x a Wa Ta) as [W4 T4].
    destruct (hi_at_wf x b Wb Tb) as [W5 T5]. destruct (hi_at_wf x c Wc Tc) as [W6 T6].
    destruct (IH (lo_at V x a) (lo_at V x b) (lo_at V x c)) as [A1 A2]; auto; [lia|].
    destruct (IH (hi_at V x a) (hi_at V x b) (hi_at V x c)) as [B1 B2]; auto; [lia|].
    split.
    + apply wf_mk; auto.
    + intros n Ha Hb Hc. apply top_lt_mk; auto.
      destruct (top3_some _ _ _ _ T) as [E|[E|E]].
      * destruct a; simpl in E; [discriminate|]. injection E as ->. exact Ha.
      * destruct b; simpl in E; [discriminate|]. injection E as ->. exact Hb.
      * destruct c; simpl in E; [discriminate|]. injection E as ->. exact Hc.
  - destruct (top3_none a b c T) as [u [v [w [-> [-> ->]]]]]. simpl. auto.
Qed.
Theorem apply3_wf op a b c : wf a -> wf b -> wf c -> wf (apply3 V V_eq_dec op a b c).
Proof. intros. apply apply3_wf_top; auto. Qed.
Lemma apply3_top op a b c n : wf a -> wf b -> wf c -> top_lt a n -> top_lt b n -> top_lt c n ->
  top_lt (apply3 V V_eq_dec op a b c) n.
Proof. intros Wa Wb Wc. apply apply3_wf_top; auto. Qed.

(* Apply3Functor::classifyCase branches exactly the operands carrying the maximal variable, and
   recDescend hands down lo_at / hi_at of that variable *)
Theorem classify3_spec a b c :
  classify3 V a b c =
  (match topv V a, top3 a b c with Some x, Some m => x =? m | _, _ => false end,
   match topv V b, top3 a b c with Some x, Some m => x =? m | _, _ => false end,
   match topv V c, top3 a b c with Some x, Some m => x =? m | _, _ => false end).
Proof.
  unfold classify3, top3, ge_or_leaf.
  destruct a as [u|xa al ah]; destruct b as [v|xb bl bh]; destruct c as [w|xc cl ch]; cbn [topv omax];
    rewrite ?andb_true_r, ?andb_true_l; try reflexivity;
    repeat match goal with
           | |- context [Nat.eqb ?p ?q] => destruct (Nat.eqb_spec p q)
           | |- context [Nat.leb ?p ?q] => destruct (Nat.leb_spec p q)
           end; simpl; try reflexivity; try (exfalso; lia).
Qed.
Theorem classify3_children a b c x : top3 a b c = Some x ->
  let '(b1, b2, b3) := classify3 V a b c in
  lo_at V x a = (if b1 then child_lo a else a) /\ hi_at V x a = (if b1 then child_hi a else a) /\
  lo_at V x b = (if b2 then child_lo b else b) /\ hi_at V x b = (if b2 then child_hi b else b) /\
  lo_at V x c = (if b3 then child_lo c else c) /\ hi_at V x c = (if b3 then child_hi c else c) /\
  (b1 || b2 || b3 = true).
Proof.
  intros T. rewrite classify3_spec, T.
  assert (G : forall d, lo_at V x d = (if match topv V d with Some y => y =? x | None => false end then child_lo d else d) /\
                        hi_at V x d = (if match topv V d with Some y => y =? x | None => false end then child_hi d else d)).
  { intros [v|y l h]; simpl; auto; destruct (y =? x); auto. }
  destruct (G a) as [A1 A2]. destruct (G b) as [B1 B2]. destruct (G c) as [C1 C2].
  repeat split; auto.
  destruct (top3_some _ _ _ _ T) as [E|[E|E]]; rewrite E, Nat.eqb_refl; rewrite ?orb_true_r; reflexivity.
Qed.

(* ---- projection ------------------------------------------------------------------------------ *)
Lemma project_wf_top pred op d : wf d ->
  wf (project V V_eq_dec pred op d) /\ forall n, top_lt d n -> top_lt (project V V_eq_dec pred op d) n.
Proof.
  induction d as [v|x lo IHlo hi IHhi]; simpl; auto. intros [_ [Tl [Th [Wl Wh]]]].
  destruct (IHlo Wl) as [A1 A2]. destruct (IHhi Wh) as [B1 B2].
  destruct (pred x).
  - split.
    + apply apply2_wf; auto.
    + intros n Hn. apply apply2_top; auto.
      * eapply top_lt_weaken; [apply A2; eauto|lia].
      * eapply top_lt_weaken; [apply B2; eauto|lia].
  - split.
    + apply wf_mk; auto.
    + intros n Hn. apply top_lt_mk; auto.
Qed.
Theorem project_wf pred op d : wf d -> wf (project V V_eq_dec pred op d).
Proof. intros W. apply project_wf_top, W. Qed.

(* meaning of Project in terms of the diagram (always): a removed node combines its children *)
Fixpoint pev (pred : nat -> bool) (op : V -> V -> V) (d : dd) (s : asg) : V :=
  match d with
  | Leaf v => v
  | Nd x lo hi => if pred x then op (pev pred op lo s) (pev pred op hi s)
                  else if s x then pev pred op hi s else pev pred op lo s
  end.
Theorem project_ev_struct pred op d s : ev (project V V_eq_dec pred op d) s = pev pred op d s.
Proof.
  induction d as [v|x lo IHlo hi IHhi]; simpl; auto.
  destruct (pred x).
  - rewrite apply2_ev, IHlo, IHhi. reflexivity.
  - rewrite ev_mk, IHlo, IHhi. reflexivity.
Qed.
(* meaning of Project as a function, for one removed variable and an idempotent leaf operation
   (a reduced diagram skips a variable its function does not depend on, so op v v = v is needed):
   the two cofactors with respect to x are combined *)
Theorem project_ev_var op x d s : wf d -> (forall v, op v v = v) ->
  ev (project V V_eq_dec (fun y => y =? x) op d) s = op (ev d (upd s x false)) (ev d (upd s x true)).
Proof.
  intros W Idem. rewrite project_ev_struct. induction d as [v|y lo IHlo hi IHhi]; simpl; auto.
  destruct W as [_ [Tl [Th [Wl Wh]]]]. specialize (IHlo Wl). specialize (IHhi Wh).
  destruct (Nat.eqb_spec y x) as [->|N].
  - assert (Bl := wf_below lo Wl x Tl). assert (Bh := wf_below hi Wh x Th).
    assert (U : forall b, upd s x b x = b) by (intros; unfold upd; rewrite Nat.eqb_refl; auto).
    rewrite !U. rewrite IHlo, IHhi. rewrite !ev_upd_below by auto. rewrite !Idem. reflexivity.
  - assert (U : forall b, upd s x b y = s y) by (intros; unfold upd; destruct (Nat.eqb_spec y x); [contradiction|auto]).
    rewrite !U. destruct (s y); auto.
Qed.
(* the projected diagram does not depend on removed variables *)
Theorem project_ev_indep pred op d s t : (forall x, pred x = false -> s x = t x) ->
  ev (project V V_eq_dec pred op d) s = ev (project V V_eq_dec pred op d) t.
Proof.
  intros E. rewrite !project_ev_struct. induction d as [v|x lo IHlo hi IHhi]; simpl; auto.
  destruct (pred x) eqn:P; [congruence|]. rewrite (E x P), IHlo, IHhi. reflexivity.
Qed.

(* ---- renaming -------------------------------------------------------------------------------- *)
Theorem rename_ev rho d s : ev (rename V rho d) s = ev d (fun x => s (rho x)).
Proof. induction d; simpl; auto. rewrite IHd1, IHd2. reflexivity. Qed.
Lemma rename_inj rho : (forall x y, rho x = rho y -> x = y) -> forall a b, rename V rho a = rename V rho b -> a = b.
Proof.
  intros Inj. induction a as [u|x al IHl ah IHh]; destruct b as [v|y bl bh]; simpl; try discriminate.
  - congruence.
  - intros [= E1 E2 E3]. f_equal; auto.
Qed.
Theorem rename_wf rho d : (forall x y, x < y -> rho x < rho y) -> wf d -> wf (rename V rho d).
Proof.
  intros Mono.
  assert (Inj : forall x y, rho x = rho y -> x = y).
  { intros x y E. destruct (lt_eq_lt_dec x y) as [[L|Q]|G]; auto; [apply Mono in L|apply Mono in G]; lia. }
  induction d as [v|x lo IHlo hi IHhi]; simpl; auto. intros [N [Tl [Th [Wl Wh]]]].
  repeat split; auto.
  - intros E. apply N. eapply rename_inj; eauto.
  - destruct lo; simpl in *; auto.
  - destruct hi; simpl in *; auto.
Qed.


(* ---- the traversing functors are shown the leaves: exactly the values the function takes --------- *)
Theorem leaves_ev d : ordered d -> forall v, In v (leaves V d) <-> exists s, ev d s = v.
Proof.
  induction d as [u|x l IHl h IHh]; simpl; intros O v.
  - split; [intros [->|[]]; exists (fun _ => false); reflexivity | intros [_ ->]; auto].
  - destruct O as [Tl [Th [Ol Oh]]]. rewrite in_app_iff, (IHl Ol), (IHh Oh). split.
    + intros [[s E]|[s E]].
      * exists (upd s x false). unfold upd at 1. rewrite Nat.eqb_refl. rewrite ev_upd_below; auto. apply ordered_below; auto.
      * exists (upd s x true). unfold upd at 1. rewrite Nat.eqb_refl. rewrite ev_upd_below; auto. apply ordered_below; auto.
    + intros [s E]. destruct (s x); eauto.
Qed.
Lemma memb_spec v l : memb V V_eq_dec v l = true <-> In v l.
Proof.
  unfold memb. rewrite existsb_exists. split.
  - intros [u [H E]]. destruct (V_eq_dec u v); [subst; auto|discriminate].
  - intros H. exists v. split; auto. destruct (V_eq_dec v v); congruence.
Qed.
Theorem same_set_spec a b : same_set V V_eq_dec a b = true <-> forall v, In v a <-> In v b.
Proof.
  unfold same_set. rewrite andb_true_iff, !forallb_forall. split.
  - intros [A B] v. split; intros H; [apply memb_spec, A | apply memb_spec, B]; auto.
  - intros H. split; intros v Hv; apply memb_spec, H; auto.
Qed.
Corollary void1_gate seen d : wf d ->
  (same_set V V_eq_dec seen (leaves V d) = true <-> forall v, In v seen <-> exists s, ev d s = v).
Proof.
  intros W. rewrite same_set_spec. split; intros H v; rewrite (H v).
  - apply leaves_ev, wf_ordered, W.
  - symmetry. apply leaves_ev, wf_ordered, W.
Qed.
Corollary void2_gate op seen a b : wf a -> wf b ->
  (same_set V V_eq_dec seen (leaves V (apply2 V V_eq_dec op a b)) = true <->
   forall p, In p seen <-> exists s, op (ev a s) (ev b s) = p).
Proof.
  intros Wa Wb. rewrite (void1_gate seen _ (apply2_wf op a b Wa Wb)).
  split; intros H p; rewrite (H p); split; intros [s E]; exists s; rewrite apply2_ev in *; auto.
Qed.

(* ---- GetPaths ---------------------------------------------------------------------------------- *)
Lemma nth_set_nth_eq a : forall i t, nth i (set_nth a i t) TX = t.
Proof.
  induction a as [|h r IH]; intros i t.
  - induction i; simpl; auto.
  - destruct i; simpl; auto.
Qed.
Lemma nth_set_nth_neq a : forall i j t, i <> j -> nth j (set_nth a i t) TX = nth j a TX.
Proof.
  induction a as [|h r IH]; intros i j t N.
  - revert j N. induction i; intros j N; destruct j; simpl; auto; try lia.
    + destruct j; auto.
    + rewrite IHi by lia. destruct j; auto.
  - destruct i, j; simpl; auto; try lia.
Qed.
Lemma paths_rec_sound d : forall a n, ordered d -> top_lt d n ->
  forall p v, In (p, v) (paths_rec V a d) ->
  (forall x, n <= x -> nth x p TX = nth x a TX) /\
  (forall s, (forall x, x < n -> (nth x p TX = T1 -> s x = true) /\ (nth x p TX = T0 -> s x = false)) -> ev d s = v).
Proof.
  induction d as [u|x lo IHlo hi IHhi]; simpl; intros a n O T p v H.
  - destruct H as [[= <- <-]|[]]. auto.
  - destruct O as [Tl [Th [Ol Oh]]]. apply in_app_or in H as [H|H].
    + destruct (IHlo _ x Ol Tl p v H) as [A B]. split.
      * intros y Hy. rewrite A by lia. apply nth_set_nth_neq. lia.
      * intros s Hs. assert (E : nth x p TX = T0) by (rewrite A by lia; apply nth_set_nth_eq).
        rewrite (proj2 (Hs x T) E). apply B. intros y Hy. apply Hs. lia.
    + destruct (IHhi _ x Oh Th p v H) as [A B]. split.
      * intros y Hy. rewrite A by lia. apply nth_set_nth_neq. lia.
      * intros s Hs. assert (E : nth x p TX = T1) by (rewrite A by lia; apply nth_set_nth_eq).
        rewrite (proj1 (Hs x T) E). apply B. intros y Hy. apply Hs. lia.
Qed.
(* every path listed by GetPaths carries the value of every total assignment it covers *)
Theorem paths_sound d : ordered d -> forall p v, In (p, v) (paths V d) -> forall s, refines p s -> ev d s = v.
Proof.
  intros O p v H s R. unfold paths in H.
  assert (T : top_lt d (S (match d with Leaf _ => 0 | Nd x _ _ => x end))) by (destruct d; simpl; auto).
  destruct (paths_rec_sound d [] _ O T p v H) as [_ B]. apply B. intros x _. apply R.
Qed.

End DDP.

(* a diagram over two variables, built and combined as the package does *)
Lemma example_dd :
  let a := construct nat Nat.eq_dec [T1; TX] 1 0 in
  let b := construct nat Nat.eq_dec [TX; T1] 2 0 in
  let c := apply2 nat Nat.eq_dec Nat.add a b in
  wf nat c /\ c = Nd 1 (Nd 0 (Leaf 0) (Leaf 1)) (Nd 0 (Leaf 2) (Leaf 3)) /\
  apply2 nat Nat.eq_dec Nat.add b a = c /\ get_value nat c [TX; T1] = 2.
Proof. vm_compute. repeat split; auto; discriminate. Qed.
