(* C05 — Reduce: quotient by (a relation inside) downward-simulation equivalence, then pruning of unreachable
   states. (R) model: the representative map is an argument, recovered from libvata's result. Definitions only. *)
From Coq Require Import List NArith Bool Arith.
Import ListNotations.
From V Require Import Fix Gfp Sem Prod Incl TrimDefs Lang BinopDefs.

Definition pr := (N * N)%type.
Definition relb (D : list pr) (q r : N) : bool := existsb (fun p => N.eqb (fst p) q && N.eqb (snd p) r) D.

Fixpoint all2 (D : list pr) (qs rs : list N) : bool :=
  match qs, rs with
  | [], [] => true
  | q :: qs', r :: rs' => relb D q r && all2 D qs' rs'
  | _, _ => false
  end.

(* the step condition of a downward simulation, for one pair *)
Definition down_keep (A : ta) (D : list pr) (p : pr) : bool :=
  forallb (fun rq => negb (N.eqb (par rq) (fst p)) ||
     existsb (fun rr => N.eqb (par rr) (snd p) && N.eqb (sym rr) (sym rq) && all2 D (ch rq) (ch rr)) (rules A)) (rules A).

Definition is_down_simb (A : ta) (D : list pr) : bool := forallb (down_keep A D) D.

(* a downward simulation computed by refinement from the full relation on the states of A *)
Definition down_sim_rel (A : ta) : list pr :=
  let U := list_prod (ustates A) (ustates A) in refine pr (down_keep A) (S (length U)) U.

(* every state of A is equivalent (w.r.t. D) to its representative *)
Definition valid_repb (A : ta) (D : list pr) (rep : N -> N) : bool :=
  forallb (fun q => relb D q (rep q) && relb D (rep q) q) (states A).

Definition reduce_with (rep : N -> N) (A : ta) : ta := remove_unreachable (image rep A).

(* recover the representative used by the implementation: the member of q's class that occurs in R *)
Definition recover_rep (D : list pr) (R : ta) (q : N) : N :=
  match find (fun s => relb D q s && relb D s q) (ustates R) with Some s => s | None => q end.

Definition rule_eq_dec : forall r s : rule, {r = s} + {r <> s}.
Proof. decide equality; [apply N.eq_dec | apply (list_eq_dec N.eq_dec) | apply N.eq_dec]. Defined.
Definition nstates (A : ta) : nat := length (ustates A).
Definition nrules (A : ta) : nat := length (nodup rule_eq_dec (rules A)).

(* gates on libvata's result R *)
Definition onto_gate (A R : ta) : bool :=
  forallb (fun s => existsb (fun q => same_state_lang A q R s) (ustates A)) (ustates R).
Definition reduce_gate (A R : ta) : bool :=
  equiv_dec R A && Nat.leb (nstates R) (nstates A) && Nat.leb (nrules R) (nrules A) && onto_gate A R.
