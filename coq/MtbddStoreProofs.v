(* C18 (and the equality clause of C17) — proofs about the store-level model of MtbddStoreDefs.v.

   Core s X   the invariant with a multiset X of counted references held outside the store:
              reference counter = number of referrers (roots of live objects, children of nodes, X);
              both unique tables are exactly the inverse of the heap; fresh addresses; children were
              allocated before their parents; every node denotes a well-formed diagram (hence no
              dangling child); every object's root denotes its ghost diagram.
   Inv s      Core s [] and every node has a positive counter (no garbage).
   step_ok    every valid step runs without fault and preserves Inv; other objects are untouched;
              the deleted nodes are distinct, were in the heap and are gone.
   frame, no_double_release, root_eq_iff_same_function, sizes_determined, baseline: see below. *)
From Coq Require Import List Arith Lia Bool Permutation.
From V Require Import MtbddDefs MtbddProofs MtbddStoreDefs.
Import ListNotations.

(* ---- association lists ------------------------------------------------------------------------ *)
Section AMAPP.
Variables K A : Type.
Variable eqd : forall a b : K, {a = b} + {a <> b}.
Notation lookup := (lookup eqd).
Notation remove_key := (remove_key eqd).
Notation update := (update eqd).
Implicit Types m : list (K * A).

Lemma lookup_in m k a : lookup m k = Some a -> In (k, a) m.
Proof. induction m as [|[k' a'] r IH]; simpl; [discriminate|]. destruct (eqd k k'); [intros [= ->]; subst; auto|auto]. Qed.
Lemma lookup_none m k : lookup m k = None <-> ~ In k (map fst m).
Proof.
  induction m as [|[k' a'] r IH]; simpl; [tauto|]. destruct (eqd k k').
  - split; [discriminate|]. intros H. exfalso. apply H. auto.
  - rewrite IH. split; intros H; [intros [E|E]; [congruence|auto] | auto].
Qed.
Lemma lookup_some_key m k a : lookup m k = Some a -> In k (map fst m).
Proof. intros H. destruct (in_dec eqd k (map fst m)); auto. apply lookup_none in n. congruence. Qed.
Lemma in_lookup m k a : NoDup (map fst m) -> In (k, a) m -> lookup m k = Some a.
Proof.
  induction m as [|[k' a'] r IH]; simpl; [tauto|]. intros ND [E|E].
  - injection E as -> ->. destruct (eqd k k); congruence.
  - inversion ND; subst. destruct (eqd k k'); auto. subst. exfalso. apply H1. apply (in_map fst) in E. exact E.
Qed.
Lemma lookup_remove_eq m k : lookup (remove_key m k) k = None.
Proof. induction m as [|[k' a'] r IH]; simpl; auto. destruct (eqd k k') eqn:E; auto. simpl. rewrite E. auto. Qed.
Lemma lookup_remove_neq m k k' : k <> k' -> lookup (remove_key m k) k' = lookup m k'.
Proof.
  intros N. induction m as [|[k2 a2] r IH]; simpl; auto. destruct (eqd k k2).
  - subst. destruct (eqd k' k2); [congruence|auto].
  - simpl. destruct (eqd k' k2); auto.
Qed.
Lemma lookup_update_eq m k f : lookup (update m k f) k = option_map f (lookup m k).
Proof. induction m as [|[k' a'] r IH]; simpl; auto. destruct (eqd k k') eqn:E; simpl; rewrite E; auto. Qed.
Lemma lookup_update_neq m k k' f : k <> k' -> lookup (update m k f) k' = lookup m k'.
Proof.
  intros N. induction m as [|[k2 a2] r IH]; simpl; auto. destruct (eqd k k2); simpl.
  - subst. destruct (eqd k' k2); [congruence|auto].
  - destruct (eqd k' k2); auto.
Qed.
Lemma keys_update m k f : map fst (update m k f) = map fst m.
Proof. induction m as [|[k' a'] r IH]; simpl; auto. destruct (eqd k k'); simpl; congruence. Qed.
Lemma in_remove_key m k x : In x (remove_key m k) <-> In x m /\ fst x <> k.
Proof.
  induction m as [|[k' a'] r IH]; simpl; [tauto|]. destruct (eqd k k').
  - subst. rewrite IH. split; [tauto|]. intros [[E|E] N]; [subst; simpl in N; congruence|auto].
  - simpl. rewrite IH. split.
    + intros [E|[E N]]; [subst; simpl; auto|auto].
    + intros [[E|E] N]; auto.
Qed.
Lemma keys_remove m k k' : In k' (map fst (remove_key m k)) <-> In k' (map fst m) /\ k' <> k.
Proof.
  rewrite !in_map_iff. split.
  - intros [x [E H]]. apply in_remove_key in H as [H N]. subst. split; eauto.
  - intros [[x [E H]] N]. exists x. split; auto. apply in_remove_key. subst. auto.
Qed.
Lemma nodup_remove m k : NoDup (map fst m) -> NoDup (map fst (remove_key m k)).
Proof.
  induction m as [|[k' a'] r IH]; simpl; auto. intros ND. inversion ND; subst. destruct (eqd k k'); auto.
  simpl. constructor; auto. rewrite keys_remove. tauto.
Qed.
Lemma remove_absent m k : ~ In k (map fst m) -> remove_key m k = m.
Proof.
  induction m as [|[k' a'] r IH]; simpl; auto. intros N. destruct (eqd k k'); [exfalso; auto|]. f_equal. auto.
Qed.
Lemma length_remove m k a : NoDup (map fst m) -> lookup m k = Some a -> S (length (remove_key m k)) = length m.
Proof.
  induction m as [|[k' a'] r IH]; simpl; [discriminate|]. intros ND. inversion ND; subst. destruct (eqd k k').
  - subst. intros _. rewrite remove_absent; auto.
  - intros H. simpl. f_equal. eauto.
Qed.
End AMAPP.

Lemma nodup_app {A} (l1 l2 : list A) : NoDup l1 -> NoDup l2 -> (forall x, In x l1 -> In x l2 -> False) -> NoDup (l1 ++ l2).
Proof.
  induction l1 as [|a r IH]; simpl; auto. intros N1 N2 D. inversion N1; subst. constructor.
  - rewrite in_app_iff. intros [H|H]; [auto|]. apply (D a); auto.
  - apply IH; auto. intros x H3 H4. apply (D x); auto.
Qed.

(* ---- counting --------------------------------------------------------------------------------- *)
Definition cnt (l : list nat) (i : nat) : nat := count_occ Nat.eq_dec l i.
Lemma cnt_app l1 l2 i : cnt (l1 ++ l2) i = cnt l1 i + cnt l2 i.
Proof. apply count_occ_app. Qed.
Lemma cnt_cons_eq l i : cnt (i :: l) i = S (cnt l i).
Proof. unfold cnt. simpl. destruct (Nat.eq_dec i i); congruence. Qed.
Lemma cnt_cons_neq l i j : j <> i -> cnt (j :: l) i = cnt l i.
Proof. unfold cnt. simpl. destruct (Nat.eq_dec j i); congruence. Qed.
Lemma cnt_zero l i : cnt l i = 0 <-> ~ In i l.
Proof. unfold cnt. symmetry. apply count_occ_not_In. Qed.
Lemma cnt_pos l i : cnt l i > 0 <-> In i l.
Proof. unfold cnt. symmetry. apply count_occ_In. Qed.

Global Opaque MtbddStoreDefs.ikey_eq_dec.
Section STOREP.
Variable V : Type.
Variable V_eq_dec : forall a b : V, {a = b} + {a <> b}.
Notation dd := (dd V).
Notation store := (store V).
Notation node := (node V).
Notation shape := (shape V).
Notation handle := (handle V).
Notation wf := (wf V).
Notation top_lt := (top_lt V).
Notation nlookup := (nlookup V).
Notation hlookup := (hlookup V).
Notation mkn := (mkn V).
Notation mkh := (mkh V).
Notation mks := (mks V).
Notation inc_rc := (inc_rc V).
Notation set_rc := (set_rc V).
Notation add_handle := (add_handle V).
Notation del_handle := (del_handle V).
Notation spawn_leaf := (spawn_leaf V V_eq_dec).
Notation spawn_internal := (spawn_internal V).
Notation intern := (intern V V_eq_dec).
Notation dispose_leaf := (dispose_leaf V V_eq_dec).
Notation dispose_internal := (dispose_internal V).
Notation release := (release V V_eq_dec).
Notation ikey_eq_dec := MtbddStoreDefs.ikey_eq_dec.
Implicit Types s : store.

(* the diagram denoted by a node of the heap *)
Inductive den (s : store) : id -> dd -> Prop :=
| den_leaf i v c : nlookup s i = Some (mkn (SLeaf v) c) -> den s i (Leaf v)
| den_int i lo hi x c l h : nlookup s i = Some (mkn (SInt lo hi x) c) -> den s lo l -> den s hi h -> den s i (Nd x l h).

Lemma den_fun s i d : den s i d -> forall d', den s i d' -> d = d'.
Proof.
  induction 1 as [i v c E|i lo hi x c l h E Dl IHl Dh IHh]; intros d' D'; inversion D'; subst.
  - rewrite E in H. inversion H. reflexivity.
  - rewrite E in H. discriminate.
  - rewrite E in H. discriminate.
  - rewrite E in H. inversion H; subst. f_equal; auto.
Qed.
Lemma den_in s i d : den s i d -> nlookup s i <> None.
Proof. destruct 1; congruence. Qed.

(* s' has every node of s with the same shape *)
Definition sext (s s' : store) : Prop :=
  forall i n, nlookup s i = Some n -> exists n', nlookup s' i = Some n' /\ shp V n' = shp V n.
Lemma sext_refl s : sext s s.
Proof. intros i n E. eauto. Qed.
Lemma sext_trans s1 s2 s3 : sext s1 s2 -> sext s2 s3 -> sext s1 s3.
Proof. intros A B i n E. destruct (A i n E) as [n' [E' S']]. destruct (B i n' E') as [n2 [E2 S2]]. exists n2. split; congruence. Qed.
Lemma den_sext s s' i d : sext s s' -> den s i d -> den s' i d.
Proof.
  intros X. induction 1 as [i v c E|i lo hi x c l h E Dl IHl Dh IHh].
  - destruct (X _ _ E) as [[sh c'] [E' S']]. simpl in S'. subst. eapply den_leaf; eauto.
  - destruct (X _ _ E) as [[sh c'] [E' S']]. simpl in S'. subst. eapply den_int; eauto.
Qed.

Definition children (sh : shape) : list id := match sh with SLeaf _ => [] | SInt lo hi _ => [lo; hi] end.
Definition nrefs (ns : list (id * node)) : list id := flat_map (fun p => children (shp V (snd p))) ns.
Definition hrefs (hs : list (nat * handle)) : list id := map (fun p => root V (snd p)) hs.
(* every counted reference of the store: roots of live objects, children of nodes *)
Definition reflist (s : store) : list id := hrefs (handles V s) ++ nrefs (nodes V s).

(* the invariant, with a multiset X of counted references held outside the store
   (a root about to be wrapped in an object, the children of a node being deleted) *)
Record Core (s : store) (X : list id) : Prop := {
  c_nd_nodes : NoDup (map fst (nodes V s));
  c_nd_ltab : NoDup (map fst (ltab V s));
  c_nd_itab : NoDup (map fst (itab V s));
  c_nd_handles : NoDup (map fst (handles V s));
  c_ltab : forall v i, lookup V_eq_dec (ltab V s) v = Some i <-> exists c, nlookup s i = Some (mkn (SLeaf v) c);
  c_itab : forall lo hi x i, lookup ikey_eq_dec (itab V s) (lo, hi, x) = Some i <-> exists c, nlookup s i = Some (mkn (SInt lo hi x) c);
  c_fresh : forall i n, nlookup s i = Some n -> i < next V s;
  c_order : forall i lo hi x c, nlookup s i = Some (mkn (SInt lo hi x) c) -> lo < i /\ hi < i;
  c_den : forall i n, nlookup s i = Some n -> exists d, den s i d /\ wf d;
  c_hden : forall h hd, hlookup s h = Some hd -> den s (root V hd) (ghost V hd);
  c_pend : forall i, In i X -> nlookup s i <> None;
  c_cnt : forall i n, nlookup s i = Some n -> rc V n = cnt (reflist s ++ X) i
}.

Lemma core_perm s X Y : Core s X -> (forall i, cnt X i = cnt Y i) -> Core s Y.
Proof.
  intros C P. destruct C. constructor; auto.
  - intros i Hi. apply c_pend0. apply cnt_pos. rewrite P. apply cnt_pos. exact Hi.
  - intros i n E. rewrite (c_cnt0 i n E), !cnt_app, P. reflexivity.
Qed.

(* node-list lemmas *)
Lemma nrefs_update ns i (f : node -> node) : (forall n, shp V (f n) = shp V n) ->
  nrefs (update Nat.eq_dec ns i f) = nrefs ns.
Proof.
  intros S. unfold nrefs. induction ns as [|[k n] r IH]; simpl; auto. destruct (Nat.eq_dec i k); simpl.
  - rewrite S. reflexivity.
  - rewrite IH. reflexivity.
Qed.
Lemma nrefs_remove ns i n : NoDup (map fst ns) -> lookup Nat.eq_dec ns i = Some n ->
  forall j, cnt (nrefs ns) j = cnt (children (shp V n)) j + cnt (nrefs (remove_key Nat.eq_dec ns i)) j.
Proof.
  unfold nrefs. induction ns as [|[k m] r IH]; simpl; [discriminate|]. intros ND E j. inversion ND; subst.
  destruct (Nat.eq_dec i k).
  - injection E as ->. subst. rewrite remove_absent by auto. rewrite cnt_app. reflexivity.
  - simpl. rewrite !cnt_app. rewrite (IH H2 E j). lia.
Qed.
Lemma hrefs_remove hs h hd : NoDup (map fst hs) -> lookup Nat.eq_dec hs h = Some hd ->
  forall j, cnt (hrefs hs) j = cnt [root V hd] j + cnt (hrefs (remove_key Nat.eq_dec hs h)) j.
Proof.
  induction hs as [|[k m] r IH]; simpl; [discriminate|]. intros ND E j. inversion ND; subst.
  destruct (Nat.eq_dec h k).
  - injection E as ->. subst. rewrite remove_absent by auto. unfold cnt. simpl. destruct (Nat.eq_dec (root V hd) j); lia.
  - specialize (IH H2 E j). unfold cnt in *. simpl in *. destruct (Nat.eq_dec (root V m) j); destruct (Nat.eq_dec (root V hd) j); lia.
Qed.
Lemma in_nrefs ns j : In j (nrefs ns) <-> exists i n, In (i, n) ns /\ In j (children (shp V n)).
Proof.
  unfold nrefs. rewrite in_flat_map. split.
  - intros [[i n] [H1 H2]]. eauto.
  - intros [i [n [H1 H2]]]. exists (i, n). auto.
Qed.

(* ---- changing a counter ----------------------------------------------------------------------- *)
Lemma nlookup_set_nodes s ns i : nlookup (set_nodes V s ns) i = lookup Nat.eq_dec ns i.
Proof. reflexivity. Qed.
Lemma nlookup_upd_eq s i f : nlookup (set_nodes V s (update Nat.eq_dec (nodes V s) i f)) i = option_map f (nlookup s i).
Proof. apply lookup_update_eq. Qed.
Lemma nlookup_upd_neq s i j f : i <> j -> nlookup (set_nodes V s (update Nat.eq_dec (nodes V s) i f)) j = nlookup s j.
Proof. intros N. apply lookup_update_neq. auto. Qed.

Lemma den_upd s i (f : node -> node) j d : (forall n, shp V (f n) = shp V n) ->
  den s j d <-> den (set_nodes V s (update Nat.eq_dec (nodes V s) i f)) j d.
Proof.
  intros S. split.
  - apply den_sext. intros k n E. destruct (Nat.eq_dec i k).
    + subst. exists (f n). rewrite nlookup_upd_eq, E. auto.
    + exists n. rewrite nlookup_upd_neq; auto.
  - apply den_sext. intros k n E. destruct (Nat.eq_dec i k).
    + subst. rewrite nlookup_upd_eq in E. destruct (nlookup s k) as [m|] eqn:E2; [|discriminate]. simpl in E. injection E as <-. eauto.
    + rewrite nlookup_upd_neq in E; eauto.
Qed.

(* a store that differs from s only in the counter of node i *)
Lemma core_upd s X Y i (f : node -> node) :
  Core s X -> (forall n, shp V (f n) = shp V n) ->
  (forall j, In j Y -> nlookup s j <> None) ->
  (forall n, nlookup s i = Some n -> rc V (f n) = cnt (reflist s ++ Y) i) ->
  (forall j, j <> i -> cnt X j = cnt Y j) ->
  Core (set_nodes V s (update Nat.eq_dec (nodes V s) i f)) Y.
Proof.
  intros C S PY RC XY. destruct C.
  assert (L : forall j, nlookup (set_nodes V s (update Nat.eq_dec (nodes V s) i f)) j =
                        if Nat.eq_dec i j then option_map f (nlookup s j) else nlookup s j).
  { intros j. destruct (Nat.eq_dec i j); [subst; apply nlookup_upd_eq | apply nlookup_upd_neq; auto]. }
  assert (LS : forall j sh c, nlookup (set_nodes V s (update Nat.eq_dec (nodes V s) i f)) j = Some (mkn sh c) ->
                              exists c', nlookup s j = Some (mkn sh c')).
  { intros j sh c. rewrite L. destruct (Nat.eq_dec i j); eauto. destruct (nlookup s j) as [[sh' c']|]; simpl; [|discriminate].
    intros E. injection E as E. specialize (S (mkn sh' c')). rewrite E in S. simpl in S. subst. eauto. }
  assert (LS' : forall j sh c, nlookup s j = Some (mkn sh c) ->
                               exists c', nlookup (set_nodes V s (update Nat.eq_dec (nodes V s) i f)) j = Some (mkn sh c')).
  { intros j sh c E. rewrite L. destruct (Nat.eq_dec i j); eauto. rewrite E. simpl.
    specialize (S (mkn sh c)). destruct (f (mkn sh c)) as [sh' c']. simpl in S. subst. eauto. }
  constructor; simpl; auto.
  - rewrite keys_update. auto.
  - intros v j. rewrite c_ltab0. split; intros [c E]; [eapply LS' | eapply LS]; eauto.
  - intros lo hi x j. rewrite c_itab0. split; intros [c E]; [eapply LS' | eapply LS]; eauto.
  - intros j n E. destruct n as [sh c]. destruct (LS _ _ _ E) as [c' E']. eapply c_fresh0; eauto.
  - intros j lo hi x c E. destruct (LS _ _ _ E) as [c' E']. eapply c_order0; eauto.
  - intros j n E. destruct n as [sh c]. destruct (LS _ _ _ E) as [c' E']. destruct (c_den0 _ _ E') as [d [D W]].
    exists d. split; auto. apply den_upd; auto.
  - intros h hd E. apply den_upd; auto. eapply c_hden0; exact E.
  - intros j Hj. specialize (PY j Hj). rewrite L. destruct (Nat.eq_dec i j); auto. destruct (nlookup s j); simpl; congruence.
  - intros j n. rewrite L. unfold reflist. simpl. rewrite nrefs_update by auto. fold (reflist s).
    destruct (Nat.eq_dec i j).
    + subst. destruct (nlookup s j) as [m|] eqn:E; simpl; [|discriminate]. intros [= <-]. apply RC. reflexivity.
    + intros E. rewrite (c_cnt0 j n E), !cnt_app. rewrite XY; auto.
Qed.

Lemma inc_core s X i : Core s X -> nlookup s i <> None -> Core (inc_rc s i) (i :: X).
Proof.
  intros C N. unfold MtbddStoreDefs.inc_rc. apply (core_upd s X (i :: X)); auto.
  - intros j [<-|H]; auto. apply (c_pend _ _ C); auto.
  - intros n E. simpl. rewrite (c_cnt _ _ C i n E), !cnt_app, cnt_cons_eq. lia.
  - intros j Nj. rewrite cnt_cons_neq; auto.
Qed.

Lemma dec_core s X i n : Core s (i :: X) -> nlookup s i = Some n ->
  exists c, rc V n = S c /\ Core (set_rc s i c) X.
Proof.
  intros C E. assert (R := c_cnt _ _ C i n E). rewrite cnt_app, cnt_cons_eq in R.
  exists (cnt (reflist s) i + cnt X i). split; [lia|].
  unfold MtbddStoreDefs.set_rc. apply (core_upd s (i :: X) X); auto.
  - intros j Hj. apply (c_pend _ _ C). right. exact Hj.
  - intros m Em. simpl. rewrite cnt_app. reflexivity.
  - intros j Nj. rewrite cnt_cons_neq; auto.
Qed.

(* ---- handles ---------------------------------------------------------------------------------- *)
Lemma den_handles s hs i d : den s i d <-> den (mks (nodes V s) (ltab V s) (itab V s) (next V s) hs) i d.
Proof. split; apply den_sext; intros k n E; exists n; auto. Qed.

Lemma add_handle_core s X h r dv g : Core s (r :: X) -> hlookup s h = None -> den s r g ->
  Core (add_handle s h (mkh r dv g)) X.
Proof.
  intros C F D. destruct C. constructor; simpl; auto.
  - constructor; auto. apply lookup_none in F. exact F.
  - intros i n E. destruct (c_den0 i n E) as [d [Dd W]]. exists d. split; auto. apply den_handles. exact Dd.
  - intros k hd. unfold MtbddStoreDefs.hlookup. simpl. destruct (Nat.eq_dec k h).
    + intros [= <-]. simpl. apply den_handles. exact D.
    + intros E. apply den_handles. eapply c_hden0; exact E.
  - intros i Hi. apply c_pend0. right. exact Hi.
  - intros i n E. rewrite (c_cnt0 i n E). unfold reflist. simpl. rewrite !cnt_app.
    unfold cnt. simpl. destruct (Nat.eq_dec r i); lia.
Qed.

Lemma del_handle_core s X h hd : Core s X -> hlookup s h = Some hd -> Core (del_handle s h) (root V hd :: X).
Proof.
  intros C E. destruct C. constructor; simpl; auto.
  - apply nodup_remove. auto.
  - intros i n En. destruct (c_den0 i n En) as [d [Dd W]]. exists d. split; auto. apply den_handles. exact Dd.
  - intros k hk. unfold MtbddStoreDefs.hlookup. simpl. destruct (Nat.eq_dec h k).
    + subst. rewrite lookup_remove_eq. discriminate.
    + rewrite lookup_remove_neq by auto. intros Ek. apply den_handles. eapply c_hden0; exact Ek.
  - intros i [<-|Hi]; [|exact (c_pend0 i Hi)]. apply (den_in s _ (ghost V hd)). apply c_hden0 with h. exact E.
  - intros i n En. rewrite (c_cnt0 i n En). unfold reflist. simpl. rewrite !cnt_app.
    rewrite (hrefs_remove (handles V s) h hd c_nd_handles0 E i). unfold cnt. simpl.
    destruct (Nat.eq_dec (root V hd) i); lia.
Qed.

(* ---- creation --------------------------------------------------------------------------------- *)
(* nodes are only added, shapes kept, counters never decrease, objects untouched *)
Definition grows (s s' : store) : Prop :=
  (forall i n, nlookup s i = Some n -> exists n', nlookup s' i = Some n' /\ shp V n' = shp V n /\ rc V n <= rc V n') /\
  handles V s' = handles V s.
Lemma grows_refl s : grows s s.
Proof. split; auto. intros i n E. eauto. Qed.
Lemma grows_trans s1 s2 s3 : grows s1 s2 -> grows s2 s3 -> grows s1 s3.
Proof.
  intros [A A'] [B B']. split; [|congruence]. intros i n E. destruct (A i n E) as [n' [E' [S' R']]].
  destruct (B i n' E') as [n2 [E2 [S2 R2]]]. exists n2. repeat split; try congruence. lia.
Qed.
Lemma grows_sext s s' : grows s s' -> sext s s'.
Proof. intros [A _] i n E. destruct (A i n E) as [n' [E' [S' _]]]. eauto. Qed.
Lemma inc_grows s i : grows s (inc_rc s i).
Proof.
  split; auto. intros j n E. unfold MtbddStoreDefs.inc_rc. destruct (Nat.eq_dec i j).
  - subst. rewrite nlookup_upd_eq, E. simpl. eexists. split; [reflexivity|]. simpl. auto.
  - rewrite nlookup_upd_neq by auto. eauto.
Qed.

(* nodes whose counter is 0 are among L; node j has a positive counter *)
Definition zeros (s : store) (L : list id) : Prop := forall i n, nlookup s i = Some n -> rc V n = 0 -> In i L.
Definition pos (s : store) (j : id) : Prop := forall n, nlookup s j = Some n -> 1 <= rc V n.
Lemma pos_grows s s' j : grows s s' -> nlookup s j <> None -> pos s j -> pos s' j.
Proof.
  intros [G _] N P n' E'. destruct (nlookup s j) as [n|] eqn:E; [|congruence].
  destruct (G j n E) as [n2 [E2 [_ R]]]. rewrite E' in E2. injection E2 as <-. specialize (P n E). lia.
Qed.
Lemma zeros_drop s L j : zeros s (j :: L) -> pos s j -> zeros s L.
Proof. intros Z P i n E R. destruct (Z i n E R) as [<-|H]; auto. specialize (P n E). lia. Qed.
Lemma zeros_incl s L L' : zeros s L -> incl L L' -> zeros s L'.
Proof. intros Z I i n E R. apply I. eapply Z; eauto. Qed.
Lemma inc_zeros s L i : zeros s L -> zeros (inc_rc s i) L.
Proof.
  intros Z j n. unfold MtbddStoreDefs.inc_rc. destruct (Nat.eq_dec i j).
  - subst. rewrite nlookup_upd_eq. destruct (nlookup s j); simpl; [|discriminate]. intros [= <-]. simpl. discriminate.
  - rewrite nlookup_upd_neq by auto. apply Z.
Qed.
Lemma inc_pos s i : pos (inc_rc s i) i.
Proof.
  intros n. unfold MtbddStoreDefs.inc_rc. rewrite nlookup_upd_eq. destruct (nlookup s i); simpl; [|discriminate].
  intros [= <-]. simpl. lia.
Qed.

Lemma key_lookup s i : In i (map fst (nodes V s)) -> exists n, nlookup s i = Some n.
Proof.
  intros H. unfold MtbddStoreDefs.nlookup. destruct (lookup Nat.eq_dec (nodes V s) i) eqn:E; eauto.
  apply lookup_none in E. contradiction.
Qed.
Lemma refs_lt_next s X j : Core s X -> In j (reflist s ++ X) -> j < next V s.
Proof.
  intros C H. apply in_app_or in H as [H|H]; [apply in_app_or in H as [H|H]|].
  - unfold hrefs in H. apply in_map_iff in H as [[h hd] [<- H]]. simpl.
    assert (E : hlookup s h = Some hd) by (apply in_lookup; [apply (c_nd_handles _ _ C)|exact H]).
    assert (N := den_in _ _ _ (c_hden _ _ C h hd E)). destruct (nlookup s (root V hd)) eqn:E2; [|congruence].
    eapply (c_fresh _ _ C); eauto.
  - apply in_nrefs in H as [i [n [H1 H2]]].
    assert (E : nlookup s i = Some n) by (apply in_lookup; [apply (c_nd_nodes _ _ C)|exact H1]).
    assert (L := c_fresh _ _ C i n E). destruct n as [[v|lo hi x] c]; simpl in H2; [contradiction|].
    destruct (c_order _ _ C i lo hi x c E). destruct H2 as [<-|[<-|[]]]; lia.
  - assert (N := c_pend _ _ C j H). destruct (nlookup s j) eqn:E2; [|congruence]. eapply (c_fresh _ _ C); eauto.
Qed.
Lemma next_unused s X : Core s X -> nlookup s (next V s) = None.
Proof. intros C. destruct (nlookup s (next V s)) eqn:E; auto. apply (c_fresh _ _ C) in E. lia. Qed.

Lemma spawn_leaf_core s X v s' i : Core s X -> spawn_leaf s v = (s', i) ->
  Core s' X /\ den s' i (Leaf v) /\ grows s s' /\ (forall L, zeros s L -> zeros s' (i :: L)).
Proof.
  intros C. unfold MtbddStoreDefs.spawn_leaf. destruct (lookup V_eq_dec (ltab V s) v) as [j|] eqn:E.
  - intros [= <- <-]. split; auto. apply (c_ltab _ _ C) in E as [c E]. split; [eapply den_leaf; eauto|].
    split; [apply grows_refl|]. intros L Z. eapply zeros_incl; eauto. intros k; simpl; auto.
  - intros [= <- <-]. set (k := next V s). set (s1 := mks _ _ _ _ _).
    assert (NU := next_unused s X C). fold k in NU.
    assert (LK : forall j, nlookup s1 j = if Nat.eq_dec j k then Some (mkn (SLeaf v) 0) else nlookup s j).
    { intros j. unfold s1, MtbddStoreDefs.nlookup. simpl. reflexivity. }
    assert (G : grows s s1).
    { split; auto. intros j n Ej. exists n. rewrite LK. destruct (Nat.eq_dec j k); [congruence|auto]. }
    assert (SX := grows_sext _ _ G).
    split; [|split; [|split]]; auto.
    + destruct C. constructor; simpl; auto.
      * constructor; auto. intros H. apply key_lookup in H as [n H]. fold k in H. congruence.
      * constructor; auto. apply lookup_none in E. exact E.
      * intros v' j. rewrite LK. destruct (V_eq_dec v' v) as [->|Nv].
        -- split.
           ++ intros [= <-]. destruct (Nat.eq_dec k k); [eauto|congruence].
           ++ intros [c H]. destruct (Nat.eq_dec j k); [congruence|]. exfalso.
              assert (lookup V_eq_dec (ltab V s) v = Some j) by (apply c_ltab0; eauto). congruence.
        -- rewrite c_ltab0. destruct (Nat.eq_dec j k); [|tauto]. subst j. split; intros [c H]; [congruence|].
           injection H as H. congruence.
      * intros lo hi x j. rewrite LK, c_itab0. destruct (Nat.eq_dec j k); [|tauto]. subst j.
        split; intros [c H]; congruence.
      * intros j n. rewrite LK. destruct (Nat.eq_dec j k); [subst; unfold k; lia|]. intros H. apply c_fresh0 in H. lia.
      * intros j lo hi x c. rewrite LK. destruct (Nat.eq_dec j k); [discriminate|]. apply c_order0.
      * intros j n. rewrite LK. destruct (Nat.eq_dec j k).
        -- subst. intros _. exists (Leaf v). split; [|exact I]. eapply den_leaf. rewrite LK. destruct (Nat.eq_dec k k); [reflexivity|congruence].
        -- intros H. destruct (c_den0 j n H) as [d [D W]]. exists d. split; auto. eapply den_sext; eauto.
      * intros h hd H. eapply den_sext; [exact SX|]. eapply c_hden0; exact H.
      * intros j Hj. rewrite LK. destruct (Nat.eq_dec j k); [discriminate|]. auto.
      * intros j n. rewrite LK. unfold reflist. simpl. fold (reflist s). destruct (Nat.eq_dec j k).
        -- subst. intros [= <-]. simpl. symmetry. apply cnt_zero. intros H.
           assert (k < next V s); [|unfold k in *; lia].
           eapply (refs_lt_next s X). { constructor; auto. } exact H.
        -- apply c_cnt0.
    + eapply den_leaf. rewrite LK. destruct (Nat.eq_dec k k); [reflexivity|congruence].
    + intros L Z j n. rewrite LK. destruct (Nat.eq_dec j k); [left; auto|]. intros H R. right. eapply Z; eauto.
Qed.

Lemma add_int_core s X lo hi x dl dh :
  Core s (lo :: hi :: X) -> lookup ikey_eq_dec (itab V s) (lo, hi, x) = None ->
  den s lo dl -> den s hi dh -> wf (Nd x dl dh) ->
  let s1 := mks ((next V s, mkn (SInt lo hi x) 0) :: nodes V s) (ltab V s) (((lo, hi, x), next V s) :: itab V s) (S (next V s)) (handles V s) in
  Core s1 X /\ den s1 (next V s) (Nd x dl dh) /\ sext s s1.
Proof.
  intros C E Dl Dh W s1. set (k := next V s) in *.
  assert (NU := next_unused s _ C). fold k in NU.
  assert (LK : forall j, nlookup s1 j = if Nat.eq_dec j k then Some (mkn (SInt lo hi x) 0) else nlookup s j).
  { intros j. unfold s1, MtbddStoreDefs.nlookup. simpl. reflexivity. }
  assert (SX : sext s s1).
  { intros j n Ej. exists n. rewrite LK. destruct (Nat.eq_dec j k); [congruence|auto]. }
  assert (DK : den s1 k (Nd x dl dh)).
  { eapply den_int; [rewrite LK; destruct (Nat.eq_dec k k); [reflexivity|congruence]| |]; eapply den_sext; eauto. }
  split; [|split]; auto.
  assert (Llo : lo < k) by (apply (refs_lt_next s _ _ C); apply in_or_app; right; simpl; auto).
  assert (Lhi : hi < k) by (apply (refs_lt_next s _ _ C); apply in_or_app; right; simpl; auto).
  assert (C' := C). destruct C. constructor; simpl; auto.
  - constructor; auto. intros H. apply key_lookup in H as [n H]. fold k in H. congruence.
  - constructor; auto. apply lookup_none in E. exact E.
  - intros v j. rewrite LK, c_ltab0. destruct (Nat.eq_dec j k); [|tauto]. subst j. split; intros [c H]; congruence.
  - intros lo' hi' x' j. rewrite LK. destruct (ikey_eq_dec (lo', hi', x') (lo, hi, x)) as [Ek|Nk].
    + injection Ek as -> -> ->. split.
      * intros [= <-]. destruct (Nat.eq_dec k k); [eauto|congruence].
      * intros [c H]. destruct (Nat.eq_dec j k); [congruence|]. exfalso.
        assert (lookup ikey_eq_dec (itab V s) (lo, hi, x) = Some j) by (apply c_itab0; eauto). congruence.
    + rewrite c_itab0. destruct (Nat.eq_dec j k); [|tauto]. subst j. split; intros [c H]; [congruence|].
      injection H as H1 H2 H3. congruence.
  - intros j n. rewrite LK. destruct (Nat.eq_dec j k); [subst; unfold k; lia|]. intros H. apply c_fresh0 in H. lia.
  - intros j lo' hi' x' c. rewrite LK. destruct (Nat.eq_dec j k); [|apply c_order0].
    intros [= <- <- <- <-]. subst. split; assumption.
  - intros j n. rewrite LK. destruct (Nat.eq_dec j k).
    + subst. intros _. eauto.
    + intros H. destruct (c_den0 j n H) as [d [D Wd]]. exists d. split; auto. eapply den_sext; eauto.
  - intros h hd H. eapply den_sext; [exact SX|]. eapply c_hden0; exact H.
  - intros j Hj. rewrite LK. destruct (Nat.eq_dec j k); [discriminate|]. apply c_pend0. simpl. auto.
  - intros j n. rewrite LK. unfold reflist. simpl. fold (nrefs (nodes V s)). destruct (Nat.eq_dec j k).
    + subst. intros [= <-]. simpl. symmetry. apply cnt_zero. intros H.
      assert (k < next V s); [|unfold k in *; lia].
      apply (refs_lt_next s _ k C'). unfold reflist. rewrite !in_app_iff in *. simpl in *. tauto.
    + intros H. rewrite (c_cnt0 j n H). unfold reflist. rewrite !cnt_app. unfold cnt. simpl.
      destruct (Nat.eq_dec lo j); destruct (Nat.eq_dec hi j); lia.
Qed.

Lemma spawn_internal_core s X lo hi x dl dh s' i :
  Core s X -> den s lo dl -> den s hi dh -> wf (Nd x dl dh) -> spawn_internal s lo hi x = (s', i) ->
  Core s' X /\ den s' i (Nd x dl dh) /\ grows s s' /\
  (forall L, zeros s L -> zeros s' (i :: L)) /\ pos s' lo /\ pos s' hi.
Proof.
  intros C Dl Dh W. unfold MtbddStoreDefs.spawn_internal.
  destruct (lookup ikey_eq_dec (itab V s) (lo, hi, x)) as [j|] eqn:E.
  - intros [= <- <-]. apply (c_itab _ _ C) in E as [c E].
    split; auto. split; [eapply den_int; eauto|]. split; [apply grows_refl|].
    split; [intros L Z; eapply zeros_incl; eauto; intros k; simpl; auto|].
    assert (IN : forall q, In q [lo; hi] -> pos s q).
    { intros q Hq n En. rewrite (c_cnt _ _ C q n En). apply cnt_pos. apply in_or_app. left. apply in_or_app. right.
      apply in_nrefs. exists j, (mkn (SInt lo hi x) c). split; [apply lookup_in with (eqd := Nat.eq_dec); exact E|exact Hq]. }
    split; apply IN; simpl; auto.
  - intros [= <- <-]. set (k := next V s).
    assert (Nlo := den_in _ _ _ Dl). assert (Nhi := den_in _ _ _ Dh).
    assert (C2 : Core (inc_rc (inc_rc s lo) hi) (lo :: hi :: X)).
    { eapply core_perm; [apply inc_core; [apply inc_core; eauto|]|].
      - unfold MtbddStoreDefs.inc_rc. destruct (Nat.eq_dec lo hi).
        + subst. rewrite nlookup_upd_eq. destruct (nlookup s hi); simpl; congruence.
        + rewrite nlookup_upd_neq; auto.
      - intros q. unfold cnt. simpl. destruct (Nat.eq_dec hi q); destruct (Nat.eq_dec lo q); lia. }
    assert (G2 : grows s (inc_rc (inc_rc s lo) hi)) by (eapply grows_trans; apply inc_grows).
    assert (SX2 := grows_sext _ _ G2).
    assert (Llo : lo < k).
    { destruct (nlookup s lo) as [n|] eqn:Q; [|congruence]. eapply (c_fresh _ _ C); eauto. }
    assert (Lhi : hi < k).
    { destruct (nlookup s hi) as [n|] eqn:Q; [|congruence]. eapply (c_fresh _ _ C); eauto. }
    set (s2 := inc_rc (inc_rc s lo) hi) in *.
    assert (EQ : inc_rc (inc_rc (mks ((k, mkn (SInt lo hi x) 0) :: nodes V s) (ltab V s) (((lo, hi, x), k) :: itab V s) (S k) (handles V s)) lo) hi =
                 mks ((next V s2, mkn (SInt lo hi x) 0) :: nodes V s2) (ltab V s2) (((lo, hi, x), next V s2) :: itab V s2) (S (next V s2)) (handles V s2)).
    { unfold s2, MtbddStoreDefs.inc_rc, set_nodes. simpl. fold k.
      destruct (Nat.eq_dec lo k); [lia|]. simpl. destruct (Nat.eq_dec hi k); [lia|]. reflexivity. }
    rewrite EQ.
    destruct (add_int_core s2 X lo hi x dl dh C2) as [C3 [D3 SX3]]; auto.
    { eapply den_sext; eauto. } { eapply den_sext; eauto. }
    set (s3 := mks ((next V s2, mkn (SInt lo hi x) 0) :: nodes V s2) (ltab V s2) (((lo, hi, x), next V s2) :: itab V s2) (S (next V s2)) (handles V s2)) in *.
    assert (LK3 : forall q, nlookup s3 q = if Nat.eq_dec q k then Some (mkn (SInt lo hi x) 0) else nlookup s2 q) by (intros q; reflexivity).
    assert (G3 : grows s s3).
    { split; [|reflexivity]. intros q n Eq. destruct G2 as [G2 _]. destruct (G2 q n Eq) as [n' [E' [S' R']]].
      exists n'. split; auto. rewrite LK3.
      destruct (Nat.eq_dec q k); auto. subst q. apply (c_fresh _ _ C) in Eq. unfold k in Eq. lia. }
    split; auto. split; [exact D3|]. split; auto.
    assert (P2 : forall q, pos s2 q -> q <> k -> pos s3 q).
    { intros q P Nq n. rewrite LK3. destruct (Nat.eq_dec q k); [congruence|]. apply P. }
    split; [|split].
    + intros L Z q n. rewrite LK3. destruct (Nat.eq_dec q k); [left; auto|].
      intros Eq R. right. assert (Z2 : zeros s2 L) by (apply inc_zeros, inc_zeros, Z). eapply Z2; eauto.
    + apply P2; [|lia]. unfold s2. eapply pos_grows; [apply inc_grows| |apply inc_pos].
      unfold MtbddStoreDefs.inc_rc. rewrite nlookup_upd_eq. destruct (nlookup s lo); simpl; congruence.
    + apply P2; [|lia]. apply inc_pos.
Qed.

Lemma intern_core d : forall s X s' i, Core s X -> wf d -> intern s d = (s', i) ->
  Core s' X /\ den s' i d /\ grows s s' /\ (forall L, zeros s L -> zeros s' (i :: L)).
Proof.
  induction d as [v|x l IHl h IHh]; intros s X s' i C W; simpl.
  - intros E. eapply spawn_leaf_core; eauto.
  - destruct (intern s l) as [s1 il] eqn:E1. destruct (intern s1 h) as [s2 ih] eqn:E2. intros E3.
    assert (W' := W). destruct W as [Nlh [Tl [Th [Wl Wh]]]].
    destruct (IHl _ _ _ _ C Wl E1) as [C1 [D1 [G1 Z1]]].
    destruct (IHh _ _ _ _ C1 Wh E2) as [C2 [D2 [G2 Z2]]].
    assert (D1' : den s2 il l) by (eapply den_sext; [apply grows_sext; eauto|auto]).
    destruct (spawn_internal_core _ _ _ _ _ _ _ _ _ C2 D1' D2 W' E3) as [C3 [D3 [G3 [Z3 [Pl Ph]]]]].
    split; auto. split; auto. split; [eapply grows_trans; eauto; eapply grows_trans; eauto|].
    intros L Z. apply zeros_drop with ih; auto.
    apply zeros_drop with il.
    + eapply zeros_incl; [apply Z3, Z2, Z1, Z|]. intros q. simpl. tauto.
    + exact Pl.
Qed.

(* ---- deletion --------------------------------------------------------------------------------- *)
Lemma den_remove s s' i : (forall j, j <> i -> nlookup s' j = nlookup s j) -> ~ In i (nrefs (nodes V s)) ->
  NoDup (map fst (nodes V s)) ->
  forall j d, den s j d -> j <> i -> den s' j d.
Proof.
  intros L NR ND. induction 1 as [j v c E|j lo hi x c l h E Dl IHl Dh IHh]; intros Nj.
  - eapply den_leaf. rewrite L; eauto.
  - assert (In lo (nrefs (nodes V s)) /\ In hi (nrefs (nodes V s))) as [Hl Hh].
    { split; apply in_nrefs; exists j, (mkn (SInt lo hi x) c); (split; [apply lookup_in with (eqd := Nat.eq_dec); exact E|simpl; auto]). }
    eapply den_int; [rewrite L; eauto| |].
    + apply IHl. intros ->. contradiction.
    + apply IHh. intros ->. contradiction.
Qed.

(* removing a node nobody refers to, together with its table entry *)
Lemma core_remove s X i n lt it :
  Core s X -> nlookup s i = Some n -> rc V n = 0 ->
  let s' := mks (remove_key Nat.eq_dec (nodes V s) i) lt it (next V s) (handles V s) in
  NoDup (map fst lt) -> NoDup (map fst it) ->
  (forall v j, lookup V_eq_dec lt v = Some j <-> exists c, nlookup s' j = Some (mkn (SLeaf v) c)) ->
  (forall lo hi x j, lookup ikey_eq_dec it (lo, hi, x) = Some j <-> exists c, nlookup s' j = Some (mkn (SInt lo hi x) c)) ->
  Core s' (children (shp V n) ++ X).
Proof.
  intros C E R s' NDl NDi TL TI.
  assert (L : forall j, nlookup s' j = if Nat.eq_dec i j then None else nlookup s j).
  { intros j. unfold s', MtbddStoreDefs.nlookup. simpl. destruct (Nat.eq_dec i j).
    - subst. apply lookup_remove_eq. - apply lookup_remove_neq. auto. }
  assert (L' : forall j, j <> i -> nlookup s' j = nlookup s j).
  { intros j Nj. rewrite L. destruct (Nat.eq_dec i j); congruence. }
  assert (Z : ~ In i (reflist s ++ X)).
  { apply cnt_zero. rewrite <- (c_cnt _ _ C i n E). exact R. }
  assert (ZN : ~ In i (nrefs (nodes V s))).
  { intros H. apply Z. apply in_or_app. left. apply in_or_app. right. exact H. }
  assert (DR := den_remove s s' i L' ZN (c_nd_nodes _ _ C)).
  assert (CH : forall q, In q (children (shp V n)) -> nlookup s q <> None /\ q <> i).
  { intros q Hq. destruct n as [[v|lo hi x] c]; simpl in Hq; [contradiction|].
    destruct (c_order _ _ C i lo hi x c E). destruct (c_den _ _ C i _ E) as [d [D _]].
    inversion D; subst; rewrite E in H1; inversion H1; subst.
    destruct Hq as [<-|[<-|[]]]; (split; [eapply den_in; eauto|lia]). }
  destruct C. constructor; simpl; auto.
  - apply nodup_remove. auto.
  - intros j m. rewrite L. destruct (Nat.eq_dec i j); [discriminate|]. apply c_fresh0.
  - intros j lo hi x c. rewrite L. destruct (Nat.eq_dec i j); [discriminate|]. apply c_order0.
  - intros j m. rewrite L. destruct (Nat.eq_dec i j); [discriminate|]. intros H.
    destruct (c_den0 j m H) as [d [D W]]. exists d. split; auto.
  - intros h hd H. apply DR; [eapply c_hden0; exact H|]. intros Q. apply Z. apply in_or_app. left. apply in_or_app. left.
    unfold hrefs. apply in_map_iff. exists (h, hd). split; auto. apply lookup_in with (eqd := Nat.eq_dec). exact H.
  - intros j Hj. apply in_app_or in Hj as [Hj|Hj].
    + destruct (CH j Hj) as [A B]. rewrite L'; auto.
    + rewrite L'; auto. intros ->. apply Z. apply in_or_app. right. exact Hj.
  - intros j m. rewrite L. destruct (Nat.eq_dec i j); [discriminate|]. intros H. rewrite (c_cnt0 j m H).
    unfold reflist. simpl. rewrite !cnt_app. rewrite (nrefs_remove (nodes V s) i n c_nd_nodes0 E j). lia.
Qed.

Lemma remove_update_same (ns : list (id * node)) i f :
  remove_key Nat.eq_dec (update Nat.eq_dec ns i f) i = remove_key Nat.eq_dec ns i.
Proof.
  induction ns as [|[k m] r IH]; simpl; auto. destruct (Nat.eq_dec i k) eqn:Q; simpl; rewrite Q; auto. rewrite IH. reflexivity.
Qed.

Lemma dispose_leaf_core s X i v c : Core s X -> nlookup s i = Some (mkn (SLeaf v) c) -> c = 0 -> Core (dispose_leaf s i v) X.
Proof.
  intros C E ->. unfold MtbddStoreDefs.dispose_leaf.
  assert (LV : lookup V_eq_dec (ltab V s) v = Some i) by (apply (c_ltab _ _ C); eauto).
  apply (core_remove s X i (mkn (SLeaf v) 0) (remove_key V_eq_dec (ltab V s) v) (itab V s) C E eq_refl).
  - apply nodup_remove. apply (c_nd_ltab _ _ C).
  - apply (c_nd_itab _ _ C).
  - intros v' j. unfold MtbddStoreDefs.nlookup. simpl. destruct (V_eq_dec v v') as [<-|Nv].
    + rewrite lookup_remove_eq. split; [discriminate|]. intros [c H]. exfalso. destruct (Nat.eq_dec i j).
      * subst. rewrite lookup_remove_eq in H. discriminate.
      * rewrite lookup_remove_neq in H by auto.
        assert (lookup V_eq_dec (ltab V s) v = Some j) by (apply (c_ltab _ _ C); eauto). congruence.
    + rewrite lookup_remove_neq by auto. rewrite (c_ltab _ _ C). destruct (Nat.eq_dec i j).
      * subst. rewrite lookup_remove_eq. split; intros [c H]; [|discriminate]. rewrite E in H. congruence.
      * rewrite lookup_remove_neq by auto. tauto.
  - intros lo hi x j. unfold MtbddStoreDefs.nlookup. simpl. rewrite (c_itab _ _ C). destruct (Nat.eq_dec i j).
    + subst. rewrite lookup_remove_eq. split; intros [c H]; [|discriminate]. rewrite E in H. congruence.
    + rewrite lookup_remove_neq by auto. tauto.
Qed.

Lemma dispose_internal_core s X i lo hi x : Core s X -> nlookup s i = Some (mkn (SInt lo hi x) 0) ->
  Core (dispose_internal s i (lo, hi, x)) (lo :: hi :: X).
Proof.
  intros C E. unfold MtbddStoreDefs.dispose_internal.
  assert (LV : lookup ikey_eq_dec (itab V s) (lo, hi, x) = Some i) by (apply (c_itab _ _ C); eauto).
  apply (core_remove s X i (mkn (SInt lo hi x) 0) (ltab V s) (remove_key ikey_eq_dec (itab V s) (lo, hi, x)) C E eq_refl).
  - apply (c_nd_ltab _ _ C).
  - apply nodup_remove. apply (c_nd_itab _ _ C).
  - intros v j. unfold MtbddStoreDefs.nlookup. simpl. rewrite (c_ltab _ _ C). destruct (Nat.eq_dec i j).
    + subst. rewrite lookup_remove_eq. split; intros [c H]; [|discriminate]. rewrite E in H. congruence.
    + rewrite lookup_remove_neq by auto. tauto.
  - intros lo' hi' x' j. unfold MtbddStoreDefs.nlookup. simpl. destruct (ikey_eq_dec (lo, hi, x) (lo', hi', x')) as [Ek|Nk].
    + injection Ek as <- <- <-. rewrite lookup_remove_eq. split; [discriminate|]. intros [c H]. exfalso. destruct (Nat.eq_dec i j).
      * subst. rewrite lookup_remove_eq in H. discriminate.
      * rewrite lookup_remove_neq in H by auto.
        assert (lookup ikey_eq_dec (itab V s) (lo, hi, x) = Some j) by (apply (c_itab _ _ C); eauto). congruence.
    + rewrite lookup_remove_neq by auto. rewrite (c_itab _ _ C). destruct (Nat.eq_dec i j).
      * subst. rewrite lookup_remove_eq. split; intros [c H]; [|discriminate]. rewrite E in H.
        injection H as H1 H2 H3. subst. congruence.
      * rewrite lookup_remove_neq by auto. tauto.
Qed.

(* what a release does to the heap: nodes are only removed (those of log, each once), shapes kept,
   a surviving node keeps its counter or still has a positive one; objects untouched *)
Record shrinks (s s' : store) (log : list id) : Prop := {
  sh_sub : forall j n', nlookup s' j = Some n' -> exists n, nlookup s j = Some n /\ shp V n' = shp V n /\ (rc V n' = rc V n \/ 1 <= rc V n');
  sh_keep : forall j, nlookup s j <> None -> ~ In j log -> nlookup s' j <> None;
  sh_log : forall j, In j log -> nlookup s j <> None /\ nlookup s' j = None;
  sh_nodup : NoDup log;
  sh_handles : handles V s' = handles V s
}.
Lemma shrinks_trans s1 s2 s3 l1 l2 : shrinks s1 s2 l1 -> shrinks s2 s3 l2 -> shrinks s1 s3 (l1 ++ l2).
Proof.
  intros A B. destruct A as [A1 A2 A3 A4 A5]. destruct B as [B1 B2 B3 B4 B5]. constructor.
  - intros j n3 E3. destruct (B1 j n3 E3) as [n2 [E2 [S2 R2]]]. destruct (A1 j n2 E2) as [n1 [E1 [S1 R1]]].
    exists n1. split; auto. split; [congruence|]. destruct R2 as [R2|R2]; [|auto]. rewrite R2. destruct R1; [left; congruence|right; lia].
  - intros j N1 NL. apply B2; [apply A2; auto|]; intros H; apply NL, in_or_app; auto.
  - intros j H. apply in_app_or in H as [H|H].
    + destruct (A3 j H) as [P Q]. split; auto. destruct (nlookup s3 j) as [n3|] eqn:E3; auto.
      destruct (B1 j n3 E3) as [n2 [E2 _]]. congruence.
    + destruct (B3 j H) as [P Q]. split; auto. destruct (nlookup s2 j) as [n2|] eqn:E2; [|congruence].
      destruct (A1 j n2 E2) as [n1 [E1 _]]. congruence.
  - apply nodup_app; auto. intros j H1 H2. destruct (A3 j H1) as [_ Q]. destruct (B3 j H2) as [P _]. congruence.
  - congruence.
Qed.
Lemma shrinks_sext s s' log : shrinks s s' log -> sext s' s.
Proof. intros A j n' E'. destruct (sh_sub _ _ _ A j n' E') as [n [E [S _]]]. eauto. Qed.

Lemma shrinks_remove s s' i : nlookup s i <> None ->
  (forall j, nlookup s' j = if Nat.eq_dec i j then None else nlookup s j) -> handles V s' = handles V s ->
  shrinks s s' [i].
Proof.
  intros N L H. constructor; auto.
  - intros j n'. rewrite L. destruct (Nat.eq_dec i j); [discriminate|]. intros E. exists n'. auto.
  - intros j Nj NL. rewrite L. destruct (Nat.eq_dec i j); auto. subst. exfalso. apply NL. simpl. auto.
  - intros j [<-|[]]. split; auto. rewrite L. destruct (Nat.eq_dec i i); congruence.
  - constructor; [simpl; tauto|constructor].
Qed.
Lemma nlookup_dispose_leaf s i v j : nlookup (dispose_leaf s i v) j = if Nat.eq_dec i j then None else nlookup s j.
Proof.
  unfold MtbddStoreDefs.dispose_leaf, MtbddStoreDefs.nlookup. simpl. destruct (Nat.eq_dec i j).
  - subst. apply lookup_remove_eq. - apply lookup_remove_neq. auto.
Qed.
Lemma nlookup_dispose_internal s i k j : nlookup (dispose_internal s i k) j = if Nat.eq_dec i j then None else nlookup s j.
Proof.
  unfold MtbddStoreDefs.dispose_internal, MtbddStoreDefs.nlookup. simpl. destruct (Nat.eq_dec i j).
  - subst. apply lookup_remove_eq. - apply lookup_remove_neq. auto.
Qed.
Lemma shrinks_set_rc s i n c : nlookup s i = Some n -> shrinks s (set_rc s i (S c)) [].
Proof.
  intros E. unfold MtbddStoreDefs.set_rc. constructor; auto.
  - intros j n'. destruct (Nat.eq_dec i j).
    + subst. rewrite nlookup_upd_eq, E. simpl. intros [= <-]. exists n. simpl. split; auto. split; auto. right. lia.
    + rewrite nlookup_upd_neq by auto. intros E'. exists n'. auto.
  - intros j Nj _. destruct (Nat.eq_dec i j).
    + subst. rewrite nlookup_upd_eq, E. simpl. discriminate.
    + rewrite nlookup_upd_neq by auto. auto.
  - intros j [].
  - constructor.
Qed.

Lemma release_core g : forall s X i, Core s (i :: X) -> den s i g ->
  exists s' log, release g s i = Some (s', log) /\ Core s' X /\ shrinks s s' log.
Proof.
  induction g as [v0|x0 gl IHl gh IHh]; intros s X i C D.
  - inversion D as [i' v c E|]; subst. simpl. rewrite E. simpl.
    destruct (dec_core s X i _ C E) as [c' [R C']]. simpl in R. subst c. destruct c' as [|c'].
    + exists (dispose_leaf s i v0), [i]. split; auto.
      assert (EQ : dispose_leaf (set_rc s i 0) i v0 = dispose_leaf s i v0).
      { unfold MtbddStoreDefs.dispose_leaf, MtbddStoreDefs.set_rc. simpl. rewrite remove_update_same. reflexivity. }
      split.
      * rewrite <- EQ. eapply dispose_leaf_core; eauto. unfold MtbddStoreDefs.set_rc. rewrite nlookup_upd_eq, E. reflexivity.
      * apply shrinks_remove; [congruence| |reflexivity]. intros j. apply nlookup_dispose_leaf.
    + exists (set_rc s i (S c')), []. split; auto. split; auto. eapply shrinks_set_rc; eauto.
  - inversion D as [|i' lo hi x c l h E Dl Dh]; subst. simpl. rewrite E. simpl.
    destruct (dec_core s X i _ C E) as [c' [R C']]. simpl in R. subst c. destruct c' as [|c'].
    + set (s1 := dispose_internal s i (lo, hi, x0)).
      assert (EQ : dispose_internal (set_rc s i 0) i (lo, hi, x0) = s1).
      { unfold s1, MtbddStoreDefs.dispose_internal, MtbddStoreDefs.set_rc. simpl. rewrite remove_update_same. reflexivity. }
      assert (C1 : Core s1 (lo :: hi :: X)).
      { rewrite <- EQ. eapply dispose_internal_core; eauto. unfold MtbddStoreDefs.set_rc. rewrite nlookup_upd_eq, E. reflexivity. }
      assert (S1 : shrinks s s1 [i]).
      { apply shrinks_remove; [congruence| |reflexivity]. intros j. apply nlookup_dispose_internal. }
      destruct (c_order _ _ C i lo hi x0 _ E) as [Llo Lhi].
      assert (Z : ~ In i (nrefs (nodes V s))).
      { intros H. assert (Q := c_cnt _ _ C' i). unfold MtbddStoreDefs.set_rc in Q. rewrite nlookup_upd_eq, E in Q.
        specialize (Q _ eq_refl). simpl in Q. symmetry in Q. apply cnt_zero in Q. apply Q. apply in_or_app. left.
        unfold reflist. apply in_or_app. right. simpl. rewrite nrefs_update by auto. exact H. }
      assert (DR : forall j d, den s j d -> j <> i -> den s1 j d).
      { apply den_remove; auto; [|apply (c_nd_nodes _ _ C)]. intros j Nj. unfold s1. rewrite nlookup_dispose_internal.
        destruct (Nat.eq_dec i j); congruence. }
      assert (D1 : den s1 lo gl) by (apply DR; auto; lia).
      destruct (IHl s1 (hi :: X) lo C1 D1) as [s2 [l1 [R1 [C2 S2]]]]. rewrite R1.
      assert (D2 : den s2 hi gh).
      { assert (N := c_pend _ _ C2 hi (or_introl eq_refl)). destruct (nlookup s2 hi) as [n2|] eqn:E2; [|congruence].
        destruct (c_den _ _ C2 hi n2 E2) as [d [Dd _]].
        assert (den s1 hi d) by (eapply den_sext; [eapply shrinks_sext; eauto|auto]).
        assert (den s1 hi gh) by (apply DR; auto; lia).
        replace gh with d; auto. eapply den_fun; eauto. }
      destruct (IHh s2 X hi C2 D2) as [s3 [l2 [R2 [C3 S3]]]]. rewrite R2.
      exists s3, (i :: l1 ++ l2). split; auto. split; auto.
      change (i :: l1 ++ l2) with ([i] ++ (l1 ++ l2)). eapply shrinks_trans; eauto. eapply shrinks_trans; eauto.
    + exists (set_rc s i (S c')), []. split; auto. split; auto. eapply shrinks_set_rc; eauto.
Qed.

(* ---- constructMTBDD at store level -------------------------------------------------------------- *)
Notation chain_st := (chain_st V).
Notation construct_st := (construct_st V V_eq_dec).
Notation construct_from := (construct_from V V_eq_dec).
Notation make := (make V V_eq_dec).
Notation step := (step V V_eq_dec).

Lemma chain_core dv asgn : forall s X i off sink proc dproc s' p,
  Core s X -> den s sink (Leaf dv) -> den s proc dproc -> wf dproc -> top_lt dproc (i + off) -> dproc <> Leaf dv ->
  chain_st s asgn i off sink proc = (s', p) ->
  Core s' X /\ den s' p (chain V asgn i off (Leaf dv) dproc) /\ grows s s' /\
  (forall L, zeros s L -> zeros s' (p :: L)) /\ ((p = proc /\ s' = s) \/ (pos s' sink /\ pos s' proc)).
Proof.
  induction asgn as [|t r IH]; intros s X i off sink proc dproc s' p C Ds Dp W T N; simpl.
  - intros [= <- <-]. split; auto. split; auto. split; [apply grows_refl|]. split; auto.
    intros L Z. eapply zeros_incl; eauto. intros q; simpl; auto.
  - assert (STEP : forall lo hi dl dh, den s lo dl -> den s hi dh -> wf (Nd (i + off) dl dh) ->
              (lo = sink /\ hi = proc \/ lo = proc /\ hi = sink) ->
              (let (s1, p1) := spawn_internal s lo hi (i + off) in chain_st s1 r (S i) off sink p1) = (s', p) ->
              Core s' X /\ den s' p (chain V r (S i) off (Leaf dv) (Nd (i + off) dl dh)) /\ grows s s' /\
              (forall L, zeros s L -> zeros s' (p :: L)) /\ ((p = proc /\ s' = s) \/ (pos s' sink /\ pos s' proc))).
    { intros lo hi dl dh Dl Dh Wn LH. destruct (spawn_internal s lo hi (i + off)) as [s1 p1] eqn:E1. intros E2.
      destruct (spawn_internal_core _ _ _ _ _ _ _ _ _ C Dl Dh Wn E1) as [C1 [D1 [G1 [Z1 [Pl Ph]]]]].
      assert (SX1 := grows_sext _ _ G1).
      destruct (IH s1 X (S i) off sink p1 (Nd (i + off) dl dh) s' p C1) as [C2 [D2 [G2 [Z2 K2]]]]; auto.
      { eapply den_sext; eauto. } { simpl. lia. } { discriminate. }
      split; auto. split; auto. split; [eapply grows_trans; eauto|].
      assert (PS : pos s' sink /\ pos s' proc).
      { assert (pos s1 sink /\ pos s1 proc) as [A B] by (destruct LH as [[-> ->]|[-> ->]]; auto).
        split; (eapply pos_grows; [exact G2| |auto]); eapply den_in; eapply den_sext; eauto. }
      split; [|right; exact PS].
      intros L Z. destruct K2 as [[-> ->]|[_ P1]].
      - apply Z1. exact Z.
      - apply zeros_drop with p1; auto. eapply zeros_incl; [apply Z2, Z1, Z|]. intros q; simpl; tauto. }
    destruct t.
    + apply (STEP proc sink dproc (Leaf dv)); auto. simpl. repeat split; auto.
    + apply (STEP sink proc (Leaf dv) dproc); auto. simpl. repeat split; auto.
    + intros E. apply (IH s X (S i) off sink proc dproc s' p); auto. eapply top_lt_weaken; eauto. simpl. lia.
Qed.

Lemma is_leaf_st_true s i v : is_leaf_st V V_eq_dec s i v = true -> exists c, nlookup s i = Some (mkn (SLeaf v) c).
Proof.
  unfold is_leaf_st. destruct (nlookup s i) as [[[u|lo hi x] c]|]; simpl; try discriminate.
  destruct (V_eq_dec u v); [subst; eauto|discriminate].
Qed.
Lemma is_leaf_st_den s i v d : den s i d -> is_leaf_st V V_eq_dec s i v = is_leaf_val V V_eq_dec d v.
Proof.
  intros D. unfold is_leaf_st. inversion D; subst; rewrite H; simpl; auto.
Qed.

Lemma construct_st_core s X asgn nd dv off dnode s' r :
  Core s X -> den s nd dnode -> wf dnode -> top_lt dnode off -> construct_st s asgn nd dv off = (s', r) ->
  Core s' (r :: X) /\ den s' r (construct_from asgn dnode dv off) /\
  handles V s' = handles V s /\ (forall L, zeros s (nd :: L) -> zeros s' L).
Proof.
  intros C D W T. unfold MtbddStoreDefs.construct_st, MtbddDefs.construct_from.
  rewrite (is_leaf_st_den s nd dv dnode D). destruct (is_leaf_val V V_eq_dec dnode dv) eqn:IL.
  - intros [= <- <-]. assert (N := den_in _ _ _ D). split; [apply inc_core; auto|].
    assert (G := inc_grows s nd). split; [eapply den_sext; [apply grows_sext; exact G|exact D]|].
    split; [reflexivity|].
    intros L Z. apply zeros_drop with nd; [apply inc_zeros; auto|apply inc_pos].
  - apply is_leaf_val_false in IL.
    destruct (spawn_leaf s dv) as [s1 sink] eqn:E1. destruct (chain_st s1 asgn 0 off sink nd) as [s2 proc] eqn:E2.
    destruct (spawn_leaf_core _ _ _ _ _ C E1) as [C1 [D1 [G1 Z1]]].
    assert (Dn1 : den s1 nd dnode) by (eapply den_sext; [apply grows_sext; exact G1|exact D]).
    destruct (chain_core dv asgn s1 X 0 off sink nd dnode s2 proc C1 D1 Dn1 W T IL E2) as [C2 [D2 [G2 [Z2 K2]]]].
    assert (G12 : grows s s2) by (eapply grows_trans; eauto).
    assert (Ds2 : den s2 sink (Leaf dv)) by (eapply den_sext; [apply grows_sext; exact G2|exact D1]).
    assert (Dn2 : den s2 nd dnode) by (eapply den_sext; [apply grows_sext; exact G2|exact Dn1]).
    assert (Nsink : nd <> sink).
    { intros ->. apply IL. eapply den_fun; eauto. }
    set (s3 := if proc =? nd then (if rc_of V s2 sink =? 0 then dispose_leaf s2 sink dv else s2) else s2).
    assert (S3 : Core s3 X /\ den s3 proc (chain V asgn 0 off (Leaf dv) dnode) /\ handles V s3 = handles V s /\
                 (forall L, zeros s (nd :: L) -> zeros s3 (proc :: L))).
    { assert (KEEP : Core s2 X /\ den s2 proc (chain V asgn 0 off (Leaf dv) dnode) /\ handles V s2 = handles V s /\
                     ((rc_of V s2 sink =? 0) = false \/ proc <> nd -> forall L, zeros s (nd :: L) -> zeros s2 (proc :: L))).
      { split; auto. split; auto. split; [destruct G12; auto|].
        intros Q L Z. assert (Z' : zeros s2 (proc :: sink :: nd :: L)) by (apply Z2, Z1, Z).
        assert (PS : pos s2 sink).
        { destruct K2 as [[-> ->]|[PS _]]; auto. destruct Q as [Q|Q]; [|congruence].
          intros n En. unfold rc_of in Q. rewrite En in Q. apply Nat.eqb_neq in Q. lia. }
        destruct K2 as [[-> ->]|[_ PN]].
        - apply zeros_drop with sink; [|exact PS]. eapply zeros_incl; [exact Z'|]. intros q; simpl; tauto.
        - apply zeros_drop with nd; auto. apply zeros_drop with sink; auto.
          eapply zeros_incl; [exact Z'|]. intros q; simpl; tauto. }
      unfold s3. destruct (Nat.eqb_spec proc nd) as [EP|NP].
      - destruct (rc_of V s2 sink =? 0) eqn:RZ.
        + apply Nat.eqb_eq in RZ. inversion Ds2 as [q v c Es|]; subst q v.
          assert (c = 0) by (unfold rc_of in RZ; rewrite Es in RZ; exact RZ). subst c.
          assert (C3 := dispose_leaf_core s2 X sink dv 0 C2 Es eq_refl).
          assert (L3 := nlookup_dispose_leaf s2 sink dv).
          assert (SH : shrinks s2 (dispose_leaf s2 sink dv) [sink]).
          { apply shrinks_remove; [congruence|exact L3|reflexivity]. }
          assert (NPs : proc <> sink) by congruence.
          split; auto. split.
          { assert (Ij : nlookup (dispose_leaf s2 sink dv) proc <> None).
            { rewrite L3. destruct (Nat.eq_dec sink proc); [congruence|]. eapply den_in; eauto. }
            destruct (nlookup (dispose_leaf s2 sink dv) proc) as [nj|] eqn:Ej; [|congruence].
            destruct (c_den _ _ C3 proc nj Ej) as [d' [Dd' _]].
            replace (chain V asgn 0 off (Leaf dv) dnode) with d'; auto. eapply den_fun; [|exact D2].
            eapply den_sext; [eapply shrinks_sext; eauto|auto]. }
          split; [destruct G12; auto|].
          intros L Z j n. rewrite L3. destruct (Nat.eq_dec sink j); [discriminate|]. intros Ej Rj.
          assert (Z' : zeros s2 (proc :: sink :: nd :: L)) by (apply Z2, Z1, Z).
          destruct (Z' j n Ej Rj) as [Q|[Q|[Q|H]]]; simpl; auto; [congruence|]. left. congruence.
        + destruct KEEP as [A [B [Cc Dd]]]. split; [exact A|]. split; [exact B|]. split; [exact Cc|]. apply Dd; auto.
      - destruct KEEP as [A [B [Cc Dd]]]. split; [exact A|]. split; [exact B|]. split; [exact Cc|]. apply Dd; auto. }
    intros [= <- <-]. destruct S3 as [C3 [D3 [H3 Z3]]].
    assert (N := den_in _ _ _ D3). split; [apply inc_core; auto|].
    assert (G := inc_grows s3 proc). split; [eapply den_sext; [apply grows_sext; exact G|exact D3]|].
    split; [destruct G; congruence|].
    intros L Z. apply zeros_drop with proc; [apply inc_zeros; auto|apply inc_pos].
Qed.

(* ---- the invariant and the steps ---------------------------------------------------------------- *)
(* counters = number of referrers, tables inverse to the heap, no dangling reference, every node
   denotes a well-formed diagram, every object's root denotes its ghost, and every node is referenced *)
Definition Inv (s : store) : Prop := Core s [] /\ zeros s [].

Definition live (s : store) (h : nat) : Prop := hlookup s h <> None.
Definition valid_op (s : store) (o : op V) : Prop :=
  match o with
  | OConstruct _ h _ _ _ | OLeaf _ h _ => hlookup s h = None
  | OCopy _ h g => hlookup s h = None /\ live s g
  | OAssign _ h g => live s h /\ live s g
  | OApply1 _ h _ a => hlookup s h = None /\ live s a
  | OApply2 _ h _ a b => hlookup s h = None /\ live s a /\ live s b
  | OApply3 _ h _ a b c => hlookup s h = None /\ live s a /\ live s b /\ live s c
  | OExtend _ h _ off a => hlookup s h = None /\ exists ha, hlookup s a = Some ha /\ top_lt (ghost V ha) off
  | OPrefix _ h _ _ a => hlookup s h = None /\ live s a
  | ODestroy _ h => live s h
  end.

Lemma ghost_wf s X h hd : Core s X -> hlookup s h = Some hd -> wf (ghost V hd).
Proof.
  intros C E. assert (D := c_hden _ _ C h hd E). assert (N := den_in _ _ _ D).
  destruct (nlookup s (root V hd)) as [n|] eqn:En; [|congruence].
  destruct (c_den _ _ C _ n En) as [d [Dd W]]. replace (ghost V hd) with d; auto. eapply den_fun; eauto.
Qed.
Lemma zeros_handles s hs L : zeros s L <-> zeros (mks (nodes V s) (ltab V s) (itab V s) (next V s) hs) L.
Proof. split; intros Z i n E R; eapply Z; eauto. Qed.
Lemma hlookup_add s h hd h' : hlookup (add_handle s h hd) h' = if Nat.eq_dec h' h then Some hd else hlookup s h'.
Proof. reflexivity. Qed.
Lemma hlookup_del s h h' : hlookup (del_handle s h) h' = if Nat.eq_dec h h' then None else hlookup s h'.
Proof.
  unfold MtbddStoreDefs.hlookup, MtbddStoreDefs.del_handle. simpl. destruct (Nat.eq_dec h h').
  - subst. apply lookup_remove_eq. - apply lookup_remove_neq. auto.
Qed.
Lemma hlookup_handles s s' h : handles V s' = handles V s -> hlookup s' h = hlookup s h.
Proof. unfold MtbddStoreDefs.hlookup. intros ->. reflexivity. Qed.

Definition frame_ok (s s' : store) (h : nat) : Prop := forall h', h' <> h -> hlookup s' h' = hlookup s h'.
Definition log_ok (s s' : store) (log : list id) : Prop :=
  NoDup log /\ forall j, In j log -> nlookup s j <> None /\ nlookup s' j = None.

Lemma finish_new s s1 h r dv g :
  Core s1 [r] -> zeros s1 [] -> handles V s1 = handles V s -> hlookup s h = None -> den s1 r g ->
  Inv (add_handle s1 h (mkh r dv g)) /\ frame_ok s (add_handle s1 h (mkh r dv g)) h /\
  hlookup (add_handle s1 h (mkh r dv g)) h = Some (mkh r dv g).
Proof.
  intros C Z H F D. split; [split|split].
  - apply add_handle_core; auto. rewrite (hlookup_handles s s1); auto.
  - apply zeros_handles. exact Z.
  - intros h' N. rewrite hlookup_add. destruct (Nat.eq_dec h' h); [congruence|]. apply hlookup_handles. exact H.
  - rewrite hlookup_add. destruct (Nat.eq_dec h h); congruence.
Qed.

Lemma make_ok s h d dv : Inv s -> wf d -> hlookup s h = None ->
  Inv (make s h d dv) /\ frame_ok s (make s h d dv) h /\
  exists r, hlookup (make s h d dv) h = Some (mkh r dv d).
Proof.
  intros [C Z] W F. unfold MtbddStoreDefs.make. destruct (intern s d) as [s1 i] eqn:E.
  destruct (intern_core d s [] s1 i C W E) as [C1 [D1 [G1 Z1]]].
  assert (N := den_in _ _ _ D1).
  assert (C2 := inc_core s1 [] i C1 N).
  assert (D2 : den (inc_rc s1 i) i d) by (eapply den_sext; [apply grows_sext, inc_grows|exact D1]).
  assert (Z2 : zeros (inc_rc s1 i) []) by (apply zeros_drop with i; [apply inc_zeros, Z1, Z|apply inc_pos]).
  assert (H2 : handles V (inc_rc s1 i) = handles V s) by (destruct G1 as [_ G1]; exact G1).
  destruct (finish_new s (inc_rc s1 i) h i dv d C2 Z2 H2 F D2) as [A [B Cc]]. split; auto. split; auto. eauto.
Qed.

Lemma shrinks_zeros s s' log : shrinks s s' log -> zeros s [] -> zeros s' [].
Proof.
  intros S Z j n' E' R. destruct (sh_sub _ _ _ S j n' E') as [n [E [_ [Q|Q]]]]; [|lia].
  apply (Z j n E). congruence.
Qed.

Lemma release_handle s h hh : Inv s -> hlookup s h = Some hh ->
  exists s1 log, release (ghost V hh) (del_handle s h) (root V hh) = Some (s1, log) /\
    Core s1 [] /\ zeros s1 [] /\ handles V s1 = handles V (del_handle s h) /\
    NoDup log /\ (forall j, In j log -> nlookup s j <> None /\ nlookup s1 j = None).
Proof.
  intros [C Z] E.
  assert (C1 := del_handle_core s [] h hh C E).
  assert (D1 : den (del_handle s h) (root V hh) (ghost V hh)) by (apply den_handles; eapply (c_hden _ _ C); exact E).
  destruct (release_core (ghost V hh) (del_handle s h) [] (root V hh) C1 D1) as [s1 [log [R [C2 S2]]]].
  exists s1, log. split; auto. split; auto.
  split; [eapply shrinks_zeros; eauto; apply zeros_handles; exact Z|].
  split; [apply (sh_handles _ _ _ S2)|]. split; [apply (sh_nodup _ _ _ S2)|].
  intros j Hj. apply (sh_log _ _ _ S2 j Hj).
Qed.

Theorem step_ok s o : Inv s -> valid_op s o ->
  exists s' log, step s o = Some (s', log) /\ Inv s' /\ frame_ok s s' (target V o) /\ log_ok s s' log.
Proof.
  intros I Vd. assert (I' := I). destruct I as [C Z].
  assert (NOLOG : forall s', log_ok s s' []) by (intros s'; split; [constructor|intros j []]).
  destruct o as [h asgn v dv|h v|h g|h g|h f a|h f a b|h f a b c|h asgn off a|h asgn off a|h]; simpl in *.
  - (* construct *)
    rewrite Vd. simpl. destruct (spawn_leaf s v) as [s1 nd] eqn:E1.
    destruct (spawn_leaf_core _ _ _ _ _ C E1) as [C1 [D1 [G1 Z1]]].
    destruct (construct_st s1 asgn nd dv 0) as [s2 r] eqn:E2.
    destruct (construct_st_core s1 [] asgn nd dv 0 (Leaf v) s2 r C1 D1 I I E2) as [C2 [D2 [H2 Z2]]].
    assert (H2' : handles V s2 = handles V s) by (destruct G1 as [_ G1]; congruence).
    destruct (finish_new s s2 h r dv (construct V V_eq_dec asgn v dv) C2 (Z2 [] (Z1 [] Z)) H2' Vd D2) as [A [B _]].
    eauto 10.
  - (* constant *)
    rewrite Vd. simpl. destruct (spawn_leaf s v) as [s1 r] eqn:E1.
    destruct (spawn_leaf_core _ _ _ _ _ C E1) as [C1 [D1 [G1 Z1]]].
    assert (N := den_in _ _ _ D1).
    assert (D2 : den (inc_rc s1 r) r (Leaf v)) by (eapply den_sext; [apply grows_sext, inc_grows|exact D1]).
    assert (Z2 : zeros (inc_rc s1 r) []) by (apply zeros_drop with r; [apply inc_zeros, Z1, Z|apply inc_pos]).
    assert (H2 : handles V (inc_rc s1 r) = handles V s) by (destruct G1 as [_ G1]; exact G1).
    destruct (finish_new s (inc_rc s1 r) h r v (Leaf v) (inc_core s1 [] r C1 N) Z2 H2 Vd D2) as [A [B _]].
    eauto 10.
  - (* copy *)
    destruct Vd as [F L]. rewrite F. simpl. destruct (hlookup s g) as [hg|] eqn:Eg; [|exfalso; apply L; auto].
    assert (D := c_hden _ _ C g hg Eg). assert (N := den_in _ _ _ D).
    assert (D2 : den (inc_rc s (root V hg)) (root V hg) (ghost V hg)) by (eapply den_sext; [apply grows_sext, inc_grows|exact D]).
    destruct (finish_new s (inc_rc s (root V hg)) h (root V hg) (dflt V hg) (ghost V hg) (inc_core s [] _ C N)
                (inc_zeros s [] _ Z) eq_refl F D2) as [A [B _]].
    destruct hg as [rg dg gg]. simpl in *. eauto 10.
  - (* assignment *)
    destruct Vd as [Lh Lg]. destruct (hlookup s h) as [hh|] eqn:Eh; [|exfalso; apply Lh; auto].
    destruct (hlookup s g) as [hg|] eqn:Eg; [|exfalso; apply Lg; auto].
    destruct (Nat.eqb_spec h g) as [->|Nhg].
    + exists s, []. split; auto. split; auto. split; [intros h' _; reflexivity|apply NOLOG].
    + destruct (release_handle s h hh I' Eh) as [s1 [log [R [C1 [Z1 [H1 [ND LG]]]]]]]. rewrite R.
      assert (Eg1 : hlookup s1 g = Some hg).
      { rewrite (hlookup_handles (del_handle s h) s1 g H1), hlookup_del. destruct (Nat.eq_dec h g); congruence. }
      assert (Fh1 : hlookup s1 h = None).
      { rewrite (hlookup_handles (del_handle s h) s1 h H1), hlookup_del. destruct (Nat.eq_dec h h); congruence. }
      assert (D := c_hden _ _ C1 g hg Eg1). assert (N := den_in _ _ _ D).
      assert (D2 : den (inc_rc s1 (root V hg)) (root V hg) (ghost V hg)) by (eapply den_sext; [apply grows_sext, inc_grows|exact D]).
      destruct (finish_new s1 (inc_rc s1 (root V hg)) h (root V hg) (dflt V hg) (ghost V hg) (inc_core s1 [] _ C1 N)
                  (inc_zeros s1 [] _ Z1) eq_refl Fh1 D2) as [A [B _]].
      destruct hg as [rg dg gg]. simpl in *.
      eexists _, log. split; [reflexivity|]. split; [exact A|]. split.
      * intros h' Nh'. rewrite (B h' Nh'), (hlookup_handles (del_handle s h) s1 h' H1), hlookup_del. destruct (Nat.eq_dec h h'); congruence.
      * split; auto. intros j Hj. destruct (LG j Hj) as [P Q]. split; auto.
        unfold MtbddStoreDefs.add_handle, MtbddStoreDefs.inc_rc, MtbddStoreDefs.nlookup. simpl.
        destruct (Nat.eq_dec rg j).
        -- subst. rewrite lookup_update_eq. unfold MtbddStoreDefs.nlookup in Q. rewrite Q. reflexivity.
        -- rewrite lookup_update_neq by auto. exact Q.
  - (* apply1 *)
    destruct Vd as [F L]. rewrite F. simpl. destruct (hlookup s a) as [ha|] eqn:Ea; [|exfalso; apply L; auto].
    destruct (make_ok s h (apply1 V V_eq_dec f (ghost V ha)) (f (dflt V ha)) I') as [A [B _]]; auto.
    { apply apply1_wf. eapply ghost_wf; eauto. }
    eauto 10.
  - (* apply2 *)
    destruct Vd as [F [La Lb]]. rewrite F. simpl. destruct (hlookup s a) as [ha|] eqn:Ea; [|exfalso; apply La; auto].
    destruct (hlookup s b) as [hb|] eqn:Eb; [|exfalso; apply Lb; auto].
    destruct (make_ok s h (apply2 V V_eq_dec f (ghost V ha) (ghost V hb)) (f (dflt V ha) (dflt V hb)) I') as [A [B _]]; auto.
    { apply apply2_wf; eapply ghost_wf; eauto. }
    eauto 10.
  - (* apply3 *)
    destruct Vd as [F [La [Lb Lc]]]. rewrite F. simpl. destruct (hlookup s a) as [ha|] eqn:Ea; [|exfalso; apply La; auto].
    destruct (hlookup s b) as [hb|] eqn:Eb; [|exfalso; apply Lb; auto].
    destruct (hlookup s c) as [hc|] eqn:Ec; [|exfalso; apply Lc; auto].
    destruct (make_ok s h (apply3 V V_eq_dec f (ghost V ha) (ghost V hb) (ghost V hc)) (f (dflt V ha) (dflt V hb) (dflt V hc)) I') as [A [B _]]; auto.
    { apply apply3_wf; eapply ghost_wf; eauto. }
    eauto 10.
  - (* ExtendWith *)
    destruct Vd as [F [ha [Ea T]]]. rewrite F, Ea. simpl.
    destruct (construct_st s asgn (root V ha) (dflt V ha) off) as [s1 r] eqn:E1.
    assert (D := c_hden _ _ C a ha Ea).
    destruct (construct_st_core s [] asgn (root V ha) (dflt V ha) off (ghost V ha) s1 r C D (ghost_wf _ _ _ _ C Ea) T E1) as [C1 [D1 [H1 Z1]]].
    assert (Z0 : zeros s [root V ha]) by (eapply zeros_incl; [exact Z|intros q []]).
    destruct (finish_new s s1 h r (dflt V ha) (extend V V_eq_dec asgn off (ghost V ha) (dflt V ha)) C1 (Z1 [] Z0) H1 F D1) as [A [B _]].
    eauto 10.
  - (* GetMtbddForPrefix *)
    destruct Vd as [F L]. rewrite F. simpl. destruct (hlookup s a) as [ha|] eqn:Ea; [|exfalso; apply L; auto].
    destruct (make_ok s h (prefix V asgn off (ghost V ha)) (dflt V ha) I') as [A [B _]]; auto.
    { apply prefix_wf. eapply ghost_wf; eauto. }
    eauto 10.
  - (* destruction *)
    destruct (hlookup s h) as [hh|] eqn:Eh; [|exfalso; apply Vd; auto].
    destruct (release_handle s h hh I' Eh) as [s1 [log [R [C1 [Z1 [H1 [ND LG]]]]]]]. rewrite R.
    exists s1, log. split; auto. split; [split; auto|]. split; [|split; auto].
    intros h' Nh'. rewrite (hlookup_handles (del_handle s h) s1 h' H1), hlookup_del. destruct (Nat.eq_dec h h'); congruence.
Qed.

(* ---- consequences ------------------------------------------------------------------------------- *)
Notation ev := (ev V).
Notation run := (run V V_eq_dec).

(* hash-consing: a diagram has at most one node *)
Lemma den_inj s X d : Core s X -> forall i j, den s i d -> den s j d -> i = j.
Proof.
  intros C. induction d as [v|x l IHl h IHh]; intros i j Di Dj.
  - inversion Di as [i' v' ci Ei|]; subst. inversion Dj as [j' v'' cj Ej|]; subst.
    assert (A : lookup V_eq_dec (ltab V s) v = Some i) by (apply (c_ltab _ _ C); eauto).
    assert (B : lookup V_eq_dec (ltab V s) v = Some j) by (apply (c_ltab _ _ C); eauto). congruence.
  - inversion Di as [|i' lo hi x' ci l' h' Ei Dl Dh]; subst. inversion Dj as [|j' lo2 hi2 x'' cj l'' h'' Ej Dl2 Dh2]; subst.
    assert (lo = lo2) by (eapply IHl; eauto). assert (hi = hi2) by (eapply IHh; eauto). subst.
    assert (A : lookup ikey_eq_dec (itab V s) (lo2, hi2, x) = Some i) by (apply (c_itab _ _ C); eauto).
    assert (B : lookup ikey_eq_dec (itab V s) (lo2, hi2, x) = Some j) by (apply (c_itab _ _ C); eauto). congruence.
Qed.

(* operator== (equality of roots) holds exactly when the two objects denote the same function *)
Theorem root_eq_iff_same_function s X h1 h2 hd1 hd2 :
  Core s X -> hlookup s h1 = Some hd1 -> hlookup s h2 = Some hd2 ->
  (root V hd1 = root V hd2 <-> forall sg, ev (ghost V hd1) sg = ev (ghost V hd2) sg).
Proof.
  intros C E1 E2. assert (D1 := c_hden _ _ C h1 hd1 E1). assert (D2 := c_hden _ _ C h2 hd2 E2). split.
  - intros Q sg. rewrite Q in D1. rewrite (den_fun _ _ _ D1 _ D2). reflexivity.
  - intros Q. assert (G : ghost V hd1 = ghost V hd2).
    { apply canonical; auto; eapply ghost_wf; eauto. }
    rewrite G in D1. eapply den_inj; eauto.
Qed.

Lemma step_det s o s' log : Inv s -> valid_op s o -> step s o = Some (s', log) ->
  Inv s' /\ frame_ok s s' (target V o) /\ log_ok s s' log.
Proof.
  intros I Vd E. destruct (step_ok s o I Vd) as [s2 [l2 [E2 R]]]. rewrite E in E2. injection E2 as <- <-. exact R.
Qed.

(* a step never changes what another live object denotes *)
Theorem frame s o s' log h hd : Inv s -> valid_op s o -> step s o = Some (s', log) ->
  h <> target V o -> hlookup s h = Some hd ->
  hlookup s' h = Some hd /\ forall d, den s (root V hd) d -> den s' (root V hd) d.
Proof.
  intros I Vd E N Eh. destruct (step_det s o s' log I Vd E) as [[C' _] [F _]].
  assert (Eh' : hlookup s' h = Some hd) by (rewrite (F h N); exact Eh).
  split; auto. intros d D. destruct I as [C _].
  rewrite (den_fun _ _ _ D _ (c_hden _ _ C h hd Eh)). apply (c_hden _ _ C' h hd Eh').
Qed.

Lemma refs_live s X j : Core s X -> In j (reflist s) -> nlookup s j <> None.
Proof.
  intros C H. apply in_app_or in H as [H|H].
  - unfold hrefs in H. apply in_map_iff in H as [[h hd] [<- H]]. simpl.
    assert (E : hlookup s h = Some hd) by (apply in_lookup; [apply (c_nd_handles _ _ C)|exact H]).
    apply (den_in _ _ _ (c_hden _ _ C h hd E)).
  - apply in_nrefs in H as [i [n [H1 H2]]].
    assert (E : nlookup s i = Some n) by (apply in_lookup; [apply (c_nd_nodes _ _ C)|exact H1]).
    destruct (c_den _ _ C i n E) as [d [D _]]. inversion D as [i' v c E'|i' lo hi x c l h E' Dl Dh]; subst; rewrite E in E'; injection E' as ->; simpl in H2.
    + contradiction.
    + destruct H2 as [<-|[<-|[]]]; eapply den_in; eauto.
Qed.

(* no fault, and: a step deletes each node at most once; a deleted node was in the heap, is gone
   afterwards, and nothing that is alive afterwards refers to it *)
Theorem no_double_release s o s' log : Inv s -> valid_op s o -> step s o = Some (s', log) ->
  NoDup log /\ forall j, In j log -> nlookup s j <> None /\ nlookup s' j = None /\ ~ In j (reflist s').
Proof.
  intros I Vd E. destruct (step_det s o s' log I Vd E) as [[C' _] [_ [ND L]]]. split; auto.
  intros j Hj. destruct (L j Hj) as [A B]. split; auto. split; auto. intros H. apply (refs_live _ _ _ C') in H. congruence.
Qed.

(* histories *)
Fixpoint valid_run (s : store) (os : list (op V)) : Prop :=
  match os with
  | [] => True
  | o :: r => valid_op s o /\ forall s1 l1, step s o = Some (s1, l1) -> valid_run s1 r
  end.
Theorem run_ok os : forall s, Inv s -> valid_run s os ->
  exists s' log, run s os = Some (s', log) /\ Inv s' /\
    forall h, (forall o, In o os -> target V o <> h) -> hlookup s' h = hlookup s h.
Proof.
  induction os as [|o r IH]; intros s I Vr; simpl.
  - exists s, []. auto.
  - destruct Vr as [Vo Vr]. destruct (step_ok s o I Vo) as [s1 [l1 [E1 [I1 [F1 _]]]]]. rewrite E1.
    destruct (IH s1 I1 (Vr s1 l1 E1)) as [s2 [l2 [E2 [I2 F2]]]]. rewrite E2.
    exists s2, (l1 ++ l2). split; auto. split; auto. intros h Hh.
    rewrite F2 by (intros o' Ho'; apply Hh; simpl; auto). apply F1. intros Q. apply (Hh o); simpl; auto.
Qed.

(* ---- the table sizes are a function of the set of live diagrams ------------------------------------ *)
Fixpoint subd (d' d : dd) : Prop :=
  d' = d \/ match d with Leaf _ => False | Nd _ l h => subd d' l \/ subd d' h end.
Lemma subd_refl d : subd d d.
Proof. destruct d; simpl; auto. Qed.
Lemma subd_trans a b c : subd a b -> subd b c -> subd a c.
Proof.
  revert a b. induction c as [v|x l IHl h IHh]; intros a b A B; simpl in B.
  - destruct B as [->|[]]. exact A.
  - destruct B as [->|[B|B]]; [exact A| |]; simpl; right; [left|right]; eauto.
Qed.
Lemma den_sub s d : forall i d', den s i d -> subd d' d -> exists j, den s j d'.
Proof.
  induction d as [v|x l IHl h IHh]; intros i d' D S; simpl in S.
  - destruct S as [->|[]]. eauto.
  - destruct S as [->|S]; [eauto|]. inversion D; subst. destruct S; eauto.
Qed.
Definition live_dd (s : store) (d : dd) : Prop := exists h hd, hlookup s h = Some hd /\ ghost V hd = d.

(* without garbage every node is a sub-diagram of a live object's diagram *)
Lemma node_reach s : Inv s -> forall k i n, next V s - i <= k -> nlookup s i = Some n ->
  exists d g, den s i d /\ live_dd s g /\ subd d g.
Proof.
  intros [C Z]. induction k as [|k IH]; intros i n Hk E.
  - apply (c_fresh _ _ C) in E. lia.
  - destruct (c_den _ _ C i n E) as [d [D _]].
    assert (P : In i (reflist s)).
    { assert (R := c_cnt _ _ C i n E). rewrite app_nil_r in R. apply cnt_pos. rewrite <- R.
      destruct (rc V n) eqn:Q; [|lia]. destruct (Z i n E Q). }
    apply in_app_or in P as [P|P].
    + unfold hrefs in P. apply in_map_iff in P as [[h hd] [Q P]]. simpl in Q.
      assert (Eh : hlookup s h = Some hd) by (apply in_lookup; [apply (c_nd_handles _ _ C)|exact P]).
      exists d, (ghost V hd). split; auto. split; [exists h, hd; auto|].
      assert (Dh := c_hden _ _ C h hd Eh). rewrite Q in Dh. rewrite (den_fun _ _ _ D _ Dh). apply subd_refl.
    + apply in_nrefs in P as [j [m [P1 P2]]].
      assert (Ej : nlookup s j = Some m) by (apply in_lookup; [apply (c_nd_nodes _ _ C)|exact P1]).
      destruct m as [[v|lo hi x] c]; simpl in P2; [contradiction|].
      destruct (c_order _ _ C j lo hi x c Ej) as [Llo Lhi].
      assert (Lj := c_fresh _ _ C j _ Ej).
      destruct (IH j _ ltac:(destruct P2 as [<-|[<-|[]]]; lia) Ej) as [dj [g [Dj [Lg Sg]]]].
      exists d, g. split; auto. split; auto. eapply subd_trans; [|exact Sg].
      inversion Dj as [j' v' c' Ej'|j' lo' hi' x' c' l h Ej' Dl Dh]; subst; rewrite Ej in Ej'; [discriminate|]. injection Ej' as <- <- <- <-.
      simpl. right. destruct P2 as [<-|[<-|[]]]; [left|right].
      * rewrite (den_fun _ _ _ D _ Dl). apply subd_refl.
      * rewrite (den_fun _ _ _ D _ Dh). apply subd_refl.
Qed.
Lemma denoted_same s0 s1 : Inv s0 -> Inv s1 -> (forall d, live_dd s0 d -> live_dd s1 d) ->
  forall i d, den s0 i d -> exists j, den s1 j d.
Proof.
  intros I0 I1 L i d D. assert (N := den_in _ _ _ D). destruct (nlookup s0 i) as [n|] eqn:E; [|congruence].
  destruct (node_reach s0 I0 (next V s0 - i) i n (le_n _) E) as [d' [g [D' [Lg Sg]]]].
  rewrite <- (den_fun _ _ _ D _ D') in Sg. destruct (L g Lg) as [h [hd [Eh <-]]].
  destruct I1 as [C1 _]. eapply den_sub; [apply (c_hden _ _ C1 h hd Eh)|exact Sg].
Qed.

Lemma bij_length {A B} (R : A -> B -> Prop) (l1 : list A) : forall (l2 : list B),
  NoDup l1 -> NoDup l2 ->
  (forall a, In a l1 -> exists b, In b l2 /\ R a b) ->
  (forall b, In b l2 -> exists a, In a l1 /\ R a b) ->
  (forall a a' b, In a l1 -> In a' l1 -> R a b -> R a' b -> a = a') ->
  (forall a b b', In b l2 -> In b' l2 -> R a b -> R a b' -> b = b') ->
  length l1 = length l2.
Proof.
  induction l1 as [|a r IH]; intros l2 N1 N2 T S Inj Fun.
  - destruct l2 as [|b r2]; auto. destruct (S b (or_introl eq_refl)) as [a [[] _]].
  - destruct (T a (or_introl eq_refl)) as [b [Hb Rab]].
    apply in_split in Hb as [u [w ->]]. rewrite app_length. simpl. rewrite <- plus_n_Sm. f_equal. rewrite <- app_length.
    inversion N1; subst. assert (N2' := NoDup_remove_1 _ _ _ N2). assert (Nb := NoDup_remove_2 _ _ _ N2).
    apply IH; auto.
    + intros a' Ha'. destruct (T a' (or_intror Ha')) as [b' [Hb' Rb']].
      exists b'. split; auto. apply in_app_or in Hb' as [Q|[Q|Q]]; [apply in_or_app; auto| |apply in_or_app; auto].
      subst b'. exfalso. assert (a = a') by (eapply (Inj a a' b); simpl; eauto). subst. contradiction.
    + intros b' Hb'. assert (Hb2 : In b' (u ++ b :: w)) by (apply in_app_or in Hb' as [Q|Q]; apply in_or_app; simpl; auto).
      destruct (S b' Hb2) as [a' [[Q|Q] Rb']]; [|eauto].
      subst a'. exfalso. assert (b = b') by (eapply (Fun a b b'); eauto; apply in_or_app; simpl; auto). subst. contradiction.
    + intros a1 a2 b0 H1' H2'. apply Inj; simpl; auto.
    + intros a0 b1 b2 H1' H2'. apply Fun.
      * apply in_app_or in H1' as [Q|Q]; apply in_or_app; simpl; auto.
      * apply in_app_or in H2' as [Q|Q]; apply in_or_app; simpl; auto.
Qed.
Lemma nodup_entries {K A} (m : list (K * A)) : NoDup (map fst m) -> NoDup m.
Proof. apply NoDup_map_inv. Qed.

Theorem sizes_determined s0 s1 : Inv s0 -> Inv s1 -> (forall d, live_dd s0 d <-> live_dd s1 d) ->
  leaf_size V s0 = leaf_size V s1 /\ int_size V s0 = int_size V s1.
Proof.
  intros I0 I1 L.
  assert (D01 := denoted_same s0 s1 I0 I1 (fun d => proj1 (L d))).
  assert (D10 := denoted_same s1 s0 I1 I0 (fun d => proj2 (L d))).
  destruct I0 as [C0 _]. destruct I1 as [C1 _].
  assert (LT : forall sa sb, Core sa [] -> Core sb [] -> (forall i d, den sa i d -> exists j, den sb j d) ->
               forall e, In e (ltab V sa) -> exists e', In e' (ltab V sb) /\ fst e = fst e').
  { intros sa sb Ca Cb Dab [v i] He. apply (in_lookup _ _ V_eq_dec) in He; [|apply (c_nd_ltab _ _ Ca)].
    apply (c_ltab _ _ Ca) in He as [c E]. destruct (Dab i (Leaf v) (den_leaf _ _ _ _ E)) as [j Dj].
    inversion Dj as [j' v' c' Ej|]; subst.
    exists (v, j). split; auto. apply lookup_in with (eqd := V_eq_dec). apply (c_ltab _ _ Cb). eauto. }
  assert (LI : forall sa sb, Core sa [] -> Core sb [] -> (forall i d, den sa i d -> exists j, den sb j d) ->
               forall e, In e (itab V sa) -> exists e', In e' (itab V sb) /\ exists d, den sa (snd e) d /\ den sb (snd e') d).
  { intros sa sb Ca Cb Dab [[[lo hi] x] i] He. apply (in_lookup _ _ ikey_eq_dec) in He; [|apply (c_nd_itab _ _ Ca)].
    apply (c_itab _ _ Ca) in He as [c E]. destruct (c_den _ _ Ca i _ E) as [d [Dd _]].
    destruct (Dab i d Dd) as [j Dj]. inversion Dd as [i' v' c' E'|i' lo' hi' x' c' l h E' Dl Dh]; subst; rewrite E in E'; [discriminate|].
    injection E' as <- <- <- <-. inversion Dj as [|j' lo2 hi2 x2 c2 l2 h2 Ej Dl2 Dh2]; subst.
    exists ((lo2, hi2, x), j). split; [|exists (Nd x l h); auto].
    apply lookup_in with (eqd := ikey_eq_dec). apply (c_itab _ _ Cb). eauto. }
  assert (KI : forall sa, Core sa [] -> forall e e', In e (itab V sa) -> In e' (itab V sa) -> snd e = snd e' -> e = e').
  { intros sa Ca [[[lo hi] x] i] [[[lo' hi'] x'] i'] He He' Q. simpl in Q. subst i'.
    apply (in_lookup _ _ ikey_eq_dec) in He; [|apply (c_nd_itab _ _ Ca)].
    apply (in_lookup _ _ ikey_eq_dec) in He'; [|apply (c_nd_itab _ _ Ca)].
    apply (c_itab _ _ Ca) in He as [c E]. apply (c_itab _ _ Ca) in He' as [c' E']. congruence. }
  split.
  - unfold leaf_size. apply (bij_length (fun e e' : V * id => fst e = fst e')).
    + apply nodup_entries, (c_nd_ltab _ _ C0).
    + apply nodup_entries, (c_nd_ltab _ _ C1).
    + apply LT; auto.
    + intros b Hb. destruct (LT s1 s0 C1 C0 D10 b Hb) as [a [Ha Q]]. eauto.
    + intros [v i] [v' i'] b Ha Ha' Q Q'. simpl in *. subst.
      apply (in_lookup _ _ V_eq_dec) in Ha; [|apply (c_nd_ltab _ _ C0)]. apply (in_lookup _ _ V_eq_dec) in Ha'; [|apply (c_nd_ltab _ _ C0)]. congruence.
    + intros a [v i] [v' i'] Hb Hb' Q Q'. simpl in *. subst.
      apply (in_lookup _ _ V_eq_dec) in Hb; [|apply (c_nd_ltab _ _ C1)]. apply (in_lookup _ _ V_eq_dec) in Hb'; [|apply (c_nd_ltab _ _ C1)]. congruence.
  - unfold int_size. apply (bij_length (fun e e' : ikey * id => exists d, den s0 (snd e) d /\ den s1 (snd e') d)).
    + apply nodup_entries, (c_nd_itab _ _ C0).
    + apply nodup_entries, (c_nd_itab _ _ C1).
    + apply LI; auto.
    + intros b Hb. destruct (LI s1 s0 C1 C0 D10 b Hb) as [a [Ha [d [P Q]]]]. eauto.
    + intros a a' b Ha Ha' [d [P Q]] [d' [P' Q']]. apply (KI s0 C0); auto.
      rewrite (den_fun _ _ _ Q _ Q') in P. exact (den_inj s0 [] d' C0 _ _ P P').
    + intros a b b' Hb Hb' [d [P Q]] [d' [P' Q']]. apply (KI s1 C1); auto.
      rewrite (den_fun _ _ _ P _ P') in Q. exact (den_inj s1 [] d' C1 _ _ Q Q').
Qed.

(* back to baseline: a history that only writes objects that did not exist at s0 and ends with exactly
   the objects of s0 alive leaves both unique tables at their s0 sizes *)
Theorem baseline s0 os s1 log : Inv s0 -> valid_run s0 os -> run s0 os = Some (s1, log) ->
  (forall o, In o os -> hlookup s0 (target V o) = None) ->
  (forall h, hlookup s1 h <> None -> hlookup s0 h <> None) ->
  leaf_size V s1 = leaf_size V s0 /\ int_size V s1 = int_size V s0.
Proof.
  intros I0 Vr E New Back. destruct (run_ok os s0 I0 Vr) as [s2 [l2 [E2 [I1 F]]]].
  rewrite E in E2. injection E2 as <- <-.
  assert (K : forall h, hlookup s0 h <> None -> hlookup s1 h = hlookup s0 h).
  { intros h Lh. apply F. intros o Ho Q. apply Lh. rewrite <- Q. apply New. exact Ho. }
  destruct (sizes_determined s0 s1 I0 I1) as [A B]; [|split; congruence].
  intros d. split; intros [h [hd [Eh G]]]; exists h, hd; split; auto.
  - rewrite K; congruence.
  - rewrite <- K; auto. apply Back. congruence.
Qed.

(* the invariant is satisfiable: the empty store (the state of a process before its first MTBDD) *)
Lemma inv_empty : Inv (empty_store V).
Proof.
  split.
  - constructor; simpl; try constructor; try (intros; discriminate).
    + intros [c H]. discriminate.
    + intros [c H]. discriminate.
    + intros i [].
  - intros i n H. discriminate.
Qed.

(* ---- addresses are never reused: a node deleted once stays dead ------------------------------------- *)
(* (purely structural facts about the step functions; no invariant is needed) *)
Definition fresh_ok (s s' : store) : Prop :=
  next V s <= next V s' /\ forall i, nlookup s' i <> None -> nlookup s i <> None \/ next V s <= i.
Lemma fresh_refl s : fresh_ok s s.
Proof. split; auto. Qed.
Lemma fresh_trans s1 s2 s3 : fresh_ok s1 s2 -> fresh_ok s2 s3 -> fresh_ok s1 s3.
Proof.
  intros [A1 A2] [B1 B2]. split; [lia|]. intros i H. destruct (B2 i H) as [H2|H2]; [|right; lia].
  destruct (A2 i H2); auto.
Qed.
Lemma fresh_upd s i f : fresh_ok s (set_nodes V s (update Nat.eq_dec (nodes V s) i f)).
Proof.
  split; auto. intros j H. left. destruct (Nat.eq_dec i j).
  - subst. rewrite nlookup_upd_eq in H. destruct (nlookup s j); simpl in *; congruence.
  - rewrite nlookup_upd_neq in H; auto.
Qed.
Lemma fresh_handles s hs : fresh_ok s (mks (nodes V s) (ltab V s) (itab V s) (next V s) hs).
Proof. split; auto. Qed.
Lemma fresh_remove s i lt it : fresh_ok s (mks (remove_key Nat.eq_dec (nodes V s) i) lt it (next V s) (handles V s)).
Proof.
  split; auto. intros j H. left. unfold MtbddStoreDefs.nlookup in *. simpl in H. destruct (Nat.eq_dec i j).
  - subst. rewrite lookup_remove_eq in H. congruence.
  - rewrite lookup_remove_neq in H; auto.
Qed.
Lemma fresh_add s n lt it : fresh_ok s (mks ((next V s, n) :: nodes V s) lt it (S (next V s)) (handles V s)).
Proof.
  split; simpl; auto. intros j. unfold MtbddStoreDefs.nlookup. simpl. destruct (Nat.eq_dec j (next V s)); [subst; auto|auto].
Qed.
Lemma spawn_leaf_fresh s v : fresh_ok s (fst (spawn_leaf s v)).
Proof. unfold MtbddStoreDefs.spawn_leaf. destruct (lookup V_eq_dec (ltab V s) v); simpl; [apply fresh_refl|apply fresh_add]. Qed.
Lemma spawn_internal_fresh s lo hi x : fresh_ok s (fst (spawn_internal s lo hi x)).
Proof.
  unfold MtbddStoreDefs.spawn_internal. destruct (lookup ikey_eq_dec (itab V s) (lo, hi, x)); simpl; [apply fresh_refl|].
  eapply fresh_trans; [apply fresh_add|]. eapply fresh_trans; apply fresh_upd.
Qed.
Lemma intern_fresh d : forall s, fresh_ok s (fst (intern s d)).
Proof.
  induction d as [v|x l IHl h IHh]; intros s; simpl; [apply spawn_leaf_fresh|].
  specialize (IHl s). destruct (intern s l) as [s1 il]. specialize (IHh s1). destruct (intern s1 h) as [s2 ih].
  simpl in *. eapply fresh_trans; [exact IHl|]. eapply fresh_trans; [exact IHh|]. apply spawn_internal_fresh.
Qed.
Lemma release_fresh g : forall s i s' log, release g s i = Some (s', log) -> fresh_ok s s'.
Proof.
  induction g as [v0|x0 gl IHl gh IHh]; intros s i s' log; simpl;
    destruct (nlookup s i) as [[sh c]|]; try discriminate; simpl; destruct c as [|[|c]]; try discriminate.
  - destruct sh; [|discriminate]. intros [= <- <-]. apply fresh_remove.
  - intros [= <- <-]. apply fresh_upd.
  - destruct sh as [v|lo hi x]; [intros [= <- <-]; apply fresh_remove|].
    destruct (release gl (dispose_internal s i (lo, hi, x)) lo) as [[s1 l1]|] eqn:E1; [|discriminate].
    destruct (release gh s1 hi) as [[s2 l2]|] eqn:E2; [|discriminate]. intros [= <- <-].
    eapply fresh_trans; [apply fresh_remove|]. eapply fresh_trans; eauto.
  - intros [= <- <-]. apply fresh_upd.
Qed.
Lemma chain_fresh asgn : forall s i off sink proc, fresh_ok s (fst (chain_st s asgn i off sink proc)).
Proof.
  induction asgn as [|t r IH]; intros s i off sink proc; simpl; [apply fresh_refl|].
  destruct t; auto.
  - assert (F := spawn_internal_fresh s proc sink (i + off)). destruct (spawn_internal s proc sink (i + off)) as [s1 p].
    eapply fresh_trans; [exact F|apply IH].
  - assert (F := spawn_internal_fresh s sink proc (i + off)). destruct (spawn_internal s sink proc (i + off)) as [s1 p].
    eapply fresh_trans; [exact F|apply IH].
Qed.
Lemma construct_st_fresh s asgn nd dv off : fresh_ok s (fst (construct_st s asgn nd dv off)).
Proof.
  unfold MtbddStoreDefs.construct_st. destruct (is_leaf_st V V_eq_dec s nd dv); simpl; [apply fresh_upd|].
  assert (F1 := spawn_leaf_fresh s dv). destruct (spawn_leaf s dv) as [s1 sink].
  assert (F2 := chain_fresh asgn s1 0 off sink nd). destruct (chain_st s1 asgn 0 off sink nd) as [s2 proc]. simpl in *.
  eapply fresh_trans; [exact F1|]. eapply fresh_trans; [exact F2|]. eapply fresh_trans; [|apply fresh_upd].
  destruct (proc =? nd); [|apply fresh_refl]. destruct (rc_of V s2 sink =? 0); [apply fresh_remove|apply fresh_refl].
Qed.
Lemma make_fresh s h d dv : fresh_ok s (make s h d dv).
Proof.
  unfold MtbddStoreDefs.make. assert (F := intern_fresh d s). destruct (intern s d) as [s1 i]. simpl in F.
  eapply fresh_trans; [exact F|]. eapply fresh_trans; [apply fresh_upd|]. apply (fresh_handles (inc_rc s1 i)).
Qed.
Lemma step_fresh s o s' log : step s o = Some (s', log) -> fresh_ok s s'.
Proof.
  destruct o as [h asgn v dv|h v|h g|h g|h f a|h f a b|h f a b c|h asgn off a|h asgn off a|h]; simpl.
  - destruct (is_none (hlookup s h)); [|discriminate].
    assert (F1 := spawn_leaf_fresh s v). destruct (spawn_leaf s v) as [s1 nd].
    assert (F2 := construct_st_fresh s1 asgn nd dv 0). destruct (construct_st s1 asgn nd dv 0) as [s2 r]. simpl in *.
    intros [= <- <-]. eapply fresh_trans; [exact F1|]. eapply fresh_trans; [exact F2|]. apply (fresh_handles s2).
  - destruct (is_none (hlookup s h)); [|discriminate].
    assert (F1 := spawn_leaf_fresh s v). destruct (spawn_leaf s v) as [s1 r]. simpl in *.
    intros [= <- <-]. eapply fresh_trans; [exact F1|]. eapply fresh_trans; [apply fresh_upd|]. apply (fresh_handles (inc_rc s1 r)).
  - destruct (is_none (hlookup s h)); [|discriminate]. destruct (hlookup s g) as [hg|]; [|discriminate].
    intros [= <- <-]. eapply fresh_trans; [apply fresh_upd|]. apply (fresh_handles (inc_rc s (root V hg))).
  - destruct (hlookup s h) as [hh|]; [|discriminate]. destruct (hlookup s g) as [hg|]; [|discriminate].
    destruct (h =? g); [intros [= <- <-]; apply fresh_refl|].
    destruct (release (ghost V hh) (del_handle s h) (root V hh)) as [[s1 l1]|] eqn:E; [|discriminate].
    intros [= <- <-]. apply release_fresh in E.
    eapply fresh_trans; [apply (fresh_handles s)|]. eapply fresh_trans; [exact E|].
    eapply fresh_trans; [apply fresh_upd|]. apply (fresh_handles (inc_rc s1 (root V hg))).
  - destruct (is_none (hlookup s h)); [|discriminate]. destruct (hlookup s a); [|discriminate]. intros [= <- <-]. apply make_fresh.
  - destruct (is_none (hlookup s h)); [|discriminate]. destruct (hlookup s a); [|discriminate]. destruct (hlookup s b); [|discriminate].
    intros [= <- <-]. apply make_fresh.
  - destruct (is_none (hlookup s h)); [|discriminate]. destruct (hlookup s a); [|discriminate]. destruct (hlookup s b); [|discriminate].
    destruct (hlookup s c); [|discriminate]. intros [= <- <-]. apply make_fresh.
  - destruct (is_none (hlookup s h)); [|discriminate]. destruct (hlookup s a) as [ha|]; [|discriminate].
    assert (F := construct_st_fresh s asgn (root V ha) (dflt V ha) off). destruct (construct_st s asgn (root V ha) (dflt V ha) off) as [s1 r].
    simpl in *. intros [= <- <-]. eapply fresh_trans; [exact F|]. apply (fresh_handles s1).
  - destruct (is_none (hlookup s h)); [|discriminate]. destruct (hlookup s a); [|discriminate]. intros [= <- <-]. apply make_fresh.
  - destruct (hlookup s h) as [hh|]; [|discriminate]. intros E. apply release_fresh in E.
    eapply fresh_trans; [apply (fresh_handles s)|exact E].
Qed.

(* a node that has been deleted: an address below the allocation mark that is not in the heap *)
Definition dead (s : store) (j : id) : Prop := j < next V s /\ nlookup s j = None.
Lemma dead_fresh s s' j : fresh_ok s s' -> dead s j -> dead s' j.
Proof.
  intros [A B] [L N]. split; [lia|]. destruct (nlookup s' j) eqn:E; auto.
  destruct (B j) as [H|H]; [congruence|congruence|lia].
Qed.

(* over a whole history no node is deleted twice: the concatenated log has no duplicates, every
   deleted node was alive (not dead) at the start of the history or created during it, and is dead at the end *)
Theorem run_no_double_release os : forall s s' log, Inv s -> valid_run s os -> run s os = Some (s', log) ->
  NoDup log /\ (forall j, In j log -> ~ dead s j /\ dead s' j) /\ fresh_ok s s'.
Proof.
  induction os as [|o r IH]; intros s s' log I Vr; simpl.
  - intros [= <- <-]. split; [constructor|]. split; [intros j []|apply fresh_refl].
  - destruct Vr as [Vo Vr]. destruct (step_ok s o I Vo) as [s1 [l1 [E1 [I1 [_ [ND1 L1]]]]]]. rewrite E1.
    destruct (run s1 r) as [[s2 l2]|] eqn:E2; [|discriminate]. intros [= <- <-].
    destruct (IH s1 s2 l2 I1 (Vr s1 l1 E1) E2) as [ND2 [L2 F2]].
    assert (F1 := step_fresh s o s1 l1 E1).
    assert (D1 : forall j, In j l1 -> ~ dead s j /\ dead s1 j).
    { intros j Hj. destruct (L1 j Hj) as [A B]. split; [intros [_ Q]; congruence|]. split; auto.
      destruct I as [C _]. destruct (nlookup s j) as [n|] eqn:En; [|congruence].
      apply (c_fresh s [] C) in En. destruct F1; lia. }
    split; [|split].
    + apply nodup_app; auto. intros j H1 H2. destruct (D1 j H1) as [_ A]. destruct (L2 j H2) as [B _]. contradiction.
    + intros j Hj. apply in_app_or in Hj as [Hj|Hj].
      * destruct (D1 j Hj) as [A B]. split; auto. eapply dead_fresh; eauto.
      * destruct (L2 j Hj) as [A B]. split; auto. intros Q. apply A. eapply dead_fresh; eauto.
    + eapply fresh_trans; eauto.
Qed.

Theorem step_inv s o : Inv s -> valid_op s o -> exists s' log, step s o = Some (s', log) /\ Inv s'.
Proof. intros I Vd. destruct (step_ok s o I Vd) as [s' [log [E [I' _]]]]. eauto. Qed.
Theorem run_inv os s : Inv s -> valid_run s os -> exists s' log, run s os = Some (s', log) /\ Inv s'.
Proof. intros I Vr. destruct (run_ok os s I Vr) as [s' [log [E [I' _]]]]. eauto. Qed.
Theorem root_denotes_ghost s h hd : Inv s -> hlookup s h = Some hd ->
  den s (root V hd) (ghost V hd) /\ wf (ghost V hd).
Proof. intros [C _] E. split; [exact (c_hden s [] C h hd E) | exact (ghost_wf s [] h hd C E)]. Qed.
Theorem counts s i n : Inv s -> nlookup s i = Some n -> rc V n = cnt (reflist s) i /\ 1 <= rc V n.
Proof.
  intros [C Z] E. assert (R := c_cnt s [] C i n E). rewrite app_nil_r in R. split; auto.
  destruct (rc V n) eqn:Q; [destruct (Z i n E Q)|apply le_n_S, Nat.le_0_l].
Qed.
End STOREP.

(* a concrete history: two constructions sharing a leaf, their sum, a copy, a self-assignment, an
   assignment, and destruction in an order that releases shared nodes last *)
Definition example_ops : list (op nat) :=
  [OConstruct nat 0 [T1; T0] 1 0; OConstruct nat 1 [TX; T1] 2 0; OApply2 nat 2 Nat.add 0 1; OCopy nat 3 2;
   OAssign nat 0 0; OAssign nat 0 1; ODestroy nat 1; ODestroy nat 2; ODestroy nat 0; ODestroy nat 3].
Lemma example_run :
  option_map (fun p => (leaf_size nat (fst p), int_size nat (fst p), length (snd p)))
             (run nat Nat.eq_dec (empty_store nat) example_ops) = Some (0, 0, 7) /\
  option_map (fun p => (leaf_size nat (fst p), int_size nat (fst p)))
             (run nat Nat.eq_dec (empty_store nat) (firstn 4 example_ops)) = Some (3, 4).
Proof. vm_compute. auto. Qed.
