From Coq Require Import List NArith Bool Lia.
Import ListNotations.
From V Require Import Fix Sem.

Definition states (A : ta) : list N := flat_map (fun r => par r :: ch r) (rules A) ++ finals A.

Definition prod_step (A : ta) (S : list N) : list N :=
  flat_map (fun r => if forallb (fun c => memN c S) (ch r) then [par r] else []) (rules A).

Definition productive (A : ta) : list N :=
  saturate N N.eq_dec (prod_step A) (S (length (states A))) [].

Lemma prod_step_in A S x : In x (prod_step A S) <-> exists r, In r (rules A) /\ (forall c, In c (ch r) -> In c S) /\ x = par r.
Proof.
  unfold prod_step. rewrite in_flat_map. split.
  - intros [r [Hr Hx]]. destruct (forallb _ _) eqn:E; simpl in Hx; [|contradiction]. destruct Hx as [<-|[]].
    exists r. split; auto. split; auto. intros c Hc. rewrite forallb_forall in E. apply memN_In, E, Hc.
  - intros [r [Hr [Hc ->]]]. exists r. split; auto.
    assert (E : forallb (fun c => memN c S) (ch r) = true) by (apply forallb_forall; intros c Hcc; apply memN_In; auto).
    rewrite E. simpl; auto.
Qed.

Lemma prod_step_mono A S T : incl S T -> incl (prod_step A S) (prod_step A T).
Proof. intros H x Hx. apply prod_step_in in Hx as [r [Hr [Hc ->]]]. apply prod_step_in. exists r; repeat split; auto. Qed.

Lemma prod_step_bounded A S : incl S (states A) -> incl (prod_step A S) (states A).
Proof. intros _ x Hx. apply prod_step_in in Hx as [r [Hr [_ ->]]]. unfold states. apply in_or_app. left.
  apply in_flat_map. exists r. split; simpl; auto. Qed.

Lemma children_trees A (P : N -> Prop) : (forall c, P c -> exists t, reach A t c) ->
  forall cs, (forall c, In c cs -> P c) -> exists ts, Forall2 (reach A) ts cs.
Proof.
  intros HP. induction cs as [|c cs IH]; intros Hc.
  - exists []. constructor.
  - destruct (HP c (Hc c (or_introl eq_refl))) as [t Ht]. destruct IH as [ts Hts]. { intros; apply Hc; right; auto. }
    exists (t :: ts). constructor; auto.
Qed.

Theorem productive_spec A q : In q (productive A) <-> exists t, reach A t q.
Proof.
  unfold productive. rewrite (saturate_lfp N N.eq_dec (prod_step A) (prod_step_mono A) (states A) (prod_step_bounded A)).
  split.
  - intros D. induction D as [S x _ IH Hx]. apply prod_step_in in Hx as [r [Hr [Hc ->]]].
    destruct (children_trees A (fun c => In c S) IH (ch r) Hc) as [ts Hts].
    exists (Node (sym r) ts). constructor; auto.
  - intros [t Ht]. revert q Ht. induction t as [f ts IH] using tree_ind'. intros q Ht.
    inversion Ht as [f' ts' r Hr Hs HF]; subst.
    apply (der N (prod_step A) (ch r)).
    + intros c Hc. clear Ht Hr. revert IH c Hc. induction HF as [|t c ts cs Htc HF IH2]; intros IH c' Hc'; [destruct Hc'|].
      inversion IH as [|? ? Ht0 Hts0]; subst. destruct Hc' as [<-|Hc']; auto.
    + apply prod_step_in. exists r; repeat split; auto.
Qed.

Definition is_empty (A : ta) : bool := negb (existsb (fun q => memN q (productive A)) (finals A)).
Theorem is_empty_spec A : is_empty A = true <-> forall t, ~ accepts A t.
Proof.
  unfold is_empty. rewrite negb_true_iff. split.
  - intros E t [q [Hq Hr]]. assert (X : existsb (fun q => memN q (productive A)) (finals A) = true).
    { apply existsb_exists. exists q. split; auto. apply memN_In, productive_spec. eauto. } congruence.
  - intros H. destruct (existsb _ _) eqn:E; auto. apply existsb_exists in E as [q [Hq Hm]].
    apply memN_In, productive_spec in Hm as [t Ht]. exfalso. apply (H t). exists q; auto.
Qed.
Print Assumptions is_empty_spec.
