(* C04 — the downward and upward tree-automata simulations returned by ExplicitTreeAut::ComputeSimulation are the
   greatest ones.  Nothing but statements closed by [exact]; the proofs are in TaSimProofs.v.
   The theorems are about the functional model (greatest fixpoints of the two step conditions, written as the
   property states them); the LTS engine that libvata uses to compute them is the subject of C16. *)
From Coq Require Import List NArith Bool.
From V Require Import Gfp Sem Prod Lang LtsSimDefs LtsSimProofs TaSimDefs TaSimProofs.

(* downward: the result satisfies the step condition, lies in 0..n-1, and contains every such relation *)
Theorem C04_down_sim_greatest : forall A n,
  is_greatest (fun R => within n R /\ down_simulation A R) (rel_of (down_sim A n)).
Proof. exact down_sim_greatest. Qed.
(* upward, likewise (the model needs no trimming hypothesis; libvata's encoding does) *)
Theorem C04_up_sim_greatest : forall A n,
  is_greatest (fun R => within n R /\ up_simulation A R) (rel_of (up_sim A n)).
Proof. exact up_sim_greatest. Qed.
(* both are preorders on the states 0..n-1 *)
Theorem C04_down_sim_reflexive : forall A n, states_below A n -> reflexive_on n (rel_of (down_sim A n)).
Proof. exact down_sim_reflexive. Qed.
Theorem C04_down_sim_transitive : forall A n, transitive (rel_of (down_sim A n)).
Proof. exact down_sim_transitive. Qed.
Theorem C04_up_sim_reflexive : forall A n, states_below A n -> reflexive_on n (rel_of (up_sim A n)).
Proof. exact up_sim_reflexive. Qed.
Theorem C04_up_sim_transitive : forall A n, transitive (rel_of (up_sim A n)).
Proof. exact up_sim_transitive. Qed.
(* they do not depend on how the states are numbered: for mutually inverse bijections h, g of 0..n-1 *)
Theorem C04_down_sim_equivariant : forall n h g A, bij_on n h g -> states_below A n ->
  forall q' r', In (q', r') (down_sim (image h A) n) <-> In (q', r') (map_pair h (down_sim A n)).
Proof. exact down_sim_equivariant. Qed.
Theorem C04_up_sim_equivariant : forall n h g A, bij_on n h g -> states_below A n ->
  forall q' r', In (q', r') (up_sim (image h A) n) <-> In (q', r') (map_pair h (up_sim A n)).
Proof. exact up_sim_equivariant. Qed.
(* a permutation list accepted by the checker used on the generated cases is such a bijection *)
Theorem C04_perm_bij : forall n p, is_perm n p = true -> bij_on n (perm_fun p) (perm_inv p).
Proof. exact perm_fun_bij. Qed.
Theorem C04_dense_below : forall A n, dense_ok A n = true -> states_below A n.
Proof. exact dense_ok_below. Qed.
(* the gates evaluated on libvata's output decide exactly the property clause *)
Theorem C04_gate_down : forall A n impl, gate_down A n impl = true <->
  exists S, is_greatest (fun R => within n R /\ down_simulation A R) S /\ forall q r, In (q, r) impl <-> S q r.
Proof. exact gate_down_spec. Qed.
Theorem C04_gate_up : forall A n impl, gate_up A n impl = true <->
  exists S, is_greatest (fun R => within n R /\ up_simulation A R) S /\ forall q r, In (q, r) impl <-> S q r.
Proof. exact gate_up_spec. Qed.
Theorem C04_gate_equivariant : forall h base variant, gate_equivariant h base variant = true <->
  forall q' r', In (q', r') variant <-> exists q r, In (q, r) base /\ q' = h q /\ r' = h r.
Proof. exact gate_equivariant_spec. Qed.
(* the hypotheses are satisfiable and the results are not trivial *)
Example C04_example_valid : dense_ok ex_ta 4 = true /\ trimmed_ok ex_ta = true /\ ranked_ok ex_ta = true /\
  is_perm 4 (cons 2 (cons 0 (cons 3 (cons 1 nil))))%N = true.
Proof. exact ex_valid. Qed.
Example C04_example_down : down_sim ex_ta 4 = (cons (0, 0) (cons (0, 1) (cons (1, 1) (cons (2, 2) (cons (2, 3) (cons (3, 3) nil))))))%N.
Proof. exact ex_down. Qed.
Example C04_example_up : up_sim ex_ta 4 = (cons (0, 0) (cons (0, 1) (cons (1, 1) (cons (2, 2) (cons (2, 3) (cons (3, 2) (cons (3, 3) nil)))))))%N.
Proof. exact ex_up. Qed.

Print Assumptions C04_down_sim_greatest.
Print Assumptions C04_up_sim_greatest.
Print Assumptions C04_down_sim_reflexive.
Print Assumptions C04_down_sim_transitive.
Print Assumptions C04_up_sim_reflexive.
Print Assumptions C04_up_sim_transitive.
Print Assumptions C04_down_sim_equivariant.
Print Assumptions C04_up_sim_equivariant.
Print Assumptions C04_perm_bij.
Print Assumptions C04_dense_below.
Print Assumptions C04_gate_down.
Print Assumptions C04_gate_up.
Print Assumptions C04_gate_equivariant.
Print Assumptions C04_example_valid.
Print Assumptions C04_example_down.
Print Assumptions C04_example_up.
