(* C04 — the downward and upward tree-automata simulations returned by ExplicitTreeAut::ComputeSimulation are the
   greatest ones.  Nothing but statements closed by [exact]; the proofs are in TaSimProofs.v.
   The theorems are about the functional model (greatest fixpoints of the two step conditions, written as the
   property states them); the LTS engine that libvata uses to compute them is the subject of C16. *)
From Coq Require Import List NArith Bool.
From V Require Import Gfp Sem Prod Lang LtsSimDefs LtsSimProofs TaSimDefs TaSimProofs TaEncDefs TaEncProofs TaEncPart.

(* downward: the result satisfies the step condition, lies in 0..n-1, and contains every such relation *)
Theorem C04_down_sim_greatest : forall A n,
  is_greatest (fun R => within n R /\ down_simulation A R) (rel_of (down_sim A n)).
Proof. exact down_sim_greatest. Qed.
(* upward, likewise (the model needs no trimming hypothesis; libvata's encoding does) *)
Theorem C04_up_sim_greatest : forall A n,
  is_greatest (fun R => within n R /\ up_simulation A R) (rel_of (up_sim A n)).
Proof. exact up_sim_greatest. Qed.
(* both are preorders on the states 0..n-1 *)
Theorem C04_down_sim_reflexive : forall A n, states_below A n -> reflexive_on n (rel_of (down_sim A n)).
Proof. exact down_sim_reflexive. Qed.
Theorem C04_down_sim_transitive : forall A n, transitive (rel_of (down_sim A n)).
Proof. exact down_sim_transitive. Qed.
Theorem C04_up_sim_reflexive : forall A n, states_below A n -> reflexive_on n (rel_of (up_sim A n)).
Proof. exact up_sim_reflexive. Qed.
Theorem C04_up_sim_transitive : forall A n, transitive (rel_of (up_sim A n)).
Proof. exact up_sim_transitive. Qed.
(* they do not depend on how the states are numbered: for mutually inverse bijections h, g of 0..n-1 *)
Theorem C04_down_sim_equivariant : forall n h g A, bij_on n h g -> states_below A n ->
  forall q' r', In (q', r') (down_sim (image h A) n) <-> In (q', r') (map_pair h (down_sim A n)).
Proof. exact down_sim_equivariant. Qed.
Theorem C04_up_sim_equivariant : forall n h g A, bij_on n h g -> states_below A n ->
  forall q' r', In (q', r') (up_sim (image h A) n) <-> In (q', r') (map_pair h (up_sim A n)).
Proof. exact up_sim_equivariant. Qed.
(* a permutation list accepted by the checker used on the generated cases is such a bijection *)
Theorem C04_perm_bij : forall n p, is_perm n p = true -> bij_on n (perm_fun p) (perm_inv p).
Proof. exact perm_fun_bij. Qed.
Theorem C04_dense_below : forall A n, dense_ok A n = true -> states_below A n.
Proof. exact dense_ok_below. Qed.
(* the gates evaluated on libvata's output decide exactly the property clause *)
Theorem C04_gate_down : forall A n impl, gate_down A n impl = true <->
  exists S, is_greatest (fun R => within n R /\ down_simulation A R) S /\ forall q r, In (q, r) impl <-> S q r.
Proof. exact gate_down_spec. Qed.
Theorem C04_gate_up : forall A n impl, gate_up A n impl = true <->
  exists S, is_greatest (fun R => within n R /\ up_simulation A R) S /\ forall q r, In (q, r) impl <-> S q r.
Proof. exact gate_up_spec. Qed.
Theorem C04_gate_equivariant : forall h base variant, gate_equivariant h base variant = true <->
  forall q' r', In (q', r') variant <-> exists q r, In (q, r) base /\ q' = h q /\ r' = h r.
Proof. exact gate_equivariant_spec. Qed.
(* (A) models of the two LTS encodings of src/explicit_tree_transl.hh, parameterised by the indices the code builds in
   visiting order.  TranslateDownward: for a ranked automaton with states below n, every valid index (state index a
   bijection of 0..n-1, symbol index injective below nsym, tuple nodes injective in n..NN-1) makes the greatest
   simulation of the encoded LTS, read back through the state index, equal to the greatest downward simulation. *)
Theorem C04_encode_down_correct : forall X A n NN, states_below A n -> ranked A -> down_ok X A n NN ->
  forall q r, (q < N.of_nat n)%N -> (r < N.of_nat n)%N ->
    (In (q, r) (down_sim A n) <-> In (d_idx X q, d_idx X r) (lts_sim_default (translate_down X A) NN)).
Proof. exact encode_down_correct. Qed.
(* the ranked-alphabet hypothesis cannot be dropped: the inlining of unary rules is wrong for a symbol used with arities 1 and 2 *)
Theorem C04_encode_down_unranked_refuted :
  exists X A n NN, states_below A n /\ down_ok X A n NN /\
    In (d_idx X 0%N, d_idx X 1%N) (lts_sim_default (translate_down X A) NN) /\ ~ In (0%N, 1%N) (down_sim A n).
Proof. exact encode_down_unranked_refuted. Qed.
(* TranslateUpward (with the parent of an environment translated once, i.e. after the fix of D3; environments keyed by
   siblings, position, symbol AND parent, which is what libstdc++'s cached hash codes make of the code, see D4):
   for every valid index (state index a bijection of 0..n-1, symbol index injective below nsym, environment nodes
   injective in n+1..NN-1, leaf node n) the greatest simulation of the encoded LTS inside the initial relation given by
   the partition and block relation the function builds (final / non-final / leaf / one block per class of environments
   with equal siblings, position and symbol; non-final below final), read back through the state index, is the
   greatest upward simulation.  The model coincides with the code only for automata without useless states (the code
   sizes its tables by the number of states owning rules); the theorem itself needs states below n only. *)
Theorem C04_encode_up_correct : forall X A n NN, states_below A n -> up_ok X A n ->
  (forall E, In E (all_envs X A) -> (u_eidx X E < N.of_nat NN)%N) -> n < NN ->
  forall q r, (q < N.of_nat n)%N -> (r < N.of_nat n)%N ->
    (In (q, r) (up_sim A n) <->
     In (u_idx X q, u_idx X r) (lts_sim (translate_up X n A) NN (up_partition X n A) (up_block_rel X n A))).
Proof. exact encode_up_correct. Qed.
(* its two halves: correctness w.r.t. the induced initial relation, and the concrete lists induce that relation *)
Theorem C04_encode_up_correct_partial : forall X A n, states_below A n -> up_ok X A n ->
  forall q r, (q < N.of_nat n)%N -> (r < N.of_nat n)%N ->
    (In (q, r) (up_sim A n) <-> In (u_idx X q, u_idx X r) (up_lts_sim X n A)).
Proof. exact encode_up_correct_partial. Qed.
Theorem C04_up_partition_induces : forall X A n NN, up_ok X A n ->
  (forall E, In E (all_envs X A) -> (u_eidx X E < N.of_nat NN)%N) -> n < NN ->
  forall x y, In (x, y) (init_rel NN (up_partition X n A) (up_block_rel X n A)) <-> In (x, y) (up_node_init X n A).
Proof. exact up_partition_induces. Qed.
(* D3 (fixed by 0f312bed): the historical encoding translated an environment's parent twice and is refuted *)
Theorem C04_encode_up_old_refuted :
  exists X A n, states_below A n /\ trimmed_ok A = true /\ up_ok X A n /\
    exists q r, (q < N.of_nat n)%N /\ (r < N.of_nat n)%N /\
      In (u_idx X q, u_idx X r) (up_lts_sim_old X n A) /\ ~ In (q, r) (up_sim A n) /\
      (In (u_idx X q, u_idx X r) (up_lts_sim X n A) <-> In (q, r) (up_sim A n)).
Proof. exact encode_up_old_refuted. Qed.
(* the index-validity hypotheses are decidable and satisfiable (canonical indices on the example automaton) *)
Theorem C04_down_ok_decidable : forall X A n NN, down_ok_b X A n NN = true -> down_ok X A n NN.
Proof. exact down_ok_b_sound. Qed.
Theorem C04_up_ok_decidable : forall X A n, up_ok_b X A n = true -> up_ok X A n.
Proof. exact up_ok_b_sound. Qed.
Example C04_example_encodings_valid :
  states_below ex_ta 4 /\ ranked ex_ta /\ down_ok (canon_dix ex_ta 4) ex_ta 4 9 /\ up_ok (canon_uix ex_ta 4) ex_ta 4.
Proof. exact ex_enc_valid. Qed.
(* the hypotheses are satisfiable and the results are not trivial *)
Example C04_example_valid : dense_ok ex_ta 4 = true /\ trimmed_ok ex_ta = true /\ ranked_ok ex_ta = true /\
  is_perm 4 (cons 2 (cons 0 (cons 3 (cons 1 nil))))%N = true.
Proof. exact ex_valid. Qed.
Example C04_example_down : down_sim ex_ta 4 = (cons (0, 0) (cons (0, 1) (cons (1, 1) (cons (2, 2) (cons (2, 3) (cons (3, 3) nil))))))%N.
Proof. exact ex_down. Qed.
Example C04_example_up : up_sim ex_ta 4 = (cons (0, 0) (cons (0, 1) (cons (1, 1) (cons (2, 2) (cons (2, 3) (cons (3, 2) (cons (3, 3) nil)))))))%N.
Proof. exact ex_up. Qed.

Print Assumptions C04_down_sim_greatest.
Print Assumptions C04_up_sim_greatest.
Print Assumptions C04_down_sim_reflexive.
Print Assumptions C04_down_sim_transitive.
Print Assumptions C04_up_sim_reflexive.
Print Assumptions C04_up_sim_transitive.
Print Assumptions C04_down_sim_equivariant.
Print Assumptions C04_up_sim_equivariant.
Print Assumptions C04_perm_bij.
Print Assumptions C04_dense_below.
Print Assumptions C04_gate_down.
Print Assumptions C04_gate_up.
Print Assumptions C04_gate_equivariant.
Print Assumptions C04_encode_down_correct.
Print Assumptions C04_encode_down_unranked_refuted.
Print Assumptions C04_encode_up_correct.
Print Assumptions C04_encode_up_correct_partial.
Print Assumptions C04_up_partition_induces.
Print Assumptions C04_encode_up_old_refuted.
Print Assumptions C04_down_ok_decidable.
Print Assumptions C04_up_ok_decidable.
Print Assumptions C04_example_encodings_valid.
Print Assumptions C04_example_valid.
Print Assumptions C04_example_down.
Print Assumptions C04_example_up.
