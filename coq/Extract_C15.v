Require Extraction.
Require Import ExtrOcamlBasic.
From V Require Import Sem Prod Incl TrimDefs CandDefs CandModel.
Extraction "ex_c15.ml" cand_gate candidate_ok cand_sub ta_same is_empty cand_model.
