(* extraction root for C10 — no proofs are needed to build this file *)
Require Extraction.
Require Import ExtrOcamlBasic.
From V Require Import Sem Prod Incl TrimDefs Lang NfaDefs.
Extraction "ex_c10.ml" wincl_dec wequiv_dec wis_empty nfa_same nfa_sub nstates
  nunion_with nunion_disjoint nunion_disjoint_coded amap valid_nunionb disjointb
  nreverse nunreach nuseless nprod_full nisect inj2_onb nbound pr0 pmap
  ncandidate ncandidate_old ncandidate_ok
  gate_nunion gate_nisect gate_nreverse gate_nsame gate_ncandidate.
