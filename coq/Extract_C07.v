Require Extraction.
Require Import ExtrOcamlBasic.
From V Require Import Sem Prod Incl TrimDefs InclDefs DispatchTable.
Extraction "ex_c07.ml" incl_model gate_verdict incl_dec is_empty ta_same impl_td impl_bu scrape_ok.
