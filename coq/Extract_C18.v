(* extraction root for C18 — no proofs are needed to build this file *)
Require Extraction.
Require Import ExtrOcamlBasic.
From Coq Require Import NArith.
From V Require Import MtbddDefs MtbddOps MtbddStoreDefs.
Extraction "ex_c18.ml" step empty_store leaf_size int_size handles nodes get_value totals op1 op2 op3 N.eq_dec
  paths dd_eqb.
