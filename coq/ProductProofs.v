From Coq Require Import List NArith Bool Arith Lia.
Import ListNotations.
From V Require Import Fix Sem Prod Incl TrimDefs TrimProofs Lang ProductDefs.

Lemma bound_gt l x : In x l -> (x < bound l)%N.
Proof. unfold bound. induction l as [|a l IH]; simpl; intros H; [destruct H|]. destruct H as [<-|H]; [lia|]. specialize (IH H). lia. Qed.

Lemma pcode_inj K p q p' q' : (q < K)%N -> (q' < K)%N -> pcode K p q = pcode K p' q' -> p = p' /\ q = q'.
Proof. unfold pcode. intros H1 H2 E. rewrite (N.mul_comm p K), (N.mul_comm p' K) in E. apply N.div_mod_unique in E; auto. Qed.

Lemma prod_rule_in K ra rb r : In r (prod_rule K ra rb) <->
  sym ra = sym rb /\ length (ch ra) = length (ch rb) /\
  r = {| sym := sym ra; ch := zipcode K (ch ra) (ch rb); par := pcode K (par ra) (par rb) |}.
Proof.
  unfold prod_rule. destruct (N.eqb_spec (sym ra) (sym rb)) as [E|NE]; simpl.
  - destruct (Nat.eqb_spec (length (ch ra)) (length (ch rb))) as [E2|NE2]; simpl.
    + split; [intros [<-|[]]; auto | intros [_ [_ ->]]; auto].
    + split; [intros [] | intros [_ [? _]]; contradiction].
  - split; [intros [] | intros [? _]; contradiction].
Qed.

Lemma product_rule_in A B r : In r (rules (product A B)) <->
  exists ra rb, In ra (rules A) /\ In rb (rules B) /\ sym ra = sym rb /\ length (ch ra) = length (ch rb) /\
    r = {| sym := sym ra; ch := zipcode (bound (states B)) (ch ra) (ch rb); par := pcode (bound (states B)) (par ra) (par rb) |}.
Proof.
  unfold product; simpl. rewrite in_flat_map. split.
  - intros [ra [Ha H]]. apply in_flat_map in H as [rb [Hb H]]. apply prod_rule_in in H as [H1 [H2 H3]]. exists ra, rb; auto.
  - intros [ra [rb [Ha [Hb [H1 [H2 H3]]]]]]. exists ra. split; auto. apply in_flat_map. exists rb. split; auto. apply prod_rule_in; auto.
Qed.

Lemma Forall2_zip (P Q R : tree -> N -> Prop) K ts : forall ps qs,
  Forall2 P ts ps -> Forall2 Q ts qs -> (forall t p q, P t p -> Q t q -> R t (pcode K p q)) ->
  Forall2 R ts (zipcode K ps qs).
Proof.
  induction ts as [|t ts IH]; intros ps qs HP HQ H; inversion HP; inversion HQ; subst; simpl; constructor; auto.
Qed.

Lemma Forall2_length {X Y} (P : X -> Y -> Prop) l l' : Forall2 P l l' -> length l = length l'.
Proof. intros F; induction F; simpl; auto. Qed.

Lemma product_reach_r A B : forall t p, reach A t p -> forall q, reach B t q ->
  reach (product A B) t (pcode (bound (states B)) p q).
Proof.
  apply (reach_ind' A (fun t p => forall q, reach B t q -> reach (product A B) t (pcode (bound (states B)) p q))).
  intros f ts ra Ha Hs HFa IH q Rb. inversion Rb as [f' ts' rb Hb Hsb HFb]; subst.
  set (K := bound (states B)).
  change (pcode K (par ra) (par rb)) with (par {| sym := sym ra; ch := zipcode K (ch ra) (ch rb); par := pcode K (par ra) (par rb) |}).
  constructor; simpl; auto.
  - apply product_rule_in. exists ra, rb. repeat split; auto.
    rewrite <- (Forall2_length _ _ _ HFa), <- (Forall2_length _ _ _ HFb). reflexivity.
  - eapply (Forall2_zip (fun t p => forall q, reach B t q -> reach (product A B) t (pcode K p q)) (reach B)); eauto.
Qed.

Lemma product_reach_l A B : forall t s, reach (product A B) t s ->
  exists p q, s = pcode (bound (states B)) p q /\ reach A t p /\ reach B t q.
Proof.
  set (K := bound (states B)).
  apply (reach_ind' (product A B) (fun t s => exists p q, s = pcode K p q /\ reach A t p /\ reach B t q)).
  intros f ts r Hr Hs _ IH. apply product_rule_in in Hr as [ra [rb [Ha [Hb [H1 [H2 ->]]]]]]. simpl in *. fold K in IH |- *.
  exists (par ra), (par rb). split; auto.
  assert (X : Forall2 (reach A) ts (ch ra) /\ Forall2 (reach B) ts (ch rb)).
  { assert (Hcb : forall c, In c (ch rb) -> (c < K)%N) by (intros c Hc; apply bound_gt; apply (rule_states B rb Hb); auto).
    clear Ha Hb H1 Hs. revert ts IH H2 Hcb. generalize (ch ra) as ps, (ch rb) as qs.
    induction ps as [|p ps IHp]; intros qs ts IH HL Hcb; destruct qs as [|q qs]; simpl in *; try discriminate; inversion IH as [|? ? ? ? Hx Hl]; subst.
    - split; constructor.
    - destruct Hx as [p0 [q0 [E [Ra Rb]]]].
      apply pcode_inj in E as [-> ->]; [| apply Hcb; left; auto | apply bound_gt; eapply reach_state; eauto].
      destruct (IHp qs _ Hl) as [X1 X2]; auto. }
  destruct X as [XA XB]. split; [rewrite <- Hs; constructor; auto | rewrite <- Hs, H1; constructor; auto].
Qed.

Theorem product_lang A B t : accepts (product A B) t <-> accepts A t /\ accepts B t.
Proof.
  split.
  - intros [s [Hs R]]. simpl in Hs. apply in_flat_map in Hs as [p [Hp Hs]]. apply in_map_iff in Hs as [q [<- Hq]].
    apply product_reach_l in R as [p' [q' [E [Ra Rb]]]].
    apply pcode_inj in E as [-> ->]; [| apply bound_gt, finals_states; auto | apply bound_gt; eapply reach_state; eauto].
    split; [exists p'; auto | exists q'; auto].
  - intros [[p [Hp Ra]] [q [Hq Rb]]]. exists (pcode (bound (states B)) p q). split; [|apply product_reach_r; auto].
    simpl. apply in_flat_map. exists p. split; auto. apply in_map; auto.
Qed.

Theorem isect_td_lang A B t : accepts (isect_td A B) t <-> accepts A t /\ accepts B t.
Proof. unfold isect_td. rewrite <- product_lang. apply (unreach_lang_any shortcut). Qed.

Theorem isect_bu_lang A B t : accepts (isect_bu A B) t <-> accepts A t /\ accepts B t.
Proof. unfold isect_bu. rewrite <- product_lang. apply pp_lang. Qed.

(* every state of the product stands for a pair; its language is the intersection of the components' *)
Theorem product_state_lang A B t p q : In q (states B) ->
  reach (product A B) t (pcode (bound (states B)) p q) <-> reach A t p /\ reach B t q.
Proof.
  intros Hq. split.
  - intros R. apply product_reach_l in R as [p' [q' [E [Ra Rb]]]].
    apply pcode_inj in E as [-> ->]; auto; apply bound_gt; auto. eapply reach_state; eauto.
  - intros [Ra Rb]. apply product_reach_r; auto.
Qed.
