(* C08 / C07 (A) increment — the symbolic transition tables of the BDD automata (src/bdd_bu_tree_aut_core.hh): the bottom-up
   encoding maps a tuple of child states to an MTBDD over the symbol bits whose leaves are SETS of parent states; one explicit rule
   f(c1..cn) -> p exists iff p is in the leaf reached under the bits of f. Union of two tables merges the MTBDDs of equal tuples with
   Apply2 and the leaf operation "set union"; Intersection pairs the tuples position-wise and merges with the leaf operation
   "all pairs". Theorems: for EVERY symbol (assignment of the bits) the explicit rules of the merged table are the union, resp. the
   product, of the explicit rules of the operands — the MTBDD level (apply2 pointwise, MtbddProofs) lifted to the automaton level. *)
From Coq Require Import List NArith Bool Arith Lia.
Import ListNotations.
From V Require Import MtbddDefs MtbddOps MtbddProofs.

Definition pset := list N.
Definition pset_eq_dec : forall a b : pset, {a = b} + {a <> b} := list_eq_dec N.eq_dec.
Definition sdd := dd pset.
Definition btab := list (list N * sdd).                     (* tuple of children |-> MTBDD of parent sets *)

Definition tuple_eqb (a b : list N) : bool := if list_eq_dec N.eq_dec a b then true else false.
Definition lookup_t (T : btab) (cs : list N) : option sdd := option_map snd (find (fun e => tuple_eqb (fst e) cs) T).
(* the parents of the explicit rules s(cs) -> p *)
Definition parents (T : btab) (cs : list N) (s : asg) : pset := match lookup_t T cs with Some d => ev pset d s | None => [] end.

Definition set_union (a b : pset) : pset := nodup N.eq_dec (a ++ b).
(* Union on tables with distinct tuples left untouched and equal tuples merged *)
Definition merge_into (T : btab) (e : list N * sdd) : btab :=
  match lookup_t T (fst e) with
  | None => T ++ [e]
  | Some d => map (fun e' => if tuple_eqb (fst e') (fst e) then (fst e', apply2 pset pset_eq_dec set_union (snd e') (snd e)) else e') T
  end.
Definition bunion (A B : btab) : btab := fold_left merge_into B A.

(* Intersection: tuples paired position-wise (equal length), parents paired; states are coded by a pairing function *)
Definition pair_code (K p q : N) : N := (p * K + q)%N.
Definition set_pairs (K : N) (a b : pset) : pset := flat_map (fun p => map (fun q => pair_code K p q) b) a.
Definition bisect (K : N) (A B : btab) : btab :=
  flat_map (fun ea => flat_map (fun eb =>
    if Nat.eqb (length (fst ea)) (length (fst eb))
    then [(map (fun pq => pair_code K (fst pq) (snd pq)) (combine (fst ea) (fst eb)), apply2 pset pset_eq_dec (set_pairs K) (snd ea) (snd eb))]
    else []) B) A.

(* ---------- proofs ---------- *)
Definition keys_nodup (T : btab) : Prop := NoDup (map fst T).

Lemma tuple_eqb_eq a b : tuple_eqb a b = true <-> a = b.
Proof. unfold tuple_eqb. destruct (list_eq_dec N.eq_dec a b); split; auto; discriminate. Qed.
Lemma lookup_t_some T cs d : lookup_t T cs = Some d -> In (cs, d) T.
Proof.
  unfold lookup_t. destruct (find _ T) as [[c d']|] eqn:E; simpl; [|discriminate]. intros H. inversion H; subst.
  apply find_some in E as [Hin Hk]. simpl in Hk. apply tuple_eqb_eq in Hk. subst. auto.
Qed.
Lemma lookup_t_none T cs : lookup_t T cs = None -> ~ In cs (map fst T).
Proof.
  unfold lookup_t. destruct (find _ T) as [e|] eqn:E; simpl; [discriminate|]. intros _ Hin.
  apply in_map_iff in Hin as [e [He Hin]]. pose proof (find_none _ _ E e Hin) as X. simpl in X. rewrite He in X.
  assert (Y : tuple_eqb cs cs = true) by (apply tuple_eqb_eq; auto). congruence.
Qed.
Lemma lookup_t_in T cs d : keys_nodup T -> In (cs, d) T -> lookup_t T cs = Some d.
Proof.
  unfold keys_nodup, lookup_t. induction T as [|[c0 d0] T IH]; simpl; intros Hn Hin; [destruct Hin|].
  inversion Hn as [|? ? Hc Hn']; subst. destruct (tuple_eqb c0 cs) eqn:E.
  - apply tuple_eqb_eq in E. subst c0. destruct Hin as [Hin|Hin]; [inversion Hin; subst; auto|].
    exfalso. apply Hc. apply in_map_iff. exists (cs, d). auto.
  - destruct Hin as [Hin|Hin]; [inversion Hin; subst; assert (X : tuple_eqb cs cs = true) by (apply tuple_eqb_eq; auto); congruence|].
    apply IH; auto.
Qed.

Lemma set_union_in a b x : In x (set_union a b) <-> In x a \/ In x b.
Proof. unfold set_union. rewrite nodup_In, in_app_iff. tauto. Qed.

Lemma find_app' {X} (p : X -> bool) l m : find p (l ++ m) = match find p l with Some x => Some x | None => find p m end.
Proof. induction l as [|y l IH]; simpl; auto. destruct (p y); auto. Qed.

(* one merged entry *)
Lemma merge_into_parents T e cs s x : keys_nodup T ->
  In x (parents (merge_into T e) cs s) <-> In x (parents T cs s) \/ (cs = fst e /\ In x (ev pset (snd e) s)).
Proof.
  intros Hn. unfold merge_into. destruct (lookup_t T (fst e)) as [d|] eqn:El.
  - (* the tuple exists: its MTBDD is replaced by the Apply2 result *)
    unfold parents at 1 2.
    assert (L : forall T0, lookup_t (map (fun e' => if tuple_eqb (fst e') (fst e) then (fst e', apply2 pset pset_eq_dec set_union (snd e') (snd e)) else e') T0) cs =
                           match lookup_t T0 cs with
                           | Some d0 => Some (if tuple_eqb cs (fst e) then apply2 pset pset_eq_dec set_union d0 (snd e) else d0)
                           | None => None end).
    { induction T0 as [|[c0 d0] T0 IH]; simpl; auto. unfold lookup_t in *. simpl.
      destruct (tuple_eqb c0 (fst e)) eqn:E1; simpl.
      - destruct (tuple_eqb c0 cs) eqn:E2; simpl.
        + apply tuple_eqb_eq in E2. subst c0. rewrite E1. reflexivity.
        + exact IH.
      - destruct (tuple_eqb c0 cs) eqn:E2; simpl.
        + apply tuple_eqb_eq in E2. subst c0. rewrite E1. reflexivity.
        + exact IH. }
    rewrite L. destruct (lookup_t T cs) as [d0|] eqn:Ec.
    + destruct (tuple_eqb cs (fst e)) eqn:E.
      * apply tuple_eqb_eq in E. rewrite (apply2_ev pset pset_eq_dec), set_union_in. intuition.
      * split; [auto|]. intros [H|[H _]]; auto. subst. assert (X : tuple_eqb (fst e) (fst e) = true) by (apply tuple_eqb_eq; auto). congruence.
    + split; [intros []|]. intros [[]|[H _]]. subst. congruence.
  - (* a new tuple is appended *)
    unfold parents. unfold lookup_t. rewrite find_app'.
    destruct (find (fun e0 => tuple_eqb (fst e0) cs) T) as [e0|] eqn:Ef; simpl.
    + split; auto. intros [H|[H _]]; auto. subst cs. exfalso. apply (lookup_t_none T (fst e) El).
      apply find_some in Ef as [Hin Hk]. apply tuple_eqb_eq in Hk. rewrite <- Hk. apply in_map; auto.
    + destruct (tuple_eqb (fst e) cs) eqn:E; simpl.
      * apply tuple_eqb_eq in E. split; auto. intros [[]|[_ H]]; auto.
      * split; [intros []|]. intros [[]|[H _]]. subst. assert (X : tuple_eqb (fst e) (fst e) = true) by (apply tuple_eqb_eq; auto). congruence.
Qed.

Lemma merge_into_keys T e : keys_nodup T -> keys_nodup (merge_into T e).
Proof.
  unfold keys_nodup, merge_into. intros Hn. destruct (lookup_t T (fst e)) eqn:El.
  - rewrite map_map. erewrite map_ext; [exact Hn|]. intros [c d]. simpl. destruct (tuple_eqb c (fst e)); reflexivity.
  - rewrite map_app. simpl. apply lookup_t_none in El.
    clear - Hn El. induction (map fst T) as [|y l IH]; simpl in *; [constructor; auto; constructor|].
    inversion Hn; subst. constructor; [|apply IH; auto]. rewrite in_app_iff. intros [H|[H|[]]]; auto.
Qed.

(* Union: for every tuple and every symbol the parents are the union of the operands' parents *)
Theorem bunion_parents : forall B A cs s x, keys_nodup A -> keys_nodup B ->
  (In x (parents (bunion A B) cs s) <-> In x (parents A cs s) \/ In x (parents B cs s)).
Proof.
  unfold bunion. induction B as [|e B IH]; intros A cs s x HA HB; simpl.
  - tauto.
  - inversion HB as [|? ? He HB']; subst.
    rewrite (IH (merge_into A e) cs s x (merge_into_keys A e HA) HB'), (merge_into_parents A e cs s x HA).
    unfold parents at 4. unfold lookup_t. simpl. destruct e as [c0 d0]. simpl in *.
    destruct (tuple_eqb c0 cs) eqn:E; simpl.
    + apply tuple_eqb_eq in E. symmetry in E. subst cs.
      assert (X : parents B c0 s = []).
      { unfold parents. destruct (lookup_t B c0) eqn:El; auto. apply lookup_t_some in El. exfalso. apply He. apply in_map_iff. exists (c0, s0). auto. }
      rewrite X. simpl. intuition.
    + fold (lookup_t B cs). fold (parents B cs s). split.
      * intros [[H|[H _]]|H]; auto. exfalso. rewrite H in E. assert (Y : tuple_eqb c0 c0 = true) by (apply tuple_eqb_eq; auto). congruence.
      * intuition.
Qed.

(* Intersection: every entry of the product table comes from a pair of entries with tuples of equal length, and for every symbol
   its parents are exactly the pairs of parents *)
Lemma set_pairs_in K a b x : In x (set_pairs K a b) <-> exists p q, In p a /\ In q b /\ x = pair_code K p q.
Proof.
  unfold set_pairs. rewrite in_flat_map. split.
  - intros [p [Hp H]]. apply in_map_iff in H as [q [<- Hq]]. exists p, q. auto.
  - intros [p [q [Hp [Hq ->]]]]. exists p. split; auto. apply in_map_iff. exists q. auto.
Qed.
Theorem bisect_entry K A B cs d : In (cs, d) (bisect K A B) <->
  exists ca da cb db, In (ca, da) A /\ In (cb, db) B /\ length ca = length cb /\
    cs = map (fun pq => pair_code K (fst pq) (snd pq)) (combine ca cb) /\ d = apply2 pset pset_eq_dec (set_pairs K) da db.
Proof.
  unfold bisect. rewrite in_flat_map. split.
  - intros [[ca da] [Ha H]]. apply in_flat_map in H as [[cb db] [Hb H]]. simpl in H.
    destruct (Nat.eqb_spec (length ca) (length cb)) as [El|]; [|destruct H]. destruct H as [H|[]]. inversion H; subst.
    exists ca, da, cb, db. auto.
  - intros [ca [da [cb [db [Ha [Hb [El [-> ->]]]]]]]]. exists (ca, da). split; auto. apply in_flat_map. exists (cb, db). split; auto.
    simpl. rewrite El, Nat.eqb_refl. left. reflexivity.
Qed.
Theorem bisect_parents K da db s x :
  In x (ev pset (apply2 pset pset_eq_dec (set_pairs K) da db) s) <-> exists p q, In p (ev pset da s) /\ In q (ev pset db s) /\ x = pair_code K p q.
Proof. rewrite (apply2_ev pset pset_eq_dec). apply set_pairs_in. Qed.
(* non-vacuity: two tables over two symbol bits, a shared tuple whose MTBDDs are merged, a tuple of the right operand only *)
Definition exA : btab := [([1; 2]%N, construct pset pset_eq_dec [T0; T1] [5%N] []); ([]%list, construct pset pset_eq_dec [T0; T0] [1%N] [])].
Definition exB : btab := [([1; 2]%N, construct pset pset_eq_dec [T0; T1] [6%N] []); ([3]%N, construct pset pset_eq_dec [T1; T1] [7%N] [])].
Definition s01 : asg := fun i => Nat.eqb i 1.
Example bunion_example :
  parents (bunion exA exB) [1; 2]%N s01 = [5; 6]%N /\ parents (bunion exA exB) [3]%N (fun _ => true) = [7%N] /\
  parents (bunion exA exB) [1; 2]%N (fun _ => true) = [] /\ length (bunion exA exB) = 3.
Proof. vm_compute. repeat split; reflexivity. Qed.
