(* Shared language lemmas: induction on runs, renaming (image), disjoint union, state languages,
   a two-target inclusion decider (for intersections), and word automata through their encoding
   as unary tree automata. Everything here is proved for all automata. *)
From Coq Require Import List NArith Bool Lia.
Import ListNotations.
From V Require Import Fix Sem Prod Incl TrimDefs TrimProofs.

(* ---------- induction on runs ---------- *)
Lemma reach_ind' (A : ta) (P : tree -> N -> Prop) :
  (forall f ts r, In r (rules A) -> sym r = f -> Forall2 (reach A) ts (ch r) -> Forall2 P ts (ch r) -> P (Node f ts) (par r)) ->
  forall t q, reach A t q -> P t q.
Proof.
  intros H. induction t as [f ts IH] using tree_ind'. intros q R.
  inversion R as [f' ts' r Hr Hs HF]; subst. apply H; auto.
  clear R Hr. revert IH. induction HF as [|t c ts cs Htc HF IH2]; intros IH; constructor.
  - inversion IH; subst; auto.
  - apply IH2. inversion IH; subst; auto.
Qed.

Lemma reach_state A t q : reach A t q -> In q (states A).
Proof. intros R. inversion R; subst. apply rule_states; auto. Qed.

Lemma Forall2_In_r {X Y} (P : X -> Y -> Prop) l l' y : Forall2 P l l' -> In y l' -> exists x, In x l /\ P x y.
Proof. intros F. induction F as [|a b l l' H F IH]; intros Hy; [destruct Hy|].
  destruct Hy as [<-|Hy]; [exists a; simpl; auto|]. destruct (IH Hy) as [x [Hx Hp]]. exists x; simpl; auto. Qed.

Lemma Forall2_map_r {X Y Z} (P : X -> Z -> Prop) (g : Y -> Z) l l' :
  Forall2 (fun x y => P x (g y)) l l' -> Forall2 P l (map g l').
Proof. intros F; induction F; simpl; constructor; auto. Qed.

(* ---------- state languages ---------- *)
Definition with_finals (F : list N) (A : ta) : ta := {| rules := rules A; finals := F |}.
Lemma with_finals_reach F A t q : reach (with_finals F A) t q <-> reach A t q.
Proof. split; apply reach_mono; simpl; apply incl_refl. Qed.
Lemma with_finals_accepts F A t : accepts (with_finals F A) t <-> exists q, In q F /\ reach A t q.
Proof. unfold accepts; simpl. split; intros [q [H1 H2]]; exists q; split; auto; apply (with_finals_reach F A); auto. Qed.

(* ---------- renaming ---------- *)
Definition map_rule (h : N -> N) (r : rule) : rule := {| sym := sym r; ch := map h (ch r); par := h (par r) |}.
Definition image (h : N -> N) (A : ta) : ta := {| rules := map (map_rule h) (rules A); finals := map h (finals A) |}.

Lemma reach_image h A t q : reach A t q -> reach (image h A) t (h q).
Proof.
  revert t q. apply reach_ind'. intros f ts r Hr Hs _ IH.
  change (h (par r)) with (par (map_rule h r)). constructor; simpl; auto.
  - apply in_map; auto.
  - apply Forall2_map_r; auto.
Qed.

Theorem image_lang_sup h A t : accepts A t -> accepts (image h A) t.
Proof. intros [q [Hq R]]. exists (h q). split; [apply in_map; auto | apply reach_image; auto]. Qed.

Definition inj_on (h : N -> N) (l : list N) := forall x y, In x l -> In y l -> h x = h y -> x = y.

Lemma reach_image_inj h A : inj_on h (states A) ->
  forall t q', reach (image h A) t q' -> exists q, q' = h q /\ reach A t q.
Proof.
  intros Hinj. apply (reach_ind' (image h A) (fun t q' => exists q, q' = h q /\ reach A t q)).
  intros f ts r' Hr' Hs _ IH. simpl in Hr'. apply in_map_iff in Hr' as [r [<- Hr]]. simpl in *.
  exists (par r). split; auto. constructor; auto.
  assert (Hc : forall c, In c (ch r) -> In c (states A)) by (apply rule_states; auto).
  clear Hr Hs. revert ts IH Hc. induction (ch r) as [|c cs IHc]; intros ts IH Hc; simpl in IH; inversion IH; subst; constructor.
  - match goal with H : exists q, h c = h q /\ _ |- _ => destruct H as [q [E R]] end.
    assert (c = q) by (apply Hinj; auto; [apply Hc; left; auto | eapply reach_state; eauto]). subst; auto.
  - apply IHc; auto. intros; apply Hc; right; auto.
Qed.

Theorem image_lang_inj h A : inj_on h (states A) -> forall t, accepts (image h A) t <-> accepts A t.
Proof.
  intros Hinj t. split; [|apply image_lang_sup].
  intros [q' [Hq' R]]. simpl in Hq'. apply in_map_iff in Hq' as [q0 [<- Hq0]].
  destruct (reach_image_inj h A Hinj t _ R) as [q [E Rq]].
  assert (q0 = q). { apply Hinj; auto. unfold states. apply in_or_app; right; auto. eapply reach_state; eauto. }
  subst. exists q; auto.
Qed.

Lemma image_states h A x : In x (states (image h A)) <-> exists y, In y (states A) /\ x = h y.
Proof.
  unfold states; simpl. rewrite in_app_iff, in_flat_map. split.
  - intros [[r' [Hr' Hx]]|Hx].
    + apply in_map_iff in Hr' as [r [<- Hr]]. simpl in Hx. destruct Hx as [<-|Hx].
      * exists (par r). split; auto. apply in_or_app; left. apply in_flat_map. exists r; simpl; auto.
      * apply in_map_iff in Hx as [c [<- Hc]]. exists c. split; auto. apply in_or_app; left. apply in_flat_map. exists r; simpl; auto.
    + apply in_map_iff in Hx as [y [<- Hy]]. exists y. split; auto. apply in_or_app; right; auto.
  - intros [y [Hy ->]]. apply in_app_or in Hy as [Hy|Hy].
    + apply in_flat_map in Hy as [r [Hr Hy]]. left. exists (map_rule h r). split; [apply in_map; auto|].
      simpl in *. destruct Hy as [<-|Hy]; auto. right. apply in_map; auto.
    + right. apply in_map; auto.
Qed.

(* ---------- union of automata with disjoint state sets ---------- *)
Definition ta_app (A B : ta) : ta := {| rules := rules A ++ rules B; finals := finals A ++ finals B |}.
Definition disjoint (l m : list N) := forall x, In x l -> In x m -> False.

Lemma app_reach_l A B t q : reach A t q -> reach (ta_app A B) t q.
Proof. apply reach_mono. simpl. apply incl_appl, incl_refl. Qed.
Lemma app_reach_r A B t q : reach B t q -> reach (ta_app A B) t q.
Proof. apply reach_mono. simpl. apply incl_appr, incl_refl. Qed.

Lemma app_reach A B : disjoint (states A) (states B) ->
  forall t q, reach (ta_app A B) t q -> reach A t q \/ reach B t q.
Proof.
  intros D. apply (reach_ind' (ta_app A B) (fun t q => reach A t q \/ reach B t q)).
  intros f ts r Hr Hs _ IH. simpl in Hr. apply in_app_or in Hr as [Hr|Hr].
  - left. constructor; auto. assert (Hc : forall c, In c (ch r) -> In c (states A)) by (apply rule_states; auto).
    clear Hr Hs. induction IH as [|t c ts cs H F IH2]; constructor.
    + destruct H as [H|H]; auto. exfalso. apply (D c); [apply Hc; left; auto | eapply reach_state; eauto].
    + apply IH2. intros; apply Hc; right; auto.
  - right. constructor; auto. assert (Hc : forall c, In c (ch r) -> In c (states B)) by (apply rule_states; auto).
    clear Hr Hs. induction IH as [|t c ts cs H F IH2]; constructor.
    + destruct H as [H|H]; auto. exfalso. apply (D c); [eapply reach_state; eauto | apply Hc; left; auto].
    + apply IH2. intros; apply Hc; right; auto.
Qed.

Lemma finals_states A q : In q (finals A) -> In q (states A).
Proof. intros. unfold states. apply in_or_app; right; auto. Qed.

Theorem app_lang A B : disjoint (states A) (states B) ->
  forall t, accepts (ta_app A B) t <-> accepts A t \/ accepts B t.
Proof.
  intros D t. split.
  - intros [q [Hq R]]. simpl in Hq. apply app_reach in R; auto. apply in_app_or in Hq as [Hq|Hq]; destruct R as [R|R].
    + left; exists q; auto.
    + exfalso. apply (D q); [apply finals_states; auto | eapply reach_state; eauto].
    + exfalso. apply (D q); [eapply reach_state; eauto | apply finals_states; auto].
    + right; exists q; auto.
  - intros [[q [Hq R]]|[q [Hq R]]]; exists q; simpl; split.
    + apply in_or_app; auto. + apply app_reach_l; auto. + apply in_or_app; auto. + apply app_reach_r; auto.
Qed.

(* Union as the code builds it: both operands re-indexed into one fresh automaton *)
Definition union_with (hA hB : N -> N) (A B : ta) : ta := ta_app (image hA A) (image hB B).
Definition valid_union (hA hB : N -> N) (A B : ta) :=
  inj_on hA (states A) /\ inj_on hB (states B) /\ disjoint (map hA (states A)) (map hB (states B)).

Theorem union_lang hA hB A B : valid_union hA hB A B ->
  forall t, accepts (union_with hA hB A B) t <-> accepts A t \/ accepts B t.
Proof.
  intros [IA [IB D]] t. unfold union_with. rewrite app_lang.
  - rewrite (image_lang_inj hA A IA), (image_lang_inj hB B IB). tauto.
  - intros x Hx Hy. apply image_states in Hx as [a [Ha ->]]. apply image_states in Hy as [b [Hb E]].
    apply (D (hA a)); [apply in_map; auto | rewrite E; apply in_map; auto].
Qed.

(* ---------- deciding  L(A) /\ L(X,F1) <= L(X,F2)  (used for intersections) ---------- *)
Definition incl2_dec (A X : ta) (F1 F2 : list N) : bool :=
  forallb (fun p : mp => implb (memN (fst p) (finals A) && existsb (fun q => memN q F1) (snd p))
                               (existsb (fun q => memN q F2) (snd p))) (macro_reach A X).

Lemma evalset_in X t p : In p (evalset X t) <-> reach X t p.
Proof. unfold evalset. rewrite filter_In, memN_In, eval_spec, QB_in. split; [tauto|]. intros R; split; auto. eapply reach_state; eauto. Qed.

Lemma existsb_evalset X t F : existsb (fun q => memN q F) (evalset X t) = true <-> accepts (with_finals F X) t.
Proof.
  rewrite existsb_exists, with_finals_accepts. split; intros [q [H1 H2]]; exists q.
  - apply memN_In in H2. apply evalset_in in H1. auto.
  - split; [apply evalset_in; auto | apply memN_In; auto].
Qed.

Theorem incl2_dec_spec A X F1 F2 : incl2_dec A X F1 F2 = true <->
  forall t, accepts A t -> accepts (with_finals F1 X) t -> accepts (with_finals F2 X) t.
Proof.
  unfold incl2_dec. rewrite forallb_forall. split.
  - intros H t [q [Hq R]] H1. specialize (H (q, evalset X t)). simpl in H.
    assert (Hin : In (q, evalset X t) (macro_reach A X)) by (apply macro_reach_spec; eauto).
    specialize (H Hin). apply memN_In in Hq. apply existsb_evalset in H1. rewrite Hq, H1 in H. simpl in H.
    apply existsb_evalset; auto.
  - intros H [q S] Hin. simpl. apply macro_reach_spec in Hin as [t [Ht ->]].
    destruct (memN q (finals A)) eqn:Eq; simpl; auto.
    destruct (existsb (fun q0 => memN q0 F1) (evalset X t)) eqn:E1; simpl; auto.
    apply existsb_evalset. apply H; [exists q; split; auto; apply memN_In; auto | apply existsb_evalset; auto].
Qed.

Definition d0 (x : N) : N := 2 * x.
Definition d1 (x : N) : N := 2 * x + 1.
Lemma d0_inj l : inj_on d0 l. Proof. intros x y _ _. unfold d0. lia. Qed.
Lemma d1_inj l : inj_on d1 l. Proof. intros x y _ _. unfold d1. lia. Qed.
Lemma d01_disjoint l m : disjoint (map d0 l) (map d1 m).
Proof. intros x Hx Hy. apply in_map_iff in Hx as [a [<- _]]. apply in_map_iff in Hy as [b [E _]]. unfold d0, d1 in E. lia. Qed.

Definition tagged (B R : ta) : ta := union_with d0 d1 B R.

Lemma tagged_left B R t : accepts (with_finals (map d0 (finals B)) (tagged B R)) t <-> accepts B t.
Proof.
  assert (E : forall u, accepts (with_finals (map d0 (finals B)) (tagged B R)) u <->
                        accepts (ta_app (image d0 B) (with_finals [] (image d1 R))) u).
  { intros u. unfold accepts; simpl. rewrite app_nil_r. split; intros [q [H1 H2]]; exists q; split; auto;
    revert H2; apply reach_mono; simpl; apply incl_refl. }
  rewrite E, app_lang.
  - rewrite (image_lang_inj d0 B (d0_inj _)). split; [intros [H|[q [[] _]]]; auto | auto].
  - intros x Hx Hy. apply image_states in Hx as [a [Ha ->]].
    assert (Hy' : In (d0 a) (states (image d1 R))).
    { unfold states in *. simpl in *. rewrite app_nil_r in Hy. apply in_or_app; left; auto. }
    apply image_states in Hy' as [b [Hb Eb]]. unfold d0, d1 in Eb. lia.
Qed.

Lemma tagged_right B R t : accepts (with_finals (map d1 (finals R)) (tagged B R)) t <-> accepts R t.
Proof.
  assert (E : forall u, accepts (with_finals (map d1 (finals R)) (tagged B R)) u <->
                        accepts (ta_app (with_finals [] (image d0 B)) (image d1 R)) u).
  { intros u. unfold accepts; simpl. split; intros [q [H1 H2]]; exists q; split; auto;
    revert H2; apply reach_mono; simpl; apply incl_refl. }
  rewrite E, app_lang.
  - rewrite (image_lang_inj d1 R (d1_inj _)). split; [intros [[q [[] _]]|H]; auto | auto].
  - intros x Hx Hy. apply image_states in Hy as [a [Ha ->]].
    assert (Hx' : In (d1 a) (states (image d0 B))).
    { unfold states in *. simpl in *. rewrite app_nil_r in Hx. apply in_or_app; left; auto. }
    apply image_states in Hx' as [b [Hb Eb]]. unfold d0, d1 in Eb. lia.
Qed.

(* gate: R accepts exactly the intersection of A and B *)
Definition isect_gate (A B R : ta) : bool :=
  incl_dec R A && incl_dec R B &&
  incl2_dec A (tagged B R) (map d0 (finals B)) (map d1 (finals R)).

Theorem isect_gate_spec A B R : isect_gate A B R = true <-> forall t, accepts R t <-> accepts A t /\ accepts B t.
Proof.
  unfold isect_gate. rewrite !andb_true_iff, !incl_dec_spec, incl2_dec_spec. unfold lincl. split.
  - intros [[H1 H2] H3] t. split; [intros; split; auto|]. intros [Ha Hb].
    apply (tagged_right B R). apply H3; auto. apply (tagged_left B R); auto.
  - intros H. split; [split|]; try (intros t Ht; apply H in Ht; tauto).
    intros t Ha Hb. apply tagged_right. apply H. split; auto. apply (tagged_left B R t); auto.
Qed.

(* gate: R accepts exactly the union of A and B *)
Definition union_gate (A B R : ta) : bool :=
  incl_dec A R && incl_dec B R && incl_dec R (tagged A B).

Lemma tagged_lang A B t : accepts (tagged A B) t <-> accepts A t \/ accepts B t.
Proof. apply union_lang. split; [apply d0_inj|]. split; [apply d1_inj | apply d01_disjoint]. Qed.

Theorem union_gate_spec A B R : union_gate A B R = true <-> forall t, accepts R t <-> accepts A t \/ accepts B t.
Proof.
  unfold union_gate. rewrite !andb_true_iff, !incl_dec_spec. unfold lincl. split.
  - intros [[H1 H2] H3] t. split; [intros Ht; apply tagged_lang; auto | intros [H|H]; auto].
  - intros H. split; [split|]; intros t Ht; try (apply H; auto). apply tagged_lang. apply H; auto.
Qed.

(* ---------- word automata: semantics, encoding as unary tree automata ---------- *)
Record nfa := { nstarts : list N; nfinals : list N; edges : list (N * N * N) }.   (* (source, symbol, target) *)

Fixpoint wpath (A : nfa) (w : list N) (p q : N) : Prop :=
  match w with [] => p = q | a :: w' => exists m, In (p, a, m) (edges A) /\ wpath A w' m q end.
Definition waccepts (A : nfa) (w : list N) : Prop :=
  exists p q, In p (nstarts A) /\ In q (nfinals A) /\ wpath A w p q.
Definition wlincl (A B : nfa) := forall w, waccepts A w -> waccepts B w.

(* states reached after reading a word given in reverse *)
Fixpoint wreach (A : nfa) (rw : list N) (q : N) : Prop :=
  match rw with [] => In q (nstarts A) | a :: r => exists p, wreach A r p /\ In (p, a, q) (edges A) end.

Lemma wpath_app A w1 : forall w2 p q, wpath A (w1 ++ w2) p q <-> exists m, wpath A w1 p m /\ wpath A w2 m q.
Proof.
  induction w1 as [|a w1 IH]; simpl; intros w2 p q.
  - split; [intros H; exists p; auto | intros [m [-> H]]; auto].
  - split.
    + intros [m [He H]]. apply IH in H as [m' [H1 H2]]. exists m'. split; auto. exists m; auto.
    + intros [m' [[m [He H1]] H2]]. exists m. split; auto. apply IH. exists m'; auto.
Qed.

Lemma wreach_wpath A : forall rw q, wreach A rw q <-> exists p, In p (nstarts A) /\ wpath A (rev rw) p q.
Proof.
  induction rw as [|a r IH]; simpl; intros q.
  - split; [intros H; exists q; auto | intros [p [H ->]]; auto].
  - split.
    + intros [p [H He]]. apply IH in H as [s [Hs Hp]]. exists s. split; auto. apply wpath_app. exists p. split; auto.
      simpl. exists q; auto.
    + intros [s [Hs H]]. apply wpath_app in H as [m [H1 [m' [He ->]]]]. exists m. split; auto. apply IH. exists s; auto.
Qed.

Lemma waccepts_wreach A w : waccepts A w <-> exists q, In q (nfinals A) /\ wreach A (rev w) q.
Proof.
  unfold waccepts. split.
  - intros [p [q [Hp [Hq H]]]]. exists q. split; auto. apply wreach_wpath. exists p. rewrite rev_involutive; auto.
  - intros [q [Hq H]]. apply wreach_wpath in H as [p [Hp H]]. rewrite rev_involutive in H. exists p, q; auto.
Qed.

Definition enc_start (s : N) : rule := {| sym := 0; ch := []; par := s |}.
Definition enc_edge (e : N * N * N) : rule := let '(p, a, q) := e in {| sym := N.succ a; ch := [p]; par := q |}.
Definition enc (A : nfa) : ta :=
  {| rules := map enc_start (nstarts A) ++ map enc_edge (edges A); finals := nfinals A |}.

Fixpoint wtree (rw : list N) : tree :=
  match rw with [] => Node 0 [] | a :: r => Node (N.succ a) [wtree r] end.

Lemma enc_rule A r : In r (rules (enc A)) <->
  (exists s, In s (nstarts A) /\ r = enc_start s) \/ (exists p a q, In (p, a, q) (edges A) /\ r = enc_edge (p, a, q)).
Proof.
  simpl. rewrite in_app_iff, !in_map_iff. split.
  - intros [[s [<- H]]|[[[p a] q] [<- H]]]; [left; exists s; auto | right; exists p, a, q; auto].
  - intros [[s [H ->]]|[p [a [q [H ->]]]]]; [left; exists s; auto | right; exists (p, a, q); auto].
Qed.

Lemma enc_reach_wtree A : forall rw q, reach (enc A) (wtree rw) q <-> wreach A rw q.
Proof.
  induction rw as [|a r IH]; simpl; intros q.
  - split.
    + intros R. inversion R as [f ts r0 Hr Hs HF]; subst. apply enc_rule in Hr as [[s [Hs' ->]]|[p [a [q' [He ->]]]]]; simpl in *; auto.
      destruct a; discriminate.
    + intros H. change q with (par (enc_start q)). constructor; simpl; auto.
      apply in_or_app; left. apply in_map; auto.
  - split.
    + intros R. inversion R as [f ts r0 Hr Hs HF]; subst. apply enc_rule in Hr as [[s [Hs' ->]]|[p [a' [q' [He ->]]]]]; simpl in *.
      * destruct a; discriminate.
      * apply N.succ_inj in Hs. subst. inversion HF as [|? ? ? ? H1 H2]; subst. exists p. split; auto. apply IH; auto.
    + intros [p [H He]]. change q with (par (enc_edge (p, a, q))). constructor; simpl; auto.
      * apply in_or_app; right. apply (in_map enc_edge) in He. exact He.
      * constructor; [apply IH; auto | constructor].
Qed.

Lemma enc_reach_shape A : forall t q, reach (enc A) t q -> exists rw, t = wtree rw.
Proof.
  apply (reach_ind' (enc A) (fun t _ => exists rw, t = wtree rw)).
  intros f ts r Hr Hs HF IH. apply enc_rule in Hr as [[s [Hs' ->]]|[p [a [q' [He ->]]]]]; simpl in *.
  - inversion HF; subst. exists []. reflexivity.
  - inversion IH as [|t c ts' cs [rw ->] F]; subst. inversion F; subst. exists (a :: rw). reflexivity.
Qed.

Theorem enc_accepts A w : waccepts A w <-> accepts (enc A) (wtree (rev w)).
Proof.
  rewrite waccepts_wreach. unfold accepts. simpl. split; intros [q [Hq H]]; exists q; split; auto; apply enc_reach_wtree; auto.
Qed.

Theorem enc_lincl A B : wlincl A B <-> lincl (enc A) (enc B).
Proof.
  split.
  - intros H t Ht. destruct Ht as [q [Hq R]]. destruct (enc_reach_shape A t q R) as [rw ->].
    rewrite <- (rev_involutive rw). apply enc_accepts. apply H. apply enc_accepts. rewrite rev_involutive. exists q; auto.
  - intros H w Hw. apply enc_accepts. apply H. apply enc_accepts; auto.
Qed.

Definition wincl_dec (A B : nfa) : bool := incl_dec (enc A) (enc B).
Theorem wincl_dec_spec A B : wincl_dec A B = true <-> wlincl A B.
Proof. unfold wincl_dec. rewrite incl_dec_spec. symmetry. apply enc_lincl. Qed.

Definition wequiv_dec (A B : nfa) : bool := wincl_dec A B && wincl_dec B A.
Theorem wequiv_dec_spec A B : wequiv_dec A B = true <-> forall w, waccepts A w <-> waccepts B w.
Proof.
  unfold wequiv_dec. rewrite andb_true_iff, !wincl_dec_spec. unfold wlincl. split.
  - intros [H1 H2] w; split; auto.
  - intros H; split; intros w Hw; apply H; auto.
Qed.

Definition wis_empty (A : nfa) : bool := is_empty (enc A).
Theorem wis_empty_spec A : wis_empty A = true <-> forall w, ~ waccepts A w.
Proof.
  unfold wis_empty. rewrite is_empty_spec. split.
  - intros H w Hw. apply enc_accepts in Hw. apply (H _ Hw).
  - intros H t Ht. destruct Ht as [q [Hq R]]. destruct (enc_reach_shape A t q R) as [rw ->].
    apply (H (rev rw)). apply enc_accepts. rewrite rev_involutive. exists q; auto.
Qed.
